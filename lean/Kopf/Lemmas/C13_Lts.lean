/-
  C13 helper lemmas — the transition system: the "current view" invariant, frames of `deliver`,
  settling after a batch of deliveries.
-/
import Kopf.Lemmas.C13_Decide
namespace Kopf.C13

theorem blockedB_iff {u : Int} {st : Status} {i : Identity} {p : Int} {t : Int} :
    blockedB u st i p t = true ↔ ∃ j r, (j, r) ∈ st ∧ j ≠ i ∧ r.dead u t = false ∧ r.priority ≥ p := by
  simp only [blockedB, List.any_eq_true, Bool.and_eq_true, bne_iff_ne, ne_eq, Bool.not_eq_true', decide_eq_true_eq]
  constructor
  · rintro ⟨⟨j, r⟩, hm, ⟨h1, h2⟩, h3⟩
    exact ⟨j, r, hm, h1, h2, h3⟩
  · rintro ⟨j, r, hm, h1, h2, h3⟩
    exact ⟨(j, r), hm, ⟨h1, h2⟩, h3⟩

theorem dead_false_iff {u : Int} {r : Rec} {now : Int} :
    r.dead u now = false ↔ now < r.lastseen + r.lifetime * u := by
  unfold Rec.dead Rec.deadline
  rw [decide_eq_false_iff_not]
  exact Int.not_le

theorem dead_true_iff {u : Int} {r : Rec} {now : Int} :
    r.dead u now = true ↔ r.lastseen + r.lifetime * u ≤ now := by
  unfold Rec.dead Rec.deadline
  exact decide_eq_true_iff

theorem toPeer_isDead (u : Int) (now : Int) (i : Identity) (r : Rec) :
    (r.toPeer i).isDead u now = r.dead u now := rfl

theorem blocks_toPeer {u : Int} {now : Int} {me : Identity} {p : Int} {j : Identity} {r : Rec} :
    Blocks u now me p (r.toPeer j) ↔ j ≠ me ∧ r.dead u now = false ∧ r.priority ≥ p := by
  simp only [Blocks, Rec.toPeer, Peer.isDead, Peer.deadline, Rec.dead, Rec.deadline, Option.some.injEq]
  constructor
  · rintro ⟨h1, h2, x, rfl, h3⟩; exact ⟨h1, h2, h3⟩
  · rintro ⟨h1, h2, h3⟩; exact ⟨h1, h2, _, rfl, h3⟩

theorem decideCore_status_paused {u : Int} {st : Status} {i : Identity} {p : Int} {ac b : Bool} {now now2 : Int} :
    (decideCore u st.peers i p ac (some b) now now2).paused = some (blockedB u st i p now) := by
  obtain ⟨x, hx⟩ := decideCore_paused_isSome (u := u) (ps := st.peers) (me := i) (myPrio := p) (ac := ac) (t0 := b)
    (now := now) (now2 := now2)
  rw [hx]
  congr 1
  have h1 := decideCore_paused (u := u) (ps := st.peers) (me := i) (myPrio := p) (ac := ac) (t0 := b)
    (now := now) (now2 := now2)
  rw [hx] at h1
  have h2 : (∃ q ∈ st.peers, Blocks u now i p q) ↔ blockedB u st i p now = true := by
    rw [blockedB_iff]
    simp only [Status.peers, List.mem_map]
    constructor
    · rintro ⟨q, ⟨⟨j, r⟩, hm, rfl⟩, hb⟩
      have := blocks_toPeer.mp hb
      exact ⟨j, r, hm, this⟩
    · rintro ⟨j, r, hm, hb⟩
      exact ⟨r.toPeer j, ⟨(j, r), hm, rfl⟩, blocks_toPeer.mpr hb⟩
  cases x with
  | true => rw [h2.mp (h1.mp rfl)]
  | false =>
    cases hb : blockedB u st i p now with
    | false => rfl
    | true => exact absurd (h1.mpr (h2.mpr hb)) (by simp)

theorem blockedB_filter (u : Int) (st : Status) (i : Identity) (p : Int) (now : Int) (k : Identity) :
    blockedB u (st.filter (fun e => !(e.2.dead u now && e.1 != k))) i p now = blockedB u st i p now := by
  rw [Bool.eq_iff_iff, blockedB_iff, blockedB_iff]
  constructor
  · rintro ⟨j, r, hm, h⟩
    exact ⟨j, r, (List.mem_filter.mp hm).1, h⟩
  · rintro ⟨j, r, hm, h1, h2, h3⟩
    exact ⟨j, r, List.mem_filter.mpr ⟨hm, by simp [h2]⟩, h1, h2, h3⟩

/-- blocking depends only on the live part of the status. -/
theorem blockedB_congr {u : Int} {st st' : Status} {i : Identity} {p : Int} {t t' : Int}
    (h : ∀ j r, (r.dead u t = false ∧ (j, r) ∈ st) ↔ (r.dead u t' = false ∧ (j, r) ∈ st')) :
    blockedB u st i p t = blockedB u st' i p t' := by
  rw [Bool.eq_iff_iff, blockedB_iff, blockedB_iff]
  constructor
  · rintro ⟨j, r, hm, h1, h2, h3⟩
    obtain ⟨h2', hm'⟩ := (h j r).mp ⟨h2, hm⟩
    exact ⟨j, r, hm', h1, h2', h3⟩
  · rintro ⟨j, r, hm, h1, h2, h3⟩
    obtain ⟨h2', hm'⟩ := (h j r).mpr ⟨h2, hm⟩
    exact ⟨j, r, hm', h1, h2', h3⟩

theorem cleaned_empty_filter {u : Int} {st : Status} {i : Identity} {p : Int} {tg : Option Bool} {now now2 : Int}
    (h : (decideCore u st.peers i p true tg now now2).cleaned.isEmpty = true) :
    st.filter (fun e => !(e.2.dead u now && e.1 != i)) = st := by
  simp only [decideCore, if_true, List.isEmpty_iff, List.map_eq_nil_iff, deadPeers, Status.peers,
    List.filter_eq_nil_iff, List.mem_map] at h
  apply List.filter_eq_self.mpr
  intro e he
  have h1 := h (e.2.toPeer e.1) ⟨e, he, rfl⟩
  rw [toPeer_isDead] at h1
  cases hd : e.2.dead u now with
  | false => simp
  | true =>
    rw [hd] at h1
    simp only [Rec.toPeer, Bool.true_and, bne_iff_ne, ne_eq, Decidable.not_not] at h1
    simp [h1]

@[simp] theorem updOp_same (ops : Identity → Option Op) (i : Identity) (o : Op) : updOp ops i o i = some o := by
  simp [updOp]
theorem updOp_other (ops : Identity → Option Op) {i k : Identity} (o : Op) (h : k ≠ i) : updOp ops i o k = ops k := by
  simp [updOp, h]

/-! ### what each label does, spelled out -/

theorem guard_iff {o : Op} : (o.alive && !o.exiting) = true ↔ o.alive = true ∧ o.exiting = false := by
  cases o.alive <;> cases o.exiting <;> simp

/-- does the call of operator k on the current status end in a sleep-then-touch? -/
def willTouch (u : Int) (s : State) (k : Identity) (o : Op) : Bool :=
  (decideCore u s.status.peers k o.prio true (some o.paused) s.now s.now).touch

/-- does the call of operator i on `view` end in a sleep-then-touch? -/
def willTouchView (u : Int) (view : Status) (i : Identity) (o : Op) (now : Int) : Bool :=
  (decideCore u view.peers i o.prio true (some o.paused) now now).touch

/-- the identities a call on `view` hands to `clean()` -/
def staleCleaned (u : Int) (view : Status) (i : Identity) (now : Int) : List Identity :=
  (deadPeers u now i view.peers).map (·.id)

theorem start_spec {u : Int} {s s1 : State} {i : Identity} {p L : Int} (h : step u s (.start i p L) = some s1) :
    s1.now = s.now ∧ s1.status = s.status ∧ s1.ver = s.ver ∧ (∀ o, s.ops i = some o → o.alive = false) ∧
      s1.ops = updOp s.ops i { prio := p, lifetime := L, alive := true, paused := true, seen := none } := by
  simp only [step] at h
  cases hk : s.ops i with
  | none =>
    simp only [hk, Option.some.injEq] at h
    subst h
    refine ⟨rfl, rfl, rfl, ?_, rfl⟩
    intro o ho; cases ho
  | some o =>
    simp only [hk] at h
    by_cases ha : o.alive = true
    · simp [ha] at h
    · rw [if_neg ha] at h
      simp only [Option.some.injEq] at h
      subst h
      refine ⟨rfl, rfl, rfl, ?_, rfl⟩
      intro o' ho'
      injection ho' with e
      subst e
      simpa using ha

theorem keepalive_spec {u : Int} {s s1 : State} {i : Identity} {lag : Nat} (h : step u s (.keepalive i lag) = some s1) :
    ∃ o, s.ops i = some o ∧ o.alive = true ∧ s1.now = s.now ∧ s1.ver = s.ver + 1 ∧
      s1.status = s.status.patch i (touchVal u o.prio o.lifetime (s.now - lag)) ∧
      s1.ops = updOp s.ops i { o with nextKA := some (s.now + (o.lifetime * u - marginT u o.lifetime)) } := by
  simp only [step] at h
  cases hk : s.ops i with
  | none => simp [hk] at h
  | some o =>
    simp only [hk] at h
    by_cases hg : o.alive = true
    · rw [if_pos hg] at h
      simp only [Option.some.injEq] at h
      subst h
      exact ⟨o, rfl, hg, rfl, rfl, rfl, rfl⟩
    · rw [if_neg hg] at h; cases h

theorem exit_spec {u : Int} {s s1 : State} {a : Identity} (h : step u s (.exit a) = some s1) :
    ∃ o, s.ops a = some o ∧ o.alive = true ∧ s1.now = s.now ∧ s1.status = s.status.erase a ∧
      s1.ops = updOp s.ops a { o with alive := false, sleeping := false, nextKA := none, inflight := none } ∧ s1.ver = s.ver + 1 := by
  simp only [step] at h
  cases hk : s.ops a with
  | none => simp [hk] at h
  | some o =>
    simp only [hk] at h
    by_cases hg : (o.alive && !o.exiting) = true
    · rw [if_pos hg] at h
      simp only [Option.some.injEq] at h
      subst h
      have hz : touchVal u o.prio 0 s.now = none := by simp [touchVal, Rec.dead, Rec.deadline]
      exact ⟨o, rfl, (guard_iff.mp hg).1, rfl, by simp only [hz, Status.patch], rfl, rfl⟩
    · rw [if_neg hg] at h; cases h

theorem keepaliveFail_spec {u : Int} {s s1 : State} {a : Identity} {w : Bool} (h : step u s (.keepaliveFail a w) = some s1) :
    ∃ o, s.ops a = some o ∧ o.alive = true ∧ s1.now = s.now ∧
      s1.status = (if w then s.status.erase a else s.status) ∧ s1.ver = (if w then s.ver + 1 else s.ver) ∧
      s1.ops = updOp s.ops a { o with exiting := true, sleeping := false, nextKA := none } := by
  simp only [step] at h
  cases hk : s.ops a with
  | none => simp [hk] at h
  | some o =>
    simp only [hk] at h
    by_cases ha : o.alive = true
    · rw [if_pos ha] at h
      simp only [Option.some.injEq] at h
      subst h
      exact ⟨o, rfl, ha, rfl, rfl, rfl, rfl⟩
    · simp [ha] at h

theorem exitBegin_spec {u : Int} {s s1 : State} {a : Identity} (h : step u s (.exitBegin a) = some s1) :
    ∃ o, s.ops a = some o ∧ o.alive = true ∧ o.exiting = false ∧ s1.now = s.now ∧ s1.status = s.status ∧ s1.ver = s.ver ∧
      s1.ops = updOp s.ops a { o with exiting := true, sleeping := false } := by
  simp only [step] at h
  cases hk : s.ops a with
  | none => simp [hk] at h
  | some o =>
    simp only [hk] at h
    by_cases hg : (o.alive && !o.exiting) = true
    · rw [if_pos hg] at h
      simp only [Option.some.injEq] at h
      subst h
      exact ⟨o, rfl, (guard_iff.mp hg).1, (guard_iff.mp hg).2, rfl, rfl, rfl, rfl⟩
    · rw [if_neg hg] at h; cases h

theorem exitEnd_spec {u : Int} {s s1 : State} {a : Identity} (h : step u s (.exitEnd a) = some s1) :
    ∃ o, s.ops a = some o ∧ o.alive = true ∧ o.exiting = true ∧ s1.now = s.now ∧ s1.status = s.status.erase a ∧
      s1.ver = s.ver + 1 ∧
      s1.ops = updOp s.ops a { o with alive := false, exiting := false, sleeping := false, nextKA := none, inflight := none } := by
  simp only [step] at h
  cases hk : s.ops a with
  | none => simp [hk] at h
  | some o =>
    simp only [hk] at h
    by_cases hg : (o.alive && o.exiting) = true
    · rw [if_pos hg] at h
      simp only [Option.some.injEq] at h
      subst h
      have : o.alive = true ∧ o.exiting = true := by simpa using hg
      have hz : touchVal u o.prio 0 s.now = none := by simp [touchVal, Rec.dead, Rec.deadline]
      exact ⟨o, rfl, this.1, this.2, rfl, by simp only [hz, Status.patch], rfl, rfl⟩
    · rw [if_neg hg] at h; cases h

theorem kill_spec {u : Int} {s s1 : State} {a : Identity} (h : step u s (.kill a) = some s1) :
    ∃ o, s.ops a = some o ∧ o.alive = true ∧ s1.now = s.now ∧ s1.status = s.status ∧
      s1.ops = updOp s.ops a { o with alive := false, sleeping := false } ∧ s1.ver = s.ver := by
  simp only [step] at h
  cases hk : s.ops a with
  | none => simp [hk] at h
  | some o =>
    simp only [hk] at h
    by_cases ha : o.alive = true
    · rw [if_pos ha] at h
      simp only [Option.some.injEq] at h
      subst h
      exact ⟨o, rfl, ha, rfl, rfl, rfl, rfl⟩
    · simp [ha] at h

theorem exitLost_spec {u : Int} {s s1 : State} {a : Identity} (h : step u s (.exitLost a) = some s1) :
    ∃ o, s.ops a = some o ∧ o.alive = true ∧ s1.now = s.now ∧ s1.status = s.status ∧
      s1.ops = updOp s.ops a { o with alive := false, sleeping := false } ∧ s1.ver = s.ver := by
  simp only [step] at h
  cases hk : s.ops a with
  | none => simp [hk] at h
  | some o =>
    simp only [hk] at h
    by_cases ha : o.alive = true
    · rw [if_pos ha] at h
      simp only [Option.some.injEq] at h
      subst h
      exact ⟨o, rfl, ha, rfl, rfl, rfl, rfl⟩
    · simp [ha] at h

theorem wake_spec {u : Int} {s s1 : State} {i : Identity} {lag : Nat} (h : step u s (.wake i lag) = some s1) :
    ∃ o, s.ops i = some o ∧ o.sleeping = true ∧ s1.now = s.now ∧
      s1.status = s.status.patch i (touchVal u o.prio o.lifetime (s.now - lag)) ∧
      s1.ops = updOp s.ops i { o with sleeping := false } ∧ s1.ver = s.ver + 1 := by
  simp only [step] at h
  cases hk : s.ops i with
  | none => simp [hk] at h
  | some o =>
    simp only [hk] at h
    by_cases ha : o.sleeping = true
    · rw [if_pos ha] at h
      simp only [Option.some.injEq] at h
      subst h
      exact ⟨o, rfl, ha, rfl, rfl, rfl, rfl⟩
    · simp [ha] at h

theorem wakeIssue_spec {u : Int} {s s1 : State} {i : Identity} (h : step u s (.wakeIssue i) = some s1) :
    ∃ o, s.ops i = some o ∧ o.sleeping = true ∧ o.inflight = none ∧ s1.now = s.now ∧ s1.status = s.status ∧ s1.ver = s.ver ∧
      s1.ops = updOp s.ops i { o with sleeping := false, inflight := some s.now } := by
  simp only [step] at h
  cases hk : s.ops i with
  | none => simp [hk] at h
  | some o =>
    simp only [hk] at h
    by_cases ha : (o.sleeping && o.inflight.isNone) = true
    · rw [if_pos ha] at h
      simp only [Option.some.injEq] at h
      subst h
      simp only [Bool.and_eq_true, Option.isNone_iff_eq_none] at ha
      exact ⟨o, rfl, ha.1, ha.2, rfl, rfl, rfl, rfl⟩
    · simp [ha] at h

theorem land_spec {u : Int} {s s1 : State} {i : Identity} (h : step u s (.land i) = some s1) :
    ∃ o t, s.ops i = some o ∧ o.inflight = some t ∧ s1.now = s.now ∧
      s1.status = s.status.patch i (touchVal u o.prio o.lifetime t) ∧
      s1.ops = updOp s.ops i { o with inflight := none } ∧ s1.ver = s.ver + 1 := by
  simp only [step] at h
  cases hk : s.ops i with
  | none => simp [hk] at h
  | some o =>
    simp only [hk] at h
    cases ht : o.inflight with
    | none => simp [ht] at h
    | some t =>
      simp only [ht, Option.some.injEq] at h
      subst h
      exact ⟨o, t, rfl, ht, rfl, rfl, rfl, rfl⟩

/-- a call ends in sleep-then-touch exactly when somebody blocks the operator -/
theorem decideCore_touch {u : Int} {st : Status} {i : Identity} {p : Int} {ac : Bool} {tg : Option Bool} {now now2 : Int} :
    (decideCore u st.peers i p ac tg now now2).touch = blockedB u st i p now := by
  have h1 := decideCore_status_paused (u := u) (st := st) (i := i) (p := p) (ac := ac) (b := true) (now := now) (now2 := now2)
  simp only [decideCore, Option.map_some, Option.some.injEq] at h1
  rw [← h1]
  simp only [decideCore]
  cases hs : samePeers p (livePeers u now i st.peers) <;> cases hp : prioPeers p (livePeers u now i st.peers) <;> simp

/-- what a successful `deliver k` does, spelled out. -/
theorem deliver_spec {u : Int} {s s1 : State} {k : Identity} (h : step u s (.deliver k) = some s1) :
    ∃ o, s.ops k = some o ∧ o.alive = true ∧ s1.now = s.now ∧
      s1.status = s.status.filter (fun e => !(e.2.dead u s.now && e.1 != k)) ∧
      s.ver ≤ s1.ver ∧ (s1.ver = s.ver → s1.status = s.status) ∧
      s1.ops = updOp s.ops k { o with paused := blockedB u s.status k o.prio s.now, seen := some (s.ver, s.now),
                                      sleeping := willTouch u s k o } := by
  simp only [step, deliverNow] at h
  cases hk : s.ops k with
  | none => simp [hk] at h
  | some o =>
    simp only [hk] at h
    by_cases hg : (o.alive && !o.exiting) = true
    · rw [if_pos hg] at h
      simp only [Option.some.injEq] at h
      subst h
      refine ⟨o, rfl, (guard_iff.mp hg).1, rfl, rfl, ?_, ?_, ?_⟩
      · simp only; split <;> omega
      · simp only
        intro hv
        split at hv
        · rename_i hc; exact hc
        · omega
      · simp only [decideCore_status_paused, Option.getD_some, willTouch]
    · rw [if_neg hg] at h; cases h

/-- what a call on an older `view` records as "seen": the current version if the view's verdict is the current status' -/
def staleSeen (u : Int) (s : State) (i : Identity) (prio : Int) (view : Status) : Option (Nat × Int) :=
  if sameVerdict u s i prio view then some (s.ver, s.now) else none

theorem deliver_not_exiting {u : Int} {s s1 : State} {a : Identity} {o : Op} (h : step u s (.deliver a) = some s1)
    (ho : s.ops a = some o) : o.exiting = false := by
  simp only [step, ho] at h
  by_cases hg : (o.alive && !o.exiting) = true
  · exact (guard_iff.mp hg).2
  · simp [hg] at h

/-- a view of the CURRENT version is the current status (a version identifies a content), and processing it is `deliver`:
    the clean, naming the current version, is accepted -/
theorem stale_current {u : Int} {s s1 : State} {i : Identity} {view : Status} {vv : Nat}
    (h : step u s (.deliverStale i view vv) = some s1) (hv : vv = s.ver) :
    view = s.status ∧ step u s (.deliver i) = some s1 := by
  simp only [step] at h ⊢
  cases hk : s.ops i with
  | none => simp [hk] at h
  | some o =>
    simp only [hk] at h ⊢
    by_cases hg : (o.alive && !o.exiting) = true
    · rw [if_pos hg] at h
      rw [if_pos hg]
      rw [if_pos hv] at h
      by_cases hc : view = s.status
      · rw [if_pos hc] at h; exact ⟨hc, h⟩
      · rw [if_neg hc] at h; cases h
    · rw [if_neg hg] at h; cases h

/-- a view of an OLDER version: its clean is refused (409), the status and its version stay as they are; only the
    operator's own flags follow the view's verdict -/
theorem stale_refused_spec {u : Int} {s s1 : State} {i : Identity} {view : Status} {vv : Nat}
    (h : step u s (.deliverStale i view vv) = some s1) (hv : vv ≠ s.ver) :
    ∃ o, s.ops i = some o ∧ o.alive = true ∧ o.exiting = false ∧ s1.now = s.now ∧ s1.status = s.status ∧ s1.ver = s.ver ∧
      s1.ops = updOp s.ops i { o with paused := blockedB u view i o.prio s.now, sleeping := willTouchView u view i o s.now,
                                      seen := staleSeen u s i o.prio view } := by
  simp only [step] at h
  cases hk : s.ops i with
  | none => simp [hk] at h
  | some o =>
    simp only [hk] at h
    by_cases hg : (o.alive && !o.exiting) = true
    · rw [if_pos hg, if_neg hv] at h
      simp only [Option.some.injEq] at h
      subst h
      refine ⟨o, rfl, (guard_iff.mp hg).1, (guard_iff.mp hg).2, rfl, rfl, rfl, ?_⟩
      simp only [decideCore_status_paused, Option.getD_some, willTouchView, staleSeen]
    · rw [if_neg hg] at h; cases h

/-- what every `deliverStale` does, whatever the view and its version: the clock stays, the status stays or loses exactly
    what `deliver` removes, the operator's entry keeps everything but `paused`, `sleeping`, `seen` -/
theorem stale_spec {u : Int} {s s1 : State} {i : Identity} {view : Status} {vv : Nat}
    (h : step u s (.deliverStale i view vv) = some s1) :
    ∃ o onew, s.ops i = some o ∧ o.alive = true ∧ o.exiting = false ∧ s1.now = s.now ∧
      (s1.status = s.status ∨ s1.status = s.status.filter (fun e => !(e.2.dead u s.now && e.1 != i))) ∧
      s.ver ≤ s1.ver ∧ (s1.ver = s.ver → s1.status = s.status) ∧
      s1.ops = updOp s.ops i onew ∧ onew.prio = o.prio ∧ onew.lifetime = o.lifetime ∧ onew.alive = o.alive ∧
      onew.exiting = o.exiting ∧ onew.nextKA = o.nextKA ∧ onew.inflight = o.inflight := by
  by_cases hv : vv = s.ver
  · obtain ⟨_, hd⟩ := stale_current h hv
    obtain ⟨o, ho, ha, hnow, hst, hver, hsame, hops⟩ := deliver_spec hd
    exact ⟨o, _, ho, ha, deliver_not_exiting hd ho, hnow, Or.inr hst, hver, hsame, hops, rfl, rfl, rfl, rfl, rfl, rfl⟩
  · obtain ⟨o, ho, ha, he, hnow, hst, hver, hops⟩ := stale_refused_spec h hv
    exact ⟨o, _, ho, ha, he, hnow, Or.inl hst, by omega, fun _ => hst, hops, rfl, rfl, rfl, rfl, rfl, rfl⟩

/-! ### the "current verdict" invariant -/

/-- An operator whose last processed version is the current one holds exactly the pause verdict of
    the current status (evaluated at the time it processed it). -/
def Inv (u : Int) (s : State) : Prop :=
  ∀ i op, s.ops i = some op → ∀ v t, op.seen = some (v, t) →
    v ≤ s.ver ∧ (v = s.ver → op.paused = blockedB u s.status i op.prio t)

theorem inv_init (u : Int) : Inv u init := by
  intro i op h; simp [init] at h

/-- a step that leaves (or forgets) what every operator has seen, and does not rewind the version -/
theorem inv_frame {u : Int} {s s' : State} (hi : Inv u s) (hver : s.ver ≤ s'.ver)
    (hst : s'.ver = s.ver → s'.status = s.status)
    (hops : ∀ k op', s'.ops k = some op' → op'.seen = none ∨
      ∃ op, s.ops k = some op ∧ op'.seen = op.seen ∧ op'.paused = op.paused ∧ op'.prio = op.prio) : Inv u s' := by
  intro k op' hk v t hs
  rcases hops k op' hk with hn | ⟨op, ho, hse, hpa, hpr⟩
  · rw [hn] at hs; cases hs
  · obtain ⟨h1, h2⟩ := hi k op ho v t (by rw [← hse]; exact hs)
    refine ⟨by omega, ?_⟩
    intro hv
    have hsv : s'.ver = s.ver := by omega
    rw [hst hsv, hpa, hpr]
    exact h2 (by omega)

/-- the operator entries after `updOp` with an entry that keeps `seen`, `paused`, `prio` -/
theorem hops_upd {s s' : State} {i : Identity} {o onew : Op} (ho : s.ops i = some o) (hops : s'.ops = updOp s.ops i onew)
    (h1 : onew.seen = o.seen) (h2 : onew.paused = o.paused) (h3 : onew.prio = o.prio) :
    ∀ k op', s'.ops k = some op' → op'.seen = none ∨
      ∃ op, s.ops k = some op ∧ op'.seen = op.seen ∧ op'.paused = op.paused ∧ op'.prio = op.prio := by
  intro k op' hk
  rw [hops] at hk
  by_cases hki : k = i
  · subst hki
    simp at hk
    subst hk
    exact Or.inr ⟨o, ho, h1, h2, h3⟩
  · rw [updOp_other _ _ hki] at hk
    exact Or.inr ⟨op', hk, rfl, rfl, rfl⟩

theorem hops_same {s s' : State} (hops : s'.ops = s.ops) :
    ∀ k op', s'.ops k = some op' → op'.seen = none ∨
      ∃ op, s.ops k = some op ∧ op'.seen = op.seen ∧ op'.paused = op.paused ∧ op'.prio = op.prio := by
  intro k op' hk
  rw [hops] at hk
  exact Or.inr ⟨op', hk, rfl, rfl, rfl⟩

theorem inv_deliver {u : Int} {s s' : State} {i : Identity} (hi : Inv u s) (h : step u s (.deliver i) = some s') : Inv u s' := by
  obtain ⟨o, ho, _, _, hst, hver, hsame, hops⟩ := deliver_spec h
  intro k op hk v t hs
  rw [hops] at hk
  by_cases hki : k = i
  · subst hki
    simp at hk
    subst hk
    simp only [Option.some.injEq, Prod.mk.injEq] at hs
    obtain ⟨rfl, rfl⟩ := hs
    refine ⟨hver, ?_⟩
    intro hv
    rw [hsame hv.symm]
  · rw [updOp_other _ _ hki] at hk
    obtain ⟨h1, h2⟩ := hi k op hk v t hs
    refine ⟨by omega, ?_⟩
    intro hv
    have : s'.ver = s.ver := by omega
    rw [hsame this]
    exact h2 (by omega)

theorem inv_step {u : Int} {s s' : State} {l : Label} (hi : Inv u s) (h : step u s l = some s') : Inv u s' := by
  cases l with
  | start i prio lifetime =>
    obtain ⟨_, hst, hver, _, hops⟩ := start_spec h
    refine inv_frame hi (by omega) (fun _ => hst) ?_
    intro k op' hk
    rw [hops] at hk
    by_cases hki : k = i
    · subst hki; simp at hk; subst hk; exact Or.inl rfl
    · rw [updOp_other _ _ hki] at hk; exact Or.inr ⟨op', hk, rfl, rfl, rfl⟩
  | keepalive i lag =>
    obtain ⟨o, ho, _, _, hver, _, hops⟩ := keepalive_spec h
    exact inv_frame hi (by omega) (fun e => by omega) (hops_upd ho hops rfl rfl rfl)
  | exit i =>
    obtain ⟨o, ho, _, _, _, hops, hver⟩ := exit_spec h
    exact inv_frame hi (by omega) (fun e => by omega) (hops_upd ho hops rfl rfl rfl)
  | exitBegin i =>
    obtain ⟨o, ho, _, _, _, hst, hver, hops⟩ := exitBegin_spec h
    exact inv_frame hi (by omega) (fun _ => hst) (hops_upd ho hops rfl rfl rfl)
  | keepaliveFail i w =>
    obtain ⟨o, ho, _, _, hst, hver, hops⟩ := keepaliveFail_spec h
    cases w
    · exact inv_frame hi (by simp at hver; omega) (fun _ => by simpa using hst) (hops_upd ho hops rfl rfl rfl)
    · exact inv_frame hi (by simp at hver; omega) (fun e => by simp at hver; omega) (hops_upd ho hops rfl rfl rfl)
  | exitEnd i =>
    obtain ⟨o, ho, _, _, _, _, hver, hops⟩ := exitEnd_spec h
    exact inv_frame hi (by omega) (fun e => by omega) (hops_upd ho hops rfl rfl rfl)
  | exitLost i =>
    obtain ⟨o, ho, _, _, hst, hops, hver⟩ := exitLost_spec h
    exact inv_frame hi (by omega) (fun _ => hst) (hops_upd ho hops rfl rfl rfl)
  | kill i =>
    obtain ⟨o, ho, _, _, hst, hops, hver⟩ := kill_spec h
    exact inv_frame hi (by omega) (fun _ => hst) (hops_upd ho hops rfl rfl rfl)
  | wake i lag =>
    obtain ⟨o, ho, _, _, _, hops, hver⟩ := wake_spec h
    exact inv_frame hi (by omega) (fun e => by omega) (hops_upd ho hops rfl rfl rfl)
  | wakeIssue i =>
    obtain ⟨o, ho, _, _, _, hst, hver, hops⟩ := wakeIssue_spec h
    exact inv_frame hi (by omega) (fun _ => hst) (hops_upd ho hops rfl rfl rfl)
  | land i =>
    obtain ⟨o, t, ho, _, _, _, hops, hver⟩ := land_spec h
    exact inv_frame hi (by omega) (fun e => by omega) (hops_upd ho hops rfl rfl rfl)
  | tick d =>
    simp only [step, Option.some.injEq] at h
    subst h
    exact hi
  | expire j =>
    simp only [step, Option.some.injEq] at h
    subst h
    exact hi
  | foreign j r =>
    simp only [step, Option.some.injEq] at h
    subst h
    exact inv_frame hi (by simp only; omega) (fun e => by simp only at e; omega) (hops_same rfl)
  | deliver i => exact inv_deliver hi h
  | deliverStale i view vv =>
    by_cases hv : vv = s.ver
    · exact inv_deliver hi (stale_current h hv).2
    · obtain ⟨o, ho, _, _, _, hst, hver, hops⟩ := stale_refused_spec h hv
      intro k op hk v t hs
      rw [hops] at hk
      by_cases hki : k = i
      · subst hki
        simp at hk
        subst hk
        by_cases hb : sameVerdict u s k o.prio view = true
        · simp only [staleSeen, hb, if_true, Option.some.injEq, Prod.mk.injEq] at hs
          obtain ⟨rfl, rfl⟩ := hs
          refine ⟨by omega, ?_⟩
          intro _
          rw [hst]
          -- the view yields the verdict of the current status
          simpa [sameVerdict] using hb
        · simp [staleSeen, hb] at hs
      · rw [updOp_other _ _ hki] at hk
        obtain ⟨h1, h2⟩ := hi k op hk v t hs
        refine ⟨by omega, ?_⟩
        intro hv'
        rw [hst]
        exact h2 (by omega)
theorem inv_reachable {u : Int} {s : State} (h : Reachable u s) : Inv u s := by
  induction h with
  | init => exact inv_init u
  | step l _ hs ih => exact inv_step ih hs

/-! ### who ends up active -/

theorem top_of_good {u : Int} {s : State} (hg : Good u s)
    (hp : ∀ i op, s.ops i = some op → op.alive = true → op.paused = blockedB u s.status i op.prio s.now) :
    ExactlyTop s := by
  intro i op hi ha
  rw [hp i op hi ha]
  constructor
  · intro hb j oj hj haj
    by_cases hji : j = i
    · subst hji
      rw [hi] at hj
      injection hj with hj
      subst hj
      exact Int.le_refl _
    · obtain ⟨r, hm, hpr, hd⟩ := hg.own j oj hj haj
      have : ¬ (blockedB u s.status i op.prio s.now = true) := by simp [hb]
      rw [blockedB_iff] at this
      have hlt : ¬ (r.priority ≥ op.prio) := fun hge => this ⟨j, r, hm, hji, hd, hge⟩
      omega
  · intro hmax
    cases hb : blockedB u s.status i op.prio s.now with
    | false => rfl
    | true =>
      exfalso
      obtain ⟨j, r, hm, hji, hd, hge⟩ := blockedB_iff.mp hb
      obtain ⟨oj, hj, haj, hpr⟩ := hg.noGhost j r hm hd
      have hle := hmax j oj hj haj
      have heq : oj.prio = op.prio := by omega
      exact hji (hg.distinct j i oj op hj hi haj ha heq)

/-- the operators of two states agree on who runs and with which priority. -/
def SameOps (s s' : State) : Prop :=
  ∀ i, (s.ops i = none ∧ s'.ops i = none) ∨
    ∃ o o', s.ops i = some o ∧ s'.ops i = some o' ∧ o'.prio = o.prio ∧ o'.alive = o.alive

theorem good_transfer {u : Int} {s s' : State} (hg : Good u s) (hnow : s'.now = s.now)
    (hst : ∀ j r, r.dead u s.now = false → ((j, r) ∈ s'.status ↔ (j, r) ∈ s.status))
    (hops : SameOps s s') : Good u s' := by
  constructor
  · intro i op' hi ha
    rcases hops i with ⟨_, h2⟩ | ⟨o, o', h1, h2, h3, h4⟩
    · rw [h2] at hi; cases hi
    · rw [h2] at hi; injection hi with hi; subst hi
      obtain ⟨r, hm, hpr, hd⟩ := hg.own i o h1 (by rw [← h4]; exact ha)
      exact ⟨r, (hst i r hd).mpr hm, by rw [hpr, h3], by rw [hnow]; exact hd⟩
  · intro j r hm hd
    rw [hnow] at hd
    obtain ⟨o, h1, h2, h3⟩ := hg.noGhost j r ((hst j r hd).mp hm) hd
    rcases hops j with ⟨h, _⟩ | ⟨o1, o', h1', h2', h3', h4'⟩
    · rw [h] at h1; cases h1
    · rw [h1'] at h1; injection h1 with h1; subst h1
      exact ⟨o', h2', by rw [h4']; exact h2, by rw [h3, h3']⟩
  · intro i j oi oj hi hj hai haj hpr
    rcases hops i with ⟨_, h⟩ | ⟨a, a', ha1, ha2, ha3, ha4⟩
    · rw [h] at hi; cases hi
    · rcases hops j with ⟨_, h⟩ | ⟨b, b', hb1, hb2, hb3, hb4⟩
      · rw [h] at hj; cases hj
      · rw [ha2] at hi; injection hi with hi; subst hi
        rw [hb2] at hj; injection hj with hj; subst hj
        exact hg.distinct i j a b ha1 hb1 (by rw [← ha4]; exact hai) (by rw [← hb4]; exact haj) (by omega)

/-- a batch of deliveries: the clock, the live records and the set of running operators stay; every
    operator that got a delivery holds the verdict of the status; the others keep their flag. -/
theorem run_delivers {u : Int} : ∀ (ls : List Label) (s s' : State),
    (∀ l ∈ ls, ∃ i, l = Label.deliver i) → run u s ls = some s' →
    s'.now = s.now ∧
    (∀ j r, r.dead u s.now = false → ((j, r) ∈ s'.status ↔ (j, r) ∈ s.status)) ∧
    SameOps s s' ∧
    (∀ i op', s'.ops i = some op' → Label.deliver i ∈ ls → op'.paused = blockedB u s.status i op'.prio s.now) := by
  intro ls
  induction ls with
  | nil =>
    intro s s' _ h
    simp only [run, Option.some.injEq] at h
    subst h
    refine ⟨rfl, fun _ _ _ => Iff.rfl, ?_, ?_⟩
    · intro i
      cases h : s.ops i with
      | none => exact Or.inl ⟨rfl, rfl⟩
      | some o => exact Or.inr ⟨o, o, rfl, rfl, rfl, rfl⟩
    · intro i op' _ hm; cases hm
  | cons l rest ih =>
    intro s s' hall h
    obtain ⟨k, rfl⟩ := hall l List.mem_cons_self
    simp only [run] at h
    cases h1 : step u s (.deliver k) with
    | none => simp [h1] at h
    | some s1 =>
      simp only [h1] at h
      obtain ⟨o, ho, hoa, hnow1, hst1, _, _, hops1⟩ := deliver_spec h1
      obtain ⟨hnow, hst, hops, hp⟩ := ih s1 s' (fun l hl => hall l (List.mem_cons_of_mem _ hl)) h
      have hb : ∀ i p, blockedB u s1.status i p s1.now = blockedB u s.status i p s.now := by
        intro i p; rw [hst1, hnow1]; exact blockedB_filter u s.status i p s.now k
      have hstat : ∀ j r, r.dead u s.now = false → ((j, r) ∈ s1.status ↔ (j, r) ∈ s.status) := by
        intro j r hd
        rw [hst1, List.mem_filter]
        simp [hd]
      have hsame1 : SameOps s s1 := by
        intro i
        by_cases hik : i = k
        · subst hik
          right
          exact ⟨o, { o with paused := blockedB u s.status i o.prio s.now, seen := some (s.ver, s.now),
                              sleeping := willTouch u s i o }, ho, by rw [hops1]; simp, rfl, rfl⟩
        · rw [hops1, updOp_other _ _ hik]
          cases h : s.ops i with
          | none => exact Or.inl ⟨rfl, rfl⟩
          | some o2 => exact Or.inr ⟨o2, o2, rfl, rfl, rfl, rfl⟩
      refine ⟨by rw [hnow, hnow1], ?_, ?_, ?_⟩
      · intro j r hd
        rw [hst j r (by rw [hnow1]; exact hd), hstat j r hd]
      · intro i
        rcases hsame1 i with ⟨a, b⟩ | ⟨a, a1, ha, ha1, hp1, hal1⟩
        · rcases hops i with ⟨_, c⟩ | ⟨x, _, hx, _⟩
          · exact Or.inl ⟨a, c⟩
          · rw [b] at hx; cases hx
        · rcases hops i with ⟨c, _⟩ | ⟨x, x', hx, hx', hp2, hal2⟩
          · rw [ha1] at c; cases c
          · rw [ha1] at hx; injection hx with hx; subst hx
            exact Or.inr ⟨a, x', ha, hx', by rw [hp2, hp1], by rw [hal2, hal1]⟩
      · intro i op' hi hm
        by_cases hin : Label.deliver i ∈ rest
        · rw [hp i op' hi hin, hb]
        · have hik : i = k := by
            rcases List.mem_cons.mp hm with heq | hm'
            · injection heq
            · exact absurd hm' hin
          subst hik
          -- the flag set by this delivery survives the rest of the batch
          have hkeep : ∀ (ls : List Label) (t t' : State), (∀ l ∈ ls, ∃ j, l = Label.deliver j) →
              Label.deliver i ∉ ls → run u t ls = some t' → t'.ops i = t.ops i := by
            intro ls
            induction ls with
            | nil => intro t t' _ _ h; simp only [run, Option.some.injEq] at h; subst h; rfl
            | cons l2 rest2 ih2 =>
              intro t t' hall2 hni h
              obtain ⟨j, rfl⟩ := hall2 l2 List.mem_cons_self
              simp only [run] at h
              cases h2 : step u t (.deliver j) with
              | none => simp [h2] at h
              | some t1 =>
                simp only [h2] at h
                obtain ⟨_, _, _, _, _, _, _, hops2⟩ := deliver_spec h2
                have hji : i ≠ j := by
                  intro e; subst e; exact hni List.mem_cons_self
                rw [ih2 t1 t' (fun l hl => hall2 l (List.mem_cons_of_mem _ hl))
                  (fun hm => hni (List.mem_cons_of_mem _ hm)) h, hops2, updOp_other _ _ hji]
          have := hkeep rest s1 s' (fun l hl => hall l (List.mem_cons_of_mem _ hl)) hin h
          rw [this, hops1] at hi
          simp at hi
          subst hi
          rfl

end Kopf.C13
