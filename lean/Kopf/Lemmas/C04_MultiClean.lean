/-
  C04 — what every (nested) diff-base storage cleans stays cleaned: `build` only ever REMOVES from
  what it was given (`Sub`: every path present in the result is present in the input), the nested
  builds of `MultiDiffBaseStorage` refine the essence of the previous ones (the pseudo-body adds
  nothing but `kind` and `metadata.ownerReferences`), so a location removed by one nested storage —
  its own status field, its own annotation keys, its `ignored_fields` — is absent from the final
  essence whatever the order of the nested storages and whatever the handlers' fields.
-/
import Kopf.Lemmas.C04_WF
set_option linter.unusedSimpArgs false
set_option linter.unusedVariables false
namespace Kopf.C04
open Kopf Kopf.J

/-- `a` has no location that `b` has not. -/
def Sub (a b : J) : Prop := ∀ p, Present a p → Present b p

theorem present_nil (e : J) : Present e [] := ⟨e, by simp [resolveE]⟩

theorem present_obj_cons {l : Kvs} {k : String} {ks : List String} :
    Present (.obj l) (k :: ks) ↔ ∃ v, lookup k l = some v ∧ Present v ks := by
  unfold Present
  rw [resolveE_obj_cons]
  cases hl : lookup k l with
  | none => simp
  | some c => simp

theorem not_present_scalar_cons {e : J} {k : String} {ks : List String} (h : e.isObj = false) :
    ¬ Present e (k :: ks) := by
  intro ⟨v, hv⟩
  cases e <;> simp [resolveE, isObj] at hv h

theorem sub_refl (a : J) : Sub a a := fun _ h => h
theorem sub_trans {a b c : J} (h1 : Sub a b) (h2 : Sub b c) : Sub a c := fun p h => h2 p (h1 p h)
theorem absent_of_sub {a b : J} {p : List String} (h : Sub a b) (hb : Absent b p) : Absent a p :=
  fun hp => hb (h p hp)

theorem sub_of_scalar {a : J} (b : J) (h : a.isObj = false) : Sub a b := by
  intro p hp
  cases p with
  | nil => exact present_nil b
  | cons k ks => exact absurd hp (not_present_scalar_cons h)

/-- objects: `Sub` is decided binding by binding. -/
theorem sub_obj {l l' : Kvs} (h : ∀ k v, lookup k l = some v → ∃ w, lookup k l' = some w ∧ Sub v w) :
    Sub (.obj l) (.obj l') := by
  intro p hp
  cases p with
  | nil => exact present_nil _
  | cons k ks =>
    obtain ⟨v, hv, hpv⟩ := present_obj_cons.1 hp
    obtain ⟨w, hw, hs⟩ := h k v hv
    exact present_obj_cons.2 ⟨w, hw, hs ks hpv⟩

theorem sub_lookup {l : Kvs} {b : J} {k : String} {v : J} (h : Sub (.obj l) b) (hv : lookup k l = some v) :
    ∃ l' w, b = .obj l' ∧ lookup k l' = some w ∧ Sub v w := by
  have hp : Present (.obj l) [k] := present_obj_cons.2 ⟨v, hv, present_nil v⟩
  have hb := h [k] hp
  cases b with
  | obj l' =>
    obtain ⟨w, hw, _⟩ := present_obj_cons.1 hb
    refine ⟨l', w, rfl, hw, ?_⟩
    intro q hq
    have := h (k :: q) (present_obj_cons.2 ⟨v, hv, hq⟩)
    obtain ⟨w', hw', hpw⟩ := present_obj_cons.1 this
    rw [hw] at hw'; cases hw'; exact hpw
  | _ => exact absurd hb (not_present_scalar_cons rfl)

theorem sub_erase (k : String) (l : Kvs) : Sub (.obj (erase k l)) (.obj l) := by
  refine sub_obj ?_
  intro k' v hv
  by_cases hk : k' = k
  · subst hk; rw [lookup_erase_same] at hv; cases hv
  · rw [lookup_erase_other l hk] at hv; exact ⟨v, hv, sub_refl v⟩

/-- replacing the value of a key that is there by a smaller one. -/
theorem sub_insert {k : String} {v' v : J} {l : Kvs} (hl : lookup k l = some v) (hs : Sub v' v) :
    Sub (.obj (J.insert k v' l)) (.obj l) := by
  refine sub_obj ?_
  intro k' x hx
  by_cases hk : k' = k
  · subst hk; rw [lookup_insert_same] at hx; cases hx; exact ⟨v, hl, hs⟩
  · rw [lookup_insert_other _ l hk] at hx; exact ⟨x, hx, sub_refl x⟩

theorem lookup_filterKey (q : String → Bool) (k : String) : ∀ (l : Kvs),
    lookup k (l.filter (fun kv => q kv.1)) = if q k then lookup k l else none
  | [] => by simp
  | (k2, v2) :: rest => by
    have ih := lookup_filterKey q k rest
    by_cases h2 : k2 = k
    · subst h2
      cases hq : q k2 with
      | true => simp [List.filter_cons, hq, lookup_cons]
      | false => simp [List.filter_cons, hq, lookup_cons, ih]
    · cases hq2 : q k2 with
      | true => simp [List.filter_cons, hq2, lookup_cons, h2, ih]
      | false => simp [List.filter_cons, hq2, lookup_cons, h2, ih]

theorem sub_filterKey (q : String → Bool) (l : Kvs) : Sub (.obj (l.filter (fun kv => q kv.1))) (.obj l) := by
  refine sub_obj ?_
  intro k v hv
  rw [lookup_filterKey] at hv
  split at hv
  · exact ⟨v, hv, sub_refl v⟩
  · cases hv

/-! ### the small stages -/

theorem sub_metaSet {e v' old : J} {name : String} (hg : metaGet e name = some old) (hs : Sub v' old) :
    Sub (metaSet e name v') e := by
  unfold metaSet
  cases e with
  | obj l =>
    simp only []
    rw [metaGet_obj] at hg
    cases hl : lookup "metadata" l with
    | none => exact sub_refl _
    | some mm =>
      rw [hl] at hg
      cases mm with
      | obj m =>
        simp only [] at hg ⊢
        exact sub_insert hl (sub_insert hg hs)
      | _ => exact sub_refl _
  | _ => exact sub_refl _

theorem sub_metaDel (e : J) (name : String) : Sub (metaDel e name) e := by
  unfold metaDel
  cases e with
  | obj l =>
    simp only []
    cases hl : lookup "metadata" l with
    | none => exact sub_refl _
    | some mm =>
      cases mm with
      | obj m => simp only []; exact sub_insert hl (sub_erase name m)
      | _ => exact sub_refl _
  | _ => exact sub_refl _

theorem sub_dropIfFalsy (e : J) (name : String) : Sub (dropIfFalsy e name) e := by
  unfold dropIfFalsy
  cases e with
  | obj l =>
    simp only []
    cases lookup name l with
    | none => exact sub_refl _
    | some v =>
      simp only []
      split
      · exact sub_refl _
      · exact sub_erase name l
  | _ => exact sub_refl _

theorem sub_metaDropIfFalsy (e : J) (name : String) : Sub (metaDropIfFalsy e name) e := by
  unfold metaDropIfFalsy
  cases metaGet e name with
  | none => exact sub_refl _
  | some v =>
    simp only []
    split
    · exact sub_refl _
    · exact sub_metaDel e name

theorem sub_removeEmptyStanzas (e : J) : Sub (removeEmptyStanzas e) e := by
  simp only [removeEmptyStanzas]
  exact sub_trans (sub_dropIfFalsy _ _) (sub_trans (sub_dropIfFalsy _ _)
    (sub_trans (sub_metaDropIfFalsy _ _) (sub_metaDropIfFalsy _ _)))

theorem sub_filterAnnotations (keep : String → Bool) (e : J) : Sub (filterAnnotations keep e) e := by
  unfold filterAnnotations
  cases hg : metaGet e "annotations" with
  | none => exact sub_refl _
  | some v =>
    cases v with
    | obj anns => simp only []; exact sub_metaSet hg (sub_filterKey keep anns)
    | _ => exact sub_refl _

theorem sub_remove : ∀ (f : List String) (d d' : J), remove d f = .ok d' → Sub d' d
  | [], d, d', h => by cases d <;> simp [remove] at h
  | [k], d, d', h => by
    cases d with
    | obj l => simp [remove] at h; subst h; exact sub_erase k l
    | _ => simp [remove] at h
  | k :: k2 :: ks, d, d', h => by
    cases d with
    | obj l =>
      simp only [remove] at h
      cases hl : lookup k l with
      | none => rw [hl] at h; simp at h; subst h; exact sub_refl _
      | some child =>
        rw [hl] at h
        simp only [] at h
        cases hc : remove child (k2 :: ks) with
        | error e => rw [hc] at h; simp [bind, Except.bind] at h
        | ok c' =>
          rw [hc] at h
          simp only [bind, Except.bind] at h
          have hsc := sub_remove (k2 :: ks) child c' hc
          split at h
          · simp [pure, Except.pure] at h; subst h; exact sub_erase k l
          · simp [pure, Except.pure] at h; subst h; exact sub_insert hl hsc
    | _ => simp [remove] at h

theorem sub_ignoreFields : ∀ (ig : List (List String)) (e e' : J), ignoreFields e ig = .ok e' → Sub e' e
  | [], e, e', h => by simp [ignoreFields] at h; subst h; exact sub_refl _
  | f :: fs, e, e', h => by
    simp only [ignoreFields] at h
    cases hr : remove e f with
    | ok e1 => rw [hr] at h; exact sub_trans (sub_ignoreFields fs e1 e' h) (sub_remove f e e1 hr)
    | error er =>
      rw [hr] at h
      cases er <;> simp only [] at h <;> first | exact sub_ignoreFields fs e e' h | cases h

/-- `ensure` writes a value that the source has at that very path into something that is already
    below the source: the result is still below the source. -/
theorem sub_ensure : ∀ (f : List String) (src d d' v : J), Sub d src → resolveE src f = .ok v →
    ensure d f v = .ok d' → Sub d' src
  | [], src, d, d', v, _, _, h => by cases d <;> simp [ensure] at h
  | [k], src, d, d', v, hd, hr, h => by
    obtain ⟨l, c, rfl, rfl, h1, _⟩ := ensure_obj_shape h
    rw [h1 rfl]
    cases src with
    | obj ls =>
      rw [resolveE_obj_cons] at hr
      cases hl : lookup k ls with
      | none => rw [hl] at hr; cases hr
      | some sv =>
        rw [hl] at hr
        simp [resolveE] at hr
        subst hr
        refine sub_obj ?_
        intro k' x hx
        by_cases hk : k' = k
        · subst hk; rw [lookup_insert_same] at hx; cases hx; exact ⟨sv, hl, sub_refl _⟩
        · rw [lookup_insert_other _ l hk] at hx
          obtain ⟨l', w, hb, hw, hs⟩ := sub_lookup hd hx
          cases hb; exact ⟨w, hw, hs⟩
    | _ => simp [resolveE] at hr
  | k :: k2 :: ks, src, d, d', v, hd, hr, h => by
    obtain ⟨l, c, rfl, rfl, _, h2⟩ := ensure_obj_shape h
    have hc := h2 k2 ks rfl
    cases src with
    | obj ls =>
      rw [resolveE_obj_cons] at hr
      cases hl : lookup k ls with
      | none => rw [hl] at hr; cases hr
      | some sv =>
        rw [hl] at hr
        simp only [] at hr
        have hchild : Sub ((lookup k l).getD (.obj [])) sv := by
          cases hlk : lookup k l with
          | none =>
            simp only [Option.getD]
            -- `{}` is below every mapping; `sv` is a mapping because a non-empty path resolves in it
            cases sv with
            | obj lsv => exact sub_obj (by intro k' x hx; simp at hx)
            | _ => simp [resolveE] at hr
          | some x =>
            simp only [Option.getD]
            obtain ⟨l', w, hb, hw, hs⟩ := sub_lookup hd hlk
            cases hb; rw [hl] at hw; cases hw; exact hs
        have hcs := sub_ensure (k2 :: ks) sv _ c v hchild hr hc
        refine sub_obj ?_
        intro k' x hx
        by_cases hk : k' = k
        · subst hk; rw [lookup_insert_same] at hx; cases hx; exact ⟨sv, hl, hcs⟩
        · rw [lookup_insert_other _ l hk] at hx
          obtain ⟨l', w, hb, hw, hs⟩ := sub_lookup hd hx
          cases hb; exact ⟨w, hw, hs⟩
    | _ => simp [resolveE] at hr

theorem sub_cherrypick (src : J) : ∀ (fs : List (List String)) (d d' : J),
    Sub d src → cherrypick src d fs = .ok d' → Sub d' src
  | [], d, d', hd, h => by simp [cherrypick] at h; subst h; exact hd
  | f :: fs, d, d', hd, h => by
    simp only [cherrypick] at h
    cases hr : resolveE src f with
    | error e =>
      rw [hr] at h
      cases e <;> simp only [] at h <;> first | exact sub_cherrypick src fs d d' hd h | cases h
    | ok v =>
      rw [hr] at h
      simp only [] at h
      cases he : liftD (ensure d f v) with
      | error e => rw [he] at h; simp [bind, Except.bind] at h
      | ok d1 =>
        rw [he] at h
        simp only [bind, Except.bind] at h
        exact sub_cherrypick src fs d1 d' (sub_ensure f src d d1 v hd hr (liftD_ok he)) h

theorem sub_cherrypickSkip (src : J) : ∀ (fs : List (List String)) (d d' : J),
    Sub d src → cherrypickSkip src d fs = .ok d' → Sub d' src
  | [], d, d', hd, h => by simp [cherrypickSkip] at h; subst h; exact hd
  | f :: fs, d, d', hd, h => by
    simp only [cherrypickSkip] at h
    cases hc : cherrypick src d [f] with
    | ok d1 => rw [hc] at h; exact sub_cherrypickSkip src fs d1 d' (sub_cherrypick src [f] d d1 hd hc) h
    | error e =>
      rw [hc] at h
      cases e <;> simp only [] at h <;> first | exact sub_cherrypickSkip src fs d d' hd h | cases h

theorem sub_erase4 (kvs : Kvs) : Sub (.obj (erase4 kvs)) (.obj kvs) :=
  sub_trans (sub_erase _ _) (sub_trans (sub_erase _ _) (sub_trans (sub_erase _ _) (sub_erase _ _)))

/-! ### `build` only removes -/

theorem sub_baseBuild {ig extra : List (List String)} {b e : J} (h : baseBuild ig extra b = .ok e) : Sub e b := by
  obtain ⟨kvs, rfl⟩ := baseBuild_obj h
  rw [baseBuild_eq] at h
  cases h1 : cherrypick (.obj kvs) (.obj (erase4 kvs)) [ML, MA] with
  | error er => rw [h1] at h; cases h
  | ok e1 =>
    rw [h1] at h
    have w1 := sub_cherrypick _ _ _ _ (sub_erase4 kvs) h1
    simp only [tailBuild] at h
    split at h
    · cases h
    · cases h3 : cherrypickSkip (.obj kvs) (stage2 e1) extra with
      | error er => rw [h3] at h; cases h
      | ok e3 =>
        rw [h3] at h
        simp only [] at h
        have w3 := sub_cherrypickSkip _ _ _ _ (sub_trans (sub_filterAnnotations _ e1) w1) h3
        split at h
        · cases h
        · exact sub_trans (sub_ignoreFields ig _ e h) (sub_trans (sub_removeEmptyStanzas e3) w3)

theorem sub_leafBuild {hs : Hashes} {extra : List (List String)} {b e : J} (l : DiffBaseLeaf)
    (h : leafBuild hs extra b l = .ok e) : Sub e b := by
  cases l with
  | annotations p key v1 ig =>
    simp only [leafBuild] at h
    obtain ⟨e1, h1, h2⟩ := bind_ok h
    obtain ⟨mk, _, h3⟩ := bind_ok h2
    obtain ⟨ks, _, h4⟩ := bind_ok h3
    have w1 := sub_baseBuild h1
    cases hm : metaOK e1 with
    | false => simp [hm, throw, throwThe, MonadExceptOf.throw, bind, Except.bind] at h4
    | true =>
      simp [hm, pure, Except.pure] at h4
      subst h4
      exact sub_trans (sub_removeEmptyStanzas _) (sub_trans (sub_filterAnnotations _ e1) w1)
  | status f ig =>
    simp only [leafBuild] at h
    obtain ⟨e1, h1, h2⟩ := bind_ok h
    exact sub_trans (sub_ignoreFields [f] e1 e h2) (sub_baseBuild h1)

/-- the pseudo-body of `MultiDiffBaseStorage.build` adds to the essence so far only what the real
    body has (`kind`, `metadata.ownerReferences`). -/
theorem sub_pseudoBody {body e : J} (he : Sub e body) : Sub (pseudoBody body e) body := by
  cases e with
  | obj kvs =>
    simp only [pseudoBody]
    -- with the kind
    have hk : Sub (.obj (withKind body kvs)) body := by
      unfold withKind
      cases hb : body.get? "kind" with
      | none => exact he
      | some kd =>
        simp only []
        cases body with
        | obj lb =>
          simp only [get?] at hb
          refine sub_obj ?_
          intro k' x hx
          by_cases hkk : k' = "kind"
          · subst hkk; rw [lookup_insert_same] at hx; cases hx; exact ⟨kd, hb, sub_refl _⟩
          · rw [lookup_insert_other _ kvs hkk] at hx
            obtain ⟨l', w, hbb, hw, hs⟩ := sub_lookup he hx
            cases hbb; exact ⟨w, hw, hs⟩
        | _ => simp [get?] at hb
    generalize withKind body kvs = kv2 at hk ⊢
    unfold withOwners
    cases ho : ownerRefs body with
    | none => exact hk
    | some o =>
      simp only []
      cases body with
      | obj lb =>
        simp only [ownerRefs, get?] at ho
        cases hmb : lookup "metadata" lb with
        | none => rw [hmb] at ho; cases ho
        | some mb =>
          rw [hmb] at ho
          cases mb with
          | obj m =>
            simp only [] at ho
            have hmeta : Sub (.obj (J.insert "ownerReferences" o (metaKvs kv2))) (.obj m) := by
              refine sub_obj ?_
              intro k' x hx
              by_cases hkk : k' = "ownerReferences"
              · subst hkk; rw [lookup_insert_same] at hx; cases hx; exact ⟨o, ho, sub_refl _⟩
              · rw [lookup_insert_other _ _ hkk] at hx
                unfold metaKvs at hx
                cases hm2 : lookup "metadata" kv2 with
                | none => rw [hm2] at hx; simp at hx
                | some mm =>
                  rw [hm2] at hx
                  cases mm with
                  | obj m2 =>
                    simp only [] at hx
                    obtain ⟨l', w, hbb, hw, hs⟩ := sub_lookup hk hm2
                    cases hbb; rw [hmb] at hw; cases hw
                    obtain ⟨l'', w', hb2, hw', hs'⟩ := sub_lookup hs hx
                    cases hb2; exact ⟨w', hw', hs'⟩
                  | _ => simp at hx
            refine sub_obj ?_
            intro k' x hx
            by_cases hkk : k' = "metadata"
            · subst hkk; rw [lookup_insert_same] at hx; cases hx; exact ⟨.obj m, hmb, hmeta⟩
            · rw [lookup_insert_other _ kv2 hkk] at hx
              obtain ⟨l', w, hbb, hw, hs⟩ := sub_lookup hk hx
              cases hbb; exact ⟨w, hw, hs⟩
          | _ => simp at ho
      | _ => simp [ownerRefs, get?] at ho
  | _ => exact he

theorem sub_multiBuild {hs : Hashes} {extra : List (List String)} {body : J} :
    ∀ (ls : List DiffBaseLeaf) (e0 e : J), Sub e0 body → multiBuild hs extra body e0 ls = .ok e → Sub e body
  | [], e0, e, h0, h => by simp [multiBuild] at h; subst h; exact h0
  | l :: ls, e0, e, h0, h => by
    simp only [multiBuild] at h
    obtain ⟨e1, h1, h2⟩ := bind_ok h
    exact sub_multiBuild ls e1 e (sub_trans (sub_leafBuild l h1) (sub_pseudoBody h0)) h2

theorem sub_clearLeaf {e e' : J} (l : ProgressLeaf) (h : clearLeaf e l = .ok e') : Sub e' e := by
  cases l with
  | annotations pf =>
    simp only [clearLeaf] at h
    split at h
    · cases h
    · cases h; exact sub_trans (sub_removeEmptyStanzas _) (sub_filterAnnotations _ e)
  | status f t =>
    simp only [clearLeaf] at h
    obtain ⟨e0, h0, h2⟩ := bind_ok h
    have w0 := sub_ignoreFields [f, t] e e0 h0
    cases hm : metaOK e0 with
    | false => simp [hm, throw, throwThe, MonadExceptOf.throw, bind, Except.bind] at h2
    | true =>
      simp [hm, pure, Except.pure] at h2
      subst h2
      exact sub_trans (sub_removeEmptyStanzas _) w0

theorem sub_progressClear : ∀ (p : ProgressCfg) (e e' : J), progressClear e p = .ok e' → Sub e' e
  | [], e, e', h => by simp [progressClear] at h; subst h; exact sub_refl _
  | l :: ls, e, e', h => by
    simp only [progressClear] at h
    obtain ⟨e1, h1, h2⟩ := bind_ok h
    exact sub_trans (sub_progressClear ls e1 e' h2) (sub_clearLeaf l h1)

/-! ### what a removal leaves absent -/

theorem absent_obj_cons_none {l : Kvs} {k : String} {ks : List String} (h : lookup k l = none) :
    Absent (.obj l) (k :: ks) := by
  intro hp
  obtain ⟨v, hv, _⟩ := present_obj_cons.1 hp
  rw [h] at hv; cases hv

theorem absent_obj_cons_some {l : Kvs} {k : String} {ks : List String} {c : J} (h : lookup k l = some c)
    (hc : Absent c ks) : Absent (.obj l) (k :: ks) := by
  intro hp
  obtain ⟨v, hv, hpv⟩ := present_obj_cons.1 hp
  rw [h] at hv; cases hv; exact hc hpv

/-- after `dicts.remove(d, f)` nothing can be read at `f`. -/
theorem remove_absent : ∀ (f : List String) (d d' : J), remove d f = .ok d' → Absent d' f
  | [], d, d', h => by cases d <;> simp [remove] at h
  | [k], d, d', h => by
    cases d with
    | obj l => simp [remove] at h; subst h; exact absent_obj_cons_none (lookup_erase_same k l)
    | _ => simp [remove] at h
  | k :: k2 :: ks, d, d', h => by
    cases d with
    | obj l =>
      simp only [remove] at h
      cases hl : lookup k l with
      | none => rw [hl] at h; simp at h; subst h; exact absent_obj_cons_none hl
      | some child =>
        rw [hl] at h
        simp only [] at h
        cases hc : remove child (k2 :: ks) with
        | error e => rw [hc] at h; simp [bind, Except.bind] at h
        | ok c' =>
          rw [hc] at h
          simp only [bind, Except.bind] at h
          have hac := remove_absent (k2 :: ks) child c' hc
          split at h
          · simp [pure, Except.pure] at h; subst h; exact absent_obj_cons_none (lookup_erase_same k l)
          · simp [pure, Except.pure] at h; subst h
            exact absent_obj_cons_some (lookup_insert_same k c' l) hac
    | _ => simp [remove] at h

/-- the `except TypeError: pass` of `build`: when `dicts.remove` hits a non-mapping on the way, nothing
    can be read at that path either. -/
theorem remove_typeError_absent : ∀ (f : List String) (d : J), remove d f = .error .typeError → Absent d f
  | [], d, h => by cases d <;> simp [remove] at h
  | [k], d, h => by
    cases d with
    | obj l => simp [remove] at h
    | _ => exact not_present_scalar_cons rfl
  | k :: k2 :: ks, d, h => by
    cases d with
    | obj l =>
      simp only [remove] at h
      cases hl : lookup k l with
      | none => rw [hl] at h; simp at h
      | some child =>
        rw [hl] at h
        simp only [] at h
        cases hc : remove child (k2 :: ks) with
        | error e =>
          rw [hc] at h
          simp [bind, Except.bind] at h
          subst h
          exact absent_obj_cons_some hl (remove_typeError_absent (k2 :: ks) child hc)
        | ok c' =>
          rw [hc] at h
          simp only [bind, Except.bind] at h
          split at h <;> simp [pure, Except.pure] at h
    | _ => exact not_present_scalar_cons rfl

theorem ignoreFields_absent : ∀ (ig : List (List String)) (e e' : J) (f : List String),
    ignoreFields e ig = .ok e' → f ∈ ig → Absent e' f
  | [], e, e', f, h, hf => by cases hf
  | g :: gs, e, e', f, h, hf => by
    simp only [ignoreFields] at h
    cases hr : remove e g with
    | ok e1 =>
      rw [hr] at h
      rcases List.mem_cons.1 hf with rfl | hf'
      · exact absent_of_sub (sub_ignoreFields gs e1 e' h) (remove_absent f e e1 hr)
      · exact ignoreFields_absent gs e1 e' f h hf'
    | error er =>
      rw [hr] at h
      cases er with
      | typeError =>
        simp only [] at h
        rcases List.mem_cons.1 hf with rfl | hf'
        · exact absent_of_sub (sub_ignoreFields gs e e' h) (remove_typeError_absent f e hr)
        · exact ignoreFields_absent gs e e' f h hf'
      | keyError => simp only [] at h; cases h
      | valueError => simp only [] at h; cases h

/-- `ignored_fields` are absent from what the base `build` returns (they are removed last). -/
theorem baseBuild_ignored_absent {ig extra : List (List String)} {b e : J} {f : List String}
    (h : baseBuild ig extra b = .ok e) (hf : f ∈ ig) : Absent e f := by
  obtain ⟨kvs, rfl⟩ := baseBuild_obj h
  rw [baseBuild_eq] at h
  cases h1 : cherrypick (.obj kvs) (.obj (erase4 kvs)) [ML, MA] with
  | error er => rw [h1] at h; cases h
  | ok e1 =>
    rw [h1] at h
    simp only [tailBuild] at h
    split at h
    · cases h
    · cases h3 : cherrypickSkip (.obj kvs) (stage2 e1) extra with
      | error er => rw [h3] at h; cases h
      | ok e3 =>
        rw [h3] at h
        simp only [] at h
        split at h
        · cases h
        · exact ignoreFields_absent ig _ e f h hf

/-- `remove_annotations(essence, keys)`: none of the keys is left (for an essence whose
    `metadata.annotations` is absent or a mapping). -/
theorem removeAnnotations_absent {ks : List String} {e : J} {k : String} (hm : metaOK e = true) (hk : k ∈ ks) :
    Absent (removeAnnotations ks e) ["metadata", "annotations", k] := by
  unfold removeAnnotations filterAnnotations
  cases e with
  | obj l =>
    rw [metaGet_obj]
    simp only [metaOK] at hm
    cases hl : lookup "metadata" l with
    | none => simp only []; exact absent_obj_cons_none hl
    | some mm =>
      rw [hl] at hm
      cases mm with
      | obj m =>
        simp only [] at hm ⊢
        cases ha : lookup "annotations" m with
        | none =>
          simp only []
          exact absent_obj_cons_some hl (absent_obj_cons_none ha)
        | some av =>
          rw [ha] at hm
          cases av with
          | obj anns =>
            simp only [metaSet, hl]
            refine absent_obj_cons_some (lookup_insert_same _ _ _) ?_
            refine absent_obj_cons_some (lookup_insert_same _ _ _) ?_
            refine absent_obj_cons_none ?_
            rw [lookup_filterKey (fun k => !ks.contains k)]
            simp [hk]
          | _ => simp at hm
      | _ => simp at hm
  | _ => simp [metaOK] at hm

/-! ### the pseudo-body of `MultiDiffBaseStorage.build` -/

theorem pseudoBody_absent {body e : J} {p : List String} (hp : PseudoApart p) (ha : Absent e p) :
    Absent (pseudoBody body e) p := by
  cases e with
  | obj kvs =>
    simp only [pseudoBody]
    cases p with
    | nil => exact absurd (present_nil _) ha
    | cons k rest =>
      have hkind : k ≠ "kind" := by
        intro hk; exact hp.1 (by simp [hk])
      intro hpres
      obtain ⟨v, hv, hpv⟩ := present_obj_cons.1 hpres
      by_cases hmeta : k = "metadata"
      · subst hmeta
        unfold withOwners at hv
        cases ho : ownerRefs body with
        | none =>
          rw [ho] at hv
          simp only [] at hv
          rw [lookup_withKind body kvs (by decide)] at hv
          exact ha (present_obj_cons.2 ⟨v, hv, hpv⟩)
        | some o =>
          rw [ho] at hv
          simp only [] at hv
          rw [lookup_insert_same] at hv
          cases hv
          cases rest with
          | nil => exact hp.2.1 rfl
          | cons k2 rest2 =>
            have hk2 : k2 ≠ "ownerReferences" := by
              intro hk; subst hk
              exact hp.2.2 ⟨rest2, rfl⟩
            obtain ⟨w, hw, hpw⟩ := present_obj_cons.1 hpv
            rw [lookup_insert_other _ _ hk2] at hw
            unfold metaKvs at hw
            rw [lookup_withKind body kvs (by decide)] at hw
            cases hm2 : lookup "metadata" kvs with
            | none => rw [hm2] at hw; simp at hw
            | some mm =>
              rw [hm2] at hw
              cases mm with
              | obj m2 =>
                simp only [] at hw
                exact ha (present_obj_cons.2 ⟨.obj m2, hm2, present_obj_cons.2 ⟨w, hw, hpw⟩⟩)
              | _ => simp at hw
      · rw [lookup_withOwners body _ hmeta, lookup_withKind body kvs hkind] at hv
        exact ha (present_obj_cons.2 ⟨v, hv, hpv⟩)
  | _ => exact ha

/-! ### the annotation names are the same for the pseudo-body and for the real body -/

theorem sub_get? {l : Kvs} {b : J} {k : String} {v : J} (h : Sub (.obj l) b) (hv : lookup k l = some v) :
    ∃ w, b.get? k = some w ∧ Sub v w := by
  obtain ⟨l', w, rfl, hw, hs⟩ := sub_lookup h hv
  exact ⟨w, hw, hs⟩

theorem pseudo_kind {body : J} {kvs : Kvs} (hs : Sub (.obj kvs) body) :
    (pseudoBody body (.obj kvs)).get? "kind" = body.get? "kind" := by
  show lookup "kind" (withOwners body (withKind body kvs)) = body.get? "kind"
  rw [lookup_withOwners body _ (by decide)]
  unfold withKind
  cases hb : body.get? "kind" with
  | none =>
    simp only []
    cases hl : lookup "kind" kvs with
    | none => rfl
    | some x =>
      obtain ⟨w, hw, _⟩ := sub_get? hs hl
      rw [hb] at hw; cases hw
  | some kd => simp only []; exact lookup_insert_same _ _ _

theorem pseudo_metadata (body : J) (kvs : Kvs) :
    (pseudoBody body (.obj kvs)).get? "metadata" =
      match ownerRefs body with
      | some o => some (.obj (J.insert "ownerReferences" o (metaKvs (withKind body kvs))))
      | none => lookup "metadata" kvs := by
  show lookup "metadata" (withOwners body (withKind body kvs)) = _
  unfold withOwners
  cases ownerRefs body with
  | none => simp only []; exact lookup_withKind body kvs (by decide)
  | some o => simp only []; exact lookup_insert_same _ _ _

/-- `mark_key` decides the same on the pseudo-body as on the real body (kopf 55b75e2), for every
    essence-so-far that is below the real body. -/
theorem isDRS_pseudo_of_sub {body : J} {kvs : Kvs} {b b' : Bool} (hs : Sub (.obj kvs) body)
    (h1 : isDRS (pseudoBody body (.obj kvs)) = .ok b) (h2 : isDRS body = .ok b') : b = b' := by
  unfold isDRS at h1 h2
  rw [pseudo_kind hs, pseudo_metadata] at h1
  cases ho : ownerRefs body with
  | some o =>
    rw [ho] at h1
    simp only [lookup_insert_same] at h1
    unfold ownerRefs at ho
    cases hbm : body.get? "metadata" with
    | none => rw [hbm] at ho; cases ho
    | some mb =>
      rw [hbm] at ho h2
      cases mb with
      | obj m => simp only [] at ho h2; rw [ho, h1] at h2; cases h2; rfl
      | _ => cases ho
  | none =>
    rw [ho] at h1
    simp only [] at h1
    have hb2 : drsOf (body.get? "kind") none = .ok b' := by
      unfold ownerRefs at ho
      cases hbm : body.get? "metadata" with
      | none => rw [hbm] at h2; exact h2
      | some mb =>
        rw [hbm] at h2 ho
        cases mb with
        | obj m => simp only [] at h2 ho; rw [ho] at h2; exact h2
        | _ => cases h2
    cases hl : lookup "metadata" kvs with
    | none => rw [hl] at h1; simp only [] at h1; rw [h1] at hb2; cases hb2; rfl
    | some mm =>
      rw [hl] at h1
      cases mm with
      | obj m2 =>
        simp only [] at h1
        have hno : lookup "ownerReferences" m2 = none := by
          cases hx : lookup "ownerReferences" m2 with
          | none => rfl
          | some x =>
            exfalso
            obtain ⟨w, hw, hsw⟩ := sub_get? hs hl
            obtain ⟨m', w2, hw', hw2, _⟩ := sub_lookup hsw hx
            subst hw'
            unfold ownerRefs at ho
            rw [hw] at ho
            simp only [] at ho
            rw [hw2] at ho; cases ho
        rw [hno, hb2] at h1; cases h1; rfl
      | _ => cases h1

theorem markKey_pseudo_of_sub {body : J} {kvs : Kvs} {key mk mk' : List Char} (hs : Sub (.obj kvs) body)
    (h1 : markKey (pseudoBody body (.obj kvs)) key = .ok mk) (h2 : markKey body key = .ok mk') : mk = mk' := by
  unfold markKey at h1 h2
  obtain ⟨b, hb, h1'⟩ := bind_ok h1
  obtain ⟨b', hb', h2'⟩ := bind_ok h2
  have := isDRS_pseudo_of_sub hs hb hb'
  subst this
  cases b <;> simp [pure, Except.pure] at h1' h2' <;> rw [← h1', ← h2']

/-! ### one nested storage -/

theorem leaf_status_absent {hs : Hashes} {extra : List (List String)} {x e : J} {f : List String} {ig : List (List String)}
    (h : leafBuild hs extra x (.status f ig) = .ok e) : Absent e f := by
  simp only [leafBuild] at h
  obtain ⟨e1, _, h2⟩ := bind_ok h
  exact ignoreFields_absent [f] e1 e f h2 List.mem_cons_self

theorem leaf_ignored_absent {hs : Hashes} {extra : List (List String)} {x e : J} {f : List String} (l : DiffBaseLeaf)
    (h : leafBuild hs extra x l = .ok e) (hf : f ∈ leafIgnored l) : Absent e f := by
  cases l with
  | annotations p key v1 ig =>
    simp only [leafBuild] at h
    obtain ⟨e1, h1, h2⟩ := bind_ok h
    obtain ⟨mk, _, h3⟩ := bind_ok h2
    obtain ⟨ks, _, h4⟩ := bind_ok h3
    cases hm : metaOK e1 with
    | false => simp [hm, throw, throwThe, MonadExceptOf.throw, bind, Except.bind] at h4
    | true =>
      simp [hm, pure, Except.pure] at h4
      subst h4
      exact absent_of_sub (sub_trans (sub_removeEmptyStanzas _) (sub_filterAnnotations _ e1))
        (baseBuild_ignored_absent h1 hf)
  | status f' ig =>
    simp only [leafBuild] at h
    obtain ⟨e1, h1, h2⟩ := bind_ok h
    exact absent_of_sub (sub_ignoreFields [f'] e1 e h2) (baseBuild_ignored_absent h1 hf)

theorem leaf_keys_absent {hs : Hashes} {extra : List (List String)} {x e : J} {p key : String} {v1 : Bool}
    {ig : List (List String)} (h : leafBuild hs extra x (.annotations p key v1 ig) = .ok e) :
    ∃ mk ks, markKey x key.toList = .ok mk ∧ makeKeys hs v1 p.toList mk = .ok ks ∧
      ∀ k, k ∈ ks → Absent e ["metadata", "annotations", k] := by
  simp only [leafBuild] at h
  obtain ⟨e1, h1, h2⟩ := bind_ok h
  obtain ⟨mk, hmk, h3⟩ := bind_ok h2
  obtain ⟨ks, hks, h4⟩ := bind_ok h3
  cases hm : metaOK e1 with
  | false => simp [hm, throw, throwThe, MonadExceptOf.throw, bind, Except.bind] at h4
  | true =>
    simp [hm, pure, Except.pure] at h4
    subst h4
    refine ⟨mk, ks, hmk, hks, ?_⟩
    intro k hk
    exact absent_of_sub (sub_removeEmptyStanzas _) (removeAnnotations_absent hm hk)

/-! ### all nested storages: what one of them removes stays removed -/

theorem multiBuild_absent {hs : Hashes} {extra : List (List String)} {body : J} {P : List String}
    (hP : PseudoApart P) (leafOK : DiffBaseLeaf → Prop)
    (hleaf : ∀ l e1 e', leafOK l → Sub e1 body → leafBuild hs extra (pseudoBody body e1) l = .ok e' → Absent e' P) :
    ∀ (ls : List DiffBaseLeaf) (e0 e : J), Sub e0 body → multiBuild hs extra body e0 ls = .ok e →
      (Absent e0 P ∨ ∃ l, l ∈ ls ∧ leafOK l) → Absent e P
  | [], e0, e, _, h, hc => by
    simp [multiBuild] at h; subst h
    rcases hc with hc | ⟨l, hl, _⟩
    · exact hc
    · cases hl
  | l :: ls, e0, e, h0, h, hc => by
    simp only [multiBuild] at h
    obtain ⟨e1, h1, h2⟩ := bind_ok h
    have hs1 : Sub e1 body := sub_trans (sub_leafBuild l h1) (sub_pseudoBody h0)
    refine multiBuild_absent hP leafOK hleaf ls e1 e hs1 h2 ?_
    rcases hc with hc | ⟨l', hl', hok⟩
    · exact Or.inl (absent_of_sub (sub_leafBuild l h1) (pseudoBody_absent hP hc))
    · rcases List.mem_cons.1 hl' with rfl | hl''
      · exact Or.inl (hleaf _ e0 e1 hok h0 h1)
      · exact Or.inr ⟨l', hl'', hok⟩

theorem diffbaseBuild_absent {hs : Hashes} {extra : List (List String)} {body e : J} {P : List String}
    (hP : PseudoApart P) (leafOK : DiffBaseLeaf → Prop)
    (hleaf0 : ∀ l e', leafOK l → leafBuild hs extra body l = .ok e' → Absent e' P)
    (hleaf : ∀ l e1 e', leafOK l → Sub e1 body → leafBuild hs extra (pseudoBody body e1) l = .ok e' → Absent e' P)
    (cfg : DiffBaseCfg) (hl : ∃ l, l ∈ diffbaseLeaves cfg ∧ leafOK l)
    (h : diffbaseBuild hs extra body cfg = .ok e) : Absent e P := by
  cases cfg with
  | leaf l =>
    obtain ⟨l', hl', hok⟩ := hl
    simp only [diffbaseLeaves, List.mem_singleton] at hl'
    subst hl'
    exact hleaf0 _ e hok h
  | multi ls =>
    simp only [diffbaseBuild] at h
    obtain ⟨e0, h0, h3⟩ := bind_ok h
    exact multiBuild_absent hP leafOK hleaf ls e0 e (sub_baseBuild h0) h3 (Or.inr hl)

theorem essence_absent_of_diffbase {cfg : Cfg} {extra : List (List String)} {body e : J} {P : List String}
    (hd : ∀ e1, diffbaseBuild cfg.hashes extra body cfg.diffbase = .ok e1 → Absent e1 P)
    (h : essence cfg extra body = .ok e) : Absent e P := by
  simp only [essence] at h
  obtain ⟨e1, h1, h2⟩ := bind_ok h
  exact absent_of_sub (sub_progressClear cfg.progress e1 e h2) (hd e1 h1)

/-- **own status field**: the field of every (nested) `StatusDiffBaseStorage` is absent from the essence. -/
theorem essence_status_field_absent {cfg : Cfg} {extra : List (List String)} {body e : J} {f : List String}
    {ig : List (List String)} (hl : DiffBaseLeaf.status f ig ∈ diffbaseLeaves cfg.diffbase) (hp : PseudoApart f)
    (h : essence cfg extra body = .ok e) : Absent e f := by
  refine essence_absent_of_diffbase (fun e1 h1 => ?_) h
  refine diffbaseBuild_absent hp (fun l => l = .status f ig) ?_ ?_ cfg.diffbase ⟨_, hl, rfl⟩ h1
  · intro l e' hok hb; subst hok; exact leaf_status_absent hb
  · intro l e1 e' hok _ hb; subst hok; exact leaf_status_absent hb

/-- **ignored_fields of every (nested) storage** are absent from the essence. -/
theorem essence_ignored_absent {cfg : Cfg} {extra : List (List String)} {body e : J} {l : DiffBaseLeaf} {f : List String}
    (hl : l ∈ diffbaseLeaves cfg.diffbase) (hf : f ∈ leafIgnored l) (hp : PseudoApart f)
    (h : essence cfg extra body = .ok e) : Absent e f := by
  refine essence_absent_of_diffbase (fun e1 h1 => ?_) h
  refine diffbaseBuild_absent hp (fun l' => l' = l) ?_ ?_ cfg.diffbase ⟨_, hl, rfl⟩ h1
  · intro l' e' hok hb; subst hok; exact leaf_ignored_absent _ hb hf
  · intro l' e1 e' hok _ hb; subst hok; exact leaf_ignored_absent _ hb hf

theorem pseudoApart_annotation (k : String) : PseudoApart ["metadata", "annotations", k] := by
  refine ⟨by simp, by simp, ?_⟩
  intro ⟨t, ht⟩
  simp at ht

/-- **own annotation keys**: the exact keys `make_keys` forms for the real body, for every (nested)
    `AnnotationsDiffBaseStorage`, are absent from the essence. -/
theorem essence_own_keys_absent {cfg : Cfg} {extra : List (List String)} {body e : J} {p key : String} {v1 : Bool}
    {ig : List (List String)} {ks : List String} {k : String}
    (hl : DiffBaseLeaf.annotations p key v1 ig ∈ diffbaseLeaves cfg.diffbase)
    (hks : keysFor cfg.hashes v1 p key body = .ok ks) (hk : k ∈ ks)
    (h : essence cfg extra body = .ok e) : Absent e ["metadata", "annotations", k] := by
  unfold keysFor at hks
  obtain ⟨mk0, hmk0, hks0⟩ := bind_ok hks
  refine essence_absent_of_diffbase (fun e1 h1 => ?_) h
  refine diffbaseBuild_absent (pseudoApart_annotation k) (fun l => l = .annotations p key v1 ig) ?_ ?_ cfg.diffbase
    ⟨_, hl, rfl⟩ h1
  · intro l e' hok hb
    subst hok
    obtain ⟨mk, ks', hmk, hks', hall⟩ := leaf_keys_absent hb
    rw [hmk0] at hmk; cases hmk
    rw [hks0] at hks'; cases hks'
    exact hall k hk
  · intro l e1 e' hok hs1 hb
    subst hok
    obtain ⟨mk, ks', hmk, hks', hall⟩ := leaf_keys_absent hb
    have : mk = mk0 := by
      cases e1 with
      | obj kvs => exact markKey_pseudo_of_sub hs1 hmk hmk0
      | _ =>
        simp only [pseudoBody] at hb
        simp only [leafBuild] at hb
        obtain ⟨e2, hb1, _⟩ := bind_ok hb
        obtain ⟨kvs, hk2⟩ := baseBuild_obj hb1
        cases hk2
    subst this
    rw [hks0] at hks'; cases hks'
    exact hall k hk

/-! ### a handler's field that is absent from the body — or hidden behind a non-mapping value — restores nothing (kopf 571b1b2) -/

theorem resolveE_error : ∀ (p : List String) (e : J) (x : Err), resolveE e p = .error x → x = .keyError ∨ x = .typeError
  | [], e, x, h => by simp [resolveE] at h
  | k :: ks, e, x, h => by
    cases e with
    | obj l =>
      rw [resolveE_obj_cons] at h
      cases hl : lookup k l with
      | none => rw [hl] at h; cases h; exact Or.inl rfl
      | some v => rw [hl] at h; exact resolveE_error ks v x h
    | _ => simp [resolveE] at h; exact Or.inr h.symm

theorem cherrypickSkip_cons_absent {src : J} {f : List String} (ha : Absent src f) (dst : J) (fs : List (List String)) :
    cherrypickSkip src dst (f :: fs) = cherrypickSkip src dst fs := by
  simp only [cherrypickSkip, cherrypick]
  cases hr : resolveE src f with
  | ok v => exact absurd ⟨v, hr⟩ ha
  | error x => rcases resolveE_error f src x hr with rfl | rfl <;> rfl

theorem cherrypickSkip_no_typeError (src : J) : ∀ (fs : List (List String)) (dst : J),
    cherrypickSkip src dst fs ≠ .error .typeError
  | [], dst => by simp [cherrypickSkip]
  | f :: fs, dst => by
    simp only [cherrypickSkip]
    cases cherrypick src dst [f] with
    | ok d1 => exact cherrypickSkip_no_typeError src fs d1
    | error e => cases e <;> simp only [] <;> first | exact cherrypickSkip_no_typeError src fs dst | simp

theorem baseBuild_cons_absent {b : J} {f : List String} (ha : Absent b f) (ig extra : List (List String)) :
    baseBuild ig (f :: extra) b = baseBuild ig extra b := by
  cases b with
  | obj kvs => simp only [baseBuild, cherrypickSkip_cons_absent ha]
  | _ => rfl

theorem leafBuild_cons_absent {b : J} {f : List String} (ha : Absent b f) (hs : Hashes) (extra : List (List String))
    (l : DiffBaseLeaf) : leafBuild hs (f :: extra) b l = leafBuild hs extra b l := by
  cases l <;> simp only [leafBuild, baseBuild_cons_absent ha]

theorem multiBuild_cons_absent {body : J} {f : List String} (ha : Absent body f) (hs : Hashes) (extra : List (List String)) :
    ∀ (ls : List DiffBaseLeaf) (e : J), Sub e body → multiBuild hs (f :: extra) body e ls = multiBuild hs extra body e ls
  | [], _, _ => rfl
  | l :: ls, e, he => by
    have hp : Sub (pseudoBody body e) body := sub_pseudoBody he
    simp only [multiBuild, leafBuild_cons_absent (absent_of_sub hp ha)]
    cases h1 : leafBuild hs extra (pseudoBody body e) l with
    | error er => rfl
    | ok e1 =>
      simp only [bind, Except.bind]
      exact multiBuild_cons_absent ha hs extra ls e1 (sub_trans (sub_leafBuild l h1) hp)

theorem essence_cons_absent {body : J} {f : List String} (ha : Absent body f) (cfg : Cfg) (extra : List (List String)) :
    essence cfg (f :: extra) body = essence cfg extra body := by
  simp only [essence]
  cases hd : cfg.diffbase with
  | leaf l => simp only [diffbaseBuild, leafBuild_cons_absent ha]
  | multi ls =>
    simp only [diffbaseBuild, baseBuild_cons_absent ha]
    cases h1 : baseBuild [] extra body with
    | error er => rfl
    | ok e1 =>
      simp only [bind, Except.bind]
      rw [multiBuild_cons_absent ha cfg.hashes extra ls e1 (sub_baseBuild h1)]

end Kopf.C04
