/-
  C08 — helper lemmas about the discovery model (`Model/C08_Discovery.lean`): names with one delimiter.
-/
import Kopf.Model.C08_Discovery
namespace Kopf.C08

theorem dropWhile_to_slash (p t : Name) (hp : '/' ∉ p) :
    (p ++ '/' :: t).dropWhile (fun c => c != '/') = '/' :: t := by
  induction p with
  | nil => simp
  | cons c p ih =>
    have hc : c ≠ '/' := fun h => hp (by simp [h])
    have hp' : '/' ∉ p := fun h => hp (by simp [h])
    simp [hc, ih hp']

theorem afterSlash_append (p t : Name) (hp : '/' ∉ p) : afterSlash (p ++ '/' :: t) = t := by
  unfold afterSlash
  rw [dropWhile_to_slash p t hp]

theorem hasSlash_iff (n : Name) : hasSlash n = true ↔ '/' ∈ n := by
  unfold hasSlash
  rw [List.any_eq_true]
  constructor
  · rintro ⟨x, hx, h⟩
    have : x = '/' := by simpa using h
    exact this ▸ hx
  · intro h; exact ⟨'/', h, by simp⟩

theorem isSubOf_iff (p n : Name) : isSubOf p n = true ↔ ∃ t, n = p ++ '/' :: t := by
  unfold isSubOf
  rw [List.isPrefixOf_iff_prefix]
  constructor
  · rintro ⟨t, h⟩
    exact ⟨t, by rw [← h]; simp⟩
  · rintro ⟨t, h⟩
    exact ⟨t, by rw [h]; simp⟩

/-- a name with one delimiter after a slash-free plural splits in one way only -/
theorem append_slash_inj (p q s t : Name) (hp : '/' ∉ p) (hq : '/' ∉ q)
    (h : p ++ '/' :: s = q ++ '/' :: t) : p = q ∧ s = t := by
  induction p generalizing q with
  | nil =>
    cases q with
    | nil => simpa using h
    | cons d q =>
      simp at h
      exact absurd h.1.symm (fun e => hq (by simp [e]))
  | cons c p ih =>
    cases q with
    | nil =>
      simp at h
      exact absurd h.1 (fun e => hp (by simp [e]))
    | cons d q =>
      simp at h
      have hp' : '/' ∉ p := fun e => hp (by simp [e])
      have hq' : '/' ∉ q := fun e => hq (by simp [e])
      have := ih q hp' hq' h.2
      exact ⟨by rw [h.1, this.1], this.2⟩

/-- the subresources collected for a (slash-free) plural are exactly the entries `plural/…` of the answer -/
theorem mem_subresourcesOf (names : List Name) (p s : Name) (hp : '/' ∉ p) :
    s ∈ subresourcesOf names p ↔ p ++ '/' :: s ∈ names := by
  unfold subresourcesOf
  rw [List.mem_map]
  constructor
  · rintro ⟨n, hn, e⟩
    rw [List.mem_filter] at hn
    obtain ⟨t, ht⟩ := (isSubOf_iff p n).1 hn.2
    rw [ht, afterSlash_append p t hp] at e
    rw [← e, ← ht]; exact hn.1
  · intro h
    exact ⟨p ++ '/' :: s, List.mem_filter.2 ⟨h, (isSubOf_iff p _).2 ⟨s, rfl⟩⟩, afterSlash_append p s hp⟩

/-- which `plural/…` entries a cluster's answer holds -/
theorem mem_discoveryNames_sub (cl : List ResDef) (p s : Name) (hcl : ∀ r ∈ cl, '/' ∉ r.plural) (hp : '/' ∉ p) :
    p ++ '/' :: s ∈ discoveryNames cl ↔ ∃ r ∈ cl, r.plural = p ∧ s ∈ r.subs := by
  unfold discoveryNames
  rw [List.mem_flatMap]
  constructor
  · rintro ⟨r, hr, h⟩
    rw [List.mem_cons] at h
    rcases h with h | h
    · exact absurd (h ▸ (by simp : '/' ∈ p ++ '/' :: s)) (hcl r hr)
    · rw [List.mem_map] at h
      obtain ⟨s', hs', e⟩ := h
      have := append_slash_inj r.plural p s' s (hcl r hr) hp e
      exact ⟨r, hr, this.1, this.2 ▸ hs'⟩
  · rintro ⟨r, hr, e, hs⟩
    refine ⟨r, hr, ?_⟩
    rw [List.mem_cons]; right
    rw [List.mem_map]
    exact ⟨s, hs, by rw [e]⟩

theorem believesStatus_iff (names : List Name) (p : Name) :
    believesStatus names p = true ↔ statusName ∈ subresourcesOf names p := by
  unfold believesStatus
  rw [List.any_eq_true]
  constructor
  · rintro ⟨x, hx, h⟩
    have : x = statusName := by simpa using h
    exact this ▸ hx
  · intro h; exact ⟨statusName, h, by simp⟩

end Kopf.C08
