import Kopf.Model.C03_Relist
import Kopf.Lemmas.C03_Final
namespace Kopf.C03
open Kopf Kopf.C02

variable {E : Type} [DecidableEq E]

theorem inSleep_cond (env : Env) (s : State E) (t : Tick) (h : inSleep env s t = true) :
    handlesNow env s = true ∧ changedOf env s = false := by
  unfold inSleep sleepsTill at h
  by_cases hc : (handlesNow env s && !decide ((causeOf s).reason = .free) && !changedOf env s) = true
  · simp only [Bool.and_eq_true, Bool.not_eq_true'] at hc
    exact ⟨hc.1.1, hc.2⟩
  · rw [if_neg hc] at h
    cases h

theorem workerTurn_inSleep (k : Bool) (env : Env) (s : State E) (t : Tick) (h : inSleep env s t = true) :
    workerTurn k env t s = { interrupted env s t with pending := !k } := by
  unfold workerTurn; rw [if_pos h]

theorem unchanged_of_not_changed (env : Env) (s : State E) (h : changedOf env s = false) :
    (∀ i ∈ ids env, (pass env s).P' i = s.P i) ∧ (if (pass env s).closed then some s.ess else s.base) = s.base := by
  unfold changedOf at h
  simp only [Bool.or_eq_false_iff, List.any_eq_false, decide_eq_false_iff_not, bne_iff_ne, ne_eq,
    Decidable.not_not] at h
  exact ⟨fun i hi => h.1 i hi, h.2⟩

theorem interrupted_uniform (env : Env) (wf : WF env) (s : State E) (t : Tick) (hu : UniformOn env.owned s.P) :
    UniformOn env.owned (interrupted env s t).P := by
  have hsub : ∀ i ∈ (cfgOf env s).selected, i ∈ (cfgOf env s).owned := fun i hi => selOf_sub env wf s i hi
  exact uniform_preserved (cfgOf env s) (vis env s) s.now s.now env.exec hsub (vis_uniform env s hu)

end Kopf.C03
