/-
  C04 — the essence keeps every payload stanza of the body exactly (spec, data, … — any top-level
  key other than apiVersion/kind/metadata/status that no configured ignored/storage field starts with).
-/
import Kopf.Lemmas.C04_OwnAnn
set_option linter.unusedSimpArgs false
namespace Kopf.C04
open Kopf Kopf.J

theorem insert_self {k : String} {v : J} {l : Kvs} (h : lookup k l = some v) : J.insert k v l = l := by
  induction l with
  | nil => simp at h
  | cons kv l ih =>
    obtain ⟨k2, v2⟩ := kv
    by_cases hk : k2 = k
    · subst hk; simp [lookup_cons] at h; subst h; simp [J.insert]
    · simp [lookup_cons, hk] at h; simp [J.insert, hk, ih h]

theorem get?_obj (kvs : Kvs) (k : String) : (J.obj kvs).get? k = lookup k kvs := rfl

/-- writing back the value that is already there changes nothing. -/
theorem ensure_resolve_self : ∀ (f : List String) (j v : J), f ≠ [] → resolveE j f = .ok v → ensure j f v = .ok j
  | [], _, _, h, _ => absurd rfl h
  | [k], j, v, _, hr => by
    cases j with
    | obj kvs =>
      rw [resolveE_obj_cons] at hr
      cases hl : lookup k kvs with
      | none => rw [hl] at hr; cases hr
      | some c =>
        rw [hl] at hr; simp [resolveE] at hr; subst hr
        simp [ensure, insert_self hl]
    | _ => simp [resolveE] at hr
  | k :: k2 :: ks, j, v, _, hr => by
    cases j with
    | obj kvs =>
      rw [resolveE_obj_cons] at hr
      cases hl : lookup k kvs with
      | none => rw [hl] at hr; cases hr
      | some c =>
        rw [hl] at hr
        have ih := ensure_resolve_self (k2 :: ks) c v (by simp) hr
        simp [ensure, hl, ih, bind, Except.bind, pure, Except.pure, insert_self hl]
    | _ => simp [resolveE] at hr

theorem ensure_cons2 (kvs : Kvs) (h k2 : String) (ks : List String) (v : J) :
    ensure (.obj kvs) (h :: k2 :: ks) v =
      match ensure ((lookup h kvs).getD (.obj [])) (k2 :: ks) v with
      | .ok c' => .ok (.obj (J.insert h c' kvs))
      | .error e => .error e := by
  simp only [ensure]
  cases lookup h kvs with
  | none =>
    simp only [Option.getD_none]
    cases ensure (.obj []) (k2 :: ks) v <;> rfl
  | some child =>
    simp only [Option.getD_some]
    cases ensure child (k2 :: ks) v <;> rfl

theorem ensure_obj_shape {d d' v : J} {h : String} {rest : List String} (he : ensure d (h :: rest) v = .ok d') :
    ∃ kvs c, d = .obj kvs ∧ d' = .obj (J.insert h c kvs) ∧
      (rest = [] → c = v) ∧
      (∀ k2 ks, rest = k2 :: ks → ensure ((lookup h kvs).getD (.obj [])) (k2 :: ks) v = .ok c) := by
  cases d with
  | obj kvs =>
    cases rest with
    | nil =>
      simp [ensure] at he; subst he
      exact ⟨kvs, v, rfl, rfl, (fun _ => rfl), (fun _ _ h => by cases h)⟩
    | cons k2 ks =>
      rw [ensure_cons2] at he
      cases hc : ensure ((lookup h kvs).getD (.obj [])) (k2 :: ks) v with
      | error e => rw [hc] at he; cases he
      | ok c' =>
        rw [hc] at he; simp only [] at he
        have he' : d' = .obj (J.insert h c' kvs) := by cases he; rfl
        refine ⟨kvs, c', rfl, he', (fun h => by cases h), ?_⟩
        intro k2' ks' h'; cases h'; exact hc
  | _ => simp [ensure] at he

theorem ensure_get?_other {d d' v : J} {h k : String} {rest : List String}
    (he : ensure d (h :: rest) v = .ok d') (hk : h ≠ k) : d'.get? k = d.get? k := by
  obtain ⟨kvs, c, rfl, rfl, _, _⟩ := ensure_obj_shape he
  simp [get?, lookup_insert_other _ kvs (Ne.symm hk)]

theorem ensure_get?_same {src d d' v : J} {k : String} {rest : List String}
    (hr : resolveE src (k :: rest) = .ok v) (hd : d.get? k = src.get? k)
    (he : ensure d (k :: rest) v = .ok d') : d'.get? k = src.get? k := by
  obtain ⟨kvs, c, rfl, rfl, h1, h2⟩ := ensure_obj_shape he
  cases src with
  | obj skvs =>
    rw [resolveE_obj_cons] at hr
    cases hl : lookup k skvs with
    | none => rw [hl] at hr; cases hr
    | some sc =>
      rw [hl] at hr
      have hdl : lookup k kvs = some sc := by simpa [get?, hl] using hd
      cases rest with
      | nil =>
        simp [resolveE] at hr; subst hr
        rw [h1 rfl]
        simp [get?, lookup_insert_same, hl]
      | cons k2 ks =>
        have hs := ensure_resolve_self (k2 :: ks) sc v (by simp) hr
        have := h2 k2 ks rfl
        rw [hdl] at this
        simp only [Option.getD_some] at this
        rw [hs] at this
        cases this
        simp [get?, lookup_insert_same, hl]
  | _ => simp [resolveE] at hr

theorem ensure_isObj {d d' v : J} {f : List String} (he : ensure d f v = .ok d') : d'.isObj = true := by
  cases f with
  | nil => cases d <;> simp [ensure] at he
  | cons h rest =>
    obtain ⟨kvs, c, rfl, rfl, _, _⟩ := ensure_obj_shape he
    rfl

theorem liftD_ok {α} {x : Except DictErr α} {a : α} (h : liftD x = .ok a) : x = .ok a := by
  cases x with
  | ok b => simp [liftD] at h; subst h; rfl
  | error e => simp [liftD] at h

/-- cherry-picking from `src` keeps a top-level key that agrees with `src`. -/
theorem cherrypick_get? (src : J) (k : String) : ∀ (fs : List (List String)) (d d' : J),
    cherrypick src d fs = .ok d' → d.isObj = true → d.get? k = src.get? k →
    d'.get? k = src.get? k ∧ d'.isObj = true
  | [], d, d', h, ho, hd => by simp [cherrypick] at h; subst h; exact ⟨hd, ho⟩
  | f :: fs, d, d', h, ho, hd => by
    simp only [cherrypick] at h
    cases hr : resolveE src f with
    | error e =>
      rw [hr] at h
      cases e <;> simp only [] at h <;> first | exact cherrypick_get? src k fs d d' h ho hd | cases h
    | ok v =>
      rw [hr] at h
      simp only [] at h
      cases he : liftD (ensure d f v) with
      | error e => rw [he] at h; simp [bind, Except.bind] at h
      | ok d1 =>
        rw [he] at h
        simp only [bind, Except.bind] at h
        have he' := liftD_ok he
        have ho1 := ensure_isObj he'
        cases f with
        | nil => cases d <;> simp [ensure] at he'
        | cons hh rest =>
          by_cases hk : hh = k
          · subst hk
            exact cherrypick_get? src hh fs d1 d' h ho1 (ensure_get?_same hr hd he')
          · exact cherrypick_get? src k fs d1 d' h ho1 ((ensure_get?_other he' hk).trans hd)

/-- the guarded restoring loop (kopf 571b1b2): the same, a skipped field changes nothing. -/
theorem cherrypickSkip_get? (src : J) (k : String) : ∀ (fs : List (List String)) (d d' : J),
    cherrypickSkip src d fs = .ok d' → d.isObj = true → d.get? k = src.get? k →
    d'.get? k = src.get? k ∧ d'.isObj = true
  | [], d, d', h, ho, hd => by simp [cherrypickSkip] at h; subst h; exact ⟨hd, ho⟩
  | f :: fs, d, d', h, ho, hd => by
    simp only [cherrypickSkip] at h
    cases hc : cherrypick src d [f] with
    | ok d1 =>
      rw [hc] at h; simp only [] at h
      have ⟨g1, o1⟩ := cherrypick_get? src k [f] d d1 hc ho hd
      exact cherrypickSkip_get? src k fs d1 d' h o1 g1
    | error e =>
      rw [hc] at h
      cases e <;> simp only [] at h <;> first | exact cherrypickSkip_get? src k fs d d' h ho hd | cases h

theorem avoidKey_one {k hd : String} {f : List String} (h1 : f.head? = some hd) (n1 : hd ≠ k) : AvoidKey k [f] := by
  intro g hg
  have : g = f := by simpa using hg
  subst this; exact ⟨hd, h1, n1⟩

theorem avoidKey_two {k hf ht : String} {f t : List String} (h1 : f.head? = some hf) (h2 : t.head? = some ht)
    (n1 : hf ≠ k) (n2 : ht ≠ k) : AvoidKey k [f, t] := by
  intro g hg
  have : g = f ∨ g = t := by simpa using hg
  rcases this with rfl | rfl
  · exact ⟨hf, h1, n1⟩
  · exact ⟨ht, h2, n2⟩

/-! ### the cleaning steps only touch `metadata` and `status` -/

theorem metaSet_get? (e : J) (name : String) (v : J) {k : String} (hk : k ≠ "metadata") :
    (metaSet e name v).get? k = e.get? k := by
  unfold metaSet
  cases e with
  | obj kvs =>
    simp only []
    cases lookup "metadata" kvs with
    | none => rfl
    | some mm => cases mm <;> simp [get?, lookup_insert_other _ kvs hk]
  | _ => rfl

theorem metaDel_get? (e : J) (name : String) {k : String} (hk : k ≠ "metadata") :
    (metaDel e name).get? k = e.get? k := by
  unfold metaDel
  cases e with
  | obj kvs =>
    simp only []
    cases lookup "metadata" kvs with
    | none => rfl
    | some mm => cases mm <;> simp [get?, lookup_insert_other _ kvs hk]
  | _ => rfl

theorem dropIfFalsy_get? (e : J) (name : String) {k : String} (hk : k ≠ name) :
    (dropIfFalsy e name).get? k = e.get? k := by
  unfold dropIfFalsy
  cases e with
  | obj kvs =>
    simp only []
    cases lookup name kvs with
    | none => rfl
    | some v =>
      simp only []
      split
      · rfl
      · simp [get?, lookup_erase_other kvs hk]
  | _ => rfl

theorem metaDropIfFalsy_get? (e : J) (name : String) {k : String} (hk : k ≠ "metadata") :
    (metaDropIfFalsy e name).get? k = e.get? k := by
  unfold metaDropIfFalsy
  cases metaGet e name with
  | none => rfl
  | some v =>
    simp only []
    split
    · rfl
    · exact metaDel_get? e name hk

theorem removeEmptyStanzas_get? (e : J) {k : String} (hm : k ≠ "metadata") (hs : k ≠ "status") :
    (removeEmptyStanzas e).get? k = e.get? k := by
  simp only [removeEmptyStanzas]
  rw [dropIfFalsy_get? _ _ hs, dropIfFalsy_get? _ _ hm, metaDropIfFalsy_get? _ _ hm, metaDropIfFalsy_get? _ _ hm]

theorem filterAnnotations_get? (keep : String → Bool) (e : J) {k : String} (hm : k ≠ "metadata") :
    (filterAnnotations keep e).get? k = e.get? k := by
  unfold filterAnnotations
  cases metaGet e "annotations" with
  | none => rfl
  | some v => cases v <;> first | rfl | exact metaSet_get? e _ _ hm

theorem remove_get? : ∀ (f : List String) (d d' : J) (h k : String), f.head? = some h → h ≠ k →
    remove d f = .ok d' → d'.get? k = d.get? k
  | [], _, _, _, _, hh, _, _ => by simp at hh
  | [h0], d, d', h, k, hh, hk, hr => by
    simp at hh; subst hh
    cases d with
    | obj kvs => simp [remove] at hr; subst hr; simp [get?, lookup_erase_other kvs (Ne.symm hk)]
    | _ => simp [remove] at hr
  | h0 :: k2 :: ks, d, d', h, k, hh, hk, hr => by
    simp at hh; subst hh
    cases d with
    | obj kvs =>
      simp only [remove] at hr
      cases hl : lookup h0 kvs with
      | none => rw [hl] at hr; simp at hr; subst hr; rfl
      | some child =>
        rw [hl] at hr
        simp only [] at hr
        cases hc : remove child (k2 :: ks) with
        | error e => rw [hc] at hr; simp [bind, Except.bind] at hr
        | ok c' =>
          rw [hc] at hr
          simp only [bind, Except.bind] at hr
          split at hr
          · simp [pure, Except.pure] at hr; subst hr; simp [get?, lookup_erase_other kvs (Ne.symm hk)]
          · simp [pure, Except.pure] at hr; subst hr; simp [get?, lookup_insert_other _ kvs (Ne.symm hk)]
    | _ => simp [remove] at hr

theorem ignoreFields_get? (k : String) : ∀ (ig : List (List String)) (e e' : J), AvoidKey k ig →
    ignoreFields e ig = .ok e' → e'.get? k = e.get? k
  | [], e, e', _, h => by simp [ignoreFields] at h; subst h; rfl
  | f :: fs, e, e', ha, h => by
    obtain ⟨hd, hhd, hne⟩ := ha f List.mem_cons_self
    have ha' : AvoidKey k fs := fun g hg => ha g (List.mem_cons_of_mem _ hg)
    simp only [ignoreFields] at h
    cases hr : remove e f with
    | ok e1 =>
      rw [hr] at h; simp only [] at h
      rw [ignoreFields_get? k fs e1 e' ha' h, remove_get? f e e1 hd k hhd hne hr]
    | error er =>
      rw [hr] at h
      cases er <;> simp only [] at h <;> first | exact ignoreFields_get? k fs e e' ha' h | cases h

theorem erase4_get? (kvs : Kvs) {k : String} (hk : PayloadKey k) : lookup k (erase4 kvs) = lookup k kvs := by
  obtain ⟨h1, h2, h3, h4⟩ := hk
  simp only [erase4]
  rw [lookup_erase_other _ h4, lookup_erase_other _ h3, lookup_erase_other _ h2, lookup_erase_other _ h1]

theorem baseBuild_get? {ig extra : List (List String)} {kvs : Kvs} {e : J} {k : String}
    (hk : PayloadKey k) (hig : AvoidKey k ig) (h : baseBuild ig extra (.obj kvs) = .ok e) :
    e.get? k = lookup k kvs := by
  rw [baseBuild_eq] at h
  cases h1 : cherrypick (.obj kvs) (.obj (erase4 kvs)) [ML, MA] with
  | error er => rw [h1] at h; cases h
  | ok e1 =>
    rw [h1] at h
    simp only [tailBuild] at h
    have ⟨g1, o1⟩ := cherrypick_get? (.obj kvs) k _ _ _ h1 rfl (by simp [get?, erase4_get? kvs hk])
    split at h
    · cases h
    · cases h3 : cherrypickSkip (.obj kvs) (stage2 e1) extra with
      | error er => rw [h3] at h; cases h
      | ok e3 =>
        rw [h3] at h
        simp only [] at h
        have hf : (stage2 e1).get? k = (J.obj kvs).get? k := by
          unfold stage2; rw [filterAnnotations_get? _ _ hk.2.2.1]; exact g1
        have hfo : (stage2 e1).isObj = true := by
          unfold stage2 filterAnnotations
          cases metaGet e1 "annotations" with
          | none => exact o1
          | some v =>
            cases v <;> first | exact o1 | skip
            cases e1 <;> simp [isObj] at o1
            simp only [metaSet]
            split <;> rfl
        have ⟨g3, _⟩ := cherrypickSkip_get? (.obj kvs) k _ _ _ h3 hfo hf
        split at h
        · cases h
        · rw [ignoreFields_get? k ig _ e hig h, removeEmptyStanzas_get? _ hk.2.2.1 hk.2.2.2, g3]; rfl

theorem baseBuild_obj {ig extra : List (List String)} {b e : J} (h : baseBuild ig extra b = .ok e) :
    ∃ kvs, b = .obj kvs := by
  cases b with
  | obj kvs => exact ⟨kvs, rfl⟩
  | _ => simp [baseBuild] at h

theorem bind_ok {α β} {x : Except Err α} {f : α → Except Err β} {b : β} (h : x >>= f = .ok b) :
    ∃ a, x = .ok a ∧ f a = .ok b := by
  cases x with
  | ok a => exact ⟨a, rfl, h⟩
  | error e => cases h

theorem leafBuild_get? {hs : Hashes} {extra : List (List String)} {b e : J} {k : String} (l : DiffBaseLeaf)
    (hk : PayloadKey k) (hav : AvoidKey k (leafFields l)) (h : leafBuild hs extra b l = .ok e) :
    e.get? k = b.get? k := by
  cases l with
  | annotations p key v1 ig =>
    simp only [leafBuild] at h
    obtain ⟨e1, h1, h2⟩ := bind_ok h
    obtain ⟨mk, _, h3⟩ := bind_ok h2
    obtain ⟨ks, _, h4⟩ := bind_ok h3
    clear h h2 h3
    obtain ⟨kvs, rfl⟩ := baseBuild_obj h1
    have g1 := baseBuild_get? hk hav h1
    cases hm : metaOK e1 with
    | false => simp [hm, throw, throwThe, MonadExceptOf.throw, bind, Except.bind] at h4
    | true =>
      simp [hm, pure, Except.pure] at h4
      subst h4
      rw [removeEmptyStanzas_get? _ hk.2.2.1 hk.2.2.2]
      unfold removeAnnotations
      rw [filterAnnotations_get? _ _ hk.2.2.1, g1]; rfl
  | status f ig =>
    simp only [leafBuild] at h
    obtain ⟨e1, h1, h2⟩ := bind_ok h
    clear h
    obtain ⟨kvs, rfl⟩ := baseBuild_obj h1
    have g1 := baseBuild_get? hk (fun g hg => hav g (List.mem_cons_of_mem _ hg)) h1
    obtain ⟨hd, hhd, hne⟩ := hav f List.mem_cons_self
    rw [ignoreFields_get? k [f] e1 e (avoidKey_one hhd hne) h2, g1]; rfl

theorem lookup_withKind (orig : J) (l : Kvs) {k : String} (h : k ≠ "kind") : lookup k (withKind orig l) = lookup k l := by
  unfold withKind
  cases orig.get? "kind" with
  | none => rfl
  | some kv => exact lookup_insert_other _ _ h

theorem lookup_withOwners (orig : J) (l : Kvs) {k : String} (h : k ≠ "metadata") :
    lookup k (withOwners orig l) = lookup k l := by
  unfold withOwners
  cases ownerRefs orig with
  | none => rfl
  | some o => exact lookup_insert_other _ _ h

theorem pseudoBody_get? (orig b : J) {k : String} (hkind : k ≠ "kind") (hmeta : k ≠ "metadata") :
    (pseudoBody orig b).get? k = b.get? k := by
  cases b with
  | obj l =>
    show lookup k (withOwners orig (withKind orig l)) = lookup k l
    rw [lookup_withOwners orig _ hmeta, lookup_withKind orig _ hkind]
  | _ => rfl

theorem multiBuild_get? {hs : Hashes} {extra : List (List String)} {k : String} (hk : PayloadKey k) (orig : J) :
    ∀ (ls : List DiffBaseLeaf) (b e : J), (∀ l, l ∈ ls → AvoidKey k (leafFields l)) →
      multiBuild hs extra orig b ls = .ok e → e.get? k = b.get? k
  | [], b, e, _, h => by simp [multiBuild] at h; subst h; rfl
  | l :: ls, b, e, hav, h => by
    simp only [multiBuild] at h
    obtain ⟨e1, h1, h2⟩ := bind_ok h
    rw [multiBuild_get? hk orig ls e1 e (fun l' hl' => hav l' (List.mem_cons_of_mem _ hl')) h2,
      leafBuild_get? l hk (hav l List.mem_cons_self) h1, pseudoBody_get? orig b hk.2.1 hk.2.2.1]

theorem diffbaseBuild_get? {hs : Hashes} {extra : List (List String)} {kvs : Kvs} {e : J} {k : String}
    (d : DiffBaseCfg) (hk : PayloadKey k) (hav : AvoidKey k (diffbaseFields d))
    (h : diffbaseBuild hs extra (.obj kvs) d = .ok e) : e.get? k = lookup k kvs := by
  cases d with
  | leaf l => exact leafBuild_get? l hk hav h
  | multi ls =>
    simp only [diffbaseBuild] at h
    obtain ⟨e1, h1, h2⟩ := bind_ok h
    have g1 := baseBuild_get? hk (fun _ hf => by cases hf) h1
    rw [multiBuild_get? hk _ ls e1 e (fun l hl f hf => hav f (List.mem_flatMap.2 ⟨l, hl, hf⟩)) h2, g1]

theorem progressClear_get? {k : String} (hk : PayloadKey k) : ∀ (p : ProgressCfg) (e e' : J),
    AvoidKey k (progressFields p) → progressClear e p = .ok e' → e'.get? k = e.get? k
  | [], e, e', _, h => by simp [progressClear] at h; subst h; rfl
  | .annotations pf :: ls, e, e', hav, h => by
    simp only [progressClear] at h
    obtain ⟨e1, h1, h2⟩ := bind_ok h
    rw [progressClear_get? hk ls e1 e' hav h2]
    simp only [clearLeaf] at h1
    split at h1
    · cases h1
    · cases h1
      rw [removeEmptyStanzas_get? _ hk.2.2.1 hk.2.2.2, filterAnnotations_get? _ _ hk.2.2.1]
  | .status f t :: ls, e, e', hav, h => by
    simp only [progressClear] at h
    obtain ⟨e1, h1, h3⟩ := bind_ok h
    rw [progressClear_get? hk ls e1 e' (fun g hg => hav g (List.mem_cons_of_mem _ (List.mem_cons_of_mem _ hg))) h3]
    simp only [clearLeaf] at h1
    obtain ⟨e0, h0, h2⟩ := bind_ok h1
    clear h1
    obtain ⟨hd, hhd, hne⟩ := hav f List.mem_cons_self
    obtain ⟨td, thd, tne⟩ := hav t (List.mem_cons_of_mem _ List.mem_cons_self)
    cases hm : metaOK e0 with
    | false => simp [hm, throw, throwThe, MonadExceptOf.throw, bind, Except.bind] at h2
    | true =>
      simp [hm, pure, Except.pure] at h2
      subst h2
      rw [removeEmptyStanzas_get? _ hk.2.2.1 hk.2.2.2, ignoreFields_get? k [f, t] e e0 (avoidKey_two hhd thd hne tne) h0]

/-- **every payload stanza of the body is in the essence, unchanged.** -/
theorem essence_get? {cfg : Cfg} {extra : List (List String)} {kvs : Kvs} {e : J} {k : String}
    (hk : PayloadKey k) (hd : AvoidKey k (diffbaseFields cfg.diffbase)) (hp : AvoidKey k (progressFields cfg.progress))
    (h : essence cfg extra (.obj kvs) = .ok e) : e.get? k = lookup k kvs := by
  simp only [essence] at h
  obtain ⟨e1, h1, h2⟩ := bind_ok h
  rw [progressClear_get? hk cfg.progress e1 e hp h2, diffbaseBuild_get? cfg.diffbase hk hd h1]

end Kopf.C04
