/-
  C08 helper lemmas, part 4: the carry-forward cycle (`Patch(remaining)` against a fresh body, nobody
  interfering) and the merge-patch routing lemmas.
-/
import Kopf.Lemmas.C08_Carry
namespace Kopf.C08
open Kopf Kopf.J

/-! ## routing keeps the delivered leaves -/

theorem resolve_withStatus_other (b : Kvs) (x : Option J) (k : String) (rest : List String) (hk : k ≠ "status") :
    resolve? (obj (withStatus b x)) (k :: rest) = resolve? (obj b) (k :: rest) := by
  rw [resolve_cons_obj, resolve_cons_obj]
  cases x with
  | none => simp only [withStatus]; rw [lookup_erase_ne hk]
  | some v => simp only [withStatus]; rw [lookup_insert_ne hk]

theorem resolve_withStatus_status (ob nb : Kvs) (rest : List String) :
    resolve? (obj (withStatus ob (lookup "status" nb))) ("status" :: rest) = resolve? (obj nb) ("status" :: rest) := by
  rw [resolve_cons_obj, resolve_cons_obj]
  cases h : lookup "status" nb with
  | none => simp only [withStatus]; rw [lookup_erase_self]
  | some v => simp only [withStatus]; rw [lookup_insert_self]

theorem delivered_withStatus_other {p b : Kvs} (x : Option J) (h : Delivered p b) (hs : lookup "status" p = none) :
    Delivered p (withStatus b x) := by
  intro path v hl
  obtain ⟨k, rest, rfl, hk⟩ := leaf_head hl
  have hne : k ≠ "status" := by
    intro e; subst e; rw [hs] at hk; simp at hk
  rw [resolve_withStatus_other b x k rest hne]
  exact h _ _ hl

theorem delivered_status_only {v0 : J} {ob nb : Kvs} (h : Delivered [("status", v0)] nb) :
    Delivered [("status", v0)] (withStatus ob (lookup "status" nb)) := by
  intro path v hl
  obtain ⟨k, rest, rfl, hk⟩ := leaf_head hl
  have he : k = "status" := by
    by_cases e : "status" = k
    · exact e.symm
    · simp [lookup, e] at hk
  subst he
  rw [resolve_withStatus_status]
  exact h _ _ hl

theorem delivered_route (sub : Bool) (k : Kind) (p : Kvs) (o : Obj) (hp : wfKvs p = true)
    (hk : (k = .mergeBody ∧ (sub = true → lookup "status" p = none)) ∨
          (k = .mergeStatus ∧ ∃ v, p = [("status", v)])) :
    Delivered p (route sub k.toStatus o { o with body := clean (mergeKvs o.body p) }).body := by
  have hd := delivered_clean_merge p o.body hp
  cases sub with
  | false => simpa [route] using hd
  | true =>
    rcases hk with ⟨rfl, hs⟩ | ⟨rfl, v, rfl⟩
    · simp only [route, Kind.toStatus, if_true]
      exact delivered_withStatus_other _ hd (hs rfl)
    · simp only [route, Kind.toStatus, if_true]
      exact delivered_status_only hd

/-! ## `doReq` with a JSON payload, nobody interfering -/

theorem doReq_json_fresh (sub : Bool) (k : Kind) (fi : Option (List String)) (sv : Option J) (st : St) (o : Obj)
    (ho : st.server.obj = some o) :
    ∃ st', doReq sub Env.quiet k (.json o.rv fi sv) st = .ok st' ∧
      Holds o.uid o.marked (finsAfter sub k fi o) st'.server ∧
      (∀ x, st'.server.obj = some x → st'.fresh = some x) := by
  obtain ⟨new, hu, hm, hf, e⟩ := step_json_at_version sub Env.quiet k fi sv st.server o rfl (by rw [slipped_quiet]; exact ho)
  rw [slipped_quiet] at e
  obtain ⟨h1, _, _, h4⟩ := put_holds st.server o new ho hu hm
  refine ⟨{ server := (st.server.put o new).1,
            reqs := st.reqs ++ [⟨k, .json o.rv fi sv, some o.uid, 200⟩],
            fresh := some (st.server.put o new).2 }, ?_, ?_, ?_⟩
  · unfold doReq
    simp only [e, if_true]
  · rw [← hf]; exact h1
  · intro x hx
    simp only at hx ⊢
    rw [h4 x hx]

theorem doReq_absent (sub : Bool) (k : Kind) (pl : Payload) (st : St) (ho : st.server.obj = none) :
    ∃ st', doReq sub Env.quiet k pl st = .error (st', .gone) ∧ st'.server = st.server := by
  obtain ⟨h1, h2, h3⟩ := step_absent sub Env.quiet k pl st.server (by rw [slipped_quiet]; exact ho)
  rw [slipped_quiet] at h1
  have h404 : (step sub Env.quiet k pl st.server).2.1.code = 404 := by
    rcases h3 with h | h
    · exact h
    · simp [Env.quiet] at h
  refine ⟨{ server := (step sub Env.quiet k pl st.server).1,
            reqs := st.reqs ++ [(step sub Env.quiet k pl st.server).2.1], fresh := st.fresh }, ?_, h1⟩
  unfold doReq
  simp only
  rw [if_neg h2, if_pos h404]

/-- a merge-patch, nobody interfering, on a stored object (a marked object without finalizers is
    never stored): accepted, the server holds the response, identity and finalizers unchanged -/
theorem doReq_merge_fresh (sub : Bool) (k : Kind) (p : Kvs) (st : St) (o : Obj)
    (ho : st.server.obj = some o) (hns : ¬ (o.marked = true ∧ o.fins = [])) :
    ∃ st' F, doReq sub Env.quiet k (.merge p) st = .ok st' ∧ st'.server.obj = some F ∧ st'.fresh = some F ∧
      F.fins = o.fins ∧ F.uid = o.uid ∧ F.marked = o.marked := by
  rcases step_cases sub Env.quiet k (.merge p) st.server with (⟨h, _⟩ | ⟨c, h, _⟩) | ⟨_, h, _⟩ | ⟨o', _, ho', ha, _⟩ | ⟨o', new, _, ho', ha, e⟩
  · simp [Env.quiet] at h
  · exact absurd rfl h.1
  · rw [slipped_quiet, ho] at h; cases h
  · simp [applyPayload] at ha
  · rw [slipped_quiet] at ho' e
    rw [ho] at ho'; cases ho'
    simp only [applyPayload, Option.some.injEq] at ha
    subst ha
    have hr : (route sub k.toStatus o { o with body := clean (mergeKvs o.body p) }).fins = o.fins ∧
        (route sub k.toStatus o { o with body := clean (mergeKvs o.body p) }).uid = o.uid ∧
        (route sub k.toStatus o { o with body := clean (mergeKvs o.body p) }).marked = o.marked := by
      unfold route; cases sub <;> cases k.toStatus <;> exact ⟨rfl, rfl, rfl⟩
    generalize route sub k.toStatus o { o with body := clean (mergeKvs o.body p) } = R at e hr
    obtain ⟨h1, h2, h3, h4⟩ := put_holds st.server o R ho hr.2.1 hr.2.2
    rw [hr.1] at h1 h2
    rcases h1 with ⟨x, hx, hu, hm, hf⟩ | ⟨_, hm, hf⟩
    · refine ⟨{ server := (st.server.put o R).1, reqs := st.reqs ++ [⟨k, .merge p, some o.uid, 200⟩],
                fresh := some (st.server.put o R).2 }, x, ?_, hx, ?_, hf, hu, hm⟩
      · unfold doReq; simp only [e, if_true]
      · simp only; rw [h4 x hx]
    · exact absurd ⟨hm, hf⟩ hns

theorem applyFns_fins_congr (fns : List Fn) (a b : Obj) (h : a.fins = b.fins) :
    (applyFns fns a).fins = (applyFns fns b).fins := by
  induction fns generalizing a b with
  | nil => exact h
  | cons f fs ih =>
    rw [applyFns_cons, applyFns_cons]
    apply ih
    cases f with
    | block g => simp [Fn.app, h]
    | allow g => simp [Fn.app, h]
    | userFin add g => cases add <;> simp [Fn.app, h]
    | setStatus k v => simp [Fn.app, h]
    | appendStatus k v => simp [Fn.app, h]

/-- the merge stage, nobody interfering, on the object the patch was computed for -/
theorem quiet_merge_stage (sub : Bool) (p : Patch) (orig : Obj) (st : St) (o : Obj)
    (ho : st.server.obj = some o) (hfr : st.fresh.getD orig = o) (hns : ¬ (o.marked = true ∧ o.fins = [])) :
    ∃ st' F, stageMerge sub p Env.quiet st = .ok st' ∧ st'.server.obj = some F ∧ st'.fresh.getD orig = F ∧
      F.fins = o.fins ∧ F.uid = o.uid ∧ F.marked = o.marked := by
  have h1 : ∃ st1 F1, stageMergeBody sub p Env.quiet st = .ok st1 ∧ st1.server.obj = some F1 ∧
      st1.fresh.getD orig = F1 ∧ F1.fins = o.fins ∧ F1.uid = o.uid ∧ F1.marked = o.marked := by
    unfold stageMergeBody
    split
    · exact ⟨st, o, rfl, ho, hfr, rfl, rfl, rfl⟩
    · obtain ⟨st', F, e, hx, hf, a, b, c⟩ := doReq_merge_fresh sub .mergeBody (bodyPart sub p.fields) st o ho hns
      exact ⟨st', F, e, hx, by rw [hf]; rfl, a, b, c⟩
  obtain ⟨st1, F1, e1, hx1, hf1, a1, b1, c1⟩ := h1
  unfold stageMerge
  rw [e1]
  show ∃ st' F, stageMergeStatus sub p Env.quiet st1 = .ok st' ∧ _
  unfold stageMergeStatus
  split
  · have hns1 : ¬ (F1.marked = true ∧ F1.fins = []) := by rw [c1, a1]; exact hns
    obtain ⟨st', F, e, hx, hf, a, b, c⟩ := doReq_merge_fresh sub .mergeStatus [("status", _)] st1 F1 hx1 hns1
    exact ⟨st', F, e, hx, by rw [hf]; rfl, a.trans a1, b.trans b1, c.trans c1⟩
  · exact ⟨st1, F1, rfl, hx1, hf1, a1, b1, c1⟩

/-- The JSON stage, nobody interfering, when the server holds exactly the freshest body `F` the
    client has seen. -/
theorem quiet_json_stage (sub : Bool) (p : Patch) (orig : Obj) (st : St) (F : Obj)
    (ho : st.server.obj = some F) (hfr : st.fresh.getD orig = F) :
    Holds F.uid F.marked (applyFns p.fns F).fins (stageJson sub p orig Env.quiet st).final.server ∧
    ((∃ st', stageJson sub p orig Env.quiet st = .ok st') ∨ (∃ st', stageJson sub p orig Env.quiet st = .error (st', .gone))) := by
  unfold stageJson
  rw [hfr]
  have hbody : ∃ st1, stageJsonBody sub p F Env.quiet st = .ok st1 ∧
      Holds F.uid F.marked (applyFns p.fns F).fins st1.server ∧
      (∀ x, st1.server.obj = some x → st1.fresh.getD orig = x) := by
    unfold stageJsonBody
    cases hpl : jsonBodyPayload sub p.fns F with
    | none =>
      refine ⟨st, rfl, ?_, ?_⟩
      · have hnc : finsChanged F (applyFns p.fns F) = false := by
          unfold jsonBodyPayload at hpl
          simp only at hpl
          cases hc : finsChanged F (applyFns p.fns F) with
          | false => rfl
          | true => simp [hc] at hpl
        have : (applyFns p.fns F).fins = F.fins := by
          unfold finsChanged at hnc
          simpa using hnc
        rw [this]
        exact Or.inl ⟨F, ho, rfl, rfl, rfl⟩
      · intro x hx
        rw [ho] at hx; cases hx; exact hfr
    | some pl =>
      obtain ⟨fi, sb, e, _, hfi, hfc⟩ := jsonBodyPayload_shape hpl
      subst e
      obtain ⟨st1, h1, h2, h3⟩ := doReq_json_fresh sub .jsonBody fi sb st F ho
      refine ⟨st1, h1, ?_, ?_⟩
      · have : finsAfter sub .jsonBody fi F = (applyFns p.fns F).fins := by
          unfold finsAfter
          simp only [Kind.toStatus, Bool.and_false, Bool.false_eq_true, if_false]
          rcases hfi with rfl | rfl
          · have hnc : finsChanged F (applyFns p.fns F) = false := by
              cases hc : finsChanged F (applyFns p.fns F) with
              | false => rfl
              | true => have := hfc hc; cases this
            unfold finsChanged at hnc
            simp only [Option.getD_none]
            have : (applyFns p.fns F).fins = F.fins := by simpa using hnc
            exact this.symm
          · rfl
        rw [← this]; exact h2
      · intro x hx
        rw [h3 x hx]; rfl
  obtain ⟨st1, hb1, hb2, hb3⟩ := hbody
  rw [hb1]
  show Holds _ _ _ (stageJsonStatus sub p F orig Env.quiet st1).final.server ∧
    ((∃ st', stageJsonStatus sub p F orig Env.quiet st1 = .ok st') ∨
     (∃ st', stageJsonStatus sub p F orig Env.quiet st1 = .error (st', .gone)))
  unfold stageJsonStatus
  cases hsv : jsonStatusValue sub p.fns F with
  | none => exact ⟨hb2, Or.inl ⟨st1, rfl⟩⟩
  | some v =>
    have hsub : sub = true := by
      unfold jsonStatusValue at hsv
      cases sub <;> simp_all
    simp only
    cases hobj : st1.server.obj with
    | none =>
      obtain ⟨st', e, hs'⟩ := doReq_absent sub .jsonStatus (.json (st1.fresh.getD orig).rv none (some v)) st1 hobj
      rw [e]
      refine ⟨?_, Or.inr ⟨st', rfl⟩⟩
      show Holds _ _ _ st'.server
      rw [hs']
      exact hb2
    | some x =>
      have hx := hb3 x hobj
      rw [hx]
      obtain ⟨st', e, h2, _⟩ := doReq_json_fresh sub .jsonStatus none (some v) st1 x hobj
      rw [e]
      refine ⟨?_, Or.inl ⟨st', rfl⟩⟩
      show Holds _ _ _ st'.server
      have hfa : finsAfter sub .jsonStatus none x = x.fins := by
        unfold finsAfter; simp [hsub, Kind.toStatus]
      rw [hfa] at h2
      rcases hb2 with ⟨x', hx', hu, hmm, hff⟩ | ⟨hn, _, _⟩
      · rw [hobj] at hx'; cases hx'
        rw [hu, hmm, hff] at h2; exact h2
      · rw [hobj] at hn; cases hn

/-- A whole call, nobody interfering, computed for the object the server holds: any fields, any fns. -/
theorem quiet_call (sub : Bool) (p : Patch) (o : Obj) (s : Server) (ho : s.obj = some o)
    (hns : ¬ (o.marked = true ∧ o.fins = [])) :
    let m := stageMerge sub p Env.quiet ⟨s, [], none⟩ >>= stageJson sub p o Env.quiet
    Holds o.uid o.marked (applyFns p.fns o).fins m.final.server ∧
    ((∃ st, m = .ok st) ∨ (∃ st, m = .error (st, .gone))) := by
  intro m
  obtain ⟨st1, F, e, hx, hf, a, b, c⟩ := quiet_merge_stage sub p o ⟨s, [], none⟩ o ho rfl hns
  have hm : m = stageJson sub p o Env.quiet st1 := by
    show (stageMerge sub p Env.quiet ⟨s, [], none⟩ >>= stageJson sub p o Env.quiet) = _
    rw [e]; rfl
  rw [hm]
  have := quiet_json_stage sub p o st1 F hx hf
  rw [b, c, applyFns_fins_congr p.fns F o a] at this
  exact this

/-- The carry-forward cycle whatever opens its patch (`mem`), any dict content, nobody interfering, computed for
    the object the server holds: one application of `mem ++ newfns` to the fresh finalizer list, nothing remains. -/
theorem quiet_cycleOf (sub : Bool) (mem : Option (List Fn)) (fields : Kvs) (newfns : List Fn) (o : Obj) (s : Server)
    (ho : s.obj = some o) (hns : ¬ (o.marked = true ∧ o.fins = [])) :
    (cycleOf false sub mem fields newfns o Env.quiet s).2 = none ∧
    ((∃ o', (cycleOf false sub mem fields newfns o Env.quiet s).1.server.obj = some o' ∧ o'.uid = o.uid ∧
        o'.fins = (applyFns (mem.getD [] ++ newfns) o).fins) ∨
     ((cycleOf false sub mem fields newfns o Env.quiet s).1.server.obj = none ∧ o.marked = true ∧
        (applyFns (mem.getD [] ++ newfns) o).fins = [])) := by
  by_cases hemp : (nextPatch mem fields newfns).isEmpty = true
  · have e : cycleOf false sub mem fields newfns o Env.quiet s = (⟨[], s, .ok none none⟩, none) := by
      simp [cycleOf, hemp]
    have hf : mem.getD [] ++ newfns = [] := by
      simp only [Patch.isEmpty, nextPatch, Bool.and_eq_true, List.isEmpty_iff] at hemp
      exact hemp.2
    rw [e, hf]
    exact ⟨rfl, Or.inl ⟨o, ho, rfl, rfl⟩⟩
  · have e : cycleOf false sub mem fields newfns o Env.quiet s =
        (patchObj sub (nextPatch mem fields newfns) o Env.quiet s,
         memoryAfter false mem (patchObj sub (nextPatch mem fields newfns) o Env.quiet s).outcome) := by
      simp [cycleOf, hemp]
    rw [e]
    obtain ⟨hh, hout⟩ := quiet_call sub (nextPatch mem fields newfns) o s ho hns
    unfold patchObj
    constructor
    · rcases hout with ⟨st, e'⟩ | ⟨st, e'⟩ <;> rw [e'] <;> rfl
    · rw [(finish_reqs _ _).2]
      rcases hh with ⟨x, hx, hu, _, hfx⟩ | ⟨hn, hm, hl⟩
      · exact Or.inl ⟨x, hx, hu, hfx⟩
      · exact Or.inr ⟨hn, hm, hl⟩

/-! ## unfoldings of the carry rule (corollaries, not counted as property theorems) -/

/-- What is carried: after a call that returned a remaining patch, `process_resource_event` keeps
    exactly the handler-supplied fns of it, in order (the framework's own finalizer edits are dropped:
    they are decided anew in every cycle), `_daemon/_timer` keep all of it. -/
theorem carried_after_conflict (sub : Bool) (mem : Option (List Fn)) (fields : Kvs) (fns : List Fn)
    (orig : Obj) (env : Env) (s : Server) (rem : Option (List Fn)) (b : Option Obj)
    (hne : (nextPatch mem fields fns).isEmpty = false)
    (hout : (patchObj sub (nextPatch mem fields fns) orig env s).outcome = .ok rem b) :
    (cycle sub mem fields fns orig env s).2 = carried rem ∧
    (daemonCycle sub mem fields fns orig env s).2 = rem ∧
    (∀ l, carried rem = some l → l ≠ [] ∧ ∀ f, f ∈ l ↔ (∃ r, rem = some r ∧ f ∈ r) ∧ f.isFramework = false) := by
  refine ⟨?_, ?_, ?_⟩
  · simp [cycle, cycleOf, hne, hout, memoryAfter]
  · simp [daemonCycle, cycleOf, hne, hout, memoryAfter]
  · intro l hl
    cases rem with
    | none => simp [carried] at hl
    | some r =>
      simp only [carried] at hl
      split at hl
      · cases hl
      · rename_i hne'
        cases hl
        refine ⟨by intro e; rw [e] at hne'; simp at hne', ?_⟩
        intro f
        simp [List.mem_filter]

/-- The framework's own finalizer edits never stay in the memory of `process_resource_event`,
    whatever happened to the call (conflict, 404, exception, success). -/
theorem framework_fns_not_carried (sub : Bool) (mem : Option (List Fn)) (fields : Kvs) (fns : List Fn)
    (orig : Obj) (env : Env) (s : Server)
    (hmem : ∀ l, mem = some l → ∀ f ∈ l, f.isFramework = false) :
    ∀ l, (cycle sub mem fields fns orig env s).2 = some l → ∀ f ∈ l, f.isFramework = false := by
  intro l hl f hf
  unfold cycle cycleOf at hl
  simp only at hl
  split at hl
  · cases hl
  · unfold memoryAfter at hl
    split at hl
    · rename_i rem _ _
      simp only [Bool.false_eq_true, if_false] at hl
      cases rem with
      | none => simp [carried] at hl
      | some r =>
        simp only [carried] at hl
        split at hl
        · cases hl
        · cases hl
          simp [List.mem_filter] at hf
          exact hf.2
    · cases hl
    · exact hmem l hl f hf

/-! ## the variant of 608a57d: carried fns that are fulfilled already are forgotten at the head of the cycle -/

theorem settled_none (o : Obj) : settled none o = none := rfl

theorem settled_of_ops (l : List Fn) (o : Obj) (h : noOps l o = false) : settled (some l) o = some l := by
  simp [settled, h]

theorem settled_of_noOps (l : List Fn) (o : Obj) (h : noOps l o = true) : settled (some l) o = none := by
  simp [settled, h]

theorem noOps_of_finsChanged (l : List Fn) (o : Obj) (h : finsChanged o (applyFns l o) = true) : noOps l o = false := by
  simp [noOps, h]

theorem noOps_fins (l : List Fn) (o : Obj) (h : noOps l o = true) : (applyFns l o).fins = o.fins := by
  simp only [noOps, Bool.and_eq_true, Bool.not_eq_true', finsChanged] at h
  simpa using h.1

/-- whatever `settled` leaves is a sublist-or-nothing of the memory: a member of it was in the memory -/
theorem mem_settled {f : Fn} {mem : Option (List Fn)} {o : Obj} (h : f ∈ (settled mem o).getD []) : f ∈ mem.getD [] := by
  cases mem with
  | none => simp [settled] at h
  | some l =>
    simp only [settled] at h
    split at h
    · simp at h
    · exact h

/-- one application of `carried ++ new` to the fresh finalizer list is one application of what `settled` kept
    `++ new`: the forgotten part changes nothing there -/
theorem settled_fins (mem : Option (List Fn)) (newfns : List Fn) (o : Obj) :
    (applyFns ((settled mem o).getD [] ++ newfns) o).fins = (applyFns (mem.getD [] ++ newfns) o).fins := by
  cases mem with
  | none => rfl
  | some l =>
    by_cases h : noOps l o = true
    · rw [settled_of_noOps l o h]
      simp only [Option.getD_none, Option.getD_some, List.nil_append]
      have e : applyFns (l ++ newfns) o = applyFns newfns (applyFns l o) := by
        simp [applyFns, List.foldl_append]
      rw [e]
      exact applyFns_fins_congr newfns o (applyFns l o) (noOps_fins l o h).symm
    · rw [settled_of_ops l o (by simpa using h)]

end Kopf.C08
