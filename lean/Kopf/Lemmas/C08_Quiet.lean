/-
  C08 helper lemmas, part 4: the carry-forward cycle (`Patch(remaining)` against a fresh body, nobody
  interfering) and the merge-patch routing lemmas.
-/
import Kopf.Lemmas.C08_Carry
namespace Kopf.C08
open Kopf Kopf.J

/-! ## routing keeps the delivered leaves -/

theorem resolve_withStatus_other (b : Kvs) (x : Option J) (k : String) (rest : List String) (hk : k ≠ "status") :
    resolve? (obj (withStatus b x)) (k :: rest) = resolve? (obj b) (k :: rest) := by
  rw [resolve_cons_obj, resolve_cons_obj]
  cases x with
  | none => simp only [withStatus]; rw [lookup_erase_ne hk]
  | some v => simp only [withStatus]; rw [lookup_insert_ne hk]

theorem resolve_withStatus_status (ob nb : Kvs) (rest : List String) :
    resolve? (obj (withStatus ob (lookup "status" nb))) ("status" :: rest) = resolve? (obj nb) ("status" :: rest) := by
  rw [resolve_cons_obj, resolve_cons_obj]
  cases h : lookup "status" nb with
  | none => simp only [withStatus]; rw [lookup_erase_self]
  | some v => simp only [withStatus]; rw [lookup_insert_self]

theorem delivered_withStatus_other {p b : Kvs} (x : Option J) (h : Delivered p b) (hs : lookup "status" p = none) :
    Delivered p (withStatus b x) := by
  intro path v hl
  obtain ⟨k, rest, rfl, hk⟩ := leaf_head hl
  have hne : k ≠ "status" := by
    intro e; subst e; rw [hs] at hk; simp at hk
  rw [resolve_withStatus_other b x k rest hne]
  exact h _ _ hl

theorem delivered_status_only {v0 : J} {ob nb : Kvs} (h : Delivered [("status", v0)] nb) :
    Delivered [("status", v0)] (withStatus ob (lookup "status" nb)) := by
  intro path v hl
  obtain ⟨k, rest, rfl, hk⟩ := leaf_head hl
  have he : k = "status" := by
    by_cases e : "status" = k
    · exact e.symm
    · simp [lookup, e] at hk
  subst he
  rw [resolve_withStatus_status]
  exact h _ _ hl

theorem delivered_route (sub : Bool) (k : Kind) (p : Kvs) (o : Obj) (hp : wfKvs p = true)
    (hk : (k = .mergeBody ∧ (sub = true → lookup "status" p = none)) ∨
          (k = .mergeStatus ∧ ∃ v, p = [("status", v)])) :
    Delivered p (route sub k.toStatus o { o with body := clean (mergeKvs o.body p) }).body := by
  have hd := delivered_clean_merge p o.body hp
  cases sub with
  | false => simpa [route] using hd
  | true =>
    rcases hk with ⟨rfl, hs⟩ | ⟨rfl, v, rfl⟩
    · simp only [route, Kind.toStatus, if_true]
      exact delivered_withStatus_other _ hd (hs rfl)
    · simp only [route, Kind.toStatus, if_true]
      exact delivered_status_only hd

/-! ## `doReq` with a JSON payload, nobody interfering -/

theorem doReq_json_fresh (sub : Bool) (k : Kind) (fi : Option (List String)) (sv : Option J) (st : St) (o : Obj)
    (ho : st.server.obj = some o) :
    ∃ st', doReq sub Env.quiet k (.json o.rv fi sv) st = .ok st' ∧
      Holds o.uid o.marked (finsAfter sub k fi o) st'.server ∧
      (∀ x, st'.server.obj = some x → st'.fresh = some x) := by
  obtain ⟨new, hu, hm, hf, e⟩ := step_json_at_version sub Env.quiet k fi sv st.server o rfl (by rw [slipped_quiet]; exact ho)
  rw [slipped_quiet] at e
  obtain ⟨h1, _, _, h4⟩ := put_holds st.server o new ho hu hm
  refine ⟨{ server := (st.server.put o new).1,
            reqs := st.reqs ++ [⟨k, .json o.rv fi sv, some o.uid, 200⟩],
            fresh := some (st.server.put o new).2 }, ?_, ?_, ?_⟩
  · unfold doReq
    simp only [e, if_true]
  · rw [← hf]; exact h1
  · intro x hx
    simp only at hx ⊢
    rw [h4 x hx]

theorem doReq_absent (sub : Bool) (k : Kind) (pl : Payload) (st : St) (ho : st.server.obj = none) :
    ∃ st', doReq sub Env.quiet k pl st = .error (st', .gone) ∧ st'.server = st.server := by
  obtain ⟨h1, h2, h3⟩ := step_absent sub Env.quiet k pl st.server (by rw [slipped_quiet]; exact ho)
  rw [slipped_quiet] at h1
  have h404 : (step sub Env.quiet k pl st.server).2.1.code = 404 := by
    rcases h3 with h | h
    · exact h
    · simp [Env.quiet] at h
  refine ⟨{ server := (step sub Env.quiet k pl st.server).1,
            reqs := st.reqs ++ [(step sub Env.quiet k pl st.server).2.1], fresh := st.fresh }, ?_, h1⟩
  unfold doReq
  simp only
  rw [if_neg h2, if_pos h404]

/-- The carry-forward cycle: `Patch(remaining)` computed for the object the server holds, no
    foreign write, no fault. -/
theorem quiet_fns_cycle (sub : Bool) (fns : List Fn) (o : Obj) (s : Server) (ho : s.obj = some o) :
    let m := stageMerge sub ⟨[], fns⟩ Env.quiet ⟨s, [], none⟩ >>= stageJson sub ⟨[], fns⟩ o Env.quiet
    Holds o.uid o.marked (applyFns fns o).fins m.final.server ∧
    ((∃ st, m = .ok st) ∨ (∃ st, m = .error (st, .gone))) := by
  intro m
  have hm0 : stageMerge sub ⟨[], fns⟩ Env.quiet ⟨s, [], none⟩ = .ok ⟨s, [], none⟩ := by
    unfold stageMerge stageMergeBody stageMergeStatus bodyPart statusPart
    cases sub <;> simp [erase, lookup] <;> rfl
  have hm : m = stageJson sub ⟨[], fns⟩ o Env.quiet ⟨s, [], none⟩ := by
    show (stageMerge sub ⟨[], fns⟩ Env.quiet ⟨s, [], none⟩ >>= stageJson sub ⟨[], fns⟩ o Env.quiet) = _
    rw [hm0]; rfl
  rw [hm]
  unfold stageJson
  simp only [Option.getD_none]
  obtain ⟨_, hrv, hmk⟩ := applyFns_meta fns o
  -- the body stage
  have hbody : ∃ st1, stageJsonBody sub ⟨[], fns⟩ o Env.quiet ⟨s, [], none⟩ = .ok st1 ∧
      Holds o.uid o.marked (applyFns fns o).fins st1.server ∧
      (∀ x, st1.server.obj = some x → st1.fresh.getD o = x) := by
    unfold stageJsonBody
    cases hpl : jsonBodyPayload sub fns o with
    | none =>
      refine ⟨⟨s, [], none⟩, rfl, ?_, ?_⟩
      · have hnc : finsChanged o (applyFns fns o) = false := by
          unfold jsonBodyPayload at hpl
          simp only at hpl
          cases hc : finsChanged o (applyFns fns o) with
          | false => rfl
          | true => simp [hc] at hpl
        have : (applyFns fns o).fins = o.fins := by
          unfold finsChanged at hnc
          simpa using hnc
        rw [this]
        exact Or.inl ⟨o, ho, rfl, rfl, rfl⟩
      · intro x hx
        simp only at hx
        rw [ho] at hx; cases hx; rfl
    | some pl =>
      obtain ⟨fi, sb, e, _, hfi, hfc⟩ := jsonBodyPayload_shape hpl
      subst e
      obtain ⟨st1, h1, h2, h3⟩ := doReq_json_fresh sub .jsonBody fi sb ⟨s, [], none⟩ o ho
      refine ⟨st1, h1, ?_, ?_⟩
      · have : finsAfter sub .jsonBody fi o = (applyFns fns o).fins := by
          unfold finsAfter
          simp only [Kind.toStatus, Bool.and_false, Bool.false_eq_true, if_false]
          rcases hfi with rfl | rfl
          · have hnc : finsChanged o (applyFns fns o) = false := by
              cases hc : finsChanged o (applyFns fns o) with
              | false => rfl
              | true => have := hfc hc; cases this
            unfold finsChanged at hnc
            simp only [Option.getD_none]
            have : (applyFns fns o).fins = o.fins := by simpa using hnc
            exact this.symm
          · rfl
        rw [← this]; exact h2
      · intro x hx
        rw [h3 x hx]; rfl
  obtain ⟨st1, hb1, hb2, hb3⟩ := hbody
  rw [hb1]
  show Holds _ _ _ (stageJsonStatus sub ⟨[], fns⟩ o o Env.quiet st1).final.server ∧
    ((∃ st, stageJsonStatus sub ⟨[], fns⟩ o o Env.quiet st1 = .ok st) ∨
     (∃ st, stageJsonStatus sub ⟨[], fns⟩ o o Env.quiet st1 = .error (st, .gone)))
  unfold stageJsonStatus
  cases hsv : jsonStatusValue sub fns o with
  | none => exact ⟨hb2, Or.inl ⟨st1, rfl⟩⟩
  | some v =>
    have hsub : sub = true := by
      unfold jsonStatusValue at hsv
      cases sub <;> simp_all
    simp only
    cases hobj : st1.server.obj with
    | none =>
      obtain ⟨st', e, hs'⟩ := doReq_absent sub .jsonStatus (.json (st1.fresh.getD o).rv none (some v)) st1 hobj
      rw [e]
      refine ⟨?_, Or.inr ⟨st', rfl⟩⟩
      show Holds _ _ _ st'.server
      rw [hs']
      exact hb2
    | some x =>
      have hx := hb3 x hobj
      rw [hx]
      obtain ⟨st', e, h2, _⟩ := doReq_json_fresh sub .jsonStatus none (some v) st1 x hobj
      rw [e]
      refine ⟨?_, Or.inl ⟨st', rfl⟩⟩
      show Holds _ _ _ st'.server
      have hfa : finsAfter sub .jsonStatus none x = x.fins := by
        unfold finsAfter; simp [hsub, Kind.toStatus]
      rw [hfa] at h2
      rcases hb2 with ⟨x', hx', hu, hmm, hff⟩ | ⟨hn, _, _⟩
      · rw [hobj] at hx'; cases hx'
        rw [hu, hmm, hff] at h2; exact h2
      · rw [hobj] at hn; cases hn

end Kopf.C08
