/-
  X01 lemmas — a turn of C03's loop never sets the clock back (for well-formed environments): the guard `ClockFwd`
  of the lifted theorems is discharged.
-/
import Kopf.Lemmas.C03_Final
namespace Kopf.X01
open Kopf Kopf.C02

variable {E : Type} [DecidableEq E]

theorem cycle_delays_nonneg (cfg : Cfg) (P : Store) (now now1 : Tick) (exec : Id → Nat → Outcome) :
    ∀ d ∈ (cycle cfg P now now1 exec).delays, 0 ≤ d := by
  intro d hd
  unfold cycle at hd
  split at hd
  · simp at hd
  · simp only at hd
    split at hd
    · simp at hd
    · exact C03.delays_nonneg _ _ _ d hd

theorem minDelay_nonneg (l : List Tick) (h : ∀ d ∈ l, 0 ≤ d) (m : Tick) (hm : C03.minDelay l = some m) : 0 ≤ m :=
  h m (C03.minDelay_mem l m hm)

theorem le_add1 (a b : Int) (hb : 0 ≤ b) : a ≤ a + b := by omega
theorem le_add2 (a b c : Int) (hb : 0 ≤ b) (hc : 0 ≤ c) : a ≤ a + b + c := by omega
theorem nonneg_add (b c : Int) (hb : 0 ≤ b) (hc : 0 ≤ c) : 0 ≤ b + c := by omega
theorem cap_nonneg (d c : Int) (hd : 0 ≤ d) (hc : 0 < c) : 0 ≤ (if d > c then c else d) := by split <;> omega

theorem latS_nonneg (env : C03.Env) (wf : C03.WF env) : 0 ≤ C03.latS env := by
  unfold C03.latS
  split
  · exact nonneg_add _ _ wf.rtt wf.lat
  · exact nonneg_add _ _ (Int.le_refl 0) wf.lat

/-- a turn of the loop does not set the clock back -/
theorem loopStep_now_le (env : C03.Env) (wf : C03.WF env) (s : C03.State E) : s.now ≤ (C03.loopStep env s).now := by
  have hl := wf.lat
  have hr := wf.rtt
  have hc := wf.cap
  have hs := latS_nonneg env wf
  by_cases hp : s.pending = true
  rotate_left
  · have : s.pending = false := by simpa using hp
    rw [C03.loopStep_quiescent env s this]; exact Int.le_refl _
  by_cases hg : s.gone = true
  · have : C03.loopStep env s = { s with pending := false } := by unfold C03.loopStep; simp [hp, hg]
    rw [this]; exact Int.le_refl _
  have hg' : s.gone = false := by simpa using hg
  rcases C03.turn_cases env s hp hg' with ⟨_, _, _, _, h⟩ | ⟨_, _, h⟩ | ⟨_, _, h⟩ | ⟨_, _, _, _, _, h⟩ | ⟨_, _, _, _, h⟩ |
    ⟨_, _, _, _, _, h⟩
  · rw [h]; exact le_add1 _ _ hs
  · rw [h]; exact le_add1 _ _ hs
  · rw [h]; exact Int.le_refl _
  · rw [h]
    show s.now ≤ s.now + (if C03.changedOf env s || env.constPatch then env.rtt else 0) + env.lat
    refine le_add2 _ _ _ ?_ hl
    split
    · exact hr
    · exact Int.le_refl 0
  · rw [h]
    rcases C03.purgeTurn_cases env s with ⟨_, h'⟩ | ⟨_, h'⟩ <;> rw [h']
    · exact le_add1 _ _ hl
    · exact Int.le_refl _
  · rw [h]
    rcases C03.handleTurn_cases env s with ⟨_, h'⟩ | ⟨d, _, hd, h'⟩ | ⟨_, _, h'⟩ <;> rw [h']
    · exact le_add1 _ _ hl
    · have hd0 : 0 ≤ d := minDelay_nonneg _ (cycle_delays_nonneg _ _ _ _ _) d hd
      exact le_add2 _ _ _ (cap_nonneg d env.cap hd0 hc) hs
    · exact Int.le_refl _

end Kopf.X01
