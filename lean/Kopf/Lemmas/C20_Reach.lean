/-
  C20 helper lemmas: the invariants hold in every reachable state (assembly of the per-group files, plus
  `InvD` across `delay`: time passes only while nothing instantaneous is pending, never beyond an active deadline).
-/
import Kopf.Lemmas.C20_InvA_g1
import Kopf.Lemmas.C20_InvA_g2
import Kopf.Lemmas.C20_InvA_g3
import Kopf.Lemmas.C20_InvA_g4
import Kopf.Lemmas.C20_InvB_g1
import Kopf.Lemmas.C20_InvB_g2
import Kopf.Lemmas.C20_InvB_g3
import Kopf.Lemmas.C20_InvB_g4
import Kopf.Lemmas.C20_InvC_g1
import Kopf.Lemmas.C20_InvC_g2
import Kopf.Lemmas.C20_InvC_g3
import Kopf.Lemmas.C20_InvC_g4
import Kopf.Lemmas.C20_InvE_g1
import Kopf.Lemmas.C20_InvE_g2
import Kopf.Lemmas.C20_InvE_g3
import Kopf.Lemmas.C20_InvE_g4
import Kopf.Lemmas.C20_InvD_d1
import Kopf.Lemmas.C20_InvD_d2
import Kopf.Lemmas.C20_InvD_d3
import Kopf.Lemmas.C20_InvD_d4
import Kopf.Lemmas.C20_InvD_d5
import Kopf.Lemmas.C20_InvD_d6
import Kopf.Lemmas.C20_InvD_d7
import Kopf.Lemmas.C20_InvD_d8
import Kopf.Lemmas.C20_InvD_d9
import Kopf.Lemmas.C20_InvD_d10
import Kopf.Lemmas.C20_InvD_d11
namespace Kopf.C20

theorem InvA.preserved {cfg : Cfg} {s s' : State} {l : Label} (hI : InvA s)
    (h : step cfg s l = some s') : InvA s' := by
  rcases l.grp_cases with hg | hg | hg | hg
  · exact InvA.pres_g1 hI hg h
  · exact InvA.pres_g2 hI hg h
  · exact InvA.pres_g3 hI hg h
  · exact InvA.pres_g4 hI hg h

theorem InvA.reach {cfg : Cfg} {s : State} (h : Reach cfg s) : InvA s :=
  Reach.induction (P := InvA) InvA.init (fun _ _ _ _ hI hs => InvA.preserved hI hs) s h

theorem InvB.preserved {cfg : Cfg} {s s' : State} {l : Label} (hI : InvB s)
    (h : step cfg s l = some s') : InvB s' := by
  rcases l.grp_cases with hg | hg | hg | hg
  · exact InvB.pres_g1 hI hg h
  · exact InvB.pres_g2 hI hg h
  · exact InvB.pres_g3 hI hg h
  · exact InvB.pres_g4 hI hg h

theorem InvB.reach {cfg : Cfg} {s : State} (h : Reach cfg s) : InvB s :=
  Reach.induction (P := InvB) InvB.init (fun _ _ _ _ hI hs => InvB.preserved hI hs) s h

theorem InvC.preserved {cfg : Cfg} {s s' : State} {l : Label} (hB : InvB s) (hI : InvC s)
    (h : step cfg s l = some s') : InvC s' := by
  rcases l.grp_cases with hg | hg | hg | hg
  · exact InvC.pres_g1 hB hI hg h
  · exact InvC.pres_g2 hB hI hg h
  · exact InvC.pres_g3 hB hI hg h
  · exact InvC.pres_g4 hB hI hg h

theorem InvC.reach {cfg : Cfg} {s : State} (h : Reach cfg s) : InvC s :=
  Reach.induction (P := InvC) InvC.init (fun _ _ _ hr hI hs => InvC.preserved (InvB.reach hr) hI hs) s h

theorem InvE.preserved {cfg : Cfg} {s s' : State} {l : Label} (hI : InvE cfg s)
    (h : step cfg s l = some s') : InvE cfg s' := by
  rcases l.grp_cases with hg | hg | hg | hg
  · exact InvE.pres_g1 hI hg h
  · exact InvE.pres_g2 hI hg h
  · exact InvE.pres_g3 hI hg h
  · exact InvE.pres_g4 hI hg h

theorem InvE.reach {cfg : Cfg} {s : State} (h : Reach cfg s) : InvE cfg s :=
  Reach.induction (P := InvE cfg) (InvE.init cfg) (fun _ _ _ _ hI hs => InvE.preserved hI hs) s h

theorem InvD.preserved_nodelay {cfg : Cfg} {s s' : State} {l : Label} (hB : InvB s) (hC : InvC s)
    (hI : InvD cfg s) (hl : ∀ n, l ≠ .delay n) (h : step cfg s l = some s') : InvD cfg s' := by
  rcases l.grpD_cases with hg | hg | hg | hg | hg | hg | hg | hg | hg | hg | hg
  · exact InvD.pres_d1 hB hC hI hl hg h
  · exact InvD.pres_d2 hB hC hI hl hg h
  · exact InvD.pres_d3 hB hC hI hl hg h
  · exact InvD.pres_d4 hB hC hI hl hg h
  · exact InvD.pres_d5 hB hC hI hl hg h
  · exact InvD.pres_d6 hB hC hI hl hg h
  · exact InvD.pres_d7 hB hC hI hl hg h
  · exact InvD.pres_d8 hB hC hI hl hg h
  · exact InvD.pres_d9 hB hC hI hl hg h
  · exact InvD.pres_d10 hB hC hI hl hg h
  · exact InvD.pres_d11 hB hC hI hl hg h

theorem TS.live_of_not_ended {t : TS} (h1 : t.ended = false) (h2 : t ≠ .absent) : t.live = true := by
  cases t <;> simp_all

theorem exists_live_sub {s : State} (h : noLiveSub s = false) : ∃ i, i < s.nSubs ∧ (s.st (.sub i)).live = true := by
  apply Classical.byContradiction
  intro hcon
  have : noLiveSub s = true := by
    rw [noLiveSub_iff]
    intro i hi
    cases hl : (s.st (.sub i)).live with
    | false => rfl
    | true => exact absurd ⟨i, hi, hl⟩ hcon
  rw [this] at h; cases h

theorem exists_live_stream {s : State} (h : noLiveStream s = false) :
    ∃ i, i < s.nSubs ∧ s.kind i ≠ .pinger ∧ (s.st (.sub i)).live = true := by
  apply Classical.byContradiction
  intro hcon
  have : noLiveStream s = true := by
    rw [noLiveStream_iff]
    intro i hi hk
    cases hl : (s.st (.sub i)).live with
    | false => rfl
    | true => exact absurd ⟨i, hi, hk, hl⟩ hcon
  rw [this] at h; cases h

/-- While the orchestrator is in the FIRST of its two exit stops (the streams; `orchPing = false`) and time may pass, a stream
    of the ensemble is still depleting, and its deadline (≤ t + E) bounds the time. -/
theorem first_stop_deadline {cfg : Cfg} {s : State} {n t : Nat} (hB : InvB s) (hI : InvD cfg s)
    (ht : s.t0 = some t) (hp : stoppingPhase s)
    (hu : urgent cfg s = false) (hd : deadlinesAllow cfg s n = true)
    (hos : (s.st (.root .orchestrator)).isStopping = true) (hop : s.orchPing = false) :
    s.now + n ≤ t + cfg.E := by
  obtain ⟨_, _, _, u4, u5⟩ := urgent_false hu
  obtain ⟨_, d2, _, _⟩ := deadlinesAllow_true hd
  obtain ⟨i, hi, hk, hil⟩ := exists_live_stream ((u5 hos).2 hop)
  have hci := (taskUrgent_false (u4 i hi)).1 hil
  rcases hI.c t ht hp hos i hi hil with ⟨hc, _⟩ | hs | ⟨hk', _⟩
  · rw [hci] at hc; cases hc
  · rw [TS.isStopping_iff] at hs
    obtain ⟨f', dl', hst'⟩ := hs
    cases dl' with
    | none => exact absurd hst' (hB.subSome i f')
    | some d' =>
      have h1 := hI.dS t ht hp i f' d' hi hk hst'
      have h2 := d2 i hi
      rw [hst'] at h2
      have := dlAllows_stopping h2
      omega
  · exact absurd hk' hk

/-- While `run_tasks` stops the root tasks and time may pass, some active deadline bounds it:
    a `finally:` of a root / ensemble task (≤ t + G), or the running cleanup activity. -/
theorem delay_core {cfg : Cfg} {s : State} {n t : Nat} (hB : InvB s) (hI : InvD cfg s)
    (ht : s.t0 = some t) (hp : stoppingPhase s)
    (hu : urgent cfg s = false) (hd : deadlinesAllow cfg s n = true) :
    (∃ d, s.now + n ≤ d ∧ d ≤ t + G cfg) ∨
    (∃ tc, s.sc = .cleanup tc ∧ s.now + n ≤ tc + cfg.C ∧ tc ≤ t + G cfg) := by
  obtain ⟨u1, u2, u3, u4, u5⟩ := urgent_false hu
  obtain ⟨d1, d2, _, d4⟩ := deadlinesAllow_true hd
  -- a live root task other than startup/cleanup gives a deadline
  have other : ∀ r, r ≠ .startupCleanup → (s.st (.root r)).ended = false →
      ∃ d, s.now + n ≤ d ∧ d ≤ t + G cfg := by
    intro r hr hne
    have hlive := TS.live_of_not_ended hne (hI.rootPresent r)
    have hcr := (taskUrgent_false (u3 r)).1 hlive
    rcases hI.a t ht hp r hr hlive with ⟨hc, _⟩ | hs
    · rw [hcr] at hc; cases hc
    · rw [TS.isStopping_iff] at hs
      obtain ⟨f, dl, hst⟩ := hs
      cases dl with
      | some d =>
        refine ⟨d, ?_, hI.b t ht hp r f d hst⟩
        have := d1 r
        rw [hst] at this
        exact dlAllows_stopping this
      | none =>
        have hro := hB.stoppingNone r f hst
        subst hro
        have hos : (s.st (.root .orchestrator)).isStopping = true := by simp [hst]
        cases hop : s.orchPing with
        | false =>
          -- the first stop (the streams): bounded by `t + E`
          have := first_stop_deadline hB hI ht hp hu hd hos hop
          exact ⟨t + cfg.E, this, by unfold G; omega⟩
        | true =>
        -- the second stop (the keep-alives): a keep-alive is withdrawing
        obtain ⟨i, hi, hil⟩ := exists_live_sub (u5 hos).1
        have hci := (taskUrgent_false (u4 i hi)).1 hil
        rcases hI.c t ht hp hos i hi hil with ⟨hc, _⟩ | hs | ⟨_, hq | ⟨hc, _⟩⟩
        · rw [hci] at hc; cases hc
        · rw [TS.isStopping_iff] at hs
          obtain ⟨f', dl', hst'⟩ := hs
          cases dl' with
          | none => exact absurd hst' (hB.subSome i f')
          | some d' =>
            refine ⟨d', ?_, hI.d t ht hp i f' d' hi hst'⟩
            have := d2 i hi
            rw [hst'] at this
            exact dlAllows_stopping this
        · rw [hop] at hq; cases hq
        · rw [hci] at hc; cases hc
  by_cases hoth : ∃ r, r ≠ Root.startupCleanup ∧ (s.st (.root r)).ended = false
  · obtain ⟨r, hr, hne⟩ := hoth
    exact Or.inl (other r hr hne)
  · -- all other root tasks are gone: startup/cleanup itself must be in the cleanup activity
    have hoe : othersEnded s = true := by
      rw [othersEnded_iff]
      intro r hr
      cases he : (s.st (.root r)).ended with
      | true => rfl
      | false => exact absurd ⟨r, hr, he⟩ hoth
    have hsc : (s.st (.root .startupCleanup)).ended = false := by
      cases he : (s.st (.root .startupCleanup)).ended with
      | false => rfl
      | true =>
        have : allRootsEnded s = true := by
          rw [allRootsEnded_iff]
          intro r
          by_cases hr : r = .startupCleanup
          · subst hr; exact he
          · exact (othersEnded_iff s).mp hoe r hr
        have hr := u1
        unfold rtUrgent at hr
        rcases hp with hp | hp <;> simp [hp, this] at hr
    have hlive := TS.live_of_not_ended hsc (hI.rootPresent _)
    have hcr := (taskUrgent_false (u3 .startupCleanup)).1 hlive
    rcases hI.e t ht hp hlive with ⟨hc, _⟩ | hlate
    · rw [hcr] at hc; cases hc
    · unfold scUrgent at u2
      cases hs : s.sc with
      | cleanup tc => exact Or.inr ⟨tc, rfl, d4 tc hs, hI.f t tc ht hs⟩
      | waitRoots => simp [hs, hoe] at u2
      | over p => simp [hs, hlive] at u2
      | init => simp [hs] at u2
      | startup => simp [hs, scLate] at hlate
      | startupOk => simp [hs] at u2
      | flagged => simp [hs] at u2
      | sleeping => simp [hs, scLate] at hlate
      | stopCore p => simp [hs] at u2
      | coreStopping p => simp [hs] at u2
      | closing => simp [hs] at u2

theorem InvD.preserved_delay {cfg : Cfg} {s : State} {n : Nat} (hB : InvB s) (hI : InvD cfg s)
    (hu : urgent cfg s = false) (hd : deadlinesAllow cfg s n = true) :
    InvD cfg { s with now := s.now + n } := by
  obtain ⟨u1, u2, u3, u4, u5⟩ := urgent_false hu
  obtain ⟨d1, d2, d3, d4⟩ := deadlinesAllow_true hd
  refine ⟨hI.rootPresent, ?_, ?_, ?_, ?_, ?_, hI.b, ?_, hI.d, ?_, hI.f, ?_, ?_, hI.hung, ?_, ?_, hI.dS, ?_⟩
  · intro r f dl hst
    have h1 := d1 r
    rw [hst] at h1
    have := dlAllows_stopping h1
    have := (hI.dlRoot r f dl hst).2
    exact ⟨by assumption, by show dl ≤ s.now + n + G cfg; omega⟩
  · intro i f dl hi hst
    have h1 := d2 i hi
    rw [hst] at h1
    have := dlAllows_stopping h1
    have := (hI.dlSub i f dl hi hst).2
    exact ⟨by assumption, by show dl ≤ s.now + n + G cfg; omega⟩
  · intro tc htc
    have := (hI.dlCleanup tc htc).1
    have := d4 tc htc
    exact ⟨by show tc ≤ s.now + n; omega, by assumption⟩
  · intro dl hdl
    exact d3 dl hdl
  · intro t ht hp r hr hlive
    rcases hI.a t ht hp r hr hlive with ⟨hc, _⟩ | hs
    · have := (taskUrgent_false (u3 r)).1 hlive
      rw [this] at hc; cases hc
    · exact Or.inr hs
  · intro t ht hp hos i hi hlive
    have hci := (taskUrgent_false (u4 i hi)).1 hlive
    rcases hI.c t ht hp hos i hi hlive with ⟨hc, _⟩ | hs | ⟨hk, hq | ⟨hc, _⟩⟩
    · rw [hci] at hc; cases hc
    · exact Or.inr (Or.inl hs)
    · exact Or.inr (Or.inr ⟨hk, Or.inl hq⟩)
    · rw [hci] at hc; cases hc
  · intro t ht hp hlive
    rcases hI.e t ht hp hlive with ⟨hc, _⟩ | hs
    · have := (taskUrgent_false (u3 .startupCleanup)).1 hlive
      rw [this] at hc; cases hc
    · exact Or.inr hs
  · intro t ht hp hbc
    rcases delay_core hB hI ht hp hu hd with ⟨d, h1, h2⟩ | ⟨tc, hs, _, _⟩
    · show s.now + n ≤ t + G cfg
      omega
    · have : s.sc = .cleanup tc := hs
      simp [this, scBeforeCleanup] at hbc
  · intro t ht hp
    rcases delay_core hB hI ht hp hu hd with ⟨d, h1, h2⟩ | ⟨tc, _, h1, h2⟩
    · show s.now + n ≤ t + G cfg + cfg.C
      omega
    · show s.now + n ≤ t + G cfg + cfg.C
      omega
  · intro t ht hrt
    unfold rtUrgent at u1
    rcases hrt with h | h | h <;> simp at h <;> simp [h] at u1
  · intro i f dl hi hk hst
    have := hI.dlStream i f dl hi hk hst
    show dl ≤ s.now + n + cfg.E
    omega
  · intro t ht hp hos hop
    exact first_stop_deadline hB hI ht hp hu hd hos hop

/-- `InvD` is an invariant of COOPERATIVE runs (time passes only where `coopDelay` allows). -/
theorem InvD.preservedC {cfg : Cfg} {s s' : State} {l : Label} (hB : InvB s) (hC : InvC s)
    (hI : InvD cfg s) (h : stepC cfg s l = some s') : InvD cfg s' := by
  cases l with
  | delay n =>
    have hc := coopDelay_iff.mp (stepC_delay h)
    have h2 := stepC_step h
    simp only [step] at h2
    split at h2
    · cases h2
      exact InvD.preserved_delay hB hI hc.1 hc.2
    · cases h2
  | _ => exact InvD.preserved_nodelay hB hC hI (by intro n hn; cases hn) (stepC_step h)

theorem InvD.reachC {cfg : Cfg} {s : State} (h : ReachC cfg s) : InvD cfg s :=
  ReachC.induction (P := InvD cfg) (InvD.init cfg)
    (fun _ _ _ hr hI hs => InvD.preservedC (InvB.reach hr.reach) (InvC.reach hr.reach) hI hs) s h

end Kopf.C20
