/-
  C20 helper lemmas: `InvA` is preserved by the labels of group 1 (see `Label.grp`).
-/
import Kopf.Lemmas.C20_Defs
set_option linter.unusedSimpArgs false
set_option linter.unusedVariables false
namespace Kopf.C20

set_option maxHeartbeats 2000000 in
theorem InvA.pres_g1 {cfg : Cfg} {s s' : State} {l : Label} (hI : InvA s)
    (hg : l.grp = 1) (h : step cfg s l = some s') : InvA s' := by
  obtain ⟨h1, h2, h3, h4, h5, h6, h7⟩ := hI
  cases l <;> simp only [step] at h
  all_goals (first | (exfalso; simp [Label.grp] at hg; done) | skip)
  all_goals (repeat' (split at h))
  all_goals (first | (cases h; done) | skip)
  all_goals (cases h)
  all_goals (refine ⟨?_, ?_, ?_, ?_, ?_, ?_, ?_⟩ <;> simp_all)
  all_goals grind [upd, Root.guarded, TS.active, watcherLike, Root.kind]

end Kopf.C20
