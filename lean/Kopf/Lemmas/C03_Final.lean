/-
  Lemmas about what a turn of the loop preserves, about the quiescent state, and about histories.
-/
import Kopf.Lemmas.C03_Turn
namespace Kopf.C03
open Kopf Kopf.C02

variable {E : Type} [DecidableEq E]

/-! ### shape of a turn; what it preserves -/

theorem loopStep_form (env : Env) (s : State E) :
    loopStep env s = s ∨ (∃ w, loopStep env s = { s with pending := false, writes := w }) ∨
    loopStep env s = addState env s ∨
    (∃ g, loopStep env s = remState env s g) ∨ loopStep env s = releaseTurn env s ∨
    ∃ now' pend w, loopStep env s = nextState env s now' pend w := by
  by_cases hp : s.pending = true
  rotate_left
  · left; unfold loopStep; simp [hp]
  by_cases hg : s.gone = true
  · right; left; exact ⟨s.writes, by unfold loopStep; simp [hp, hg]⟩
  have hg' : s.gone = false := by simpa using hg
  rcases turn_cases env s hp hg' with ⟨_, _, _, _, h⟩ | ⟨_, _, h⟩ | ⟨_, _, h⟩ | ⟨_, _, _, _, _, h⟩ | ⟨_, _, _, _, h⟩
  · exact Or.inr (Or.inr (Or.inl h))
  · exact Or.inr (Or.inr (Or.inr (Or.inl ⟨_, h⟩)))
  · exact Or.inr (Or.inl ⟨_, h⟩)
  · exact Or.inr (Or.inr (Or.inr (Or.inr (Or.inl h))))
  · right; right; right; right; right
    rw [h]
    rcases handleTurn_cases env s with ⟨_, h'⟩ | ⟨d, _, _, h'⟩ | ⟨_, _, h'⟩ <;> exact ⟨_, _, _, h'⟩

theorem loopStep_ess (env : Env) (s : State E) : (loopStep env s).ess = s.ess := by
  rcases loopStep_form env s with h | ⟨_, h⟩ | h | ⟨_, h⟩ | h | ⟨_, _, _, h⟩ <;> rw [h] <;> rfl

theorem loopStep_noticed (env : Env) (s : State E) : (loopStep env s).noticed = s.noticed := by
  rcases loopStep_form env s with h | ⟨_, h⟩ | h | ⟨_, h⟩ | h | ⟨_, _, _, h⟩ <;> rw [h] <;> rfl

theorem loopStep_marked (env : Env) (s : State E) : (loopStep env s).marked = s.marked := by
  rcases loopStep_form env s with h | ⟨_, h⟩ | h | ⟨_, h⟩ | h | ⟨_, _, _, h⟩ <;> rw [h] <;> rfl

theorem loopStep_quiescent (env : Env) (s : State E) (h : s.pending = false) : loopStep env s = s := by
  unfold loopStep; simp [h]

theorem iter_quiescent (env : Env) (n : Nat) (s : State E) (h : s.pending = false) : iter env n s = s := by
  induction n with
  | zero => rfl
  | succ n ih => simp only [iter, loopStep_quiescent env s h]; exact ih

theorem iter_ess (env : Env) (n : Nat) : ∀ s : State E, (iter env n s).ess = s.ess := by
  induction n with
  | zero => intro s; rfl
  | succ n ih => intro s; simp only [iter]; rw [ih, loopStep_ess]

theorem wf_exec (env : Env) (wf : WF env) (x : Id → Nat → Outcome) : WF { env with exec := x } :=
  ⟨wf.sub, wf.lat, wf.rtt, wf.cap⟩

theorem loopStep_uniform (env : Env) (wf : WF env) (s : State E) (hu : UniformOn env.owned s.P) :
    UniformOn env.owned (loopStep env s).P := by
  have hsub : ∀ i ∈ (cfgOf env s).selected, i ∈ (cfgOf env s).owned := fun i hi => selOf_sub env wf s i hi
  have hup : UniformOn env.owned (pass env s).P' :=
    uniform_preserved (cfgOf env s) s.P s.now s.now env.exec hsub hu
  rcases loopStep_form env s with h | ⟨_, h⟩ | h | ⟨_, h⟩ | h | ⟨_, _, _, h⟩ <;> rw [h]
  · exact hu
  · exact hu
  · exact hu
  · exact hu
  · exact hup
  · exact hup

theorem iter_uniform (env : Env) (wf : WF env) (n : Nat) :
    ∀ s : State E, UniformOn env.owned s.P → UniformOn env.owned (iter env n s).P := by
  induction n with
  | zero => intro s h; exact h
  | succ n ih => intro s h; simp only [iter]; exact ih _ (loopStep_uniform env wf s h)

/-! ### the quiescent state of an object that is not being deleted -/

/-- without a handler reason on an unmarked object the cause is the no-op: the stored last-handled
    state is the essence and nothing initial is outstanding -/
theorem not_handler_noop (s : State E) (hm : s.marked = false) (h : isHandler s = false) :
    (causeOf s).reason = .noop ∧ s.base = some s.ess ∧ (s.noticed && !s.fullyHandled) = false := by
  unfold isHandler causeOf C05.detect C05.detectReason at h
  unfold causeOf C05.detect C05.detectReason
  cases hb : s.base with
  | none => simp [hm, hb, C14.reasonStr] at h; exact absurd (by decide) h
  | some b =>
    by_cases hbe : b = s.ess
    · subst hbe
      cases hi : (s.noticed && !s.fullyHandled)
      · simp [hm, hi]
      · simp [hm, hb, hi, C14.reasonStr] at h; exact absurd (by decide) h
    · have : (some b ≠ some s.ess) := fun hh => hbe (Option.some.inj hh)
      simp [hm, hb, this, C14.reasonStr] at h; exact absurd (by decide) h

/-- an open pass with a handler reason always leaves an event pending: a PATCH or a sleep + touch -/
theorem open_handle_pending (env : Env) (s : State E) (hh : isHandler s = true)
    (hc : (pass env s).closed = false) :
    ∃ now' w, handleTurn env s = nextState env s now' true w := by
  have hr : handlerReasons.contains (cfgOf env s).reason = true := hh
  rcases handleTurn_cases env s with ⟨_, h⟩ | ⟨d, _, _, h⟩ | ⟨_, hm, _⟩
  · exact ⟨_, _, h⟩
  · exact ⟨_, _, h⟩
  · exfalso
    have hne : (cfgOf env s).selected.isEmpty = false := by
      cases he : (cfgOf env s).selected.isEmpty
      · rfl
      · exfalso
        have := cycle_no_handlers (cfgOf env s) s.P s.now s.now env.exec hr he
        unfold pass at hc
        rw [this] at hc
        cases hc
    have hnil := minDelay_none _ hm
    unfold pass at hnil hc
    rw [cycle_main _ _ _ _ _ hr hne] at hnil hc
    exact delays_ne_nil _ _ _ hc hnil

theorem open_next (env : Env) (s : State E) (hp : s.pending = true) (hg : s.gone = false)
    (ha : adjusting env s = false) (hpm : env.prematch = true)
    (hh : isHandler s = true) (hc : (pass env s).closed = false) :
    ∃ now' w, loopStep env s = nextState env s now' true w := by
  rcases turn_cases env s hp hg with ⟨h1, _⟩ | ⟨h1, _⟩ | ⟨_, h1, _⟩ | ⟨_, _, _, _, hrel, _⟩ | ⟨_, _, _, _, h⟩
  · unfold adjusting at ha; simp [h1] at ha
  · unfold adjusting at ha; simp [h1] at ha
  · rw [hpm] at h1; cases h1
  · -- a release needs a pass without delays; an open pass has some
    exfalso
    have hr : handlerReasons.contains (cfgOf env s).reason = true := hh
    have hne : (cfgOf env s).selected.isEmpty = false := by
      cases he : (cfgOf env s).selected.isEmpty
      · rfl
      · exfalso
        have := cycle_no_handlers (cfgOf env s) s.P s.now s.now env.exec hr he
        unfold pass at hc
        rw [this] at hc
        cases hc
    have hd : (pass env s).delays ≠ [] := by
      unfold pass at hc ⊢
      rw [cycle_main _ _ _ _ _ hr hne] at hc ⊢
      exact delays_ne_nil _ _ _ hc
    have hrun : (decisionOf env s).handlersRun = true := by
      rw [dec_run]
      unfold adjusting at ha
      simp [hpm, ha]
    rw [dec_rel, hrun] at hrel
    cases hdl : (pass env s).delays with
    | nil => exact hd hdl
    | cons a as => simp [hdl] at hrel
  · obtain ⟨now', w, hx⟩ := open_handle_pending env s hh hc
    exact ⟨now', w, by rw [h, hx]⟩


/-- the cause string of the no-op -/
theorem noop_reason_str (env : Env) (s : State E) (h : (causeOf s).reason = .noop) :
    ((cfgOf env s).reason == "noop") = true := by
  show (C14.reasonStr (causeOf s).reason == "noop") = true
  rw [h]; decide

/-- When a turn of the loop ends with no event pending on an object that is not being deleted and that
    the framework is not blind to: the last-handled state is the essence, nothing initial is
    outstanding, no owned progress record is left, and the finalizer needs no adjustment. -/
theorem quiescent_after_step (env : Env) (s : State E) (hp : s.pending = true) (hg : s.gone = false)
    (hpm : env.prematch = true) (hmk : s.marked = false)
    (hq : (loopStep env s).pending = false) :
    (loopStep env s).base = some s.ess ∧
    ((loopStep env s).noticed && !(loopStep env s).fullyHandled) = false ∧
    (∀ i ∈ env.owned, (loopStep env s).P i = none) ∧
    (loopStep env s).gone = false ∧ (loopStep env s).marked = false ∧
    adjusting env (loopStep env s) = false := by
  rcases turn_cases env s hp hg with ⟨_, _, _, _, h⟩ | ⟨_, _, h⟩ | ⟨_, h1, _⟩ | ⟨_, _, h1, _⟩ | ⟨ha, _, _, _, h⟩
  · rw [h] at hq; cases hq
  · rw [h, hmk] at hq; cases hq
  · rw [hpm] at h1; cases h1
  · rw [hmk] at h1; cases h1
  · have hadjN : ∀ now' pend w, adjusting env (nextState env s now' pend w) = false := by
      intro now' pend w
      rw [adjusting_eq]
      show ((env.prematch && env.changeReq && !s.blocked && !s.marked) ||
            (!(env.prematch && env.changeReq) && s.blocked)) = false
      rw [← adjusting_eq]; exact ha
    rcases handleTurn_cases env s with ⟨_, h'⟩ | ⟨d, _, _, h'⟩ | ⟨hch, hm, h'⟩
    · rw [h, h'] at hq; cases hq
    · rw [h, h'] at hq; cases hq
    · rw [h, h']
      by_cases hc : (pass env s).closed = true
      · have hh : isHandler s = true := by
          cases hh : isHandler s
          · have := (cycle_not_handler_reason_invoked (cfgOf env s) s.P s.now s.now env.exec hh).2
            unfold pass at hc
            rw [this] at hc; cases hc
          · rfl
        have hnone : ∀ i ∈ env.owned, (pass env s).P' i = none := by
          cases he : (cfgOf env s).selected.isEmpty
          · exact closed_purges (cfgOf env s) s.P s.now s.now env.exec hh he hc
          · exact (closed_purges_skip (cfgOf env s) s.P s.now s.now env.exec hh he).2
        exact ⟨by simp [nextState, hc], by simp [nextState, hc], hnone, hg, hmk, hadjN _ _ _⟩
      · have hc' : (pass env s).closed = false := by simpa using hc
        by_cases hh : isHandler s = true
        · obtain ⟨now', w, hx⟩ := open_handle_pending env s hh hc'
          rw [h, hx] at hq; cases hq
        · have hh' : isHandler s = false := by simpa using hh
          obtain ⟨hr, h1, h2⟩ := not_handler_noop s hmk hh'
          have hr' : handlerReasons.contains (cfgOf env s).reason = false := hh'
          have hnone : ∀ i ∈ env.owned, (pass env s).P' i = none := by
            intro i hi
            unfold pass
            rw [cycle_not_handler_reason _ _ _ _ _ hr']
            simp [noop_reason_str env s hr, purge, show i ∈ (cfgOf env s).owned from hi]
          exact ⟨by simp [nextState, hc', h1], by simp [nextState, hc', h2], hnone, hg, hmk, hadjN _ _ _⟩

/-- in a settled state — last-handled = essence, nothing initial outstanding, no owned record, not being
    deleted, finalizer as needed — a (re-)delivered event is processed without any write and leaves
    nothing pending -/
theorem settled_event_no_write (env : Env) (t : State E) (hb : t.base = some t.ess)
    (hi : (t.noticed && !t.fullyHandled) = false) (hn : ∀ i ∈ env.owned, t.P i = none)
    (hg : t.gone = false) (hmk : t.marked = false) (ha : adjusting env t = false) :
    (loopStep env { t with pending := true }).writes = t.writes + cp env ∧
    (loopStep env { t with pending := true }).pending = false ∧
    (loopStep env { t with pending := true }).base = t.base ∧
    ∀ i, (loopStep env { t with pending := true }).P i = t.P i := by
  have ha' : adjusting env ({ t with pending := true } : State E) = false := by
    rw [adjusting_eq]
    show ((env.prematch && env.changeReq && !t.blocked && !t.marked) ||
          (!(env.prematch && env.changeReq) && t.blocked)) = false
    rw [← adjusting_eq]; exact ha
  rcases turn_cases env ({ t with pending := true } : State E) rfl hg with
    ⟨h1, _⟩ | ⟨h1, _⟩ | ⟨_, _, h⟩ | ⟨_, _, h1, _⟩ | ⟨_, _, _, _, h⟩
  · unfold adjusting at ha'; simp [h1] at ha'
  · unfold adjusting at ha'; simp [h1] at ha'
  · rw [h]; exact ⟨rfl, rfl, rfl, fun _ => rfl⟩
  · have : t.marked = true := h1
    rw [hmk] at this; cases this
  · have hh : isHandler ({ t with pending := true } : State E) = false := by
      unfold isHandler causeOf
      simp [hb, hi, hmk, C05.detect, C05.detectReason, C14.reasonStr]
      decide
    have hr : handlerReasons.contains (cfgOf env ({ t with pending := true } : State E)).reason = false := hh
    have hid : ∀ j, (pass env ({ t with pending := true } : State E)).P' j = t.P j :=
      fun j => noop_pass_id hr hn j
    have hcl : (pass env ({ t with pending := true } : State E)).closed = false :=
      (cycle_not_handler_reason_invoked _ _ _ _ _ hr).2
    have hdl : (pass env ({ t with pending := true } : State E)).delays = [] := by
      unfold pass; rw [cycle_not_handler_reason _ _ _ _ _ hr]
    have hnc : changedOf env ({ t with pending := true } : State E) = false := by
      unfold changedOf
      simp [hid, hcl]
    rcases handleTurn_cases env ({ t with pending := true } : State E) with ⟨h', _⟩ | ⟨d, _, hm, _⟩ | ⟨_, _, h'⟩
    · rw [hnc] at h'; cases h'
    · rw [hdl] at hm; simp [minDelay] at hm
    · rw [h, h']
      exact ⟨rfl, rfl, by simp [nextState, hcl], hid⟩

/-! ### the quiescent state of an object that is being deleted -/

/-- a turn on a marked object either keeps it marked, blocked and pending — or ends with the own
    finalizer removed (and the object gone unless somebody else's finalizer holds it) -/
theorem marked_step (env : Env) (s : State E) (hp : s.pending = true) (hg : s.gone = false)
    (hmk : s.marked = true) (hbl : s.blocked = true) :
    ((loopStep env s).pending = true ∧ (loopStep env s).gone = false ∧ (loopStep env s).marked = true ∧
      (loopStep env s).blocked = true) ∨
    ((loopStep env s).blocked = false ∧ (loopStep env s).gone = !env.foreignFins) := by
  rcases turn_cases env s hp hg with ⟨_, h1, _⟩ | ⟨_, _, h⟩ | ⟨ha, hpm, _⟩ | ⟨_, _, _, _, _, h⟩ | ⟨_, _, hrel, hcm, h⟩
  · rw [hmk] at h1; cases h1
  · right; rw [h]; simp [remState, hmk]
  · -- blind and blocked: the finalizer is unneeded, so this turn would have removed it
    exfalso
    rw [adjusting_eq] at ha
    simp [hpm, hbl] at ha
  · right; rw [h]; simp [releaseTurn]
  · left
    have hh : isHandler s = true := by
      unfold isHandler causeOf C05.detect C05.detectReason
      simp [hmk, hbl, C14.reasonStr]
      decide
    have hc : (pass env s).closed = false := by
      cases hc : (pass env s).closed
      · rfl
      · have := hcm hc; rw [hmk] at this; cases this
    obtain ⟨now', w, hx⟩ := open_handle_pending env s hh hc
    rw [h, hx]
    exact ⟨rfl, hg, hmk, hbl⟩

/-! ### once closed, closed: informational causes stay -/

theorem isHandler_nextState (env : Env) (s : State E) (hcl : (pass env s).closed = false)
    (a : Tick) (b : Bool) (c : Nat) : isHandler (nextState env s a b c) = isHandler s := by
  have hc : causeOf (nextState env s a b c) = causeOf s :=
    causeOf_congr s _ (by simp [nextState, hcl]) rfl rfl (by simp [nextState, hcl]) rfl rfl
  unfold isHandler; rw [hc]

theorem info_stays (env : Env) (s : State E) (hh : isHandler s = false) : isHandler (loopStep env s) = false := by
  have hr : handlerReasons.contains (cfgOf env s).reason = false := hh
  have hcl : (pass env s).closed = false := (cycle_not_handler_reason_invoked _ _ _ _ _ hr).2
  by_cases hp : s.pending = true
  rotate_left
  · rw [loopStep_quiescent env s (by simpa using hp)]; exact hh
  by_cases hg : s.gone = true
  · have : loopStep env s = { s with pending := false } := by unfold loopStep; simp [hp, hg]
    rw [this]; exact hh
  have hg' : s.gone = false := by simpa using hg
  rcases turn_cases env s hp hg' with ⟨_, hm, _, _, h⟩ | ⟨_, _, h⟩ | ⟨_, _, h⟩ | ⟨_, _, hm, _, _, h⟩ | ⟨_, _, _, _, h⟩
  · have := causeOf_unmarked s (addState env s) rfl rfl rfl rfl hm hm
    rw [h]; unfold isHandler; rw [this]; exact hh
  · rw [h]
    cases hm : s.marked
    · have := causeOf_unmarked s (remState env s (false && !env.foreignFins)) rfl rfl rfl rfl hm hm
      unfold isHandler; rw [this]; exact hh
    · unfold isHandler causeOf C05.detect C05.detectReason
      simp [remState, hm, C14.reasonStr]
      decide
  · rw [h]; exact hh
  · rw [h]
    unfold isHandler causeOf C05.detect C05.detectReason
    simp [releaseTurn, nextState, hm, C14.reasonStr]
    decide
  · rw [h]
    rcases handleTurn_cases env s with ⟨_, h'⟩ | ⟨d, _, _, h'⟩ | ⟨_, _, h'⟩ <;>
      rw [h', isHandler_nextState env s hcl] <;> exact hh

theorem gone_stays (env : Env) (s : State E) (hg : s.gone = true) : (loopStep env s).gone = true := by
  unfold loopStep
  by_cases hp : s.pending = true <;> simp [hp, hg]

theorem closings_zero (env : Env) (n : Nat) :
    ∀ s : State E, (s.gone = true ∨ isHandler s = false) → closings env n s = 0 := by
  induction n with
  | zero => intro s _; rfl
  | succ n ih =>
    intro s h
    simp only [closings]
    have h0 : (if (s.pending && !s.gone && (decisionOf env s).handlersRun && (pass env s).closed) = true
        then 1 else 0) = 0 := by
      rcases h with hg | hh
      · simp [hg]
      · have hr : handlerReasons.contains (cfgOf env s).reason = false := hh
        have hc : (pass env s).closed = false :=
          (cycle_not_handler_reason_invoked (cfgOf env s) s.P s.now s.now env.exec hr).2
        simp [hc]
    rw [h0, Nat.zero_add]
    apply ih
    rcases h with hg | hh
    · exact Or.inl (gone_stays env s hg)
    · exact Or.inr (info_stays env s hh)

/-- after a closing turn the object is gone or its cause is informational -/
theorem after_closing (env : Env) (s : State E) (hp : s.pending = true) (hg : s.gone = false)
    (hrun : (decisionOf env s).handlersRun = true) (hc : (pass env s).closed = true) :
    (loopStep env s).gone = true ∨ isHandler (loopStep env s) = false := by
  rcases turn_cases env s hp hg with ⟨h1, _⟩ | ⟨h1, _⟩ | ⟨_, h1, _⟩ | ⟨_, _, hmk, _, _, h⟩ | ⟨_, _, _, hcm, h⟩
  · rw [dec_run, h1] at hrun; simp at hrun
  · rw [dec_run, h1] at hrun; simp at hrun
  · rw [dec_run, h1] at hrun; simp at hrun
  · right
    rw [h]
    unfold isHandler causeOf C05.detect C05.detectReason
    simp [releaseTurn, nextState, hmk, C14.reasonStr]
    decide
  · right
    have hmk := hcm hc
    rw [h]
    rcases handleTurn_cases env s with ⟨_, h'⟩ | ⟨d, _, _, h'⟩ | ⟨_, _, h'⟩ <;> rw [h'] <;>
      exact closed_next_not_handler _ hmk (by simp [nextState, hc]) (by simp [nextState, hc])

/-! ### the invocations of the following turns, and C02's pass sequence -/

def toSteps (env : Env) : List (Tick × List Id) → List C02.StepV
  | [] => []
  | (a, l) :: rest => ⟨a, a, env.exec, l, env.limits, env.lifecycle⟩ :: toSteps env rest

theorem invs_eq (env : Env) (hpm : env.prematch = true) (n : Nat) :
    ∀ (s : State E), s.pending = true → s.gone = false → adjusting env s = false → isHandler s = true →
      invsOf env n s = invokedSeqV env.owned (C14.reasonStr (causeOf s).reason) s.P (toSteps env (stepsOf env n s)) := by
  induction n with
  | zero => intro s _ _ _ _; rfl
  | succ n ih =>
    intro s hp hg ha hh
    simp only [invsOf, stepsOf, toSteps, invokedSeqV]
    show (pass env s).invoked :: _ = (pass env s).invoked :: _
    congr 1
    cases hc : (pass env s).closed
    · have hc2 : (cycle (cfgOf env s) s.P s.now s.now env.exec).closed = false := hc
      have hc3 : (cycle (cfgAt env.owned (C14.reasonStr (causeOf s).reason)
          ⟨s.now, s.now, env.exec, selOf env s, env.limits, env.lifecycle⟩) s.P s.now s.now env.exec).closed = false := hc
      simp only [hc3, Bool.false_eq_true, if_false]
      obtain ⟨now', w, h⟩ := open_next env s hp hg ha hpm hh hc
      have hcz : causeOf (loopStep env s) = causeOf s := by
        rw [h]; exact causeOf_congr s _ (by simp [nextState, hc]) rfl rfl (by simp [nextState, hc]) rfl rfl
      have hh' : isHandler (loopStep env s) = true := by unfold isHandler; rw [hcz]; exact hh
      have hp' : (loopStep env s).pending = true := by rw [h]; rfl
      have hg' : (loopStep env s).gone = false := by rw [h]; exact hg
      have ha' : adjusting env (loopStep env s) = false := by
        rw [h, adjusting_eq]
        show ((env.prematch && env.changeReq && !s.blocked && !s.marked) ||
              (!(env.prematch && env.changeReq) && s.blocked)) = false
        rw [← adjusting_eq]; exact ha
      have hP : (loopStep env s).P = (cycle (cfgOf env s) s.P s.now s.now env.exec).P' := by rw [h]; rfl
      rw [ih (loopStep env s) hp' hg' ha' hh', hcz, hP]
      rfl
    · have hc3 : (cycle (cfgAt env.owned (C14.reasonStr (causeOf s).reason)
          ⟨s.now, s.now, env.exec, selOf env s, env.limits, env.lifecycle⟩) s.P s.now s.now env.exec).closed = true := hc
      simp [hc3]

theorem toSteps_sub (env : Env) (wf : WF env) (k : Nat) :
    ∀ (t : State E), ∀ st ∈ toSteps env (stepsOf env k t), ∀ i ∈ st.selected, i ∈ env.owned := by
  induction k with
  | zero => intro t st h; simp [stepsOf, toSteps] at h
  | succ k ih =>
    intro t st h i hi
    simp only [stepsOf, toSteps, List.mem_cons] at h
    rcases h with rfl | h
    · exact selOf_sub env wf t i hi
    · exact ih _ st h i hi

omit [DecidableEq E] in
theorem applyEdits_fields (es : List E) : ∀ (s : State E),
    (applyEdits s es).base = s.base ∧ (applyEdits s es).P = s.P ∧
    (applyEdits s es).marked = s.marked ∧ (applyEdits s es).blocked = s.blocked ∧
    (applyEdits s es).gone = s.gone ∧
    (applyEdits s es).ess = (es.getLast?).getD s.ess := by
  induction es with
  | nil => intro s; exact ⟨rfl, rfl, rfl, rfl, rfl, rfl⟩
  | cons e rest ih =>
    intro s
    have := ih { s with ess := e }
    simp only [applyEdits, List.foldl_cons] at this ⊢
    refine ⟨this.1, this.2.1, this.2.2.1, this.2.2.2.1, this.2.2.2.2.1, ?_⟩
    rw [this.2.2.2.2.2]
    cases rest with
    | nil => rfl
    | cons a as =>
      cases h : (a :: as).getLast? with
      | none => simp at h
      | some v => simp [List.getLast?_cons_cons, h]

/-! ### histories -/

theorem act_uniform (env : Env) (wf : WF env) (s : State E) (a : Act E) (hu : UniformOn env.owned s.P) :
    UniformOn env.owned (act env s a).P := by
  cases a with
  | turn x => exact loopStep_uniform { env with exec := x } (wf_exec env wf x) s hu
  | edit e t => simp only [act]; split <;> exact hu
  | delete t =>
    simp only [act]
    split
    · exact hu
    · split <;> exact hu
  | restart t => exact hu
  | lostWrite x t => exact hu

theorem runActs_uniform (env : Env) (wf : WF env) (acts : List (Act E)) :
    ∀ s : State E, UniformOn env.owned s.P → UniformOn env.owned (runActs env s acts).P := by
  induction acts with
  | nil => intro s h; exact h
  | cons a rest ih =>
    intro s h
    simp only [runActs, List.foldl_cons]
    exact ih _ (act_uniform env wf s a h)


theorem runActsV_uniform (owned : List Id) (hist : List (Env × Act E)) :
    (∀ ea ∈ hist, WF ea.1 ∧ ea.1.owned = owned) →
    ∀ s : State E, UniformOn owned s.P → UniformOn owned (runActsV s hist).P := by
  induction hist with
  | nil => intro _ s h; exact h
  | cons ea rest ih =>
    intro hall s h
    simp only [runActsV, List.foldl_cons]
    have h1 := hall ea (by simp)
    have hstep : UniformOn owned (act ea.1 s ea.2).P := by
      have := act_uniform ea.1 h1.1 s ea.2 (by rw [h1.2]; exact h)
      rw [h1.2] at this; exact this
    exact ih (fun x hx => hall x (by simp [hx])) _ hstep

end Kopf.C03
