/-
  Lemmas about the quiescent state of the closed loop: what holds when no event is pending any more.
-/
import Kopf.Lemmas.C03_Rank
namespace Kopf.C03
open Kopf Kopf.C02

variable {E : Type} [DecidableEq E]

theorem loopStep_form (env : Env) (s : State E) :
    loopStep env s = s ∨ loopStep env s = { s with pending := false } ∨
    ∃ now' pend w, loopStep env s = nextState env s now' pend w := by
  cases hp : s.pending
  · left; unfold loopStep; simp [hp]
  · cases hpm : env.prematch
    · right; left; unfold loopStep; simp [hp, hpm]
    · right; right
      rcases loopStep_cases env s hp hpm with ⟨_, h⟩ | ⟨d, _, _, h⟩ | ⟨_, _, h⟩
      · exact ⟨_, _, _, h⟩
      · exact ⟨_, _, _, h⟩
      · exact ⟨_, _, _, h⟩

theorem loopStep_ess (env : Env) (s : State E) : (loopStep env s).ess = s.ess := by
  rcases loopStep_form env s with h | h | ⟨_, _, _, h⟩ <;> rw [h] <;> rfl

theorem loopStep_noticed (env : Env) (s : State E) : (loopStep env s).noticed = s.noticed := by
  rcases loopStep_form env s with h | h | ⟨_, _, _, h⟩ <;> rw [h] <;> rfl

theorem loopStep_quiescent (env : Env) (s : State E) (h : s.pending = false) : loopStep env s = s := by
  unfold loopStep; simp [h]

theorem iter_quiescent (env : Env) (n : Nat) (s : State E) (h : s.pending = false) : iter env n s = s := by
  induction n with
  | zero => rfl
  | succ n ih => simp only [iter, loopStep_quiescent env s h]; exact ih

theorem iter_ess (env : Env) (n : Nat) : ∀ s : State E, (iter env n s).ess = s.ess := by
  induction n with
  | zero => intro s; rfl
  | succ n ih => intro s; simp only [iter]; rw [ih, loopStep_ess]

theorem loopStep_uniform (env : Env) (wf : WF env) (s : State E) (hu : UniformOn env.owned s.P) :
    UniformOn env.owned (loopStep env s).P := by
  have hsub : ∀ i ∈ (cfgOf env s).selected, i ∈ (cfgOf env s).owned := fun i hi => wf.sub _ i hi
  have hup : UniformOn env.owned (pass env s).P' :=
    uniform_preserved (cfgOf env s) s.P s.now s.now env.exec hsub hu
  rcases loopStep_form env s with h | h | ⟨_, _, _, h⟩ <;> rw [h]
  · exact hu
  · exact hu
  · exact hup

theorem iter_uniform (env : Env) (wf : WF env) (n : Nat) :
    ∀ s : State E, UniformOn env.owned s.P → UniformOn env.owned (iter env n s).P := by
  induction n with
  | zero => intro s h; exact h
  | succ n ih => intro s h; simp only [iter]; exact ih _ (loopStep_uniform env wf s h)

/-- without a handler reason the cause is the no-op: the stored last-handled state is the essence and
    nothing initial is outstanding -/
theorem not_handler_noop (s : State E) (h : isHandler s = false) :
    s.base = some s.ess ∧ (s.noticed && !s.fullyHandled) = false := by
  unfold isHandler causeOf C05.detect C05.detectReason at h
  cases hb : s.base with
  | none => simp [hb, C14.reasonStr] at h; exact absurd (by decide) h
  | some b =>
    by_cases hbe : b = s.ess
    · subst hbe
      cases hi : (s.noticed && !s.fullyHandled)
      · exact ⟨rfl, rfl⟩
      · simp [hb, hi, C14.reasonStr] at h; exact absurd (by decide) h
    · have : (some b ≠ some s.ess) := fun hh => hbe (Option.some.inj hh)
      simp [hb, this, C14.reasonStr] at h; exact absurd (by decide) h

/-- an open pass with a handler reason always leaves an event pending: a PATCH or a sleep + touch -/
theorem open_next (env : Env) (s : State E) (hp : s.pending = true) (hpm : env.prematch = true)
    (hh : isHandler s = true) (hc : (pass env s).closed = false) :
    ∃ now' w, loopStep env s = nextState env s now' true w := by
  have hr : handlerReasons.contains (cfgOf env s).reason = true := hh
  rcases loopStep_cases env s hp hpm with ⟨_, h⟩ | ⟨d, _, _, h⟩ | ⟨_, hm, _⟩
  · exact ⟨_, _, h⟩
  · exact ⟨_, _, h⟩
  · exfalso
    have hne : (cfgOf env s).selected.isEmpty = false := by
      cases he : (cfgOf env s).selected.isEmpty
      · rfl
      · exfalso
        have := cycle_no_handlers (cfgOf env s) s.P s.now s.now env.exec hr he
        unfold pass at hc
        rw [this] at hc
        cases hc
    have hnil := minDelay_none _ hm
    unfold pass at hnil hc
    rw [cycle_main _ _ _ _ _ hr hne] at hnil hc
    exact delays_ne_nil _ _ _ hc hnil

/-- when a turn of the loop ends with no event pending, the last-handled state is the essence -/
theorem quiescent_after_step (env : Env) (s : State E) (hp : s.pending = true) (hpm : env.prematch = true)
    (hq : (loopStep env s).pending = false) :
    (loopStep env s).base = some s.ess ∧
    ((loopStep env s).noticed && !(loopStep env s).fullyHandled) = false := by
  rcases loopStep_cases env s hp hpm with ⟨_, h⟩ | ⟨d, _, _, h⟩ | ⟨_, hm, h⟩
  · rw [h] at hq; cases hq
  · rw [h] at hq; cases hq
  · by_cases hc : (pass env s).closed = true
    · rw [h]; simp [nextState, hc]
    · have hc' : (pass env s).closed = false := by simpa using hc
      by_cases hh : isHandler s = true
      · obtain ⟨now', w, h'⟩ := open_next env s hp hpm hh hc'
        rw [h'] at hq; cases hq
      · have hh' : isHandler s = false := by simpa using hh
        obtain ⟨h1, h2⟩ := not_handler_noop s hh'
        rw [h]
        simp [nextState, hc', h1, h2]

/-- in a state whose last-handled state is the essence and with nothing initial outstanding, a
    (re-)delivered event is processed without any write and leaves nothing pending -/
theorem settled_event_no_write (env : Env) (t : State E) (hb : t.base = some t.ess)
    (hi : (t.noticed && !t.fullyHandled) = false) :
    (loopStep env { t with pending := true }).writes = t.writes ∧
    (loopStep env { t with pending := true }).pending = false ∧
    (loopStep env { t with pending := true }).base = t.base ∧
    ∀ i, (loopStep env { t with pending := true }).P i = t.P i := by
  by_cases hpm : env.prematch = true
  · have hh : isHandler ({ t with pending := true } : State E) = false := by
      unfold isHandler causeOf
      simp [hb, hi, C05.detect, C05.detectReason, C14.reasonStr]
      decide
    have hpass : pass env ({ t with pending := true } : State E) =
        { invoked := [], P' := t.P, closed := false, delays := [] } :=
      cycle_not_handler_reason (cfgOf env _) t.P t.now t.now env.exec hh
    have hnc : changedOf env ({ t with pending := true } : State E) = false := by
      unfold changedOf
      rw [hpass]
      simp
    rcases loopStep_cases env ({ t with pending := true } : State E) rfl hpm with ⟨h, _⟩ | ⟨d, _, hm, _⟩ | ⟨_, _, h⟩
    · rw [hnc] at h; cases h
    · rw [hpass] at hm; simp [minDelay] at hm
    · rw [h]
      simp [nextState, hpass]
  · have hpm' : env.prematch = false := by simpa using hpm
    have : loopStep env ({ t with pending := true } : State E) = { t with pending := false } := by
      unfold loopStep; simp [hpm']
    rw [this]
    simp

/-! ### the guard under which no progress record survives -/

/-- The cause has a handler reason (creation, update, resuming) — so the cycle will be closed by a pass
    that purges every owned record, with or without selected handlers — or nothing is recorded at all.
    What it excludes: the no-op cause (last-handled = essence, nothing initial) over leftover records. -/
def Purging (env : Env) (s : State E) : Prop :=
  isHandler s = true ∨ (∀ i ∈ env.owned, s.P i = none)

theorem purging_step (env : Env) (s : State E) (hp : s.pending = true) (hpm : env.prematch = true)
    (hg : Purging env s) :
    ((loopStep env s).pending = true ∧ Purging env (loopStep env s)) ∨
    ((loopStep env s).pending = false ∧ ∀ i ∈ env.owned, (loopStep env s).P i = none) := by
  -- what the pass leaves, by the three kinds of pass
  have hP' : ∀ now' pend w, (nextState env s now' pend w).P = (pass env s).P' := fun _ _ _ => rfl
  by_cases hh : isHandler s = true
  · have hr : handlerReasons.contains (cfgOf env s).reason = true := hh
    by_cases hc : (pass env s).closed = true
    · -- closing pass: either handlers were executed (purge of all owned) or nothing was recorded
      have hnone : ∀ i ∈ env.owned, (pass env s).P' i = none := by
        cases he : (cfgOf env s).selected.isEmpty
        · exact closed_purges (cfgOf env s) s.P s.now s.now env.exec hr he hc
        · exact (closed_purges_skip (cfgOf env s) s.P s.now s.now env.exec hr he).2
      rcases loopStep_cases env s hp hpm with ⟨_, h⟩ | ⟨d, _, _, h⟩ | ⟨_, _, h⟩
      · left; rw [h]; exact ⟨rfl, Or.inr (by rw [hP']; exact hnone)⟩
      · left; rw [h]; exact ⟨rfl, Or.inr (by rw [hP']; exact hnone)⟩
      · right; rw [h]; exact ⟨rfl, by rw [hP']; exact hnone⟩
    · have hc' : (pass env s).closed = false := by simpa using hc
      obtain ⟨now', w, h⟩ := open_next env s hp hpm hh hc'
      left
      rw [h]
      refine ⟨rfl, Or.inl ?_⟩
      have hcz : causeOf (nextState env s now' true w) = causeOf s :=
        causeOf_congr s _ (by simp [nextState, hc']) rfl rfl (by simp [nextState, hc'])
      unfold isHandler
      rw [hcz]
      exact hh
  · have hh' : isHandler s = false := by simpa using hh
    rcases hg with h1 | hn
    · rw [h1] at hh'; cases hh'
    · have hpass : pass env s = { invoked := [], P' := s.P, closed := false, delays := [] } :=
        cycle_not_handler_reason (cfgOf env s) s.P s.now s.now env.exec hh'
      have hnone : ∀ i ∈ env.owned, (pass env s).P' i = none := by rw [hpass]; exact hn
      rcases loopStep_cases env s hp hpm with ⟨_, h⟩ | ⟨d, _, _, h⟩ | ⟨_, _, h⟩
      · left; rw [h]; exact ⟨rfl, Or.inr (by rw [hP']; exact hnone)⟩
      · left; rw [h]; exact ⟨rfl, Or.inr (by rw [hP']; exact hnone)⟩
      · right; rw [h]; exact ⟨rfl, by rw [hP']; exact hnone⟩


/-! ### the invocations of the following turns, and C02's pass sequence -/

/-- invocations of the next `n` turns, up to and including the closing pass -/
def invsOf (env : Env) : Nat → State E → List (List (Id × Nat))
  | 0, _ => []
  | n + 1, s => (pass env s).invoked ::
      (if (pass env s).closed then [] else invsOf env n (loopStep env s))

/-- the clock readings / handler behaviour of the next `n` turns, as C02 `Step`s -/
def stepsOf (env : Env) : Nat → State E → List C02.Step
  | 0, _ => []
  | n + 1, s => ⟨s.now, s.now, env.exec⟩ :: stepsOf env n (loopStep env s)

theorem invs_eq (env : Env) (hpm : env.prematch = true) (n : Nat) :
    ∀ (s : State E), s.pending = true → isHandler s = true →
      invsOf env n s = invokedSeq (cfgOf env s) s.P (stepsOf env n s) := by
  induction n with
  | zero => intro s _ _; rfl
  | succ n ih =>
    intro s hp hh
    simp only [invsOf, stepsOf, invokedSeq]
    show (pass env s).invoked :: _ = (pass env s).invoked :: _
    congr 1
    cases hc : (pass env s).closed
    · have hc2 : (cycle (cfgOf env s) s.P s.now s.now env.exec).closed = false := hc
      simp only [hc2, Bool.false_eq_true, if_false]
      obtain ⟨now', w, h⟩ := open_next env s hp hpm hh hc
      have hcz : causeOf (nextState env s now' true w) = causeOf s :=
        causeOf_congr s _ (by simp [nextState, hc]) rfl rfl (by simp [nextState, hc])
      have hcfg : cfgOf env (loopStep env s) = cfgOf env s := by rw [h]; unfold cfgOf; rw [hcz]
      have hh' : isHandler (loopStep env s) = true := by rw [h]; unfold isHandler; rw [hcz]; exact hh
      have hp' : (loopStep env s).pending = true := by rw [h]; rfl
      have hP : (loopStep env s).P = (cycle (cfgOf env s) s.P s.now s.now env.exec).P' := by rw [h]; rfl
      rw [ih (loopStep env s) hp' hh', hcfg, hP]
    · have hc2 : (cycle (cfgOf env s) s.P s.now s.now env.exec).closed = true := hc
      simp [hc2]

/-- external edits while no operator runs: only the essence moves -/
def applyEdits (s : State E) (es : List E) : State E :=
  es.foldl (fun st e => { st with ess := e }) s

omit [DecidableEq E] in
theorem applyEdits_fields (es : List E) : ∀ (s : State E),
    (applyEdits s es).base = s.base ∧ (applyEdits s es).P = s.P ∧
    (applyEdits s es).ess = (es.getLast?).getD s.ess := by
  induction es with
  | nil => intro s; exact ⟨rfl, rfl, rfl⟩
  | cons e rest ih =>
    intro s
    have := ih { s with ess := e }
    simp only [applyEdits, List.foldl_cons] at this ⊢
    refine ⟨this.1, this.2.1, ?_⟩
    rw [this.2.2]
    cases rest with
    | nil => rfl
    | cons a as =>
      cases h : (a :: as).getLast? with
      | none => simp at h
      | some v => simp [List.getLast?_cons_cons, h]

end Kopf.C03
