/-
  Lemmas about what a turn of the loop preserves, about the quiescent state, and about histories.
-/
import Kopf.Lemmas.C03_Turn
namespace Kopf.C03
open Kopf Kopf.C02

variable {E : Type} [DecidableEq E]

/-! ### shape of a turn; what it preserves -/

theorem purgeTurn_fields (env : Env) (s : State E) :
    (purgeTurn env s).ess = s.ess ∧ (purgeTurn env s).noticed = s.noticed ∧ (purgeTurn env s).marked = s.marked ∧
    (purgeTurn env s).blocked = s.blocked ∧ (purgeTurn env s).gone = s.gone ∧ (purgeTurn env s).base = s.base ∧
    (purgeTurn env s).fullyHandled = s.fullyHandled ∧ (purgeTurn env s).resumed = s.resumed := by
  rcases purgeTurn_cases env s with ⟨_, h⟩ | ⟨_, h⟩ <;> rw [h] <;> exact ⟨rfl, rfl, rfl, rfl, rfl, rfl, rfl, rfl⟩

theorem purgeTurn_causeOf (env : Env) (s : State E) : causeOf (purgeTurn env s) = causeOf s := by
  obtain ⟨h1, h2, h3, h4, _, h6, h7, _⟩ := purgeTurn_fields env s
  exact causeOf_congr s _ h6 h1 h2 h7 h3 h4

theorem purgeTurn_uniform (env : Env) (s : State E) (hu : UniformOn env.owned s.P) :
    UniformOn env.owned (purgeTurn env s).P := by
  rcases purgeTurn_cases env s with ⟨_, h⟩ | ⟨_, h⟩ <;> rw [h]
  · exact purged_uniform env s
  · exact hu

theorem remState_uniform (env : Env) (s : State E) (g : Bool) (hu : UniformOn env.owned s.P) :
    UniformOn env.owned (remState env s g).P := hu

theorem loopStep_form (env : Env) (s : State E) :
    loopStep env s = s ∨ (∃ w, loopStep env s = { s with pending := false, writes := w }) ∨
    loopStep env s = addState env s ∨
    (∃ g, loopStep env s = remState env s g) ∨ loopStep env s = releaseTurn env s ∨
    loopStep env s = purgeTurn env s ∨
    ∃ now' pend w, loopStep env s = nextState env s now' pend w := by
  by_cases hp : s.pending = true
  rotate_left
  · left; unfold loopStep; simp [hp]
  by_cases hg : s.gone = true
  · right; left; exact ⟨s.writes, by unfold loopStep; simp [hp, hg]⟩
  have hg' : s.gone = false := by simpa using hg
  rcases turn_cases env s hp hg' with ⟨_, _, _, _, h⟩ | ⟨_, _, h⟩ | ⟨_, _, h⟩ | ⟨_, _, _, _, _, h⟩ | ⟨_, _, _, _, h⟩ |
    ⟨_, _, _, _, _, h⟩
  · exact Or.inr (Or.inr (Or.inl h))
  · exact Or.inr (Or.inr (Or.inr (Or.inl ⟨_, h⟩)))
  · exact Or.inr (Or.inl ⟨_, h⟩)
  · exact Or.inr (Or.inr (Or.inr (Or.inr (Or.inl h))))
  · exact Or.inr (Or.inr (Or.inr (Or.inr (Or.inr (Or.inl h)))))
  · right; right; right; right; right; right
    rw [h]
    rcases handleTurn_cases env s with ⟨_, h'⟩ | ⟨d, _, _, h'⟩ | ⟨_, _, h'⟩ <;> exact ⟨_, _, _, h'⟩

theorem loopStep_ess (env : Env) (s : State E) : (loopStep env s).ess = s.ess := by
  rcases loopStep_form env s with h | ⟨_, h⟩ | h | ⟨_, h⟩ | h | h | ⟨_, _, _, h⟩ <;> rw [h] <;>
    first | rfl | exact (purgeTurn_fields env s).1

theorem loopStep_noticed (env : Env) (s : State E) : (loopStep env s).noticed = s.noticed := by
  rcases loopStep_form env s with h | ⟨_, h⟩ | h | ⟨_, h⟩ | h | h | ⟨_, _, _, h⟩ <;> rw [h] <;>
    first | rfl | exact (purgeTurn_fields env s).2.1

theorem loopStep_marked (env : Env) (s : State E) : (loopStep env s).marked = s.marked := by
  rcases loopStep_form env s with h | ⟨_, h⟩ | h | ⟨_, h⟩ | h | h | ⟨_, _, _, h⟩ <;> rw [h] <;>
    first | rfl | exact (purgeTurn_fields env s).2.2.1

theorem loopStep_quiescent (env : Env) (s : State E) (h : s.pending = false) : loopStep env s = s := by
  unfold loopStep; simp [h]

theorem iter_quiescent (env : Env) (n : Nat) (s : State E) (h : s.pending = false) : iter env n s = s := by
  induction n with
  | zero => rfl
  | succ n ih => simp only [iter, loopStep_quiescent env s h]; exact ih

theorem iter_ess (env : Env) (n : Nat) : ∀ s : State E, (iter env n s).ess = s.ess := by
  induction n with
  | zero => intro s; rfl
  | succ n ih => intro s; simp only [iter]; rw [ih, loopStep_ess]

theorem wf_exec (env : Env) (wf : WF env) (x : Id → Nat → Outcome) : WF { env with exec := x } :=
  ⟨wf.sub, wf.lat, wf.rtt, wf.cap⟩

theorem loopStep_uniform (env : Env) (wf : WF env) (s : State E) (hu : UniformOn env.owned s.P) :
    UniformOn env.owned (loopStep env s).P := by
  have hsub : ∀ i ∈ (cfgOf env s).selected, i ∈ (cfgOf env s).owned := fun i hi => selOf_sub env wf s i hi
  have hup : UniformOn env.owned (pass env s).P' :=
    uniform_preserved (cfgOf env s) (vis env s) s.now s.now env.exec hsub (vis_uniform env s hu)
  rcases loopStep_form env s with h | ⟨_, h⟩ | h | ⟨_, h⟩ | h | h | ⟨_, _, _, h⟩ <;> rw [h]
  · exact hu
  · exact hu
  · exact hu
  · exact remState_uniform env s _ hu
  · exact hup
  · exact purgeTurn_uniform env s hu
  · exact hup

theorem iter_uniform (env : Env) (wf : WF env) (n : Nat) :
    ∀ s : State E, UniformOn env.owned s.P → UniformOn env.owned (iter env n s).P := by
  induction n with
  | zero => intro s h; exact h
  | succ n ih => intro s h; simp only [iter]; exact ih _ (loopStep_uniform env wf s h)

/-! ### the quiescent state of an object that is not being deleted -/

/-- without a handler reason on an unmarked object the cause is the no-op: the stored last-handled
    state is the essence and nothing initial is outstanding -/
theorem not_handler_noop (s : State E) (hm : s.marked = false) (h : isHandler s = false) :
    (causeOf s).reason = .noop ∧ s.base = some s.ess ∧ (s.noticed && !s.fullyHandled) = false := by
  unfold isHandler causeOf C05.detect C05.detectReason at h
  unfold causeOf C05.detect C05.detectReason
  cases hb : s.base with
  | none => simp [hm, hb, C14.reasonStr] at h; exact absurd (by decide) h
  | some b =>
    by_cases hbe : b = s.ess
    · subst hbe
      cases hi : (s.noticed && !s.fullyHandled)
      · simp [hm, hi]
      · simp [hm, hb, hi, C14.reasonStr] at h; exact absurd (by decide) h
    · have : (some b ≠ some s.ess) := fun hh => hbe (Option.some.inj hh)
      simp [hm, hb, this, C14.reasonStr] at h; exact absurd (by decide) h

/-- an open pass with a handler reason always leaves an event pending: a PATCH or a sleep + touch -/
theorem open_handle_pending (env : Env) (s : State E) (hh : isHandler s = true)
    (hc : (pass env s).closed = false) :
    ∃ now' w, handleTurn env s = nextState env s now' true w := by
  have hr : handlerReasons.contains (cfgOf env s).reason = true := hh
  rcases handleTurn_cases env s with ⟨_, h⟩ | ⟨d, _, _, h⟩ | ⟨_, hm, _⟩
  · exact ⟨_, _, h⟩
  · exact ⟨_, _, h⟩
  · exfalso
    have hne : (cfgOf env s).selected.isEmpty = false := by
      cases he : (cfgOf env s).selected.isEmpty
      · rfl
      · exfalso
        have := cycle_no_handlers (cfgOf env s) (vis env s) s.now s.now env.exec hr he
        unfold pass at hc
        rw [this] at hc
        cases hc
    have hnil := minDelay_none _ hm
    unfold pass at hnil hc
    rw [cycle_main _ _ _ _ _ hr hne] at hnil hc
    exact delays_ne_nil _ _ _ hc hnil

theorem open_next (env : Env) (s : State E) (hp : s.pending = true) (hg : s.gone = false)
    (ha : adjusting env s = false) (hpm : env.prematch = true)
    (hh : isHandler s = true) (hc : (pass env s).closed = false) :
    ∃ now' w, loopStep env s = nextState env s now' true w := by
  rcases turn_cases env s hp hg with ⟨h1, _⟩ | ⟨h1, _⟩ | ⟨_, h1, _⟩ | ⟨_, _, _, _, hrel, _⟩ | ⟨_, _, hm1, hb1, _⟩ |
    ⟨_, _, _, _, _, h⟩
  rotate_right 2
  · -- FREE is no handler reason
    have := handler_marked_blocked s hh hm1
    rw [hb1] at this; cases this
  · obtain ⟨now', w, hx⟩ := open_handle_pending env s hh hc
    exact ⟨now', w, by rw [h, hx]⟩
  · unfold adjusting at ha; simp [h1] at ha
  · unfold adjusting at ha; simp [h1] at ha
  · rw [hpm] at h1; cases h1
  · -- a release needs a pass without delays; an open pass has some
    exfalso
    have hr : handlerReasons.contains (cfgOf env s).reason = true := hh
    have hne : (cfgOf env s).selected.isEmpty = false := by
      cases he : (cfgOf env s).selected.isEmpty
      · rfl
      · exfalso
        have := cycle_no_handlers (cfgOf env s) (vis env s) s.now s.now env.exec hr he
        unfold pass at hc
        rw [this] at hc
        cases hc
    have hd : (pass env s).delays ≠ [] := by
      unfold pass at hc ⊢
      rw [cycle_main _ _ _ _ _ hr hne] at hc ⊢
      exact delays_ne_nil _ _ _ hc
    have hrun : (decisionOf env s).handlersRun = true := by
      rw [dec_run]
      unfold adjusting at ha
      simp [hpm, ha]
    rw [dec_rel, hrun] at hrel
    cases hdl : (pass env s).delays with
    | nil => exact hd hdl
    | cons a as => simp [hdl] at hrel


/-- the cause string of the no-op -/
theorem noop_reason_str (env : Env) (s : State E) (h : (causeOf s).reason = .noop) :
    ((cfgOf env s).reason == "noop") = true := by
  show (C14.reasonStr (causeOf s).reason == "noop") = true
  rw [h]; decide

/-- without a handler reason, in a turn that reaches `process_changing_cause` and is not FREE, the object is not
    marked for deletion (a marked object is FREE or, held by the own finalizer, in DELETE) -/
theorem info_not_free_unmarked (s : State E) (hh : isHandler s = false) (hf : (causeOf s).reason ≠ .free) :
    s.marked = false := by
  cases hmk : s.marked
  · rfl
  · exfalso
    cases hbl : s.blocked
    · exact hf ((free_iff s).2 ⟨hmk, hbl⟩)
    · have : isHandler s = true := by
        unfold isHandler causeOf C05.detect C05.detectReason
        simp [hmk, hbl, C14.reasonStr]
        decide
      rw [this] at hh; cases hh

/-- A SETTLED state: what the loop leaves behind when it falls silent on an object that still exists. No progress
    record of any owned handler — on an object the framework sees (a BLIND one is not touched: ad4ec08); the finalizer
    needs no adjustment; an object in deletion is not held by the own
    finalizer; and — for an object the framework sees and that is not in deletion — the last-handled state is the
    essence and nothing initial is outstanding. (For a blind or FREE object the last-handled state is deliberately
    left alone: it is what makes the changes made meanwhile arrive as ONE accumulated update later.) -/
structure Settled (env : Env) (t : State E) : Prop where
  norec : env.prematch = true → ∀ i ∈ env.owned, t.P i = none
  adj : adjusting env t = false
  here : t.gone = false
  free : t.marked = true → t.blocked = false
  handled : env.prematch = true → t.marked = false →
    t.base = some t.ess ∧ (t.noticed && !t.fullyHandled) = false

/-- When a turn of the loop ends with no event pending on an object that still exists, the state is settled:
    whatever the object is — seen or blind, in deletion or not. -/
theorem quiescent_settled (env : Env) (s : State E) (hp : s.pending = true) (hg : s.gone = false)
    (hq : (loopStep env s).pending = false) (hg2 : (loopStep env s).gone = false) :
    Settled env (loopStep env s) := by
  rcases turn_cases env s hp hg with ⟨_, _, _, _, h⟩ | ⟨_, _, h⟩ | ⟨ha, hpm, h⟩ | ⟨_, _, _, _, _, h⟩ |
    ⟨ha, hpm, hmk, hbl, h⟩ | ⟨ha, hpm, _, hcm, hfr, h⟩
  · rw [h] at hq; cases hq
  · -- the removing turn leaves an event pending unless the object is gone with it
    rw [h] at hq hg2
    have h1 : (!(s.marked && !env.foreignFins)) = false := hq
    have h2 : (s.marked && !env.foreignFins) = false := hg2
    rw [h2] at h1; cases h1
  · -- blind: nothing is touched
    rw [h]
    refine ⟨fun h1 => (by rw [hpm] at h1; cases h1), (adjusting_congr env s _ rfl rfl).trans ha, hg, ?_, ?_⟩
    · intro _
      show s.blocked = false
      rw [adjusting_eq] at ha
      simp [hpm] at ha
      exact ha
    · intro h1; rw [hpm] at h1; cases h1
  · rw [h] at hq hg2
    have h1 : env.foreignFins = false := hq
    have h2 : (!env.foreignFins) = false := hg2
    rw [h1] at h2; cases h2
  · -- FREE: quiescent only with nothing to purge
    rw [h] at hq ⊢
    rcases purgeTurn_cases env s with ⟨_, h'⟩ | ⟨hl, h'⟩
    · rw [h'] at hq; cases hq
    · rw [h']
      refine ⟨fun _ => norec_of_leftovers_false env s hl, (adjusting_congr env s _ rfl rfl).trans ha, hg, fun _ => hbl, ?_⟩
      intro _ h2
      have : s.marked = false := h2
      rw [hmk] at this; cases this
  · have hadjN : ∀ now' pend w, adjusting env (nextState env s now' pend w) = false := by
      intro now' pend w
      exact (adjusting_congr env s _ rfl rfl).trans ha
    rcases handleTurn_cases env s with ⟨_, h'⟩ | ⟨d, _, _, h'⟩ | ⟨hch, hm, h'⟩
    · rw [h, h'] at hq; cases hq
    · rw [h, h'] at hq; cases hq
    · rw [h, h']
      by_cases hc : (pass env s).closed = true
      · have hmk := hcm hc
        have hh : isHandler s = true := by
          cases hh : isHandler s
          · have := (cycle_not_handler_reason_invoked (cfgOf env s) (vis env s) s.now s.now env.exec hh).2
            unfold pass at hc
            rw [this] at hc; cases hc
          · rfl
        have hnone : ∀ i ∈ env.owned, (pass env s).P' i = none := by
          cases he : (cfgOf env s).selected.isEmpty
          · exact closed_purges (cfgOf env s) (vis env s) s.now s.now env.exec hh he hc
          · exact (closed_purges_skip (cfgOf env s) (vis env s) s.now s.now env.exec hh he).2
        refine ⟨fun _ => hnone, hadjN _ _ _, hg, ?_, ?_⟩
        · intro h1
          have : s.marked = true := h1
          rw [hmk] at this; cases this
        · intro _ _
          exact ⟨by simp [nextState, hc], by simp [nextState, hc]⟩
      · have hc' : (pass env s).closed = false := by simpa using hc
        by_cases hh : isHandler s = true
        · obtain ⟨now', w, hx⟩ := open_handle_pending env s hh hc'
          rw [h, hx] at hq; cases hq
        · have hh' : isHandler s = false := by simpa using hh
          have hmk := info_not_free_unmarked s hh' hfr
          obtain ⟨hr, h1, h2⟩ := not_handler_noop s hmk hh'
          have hr' : handlerReasons.contains (cfgOf env s).reason = false := hh'
          have hnone : ∀ i ∈ env.owned, (pass env s).P' i = none := by
            intro i hi
            unfold pass
            rw [cycle_not_handler_reason _ _ _ _ _ hr']
            simp [noop_reason_str env s hr, purge, show i ∈ (cfgOf env s).owned from hi]
          refine ⟨fun _ => hnone, hadjN _ _ _, hg, ?_, ?_⟩
          · intro h3
            have : s.marked = true := h3
            rw [hmk] at this; cases this
          · intro _ _
            exact ⟨by simp [nextState, hc', h1], by simp [nextState, hc', h2]⟩

/-- in a settled state a (re-)delivered event is processed without any write (but the constant part of the patch)
    and leaves nothing pending; records and last-handled state stay as they are -/
theorem settled_event_no_write (env : Env) (t : State E) (hs : Settled env t) :
    (loopStep env { t with pending := true }).writes = t.writes + cp env ∧
    (loopStep env { t with pending := true }).pending = false ∧
    (loopStep env { t with pending := true }).base = t.base ∧
    ∀ i, (loopStep env { t with pending := true }).P i = t.P i := by
  obtain ⟨hn0, ha, hg, hfree, hhand⟩ := hs
  have ha' : adjusting env ({ t with pending := true } : State E) = false :=
    (adjusting_congr env t _ rfl rfl).trans ha
  have hpurge : env.prematch = true → purgeTurn env ({ t with pending := true } : State E) =
      { t with pending := false, writes := t.writes + cp env } := by
    intro hpm
    have hl : leftovers env ({ t with pending := true } : State E) = false :=
      leftovers_false_of_norec env _ (hn0 hpm)
    rcases purgeTurn_cases env ({ t with pending := true } : State E) with ⟨h1, _⟩ | ⟨_, h1⟩
    · rw [hl] at h1; cases h1
    · exact h1
  rcases turn_cases env ({ t with pending := true } : State E) rfl hg with
    ⟨h1, _⟩ | ⟨h1, _⟩ | ⟨_, _, h⟩ | ⟨_, _, h1, h2, _⟩ | ⟨_, hpm, _, _, h⟩ | ⟨_, hpm, _, _, hfr, h⟩
  · unfold adjusting at ha'; simp [h1] at ha'
  · unfold adjusting at ha'; simp [h1] at ha'
  · rw [h]; exact ⟨rfl, rfl, rfl, fun _ => rfl⟩
  · have := hfree h1
    have h2' : t.blocked = true := h2
    rw [this] at h2'; cases h2'
  · rw [h, hpurge hpm]; exact ⟨rfl, rfl, rfl, fun _ => rfl⟩
  · have hn := hn0 hpm
    have hmk : t.marked = false := by
      cases hmk : t.marked
      · rfl
      · exfalso
        exact hfr ((free_iff _).2 ⟨hmk, hfree hmk⟩)
    obtain ⟨hb, hi⟩ := hhand hpm hmk
    have hh : isHandler ({ t with pending := true } : State E) = false := by
      unfold isHandler causeOf
      simp [hb, hi, hmk, C05.detect, C05.detectReason, C14.reasonStr]
      decide
    have hr : handlerReasons.contains (cfgOf env ({ t with pending := true } : State E)).reason = false := hh
    have hid : ∀ j, (pass env ({ t with pending := true } : State E)).P' j = t.P j := by
      intro j
      rw [pass_eq, vis_info env _ hh]
      exact noop_pass_id hr hn j
    have hcl : (pass env ({ t with pending := true } : State E)).closed = false :=
      (cycle_not_handler_reason_invoked _ _ _ _ _ hr).2
    have hdl : (pass env ({ t with pending := true } : State E)).delays = [] := by
      unfold pass; rw [cycle_not_handler_reason _ _ _ _ _ hr]
    have hnc : changedOf env ({ t with pending := true } : State E) = false := by
      unfold changedOf
      simp [hid, hcl]
    rcases handleTurn_cases env ({ t with pending := true } : State E) with ⟨h', _⟩ | ⟨d, _, hm, _⟩ | ⟨_, _, h'⟩
    · rw [hnc] at h'; cases h'
    · rw [hdl] at hm; simp [minDelay] at hm
    · rw [h, h']
      exact ⟨rfl, rfl, by simp [nextState, hcl], hid⟩

/-! ### the quiescent state of an object that is being deleted -/

/-- a turn on a marked object either keeps it marked, blocked and pending — or ends with the own
    finalizer removed (and the object gone unless somebody else's finalizer holds it) -/
theorem marked_step (env : Env) (s : State E) (hp : s.pending = true) (hg : s.gone = false)
    (hmk : s.marked = true) (hbl : s.blocked = true) :
    ((loopStep env s).pending = true ∧ (loopStep env s).gone = false ∧ (loopStep env s).marked = true ∧
      (loopStep env s).blocked = true) ∨
    ((loopStep env s).blocked = false ∧ (loopStep env s).gone = !env.foreignFins) := by
  rcases turn_cases env s hp hg with ⟨_, h1, _⟩ | ⟨_, _, h⟩ | ⟨ha, hpm, _⟩ | ⟨_, _, _, _, _, h⟩ | ⟨_, _, _, h1, _⟩ |
    ⟨_, _, hrel, hcm, _, h⟩
  · rw [hmk] at h1; cases h1
  · right; rw [h]; simp [remState, hmk]
  · -- blind and blocked: the finalizer is unneeded, so this turn would have removed it
    exfalso
    rw [adjusting_eq] at ha
    simp [hpm, hbl] at ha
  · right; rw [h]; simp [releaseTurn]
  · rw [hbl] at h1; cases h1
  · left
    have hh : isHandler s = true := by
      unfold isHandler causeOf C05.detect C05.detectReason
      simp [hmk, hbl, C14.reasonStr]
      decide
    have hc : (pass env s).closed = false := by
      cases hc : (pass env s).closed
      · rfl
      · have := hcm hc; rw [hmk] at this; cases this
    obtain ⟨now', w, hx⟩ := open_handle_pending env s hh hc
    rw [h, hx]
    exact ⟨rfl, hg, hmk, hbl⟩

/-- a turn on an object in deletion that the own finalizer does not hold (FREE) touches neither the finalizer nor
    the object's existence -/
theorem free_step (env : Env) (t : State E) (hb : t.blocked = false) (hm : t.marked = true) :
    (loopStep env t).blocked = false ∧ (loopStep env t).gone = t.gone ∧ (loopStep env t).marked = true := by
  refine ⟨?_, ?_, by rw [loopStep_marked]; exact hm⟩
  all_goals
    by_cases hp : t.pending = true
    rotate_left
    · rw [loopStep_quiescent env t (by simpa using hp)]; try exact hb
    by_cases hg : t.gone = true
    · have : loopStep env t = { t with pending := false } := by unfold loopStep; simp [hp, hg]
      rw [this]; try exact hb
    rcases turn_cases env t hp (by simpa using hg) with ⟨_, h1, _⟩ | ⟨_, h1, _⟩ | ⟨_, _, h⟩ | ⟨_, _, _, h1, _⟩ |
      ⟨_, _, _, _, h⟩ | ⟨_, _, _, _, hfr, _⟩
    · rw [hm] at h1; cases h1
    · rw [hb] at h1; cases h1
    · rw [h]
      first
        | exact hb
        | rfl
    · rw [hb] at h1; cases h1
    · rw [h]
      first
        | exact (purgeTurn_fields env t).2.2.2.1.trans hb
        | exact (purgeTurn_fields env t).2.2.2.2.1
    · exact absurd ((free_iff t).2 ⟨hm, hb⟩) hfr

/-- what the turn without handlers on a FREE object does: the last-handled state is left alone; afterwards no owned
    record is on the object; with leftovers one PATCH goes out and its echo is pending, without them nothing is
    written (but the constant part of the patch) and nothing is pending -/
theorem purgeTurn_spec (env : Env) (s : State E) :
    (purgeTurn env s).base = s.base ∧ (∀ i ∈ env.owned, (purgeTurn env s).P i = none) ∧
    (leftovers env s = true → (purgeTurn env s).pending = true ∧ (purgeTurn env s).writes = s.writes + 1) ∧
    (leftovers env s = false → (purgeTurn env s).pending = false ∧
      (purgeTurn env s).writes = s.writes + cp env ∧ (purgeTurn env s).P = s.P) := by
  rcases purgeTurn_cases env s with ⟨hl, h⟩ | ⟨hl, h⟩ <;> rw [h]
  · exact ⟨rfl, fun i hi => purged_owned env s hi, fun _ => ⟨rfl, rfl⟩, (fun h' => by rw [hl] at h'; cases h')⟩
  · exact ⟨rfl, norec_of_leftovers_false env s hl, (fun h' => by rw [hl] at h'; cases h'), fun _ => ⟨rfl, rfl, rfl⟩⟩

/-- an object that is not marked for deletion does not go away by a turn of the loop -/
theorem unmarked_stays (env : Env) (s : State E) (hg : s.gone = false) (hmk : s.marked = false) :
    (loopStep env s).gone = false := by
  by_cases hp : s.pending = true
  rotate_left
  · rw [loopStep_quiescent env s (by simpa using hp)]; exact hg
  rcases turn_cases env s hp hg with ⟨_, _, _, _, h⟩ | ⟨_, _, h⟩ | ⟨_, _, h⟩ | ⟨_, _, h1, _⟩ | ⟨_, _, h1, _⟩ |
    ⟨_, _, _, _, _, h⟩
  · rw [h]; exact hg
  · rw [h]; simp [remState, hmk]
  · rw [h]; exact hg
  · rw [hmk] at h1; cases h1
  · rw [hmk] at h1; cases h1
  · rw [h]
    rcases handleTurn_cases env s with ⟨_, h'⟩ | ⟨d, _, _, h'⟩ | ⟨_, _, h'⟩ <;> rw [h'] <;> exact hg

theorem iter_unmarked_stays (env : Env) (n : Nat) :
    ∀ s : State E, s.gone = false → s.marked = false → (iter env n s).gone = false := by
  induction n with
  | zero => intro s h _; exact h
  | succ n ih =>
    intro s hg hmk
    simp only [iter]
    exact ih _ (unmarked_stays env s hg hmk) (by rw [loopStep_marked]; exact hmk)

/-! ### once closed, closed: informational causes stay -/

theorem isHandler_nextState (env : Env) (s : State E) (hcl : (pass env s).closed = false)
    (a : Tick) (b : Bool) (c : Nat) : isHandler (nextState env s a b c) = isHandler s := by
  have hc : causeOf (nextState env s a b c) = causeOf s :=
    causeOf_congr s _ (by simp [nextState, hcl]) rfl rfl (by simp [nextState, hcl]) rfl rfl
  unfold isHandler; rw [hc]

/-- inside an open cycle nothing is left out any more: after an open pass every record carries this cause's purpose -/
theorem vis_nextState (env : Env) (wf : WF env) (s : State E) (hh : isHandler s = true)
    (hc : (pass env s).closed = false) (a : Tick) (b : Bool) (c : Nat) :
    vis env (nextState env s a b c) = (pass env s).P' := by
  have hsub : ∀ i ∈ (cfgOf env s).selected, i ∈ (cfgOf env s).owned := fun i hi => selOf_sub env wf s i hi
  have hne : (cfgOf env s).selected.isEmpty = false := by
    cases he : (cfgOf env s).selected.isEmpty
    · rfl
    · exfalso
      have := cycle_no_handlers (cfgOf env s) (vis env s) s.now s.now env.exec hh he
      rw [pass_eq, this] at hc
      cases hc
  have hcz : causeOf (nextState env s a b c) = causeOf s :=
    causeOf_congr s _ (by simp [nextState, hc]) rfl rfl (by simp [nextState, hc]) rfl rfl
  have h0 := noExtras_after (cfgOf env s) (vis env s) s.now s.now env.exec hsub hh hne
  apply vis_of_noExtras env (nextState env s a b c)
  intro i ho r hPi
  have := h0 i ho r hPi
  show r.purpose = none ∨ r.purpose = some (C14.reasonStr (causeOf (nextState env s a b c)).reason)
  rw [hcz]
  exact this

theorem info_stays (env : Env) (s : State E) (hh : isHandler s = false) : isHandler (loopStep env s) = false := by
  have hr : handlerReasons.contains (cfgOf env s).reason = false := hh
  have hcl : (pass env s).closed = false := (cycle_not_handler_reason_invoked _ _ _ _ _ hr).2
  by_cases hp : s.pending = true
  rotate_left
  · rw [loopStep_quiescent env s (by simpa using hp)]; exact hh
  by_cases hg : s.gone = true
  · have : loopStep env s = { s with pending := false } := by unfold loopStep; simp [hp, hg]
    rw [this]; exact hh
  have hg' : s.gone = false := by simpa using hg
  rcases turn_cases env s hp hg' with ⟨_, hm, _, _, h⟩ | ⟨_, _, h⟩ | ⟨_, _, h⟩ | ⟨_, _, hm, _, _, h⟩ | ⟨_, _, _, _, h⟩ |
    ⟨_, _, _, _, _, h⟩
  · have := causeOf_unmarked s (addState env s) rfl rfl rfl rfl hm hm
    rw [h]; unfold isHandler; rw [this]; exact hh
  · rw [h]
    cases hm : s.marked
    · have := causeOf_unmarked s (remState env s (false && !env.foreignFins)) rfl rfl rfl rfl hm hm
      unfold isHandler; rw [this]; exact hh
    · unfold isHandler causeOf C05.detect C05.detectReason
      simp [remState, hm, C14.reasonStr]
      decide
  · rw [h]; exact hh
  · rw [h]
    unfold isHandler causeOf C05.detect C05.detectReason
    simp [releaseTurn, nextState, hm, C14.reasonStr]
    decide
  · rw [h]; unfold isHandler; rw [purgeTurn_causeOf]; exact hh
  · rw [h]
    rcases handleTurn_cases env s with ⟨_, h'⟩ | ⟨d, _, _, h'⟩ | ⟨_, _, h'⟩ <;>
      rw [h', isHandler_nextState env s hcl] <;> exact hh

theorem gone_stays (env : Env) (s : State E) (hg : s.gone = true) : (loopStep env s).gone = true := by
  unfold loopStep
  by_cases hp : s.pending = true <;> simp [hp, hg]

theorem iter_gone (env : Env) (n : Nat) : ∀ s : State E, s.gone = true → (iter env n s).gone = true := by
  induction n with
  | zero => intro s h; exact h
  | succ n ih => intro s h; simp only [iter]; exact ih _ (gone_stays env s h)

theorem closings_zero (env : Env) (n : Nat) :
    ∀ s : State E, (s.gone = true ∨ isHandler s = false) → closings env n s = 0 := by
  induction n with
  | zero => intro s _; rfl
  | succ n ih =>
    intro s h
    simp only [closings]
    have h0 : (if (s.pending && !s.gone && (decisionOf env s).handlersRun && (pass env s).closed) = true
        then 1 else 0) = 0 := by
      rcases h with hg | hh
      · simp [hg]
      · have hr : handlerReasons.contains (cfgOf env s).reason = false := hh
        have hc : (pass env s).closed = false :=
          (cycle_not_handler_reason_invoked (cfgOf env s) (vis env s) s.now s.now env.exec hr).2
        simp [hc]
    rw [h0, Nat.zero_add]
    apply ih
    rcases h with hg | hh
    · exact Or.inl (gone_stays env s hg)
    · exact Or.inr (info_stays env s hh)

/-- after a closing turn the object is gone or its cause is informational -/
theorem after_closing (env : Env) (s : State E) (hp : s.pending = true) (hg : s.gone = false)
    (hrun : (decisionOf env s).handlersRun = true) (hc : (pass env s).closed = true) :
    (loopStep env s).gone = true ∨ isHandler (loopStep env s) = false := by
  rcases turn_cases env s hp hg with ⟨h1, _⟩ | ⟨h1, _⟩ | ⟨_, h1, _⟩ | ⟨_, _, hmk, _, _, h⟩ | ⟨_, _, hm1, hb1, _⟩ |
    ⟨_, _, _, hcm, _, h⟩
  · rw [dec_run, h1] at hrun; simp at hrun
  · rw [dec_run, h1] at hrun; simp at hrun
  · rw [dec_run, h1] at hrun; simp at hrun
  · right
    rw [h]
    unfold isHandler causeOf C05.detect C05.detectReason
    simp [releaseTurn, nextState, hmk, C14.reasonStr]
    decide
  · -- FREE is no handler reason: its pass closes nothing
    exfalso
    have hh : isHandler s = false := by
      cases hh : isHandler s
      · rfl
      · have := handler_marked_blocked s hh hm1
        rw [hb1] at this; cases this
    have := (cycle_not_handler_reason_invoked (cfgOf env s) (vis env s) s.now s.now env.exec hh).2
    unfold pass at hc
    rw [this] at hc; cases hc
  · right
    have hmk := hcm hc
    rw [h]
    rcases handleTurn_cases env s with ⟨_, h'⟩ | ⟨d, _, _, h'⟩ | ⟨_, _, h'⟩ <;> rw [h'] <;>
      exact closed_next_not_handler _ hmk (by simp [nextState, hc]) (by simp [nextState, hc])

/-! ### the invocations of the following turns, and C02's pass sequence -/

def toSteps (env : Env) : List (Tick × List Id) → List C02.StepV
  | [] => []
  | (a, l) :: rest => ⟨a, a, env.exec, l, env.limits, env.lifecycle⟩ :: toSteps env rest

theorem invs_eq (env : Env) (wf : WF env) (hpm : env.prematch = true) (n : Nat) :
    ∀ (s : State E), s.pending = true → s.gone = false → adjusting env s = false → isHandler s = true →
      invsOf env n s = invokedSeqV env.owned (C14.reasonStr (causeOf s).reason) (vis env s) (toSteps env (stepsOf env n s)) := by
  induction n with
  | zero => intro s _ _ _ _; rfl
  | succ n ih =>
    intro s hp hg ha hh
    simp only [invsOf, stepsOf, toSteps, invokedSeqV]
    show (pass env s).invoked :: _ = (pass env s).invoked :: _
    congr 1
    cases hc : (pass env s).closed
    · have hc2 : (cycle (cfgOf env s) (vis env s) s.now s.now env.exec).closed = false := hc
      have hc3 : (cycle (cfgAt env.owned (C14.reasonStr (causeOf s).reason)
          ⟨s.now, s.now, env.exec, selOf env s, env.limits, env.lifecycle⟩) (vis env s) s.now s.now env.exec).closed = false := hc
      simp only [hc3, Bool.false_eq_true, if_false]
      obtain ⟨now', w, h⟩ := open_next env s hp hg ha hpm hh hc
      have hcz : causeOf (loopStep env s) = causeOf s := by
        rw [h]; exact causeOf_congr s _ (by simp [nextState, hc]) rfl rfl (by simp [nextState, hc]) rfl rfl
      have hh' : isHandler (loopStep env s) = true := by unfold isHandler; rw [hcz]; exact hh
      have hp' : (loopStep env s).pending = true := by rw [h]; rfl
      have hg' : (loopStep env s).gone = false := by rw [h]; exact hg
      have ha' : adjusting env (loopStep env s) = false := by
        rw [h, adjusting_eq]
        show ((env.prematch && env.changeReq && !s.blocked && !s.marked) ||
              (!(env.prematch && env.changeReq) && s.blocked)) = false
        rw [← adjusting_eq]; exact ha
      have hP : (loopStep env s).P = (cycle (cfgOf env s) (vis env s) s.now s.now env.exec).P' := by rw [h]; rfl
      have hsub : ∀ i ∈ (cfgOf env s).selected, i ∈ (cfgOf env s).owned := fun i hi => selOf_sub env wf s i hi
      have hne : (cfgOf env s).selected.isEmpty = false := by
        cases he : (cfgOf env s).selected.isEmpty
        · rfl
        · exfalso
          have := cycle_no_handlers (cfgOf env s) (vis env s) s.now s.now env.exec hh he
          rw [this] at hc2
          cases hc2
      -- inside the open cycle nothing is left out any more: every record carries this cause's purpose
      have hV : vis env (loopStep env s) = (loopStep env s).P := by
        apply vis_of_noExtras
        have h0 := noExtras_after (cfgOf env s) (vis env s) s.now s.now env.exec hsub hh hne
        intro i ho r hPi
        rw [hP] at hPi
        have := h0 i ho r hPi
        show r.purpose = none ∨ r.purpose = some (C14.reasonStr (causeOf (loopStep env s)).reason)
        rw [hcz]
        exact this
      rw [ih (loopStep env s) hp' hg' ha' hh', hcz, hV, hP]
      rfl
    · have hc3 : (cycle (cfgAt env.owned (C14.reasonStr (causeOf s).reason)
          ⟨s.now, s.now, env.exec, selOf env s, env.limits, env.lifecycle⟩) (vis env s) s.now s.now env.exec).closed = true := hc
      simp [hc3]

theorem toSteps_sub (env : Env) (wf : WF env) (k : Nat) :
    ∀ (t : State E), ∀ st ∈ toSteps env (stepsOf env k t), ∀ i ∈ st.selected, i ∈ env.owned := by
  induction k with
  | zero => intro t st h; simp [stepsOf, toSteps] at h
  | succ k ih =>
    intro t st h i hi
    simp only [stepsOf, toSteps, List.mem_cons] at h
    rcases h with rfl | h
    · exact selOf_sub env wf t i hi
    · exact ih _ st h i hi

omit [DecidableEq E] in
theorem applyEdits_fields (es : List E) : ∀ (s : State E),
    (applyEdits s es).base = s.base ∧ (applyEdits s es).P = s.P ∧
    (applyEdits s es).marked = s.marked ∧ (applyEdits s es).blocked = s.blocked ∧
    (applyEdits s es).gone = s.gone ∧
    (applyEdits s es).ess = (es.getLast?).getD s.ess := by
  induction es with
  | nil => intro s; exact ⟨rfl, rfl, rfl, rfl, rfl, rfl⟩
  | cons e rest ih =>
    intro s
    have := ih { s with ess := e }
    simp only [applyEdits, List.foldl_cons] at this ⊢
    refine ⟨this.1, this.2.1, this.2.2.1, this.2.2.2.1, this.2.2.2.2.1, ?_⟩
    rw [this.2.2.2.2.2]
    cases rest with
    | nil => rfl
    | cons a as =>
      cases h : (a :: as).getLast? with
      | none => simp at h
      | some v => simp [List.getLast?_cons_cons, h]

/-! ### histories -/

theorem act_uniform (env : Env) (wf : WF env) (s : State E) (a : Act E) (hu : UniformOn env.owned s.P) :
    UniformOn env.owned (act env s a).P := by
  cases a with
  | turn x => exact loopStep_uniform { env with exec := x } (wf_exec env wf x) s hu
  | edit e t => simp only [act]; split <;> exact hu
  | delete t =>
    simp only [act]
    split
    · exact hu
    · split <;> exact hu
  | restart t => exact hu
  | lostWrite x t => exact hu

theorem runActs_uniform (env : Env) (wf : WF env) (acts : List (Act E)) :
    ∀ s : State E, UniformOn env.owned s.P → UniformOn env.owned (runActs env s acts).P := by
  induction acts with
  | nil => intro s h; exact h
  | cons a rest ih =>
    intro s h
    simp only [runActs, List.foldl_cons]
    exact ih _ (act_uniform env wf s a h)


theorem runActsV_uniform (owned : List Id) (hist : List (Env × Act E)) :
    (∀ ea ∈ hist, WF ea.1 ∧ ea.1.owned = owned) →
    ∀ s : State E, UniformOn owned s.P → UniformOn owned (runActsV s hist).P := by
  induction hist with
  | nil => intro _ s h; exact h
  | cons ea rest ih =>
    intro hall s h
    simp only [runActsV, List.foldl_cons]
    have h1 := hall ea (by simp)
    have hstep : UniformOn owned (act ea.1 s ea.2).P := by
      have := act_uniform ea.1 h1.1 s ea.2 (by rw [h1.2]; exact h)
      rw [h1.2] at this; exact this
    exact ih (fun x hx => hall x (by simp [hx])) _ hstep

end Kopf.C03
