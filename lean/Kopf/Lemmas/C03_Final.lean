/-
  Lemmas about what a turn of the loop preserves, about the quiescent state, and about histories.
-/
import Kopf.Lemmas.C03_Turn
namespace Kopf.C03
open Kopf Kopf.C02

variable {E : Type} [DecidableEq E]

/-! ### shape of a turn; what it preserves -/

theorem loopStep_form (env : Env) (s : State E) :
    loopStep env s = s ∨ loopStep env s = { s with pending := false } ∨ loopStep env s = addState env s ∨
    (∃ g, loopStep env s = remState env s g) ∨ loopStep env s = releaseTurn env s ∨
    ∃ now' pend w, loopStep env s = nextState env s now' pend w := by
  by_cases hp : s.pending = true
  rotate_left
  · left; unfold loopStep; simp [hp]
  by_cases hg : s.gone = true
  · right; left; unfold loopStep; simp [hp, hg]
  have hg' : s.gone = false := by simpa using hg
  rcases turn_cases env s hp hg' with ⟨_, _, _, _, h⟩ | ⟨_, _, h⟩ | ⟨_, _, h⟩ | ⟨_, _, _, _, _, h⟩ | ⟨_, _, _, _, h⟩
  · exact Or.inr (Or.inr (Or.inl h))
  · exact Or.inr (Or.inr (Or.inr (Or.inl ⟨_, h⟩)))
  · exact Or.inr (Or.inl h)
  · exact Or.inr (Or.inr (Or.inr (Or.inr (Or.inl h))))
  · right; right; right; right; right
    rw [h]
    rcases handleTurn_cases env s with ⟨_, h'⟩ | ⟨d, _, _, h'⟩ | ⟨_, _, h'⟩ <;> exact ⟨_, _, _, h'⟩

theorem loopStep_ess (env : Env) (s : State E) : (loopStep env s).ess = s.ess := by
  rcases loopStep_form env s with h | h | h | ⟨_, h⟩ | h | ⟨_, _, _, h⟩ <;> rw [h] <;> rfl

theorem loopStep_noticed (env : Env) (s : State E) : (loopStep env s).noticed = s.noticed := by
  rcases loopStep_form env s with h | h | h | ⟨_, h⟩ | h | ⟨_, _, _, h⟩ <;> rw [h] <;> rfl

theorem loopStep_marked (env : Env) (s : State E) : (loopStep env s).marked = s.marked := by
  rcases loopStep_form env s with h | h | h | ⟨_, h⟩ | h | ⟨_, _, _, h⟩ <;> rw [h] <;> rfl

theorem loopStep_quiescent (env : Env) (s : State E) (h : s.pending = false) : loopStep env s = s := by
  unfold loopStep; simp [h]

theorem iter_quiescent (env : Env) (n : Nat) (s : State E) (h : s.pending = false) : iter env n s = s := by
  induction n with
  | zero => rfl
  | succ n ih => simp only [iter, loopStep_quiescent env s h]; exact ih

theorem iter_ess (env : Env) (n : Nat) : ∀ s : State E, (iter env n s).ess = s.ess := by
  induction n with
  | zero => intro s; rfl
  | succ n ih => intro s; simp only [iter]; rw [ih, loopStep_ess]

theorem wf_exec (env : Env) (wf : WF env) (x : Id → Nat → Outcome) : WF { env with exec := x } :=
  ⟨wf.sub, wf.lat, wf.cap⟩

theorem loopStep_uniform (env : Env) (wf : WF env) (s : State E) (hu : UniformOn env.owned s.P) :
    UniformOn env.owned (loopStep env s).P := by
  have hsub : ∀ i ∈ (cfgOf env s).selected, i ∈ (cfgOf env s).owned := fun i hi => wf.sub _ i hi
  have hup : UniformOn env.owned (pass env s).P' :=
    uniform_preserved (cfgOf env s) s.P s.now s.now env.exec hsub hu
  rcases loopStep_form env s with h | h | h | ⟨_, h⟩ | h | ⟨_, _, _, h⟩ <;> rw [h]
  · exact hu
  · exact hu
  · exact hu
  · exact hu
  · exact hup
  · exact hup

theorem iter_uniform (env : Env) (wf : WF env) (n : Nat) :
    ∀ s : State E, UniformOn env.owned s.P → UniformOn env.owned (iter env n s).P := by
  induction n with
  | zero => intro s h; exact h
  | succ n ih => intro s h; simp only [iter]; exact ih _ (loopStep_uniform env wf s h)

/-! ### the quiescent state of an object that is not being deleted -/

/-- without a handler reason on an unmarked object the cause is the no-op: the stored last-handled
    state is the essence and nothing initial is outstanding -/
theorem not_handler_noop (s : State E) (hm : s.marked = false) (h : isHandler s = false) :
    (causeOf s).reason = .noop ∧ s.base = some s.ess ∧ (s.noticed && !s.fullyHandled) = false := by
  unfold isHandler causeOf C05.detect C05.detectReason at h
  unfold causeOf C05.detect C05.detectReason
  cases hb : s.base with
  | none => simp [hm, hb, C14.reasonStr] at h; exact absurd (by decide) h
  | some b =>
    by_cases hbe : b = s.ess
    · subst hbe
      cases hi : (s.noticed && !s.fullyHandled)
      · simp [hm, hi]
      · simp [hm, hb, hi, C14.reasonStr] at h; exact absurd (by decide) h
    · have : (some b ≠ some s.ess) := fun hh => hbe (Option.some.inj hh)
      simp [hm, hb, this, C14.reasonStr] at h; exact absurd (by decide) h

/-- an open pass with a handler reason always leaves an event pending: a PATCH or a sleep + touch -/
theorem open_handle_pending (env : Env) (s : State E) (hh : isHandler s = true)
    (hc : (pass env s).closed = false) :
    ∃ now' w, handleTurn env s = nextState env s now' true w := by
  have hr : handlerReasons.contains (cfgOf env s).reason = true := hh
  rcases handleTurn_cases env s with ⟨_, h⟩ | ⟨d, _, _, h⟩ | ⟨_, hm, _⟩
  · exact ⟨_, _, h⟩
  · exact ⟨_, _, h⟩
  · exfalso
    have hne : (cfgOf env s).selected.isEmpty = false := by
      cases he : (cfgOf env s).selected.isEmpty
      · rfl
      · exfalso
        have := cycle_no_handlers (cfgOf env s) s.P s.now s.now env.exec hr he
        unfold pass at hc
        rw [this] at hc
        cases hc
    have hnil := minDelay_none _ hm
    unfold pass at hnil hc
    rw [cycle_main _ _ _ _ _ hr hne] at hnil hc
    exact delays_ne_nil _ _ _ hc hnil

theorem open_next (env : Env) (s : State E) (hp : s.pending = true) (hg : s.gone = false)
    (ha : adjusting env s = false) (hpm : env.prematch = true)
    (hh : isHandler s = true) (hc : (pass env s).closed = false) :
    ∃ now' w, loopStep env s = nextState env s now' true w := by
  rcases turn_cases env s hp hg with ⟨h1, _⟩ | ⟨h1, _⟩ | ⟨_, h1, _⟩ | ⟨_, _, _, _, hrel, _⟩ | ⟨_, _, _, _, h⟩
  · unfold adjusting at ha; simp [h1] at ha
  · unfold adjusting at ha; simp [h1] at ha
  · rw [hpm] at h1; cases h1
  · -- a release needs a pass without delays; an open pass has some
    exfalso
    have hr : handlerReasons.contains (cfgOf env s).reason = true := hh
    have hne : (cfgOf env s).selected.isEmpty = false := by
      cases he : (cfgOf env s).selected.isEmpty
      · rfl
      · exfalso
        have := cycle_no_handlers (cfgOf env s) s.P s.now s.now env.exec hr he
        unfold pass at hc
        rw [this] at hc
        cases hc
    have hd : (pass env s).delays ≠ [] := by
      unfold pass at hc ⊢
      rw [cycle_main _ _ _ _ _ hr hne] at hc ⊢
      exact delays_ne_nil _ _ _ hc
    have hrun : (decisionOf env s).handlersRun = true := by
      rw [dec_run]
      unfold adjusting at ha
      simp [hpm, ha]
    rw [dec_rel, hrun] at hrel
    cases hdl : (pass env s).delays with
    | nil => exact hd hdl
    | cons a as => simp [hdl] at hrel
  · obtain ⟨now', w, hx⟩ := open_handle_pending env s hh hc
    exact ⟨now', w, by rw [h, hx]⟩

end Kopf.C03
