/-
  C04 — annotations under a prefix that is marked as belonging to a Kopf-based operator never reach
  the essence, whatever else happens to them (set, changed, removed).
-/
import Kopf.Lemmas.C04_Essence
namespace Kopf.C04
open Kopf Kopf.J

/-! ### `key.split('/', 1)` and `startswith(prefix + '/')` -/

theorem splitSlash_spec : ∀ (cs p n : List Char), splitSlash cs = some (p, n) → '/' ∉ p ∧ cs = p ++ '/' :: n
  | [], _, _, h => by simp [splitSlash] at h
  | c :: cs, p, n, h => by
    by_cases hc : c = '/'
    · subst hc
      simp [splitSlash] at h
      obtain ⟨rfl, rfl⟩ := h
      simp
    · simp only [splitSlash, if_neg hc] at h
      cases hs : splitSlash cs with
      | none => rw [hs] at h; simp at h
      | some pn =>
        obtain ⟨p1, n1⟩ := pn
        rw [hs] at h
        simp at h
        obtain ⟨rfl, rfl⟩ := h
        obtain ⟨h1, h2⟩ := splitSlash_spec cs p1 n1 hs
        refine ⟨?_, by simp [h2]⟩
        intro hm
        rcases List.mem_cons.1 hm with hm | hm
        · exact hc hm.symm
        · exact h1 hm

theorem splitSlash_none : ∀ (cs : List Char), splitSlash cs = none → '/' ∉ cs
  | [], _ => by simp
  | c :: cs, h => by
    by_cases hc : c = '/'
    · subst hc; simp [splitSlash] at h
    · simp only [splitSlash, if_neg hc] at h
      cases hs : splitSlash cs with
      | some pn => rw [hs] at h; simp at h
      | none =>
        have := splitSlash_none cs hs
        intro hm
        rcases List.mem_cons.1 hm with hm | hm
        · exact hc hm.symm
        · exact this hm

theorem prefix_slash_unique : ∀ (p p' n t : List Char), '/' ∉ p → '/' ∉ p' →
    p ++ '/' :: t = p' ++ '/' :: n → p = p'
  | [], [], _, _, _, _, _ => rfl
  | [], c' :: ps', n, t, _, h2, h => by
    simp at h
    exact absurd (h.1 ▸ List.mem_cons_self) h2
  | c :: ps, [], n, t, h1, _, h => by
    simp at h
    exact absurd (h.1 ▸ List.mem_cons_self) h1
  | c :: ps, c' :: ps', n, t, h1, h2, h => by
    simp at h
    obtain ⟨rfl, h⟩ := h
    have := prefix_slash_unique ps ps' n t (fun hm => h1 (List.mem_cons_of_mem _ hm))
      (fun hm => h2 (List.mem_cons_of_mem _ hm)) h
    rw [this]

theorem underPrefix_iff {p : List Char} (key : String) (hp : '/' ∉ p) :
    underPrefix p key = true ↔ pfx key = some p := by
  simp only [underPrefix, List.isPrefixOf_iff_prefix, pfx]
  constructor
  · rintro ⟨t, ht⟩
    cases hs : splitSlash key.toList with
    | none =>
      have := splitSlash_none _ hs
      rw [← ht] at this
      simp at this
    | some pn =>
      obtain ⟨p', n⟩ := pn
      obtain ⟨h1, h2⟩ := splitSlash_spec _ _ _ hs
      rw [h2] at ht
      have : p ++ '/' :: t = p' ++ '/' :: n := by simpa using ht
      simp [prefix_slash_unique p p' n t hp h1 this]
  · intro h
    cases hs : splitSlash key.toList with
    | none => rw [hs] at h; simp at h
    | some pn =>
      obtain ⟨p', n⟩ := pn
      rw [hs] at h
      simp at h
      subst h
      obtain ⟨_, h2⟩ := splitSlash_spec _ _ _ hs
      exact ⟨n, by simp [h2]⟩

theorem markedPrefix?_pfx {key : String} {p : List Char} (h : markedPrefix? key = some p) : pfx key = some p := by
  unfold markedPrefix? at h
  unfold pfx
  cases hs : splitSlash key.toList with
  | none => rw [hs] at h; simp at h
  | some pn =>
    obtain ⟨p', n⟩ := pn
    rw [hs] at h
    simp only at h
    split at h
    · simp at h; simp [h]
    · split at h
      · simp at h; simp [h]
      · split at h
        · simp at h; simp [h]
        · simp at h

theorem markedPrefix?_knownish {key : String} {p : List Char} (h : pfx key = some p) (hk : knownish p = true) :
    markedPrefix? key = some p := by
  unfold pfx at h
  unfold markedPrefix?
  cases hs : splitSlash key.toList with
  | none => rw [hs] at h; simp at h
  | some pn =>
    obtain ⟨p', n⟩ := pn
    rw [hs] at h
    simp at h
    subst h
    simp only
    unfold knownish at hk
    rw [Bool.or_eq_true] at hk
    split
    · rfl
    · split
      · rfl
      · rename_i h2
        rcases hk with hk | hk
        · exact absurd hk h2
        · simp [hk]

theorem pfx_no_slash {key : String} {p : List Char} (h : pfx key = some p) : '/' ∉ p := by
  unfold pfx at h
  cases hs : splitSlash key.toList with
  | none => rw [hs] at h; simp at h
  | some pn =>
    obtain ⟨p', n⟩ := pn
    rw [hs] at h
    simp at h
    subst h
    exact (splitSlash_spec _ _ _ hs).1

theorem mem_markedPrefixes {K : List String} {p : List Char} :
    p ∈ markedPrefixes K ↔ ∃ k, k ∈ K ∧ markedPrefix? k = some p := by
  simp [markedPrefixes, List.mem_filterMap]

/-- a key is dropped by the prefix rule iff its own prefix is among the marked ones. -/
theorem dropped_iff (K : List String) (key : String) :
    (markedPrefixes K).any (fun p => underPrefix p key) = true ↔
      ∃ p, pfx key = some p ∧ p ∈ markedPrefixes K := by
  simp only [List.any_eq_true]
  constructor
  · rintro ⟨p, hp, hu⟩
    obtain ⟨k, _, hk⟩ := mem_markedPrefixes.1 hp
    exact ⟨p, (underPrefix_iff key (pfx_no_slash (markedPrefix?_pfx hk))).1 hu, hp⟩
  · rintro ⟨p, hp, hm⟩
    exact ⟨p, hm, (underPrefix_iff key (pfx_no_slash hp)).2 hp⟩

/-! ### the annotation filter of `build` does not see keys under a marked prefix -/

theorem filter_eq_of_imp {α} (f g : α → Bool) : ∀ (l : List α), (∀ x, x ∈ l → f x = true → g x = true) →
    l.filter f = (l.filter g).filter f
  | [], _ => rfl
  | x :: l, h => by
    have ih := filter_eq_of_imp f g l (fun y hy => h y (List.mem_cons_of_mem _ hy))
    by_cases hf : f x = true
    · have hg := h x List.mem_cons_self hf
      simp [List.filter_cons, hf, hg, ← ih]
    · by_cases hg : g x = true
      · simp [List.filter_cons, hf, hg, ← ih]
      · simp [List.filter_cons, hf, hg, ← ih]

theorem mem_keys_of_filter {A A' : Kvs} {k0 key : String}
    (hd : A'.filter (fun kv => kv.1 != k0) = A.filter (fun kv => kv.1 != k0)) (hne : key ≠ k0)
    (h : key ∈ keys A) : key ∈ keys A' := by
  simp only [keys, List.mem_map] at h ⊢
  obtain ⟨kv, hkv, rfl⟩ := h
  have : kv ∈ A.filter (fun kv => kv.1 != k0) := List.mem_filter.2 ⟨hkv, by simpa using hne⟩
  rw [← hd] at this
  exact ⟨kv, (List.mem_filter.1 this).1, rfl⟩

theorem dropped_congr {A A' : Kvs} {k0 key : String} {p0 : List Char}
    (hd : A'.filter (fun kv => kv.1 != k0) = A.filter (fun kv => kv.1 != k0))
    (hp0 : pfx k0 = some p0) (hr : Robust A k0 p0) (hne : key ≠ k0) (hk : key ∈ keys A) :
    (∃ p, pfx key = some p ∧ p ∈ markedPrefixes (keys A')) → (∃ p, pfx key = some p ∧ p ∈ markedPrefixes (keys A)) := by
  rintro ⟨p, hp, hm⟩
  refine ⟨p, hp, ?_⟩
  obtain ⟨k, hkK, hmk⟩ := mem_markedPrefixes.1 hm
  by_cases hkk : k = k0
  · subst hkk
    have : p = p0 := by
      have := markedPrefix?_pfx hmk
      rw [hp0] at this
      exact (Option.some.inj this).symm
    subst this
    rcases hr with hkn | ⟨k1, _, hk1, hm1⟩
    · exact mem_markedPrefixes.2 ⟨key, hk, markedPrefix?_knownish hp hkn⟩
    · exact mem_markedPrefixes.2 ⟨k1, hk1, hm1⟩
  · exact mem_markedPrefixes.2 ⟨k, mem_keys_of_filter hd.symm hkk hkK, hmk⟩

theorem robust_symm {A A' : Kvs} {k0 : String} {p0 : List Char}
    (hd : A'.filter (fun kv => kv.1 != k0) = A.filter (fun kv => kv.1 != k0)) (hr : Robust A k0 p0) :
    Robust A' k0 p0 := by
  rcases hr with h | ⟨k1, h1, h2, h3⟩
  · exact Or.inl h
  · exact Or.inr ⟨k1, h1, mem_keys_of_filter hd h1 h2, h3⟩

theorem k0_dropped {A : Kvs} {k0 : String} {p0 : List Char} (hp0 : pfx k0 = some p0) (hr : Robust A k0 p0)
    (hk : k0 ∈ keys A) : keepAnnotation (markedPrefixes (keys A)) k0 = false := by
  have : (markedPrefixes (keys A)).any (fun p => underPrefix p k0) = true := by
    rw [dropped_iff]
    refine ⟨p0, hp0, ?_⟩
    rcases hr with hkn | ⟨k1, _, hk1, hm1⟩
    · exact mem_markedPrefixes.2 ⟨k0, hk, markedPrefix?_knownish hp0 hkn⟩
    · exact mem_markedPrefixes.2 ⟨k1, hk1, hm1⟩
  simp [keepAnnotation, this]

/-- **the filtered annotations do not depend on what happens at a key under a marked prefix.** -/
theorem filter_marked_eq {A A' : Kvs} {k0 : String} {p0 : List Char}
    (hd : A'.filter (fun kv => kv.1 != k0) = A.filter (fun kv => kv.1 != k0))
    (hp0 : pfx k0 = some p0) (hr : Robust A k0 p0) :
    A'.filter (fun kv => keepAnnotation (markedPrefixes (keys A')) kv.1) =
      A.filter (fun kv => keepAnnotation (markedPrefixes (keys A)) kv.1) := by
  have hr' := robust_symm hd hr
  have himp : ∀ (B : Kvs), Robust B k0 p0 → ∀ x, x ∈ B →
      keepAnnotation (markedPrefixes (keys B)) x.1 = true → (x.1 != k0) = true := by
    intro B hB x hx hkeep
    by_cases he : x.1 = k0
    · have hk : k0 ∈ keys B := by simp only [keys, List.mem_map]; exact ⟨x, hx, he⟩
      rw [he, k0_dropped hp0 hB hk] at hkeep; cases hkeep
    · simpa using he
  rw [filter_eq_of_imp _ (fun kv => kv.1 != k0) A' (himp A' hr'),
    filter_eq_of_imp _ (fun kv => kv.1 != k0) A (himp A hr), hd]
  apply List.filter_congr
  intro x hx
  obtain ⟨hxA, hxne⟩ := List.mem_filter.1 hx
  have hne : x.1 ≠ k0 := by simpa using hxne
  have hkA : x.1 ∈ keys A := by simp only [keys, List.mem_map]; exact ⟨x, hxA, rfl⟩
  have hkA' : x.1 ∈ keys A' := mem_keys_of_filter hd hne hkA
  have hany : (markedPrefixes (keys A')).any (fun p => underPrefix p x.1) =
      (markedPrefixes (keys A)).any (fun p => underPrefix p x.1) := by
    rw [Bool.eq_iff_iff, dropped_iff, dropped_iff]
    exact ⟨dropped_congr hd hp0 hr hne hkA, dropped_congr hd.symm hp0 hr' hne hkA'⟩
  simp only [keepAnnotation, hany]

theorem marked_dropped_aux {K : List String} {k : String} {p : List Char}
    (hm : p ∈ markedPrefixes K) (hp : pfx k = some p) : keepAnnotation (markedPrefixes K) k = false := by
  have : (markedPrefixes K).any (fun p => underPrefix p k) = true := (dropped_iff _ _).2 ⟨p, hp, hm⟩
  simp [keepAnnotation, this]

end Kopf.C04
