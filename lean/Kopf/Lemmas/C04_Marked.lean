/-
  C04 — annotations under a prefix that is marked as belonging to a Kopf-based operator never reach
  the essence, whatever else happens to them (set, changed, removed).
-/
import Kopf.Lemmas.C04_Essence
namespace Kopf.C04
open Kopf Kopf.J

/-! ### `key.split('/', 1)` and `startswith(prefix + '/')` -/

theorem splitSlash_spec : ∀ (cs p n : List Char), splitSlash cs = some (p, n) → '/' ∉ p ∧ cs = p ++ '/' :: n
  | [], _, _, h => by simp [splitSlash] at h
  | c :: cs, p, n, h => by
    by_cases hc : c = '/'
    · subst hc
      simp [splitSlash] at h
      obtain ⟨rfl, rfl⟩ := h
      simp
    · simp only [splitSlash, if_neg hc] at h
      cases hs : splitSlash cs with
      | none => rw [hs] at h; simp at h
      | some pn =>
        obtain ⟨p1, n1⟩ := pn
        rw [hs] at h
        simp at h
        obtain ⟨rfl, rfl⟩ := h
        obtain ⟨h1, h2⟩ := splitSlash_spec cs p1 n1 hs
        refine ⟨?_, by simp [h2]⟩
        intro hm
        rcases List.mem_cons.1 hm with hm | hm
        · exact hc hm.symm
        · exact h1 hm

theorem splitSlash_none : ∀ (cs : List Char), splitSlash cs = none → '/' ∉ cs
  | [], _ => by simp
  | c :: cs, h => by
    by_cases hc : c = '/'
    · subst hc; simp [splitSlash] at h
    · simp only [splitSlash, if_neg hc] at h
      cases hs : splitSlash cs with
      | some pn => rw [hs] at h; simp at h
      | none =>
        have := splitSlash_none cs hs
        intro hm
        rcases List.mem_cons.1 hm with hm | hm
        · exact hc hm.symm
        · exact this hm

theorem prefix_slash_unique : ∀ (p p' n t : List Char), '/' ∉ p → '/' ∉ p' →
    p ++ '/' :: t = p' ++ '/' :: n → p = p'
  | [], [], _, _, _, _, _ => rfl
  | [], c' :: ps', n, t, _, h2, h => by
    simp at h
    exact absurd (h.1 ▸ List.mem_cons_self) h2
  | c :: ps, [], n, t, h1, _, h => by
    simp at h
    exact absurd (h.1 ▸ List.mem_cons_self) h1
  | c :: ps, c' :: ps', n, t, h1, h2, h => by
    simp at h
    obtain ⟨rfl, h⟩ := h
    have := prefix_slash_unique ps ps' n t (fun hm => h1 (List.mem_cons_of_mem _ hm))
      (fun hm => h2 (List.mem_cons_of_mem _ hm)) h
    rw [this]

/-- the part of an annotation name before the first `/`. -/
def pfx (key : String) : Option (List Char) := (splitSlash key.toList).map (·.1)

theorem underPrefix_iff {p : List Char} (key : String) (hp : '/' ∉ p) :
    underPrefix p key = true ↔ pfx key = some p := by
  simp only [underPrefix, List.isPrefixOf_iff_prefix, pfx]
  constructor
  · rintro ⟨t, ht⟩
    cases hs : splitSlash key.toList with
    | none =>
      have := splitSlash_none _ hs
      rw [← ht] at this
      simp at this
    | some pn =>
      obtain ⟨p', n⟩ := pn
      obtain ⟨h1, h2⟩ := splitSlash_spec _ _ _ hs
      rw [h2] at ht
      have : p ++ '/' :: t = p' ++ '/' :: n := by simpa using ht
      simp [prefix_slash_unique p p' n t hp h1 this]
  · intro h
    cases hs : splitSlash key.toList with
    | none => rw [hs] at h; simp at h
    | some pn =>
      obtain ⟨p', n⟩ := pn
      rw [hs] at h
      simp at h
      subst h
      obtain ⟨_, h2⟩ := splitSlash_spec _ _ _ hs
      exact ⟨n, by simp [h2]⟩

/-- the prefix is `kopf.zalando.org` or a sub-domain of it. -/
def knownish (p : List Char) : Bool :=
  knownPrefixes.any (fun kp => kp.toList == p) || knownPrefixes.any (fun kp => ('.' :: kp.toList).isSuffixOf p)

theorem markedPrefix?_pfx {key : String} {p : List Char} (h : markedPrefix? key = some p) : pfx key = some p := by
  unfold markedPrefix? at h
  unfold pfx
  cases hs : splitSlash key.toList with
  | none => rw [hs] at h; simp at h
  | some pn =>
    obtain ⟨p', n⟩ := pn
    rw [hs] at h
    simp only at h
    split at h
    · simp at h; simp [h]
    · split at h
      · simp at h; simp [h]
      · split at h
        · simp at h; simp [h]
        · simp at h

theorem markedPrefix?_knownish {key : String} {p : List Char} (h : pfx key = some p) (hk : knownish p = true) :
    markedPrefix? key = some p := by
  unfold pfx at h
  unfold markedPrefix?
  cases hs : splitSlash key.toList with
  | none => rw [hs] at h; simp at h
  | some pn =>
    obtain ⟨p', n⟩ := pn
    rw [hs] at h
    simp at h
    subst h
    simp only
    unfold knownish at hk
    rw [Bool.or_eq_true] at hk
    split
    · rfl
    · split
      · rfl
      · rename_i h2
        rcases hk with hk | hk
        · exact absurd hk h2
        · simp [hk]

theorem pfx_no_slash {key : String} {p : List Char} (h : pfx key = some p) : '/' ∉ p := by
  unfold pfx at h
  cases hs : splitSlash key.toList with
  | none => rw [hs] at h; simp at h
  | some pn =>
    obtain ⟨p', n⟩ := pn
    rw [hs] at h
    simp at h
    subst h
    exact (splitSlash_spec _ _ _ hs).1

theorem mem_markedPrefixes {K : List String} {p : List Char} :
    p ∈ markedPrefixes K ↔ ∃ k, k ∈ K ∧ markedPrefix? k = some p := by
  simp [markedPrefixes, List.mem_filterMap]

/-- a key is dropped by the prefix rule iff its own prefix is among the marked ones. -/
theorem dropped_iff (K : List String) (key : String) :
    (markedPrefixes K).any (fun p => underPrefix p key) = true ↔
      ∃ p, pfx key = some p ∧ p ∈ markedPrefixes K := by
  simp only [List.any_eq_true]
  constructor
  · rintro ⟨p, hp, hu⟩
    obtain ⟨k, _, hk⟩ := mem_markedPrefixes.1 hp
    exact ⟨p, (underPrefix_iff key (pfx_no_slash (markedPrefix?_pfx hk))).1 hu, hp⟩
  · rintro ⟨p, hp, hm⟩
    exact ⟨p, hm, (underPrefix_iff key (pfx_no_slash hp)).2 hp⟩

end Kopf.C04
