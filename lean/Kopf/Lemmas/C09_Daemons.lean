/-
  C09 helper lemmas: the per-instance invariant, its preservation by `FlagSetter.set`, by
  `stop_daemons` for one daemon, by a processing cycle and by every label.
-/
import Kopf.Model.C09_Daemons
namespace Kopf.C09

/-- `omega` does not look through the `Tick` abbreviation -/
macro "tick_omega" : tactic => `(tactic| first | omega | (unfold Tick at *; omega))

def Reason.secondary : Reason → Bool
  | .signalled | .cancelled | .abandoned => true
  | _ => false

/-! ### `FlagSetter.set` -/

theorem mem_set {i : Inst} {r x : Reason} {now : Tick} :
    x ∈ (i.set r now).reasons ↔ x ∈ i.reasons ∨ x = r := by
  unfold Inst.set
  by_cases h : r ∈ i.reasons
  · simp only [h, if_true]
    constructor
    · exact Or.inl
    · rintro (h' | h')
      · exact h'
      · exact h' ▸ h
  · simp only [h, if_false, List.mem_append, List.mem_singleton]

theorem set_when (i : Inst) (r : Reason) (now : Tick) : (i.set r now).when = some (i.when.getD now) := rfl
theorem set_cancelAt (i : Inst) (r : Reason) (now : Tick) : (i.set r now).cancelAt = i.cancelAt := rfl
theorem set_abandonAt (i : Inst) (r : Reason) (now : Tick) : (i.set r now).abandonAt = i.abandonAt := rfl
theorem set_kstarts (i : Inst) (r : Reason) (now : Tick) : (i.set r now).kstarts = i.kstarts := rfl
theorem set_since (i : Inst) (r : Reason) (now : Tick) : (i.set r now).since = i.since := rfl

theorem set_reasons_ne_nil (i : Inst) (r : Reason) (now : Tick) : (i.set r now).reasons ≠ [] := by
  intro h
  have : r ∈ (i.set r now).reasons := mem_set.mpr (Or.inr rfl)
  rw [h] at this
  cases this

/-! ### The per-instance invariant -/

structure InstInv (c : Cfg) (now : Tick) (i : Inst) : Prop where
  whenLe : ∀ w, i.when = some w → w ≤ now
  flagged : i.reasons ≠ [] → i.when.isSome = true
  unflagged : i.when.isSome = true → i.reasons ≠ []
  kst : ∀ st ∈ i.kstarts, ∃ w, i.when = some w ∧ w ≤ st ∧ st ≤ now
  canc : ∀ t, i.cancelAt = some t → ∃ w, i.when = some w ∧ w + c.b0 ≤ t ∧ t ≤ now
  aban : ∀ t, i.abandonAt = some t → ∃ w, i.when = some w ∧ w + c.b0 + c.t0 ≤ t ∧ t ≤ now
  prim : i.reasons ≠ [] → ∃ p ∈ i.reasons, p.primary = true
  cancIff : Reason.cancelled ∈ i.reasons ↔ i.cancelAt.isSome = true
  abanIff : Reason.abandoned ∈ i.reasons ↔ i.abandonAt.isSome = true
  cancTo : i.cancelAt.isSome = true → c.timeout.isSome = true     -- no cancellation_timeout: never cancelled

theorem InstInv.fresh (c : Cfg) (now t : Tick) : InstInv c now (Inst.fresh t) := by
  refine ⟨?_, ?_, ?_, ?_, ?_, ?_, ?_, ?_, ?_, ?_⟩ <;> simp [Inst.fresh]

theorem InstInv.mono {c : Cfg} {now now' : Tick} {i : Inst} (h : InstInv c now i) (hle : now ≤ now') :
    InstInv c now' i := by
  refine ⟨?_, h.flagged, h.unflagged, ?_, ?_, ?_, h.prim, h.cancIff, h.abanIff, h.cancTo⟩
  · intro w hw; exact Int.le_trans (h.whenLe w hw) hle
  · intro st hst
    obtain ⟨w, h1, h2, h3⟩ := h.kst st hst
    exact ⟨w, h1, h2, Int.le_trans h3 hle⟩
  · intro t ht
    obtain ⟨w, h1, h2, h3⟩ := h.canc t ht
    exact ⟨w, h1, h2, Int.le_trans h3 hle⟩
  · intro t ht
    obtain ⟨w, h1, h2, h3⟩ := h.aban t ht
    exact ⟨w, h1, h2, Int.le_trans h3 hle⟩

/-- the `when` of a stopper after `set` is its old `when`, or `now` -/
theorem set_when_cases (i : Inst) (r : Reason) (now : Tick) :
    (∃ w, i.when = some w ∧ (i.set r now).when = some w) ∨ (i.when = none ∧ (i.set r now).when = some now) := by
  cases hw : i.when with
  | none => right; simp [set_when, hw]
  | some w => left; exact ⟨w, rfl, by simp [set_when, hw]⟩

theorem getD_when_le {c : Cfg} {now : Tick} {i : Inst} (h : InstInv c now i) : i.when.getD now ≤ now := by
  cases hw : i.when with
  | none => simp
  | some w => simpa using h.whenLe w hw

/-- Setting a reason that is neither CANCELLED nor ABANDONED keeps the invariant, provided a
    secondary reason is only set when a primary one is present. -/
theorem InstInv.set_plain {c : Cfg} {now : Tick} {i : Inst} (h : InstInv c now i) (r : Reason)
    (hr1 : r ≠ .cancelled) (hr2 : r ≠ .abandoned)
    (hp : r.primary = true ∨ ∃ p ∈ i.reasons, p.primary = true) :
    InstInv c now (i.set r now) := by
  have hwl := getD_when_le h
  refine ⟨?_, ?_, ?_, ?_, ?_, ?_, ?_, ?_, ?_, (by rw [set_cancelAt]; exact h.cancTo)⟩
  · intro w hw
    rw [set_when] at hw
    cases hw
    exact hwl
  · intro _; simp [set_when]
  · intro _; exact set_reasons_ne_nil i r now
  · intro st hst
    rw [set_kstarts] at hst
    obtain ⟨w, h1, h2, h3⟩ := h.kst st hst
    exact ⟨w, by simp [set_when, h1], h2, h3⟩
  · intro t ht
    rw [set_cancelAt] at ht
    obtain ⟨w, h1, h2, h3⟩ := h.canc t ht
    exact ⟨w, by simp [set_when, h1], h2, h3⟩
  · intro t ht
    rw [set_abandonAt] at ht
    obtain ⟨w, h1, h2, h3⟩ := h.aban t ht
    exact ⟨w, by simp [set_when, h1], h2, h3⟩
  · intro _
    rcases hp with hp | ⟨p, hp1, hp2⟩
    · exact ⟨r, mem_set.mpr (Or.inr rfl), hp⟩
    · exact ⟨p, mem_set.mpr (Or.inl hp1), hp2⟩
  · rw [set_cancelAt, ← h.cancIff]
    constructor
    · intro hx
      rcases mem_set.mp hx with hx | hx
      · exact hx
      · exact absurd hx.symm hr1
    · intro hx; exact mem_set.mpr (Or.inl hx)
  · rw [set_abandonAt, ← h.abanIff]
    constructor
    · intro hx
      rcases mem_set.mp hx with hx | hx
      · exact hx
      · exact absurd hx.symm hr2
    · intro hx; exact mem_set.mpr (Or.inl hx)

/-- DAEMON_CANCELLED + `task.cancel()`: allowed once the flag is at least `backoff` old. -/
theorem InstInv.set_cancelled {c : Cfg} {now : Tick} {i : Inst} (h : InstInv c now i)
    (hp : ∃ p ∈ i.reasons, p.primary = true)
    (hage : ∀ w, i.when = some w → w + c.b0 ≤ now) (hto : c.timeout.isSome = true) :
    InstInv c now { i.set .cancelled now with cancelAt := some (i.cancelAt.getD now) } := by
  obtain ⟨p, hp1, hp2⟩ := hp
  have hne : i.reasons ≠ [] := by intro h0; rw [h0] at hp1; cases hp1
  have hws := h.flagged hne
  obtain ⟨w, hw⟩ := Option.isSome_iff_exists.mp hws
  refine ⟨?_, ?_, ?_, ?_, ?_, ?_, ?_, ?_, ?_, (fun _ => hto)⟩
  · intro w' hw'
    simp only [set_when, hw, Option.getD_some, Option.some.injEq] at hw'
    subst hw'; exact h.whenLe w hw
  · intro _; simp [set_when]
  · intro _; exact set_reasons_ne_nil i _ now
  · intro st hst
    simp only [set_kstarts] at hst
    obtain ⟨w', h1, h2, h3⟩ := h.kst st hst
    exact ⟨w', by simp [set_when, h1], h2, h3⟩
  · intro t ht
    simp only [Option.some.injEq] at ht
    cases hc : i.cancelAt with
    | none =>
      rw [hc] at ht
      simp only [Option.getD_none] at ht
      subst ht
      exact ⟨w, by simp [set_when, hw], hage w hw, Int.le_refl _⟩
    | some t0 =>
      rw [hc] at ht
      simp only [Option.getD_some] at ht
      subst ht
      obtain ⟨w', h1, h2, h3⟩ := h.canc t0 hc
      exact ⟨w', by simp [set_when, h1], h2, h3⟩
  · intro t ht
    simp only [set_abandonAt] at ht
    obtain ⟨w', h1, h2, h3⟩ := h.aban t ht
    exact ⟨w', by simp [set_when, h1], h2, h3⟩
  · intro _
    exact ⟨p, (mem_set (i := i) (r := .cancelled) (now := now)).mpr (Or.inl hp1), hp2⟩
  · constructor
    · intro _; rfl
    · intro _; exact (mem_set (i := i) (r := .cancelled) (now := now)).mpr (Or.inr rfl)
  · simp only [set_abandonAt]
    rw [← h.abanIff]
    constructor
    · intro hx
      rcases mem_set.mp hx with hx | hx
      · exact hx
      · cases hx
    · intro hx; exact mem_set.mpr (Or.inl hx)

/-- DAEMON_ABANDONED: allowed once the flag is at least `backoff + timeout` old. -/
theorem InstInv.set_abandoned {c : Cfg} {now : Tick} {i : Inst} (h : InstInv c now i)
    (hp : ∃ p ∈ i.reasons, p.primary = true)
    (hage : ∀ w, i.when = some w → w + c.b0 + c.t0 ≤ now) :
    InstInv c now { i.set .abandoned now with abandonAt := some (i.abandonAt.getD now) } := by
  obtain ⟨p, hp1, hp2⟩ := hp
  have hne : i.reasons ≠ [] := by intro h0; rw [h0] at hp1; cases hp1
  have hws := h.flagged hne
  obtain ⟨w, hw⟩ := Option.isSome_iff_exists.mp hws
  refine ⟨?_, ?_, ?_, ?_, ?_, ?_, ?_, ?_, ?_, (by simp only [set_cancelAt]; exact h.cancTo)⟩
  · intro w' hw'
    simp only [set_when, hw, Option.getD_some, Option.some.injEq] at hw'
    subst hw'; exact h.whenLe w hw
  · intro _; simp [set_when]
  · intro _; exact set_reasons_ne_nil i _ now
  · intro st hst
    simp only [set_kstarts] at hst
    obtain ⟨w', h1, h2, h3⟩ := h.kst st hst
    exact ⟨w', by simp [set_when, h1], h2, h3⟩
  · intro t ht
    simp only [set_cancelAt] at ht
    obtain ⟨w', h1, h2, h3⟩ := h.canc t ht
    exact ⟨w', by simp [set_when, h1], h2, h3⟩
  · intro t ht
    simp only [Option.some.injEq] at ht
    cases hc : i.abandonAt with
    | none =>
      rw [hc] at ht
      simp only [Option.getD_none] at ht
      subst ht
      exact ⟨w, by simp [set_when, hw], hage w hw, Int.le_refl _⟩
    | some t0 =>
      rw [hc] at ht
      simp only [Option.getD_some] at ht
      subst ht
      obtain ⟨w', h1, h2, h3⟩ := h.aban t0 hc
      exact ⟨w', by simp [set_when, h1], h2, h3⟩
  · intro _
    exact ⟨p, (mem_set (i := i) (r := .abandoned) (now := now)).mpr (Or.inl hp1), hp2⟩
  · simp only [set_cancelAt]
    rw [← h.cancIff]
    constructor
    · intro hx
      rcases mem_set.mp hx with hx | hx
      · exact hx
      · cases hx
    · intro hx; exact mem_set.mpr (Or.inl hx)
  · constructor
    · intro _; rfl
    · intro _; exact (mem_set (i := i) (r := .abandoned) (now := now)).mpr (Or.inr rfl)

/-- registering a daemon-killer coroutine that has just set its (primary) reason -/
theorem InstInv.push_kstart {c : Cfg} {now : Tick} {i : Inst} (h : InstInv c now i) (r : Reason)
    (hr : r.primary = true) :
    InstInv c now { i.set r now with kstarts := now :: i.kstarts } := by
  have hr1 : r ≠ .cancelled := by intro h0; subst h0; cases hr
  have hr2 : r ≠ .abandoned := by intro h0; subst h0; cases hr
  have h' := h.set_plain r hr1 hr2 (Or.inl hr)
  refine ⟨h'.whenLe, h'.flagged, h'.unflagged, ?_, h'.canc, h'.aban, h'.prim, h'.cancIff, h'.abanIff, h'.cancTo⟩
  intro st hst
  simp only [List.mem_cons] at hst
  rcases hst with hst | hst
  · subst hst
    exact ⟨i.when.getD st, rfl, getD_when_le h, Int.le_refl _⟩
  · exact h'.kst st (by simpa [set_kstarts] using hst)

/-! ### The stage chain -/

def actDone : Act := { set := none, cancel := false, wait := false, delay := none, delayIfAlive := false }
def actSignal : Act := { set := some .signalled, cancel := false, wait := true, delay := some .backoffLeft, delayIfAlive := true }
def actCancel : Act := { set := some .cancelled, cancel := true, wait := true, delay := some .deadlineLeft, delayIfAlive := true }
def actAbandon : Act := { set := some .abandoned, cancel := false, wait := false, delay := none, delayIfAlive := false }
def actPoll : Act := { set := none, cancel := false, wait := false, delay := some .polling, delayIfAlive := false }

theorem stage_cases (a : Atoms) :
    (a.taskDone = true ∧ stage a = actDone) ∨
    (a.taskDone = false ∧ a.backoffSome = true ∧ a.ageLtBackoff = true ∧ stage a = actSignal) ∨
    (a.taskDone = false ∧ (a.backoffSome && a.ageLtBackoff) = false ∧ a.timeoutSome = true ∧ a.ageLtDeadline = true ∧ stage a = actCancel) ∨
    (a.taskDone = false ∧ (a.backoffSome && a.ageLtBackoff) = false ∧ a.timeoutSome = true ∧ a.ageLtDeadline = false ∧ stage a = actAbandon) ∨
    (a.taskDone = false ∧ (a.backoffSome && a.ageLtBackoff) = false ∧ a.timeoutSome = false ∧ stage a = actPoll) := by
  rcases a with ⟨d, b, ab, t, at'⟩
  cases d <;> cases b <;> cases ab <;> cases t <;> cases at' <;> simp [stage, actDone, actSignal, actCancel, actAbandon, actPoll]

/-- the flag's age in terms of `when` once it is surely set -/
theorem age_of_when {c : Cfg} {now : Tick} {i : Inst} (_h : InstInv c now i) (r : Reason) :
    ∀ w, (if r ∈ i.reasons then i else i.set r now).when = some w → age i now = now - w := by
  intro w hw
  by_cases hr : r ∈ i.reasons
  · simp only [hr, if_true] at hw
    simp [age, hw]
  · simp only [hr, if_false, set_when] at hw
    cases hwi : i.when with
    | none =>
      rw [hwi] at hw
      simp only [Option.getD_none, Option.some.injEq] at hw
      subst hw
      simp [age, hwi]
    | some w0 =>
      rw [hwi] at hw
      simp only [Option.getD_some, Option.some.injEq] at hw
      subst hw
      simp [age, hwi]

/-- What `stop_daemons` guarantees for one daemon. -/
inductive StopSpec (c : Cfg) (now : Tick) (r : Reason) (i : Inst) : Out → Prop
  | alive (i' : Inst) (d : Option Tick)
      (inv : InstInv c now i') (asked : r ∈ i'.reasons)
      (mono : ∀ x ∈ i.reasons, x ∈ i'.reasons)
      (whenKept : ∀ w, i.when = some w → i'.when = some w)
      (cancKept : ∀ t, i.cancelAt = some t → i'.cancelAt = some t)
      (abanKept : ∀ t, i.abandonAt = some t → i'.abandonAt = some t)
      (ksKept : i'.kstarts = i.kstarts) (sinceKept : i'.since = i.since) : StopSpec c now r i (.alive i' d)
  | ended (i' : Inst) (mono : ∀ x ∈ i.reasons, x ∈ i'.reasons) : StopSpec c now r i (.ended i')

end Kopf.C09

namespace Kopf.C09

theorem applySet_signal (i : Inst) (now : Tick) :
    (applySet actSignal i now).1 = if Reason.signalled ∈ i.reasons then i else i.set .signalled now := by
  unfold applySet actSignal
  by_cases h : Reason.signalled ∈ i.reasons <;> simp [h]

theorem applySet_cancel (i : Inst) (now : Tick) :
    (applySet actCancel i now).1 = if Reason.cancelled ∈ i.reasons then i
      else { i.set .cancelled now with cancelAt := some (i.cancelAt.getD now) } := by
  unfold applySet actCancel
  by_cases h : Reason.cancelled ∈ i.reasons <;> simp [h, set_cancelAt]

theorem applySet_abandon (i : Inst) (now : Tick) :
    (applySet actAbandon i now).1 = if Reason.abandoned ∈ i.reasons then i
      else { i.set .abandoned now with abandonAt := some (i.abandonAt.getD now) } := by
  unfold applySet actAbandon
  by_cases h : Reason.abandoned ∈ i.reasons <;> simp [h, set_abandonAt]

theorem applySet_kstarts (act : Act) (i : Inst) (now : Tick) : (applySet act i now).1.kstarts = i.kstarts := by
  unfold applySet
  cases act.set with
  | none => rfl
  | some r =>
    by_cases h : r ∈ i.reasons
    · simp [h]
    · simp only [h, if_false]
      cases act.cancel <;> by_cases h2 : r = Reason.abandoned <;> simp [h2, set_kstarts]

theorem applySet_since (act : Act) (i : Inst) (now : Tick) : (applySet act i now).1.since = i.since := by
  unfold applySet
  cases act.set with
  | none => rfl
  | some r =>
    by_cases h : r ∈ i.reasons
    · simp [h]
    · simp only [h, if_false]
      cases act.cancel <;> by_cases h2 : r = Reason.abandoned <;> simp [h2, set_since]

theorem applySet_poll (i : Inst) (now : Tick) : (applySet actPoll i now).1 = i := by
  simp [applySet, actPoll]

theorem primary_ne {r : Reason} (h : r.primary = true) : r ≠ .cancelled ∧ r ≠ .abandoned ∧ r ≠ .signalled := by
  cases r <;> simp [Reason.primary] at h ⊢

/-- facts about the instance after the primary reason is surely set -/
theorem sure_set {c : Cfg} {now : Tick} {i : Inst} (h : InstInv c now i) {r : Reason} (hr : r.primary = true) :
    let i1 := if r ∈ i.reasons then i else i.set r now
    InstInv c now i1 ∧ r ∈ i1.reasons ∧ (∀ x ∈ i.reasons, x ∈ i1.reasons) ∧
      (∀ w, i.when = some w → i1.when = some w) ∧ i1.cancelAt = i.cancelAt ∧ i1.abandonAt = i.abandonAt ∧
      i1.kstarts = i.kstarts ∧ i1.since = i.since := by
  intro i1
  obtain ⟨h1, h2, _⟩ := primary_ne hr
  by_cases hm : r ∈ i.reasons
  · have : i1 = i := by simp [i1, hm]
    rw [this]
    exact ⟨h, hm, fun _ hx => hx, fun _ hw => hw, rfl, rfl, rfl, rfl⟩
  · have : i1 = i.set r now := by simp [i1, hm]
    rw [this]
    refine ⟨h.set_plain r h1 h2 (Or.inl hr), mem_set.mpr (Or.inr rfl), fun x hx => mem_set.mpr (Or.inl hx), ?_, rfl, rfl, rfl, rfl⟩
    intro w hw
    simp [set_when, hw]

theorem stopOne_spec {c : Cfg} {now : Tick} {i : Inst} (h : InstInv c now i) {r : Reason}
    (hr : r.primary = true) (ex : Ex) : StopSpec c now r i (stopOne c now r i ex) := by
  unfold stopOne
  by_cases h0 : ex.d0 = true
  · simp only [h0, if_true]
    exact .ended i (fun _ hx => hx)
  · have hd0 : ex.d0 = false := by simpa using h0
    obtain ⟨hinv1, hask, hmono, hwhen, hc1, ha1, hk1, hs1⟩ := sure_set h hr
    have hage := age_of_when h r
    generalize hi1 : (if r ∈ i.reasons then i else i.set r now) = i1 at hinv1 hask hmono hwhen hc1 ha1 hk1 hs1 hage
    by_cases h1 : ex.d1 = true
    · simp only [hd0, h1, if_true, Bool.false_eq_true, if_false]
      exact .ended i1 hmono
    · have hd1 : ex.d1 = false := by simpa using h1
      simp only [hd0, hd1, Bool.false_eq_true, if_false]
      have hprim : ∃ p ∈ i1.reasons, p.primary = true := ⟨r, hask, hr⟩
      have hne : i1.reasons ≠ [] := by intro h0; rw [h0] at hask; cases hask
      obtain ⟨w1, hw1⟩ := Option.isSome_iff_exists.mp (hinv1.flagged hne)
      have hagew := hage w1 hw1
      have hwle := hinv1.whenLe w1 hw1
      -- the four live branches
      rcases stage_cases (atomsOf c (age i now) false) with ⟨hd, _⟩ | ⟨_, hb, hab, hs⟩ | ⟨_, hnb, ht, hat, hs⟩ | ⟨_, hnb, ht, hat, hs⟩ | ⟨_, hnb, ht, hs⟩
      · simp [atomsOf] at hd
      · -- signalled
        rw [hs]
        have hi2 : InstInv c now (applySet actSignal i1 now).1 ∧ (∀ x ∈ i1.reasons, x ∈ (applySet actSignal i1 now).1.reasons)
            ∧ (∀ w, i1.when = some w → (applySet actSignal i1 now).1.when = some w)
            ∧ (applySet actSignal i1 now).1.cancelAt = i1.cancelAt ∧ (applySet actSignal i1 now).1.abandonAt = i1.abandonAt := by
          rw [applySet_signal]
          by_cases hm : Reason.signalled ∈ i1.reasons
          · rw [if_pos hm]
            exact ⟨hinv1, fun _ hx => hx, fun _ hw => hw, rfl, rfl⟩
          · simp only [hm, if_false]
            refine ⟨hinv1.set_plain _ (by decide) (by decide) (Or.inr hprim), fun x hx => mem_set.mpr (Or.inl hx), ?_, rfl, rfl⟩
            intro w hw; simp [set_when, hw]
        obtain ⟨hinv2, hm2, hw2, hc2, ha2⟩ := hi2
        have hk2 := applySet_kstarts actSignal i1 now
        have hs2 := applySet_since actSignal i1 now
        generalize (applySet actSignal i1 now).1 = i2 at hinv2 hm2 hw2 hc2 ha2 hk2 hs2 ⊢
        by_cases h2 : (actSignal.delayIfAlive && ex.d2) = true
        · simp only [h2, if_true]
          exact .ended i2 (fun x hx => hm2 x (hmono x hx))
        · simp only [h2]
          exact .alive i2 _ hinv2 (hm2 r hask) (fun x hx => hm2 x (hmono x hx)) (fun w hw => hw2 w (hwhen w hw))
            (fun t ht => by rw [hc2, hc1]; exact ht) (fun t ht => by rw [ha2, ha1]; exact ht) (hk2.trans hk1) (hs2.trans hs1)
      · -- cancelled
        rw [hs]
        have hageb : ∀ w, i1.when = some w → w + c.b0 ≤ now := by
          intro w hw
          rw [hw1] at hw; cases hw
          unfold Cfg.b0
          cases hb : c.backoff with
          | none => simp; exact hwle
          | some b =>
            simp only [atomsOf, hb, Option.isSome_some, Bool.true_and, decide_eq_false_iff_not] at hnb
            simp only [Option.getD_some]
            rw [hagew] at hnb
            tick_omega
        have hi2 : InstInv c now (applySet actCancel i1 now).1 ∧ (∀ x ∈ i1.reasons, x ∈ (applySet actCancel i1 now).1.reasons)
            ∧ (∀ w, i1.when = some w → (applySet actCancel i1 now).1.when = some w)
            ∧ (∀ t, i1.cancelAt = some t → (applySet actCancel i1 now).1.cancelAt = some t)
            ∧ (applySet actCancel i1 now).1.abandonAt = i1.abandonAt := by
          rw [applySet_cancel]
          by_cases hm : Reason.cancelled ∈ i1.reasons
          · rw [if_pos hm]
            exact ⟨hinv1, fun _ hx => hx, fun _ hw => hw, fun _ ht => ht, rfl⟩
          · simp only [hm, if_false]
            refine ⟨hinv1.set_cancelled hprim hageb (by simpa [atomsOf] using ht), fun x hx => (mem_set (i := i1) (r := .cancelled) (now := now)).mpr (Or.inl hx), ?_, ?_, rfl⟩
            · intro w hw; simp [set_when, hw]
            · intro t ht; simp [ht]
        obtain ⟨hinv2, hm2, hw2, hc2, ha2⟩ := hi2
        have hk2 := applySet_kstarts actCancel i1 now
        have hs2 := applySet_since actCancel i1 now
        generalize (applySet actCancel i1 now).1 = i2 at hinv2 hm2 hw2 hc2 ha2 hk2 hs2 ⊢
        by_cases h2 : (actCancel.delayIfAlive && ex.d2) = true
        · simp only [h2, if_true]
          exact .ended i2 (fun x hx => hm2 x (hmono x hx))
        · simp only [h2]
          exact .alive i2 _ hinv2 (hm2 r hask) (fun x hx => hm2 x (hmono x hx)) (fun w hw => hw2 w (hwhen w hw))
            (fun t ht => hc2 t (by rw [hc1]; exact ht)) (fun t ht => by rw [ha2, ha1]; exact ht) (hk2.trans hk1) (hs2.trans hs1)
      · -- abandoned
        rw [hs]
        have hageb : ∀ w, i1.when = some w → w + c.b0 + c.t0 ≤ now := by
          intro w hw
          rw [hw1] at hw; cases hw
          cases htt : c.timeout with
          | none => simp [atomsOf, htt] at ht
          | some t =>
            simp only [atomsOf, htt, decide_eq_false_iff_not] at hat
            simp only [Cfg.t0, htt, Option.getD_some]
            rw [hagew] at hat
            generalize c.b0 = bb at *
            tick_omega
        have hi2 : InstInv c now (applySet actAbandon i1 now).1 ∧ (∀ x ∈ i1.reasons, x ∈ (applySet actAbandon i1 now).1.reasons)
            ∧ (∀ w, i1.when = some w → (applySet actAbandon i1 now).1.when = some w)
            ∧ (applySet actAbandon i1 now).1.cancelAt = i1.cancelAt
            ∧ (∀ t, i1.abandonAt = some t → (applySet actAbandon i1 now).1.abandonAt = some t) := by
          rw [applySet_abandon]
          by_cases hm : Reason.abandoned ∈ i1.reasons
          · rw [if_pos hm]
            exact ⟨hinv1, fun _ hx => hx, fun _ hw => hw, rfl, fun _ ht => ht⟩
          · simp only [hm, if_false]
            refine ⟨hinv1.set_abandoned hprim hageb, fun x hx => (mem_set (i := i1) (r := .abandoned) (now := now)).mpr (Or.inl hx), ?_, rfl, ?_⟩
            · intro w hw; simp [set_when, hw]
            · intro t ht; simp [ht]
        obtain ⟨hinv2, hm2, hw2, hc2, ha2⟩ := hi2
        have hk2 := applySet_kstarts actAbandon i1 now
        have hs2 := applySet_since actAbandon i1 now
        generalize (applySet actAbandon i1 now).1 = i2 at hinv2 hm2 hw2 hc2 ha2 hk2 hs2 ⊢
        have h2 : (actAbandon.delayIfAlive && ex.d2) = false := by simp [actAbandon]
        simp only [h2]
        exact .alive i2 _ hinv2 (hm2 r hask) (fun x hx => hm2 x (hmono x hx)) (fun w hw => hw2 w (hwhen w hw))
          (fun t ht => by rw [hc2, hc1]; exact ht) (fun t ht => ha2 t (by rw [ha1]; exact ht)) (hk2.trans hk1) (hs2.trans hs1)
      · -- polling
        rw [hs, applySet_poll]
        have h2 : (actPoll.delayIfAlive && ex.d2) = false := by simp [actPoll]
        simp only [h2]
        exact .alive i1 _ hinv1 hask hmono hwhen (fun t ht => by rw [hc1]; exact ht) (fun t ht => by rw [ha1]; exact ht) hk1 hs1

end Kopf.C09

namespace Kopf.C09

/-! ### State-level invariant -/

structure Inv (c : Cfg) (s : St) : Prop where
  live : s.live = if s.run.isSome then 1 else 0
  inst : ∀ i, s.run = some i → InstInv c s.now i
  goneKnown : s.goneAt.isSome = true → s.known = false

/-- the same instance, later: nothing is ever taken back -/
structure Mono (i i' : Inst) : Prop where
  reasons : ∀ x ∈ i.reasons, x ∈ i'.reasons
  when : ∀ w, i.when = some w → i'.when = some w
  canc : ∀ t, i.cancelAt = some t → i'.cancelAt = some t
  aban : ∀ t, i.abandonAt = some t → i'.abandonAt = some t
  ks : ∀ st ∈ i.kstarts, st ∈ i'.kstarts
  since : i'.since = i.since

theorem Mono.refl (i : Inst) : Mono i i := ⟨fun _ h => h, fun _ h => h, fun _ h => h, fun _ h => h, fun _ h => h, rfl⟩

theorem Mono.trans {a b d : Inst} (h1 : Mono a b) (h2 : Mono b d) : Mono a d :=
  ⟨fun x h => h2.reasons x (h1.reasons x h), fun w h => h2.when w (h1.when w h),
   fun t h => h2.canc t (h1.canc t h), fun t h => h2.aban t (h1.aban t h), fun t h => h2.ks t (h1.ks t h),
   h2.since.trans h1.since⟩

/-- `s'` comes from `s` without a spawn: the instance (if any) evolved or ended. -/
structure Evolves (s s' : St) : Prop where
  now : s'.now = s.now
  spawns : s'.spawns = s.spawns
  known : s'.known = s.known
  foreverMono : s.forever = true → s'.forever = true
  same : ∀ i', s'.run = some i' → ∃ i, s.run = some i ∧ Mono i i' ∧ i'.kstarts = i.kstarts
  noneStays : s.run = none → s' = s
  paused : s'.paused = s.paused
  killerDone : s'.killerDone = s.killerDone
  exitAt : s'.exitAt = s.exitAt
  goneAt : s'.goneAt = s.goneAt

theorem Evolves.refl (s : St) : Evolves s s :=
  ⟨rfl, rfl, rfl, fun h => h, fun i' h => ⟨i', h, Mono.refl i', rfl⟩, fun _ => rfl, rfl, rfl, rfl, rfl⟩

theorem Evolves.trans {a b d : St} (h1 : Evolves a b) (h2 : Evolves b d) : Evolves a d := by
  refine ⟨h2.now.trans h1.now, h2.spawns.trans h1.spawns, h2.known.trans h1.known,
    fun h => h2.foreverMono (h1.foreverMono h), ?_, ?_, h2.paused.trans h1.paused, h2.killerDone.trans h1.killerDone,
    h2.exitAt.trans h1.exitAt, h2.goneAt.trans h1.goneAt⟩
  · intro i' hi'
    obtain ⟨j, hj, m2, k2⟩ := h2.same i' hi'
    obtain ⟨i, hi, m1, k1⟩ := h1.same j hj
    exact ⟨i, hi, m1.trans m2, k2.trans k1⟩
  · intro hn
    have := h1.noneStays hn
    subst this
    exact h2.noneStays hn

theorem endInst_inv {c : Cfg} {s : St} (h : Inv c s) {i : Inst} (hi : s.run = some i) (j : Inst) :
    Inv c (endInst s j) := by
  refine ⟨?_, ?_, h.goneKnown⟩
  · have := h.live
    simp [hi] at this
    simp [endInst, this]
  · intro k hk; simp [endInst] at hk

theorem endInst_evolves {s : St} {i : Inst} (_hi : s.run = some i) (j : Inst) : Evolves s (endInst s j) := by
  refine ⟨rfl, rfl, rfl, ?_, ?_, ?_, rfl, rfl, rfl, rfl⟩
  · intro hf; simp [endInst, hf]
  · intro i' hi'; simp [endInst] at hi'
  · intro hn; rw [hn] at _hi; cases _hi

theorem stopIf_spec {c : Cfg} {s : St} (h : Inv c s) {r : Reason} (hr : r.primary = true) (cond : Bool) (ex : Ex) :
    Inv c (stopIf c s cond r ex).1 ∧ Evolves s (stopIf c s cond r ex).1 ∧
    (cond = true → ∀ i', (stopIf c s cond r ex).1.run = some i' → r ∈ i'.reasons) := by
  unfold stopIf
  cases cond with
  | false => exact ⟨h, Evolves.refl s, fun hc => by cases hc⟩
  | true =>
    cases hrun : s.run with
    | none => exact ⟨h, Evolves.refl s, fun _ i' hi' => by rw [hrun] at hi'; cases hi'⟩
    | some i =>
      have hspec := stopOne_spec (h.inst i hrun) hr ex
      simp only
      generalize stopOne c s.now r i ex = out at hspec
      cases hspec with
      | alive i' d inv asked mono whenKept cancKept abanKept ksKept sinceKept =>
        simp only [applyOut]
        refine ⟨⟨?_, ?_, h.goneKnown⟩, ⟨rfl, rfl, rfl, fun hf => hf, ?_, ?_, rfl, rfl, rfl, rfl⟩, ?_⟩
        · have := h.live; simp [hrun] at this; simp [this]
        · intro k hk; simp at hk; subst hk; exact inv
        · intro k hk; simp at hk; subst hk
          exact ⟨i, hrun, ⟨mono, whenKept, cancKept, abanKept, fun st hst => by rw [ksKept]; exact hst, sinceKept⟩, ksKept⟩
        · intro hn; rw [hrun] at hn; cases hn
        · intro _ k hk; simp at hk; subst hk; exact asked
      | ended i' mono =>
        simp only [applyOut]
        exact ⟨endInst_inv h hrun i', endInst_evolves hrun i', fun _ k hk => by simp [endInst] at hk⟩

theorem spawn_inv {c : Cfg} {s : St} (h : Inv c s) (hrun : s.run = none) (_hf : s.forever = false) :
    Inv c (spawn s) := by
  refine ⟨?_, ?_, h.goneKnown⟩
  · have := h.live; simp [hrun] at this; simp [spawn, this]
  · intro i hi; simp [spawn] at hi; subst hi; exact InstInv.fresh c _ _

/-- the state after the DELETED bookkeeping of a cycle -/
def forgotten (inp : CycIn) (s : St) : St :=
  if inp.deleted then { s with known := false, goneAt := some s.now } else s

theorem forgotten_inv {c : Cfg} {s : St} (h : Inv c s) (inp : CycIn) : Inv c (forgotten inp s) := by
  unfold forgotten
  cases inp.deleted with
  | false => exact h
  | true => exact ⟨h.live, h.inst, fun _ => rfl⟩

theorem forgotten_fields (inp : CycIn) (s : St) :
    (forgotten inp s).now = s.now ∧ (forgotten inp s).run = s.run ∧ (forgotten inp s).forever = s.forever ∧
    (forgotten inp s).spawns = s.spawns ∧ (forgotten inp s).known = (s.known && !inp.deleted) ∧
    (forgotten inp s).paused = s.paused ∧ (forgotten inp s).killerDone = s.killerDone ∧
    (forgotten inp s).exitAt = s.exitAt ∧
    (forgotten inp s).goneAt = (if inp.deleted then some s.now else s.goneAt) := by
  unfold forgotten; cases inp.deleted <;> simp

/-- whether `spawn_daemons` returns at once in this cycle -/
def blockedIn (c : Cfg) (inp : CycIn) (s : St) : Bool :=
  (c.marksExiting && s.exitAt.isSome) || (c.stopsGone && (inp.deleted || s.goneAt.isSome))

theorem blocked_forgotten (c : Cfg) (inp : CycIn) (s : St) : (forgotten inp s).spawnBlocked c = blockedIn c inp s := by
  unfold forgotten St.spawnBlocked blockedIn
  cases inp.deleted <;> simp

theorem spawnAct_spawn (e t st : Bool) : (spawnAct e t st).spawn = !t := by
  cases e <;> cases t <;> cases st <;> rfl

theorem spawnAct_delays (c : Cfg) (e t st : Bool) :
    ((spawnAct e t st).delay.map (delayVal c 0)).toList = if (e && t && st) = true then [c.polling] else [] := by
  cases e <;> cases t <;> cases st <;> rfl

theorem stopping_isSome {s : St} (h : s.stopping = true) : s.run.isSome = true := by
  unfold St.stopping at h
  cases hr : s.run with
  | none => rw [hr] at h; cases h
  | some i => rfl

theorem flaggedMismatch_isSome {s : St} (h : s.flaggedMismatch = true) : s.run.isSome = true := by
  unfold St.flaggedMismatch at h
  cases hr : s.run with
  | none => rw [hr] at h; cases h
  | some i => rfl

theorem spawn_step_eq (c : Cfg) (s0 : St) (sel bl : Bool) :
    (if (sel && !bl && (spawnAct c.escorts s0.run.isSome s0.stopping).spawn) = true then spawn s0 else s0) =
      (if (sel && s0.run.isNone && !bl) = true then spawn s0 else s0) := by
  rw [spawnAct_spawn]
  cases sel <;> cases bl <;> cases s0.run <;> rfl

theorem spawn_delays_eq (c : Cfg) (s0 : St) (sel bl : Bool) :
    (if (sel && !bl) = true then ((spawnAct c.escorts s0.run.isSome s0.stopping).delay.map (delayVal c 0)).toList else []) =
      (if (c.escorts && sel && !bl && s0.stopping) = true then [c.polling] else []) := by
  rw [spawnAct_delays]
  cases hst : s0.stopping
  · cases sel <;> cases bl <;> cases c.escorts <;> cases s0.run.isSome <;> rfl
  · rw [stopping_isSome hst]
    cases sel <;> cases bl <;> cases c.escorts <;> rfl

theorem revisit_eq (c : Cfg) (s0 : St) (sel bl g : Bool) :
    ((if (sel && s0.run.isNone && !bl) = true then spawn s0 else s0).run.isSome && escorted c sel s0 &&
        revisitNow c.escorts sel g) = (c.escorts && sel && s0.flaggedMismatch && g) := by
  unfold escorted matchVisits revisitNow
  cases hfl : s0.flaggedMismatch
  · cases sel <;> cases c.escorts <;> cases g <;> simp
  · have hsome := flaggedMismatch_isSome hfl
    have hnone : s0.run.isNone = false := by
      cases hr : s0.run with
      | none => rw [hr] at hsome; cases hsome
      | some _ => rfl
    simp only [hnone, Bool.and_false, Bool.false_and, Bool.false_eq_true, if_false, hsome, Bool.true_and]
    cases sel <;> cases c.escorts <;> cases g <;> rfl

/-- the three stages of an unmarked cycle, as states -/
theorem cycle_unfold (c : Cfg) (inp : CycIn) (s : St) :
    cycle c inp s =
      if inp.marked then stopIf c (forgotten inp s) true .deleted inp.ex1
      else
        let s0 := forgotten inp s
        let sel := inp.matching && !s0.forever
        let s1 := if sel && s0.run.isNone && !s0.spawnBlocked c then spawn s0 else s0
        let ds := if c.escorts && sel && !s0.spawnBlocked c && s0.stopping then [c.polling] else []
        let p2 := stopIf c s1 (escorted c sel s0) .mismatch inp.ex1
        let dz := if c.escorts && sel && s0.flaggedMismatch && p2.1.run.isNone then [0] else []
        let p3 := stopIf c p2.1 inp.paused .pausing inp.ex2
        (p3.1, ds ++ p2.2 ++ dz ++ p3.2) := by
  cases hm : inp.marked
  case true => unfold cycle forgotten; simp only [hm, if_true]
  case false =>
    unfold cycle forgotten
    simp only [hm, Bool.false_eq_true, if_false, cycleCore]
    generalize (if inp.deleted = true then ({ s with known := false, goneAt := some s.now } : St) else s) = s0
    generalize (inp.matching && !s0.forever) = sel
    generalize s0.spawnBlocked c = bl
    rw [spawn_step_eq, spawn_delays_eq]
    simp only [revisit_eq]

theorem escorted_unselected (c : Cfg) (s : St) : escorted c false s = true := rfl

/-- What one processing cycle does to this handler id. -/
theorem cycle_spec {c : Cfg} {s : St} (h : Inv c s) (inp : CycIn) :
    let s' := (cycle c inp s).1
    Inv c s' ∧ s'.now = s.now ∧ (s.forever = true → s'.forever = true) ∧
    s'.known = (s.known && !inp.deleted) ∧
    s'.spawns = s.spawns + (if !inp.marked && inp.matching && !s.forever && s.run.isNone && !blockedIn c inp s then 1 else 0) ∧
    (∀ i i', s.run = some i → s'.run = some i' → Mono i i') ∧
    (inp.marked = true → ∀ i', s'.run = some i' → Reason.deleted ∈ i'.reasons) ∧
    (inp.marked = false → (inp.matching && !s.forever) = false → ∀ i', s'.run = some i' → Reason.mismatch ∈ i'.reasons) ∧
    (inp.marked = false → inp.paused = true → ∀ i', s'.run = some i' → Reason.pausing ∈ i'.reasons) := by
  intro s'
  have hs' : s' = (cycle c inp s).1 := rfl
  rw [cycle_unfold] at hs'
  have h0 := forgotten_inv h inp
  obtain ⟨e0n, e0r, e0f, e0s, e0k, _, _, _, _⟩ := forgotten_fields inp s
  have e0b := blocked_forgotten c inp s
  generalize forgotten inp s = s0 at hs' h0 e0n e0r e0f e0s e0k e0b
  cases hm : inp.marked with
  | true =>
    simp only [hm, if_true] at hs'
    obtain ⟨i1, ev, asked⟩ := stopIf_spec h0 (r := .deleted) rfl true inp.ex1
    rw [← hs'] at i1 ev asked
    refine ⟨i1, ev.now.trans e0n, fun hf => ev.foreverMono (e0f ▸ hf), ev.known.trans e0k, ?_, ?_, ?_, ?_, ?_⟩
    · simp [ev.spawns, e0s]
    · intro i i' hi hi'
      obtain ⟨j, hj, m, _⟩ := ev.same i' hi'
      rw [e0r, hi] at hj; cases hj; exact m
    · intro _ i' hi'; exact asked rfl i' hi'
    · intro hc; cases hc
    · intro hc; cases hc
  | false =>
    simp only [hm, Bool.false_eq_true, if_false] at hs'
    generalize hsel : (inp.matching && !s0.forever) = sel at hs'
    have hsel' : (inp.matching && !s.forever) = sel := by rw [← e0f]; exact hsel
    generalize hcond : (sel && s0.run.isNone && !s0.spawnBlocked c) = cond at hs'
    generalize hs1 : (if cond = true then spawn s0 else s0) = s1 at hs'
    have h1 : Inv c s1 := by
      subst hs1
      cases hcc : cond with
      | false => simp only [Bool.false_eq_true, if_false]; exact h0
      | true =>
        simp only [if_true]
        rw [hcc] at hcond
        simp only [Bool.and_eq_true, Option.isNone_iff_eq_none] at hcond
        have hff : s0.forever = false := by
          have := hcond.1.1
          rw [← hsel] at this
          simp only [Bool.and_eq_true, Bool.not_eq_true'] at this
          exact this.2
        exact spawn_inv h0 hcond.1.2 hff
    have e1 : s1.now = s0.now ∧ s1.forever = s0.forever ∧ s1.known = s0.known ∧
        s1.spawns = s0.spawns + (if cond = true then 1 else 0) ∧
        (∀ i, s0.run = some i → s1 = s0) := by
      subst hs1
      cases hcc : cond with
      | false => simp
      | true =>
        simp only [if_true]
        refine ⟨rfl, rfl, rfl, rfl, ?_⟩
        intro i hi
        rw [hcc] at hcond
        simp [hi] at hcond
    obtain ⟨e1n, e1f, e1k, e1s, e1same⟩ := e1
    generalize hesc : escorted c sel s0 = esc at hs'
    obtain ⟨h2, ev2, asked2⟩ := stopIf_spec h1 (r := .mismatch) rfl esc inp.ex1
    generalize hs2 : stopIf c s1 esc .mismatch inp.ex1 = p2 at hs' h2 ev2 asked2
    obtain ⟨s2, dm⟩ := p2
    obtain ⟨h3, ev3, asked3⟩ := stopIf_spec h2 (r := .pausing) rfl inp.paused inp.ex2
    generalize hs3 : stopIf c s2 inp.paused .pausing inp.ex2 = p3 at hs' h3 ev3 asked3
    obtain ⟨s3, dp⟩ := p3
    simp only at hs' h2 ev2 asked2 h3 ev3 asked3
    subst hs'
    have ev := ev2.trans ev3
    refine ⟨h3, ?_, ?_, ?_, ?_, ?_, ?_, ?_, ?_⟩
    · rw [ev.now, e1n, e0n]
    · intro hf; exact ev.foreverMono (by rw [e1f, e0f]; exact hf)
    · rw [ev.known, e1k, e0k]
    · rw [ev.spawns, e1s, e0s]
      congr 1
      rw [← hcond, ← hsel, e0r, e0f, e0b]
      simp
    · intro i i' hi hi'
      obtain ⟨j, hj, m, _⟩ := ev.same i' hi'
      have : s1 = s0 := e1same i (e0r ▸ hi)
      rw [this, e0r, hi] at hj; cases hj; exact m
    · intro hc; cases hc
    · intro _ hns i' hi'
      have hsf : sel = false := by rw [← hsel']; exact hns
      obtain ⟨j, hj, m, _⟩ := ev3.same i' hi'
      exact m.reasons _ (asked2 (by rw [← hesc, hsf]; rfl) j hj)
    · intro _ hp i' hi'
      exact asked3 hp i' hi'

/-- What a cycle leaves alone: the pause / exit state, the killer coroutines registered in a surviving
    instance; the DELETED event stamps `goneAt`; and a newly spawned instance is registered as running
    since now, with no coroutine. -/
theorem cycle_frame {c : Cfg} {s : St} (h : Inv c s) (inp : CycIn) :
    let s' := (cycle c inp s).1
    s'.paused = s.paused ∧ s'.killerDone = s.killerDone ∧
    (∀ i i', s.run = some i → s'.run = some i' → i'.kstarts = i.kstarts) ∧
    (s.run = none → ∀ i', s'.run = some i' → i'.since = s.now ∧ i'.kstarts = []) ∧
    s'.exitAt = s.exitAt ∧ s'.goneAt = (if inp.deleted then some s.now else s.goneAt) := by
  intro s'
  have hs' : s' = (cycle c inp s).1 := rfl
  rw [cycle_unfold] at hs'
  have h0 := forgotten_inv h inp
  obtain ⟨e0n, e0r, _, _, _, e0p, e0d, e0x, e0g⟩ := forgotten_fields inp s
  generalize forgotten inp s = s0 at hs' h0 e0n e0r e0p e0d e0x e0g
  cases hm : inp.marked with
  | true =>
    simp only [hm, if_true] at hs'
    obtain ⟨_, ev, _⟩ := stopIf_spec h0 (r := .deleted) rfl true inp.ex1
    rw [← hs'] at ev
    refine ⟨ev.paused.trans e0p, ev.killerDone.trans e0d, ?_, ?_, ev.exitAt.trans e0x, ev.goneAt.trans e0g⟩
    · intro i i' hi hi'
      obtain ⟨j, hj, _, k⟩ := ev.same i' hi'
      rw [e0r, hi] at hj; cases hj; exact k
    · intro hn i' hi'
      obtain ⟨j, hj, _, _⟩ := ev.same i' hi'
      rw [e0r, hn] at hj; cases hj
  | false =>
    simp only [hm, Bool.false_eq_true, if_false] at hs'
    generalize hsel : (inp.matching && !s0.forever) = sel at hs'
    generalize hcond : (sel && s0.run.isNone && !s0.spawnBlocked c) = cond at hs'
    generalize hs1 : (if cond = true then spawn s0 else s0) = s1 at hs'
    have h1 : Inv c s1 := by
      subst hs1
      cases hcc : cond with
      | false => simp only [Bool.false_eq_true, if_false]; exact h0
      | true =>
        simp only [if_true]
        rw [hcc] at hcond
        simp only [Bool.and_eq_true, Option.isNone_iff_eq_none] at hcond
        have hff : s0.forever = false := by
          have := hcond.1.1
          rw [← hsel] at this
          simp only [Bool.and_eq_true, Bool.not_eq_true'] at this
          exact this.2
        exact spawn_inv h0 hcond.1.2 hff
    have e1 : s1.paused = s0.paused ∧ s1.killerDone = s0.killerDone ∧ s1.exitAt = s0.exitAt ∧ s1.goneAt = s0.goneAt ∧
        (∀ i, s0.run = some i → s1 = s0) ∧
        (s0.run = none → s1.run = none ∨ s1.run = some (Inst.fresh s0.now)) := by
      subst hs1
      cases hcc : cond with
      | false => simp; exact fun hn => Or.inl hn
      | true =>
        simp only [if_true]
        refine ⟨rfl, rfl, rfl, rfl, ?_, fun _ => Or.inr rfl⟩
        intro i hi
        rw [hcc] at hcond
        simp [hi] at hcond
    obtain ⟨e1p, e1d, e1x, e1g, e1same, e1fresh⟩ := e1
    generalize hesc : escorted c sel s0 = esc at hs'
    obtain ⟨h2, ev2, _⟩ := stopIf_spec h1 (r := .mismatch) rfl esc inp.ex1
    generalize hs2 : stopIf c s1 esc .mismatch inp.ex1 = p2 at hs' h2 ev2
    obtain ⟨s2, dm⟩ := p2
    obtain ⟨_, ev3, _⟩ := stopIf_spec h2 (r := .pausing) rfl inp.paused inp.ex2
    generalize hs3 : stopIf c s2 inp.paused .pausing inp.ex2 = p3 at hs' ev3
    obtain ⟨s3, dp⟩ := p3
    simp only at hs' ev2 ev3
    subst hs'
    have ev := ev2.trans ev3
    refine ⟨(ev.paused.trans e1p).trans e0p, (ev.killerDone.trans e1d).trans e0d, ?_, ?_,
      (ev.exitAt.trans e1x).trans e0x, (ev.goneAt.trans e1g).trans e0g⟩
    · intro i i' hi hi'
      obtain ⟨j, hj, _, k⟩ := ev.same i' hi'
      have : s1 = s0 := e1same i (e0r ▸ hi)
      rw [this, e0r, hi] at hj; cases hj; exact k
    · intro hn i' hi'
      obtain ⟨j, hj, m, k⟩ := ev.same i' hi'
      rcases e1fresh (e0r ▸ hn) with h1n | h1f
      · rw [h1n] at hj; cases hj
      · rw [h1f] at hj; cases hj
        exact ⟨by rw [m.since]; simp [Inst.fresh, e0n], by rw [k]; rfl⟩

end Kopf.C09

namespace Kopf.C09

/-! ### Every label keeps the invariant -/

theorem init_inv (c : Cfg) (t0 : Tick) : Inv c (St.init t0) := by
  refine ⟨rfl, ?_, ?_⟩
  · intro i h; simp [St.init] at h
  · intro h; simp [St.init] at h

/-! ### What each label does (inversion of `step`) -/

/-- labels that touch neither the instance nor the memory: time, the pause toggle, the killer leaving -/
structure Frame (s s' : St) : Prop where
  run : s'.run = s.run
  forever : s.forever = true → s'.forever = true
  known : s'.known = s.known
  live : s'.live = s.live
  spawns : s'.spawns = s.spawns
  now : s.now ≤ s'.now
  goneAt : s'.goneAt = s.goneAt

theorem step_tick {c : Cfg} {s s' : St} {d : Nat} (hs : step c s (.tick d) = some s') :
    s' = { s with now := s.now + d } ∧ tickOk c s d = true := by
  simp only [step] at hs
  split at hs
  · rename_i hok; cases hs; exact ⟨rfl, hok⟩
  · cases hs

theorem step_pause {c : Cfg} {s s' : St} (hs : step c s .pause = some s') :
    s' = { s with paused := some s.now } ∧ s.paused = none := by
  simp only [step] at hs
  split at hs
  · rename_i hok; cases hs
    simp only [Bool.and_eq_true, Option.isNone_iff_eq_none] at hok
    exact ⟨rfl, hok.1⟩
  · cases hs

theorem step_resume {c : Cfg} {s s' : St} (hs : step c s .resume = some s') : s' = { s with paused := none } := by
  simp only [step] at hs
  split at hs
  · cases hs; rfl
  · cases hs

theorem step_kFinal {c : Cfg} {s s' : St} (hs : step c s .kFinal = some s') :
    s' = { s with killerDone := true } ∧ s.exitAt.isSome = true ∧ s.sweptForExit c = true := by
  simp only [step] at hs
  split at hs
  · rename_i hok; cases hs
    simp only [Bool.and_eq_true] at hok
    exact ⟨rfl, hok.1, hok.2⟩
  · cases hs

theorem step_exitBegin {c : Cfg} {s s' : St} (hs : step c s .exitBegin = some s') :
    s' = { s with exitAt := some s.now } ∧ s.exitAt = none ∧ s.killerDone = false := by
  simp only [step] at hs
  split at hs
  · rename_i hok; cases hs
    simp only [Bool.and_eq_true, Option.isNone_iff_eq_none, Bool.not_eq_true'] at hok
    exact ⟨rfl, hok.1, hok.2⟩
  · cases hs

theorem step_failForGood {c : Cfg} {s s' : St} (hs : step c s .failForGood = some s') :
    s' = { s with forever := true } ∧ s.run.isSome = true := by
  simp only [step] at hs
  split at hs
  · rename_i hok; cases hs; exact ⟨rfl, hok⟩
  · cases hs

theorem step_cycle {c : Cfg} {s s' : St} {inp : CycIn} (hs : step c s (.cycle inp) = some s') :
    s' = (cycle c inp s).1 ∧ s.known = true := by
  simp only [step] at hs
  split at hs
  · rename_i hk; cases hs; exact ⟨rfl, hk⟩
  · cases hs

theorem step_exit {c : Cfg} {s s' : St} (hs : step c s .exit = some s') : ∃ i, s.run = some i ∧ s' = endInst s i := by
  simp only [step] at hs
  cases hrun : s.run with
  | none => rw [hrun] at hs; cases hs
  | some i => rw [hrun] at hs; cases hs; exact ⟨i, rfl, rfl⟩

theorem mayBegin_primary {c : Cfg} {s : St} {r : Reason} (h : s.mayBegin c r = true) :
    r = .pausing ∨ r = .exiting ∨ r = .deleted := by
  cases r <;> simp [St.mayBegin] at h ⊢

theorem mayBegin_pausing {c : Cfg} {s : St} (h : s.mayBegin c .pausing = true) :
    s.known = true ∧ s.killerDone = false ∧ ∃ p, s.paused = some p ∧ isRound p s.now = true := by
  simp only [St.mayBegin, Bool.and_eq_true, Bool.not_eq_true'] at h
  obtain ⟨⟨hk, hd⟩, h2⟩ := h
  refine ⟨hk, hd, ?_⟩
  unfold St.atRound at h2
  cases hpz : s.paused with
  | none => rw [hpz] at h2; cases h2
  | some p => rw [hpz] at h2; exact ⟨p, rfl, h2⟩

theorem mayBegin_exiting {c : Cfg} {s : St} (h : s.mayBegin c .exiting = true) :
    s.known = true ∧ s.killerDone = false ∧ s.exitAt.isSome = true := by
  simp only [St.mayBegin, Bool.and_eq_true, Bool.not_eq_true'] at h
  exact ⟨h.1.1, h.1.2, h.2⟩

theorem mayBegin_deleted {c : Cfg} {s : St} (h : s.mayBegin c .deleted = true) :
    c.stopsGone = true ∧ s.goneAt = some s.now := by
  simp only [St.mayBegin, Bool.and_eq_true, beq_iff_eq] at h
  exact h

theorem step_kBegin {c : Cfg} {s s' : St} {r : Reason} (hs : step c s (.kBegin r) = some s') :
    ∃ i, s.run = some i ∧ s.mayBegin c r = true ∧
      s' = { s with run := some { i.set r s.now with kstarts := s.now :: i.kstarts } } := by
  simp only [step] at hs
  cases hrun : s.run with
  | none => rw [hrun] at hs; cases hs
  | some i =>
    rw [hrun] at hs
    simp only at hs
    by_cases hc : s.mayBegin c r = true
    · rw [if_pos hc] at hs
      cases hs
      exact ⟨i, rfl, hc, rfl⟩
    · rw [if_neg hc] at hs; cases hs

theorem step_kSignal {c : Cfg} {s s' : St} {st : Tick} (hs : step c s (.kSignal st) = some s') :
    ∃ i, s.run = some i ∧ st ∈ i.kstarts ∧ s' = { s with run := some (i.set .signalled s.now) } := by
  simp only [step] at hs
  cases hrun : s.run with
  | none => rw [hrun] at hs; cases hs
  | some i =>
    rw [hrun] at hs; simp only at hs
    split at hs
    · rename_i hc; cases hs; exact ⟨i, rfl, hc.1, rfl⟩
    · cases hs

theorem step_kCancel {c : Cfg} {s s' : St} {st : Tick} (hs : step c s (.kCancel st) = some s') :
    ∃ i, s.run = some i ∧ st ∈ i.kstarts ∧ c.timeout.isSome = true ∧ st + c.b0 ≤ s.now ∧
      s' = { s with run := some { i.set .cancelled s.now with cancelAt := some (i.cancelAt.getD s.now) } } := by
  simp only [step] at hs
  cases hrun : s.run with
  | none => rw [hrun] at hs; cases hs
  | some i =>
    rw [hrun] at hs; simp only at hs
    split at hs
    · rename_i hc; cases hs; exact ⟨i, rfl, hc.1, hc.2.1, hc.2.2, rfl⟩
    · cases hs

theorem step_kAbandon {c : Cfg} {s s' : St} {st : Tick} (hs : step c s (.kAbandon st) = some s') :
    ∃ i, s.run = some i ∧ st ∈ i.kstarts ∧ st + c.b0 + c.t0 ≤ s.now ∧
      s' = { s with run := some { i.set .abandoned s.now with abandonAt := some (i.abandonAt.getD s.now) } } := by
  simp only [step] at hs
  cases hrun : s.run with
  | none => rw [hrun] at hs; cases hs
  | some i =>
    rw [hrun] at hs; simp only at hs
    split at hs
    · rename_i hc; cases hs; exact ⟨i, rfl, hc.1, hc.2, rfl⟩
    · cases hs

/-- the labels that touch neither the instance nor the memory -/
def Label.isFrame : Label → Bool
  | .tick _ | .pause | .resume | .kFinal | .failForGood | .exitBegin => true
  | _ => false

theorem step_frame {c : Cfg} {s s' : St} (l : Label) (hs : step c s l = some s') (hl : l.isFrame = true) : Frame s s' := by
  cases l with
  | tick d =>
    obtain ⟨h1, _⟩ := step_tick hs; subst h1
    exact ⟨rfl, fun h => h, rfl, rfl, rfl, Int.le_add_of_nonneg_right (Int.natCast_nonneg d), rfl⟩
  | pause => obtain ⟨h1, _⟩ := step_pause hs; subst h1; exact ⟨rfl, fun h => h, rfl, rfl, rfl, Int.le_refl _, rfl⟩
  | resume => have h1 := step_resume hs; subst h1; exact ⟨rfl, fun h => h, rfl, rfl, rfl, Int.le_refl _, rfl⟩
  | kFinal => obtain ⟨h1, _⟩ := step_kFinal hs; subst h1; exact ⟨rfl, fun h => h, rfl, rfl, rfl, Int.le_refl _, rfl⟩
  | failForGood => obtain ⟨h1, _⟩ := step_failForGood hs; subst h1; exact ⟨rfl, fun _ => rfl, rfl, rfl, rfl, Int.le_refl _, rfl⟩
  | exitBegin => obtain ⟨h1, _⟩ := step_exitBegin hs; subst h1; exact ⟨rfl, fun h => h, rfl, rfl, rfl, Int.le_refl _, rfl⟩
  | cycle _ => cases hl
  | exit => cases hl
  | kBegin _ => cases hl
  | kSignal _ => cases hl
  | kCancel _ => cases hl
  | kAbandon _ => cases hl

theorem frame_inv {c : Cfg} {s s' : St} (h : Inv c s) (f : Frame s s') : Inv c s' := by
  refine ⟨?_, ?_, ?_⟩
  · rw [f.live, f.run]; exact h.live
  · intro i hi; rw [f.run] at hi; exact (h.inst i hi).mono f.now
  · intro hg; rw [f.goneAt] at hg; rw [f.known]; exact h.goneKnown hg

/-- an update of the running instance that keeps the invariant keeps the state invariant -/
theorem inst_update_inv {c : Cfg} {s : St} (h : Inv c s) {i j : Inst} (hi : s.run = some i)
    (hj : InstInv c s.now j) : Inv c { s with run := some j } := by
  refine ⟨?_, ?_, ?_⟩
  · have := h.live; simp [hi] at this; simp [this]
  · intro k hk; simp at hk; subst hk; exact hj
  · exact h.goneKnown

/-! ### Every label keeps the invariant -/

theorem step_inv {c : Cfg} {s s' : St} (h : Inv c s) (l : Label) (hs : step c s l = some s') : Inv c s' := by
  cases l with
  | tick d => exact frame_inv h (step_frame _ hs rfl)
  | pause => exact frame_inv h (step_frame _ hs rfl)
  | resume => exact frame_inv h (step_frame _ hs rfl)
  | kFinal => exact frame_inv h (step_frame _ hs rfl)
  | failForGood => exact frame_inv h (step_frame _ hs rfl)
  | exitBegin => exact frame_inv h (step_frame _ hs rfl)
  | cycle inp => obtain ⟨h1, _⟩ := step_cycle hs; subst h1; exact (cycle_spec h inp).1
  | exit => obtain ⟨i, hi, h1⟩ := step_exit hs; subst h1; exact endInst_inv h hi i
  | kBegin r =>
    obtain ⟨i, hi, hmb, h1⟩ := step_kBegin hs
    subst h1
    have hp : r.primary = true := by rcases mayBegin_primary hmb with h1 | h1 | h1 <;> subst h1 <;> rfl
    exact inst_update_inv h hi ((h.inst i hi).push_kstart r hp)
  | kSignal st =>
    obtain ⟨i, hi, hst, h1⟩ := step_kSignal hs
    subst h1
    have hii := h.inst i hi
    obtain ⟨w, hw, _, _⟩ := hii.kst st hst
    have hne : i.reasons ≠ [] := hii.unflagged (by simp [hw])
    exact inst_update_inv h hi (hii.set_plain _ (by decide) (by decide) (Or.inr (hii.prim hne)))
  | kCancel st =>
    obtain ⟨i, hi, hst, hto, hle, h1⟩ := step_kCancel hs
    subst h1
    have hii := h.inst i hi
    obtain ⟨w, hw, hws, _⟩ := hii.kst st hst
    have hne : i.reasons ≠ [] := hii.unflagged (by simp [hw])
    refine inst_update_inv h hi (hii.set_cancelled (hii.prim hne) ?_ hto)
    intro w' hw'
    rw [hw] at hw'; cases hw'
    generalize c.b0 = bb at *
    tick_omega
  | kAbandon st =>
    obtain ⟨i, hi, hst, hle, h1⟩ := step_kAbandon hs
    subst h1
    have hii := h.inst i hi
    obtain ⟨w, hw, hws, _⟩ := hii.kst st hst
    have hne : i.reasons ≠ [] := hii.unflagged (by simp [hw])
    refine inst_update_inv h hi (hii.set_abandoned (hii.prim hne) ?_)
    intro w' hw'
    rw [hw] at hw'; cases hw'
    generalize c.b0 = bb at *
    generalize c.t0 = tt at *
    tick_omega

theorem runs_inv {c : Cfg} : ∀ (ls : List Label) {s s' : St}, Inv c s → runs c s ls = some s' → Inv c s'
  | [], s, s', h, hr => by simp only [runs, Option.some.injEq] at hr; subst hr; exact h
  | l :: ls, s, s', h, hr => by
    simp only [runs] at hr
    cases hst : step c s l with
    | none => rw [hst] at hr; cases hr
    | some s1 =>
      rw [hst] at hr
      exact runs_inv ls (step_inv h l hst) hr

theorem reach_inv {c : Cfg} {s : St} (h : Reach c s) : Inv c s := by
  obtain ⟨t0, ls, hr⟩ := h
  exact runs_inv ls (init_inv c t0) hr

theorem runs_append {c : Cfg} : ∀ (l1 l2 : List Label) (s : St),
    runs c s (l1 ++ l2) = (runs c s l1).bind (fun s1 => runs c s1 l2)
  | [], l2, s => by simp [runs]
  | l :: l1, l2, s => by
    simp only [List.cons_append, runs]
    cases step c s l with
    | none => simp
    | some s1 => simpa using runs_append l1 l2 s1

theorem reach_step {c : Cfg} {s s' : St} (h : Reach c s) (l : Label) (hs : step c s l = some s') : Reach c s' := by
  obtain ⟨t0, ls, hr⟩ := h
  refine ⟨t0, ls ++ [l], ?_⟩
  rw [runs_append, hr]
  simp [runs, hs]

/-! ### Per-label facts used by the property theorems -/

theorem set_mono (i : Inst) (r : Reason) (now : Tick) : Mono i (i.set r now) :=
  ⟨fun _ hx => mem_set.mpr (Or.inl hx), fun w hw => by simp [set_when, hw], fun _ h => h, fun _ h => h, fun _ h => h, rfl⟩

theorem step_mono {c : Cfg} {s s' : St} (h : Inv c s) (l : Label) (hs : step c s l = some s')
    {i i' : Inst} (hi : s.run = some i) (hi' : s'.run = some i') : Mono i i' := by
  cases l with
  | tick d => have f := step_frame _ hs rfl; rw [f.run, hi] at hi'; cases hi'; exact Mono.refl i
  | pause => have f := step_frame _ hs rfl; rw [f.run, hi] at hi'; cases hi'; exact Mono.refl i
  | resume => have f := step_frame _ hs rfl; rw [f.run, hi] at hi'; cases hi'; exact Mono.refl i
  | kFinal => have f := step_frame _ hs rfl; rw [f.run, hi] at hi'; cases hi'; exact Mono.refl i
  | failForGood => have f := step_frame _ hs rfl; rw [f.run, hi] at hi'; cases hi'; exact Mono.refl i
  | exitBegin => have f := step_frame _ hs rfl; rw [f.run, hi] at hi'; cases hi'; exact Mono.refl i
  | cycle inp => obtain ⟨h1, _⟩ := step_cycle hs; subst h1; exact (cycle_spec h inp).2.2.2.2.2.1 i i' hi hi'
  | exit => obtain ⟨j, _, h1⟩ := step_exit hs; subst h1; simp [endInst] at hi'
  | kBegin r =>
    obtain ⟨j, hj, _, h1⟩ := step_kBegin hs
    subst h1; rw [hi] at hj; cases hj
    simp at hi'; subst hi'
    exact ⟨(set_mono i r s.now).reasons, (set_mono i r s.now).when, fun _ h => h, fun _ h => h,
      fun st hst => List.mem_cons_of_mem _ hst, rfl⟩
  | kSignal st =>
    obtain ⟨j, hj, _, h1⟩ := step_kSignal hs
    subst h1; rw [hi] at hj; cases hj
    simp at hi'; subst hi'; exact set_mono i _ _
  | kCancel st =>
    obtain ⟨j, hj, _, _, _, h1⟩ := step_kCancel hs
    subst h1; rw [hi] at hj; cases hj
    simp at hi'; subst hi'
    refine ⟨(set_mono i .cancelled s.now).reasons, (set_mono i .cancelled s.now).when, ?_, fun _ h => h, fun _ h => h, rfl⟩
    intro t ht; simp [ht]
  | kAbandon st =>
    obtain ⟨j, hj, _, _, h1⟩ := step_kAbandon hs
    subst h1; rw [hi] at hj; cases hj
    simp at hi'; subst hi'
    refine ⟨(set_mono i .abandoned s.now).reasons, (set_mono i .abandoned s.now).when, fun _ h => h, ?_, fun _ h => h, rfl⟩
    intro t ht; simp [ht]

/-- a spawn happens in exactly one kind of step -/
theorem step_spawns {c : Cfg} {s s' : St} (h : Inv c s) (l : Label) (hs : step c s l = some s') :
    s'.spawns = s.spawns + (match l with
      | .cycle inp => if !inp.marked && inp.matching && !s.forever && s.run.isNone && !blockedIn c inp s then 1 else 0
      | _ => 0) := by
  cases l with
  | tick d => simp [(step_frame _ hs rfl).spawns]
  | pause => simp [(step_frame _ hs rfl).spawns]
  | resume => simp [(step_frame _ hs rfl).spawns]
  | kFinal => simp [(step_frame _ hs rfl).spawns]
  | failForGood => simp [(step_frame _ hs rfl).spawns]
  | exitBegin => simp [(step_frame _ hs rfl).spawns]
  | cycle inp => obtain ⟨h1, _⟩ := step_cycle hs; subst h1; exact (cycle_spec h inp).2.2.2.2.1
  | exit => obtain ⟨j, _, h1⟩ := step_exit hs; subst h1; simp [endInst]
  | kBegin r => obtain ⟨j, _, _, h1⟩ := step_kBegin hs; subst h1; simp
  | kSignal st => obtain ⟨j, _, _, h1⟩ := step_kSignal hs; subst h1; simp
  | kCancel st => obtain ⟨j, _, _, _, _, h1⟩ := step_kCancel hs; subst h1; simp
  | kAbandon st => obtain ⟨j, _, _, _, h1⟩ := step_kAbandon hs; subst h1; simp

theorem step_forever {c : Cfg} {s s' : St} (h : Inv c s) (l : Label) (hs : step c s l = some s')
    (hf : s.forever = true) : s'.forever = true := by
  cases l with
  | tick d => exact (step_frame _ hs rfl).forever hf
  | pause => exact (step_frame _ hs rfl).forever hf
  | resume => exact (step_frame _ hs rfl).forever hf
  | kFinal => exact (step_frame _ hs rfl).forever hf
  | failForGood => exact (step_frame _ hs rfl).forever hf
  | exitBegin => exact (step_frame _ hs rfl).forever hf
  | cycle inp => obtain ⟨h1, _⟩ := step_cycle hs; subst h1; exact (cycle_spec h inp).2.2.1 hf
  | exit => obtain ⟨j, _, h1⟩ := step_exit hs; subst h1; simp [endInst, hf]
  | kBegin r => obtain ⟨j, _, _, h1⟩ := step_kBegin hs; subst h1; exact hf
  | kSignal st => obtain ⟨j, _, _, h1⟩ := step_kSignal hs; subst h1; exact hf
  | kCancel st => obtain ⟨j, _, _, _, _, h1⟩ := step_kCancel hs; subst h1; exact hf
  | kAbandon st => obtain ⟨j, _, _, _, h1⟩ := step_kAbandon hs; subst h1; exact hf

theorem cycle_run_none (c : Cfg) (inp : CycIn) (s : St) (hn : s.run = none)
    (hc : (!inp.marked && inp.matching && !s.forever && !blockedIn c inp s) = false) : (cycle c inp s).1.run = none := by
  rw [cycle_unfold]
  have hb := blocked_forgotten c inp s
  obtain ⟨_, e0r, e0f, _⟩ := forgotten_fields inp s
  generalize forgotten inp s = s0 at hb e0r e0f
  generalize blockedIn c inp s = bl at hb hc
  rw [← e0r] at hn; rw [← e0f] at hc
  unfold stopIf
  cases hm : inp.marked <;> cases hma : inp.matching <;> cases hf : s0.forever <;> cases hbl : bl <;>
    simp_all

/-- the instance does not come back without a spawn -/
theorem step_run_none {c : Cfg} {s s' : St} (h : Inv c s) (l : Label) (hs : step c s l = some s')
    (hn : s.run = none) (hsp : s'.spawns = s.spawns) : s'.run = none := by
  cases l with
  | tick d => rw [(step_frame _ hs rfl).run]; exact hn
  | pause => rw [(step_frame _ hs rfl).run]; exact hn
  | resume => rw [(step_frame _ hs rfl).run]; exact hn
  | kFinal => rw [(step_frame _ hs rfl).run]; exact hn
  | failForGood => rw [(step_frame _ hs rfl).run]; exact hn
  | exitBegin => rw [(step_frame _ hs rfl).run]; exact hn
  | cycle inp =>
    obtain ⟨h1, _⟩ := step_cycle hs
    subst h1
    cases hr : (cycle c inp s).1.run with
    | none => rfl
    | some i' =>
      exfalso
      -- an instance out of nothing is a spawn
      have hsp' := (cycle_spec h inp).2.2.2.2.1
      rw [hsp] at hsp'
      by_cases hc : (!inp.marked && inp.matching && !s.forever && s.run.isNone && !blockedIn c inp s) = true
      · simp [hc] at hsp'
      · -- no spawn: the cycle only stops what runs, and nothing runs
        have hc' : (!inp.marked && inp.matching && !s.forever && !blockedIn c inp s) = false := by
          simpa [hn] using hc
        rw [cycle_run_none c inp s hn hc'] at hr; cases hr
  | exit => obtain ⟨j, hj, _⟩ := step_exit hs; rw [hn] at hj; cases hj
  | kBegin r => obtain ⟨j, hj, _⟩ := step_kBegin hs; rw [hn] at hj; cases hj
  | kSignal st => obtain ⟨j, hj, _⟩ := step_kSignal hs; rw [hn] at hj; cases hj
  | kCancel st => obtain ⟨j, hj, _⟩ := step_kCancel hs; rw [hn] at hj; cases hj
  | kAbandon st => obtain ⟨j, hj, _⟩ := step_kAbandon hs; rw [hn] at hj; cases hj

/-- Once in `forever_stopped`: never a spawn again; and if nothing runs, nothing ever runs again. -/
theorem runs_forever {c : Cfg} : ∀ (ls : List Label) {s s' : St}, Inv c s → s.forever = true →
    runs c s ls = some s' → s'.forever = true ∧ s'.spawns = s.spawns ∧ (s.run = none → s'.run = none ∧ s'.live = 0)
  | [], s, s', h, hf, hr => by
    simp only [runs, Option.some.injEq] at hr; subst hr
    refine ⟨hf, rfl, fun hn => ⟨hn, ?_⟩⟩
    have hl := h.live
    simpa [hn] using hl
  | l :: ls, s, s', h, hf, hr => by
    simp only [runs] at hr
    cases hst : step c s l with
    | none => rw [hst] at hr; cases hr
    | some s1 =>
      rw [hst] at hr
      have h1 := step_inv h l hst
      have hf1 := step_forever h l hst hf
      obtain ⟨a, b, d⟩ := runs_forever ls h1 hf1 hr
      have hsp : s1.spawns = s.spawns := by
        rw [step_spawns h l hst]
        cases l <;> simp [hf]
      exact ⟨a, b.trans hsp, fun hn => d (step_run_none h l hst hn hsp)⟩

/-! ### The unmarked disappearance: nobody ever asks the instance to stop -/

theorem orphan_step {c : Cfg} {s s' : St} (hc : c.stopsGone = false) (ho : Orphan s) (l : Label) (hs : step c s l = some s') : Orphan s' := by
  obtain ⟨hk, hi⟩ := ho
  have frame : Frame s s' → Orphan s' := fun f => ⟨by rw [f.known]; exact hk, fun i hi' => hi i (f.run ▸ hi')⟩
  cases l with
  | tick d => exact frame (step_frame _ hs rfl)
  | pause => exact frame (step_frame _ hs rfl)
  | resume => exact frame (step_frame _ hs rfl)
  | kFinal => exact frame (step_frame _ hs rfl)
  | failForGood => exact frame (step_frame _ hs rfl)
  | exitBegin => exact frame (step_frame _ hs rfl)
  | cycle inp => obtain ⟨_, hkk⟩ := step_cycle hs; rw [hk] at hkk; cases hkk
  | exit => obtain ⟨j, _, h1⟩ := step_exit hs; subst h1; exact ⟨hk, fun k hk' => by simp [endInst] at hk'⟩
  | kBegin r =>
    obtain ⟨j, _, hmb, _⟩ := step_kBegin hs
    exfalso
    rcases mayBegin_primary hmb with h1 | h1 | h1 <;> subst h1
    · have := (mayBegin_pausing hmb).1; rw [hk] at this; cases this
    · have := (mayBegin_exiting hmb).1; rw [hk] at this; cases this
    · have := (mayBegin_deleted hmb).1; rw [hc] at this; cases this
  | kSignal st => obtain ⟨j, hj, hst, _⟩ := step_kSignal hs; rw [(hi j hj).2] at hst; cases hst
  | kCancel st => obtain ⟨j, hj, hst, _⟩ := step_kCancel hs; rw [(hi j hj).2] at hst; cases hst
  | kAbandon st => obtain ⟨j, hj, hst, _⟩ := step_kAbandon hs; rw [(hi j hj).2] at hst; cases hst

theorem orphan_runs {c : Cfg} (hc : c.stopsGone = false) : ∀ (ls : List Label) {s s' : St}, Orphan s → runs c s ls = some s' → Orphan s'
  | [], s, s', h, hr => by simp only [runs, Option.some.injEq] at hr; subst hr; exact h
  | l :: ls, s, s', h, hr => by
    simp only [runs] at hr
    cases hst : step c s l with
    | none => rw [hst] at hr; cases hr
    | some s1 => rw [hst] at hr; exact orphan_runs hc ls (orphan_step hc h l hst) hr

end Kopf.C09
