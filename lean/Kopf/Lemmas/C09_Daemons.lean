/-
  C09 helper lemmas: the per-instance invariant, its preservation by `FlagSetter.set`, by
  `stop_daemons` for one daemon, by a processing cycle and by every label.
-/
import Kopf.Model.C09_Daemons
namespace Kopf.C09

/-- `omega` does not look through the `Tick` abbreviation -/
macro "tick_omega" : tactic => `(tactic| first | omega | (unfold Tick at *; omega))

def Reason.secondary : Reason → Bool
  | .signalled | .cancelled | .abandoned => true
  | _ => false

/-! ### `FlagSetter.set` -/

theorem mem_set {i : Inst} {r x : Reason} {now : Tick} :
    x ∈ (i.set r now).reasons ↔ x ∈ i.reasons ∨ x = r := by
  unfold Inst.set
  by_cases h : r ∈ i.reasons
  · simp only [h, if_true]
    constructor
    · exact Or.inl
    · rintro (h' | h')
      · exact h'
      · exact h' ▸ h
  · simp only [h, if_false, List.mem_append, List.mem_singleton]

theorem set_when (i : Inst) (r : Reason) (now : Tick) : (i.set r now).when = some (i.when.getD now) := rfl
theorem set_cancelAt (i : Inst) (r : Reason) (now : Tick) : (i.set r now).cancelAt = i.cancelAt := rfl
theorem set_abandonAt (i : Inst) (r : Reason) (now : Tick) : (i.set r now).abandonAt = i.abandonAt := rfl
theorem set_kstarts (i : Inst) (r : Reason) (now : Tick) : (i.set r now).kstarts = i.kstarts := rfl

theorem set_reasons_ne_nil (i : Inst) (r : Reason) (now : Tick) : (i.set r now).reasons ≠ [] := by
  intro h
  have : r ∈ (i.set r now).reasons := mem_set.mpr (Or.inr rfl)
  rw [h] at this
  cases this

/-! ### The per-instance invariant -/

structure InstInv (c : Cfg) (now : Tick) (i : Inst) : Prop where
  whenLe : ∀ w, i.when = some w → w ≤ now
  flagged : i.reasons ≠ [] → i.when.isSome = true
  unflagged : i.when.isSome = true → i.reasons ≠ []
  kst : ∀ st ∈ i.kstarts, ∃ w, i.when = some w ∧ w ≤ st ∧ st ≤ now
  canc : ∀ t, i.cancelAt = some t → ∃ w, i.when = some w ∧ w + c.b0 ≤ t ∧ t ≤ now
  aban : ∀ t, i.abandonAt = some t → ∃ w, i.when = some w ∧ w + c.b0 + c.t0 ≤ t ∧ t ≤ now
  prim : i.reasons ≠ [] → ∃ p ∈ i.reasons, p.primary = true
  cancIff : Reason.cancelled ∈ i.reasons ↔ i.cancelAt.isSome = true
  abanIff : Reason.abandoned ∈ i.reasons ↔ i.abandonAt.isSome = true

theorem InstInv.fresh (c : Cfg) (now : Tick) : InstInv c now Inst.fresh := by
  refine ⟨?_, ?_, ?_, ?_, ?_, ?_, ?_, ?_, ?_⟩ <;> simp [Inst.fresh]

theorem InstInv.mono {c : Cfg} {now now' : Tick} {i : Inst} (h : InstInv c now i) (hle : now ≤ now') :
    InstInv c now' i := by
  refine ⟨?_, h.flagged, h.unflagged, ?_, ?_, ?_, h.prim, h.cancIff, h.abanIff⟩
  · intro w hw; exact Int.le_trans (h.whenLe w hw) hle
  · intro st hst
    obtain ⟨w, h1, h2, h3⟩ := h.kst st hst
    exact ⟨w, h1, h2, Int.le_trans h3 hle⟩
  · intro t ht
    obtain ⟨w, h1, h2, h3⟩ := h.canc t ht
    exact ⟨w, h1, h2, Int.le_trans h3 hle⟩
  · intro t ht
    obtain ⟨w, h1, h2, h3⟩ := h.aban t ht
    exact ⟨w, h1, h2, Int.le_trans h3 hle⟩

/-- the `when` of a stopper after `set` is its old `when`, or `now` -/
theorem set_when_cases (i : Inst) (r : Reason) (now : Tick) :
    (∃ w, i.when = some w ∧ (i.set r now).when = some w) ∨ (i.when = none ∧ (i.set r now).when = some now) := by
  cases hw : i.when with
  | none => right; simp [set_when, hw]
  | some w => left; exact ⟨w, rfl, by simp [set_when, hw]⟩

theorem getD_when_le {c : Cfg} {now : Tick} {i : Inst} (h : InstInv c now i) : i.when.getD now ≤ now := by
  cases hw : i.when with
  | none => simp
  | some w => simpa using h.whenLe w hw

/-- Setting a reason that is neither CANCELLED nor ABANDONED keeps the invariant, provided a
    secondary reason is only set when a primary one is present. -/
theorem InstInv.set_plain {c : Cfg} {now : Tick} {i : Inst} (h : InstInv c now i) (r : Reason)
    (hr1 : r ≠ .cancelled) (hr2 : r ≠ .abandoned)
    (hp : r.primary = true ∨ ∃ p ∈ i.reasons, p.primary = true) :
    InstInv c now (i.set r now) := by
  have hwl := getD_when_le h
  refine ⟨?_, ?_, ?_, ?_, ?_, ?_, ?_, ?_, ?_⟩
  · intro w hw
    rw [set_when] at hw
    cases hw
    exact hwl
  · intro _; simp [set_when]
  · intro _; exact set_reasons_ne_nil i r now
  · intro st hst
    rw [set_kstarts] at hst
    obtain ⟨w, h1, h2, h3⟩ := h.kst st hst
    exact ⟨w, by simp [set_when, h1], h2, h3⟩
  · intro t ht
    rw [set_cancelAt] at ht
    obtain ⟨w, h1, h2, h3⟩ := h.canc t ht
    exact ⟨w, by simp [set_when, h1], h2, h3⟩
  · intro t ht
    rw [set_abandonAt] at ht
    obtain ⟨w, h1, h2, h3⟩ := h.aban t ht
    exact ⟨w, by simp [set_when, h1], h2, h3⟩
  · intro _
    rcases hp with hp | ⟨p, hp1, hp2⟩
    · exact ⟨r, mem_set.mpr (Or.inr rfl), hp⟩
    · exact ⟨p, mem_set.mpr (Or.inl hp1), hp2⟩
  · rw [set_cancelAt, ← h.cancIff]
    constructor
    · intro hx
      rcases mem_set.mp hx with hx | hx
      · exact hx
      · exact absurd hx.symm hr1
    · intro hx; exact mem_set.mpr (Or.inl hx)
  · rw [set_abandonAt, ← h.abanIff]
    constructor
    · intro hx
      rcases mem_set.mp hx with hx | hx
      · exact hx
      · exact absurd hx.symm hr2
    · intro hx; exact mem_set.mpr (Or.inl hx)

/-- DAEMON_CANCELLED + `task.cancel()`: allowed once the flag is at least `backoff` old. -/
theorem InstInv.set_cancelled {c : Cfg} {now : Tick} {i : Inst} (h : InstInv c now i)
    (hp : ∃ p ∈ i.reasons, p.primary = true)
    (hage : ∀ w, i.when = some w → w + c.b0 ≤ now) :
    InstInv c now { i.set .cancelled now with cancelAt := some (i.cancelAt.getD now) } := by
  obtain ⟨p, hp1, hp2⟩ := hp
  have hne : i.reasons ≠ [] := by intro h0; rw [h0] at hp1; cases hp1
  have hws := h.flagged hne
  obtain ⟨w, hw⟩ := Option.isSome_iff_exists.mp hws
  refine ⟨?_, ?_, ?_, ?_, ?_, ?_, ?_, ?_, ?_⟩
  · intro w' hw'
    simp only [set_when, hw, Option.getD_some, Option.some.injEq] at hw'
    subst hw'; exact h.whenLe w hw
  · intro _; simp [set_when]
  · intro _; exact set_reasons_ne_nil i _ now
  · intro st hst
    simp only [set_kstarts] at hst
    obtain ⟨w', h1, h2, h3⟩ := h.kst st hst
    exact ⟨w', by simp [set_when, h1], h2, h3⟩
  · intro t ht
    simp only [Option.some.injEq] at ht
    cases hc : i.cancelAt with
    | none =>
      rw [hc] at ht
      simp only [Option.getD_none] at ht
      subst ht
      exact ⟨w, by simp [set_when, hw], hage w hw, Int.le_refl _⟩
    | some t0 =>
      rw [hc] at ht
      simp only [Option.getD_some] at ht
      subst ht
      obtain ⟨w', h1, h2, h3⟩ := h.canc t0 hc
      exact ⟨w', by simp [set_when, h1], h2, h3⟩
  · intro t ht
    simp only [set_abandonAt] at ht
    obtain ⟨w', h1, h2, h3⟩ := h.aban t ht
    exact ⟨w', by simp [set_when, h1], h2, h3⟩
  · intro _
    exact ⟨p, (mem_set (i := i) (r := .cancelled) (now := now)).mpr (Or.inl hp1), hp2⟩
  · constructor
    · intro _; rfl
    · intro _; exact (mem_set (i := i) (r := .cancelled) (now := now)).mpr (Or.inr rfl)
  · simp only [set_abandonAt]
    rw [← h.abanIff]
    constructor
    · intro hx
      rcases mem_set.mp hx with hx | hx
      · exact hx
      · cases hx
    · intro hx; exact mem_set.mpr (Or.inl hx)

/-- DAEMON_ABANDONED: allowed once the flag is at least `backoff + timeout` old. -/
theorem InstInv.set_abandoned {c : Cfg} {now : Tick} {i : Inst} (h : InstInv c now i)
    (hp : ∃ p ∈ i.reasons, p.primary = true)
    (hage : ∀ w, i.when = some w → w + c.b0 + c.t0 ≤ now) :
    InstInv c now { i.set .abandoned now with abandonAt := some (i.abandonAt.getD now) } := by
  obtain ⟨p, hp1, hp2⟩ := hp
  have hne : i.reasons ≠ [] := by intro h0; rw [h0] at hp1; cases hp1
  have hws := h.flagged hne
  obtain ⟨w, hw⟩ := Option.isSome_iff_exists.mp hws
  refine ⟨?_, ?_, ?_, ?_, ?_, ?_, ?_, ?_, ?_⟩
  · intro w' hw'
    simp only [set_when, hw, Option.getD_some, Option.some.injEq] at hw'
    subst hw'; exact h.whenLe w hw
  · intro _; simp [set_when]
  · intro _; exact set_reasons_ne_nil i _ now
  · intro st hst
    simp only [set_kstarts] at hst
    obtain ⟨w', h1, h2, h3⟩ := h.kst st hst
    exact ⟨w', by simp [set_when, h1], h2, h3⟩
  · intro t ht
    simp only [set_cancelAt] at ht
    obtain ⟨w', h1, h2, h3⟩ := h.canc t ht
    exact ⟨w', by simp [set_when, h1], h2, h3⟩
  · intro t ht
    simp only [Option.some.injEq] at ht
    cases hc : i.abandonAt with
    | none =>
      rw [hc] at ht
      simp only [Option.getD_none] at ht
      subst ht
      exact ⟨w, by simp [set_when, hw], hage w hw, Int.le_refl _⟩
    | some t0 =>
      rw [hc] at ht
      simp only [Option.getD_some] at ht
      subst ht
      obtain ⟨w', h1, h2, h3⟩ := h.aban t0 hc
      exact ⟨w', by simp [set_when, h1], h2, h3⟩
  · intro _
    exact ⟨p, (mem_set (i := i) (r := .abandoned) (now := now)).mpr (Or.inl hp1), hp2⟩
  · simp only [set_cancelAt]
    rw [← h.cancIff]
    constructor
    · intro hx
      rcases mem_set.mp hx with hx | hx
      · exact hx
      · cases hx
    · intro hx; exact mem_set.mpr (Or.inl hx)
  · constructor
    · intro _; rfl
    · intro _; exact (mem_set (i := i) (r := .abandoned) (now := now)).mpr (Or.inr rfl)

/-- registering a daemon-killer coroutine that has just set its (primary) reason -/
theorem InstInv.push_kstart {c : Cfg} {now : Tick} {i : Inst} (h : InstInv c now i) (r : Reason)
    (hr : r.primary = true) :
    InstInv c now { i.set r now with kstarts := now :: i.kstarts } := by
  have hr1 : r ≠ .cancelled := by intro h0; subst h0; cases hr
  have hr2 : r ≠ .abandoned := by intro h0; subst h0; cases hr
  have h' := h.set_plain r hr1 hr2 (Or.inl hr)
  refine ⟨h'.whenLe, h'.flagged, h'.unflagged, ?_, h'.canc, h'.aban, h'.prim, h'.cancIff, h'.abanIff⟩
  intro st hst
  simp only [List.mem_cons] at hst
  rcases hst with hst | hst
  · subst hst
    exact ⟨i.when.getD st, rfl, getD_when_le h, Int.le_refl _⟩
  · exact h'.kst st (by simpa [set_kstarts] using hst)

/-! ### The stage chain -/

def actDone : Act := { set := none, cancel := false, wait := false, delay := none, delayIfAlive := false }
def actSignal : Act := { set := some .signalled, cancel := false, wait := true, delay := some .backoffLeft, delayIfAlive := true }
def actCancel : Act := { set := some .cancelled, cancel := true, wait := true, delay := some .deadlineLeft, delayIfAlive := true }
def actAbandon : Act := { set := some .abandoned, cancel := false, wait := false, delay := none, delayIfAlive := false }
def actPoll : Act := { set := none, cancel := false, wait := false, delay := some .polling, delayIfAlive := false }

theorem stage_cases (a : Atoms) :
    (a.taskDone = true ∧ stage a = actDone) ∨
    (a.taskDone = false ∧ a.backoffSome = true ∧ a.ageLtBackoff = true ∧ stage a = actSignal) ∨
    (a.taskDone = false ∧ (a.backoffSome && a.ageLtBackoff) = false ∧ a.timeoutSome = true ∧ a.ageLtDeadline = true ∧ stage a = actCancel) ∨
    (a.taskDone = false ∧ (a.backoffSome && a.ageLtBackoff) = false ∧ a.timeoutSome = true ∧ a.ageLtDeadline = false ∧ stage a = actAbandon) ∨
    (a.taskDone = false ∧ (a.backoffSome && a.ageLtBackoff) = false ∧ a.timeoutSome = false ∧ stage a = actPoll) := by
  rcases a with ⟨d, b, ab, t, at'⟩
  cases d <;> cases b <;> cases ab <;> cases t <;> cases at' <;> simp [stage, actDone, actSignal, actCancel, actAbandon, actPoll]

/-- the flag's age in terms of `when` once it is surely set -/
theorem age_of_when {c : Cfg} {now : Tick} {i : Inst} (_h : InstInv c now i) (r : Reason) :
    ∀ w, (if r ∈ i.reasons then i else i.set r now).when = some w → age i now = now - w := by
  intro w hw
  by_cases hr : r ∈ i.reasons
  · simp only [hr, if_true] at hw
    simp [age, hw]
  · simp only [hr, if_false, set_when] at hw
    cases hwi : i.when with
    | none =>
      rw [hwi] at hw
      simp only [Option.getD_none, Option.some.injEq] at hw
      subst hw
      simp [age, hwi]
    | some w0 =>
      rw [hwi] at hw
      simp only [Option.getD_some, Option.some.injEq] at hw
      subst hw
      simp [age, hwi]

/-- What `stop_daemons` guarantees for one daemon. -/
inductive StopSpec (c : Cfg) (now : Tick) (r : Reason) (i : Inst) : Out → Prop
  | alive (i' : Inst) (d : Option Tick)
      (inv : InstInv c now i') (asked : r ∈ i'.reasons)
      (mono : ∀ x ∈ i.reasons, x ∈ i'.reasons)
      (whenKept : ∀ w, i.when = some w → i'.when = some w)
      (cancKept : ∀ t, i.cancelAt = some t → i'.cancelAt = some t)
      (abanKept : ∀ t, i.abandonAt = some t → i'.abandonAt = some t)
      (ksKept : i'.kstarts = i.kstarts) : StopSpec c now r i (.alive i' d)
  | ended (i' : Inst) (mono : ∀ x ∈ i.reasons, x ∈ i'.reasons) : StopSpec c now r i (.ended i')

end Kopf.C09

namespace Kopf.C09

theorem applySet_signal (i : Inst) (now : Tick) :
    (applySet actSignal i now).1 = if Reason.signalled ∈ i.reasons then i else i.set .signalled now := by
  unfold applySet actSignal
  by_cases h : Reason.signalled ∈ i.reasons <;> simp [h]

theorem applySet_cancel (i : Inst) (now : Tick) :
    (applySet actCancel i now).1 = if Reason.cancelled ∈ i.reasons then i
      else { i.set .cancelled now with cancelAt := some (i.cancelAt.getD now) } := by
  unfold applySet actCancel
  by_cases h : Reason.cancelled ∈ i.reasons <;> simp [h, set_cancelAt]

theorem applySet_abandon (i : Inst) (now : Tick) :
    (applySet actAbandon i now).1 = if Reason.abandoned ∈ i.reasons then i
      else { i.set .abandoned now with abandonAt := some (i.abandonAt.getD now) } := by
  unfold applySet actAbandon
  by_cases h : Reason.abandoned ∈ i.reasons <;> simp [h, set_abandonAt]

theorem applySet_kstarts (act : Act) (i : Inst) (now : Tick) : (applySet act i now).1.kstarts = i.kstarts := by
  unfold applySet
  cases act.set with
  | none => rfl
  | some r =>
    by_cases h : r ∈ i.reasons
    · simp [h]
    · simp only [h, if_false]
      cases act.cancel <;> by_cases h2 : r = Reason.abandoned <;> simp [h2, set_kstarts]

theorem applySet_poll (i : Inst) (now : Tick) : (applySet actPoll i now).1 = i := by
  simp [applySet, actPoll]

theorem primary_ne {r : Reason} (h : r.primary = true) : r ≠ .cancelled ∧ r ≠ .abandoned ∧ r ≠ .signalled := by
  cases r <;> simp [Reason.primary] at h ⊢

/-- facts about the instance after the primary reason is surely set -/
theorem sure_set {c : Cfg} {now : Tick} {i : Inst} (h : InstInv c now i) {r : Reason} (hr : r.primary = true) :
    let i1 := if r ∈ i.reasons then i else i.set r now
    InstInv c now i1 ∧ r ∈ i1.reasons ∧ (∀ x ∈ i.reasons, x ∈ i1.reasons) ∧
      (∀ w, i.when = some w → i1.when = some w) ∧ i1.cancelAt = i.cancelAt ∧ i1.abandonAt = i.abandonAt ∧
      i1.kstarts = i.kstarts := by
  intro i1
  obtain ⟨h1, h2, _⟩ := primary_ne hr
  by_cases hm : r ∈ i.reasons
  · have : i1 = i := by simp [i1, hm]
    rw [this]
    exact ⟨h, hm, fun _ hx => hx, fun _ hw => hw, rfl, rfl, rfl⟩
  · have : i1 = i.set r now := by simp [i1, hm]
    rw [this]
    refine ⟨h.set_plain r h1 h2 (Or.inl hr), mem_set.mpr (Or.inr rfl), fun x hx => mem_set.mpr (Or.inl hx), ?_, rfl, rfl, rfl⟩
    intro w hw
    simp [set_when, hw]

theorem stopOne_spec {c : Cfg} {now : Tick} {i : Inst} (h : InstInv c now i) {r : Reason}
    (hr : r.primary = true) (ex : Ex) : StopSpec c now r i (stopOne c now r i ex) := by
  unfold stopOne
  by_cases h0 : ex.d0 = true
  · simp only [h0, if_true]
    exact .ended i (fun _ hx => hx)
  · have hd0 : ex.d0 = false := by simpa using h0
    obtain ⟨hinv1, hask, hmono, hwhen, hc1, ha1, hk1⟩ := sure_set h hr
    have hage := age_of_when h r
    generalize hi1 : (if r ∈ i.reasons then i else i.set r now) = i1 at hinv1 hask hmono hwhen hc1 ha1 hk1 hage
    by_cases h1 : ex.d1 = true
    · simp only [hd0, h1, if_true, Bool.false_eq_true, if_false]
      exact .ended i1 hmono
    · have hd1 : ex.d1 = false := by simpa using h1
      simp only [hd0, hd1, Bool.false_eq_true, if_false]
      have hprim : ∃ p ∈ i1.reasons, p.primary = true := ⟨r, hask, hr⟩
      have hne : i1.reasons ≠ [] := by intro h0; rw [h0] at hask; cases hask
      obtain ⟨w1, hw1⟩ := Option.isSome_iff_exists.mp (hinv1.flagged hne)
      have hagew := hage w1 hw1
      have hwle := hinv1.whenLe w1 hw1
      -- the four live branches
      rcases stage_cases (atomsOf c (age i now) false) with ⟨hd, _⟩ | ⟨_, hb, hab, hs⟩ | ⟨_, hnb, ht, hat, hs⟩ | ⟨_, hnb, ht, hat, hs⟩ | ⟨_, hnb, ht, hs⟩
      · simp [atomsOf] at hd
      · -- signalled
        rw [hs]
        have hi2 : InstInv c now (applySet actSignal i1 now).1 ∧ (∀ x ∈ i1.reasons, x ∈ (applySet actSignal i1 now).1.reasons)
            ∧ (∀ w, i1.when = some w → (applySet actSignal i1 now).1.when = some w)
            ∧ (applySet actSignal i1 now).1.cancelAt = i1.cancelAt ∧ (applySet actSignal i1 now).1.abandonAt = i1.abandonAt := by
          rw [applySet_signal]
          by_cases hm : Reason.signalled ∈ i1.reasons
          · rw [if_pos hm]
            exact ⟨hinv1, fun _ hx => hx, fun _ hw => hw, rfl, rfl⟩
          · simp only [hm, if_false]
            refine ⟨hinv1.set_plain _ (by decide) (by decide) (Or.inr hprim), fun x hx => mem_set.mpr (Or.inl hx), ?_, rfl, rfl⟩
            intro w hw; simp [set_when, hw]
        obtain ⟨hinv2, hm2, hw2, hc2, ha2⟩ := hi2
        have hk2 := applySet_kstarts actSignal i1 now
        generalize (applySet actSignal i1 now).1 = i2 at hinv2 hm2 hw2 hc2 ha2 hk2 ⊢
        by_cases h2 : (actSignal.delayIfAlive && ex.d2) = true
        · simp only [h2, if_true]
          exact .ended i2 (fun x hx => hm2 x (hmono x hx))
        · simp only [h2]
          exact .alive i2 _ hinv2 (hm2 r hask) (fun x hx => hm2 x (hmono x hx)) (fun w hw => hw2 w (hwhen w hw))
            (fun t ht => by rw [hc2, hc1]; exact ht) (fun t ht => by rw [ha2, ha1]; exact ht) (hk2.trans hk1)
      · -- cancelled
        rw [hs]
        have hageb : ∀ w, i1.when = some w → w + c.b0 ≤ now := by
          intro w hw
          rw [hw1] at hw; cases hw
          unfold Cfg.b0
          cases hb : c.backoff with
          | none => simp; exact hwle
          | some b =>
            simp only [atomsOf, hb, Option.isSome_some, Bool.true_and, decide_eq_false_iff_not] at hnb
            simp only [Option.getD_some]
            rw [hagew] at hnb
            tick_omega
        have hi2 : InstInv c now (applySet actCancel i1 now).1 ∧ (∀ x ∈ i1.reasons, x ∈ (applySet actCancel i1 now).1.reasons)
            ∧ (∀ w, i1.when = some w → (applySet actCancel i1 now).1.when = some w)
            ∧ (∀ t, i1.cancelAt = some t → (applySet actCancel i1 now).1.cancelAt = some t)
            ∧ (applySet actCancel i1 now).1.abandonAt = i1.abandonAt := by
          rw [applySet_cancel]
          by_cases hm : Reason.cancelled ∈ i1.reasons
          · rw [if_pos hm]
            exact ⟨hinv1, fun _ hx => hx, fun _ hw => hw, fun _ ht => ht, rfl⟩
          · simp only [hm, if_false]
            refine ⟨hinv1.set_cancelled hprim hageb, fun x hx => (mem_set (i := i1) (r := .cancelled) (now := now)).mpr (Or.inl hx), ?_, ?_, rfl⟩
            · intro w hw; simp [set_when, hw]
            · intro t ht; simp [ht]
        obtain ⟨hinv2, hm2, hw2, hc2, ha2⟩ := hi2
        have hk2 := applySet_kstarts actCancel i1 now
        generalize (applySet actCancel i1 now).1 = i2 at hinv2 hm2 hw2 hc2 ha2 hk2 ⊢
        by_cases h2 : (actCancel.delayIfAlive && ex.d2) = true
        · simp only [h2, if_true]
          exact .ended i2 (fun x hx => hm2 x (hmono x hx))
        · simp only [h2]
          exact .alive i2 _ hinv2 (hm2 r hask) (fun x hx => hm2 x (hmono x hx)) (fun w hw => hw2 w (hwhen w hw))
            (fun t ht => hc2 t (by rw [hc1]; exact ht)) (fun t ht => by rw [ha2, ha1]; exact ht) (hk2.trans hk1)
      · -- abandoned
        rw [hs]
        have hageb : ∀ w, i1.when = some w → w + c.b0 + c.t0 ≤ now := by
          intro w hw
          rw [hw1] at hw; cases hw
          cases htt : c.timeout with
          | none => simp [atomsOf, htt] at ht
          | some t =>
            simp only [atomsOf, htt, decide_eq_false_iff_not] at hat
            simp only [Cfg.t0, htt, Option.getD_some]
            rw [hagew] at hat
            generalize c.b0 = bb at *
            tick_omega
        have hi2 : InstInv c now (applySet actAbandon i1 now).1 ∧ (∀ x ∈ i1.reasons, x ∈ (applySet actAbandon i1 now).1.reasons)
            ∧ (∀ w, i1.when = some w → (applySet actAbandon i1 now).1.when = some w)
            ∧ (applySet actAbandon i1 now).1.cancelAt = i1.cancelAt
            ∧ (∀ t, i1.abandonAt = some t → (applySet actAbandon i1 now).1.abandonAt = some t) := by
          rw [applySet_abandon]
          by_cases hm : Reason.abandoned ∈ i1.reasons
          · rw [if_pos hm]
            exact ⟨hinv1, fun _ hx => hx, fun _ hw => hw, rfl, fun _ ht => ht⟩
          · simp only [hm, if_false]
            refine ⟨hinv1.set_abandoned hprim hageb, fun x hx => (mem_set (i := i1) (r := .abandoned) (now := now)).mpr (Or.inl hx), ?_, rfl, ?_⟩
            · intro w hw; simp [set_when, hw]
            · intro t ht; simp [ht]
        obtain ⟨hinv2, hm2, hw2, hc2, ha2⟩ := hi2
        have hk2 := applySet_kstarts actAbandon i1 now
        generalize (applySet actAbandon i1 now).1 = i2 at hinv2 hm2 hw2 hc2 ha2 hk2 ⊢
        have h2 : (actAbandon.delayIfAlive && ex.d2) = false := by simp [actAbandon]
        simp only [h2]
        exact .alive i2 _ hinv2 (hm2 r hask) (fun x hx => hm2 x (hmono x hx)) (fun w hw => hw2 w (hwhen w hw))
          (fun t ht => by rw [hc2, hc1]; exact ht) (fun t ht => ha2 t (by rw [ha1]; exact ht)) (hk2.trans hk1)
      · -- polling
        rw [hs, applySet_poll]
        have h2 : (actPoll.delayIfAlive && ex.d2) = false := by simp [actPoll]
        simp only [h2]
        exact .alive i1 _ hinv1 hask hmono hwhen (fun t ht => by rw [hc1]; exact ht) (fun t ht => by rw [ha1]; exact ht) hk1

end Kopf.C09

namespace Kopf.C09

/-! ### State-level invariant -/

structure Inv (c : Cfg) (s : St) : Prop where
  live : s.live = if s.run.isSome then 1 else 0
  fz : s.forever = true → s.run = none
  inst : ∀ i, s.run = some i → InstInv c s.now i

/-- the same instance, later: nothing is ever taken back -/
structure Mono (i i' : Inst) : Prop where
  reasons : ∀ x ∈ i.reasons, x ∈ i'.reasons
  when : ∀ w, i.when = some w → i'.when = some w
  canc : ∀ t, i.cancelAt = some t → i'.cancelAt = some t
  aban : ∀ t, i.abandonAt = some t → i'.abandonAt = some t
  ks : ∀ st ∈ i.kstarts, st ∈ i'.kstarts

theorem Mono.refl (i : Inst) : Mono i i := ⟨fun _ h => h, fun _ h => h, fun _ h => h, fun _ h => h, fun _ h => h⟩

theorem Mono.trans {a b d : Inst} (h1 : Mono a b) (h2 : Mono b d) : Mono a d :=
  ⟨fun x h => h2.reasons x (h1.reasons x h), fun w h => h2.when w (h1.when w h),
   fun t h => h2.canc t (h1.canc t h), fun t h => h2.aban t (h1.aban t h), fun t h => h2.ks t (h1.ks t h)⟩

/-- `s'` comes from `s` without a spawn: the instance (if any) evolved or ended. -/
structure Evolves (s s' : St) : Prop where
  now : s'.now = s.now
  spawns : s'.spawns = s.spawns
  known : s'.known = s.known
  foreverMono : s.forever = true → s'.forever = true
  same : ∀ i', s'.run = some i' → ∃ i, s.run = some i ∧ Mono i i'
  noneStays : s.run = none → s' = s

theorem Evolves.refl (s : St) : Evolves s s :=
  ⟨rfl, rfl, rfl, fun h => h, fun i' h => ⟨i', h, Mono.refl i'⟩, fun _ => rfl⟩

theorem Evolves.trans {a b d : St} (h1 : Evolves a b) (h2 : Evolves b d) : Evolves a d := by
  refine ⟨h2.now.trans h1.now, h2.spawns.trans h1.spawns, h2.known.trans h1.known,
    fun h => h2.foreverMono (h1.foreverMono h), ?_, ?_⟩
  · intro i' hi'
    obtain ⟨j, hj, m2⟩ := h2.same i' hi'
    obtain ⟨i, hi, m1⟩ := h1.same j hj
    exact ⟨i, hi, m1.trans m2⟩
  · intro hn
    have := h1.noneStays hn
    subst this
    exact h2.noneStays hn

theorem endInst_inv {c : Cfg} {s : St} (h : Inv c s) {i : Inst} (hi : s.run = some i) (j : Inst) :
    Inv c (endInst s j) := by
  refine ⟨?_, fun _ => rfl, ?_⟩
  · have := h.live
    simp [hi] at this
    simp [endInst, this]
  · intro k hk; simp [endInst] at hk

theorem endInst_evolves {s : St} {i : Inst} (_hi : s.run = some i) (j : Inst) : Evolves s (endInst s j) := by
  refine ⟨rfl, rfl, rfl, ?_, ?_, ?_⟩
  · intro hf; simp [endInst, hf]
  · intro i' hi'; simp [endInst] at hi'
  · intro hn; rw [hn] at _hi; cases _hi

theorem stopIf_spec {c : Cfg} {s : St} (h : Inv c s) {r : Reason} (hr : r.primary = true) (cond : Bool) (ex : Ex) :
    Inv c (stopIf c s cond r ex).1 ∧ Evolves s (stopIf c s cond r ex).1 ∧
    (cond = true → ∀ i', (stopIf c s cond r ex).1.run = some i' → r ∈ i'.reasons) := by
  unfold stopIf
  cases cond with
  | false => exact ⟨h, Evolves.refl s, fun hc => by cases hc⟩
  | true =>
    cases hrun : s.run with
    | none => exact ⟨h, Evolves.refl s, fun _ i' hi' => by rw [hrun] at hi'; cases hi'⟩
    | some i =>
      have hspec := stopOne_spec (h.inst i hrun) hr ex
      simp only
      generalize stopOne c s.now r i ex = out at hspec
      cases hspec with
      | alive i' d inv asked mono whenKept cancKept abanKept ksKept =>
        simp only [applyOut]
        refine ⟨⟨?_, ?_, ?_⟩, ⟨rfl, rfl, rfl, fun hf => hf, ?_, ?_⟩, ?_⟩
        · have := h.live; simp [hrun] at this; simp [this]
        · intro hf; have := h.fz hf; rw [hrun] at this; cases this
        · intro k hk; simp at hk; subst hk; exact inv
        · intro k hk; simp at hk; subst hk
          exact ⟨i, hrun, ⟨mono, whenKept, cancKept, abanKept, fun st hst => by rw [ksKept]; exact hst⟩⟩
        · intro hn; rw [hrun] at hn; cases hn
        · intro _ k hk; simp at hk; subst hk; exact asked
      | ended i' mono =>
        simp only [applyOut]
        exact ⟨endInst_inv h hrun i', endInst_evolves hrun i', fun _ k hk => by simp [endInst] at hk⟩

theorem spawn_inv {c : Cfg} {s : St} (h : Inv c s) (hrun : s.run = none) (hf : s.forever = false) :
    Inv c (spawn s) := by
  refine ⟨?_, ?_, ?_⟩
  · have := h.live; simp [hrun] at this; simp [spawn, this]
  · intro hf'; simp [spawn, hf] at hf'
  · intro i hi; simp [spawn] at hi; subst hi; exact InstInv.fresh c _

/-- What one processing cycle does to this handler id. -/
theorem cycle_spec {c : Cfg} {s : St} (h : Inv c s) (inp : CycIn) :
    let s' := (cycle c inp s).1
    Inv c s' ∧ s'.now = s.now ∧ (s.forever = true → s'.forever = true) ∧
    s'.known = (s.known && !inp.deleted) ∧
    s'.spawns = s.spawns + (if !inp.marked && inp.matching && !s.forever && s.run.isNone then 1 else 0) ∧
    (∀ i i', s.run = some i → s'.run = some i' → Mono i i') ∧
    (inp.marked = true → ∀ i', s'.run = some i' → Reason.deleted ∈ i'.reasons) ∧
    (inp.marked = false → (inp.matching && !s.forever) = false → ∀ i', s'.run = some i' → Reason.mismatch ∈ i'.reasons) ∧
    (inp.marked = false → inp.paused = true → ∀ i', s'.run = some i' → Reason.pausing ∈ i'.reasons) := by
  intro s'
  -- the memory is forgotten first (DELETED events)
  have hk : ∀ (b : Bool), Inv c (if b then { s with known := false } else s) := by
    intro b; cases b
    · exact h
    · exact ⟨h.live, h.fz, h.inst⟩
  generalize hs0 : (if inp.deleted = true then { s with known := false } else s) = s0
  have h0 : Inv c s0 := hs0 ▸ hk inp.deleted
  have e0 : s0.now = s.now ∧ s0.run = s.run ∧ s0.forever = s.forever ∧ s0.spawns = s.spawns ∧
      s0.known = (s.known && !inp.deleted) ∧ s0.live = s.live := by
    subst hs0; cases inp.deleted <;> simp
  obtain ⟨e0n, e0r, e0f, e0s, e0k, _⟩ := e0
  have hs' : s' = (cycle c inp s).1 := rfl
  unfold cycle at hs'
  simp only [hs0] at hs'
  cases hm : inp.marked with
  | true =>
    simp only [hm, if_true] at hs'
    obtain ⟨i1, ev, asked⟩ := stopIf_spec h0 (r := .deleted) rfl true inp.ex1
    rw [← hs'] at i1 ev asked
    refine ⟨i1, ev.now.trans e0n, fun hf => ev.foreverMono (e0f ▸ hf), ev.known.trans e0k, ?_, ?_, ?_, ?_, ?_⟩
    · simp [ev.spawns, e0s]
    · intro i i' hi hi'
      obtain ⟨j, hj, m⟩ := ev.same i' hi'
      rw [e0r, hi] at hj; cases hj; exact m
    · intro _ i' hi'; exact asked rfl i' hi'
    · intro hc; cases hc
    · intro hc; cases hc
  | false =>
    simp only [hm, Bool.false_eq_true, if_false] at hs'
    generalize hsel : (inp.matching && !s0.forever) = sel at hs'
    have hsel' : (inp.matching && !s.forever) = sel := by rw [← e0f]; exact hsel
    -- spawn_daemons
    generalize hs1 : (if (sel && s0.run.isNone) = true then spawn s0 else s0) = s1 at hs'
    have h1 : Inv c s1 := by
      subst hs1
      by_cases hc : (sel && s0.run.isNone) = true
      · simp only [hc, if_true]
        simp only [Bool.and_eq_true, Option.isNone_iff_eq_none] at hc
        have hff : s0.forever = false := by
          have := hc.1
          rw [← hsel] at this
          simp only [Bool.and_eq_true, Bool.not_eq_true'] at this
          exact this.2
        exact spawn_inv h0 hc.2 hff
      · simp only [hc]; exact h0
    have e1 : s1.now = s0.now ∧ s1.forever = s0.forever ∧ s1.known = s0.known ∧
        s1.spawns = s0.spawns + (if (sel && s0.run.isNone) = true then 1 else 0) ∧
        (∀ i, s0.run = some i → s1 = s0) ∧ (s0.run = none → sel = true → s1.run = some Inst.fresh) := by
      subst hs1
      by_cases hc : (sel && s0.run.isNone) = true
      · simp only [hc, if_true]
        refine ⟨rfl, rfl, rfl, rfl, ?_, fun _ _ => rfl⟩
        intro i hi; simp [hi] at hc
      · simp only [hc]
        refine ⟨rfl, rfl, rfl, by simp, fun _ _ => rfl, ?_⟩
        intro hn hs; simp [hn, hs] at hc
    obtain ⟨e1n, e1f, e1k, e1s, e1same, e1fresh⟩ := e1
    -- match_daemons
    obtain ⟨h2, ev2, asked2⟩ := stopIf_spec h1 (r := .mismatch) rfl (!sel) inp.ex1
    generalize hs2 : stopIf c s1 (!sel) .mismatch inp.ex1 = p2 at hs' h2 ev2 asked2
    obtain ⟨s2, dm⟩ := p2
    -- pause_daemons
    obtain ⟨h3, ev3, asked3⟩ := stopIf_spec h2 (r := .pausing) rfl inp.paused inp.ex2
    generalize hs3 : stopIf c s2 inp.paused .pausing inp.ex2 = p3 at hs' h3 ev3 asked3
    obtain ⟨s3, dp⟩ := p3
    simp only at hs' h2 ev2 asked2 h3 ev3 asked3
    subst hs'
    have ev := ev2.trans ev3
    refine ⟨h3, ?_, ?_, ?_, ?_, ?_, ?_, ?_, ?_⟩
    · rw [ev.now, e1n, e0n]
    · intro hf; exact ev.foreverMono (by rw [e1f, e0f]; exact hf)
    · rw [ev.known, e1k, e0k]
    · rw [ev.spawns, e1s, e0s, e0r]
      congr 1
      rw [← hsel']
      cases inp.matching <;> cases s.forever <;> cases s.run <;> simp
    · intro i i' hi hi'
      obtain ⟨j, hj, m⟩ := ev.same i' hi'
      have : s1 = s0 := e1same i (e0r ▸ hi)
      rw [this, e0r, hi] at hj; cases hj; exact m
    · intro hc; cases hc
    · intro _ hns i' hi'
      have hsf : sel = false := by rw [← hsel']; exact hns
      obtain ⟨j, hj, m⟩ := ev3.same i' hi'
      exact m.reasons _ (asked2 (by simp [hsf]) j hj)
    · intro _ hp i' hi'
      exact asked3 hp i' hi'

end Kopf.C09

namespace Kopf.C09

/-! ### Every label keeps the invariant -/

theorem init_inv (c : Cfg) (t0 : Tick) : Inv c (St.init t0) := by
  refine ⟨rfl, ?_, ?_⟩
  · intro h; simp [St.init] at h
  · intro i h; simp [St.init] at h

theorem step_inv {c : Cfg} {s s' : St} (h : Inv c s) (l : Label) (hs : step c s l = some s') : Inv c s' := by
  cases l with
  | tick d =>
    simp only [step, Option.some.injEq] at hs
    subst hs
    refine ⟨h.live, h.fz, ?_⟩
    intro i hi
    exact (h.inst i hi).mono (Int.le_add_of_nonneg_right (Int.natCast_nonneg d))
  | cycle inp =>
    simp only [step] at hs
    split at hs
    · cases hs; exact (cycle_spec h inp).1
    · cases hs
  | exit =>
    simp only [step] at hs
    cases hrun : s.run with
    | none => rw [hrun] at hs; cases hs
    | some i => rw [hrun] at hs; cases hs; exact endInst_inv h hrun i
  | kBegin r =>
    simp only [step] at hs
    cases hrun : s.run with
    | none => rw [hrun] at hs; cases hs
    | some i =>
      rw [hrun] at hs
      simp only at hs
      split at hs
      · rename_i hc
        cases hs
        have hr : r.primary = true := by
          simp only [Bool.and_eq_true, Bool.or_eq_true, beq_iff_eq] at hc
          rcases hc.2 with h1 | h1 <;> subst h1 <;> rfl
        refine ⟨?_, ?_, ?_⟩
        · have := h.live; simp [hrun] at this; simp [this]
        · intro hf; have := h.fz hf; rw [hrun] at this; cases this
        · intro k hk; simp at hk; subst hk
          exact (h.inst i hrun).push_kstart r hr
      · cases hs
  | kSignal st =>
    simp only [step] at hs
    cases hrun : s.run with
    | none => rw [hrun] at hs; cases hs
    | some i =>
      rw [hrun] at hs
      simp only at hs
      split at hs
      · rename_i hc
        cases hs
        have hi := h.inst i hrun
        obtain ⟨w, hw, _, _⟩ := hi.kst st hc.1
        have hne : i.reasons ≠ [] := hi.unflagged (by simp [hw])
        refine ⟨?_, ?_, ?_⟩
        · have := h.live; simp [hrun] at this; simp [this]
        · intro hf; have := h.fz hf; rw [hrun] at this; cases this
        · intro k hk; simp at hk; subst hk
          exact hi.set_plain _ (by decide) (by decide) (Or.inr (hi.prim hne))
      · cases hs
  | kCancel st =>
    simp only [step] at hs
    cases hrun : s.run with
    | none => rw [hrun] at hs; cases hs
    | some i =>
      rw [hrun] at hs
      simp only at hs
      split at hs
      · rename_i hc
        cases hs
        have hi := h.inst i hrun
        obtain ⟨w, hw, hle, _⟩ := hi.kst st hc.1
        have hne : i.reasons ≠ [] := hi.unflagged (by simp [hw])
        refine ⟨?_, ?_, ?_⟩
        · have := h.live; simp [hrun] at this; simp [this]
        · intro hf; have := h.fz hf; rw [hrun] at this; cases this
        · intro k hk; simp at hk; subst hk
          refine hi.set_cancelled (hi.prim hne) ?_
          intro w' hw'
          rw [hw] at hw'; cases hw'
          have := hc.2.2
          generalize c.b0 = bb at *
          tick_omega
      · cases hs
  | kAbandon st =>
    simp only [step] at hs
    cases hrun : s.run with
    | none => rw [hrun] at hs; cases hs
    | some i =>
      rw [hrun] at hs
      simp only at hs
      split at hs
      · rename_i hc
        cases hs
        have hi := h.inst i hrun
        obtain ⟨w, hw, hle, _⟩ := hi.kst st hc.1
        have hne : i.reasons ≠ [] := hi.unflagged (by simp [hw])
        refine ⟨?_, ?_, ?_⟩
        · have := h.live; simp [hrun] at this; simp [this]
        · intro hf; have := h.fz hf; rw [hrun] at this; cases this
        · intro k hk; simp at hk; subst hk
          refine hi.set_abandoned (hi.prim hne) ?_
          intro w' hw'
          rw [hw] at hw'; cases hw'
          have := hc.2
          generalize c.b0 = bb at *
          generalize c.t0 = tt at *
          tick_omega
      · cases hs

theorem runs_inv {c : Cfg} : ∀ (ls : List Label) {s s' : St}, Inv c s → runs c s ls = some s' → Inv c s'
  | [], s, s', h, hr => by simp only [runs, Option.some.injEq] at hr; subst hr; exact h
  | l :: ls, s, s', h, hr => by
    simp only [runs] at hr
    cases hst : step c s l with
    | none => rw [hst] at hr; cases hr
    | some s1 =>
      rw [hst] at hr
      exact runs_inv ls (step_inv h l hst) hr

theorem reach_inv {c : Cfg} {s : St} (h : Reach c s) : Inv c s := by
  obtain ⟨t0, ls, hr⟩ := h
  exact runs_inv ls (init_inv c t0) hr

theorem runs_append {c : Cfg} : ∀ (l1 l2 : List Label) (s : St),
    runs c s (l1 ++ l2) = (runs c s l1).bind (fun s1 => runs c s1 l2)
  | [], l2, s => by simp [runs]
  | l :: l1, l2, s => by
    simp only [List.cons_append, runs]
    cases step c s l with
    | none => simp
    | some s1 => simpa using runs_append l1 l2 s1

theorem reach_step {c : Cfg} {s s' : St} (h : Reach c s) (l : Label) (hs : step c s l = some s') : Reach c s' := by
  obtain ⟨t0, ls, hr⟩ := h
  refine ⟨t0, ls ++ [l], ?_⟩
  rw [runs_append, hr]
  simp [runs, hs]

end Kopf.C09

namespace Kopf.C09

/-! ### Per-label facts used by the property theorems -/

theorem set_mono (i : Inst) (r : Reason) (now : Tick) : Mono i (i.set r now) :=
  ⟨fun _ hx => mem_set.mpr (Or.inl hx), fun w hw => by simp [set_when, hw], fun _ h => h, fun _ h => h, fun _ h => h⟩

theorem step_mono {c : Cfg} {s s' : St} (h : Inv c s) (l : Label) (hs : step c s l = some s')
    {i i' : Inst} (hi : s.run = some i) (hi' : s'.run = some i') : Mono i i' := by
  cases l with
  | tick d =>
    simp only [step, Option.some.injEq] at hs; subst hs
    simp only at hi'; rw [hi] at hi'; cases hi'; exact Mono.refl i
  | cycle inp =>
    simp only [step] at hs
    split at hs
    · cases hs; exact (cycle_spec h inp).2.2.2.2.2.1 i i' hi hi'
    · cases hs
  | exit =>
    simp only [step, hi] at hs; cases hs; simp [endInst] at hi'
  | kBegin r =>
    simp only [step, hi] at hs
    split at hs
    · cases hs; simp at hi'; subst hi'
      exact ⟨(set_mono i r s.now).reasons, (set_mono i r s.now).when, fun _ h => h, fun _ h => h,
        fun st hst => List.mem_cons_of_mem _ hst⟩
    · cases hs
  | kSignal st =>
    simp only [step, hi] at hs
    split at hs
    · cases hs; simp at hi'; subst hi'; exact set_mono i _ _
    · cases hs
  | kCancel st =>
    simp only [step, hi] at hs
    split at hs
    · cases hs; simp at hi'; subst hi'
      refine ⟨(set_mono i .cancelled s.now).reasons, (set_mono i .cancelled s.now).when, ?_, fun _ h => h, fun _ h => h⟩
      intro t ht; simp [ht]
    · cases hs
  | kAbandon st =>
    simp only [step, hi] at hs
    split at hs
    · cases hs; simp at hi'; subst hi'
      refine ⟨(set_mono i .abandoned s.now).reasons, (set_mono i .abandoned s.now).when, fun _ h => h, ?_, fun _ h => h⟩
      intro t ht; simp [ht]
    · cases hs

/-- a spawn happens in exactly one kind of step -/
theorem step_spawns {c : Cfg} {s s' : St} (h : Inv c s) (l : Label) (hs : step c s l = some s') :
    s'.spawns = s.spawns + (match l with
      | .cycle inp => if !inp.marked && inp.matching && !s.forever && s.run.isNone then 1 else 0
      | _ => 0) := by
  cases l with
  | tick d => simp only [step, Option.some.injEq] at hs; subst hs; simp
  | cycle inp =>
    simp only [step] at hs
    split at hs
    · cases hs; exact (cycle_spec h inp).2.2.2.2.1
    · cases hs
  | exit =>
    simp only [step] at hs
    cases hrun : s.run with
    | none => rw [hrun] at hs; cases hs
    | some i => rw [hrun] at hs; cases hs; simp [endInst]
  | kBegin r =>
    simp only [step] at hs
    cases hrun : s.run with
    | none => rw [hrun] at hs; cases hs
    | some i => rw [hrun] at hs; simp only at hs; split at hs <;> cases hs; simp
  | kSignal st =>
    simp only [step] at hs
    cases hrun : s.run with
    | none => rw [hrun] at hs; cases hs
    | some i => rw [hrun] at hs; simp only at hs; split at hs <;> cases hs; simp
  | kCancel st =>
    simp only [step] at hs
    cases hrun : s.run with
    | none => rw [hrun] at hs; cases hs
    | some i => rw [hrun] at hs; simp only at hs; split at hs <;> cases hs; simp
  | kAbandon st =>
    simp only [step] at hs
    cases hrun : s.run with
    | none => rw [hrun] at hs; cases hs
    | some i => rw [hrun] at hs; simp only at hs; split at hs <;> cases hs; simp

theorem step_forever {c : Cfg} {s s' : St} (h : Inv c s) (l : Label) (hs : step c s l = some s')
    (hf : s.forever = true) : s'.forever = true := by
  have hn := h.fz hf
  cases l with
  | tick d => simp only [step, Option.some.injEq] at hs; subst hs; exact hf
  | cycle inp =>
    simp only [step] at hs
    split at hs
    · cases hs; exact (cycle_spec h inp).2.2.1 hf
    · cases hs
  | exit => simp [step, hn] at hs
  | kBegin r => simp [step, hn] at hs
  | kSignal st => simp [step, hn] at hs
  | kCancel st => simp [step, hn] at hs
  | kAbandon st => simp [step, hn] at hs

/-- Once in `forever_stopped`: no instance, and never a spawn again. -/
theorem runs_forever {c : Cfg} : ∀ (ls : List Label) {s s' : St}, Inv c s → s.forever = true →
    runs c s ls = some s' → s'.forever = true ∧ s'.spawns = s.spawns ∧ s'.run = none ∧ s'.live = 0
  | [], s, s', h, hf, hr => by
    simp only [runs, Option.some.injEq] at hr; subst hr
    have hn := h.fz hf
    have hl := h.live
    simp [hn] at hl
    exact ⟨hf, rfl, hn, hl⟩
  | l :: ls, s, s', h, hf, hr => by
    simp only [runs] at hr
    cases hst : step c s l with
    | none => rw [hst] at hr; cases hr
    | some s1 =>
      rw [hst] at hr
      have h1 := step_inv h l hst
      have hf1 := step_forever h l hst hf
      obtain ⟨a, b, d, e⟩ := runs_forever ls h1 hf1 hr
      refine ⟨a, ?_, d, e⟩
      rw [b, step_spawns h l hst]
      cases l <;> simp [hf]

/-! ### The unmarked disappearance: nobody ever asks the instance to stop -/

theorem orphan_step {c : Cfg} {s s' : St} (ho : Orphan s) (l : Label) (hs : step c s l = some s') : Orphan s' := by
  obtain ⟨hk, hi⟩ := ho
  cases l with
  | tick d => simp only [step, Option.some.injEq] at hs; subst hs; exact ⟨hk, hi⟩
  | cycle inp => simp [step, hk] at hs
  | exit =>
    simp only [step] at hs
    cases hrun : s.run with
    | none => rw [hrun] at hs; cases hs
    | some i => rw [hrun] at hs; cases hs; exact ⟨hk, fun k hk' => by simp [endInst] at hk'⟩
  | kBegin r =>
    simp only [step] at hs
    cases hrun : s.run with
    | none => rw [hrun] at hs; cases hs
    | some i => rw [hrun] at hs; simp [hk] at hs
  | kSignal st =>
    simp only [step] at hs
    cases hrun : s.run with
    | none => rw [hrun] at hs; cases hs
    | some i => rw [hrun] at hs; simp [(hi i hrun).2] at hs
  | kCancel st =>
    simp only [step] at hs
    cases hrun : s.run with
    | none => rw [hrun] at hs; cases hs
    | some i => rw [hrun] at hs; simp [(hi i hrun).2] at hs
  | kAbandon st =>
    simp only [step] at hs
    cases hrun : s.run with
    | none => rw [hrun] at hs; cases hs
    | some i => rw [hrun] at hs; simp [(hi i hrun).2] at hs

theorem orphan_runs {c : Cfg} : ∀ (ls : List Label) {s s' : St}, Orphan s → runs c s ls = some s' → Orphan s'
  | [], s, s', h, hr => by simp only [runs, Option.some.injEq] at hr; subst hr; exact h
  | l :: ls, s, s', h, hr => by
    simp only [runs] at hr
    cases hst : step c s l with
    | none => rw [hst] at hr; cases hr
    | some s1 => rw [hst] at hr; exact orphan_runs ls (orphan_step h l hst) hr

end Kopf.C09

namespace Kopf.C09

/-! ### The re-sweep while paused -/

theorem nextRound_bounds (p t : Tick) (_h : p ≤ t) : t ≤ nextRound p t ∧ nextRound p t < t + killerPeriod := by
  unfold nextRound killerPeriod
  unfold Tick at *
  constructor <;> omega

/-- From any state with a running instance whose memory is known — whatever is already in its stopper —
    a round of the killer `d` ticks later starts `stop_daemon`, which cancels `backoff` later. -/
theorem resweep_path {c : Cfg} {s : St} (h : Inv c s) {i : Inst} (hi : s.run = some i) (hk : s.known = true)
    (ht : c.timeout.isSome = true) (hb : 0 ≤ c.b0) (d : Nat) :
    ∃ s' i' tc, runs c s [.tick d, .kBegin .pausing, .tick c.b0.toNat, .kCancel (s.now + d)] = some s' ∧
      s'.run = some i' ∧ i'.cancelAt = some tc ∧ tc ≤ s.now + d + c.b0 ∧ Reason.pausing ∈ i'.reasons ∧
      Reason.cancelled ∈ i'.reasons := by
  have hb' : ((c.b0.toNat : Nat) : Int) = c.b0 := Int.toNat_of_nonneg hb
  have hcanc : ∀ t, i.cancelAt = some t → t ≤ s.now := fun t ht' => by
    obtain ⟨_, _, _, h3⟩ := (h.inst i hi).canc t ht'
    exact h3
  let r : Tick := s.now + d
  let i1 : Inst := { i.set .pausing r with kstarts := r :: i.kstarts }
  let i2 : Inst := { i1.set .cancelled (r + c.b0) with cancelAt := some (i1.cancelAt.getD (r + c.b0)) }
  let s' : St := { s with now := r + c.b0, run := some i2, known := true }
  refine ⟨s', i2, i.cancelAt.getD (r + c.b0), ?_, rfl, rfl, ?_, ?_, ?_⟩
  · simp only [runs, step, hi, hk, Bool.true_and]
    simp only [beq_self_eq_true, Bool.true_or, if_true, hb']
    have hg : (r ∈ i1.kstarts ∧ c.timeout.isSome = true ∧ r + c.b0 ≤ r + c.b0) := ⟨by simp [i1], ht, Int.le_refl _⟩
    simp only [r, i1] at hg
    simp only [hg, and_self, if_true]
    rfl
  · cases hc : i.cancelAt with
    | none => simp [r]
    | some t =>
      simp only [Option.getD_some]
      have := hcanc t hc
      have hd : (0 : Int) ≤ (d : Int) := Int.natCast_nonneg d
      unfold Tick at *
      omega
  · exact (mem_set (i := i1) (r := .cancelled) (now := r + c.b0)).mpr (Or.inl ((mem_set (i := i) (r := .pausing) (now := r)).mpr (Or.inr rfl)))
  · exact (mem_set (i := i1) (r := .cancelled) (now := r + c.b0)).mpr (Or.inr rfl)

end Kopf.C09

namespace Kopf.C09

/-! ### Frame facts of single steps, and the killer's duty -/

theorem step_now {c : Cfg} {s s' : St} (h : Inv c s) (l : Label) (hs : step c s l = some s') :
    s'.now = s.now + (match l with | .tick d => (d : Int) | _ => 0) := by
  cases l with
  | tick d => simp only [step, Option.some.injEq] at hs; subst hs; rfl
  | cycle inp =>
    simp only [step] at hs
    split at hs
    · cases hs; simpa using (cycle_spec h inp).2.1
    · cases hs
  | exit =>
    simp only [step] at hs
    cases hrun : s.run with
    | none => rw [hrun] at hs; cases hs
    | some i => rw [hrun] at hs; cases hs; simp [endInst]
  | kBegin r =>
    simp only [step] at hs
    cases hrun : s.run with
    | none => rw [hrun] at hs; cases hs
    | some i => rw [hrun] at hs; simp only at hs; split at hs <;> cases hs; simp
  | kSignal st =>
    simp only [step] at hs
    cases hrun : s.run with
    | none => rw [hrun] at hs; cases hs
    | some i => rw [hrun] at hs; simp only at hs; split at hs <;> cases hs; simp
  | kCancel st =>
    simp only [step] at hs
    cases hrun : s.run with
    | none => rw [hrun] at hs; cases hs
    | some i => rw [hrun] at hs; simp only at hs; split at hs <;> cases hs; simp
  | kAbandon st =>
    simp only [step] at hs
    cases hrun : s.run with
    | none => rw [hrun] at hs; cases hs
    | some i => rw [hrun] at hs; simp only at hs; split at hs <;> cases hs; simp

theorem step_known {c : Cfg} {s s' : St} (_h : Inv c s) (l : Label) (hs : step c s l = some s')
    (hk : s'.known = true) : s.known = true := by
  cases l with
  | tick d => simp only [step, Option.some.injEq] at hs; subst hs; exact hk
  | cycle inp =>
    simp only [step] at hs
    split at hs
    · rename_i hkk; exact hkk
    · cases hs
  | exit =>
    simp only [step] at hs
    cases hrun : s.run with
    | none => rw [hrun] at hs; cases hs
    | some i => rw [hrun] at hs; cases hs; simpa [endInst] using hk
  | kBegin r =>
    simp only [step] at hs
    cases hrun : s.run with
    | none => rw [hrun] at hs; cases hs
    | some i => rw [hrun] at hs; simp only at hs; split at hs <;> cases hs; simpa using hk
  | kSignal st =>
    simp only [step] at hs
    cases hrun : s.run with
    | none => rw [hrun] at hs; cases hs
    | some i => rw [hrun] at hs; simp only at hs; split at hs <;> cases hs; simpa using hk
  | kCancel st =>
    simp only [step] at hs
    cases hrun : s.run with
    | none => rw [hrun] at hs; cases hs
    | some i => rw [hrun] at hs; simp only at hs; split at hs <;> cases hs; simpa using hk
  | kAbandon st =>
    simp only [step] at hs
    cases hrun : s.run with
    | none => rw [hrun] at hs; cases hs
    | some i => rw [hrun] at hs; simp only at hs; split at hs <;> cases hs; simpa using hk

theorem step_spawns_le {c : Cfg} {s s' : St} (h : Inv c s) (l : Label) (hs : step c s l = some s') :
    s.spawns ≤ s'.spawns := by
  rw [step_spawns h l hs]; omega

theorem cycle_run_none (c : Cfg) (inp : CycIn) (s : St) (hn : s.run = none)
    (hc : (!inp.marked && inp.matching && !s.forever) = false) : (cycle c inp s).1.run = none := by
  unfold cycle stopIf
  cases hd : inp.deleted <;> cases hm : inp.marked <;> cases hma : inp.matching <;> cases hf : s.forever <;>
    simp_all

/-- no instance and no spawn in this step: still no instance -/
theorem step_run_none {c : Cfg} {s s' : St} (h : Inv c s) (l : Label) (hs : step c s l = some s')
    (hn : s.run = none) (hsp : s'.spawns = s.spawns) : s'.run = none := by
  cases l with
  | tick d => simp only [step, Option.some.injEq] at hs; subst hs; exact hn
  | cycle inp =>
    have hsp' := step_spawns h (.cycle inp) hs
    simp only [hn, Option.isNone_none, Bool.and_true] at hsp'
    simp only [step] at hs
    split at hs
    · cases hs
      apply cycle_run_none c inp s hn
      by_cases hc : (!inp.marked && inp.matching && !s.forever) = true
      · simp only [hc, if_true] at hsp'; omega
      · simpa using hc
    · cases hs
  | exit => simp [step, hn] at hs
  | kBegin r => simp [step, hn] at hs
  | kSignal st => simp [step, hn] at hs
  | kCancel st => simp [step, hn] at hs
  | kAbandon st => simp [step, hn] at hs

/-- the instance of the start state is out of the killer's reach or gone for good (w.r.t. the final
    claim "the same instance still runs and its memory is known") -/
def Lost (sp0 : Nat) (s : St) : Prop := s.known = false ∨ s.run = none ∨ sp0 < s.spawns

theorem lost_step {c : Cfg} {sp0 : Nat} {s s' : St} (h : Inv c s) (l : Label) (hs : step c s l = some s')
    (hsp : sp0 ≤ s.spawns) (hl : Lost sp0 s) : Lost sp0 s' := by
  have hle := step_spawns_le h l hs
  rcases hl with hk | hn | hlt
  · left
    cases hk' : s'.known with
    | false => rfl
    | true => have := step_known h l hs hk'; rw [hk] at this; cases this
  · by_cases he : s'.spawns = s.spawns
    · right; left; exact step_run_none h l hs hn he
    · right; right; omega
  · right; right; omega

/-- what each stage of the duty has established for the instance that is still the original one -/
def DutyInv (c : Cfg) (r : Tick) (sp0 : Nat) : Duty → St → Prop
  | .waiting, s => Lost sp0 s ∨ s.now ≤ r
  | .begun, s => Lost sp0 s ∨ (s.now ≤ r + c.b0 ∧ ∀ i, s.run = some i → r ∈ i.kstarts)
  | .served, s => Lost sp0 s ∨ ∀ i, s.run = some i → ∃ tc, i.cancelAt = some tc ∧ tc ≤ r + c.b0

theorem step_now_other {c : Cfg} {s s' : St} (h : Inv c s) (l : Label) (hs : step c s l = some s')
    (hl : ∀ n, l ≠ .tick n) : s'.now = s.now := by
  have := step_now h l hs
  cases l with
  | tick n => exact absurd rfl (hl n)
  | _ => simpa using this

theorem duty_step {c : Cfg} {r : Tick} {sp0 : Nat} {s s' : St} (h : Inv c s) (hb : 0 ≤ c.b0) (d : Duty) (l : Label)
    (hs : step c s l = some s') (hsp : sp0 ≤ s.spawns)
    (hduty : d.allows c r s l)
    (hinv : DutyInv c r sp0 d s) : DutyInv c r sp0 (d.next r s l) s' := by
  have hlost : Lost sp0 s → Lost sp0 s' := lost_step h l hs hsp
  have hmono : ∀ i i', s.run = some i → s'.run = some i' → Mono i i' := fun i i' hi hi' => step_mono h l hs hi hi'
  have hsame : ∀ i', s'.run = some i' → Lost sp0 s' ∨ ∃ i, s.run = some i := by
    intro i' hi'
    cases hrun : s.run with
    | some i => exact Or.inr ⟨i, rfl⟩
    | none => exact Or.inl (hlost (Or.inr (Or.inl hrun)))
  unfold Duty.next
  by_cases hA : d = .waiting ∧ l = .kBegin .pausing ∧ s.now = r
  · -- the round at `r` starts `stop_daemon` for this daemon
    rw [if_pos hA]
    obtain ⟨hd, hl, hr⟩ := hA
    subst hd; subst hl
    have hnow := step_now_other h _ hs (by intro n hn; cases hn)
    by_cases hL : Lost sp0 s'
    · exact Or.inl hL
    · right
      refine ⟨by rw [hnow, hr]; unfold Tick at *; omega, ?_⟩
      intro i' hi'
      simp only [step] at hs
      cases hrun : s.run with
      | none => rw [hrun] at hs; cases hs
      | some i =>
        rw [hrun] at hs
        simp only at hs
        split at hs
        · cases hs
          simp only [Option.some.injEq] at hi'
          subst hi'
          simp [hr]
        · cases hs
  · rw [if_neg hA]
    by_cases hB : d = .begun ∧ l = .kCancel r
    · -- the cancellation stage of the coroutine started at `r`
      rw [if_pos hB]
      obtain ⟨hd, hl⟩ := hB
      subst hd; subst hl
      rcases hinv with hl | ⟨hle, _⟩
      · exact Or.inl (hlost hl)
      · right
        intro i' hi'
        simp only [step] at hs
        cases hrun : s.run with
        | none => rw [hrun] at hs; cases hs
        | some i =>
          rw [hrun] at hs
          simp only at hs
          split at hs
          · cases hs
            simp only [Option.some.injEq] at hi'
            subst hi'
            refine ⟨i.cancelAt.getD s.now, rfl, ?_⟩
            cases hca : i.cancelAt with
            | none => simpa using hle
            | some t =>
              obtain ⟨_, _, _, h3⟩ := (h.inst i hrun).canc t hca
              simp only [Option.getD_some]
              exact Int.le_trans h3 hle
          · cases hs
    · rw [if_neg hB]
      -- the duty stage does not change: its invariant is kept by any step
      cases d with
      | waiting =>
        rcases hinv with hl | hle
        · exact Or.inl (hlost hl)
        · cases l with
          | tick n =>
            have hnow := step_now h _ hs
            simp only [Duty.allows] at hduty
            simp only at hnow
            rcases hduty with h1 | h2 | h3
            · right; rw [hnow]; exact h1
            · exact Or.inl (hlost (Or.inl h2))
            · exact Or.inl (hlost (Or.inr (Or.inl h3)))
          | cycle inp => right; rw [step_now_other h _ hs (by intro n hn; cases hn)]; exact hle
          | exit => right; rw [step_now_other h _ hs (by intro n hn; cases hn)]; exact hle
          | kBegin rr => right; rw [step_now_other h _ hs (by intro n hn; cases hn)]; exact hle
          | kSignal st => right; rw [step_now_other h _ hs (by intro n hn; cases hn)]; exact hle
          | kCancel st => right; rw [step_now_other h _ hs (by intro n hn; cases hn)]; exact hle
          | kAbandon st => right; rw [step_now_other h _ hs (by intro n hn; cases hn)]; exact hle
      | begun =>
        rcases hinv with hl | ⟨hle, hks⟩
        · exact Or.inl (hlost hl)
        · have keep : s'.now ≤ r + c.b0 → DutyInv c r sp0 Duty.begun s' := by
            intro hn
            by_cases hL : Lost sp0 s'
            · exact Or.inl hL
            · right
              refine ⟨hn, fun i' hi' => ?_⟩
              rcases hsame i' hi' with hl | ⟨i, hi⟩
              · exact absurd hl hL
              · exact (hmono i i' hi hi').ks r (hks i hi)
          cases l with
          | tick n =>
            have hnow := step_now h _ hs
            simp only [Duty.allows] at hduty
            simp only at hnow
            rcases hduty with h1 | h3
            · exact keep (by rw [hnow]; exact h1)
            · exact Or.inl (hlost (Or.inr (Or.inl h3)))
          | cycle inp => exact keep (by rw [step_now_other h _ hs (by intro n hn; cases hn)]; exact hle)
          | exit => exact keep (by rw [step_now_other h _ hs (by intro n hn; cases hn)]; exact hle)
          | kBegin rr => exact keep (by rw [step_now_other h _ hs (by intro n hn; cases hn)]; exact hle)
          | kSignal st => exact keep (by rw [step_now_other h _ hs (by intro n hn; cases hn)]; exact hle)
          | kCancel st => exact keep (by rw [step_now_other h _ hs (by intro n hn; cases hn)]; exact hle)
          | kAbandon st => exact keep (by rw [step_now_other h _ hs (by intro n hn; cases hn)]; exact hle)
      | served =>
        rcases hinv with hl | hc
        · exact Or.inl (hlost hl)
        · by_cases hL : Lost sp0 s'
          · exact Or.inl hL
          · right
            intro i' hi'
            rcases hsame i' hi' with hl | ⟨i, hi⟩
            · exact absurd hl hL
            · obtain ⟨tc, h1, h2⟩ := hc i hi
              exact ⟨tc, (hmono i i' hi hi').canc tc h1, h2⟩

/-- Along every dutiful run: if at the end the clock is past `r + backoff`, the memory is still known and
    the instance of the start state is still the running one, its task has been cancelled by `r + backoff`. -/
theorem dutiful_runs {c : Cfg} {r : Tick} (hb : 0 ≤ c.b0) :
    ∀ (ls : List Label) (d : Duty) (s s' : St) (sp0 : Nat), Inv c s → sp0 ≤ s.spawns → DutyInv c r sp0 d s →
      Dutiful c r d s ls → runs c s ls = some s' →
      ∃ d', DutyInv c r sp0 d' s' ∧ sp0 ≤ s'.spawns
  | [], d, s, s', sp0, _, hsp, hinv, _, hr => by
    simp only [runs, Option.some.injEq] at hr; subst hr; exact ⟨d, hinv, hsp⟩
  | l :: ls, d, s, s', sp0, h, hsp, hinv, hdut, hr => by
    simp only [runs] at hr
    cases hst : step c s l with
    | none => rw [hst] at hr; cases hr
    | some s1 =>
      rw [hst] at hr
      simp only [Dutiful, hst] at hdut
      have h1 := step_inv h l hst
      have hinv1 := duty_step (r := r) (sp0 := sp0) h hb d l hst hsp hdut.1 hinv
      exact dutiful_runs hb ls _ s1 s' sp0 h1 (Nat.le_trans hsp (step_spawns_le h l hst)) hinv1 hdut.2 hr

/-! ### `Dutiful` is decidable on concrete runs (for the non-vacuity examples) -/

instance (c : Cfg) (r : Tick) (d : Duty) (s : St) (l : Label) : Decidable (d.allows c r s l) := by
  cases l <;> cases d <;> simp only [Duty.allows] <;> infer_instance

instance Dutiful.decidable (c : Cfg) (r : Tick) : ∀ (d : Duty) (s : St) (ls : List Label), Decidable (Dutiful c r d s ls)
  | _, _, [] => isTrue trivial
  | d, s, l :: ls =>
    match h : step c s l with
    | some s' =>
      have := Dutiful.decidable c r (d.next r s l) s' ls
      decidable_of_iff (d.allows c r s l ∧ Dutiful c r (d.next r s l) s' ls) (by simp [Dutiful, h])
    | none => decidable_of_iff (d.allows c r s l) (by simp [Dutiful, h])

/-! ### Tie-side and enabledness facts (not property theorems) -/

/-- the model's sweep does not look at the stopper (content: `Tie.sweep_unconditional` over the AST) -/
theorem sweep_is_unconditional (i : Inst) : sweepSpawns i = true := rfl

/-- iterating a snapshot visits the snapshot, whatever happens to the dict (content:
    `Tie.killer_iterates_snapshots` over the AST) -/
theorem killer_sweep_visits_all {α : Type} (snapshot : List α) (sizes : List Nat) :
    iterSnapshot snapshot sizes [] = (.finished, snapshot) := by
  have h : ∀ (xs : List α) (szs : List Nat) (acc : List α),
      iterSnapshot xs szs acc = (.finished, acc.reverse ++ xs) := by
    intro xs
    induction xs with
    | nil => intro szs acc; simp [iterSnapshot]
    | cons x xs ih =>
      intro szs acc
      cases szs with
      | nil => simp [iterSnapshot, ih]
      | cons z zs => simp [iterSnapshot, ih]
  simpa using h snapshot sizes []

/-- the killer's `stop_daemon` is enabled for every running instance of a known memory (restates the guard) -/
theorem killer_begin_enabled (c : Cfg) (s : St) (i : Inst) (r : Reason) (hi : s.run = some i) (hk : s.known = true)
    (hr : r = .pausing ∨ r = .exiting) : ∃ s', step c s (.kBegin r) = some s' := by
  rcases hr with hr | hr <;> subst hr <;> simp [step, hi, hk]

end Kopf.C09
