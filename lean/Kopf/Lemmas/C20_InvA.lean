/-
  C20 helper lemmas, part 2: the startup / flag invariant (`InvA`), for every label list.
-/
import Kopf.Lemmas.C20_Basic
namespace Kopf.C20

/-- The flags and the program counter of `startup_cleanup_activities` agree, and nothing behind the
    `started_flag` guard is alive (or has ever acted) before the flag is set. -/
structure InvA (s : State) : Prop where
  early : (s.sc = .init ∨ s.sc = .startup) → s.startupDone = false ∧ s.startupFailed = false ∧ s.started = false
  okDone : s.sc = .startupOk → s.startupDone = true ∧ s.startupFailed = false ∧ s.started = false
  flagged : s.sc = .flagged → s.started = true
  startedDone : s.started = true → s.startupDone = true ∧ s.startupFailed = false
  readyStarted : s.ready = true → s.started = true
  failedSc : s.startupFailed = true →
    ∃ p, p ≠ Pend.none ∧ (s.sc = .stopCore p ∨ s.sc = .coreStopping p ∨ s.sc = .over p)
  notStarted : s.started = false →
    (∀ r, r.guarded = true → (s.st (.root r)).active = false) ∧ s.nSubs = 0 ∧ s.nWorkers = 0
      ∧ s.orphans = 0 ∧ s.acts = 0 ∧ s.core.active = false

theorem InvA.init : InvA init := by
  constructor <;> simp [Kopf.C20.init]
  intro r hr
  simp [initSt, hr]

set_option maxHeartbeats 2000000 in
theorem InvA.preserved {cfg : Cfg} {s s' : State} {l : Label} (hI : InvA s)
    (h : step cfg s l = some s') : InvA s' := by
  obtain ⟨h1, h2, h3, h4, h5, h6, h7⟩ := hI
  cases l <;> simp only [step] at h
  all_goals (repeat' (split at h))
  all_goals (first | (cases h; done) | skip)
  all_goals (cases h)
  all_goals (refine ⟨?_, ?_, ?_, ?_, ?_, ?_, ?_⟩ <;> simp_all)
  all_goals grind [upd, Root.guarded, TS.active, watcherLike, Root.kind]

theorem InvA.run {cfg : Cfg} : ∀ (ls : List Label) {s s' : State}, InvA s → run cfg s ls = some s' → InvA s'
  | [], s, s', hI, h => by simp [Kopf.C20.run] at h; subst h; exact hI
  | l :: ls, s, s', hI, h => by
    simp only [Kopf.C20.run] at h
    split at h
    · rename_i s1 hs1
      exact InvA.run ls (InvA.preserved hI hs1) h
    · cases h

theorem InvA.reach {cfg : Cfg} {s : State} (h : Reach cfg s) : InvA s := by
  obtain ⟨ls, hls⟩ := h
  exact InvA.run ls InvA.init hls

end Kopf.C20
