/-
  C20 helper lemmas: progress. Every cooperatively reachable, not yet exited state either has an internal non-`delay`
  step that decreases the measure `mu`, or nothing is urgent (time may pass) — and after a trigger the latter happens
  only while `run_tasks` waits for hung tasks.
-/
import Kopf.Lemmas.C20_Measure
namespace Kopf.C20

structure InvF (s : State) : Prop where
  rootWF : ∀ r, s.st (.root r) = .waitingFlag → r.guarded = true
  subSt : ∀ i, i < s.nSubs →
    s.st (.sub i) = .running ∨ (s.st (.sub i)).isStopping = true ∨ (s.st (.sub i)).ended = true
  rootSt : ∀ r, s.st (.root r) ≠ .absent
  scRun : (s.st (.root .startupCleanup)).ended = false → s.st (.root .startupCleanup) = .running
  stoppingKind : ∀ r, (s.st (.root r)).isStopping = true →
    r.kind = .killer ∨ r.kind = .observer ∨ r.kind = .orchestrator

theorem InvF.init : InvF init := by
  constructor <;> simp [Kopf.C20.init, initSt, Root.guarded, Root.kind]
  · intro r; split <;> simp_all
  · intro r; split <;> simp
  · intro r; cases r <;> simp

set_option maxHeartbeats 4000000 in
theorem InvF.preserved {cfg : Cfg} {s s' : State} {l : Label} (hI : InvF s)
    (h : step cfg s l = some s') : InvF s' := by
  obtain ⟨h1, h2, h3, h4, h5⟩ := hI
  have hes : ∀ t : TS, t.ended = true → t.isStopping = false := by intro t; cases t <;> simp
  cases l <;> simp only [step] at h
  all_goals (repeat' (split at h))
  all_goals (first | (cases h; done) | skip)
  all_goals (cases h)
  all_goals (refine ⟨?_, ?_, ?_, ?_, ?_⟩)
  all_goals (first | exact h1 | exact h2 | exact h3 | exact h4 | exact h5 | skip)
  all_goals (try simp only [kind_orchestrator_iff, kind_killer_iff, kind_flagChecker_iff, kind_ultimate_iff,
    kind_startupCleanup_iff, kind_coreWatch_iff] at *)
  all_goals (try subst_vars)
  all_goals (try dsimp only)
  all_goals (grind [upd, Root.kind, Root.guarded, TS.active, TS.live, TS.ended, TS.isStopping, failTS, Pend.ts])

theorem InvF.reach {cfg : Cfg} {s : State} (h : Reach cfg s) : InvF s :=
  Reach.induction (P := InvF) InvF.init (fun _ _ _ _ hI hs => InvF.preserved hI hs) s h

set_option maxHeartbeats 4000000 in
theorem triggered_step {cfg : Cfg} {s s' : State} {l : Label} (ht : Triggered s)
    (h : step cfg s l = some s') : Triggered s' := by
  have hm : (markFail s).isSome = true := by cases h' : s.tFail <;> simp [markFail, h']
  unfold Triggered at ht ⊢
  simp only [anyRootEnded_iff] at ht ⊢
  cases l <;> simp only [step] at h
  all_goals (repeat' (split at h))
  all_goals (first | (cases h; done) | skip)
  all_goals (cases h)
  all_goals (first | exact ht | skip)
  all_goals (try dsimp only)
  all_goals (grind [upd, TS.ended, failTS, Pend.ts])

end Kopf.C20
