/-
  C19 — the namespace insights follow the cluster as long as every change went through the stream as an event.
-/
import Kopf.Lemmas.C19_Progress
import Kopf.Model.C19_Insights
namespace Kopf.C19

theorem evView_neutral {o : Out} (h : ∀ kind k rv, o ≠ .event kind k rv) (b : Nat → Option Nat) (past : List Out) (k : Nat) :
    evView b (o :: past) k = evView b past k := by
  cases o <;> first | rfl | exact absurd rfl (h _ _ _)

theorem evView_items (b : Nat → Option Nat) (xs : List Entry) (past : List Out) (k : Nat) :
    evView b (xs.map (fun e => Out.item e.key e.rv) ++ past) k = evView b past k := by
  induction xs with
  | nil => rfl
  | cons x xs ih => simpa [evView] using ih

theorem event_mem_items {kind : Kind} {k rv : Nat} (xs : List Entry) (past : List Out)
    (h : Out.event kind k rv ∈ xs.map (fun e => Out.item e.key e.rv) ++ past) : Out.event kind k rv ∈ past := by
  rcases List.mem_append.mp h with h | h
  · obtain ⟨e, _, he⟩ := List.mem_map.mp h; cases he
  · exact h

/-- the invariant, relative to the observer's own listing at version `r0` with result `b` -/
structure IInv (b : Nat → Option Nat) (r0 : Nat) (w : World) : Prop where
  r0_le : r0 ≤ w.srv
  conn : (w.phase = .connecting ∨ w.phase = .streaming) → r0 ≤ w.since
  evs : ∀ kind k rv, Out.event kind k rv ∈ w.outs → r0 < rv ∧ rv ≤ w.since ∧ (⟨rv, k, kind⟩ : Entry) ∈ w.log
  main : AllDelivered r0 w → ∀ k, evView b w.outs k = stateAt w.log (max r0 w.since) k

/-- an act that changes neither the log nor `since` nor `srv`, adds at most one output that is not an
    event, and does not enter `connecting`/`streaming` from elsewhere -/
theorem iinv_frame {b : Nat → Option Nat} {r0 : Nat} {w w' : World} (h : IInv b r0 w)
    (hlog : w'.log = w.log) (hsince : w'.since = w.since) (hsrv : w'.srv = w.srv)
    (hph : (w'.phase = .connecting ∨ w'.phase = .streaming) → (w.phase = .connecting ∨ w.phase = .streaming))
    (houts : w'.outs = w.outs ∨ ∃ o, (∀ kind k rv, o ≠ .event kind k rv) ∧ w'.outs = o :: w.outs) : IInv b r0 w' := by
  have hmem : ∀ kind k rv, Out.event kind k rv ∈ w'.outs → Out.event kind k rv ∈ w.outs := by
    intro kind k rv hm
    rcases houts with ho | ⟨o, hn, ho⟩
    · rw [ho] at hm; exact hm
    · rw [ho] at hm
      rcases List.mem_cons.mp hm with heq | hm
      · exact absurd heq.symm (hn _ _ _)
      · exact hm
  refine ⟨by rw [hsrv]; exact h.r0_le, fun hp => by rw [hsince]; exact h.conn (hph hp), ?_, ?_⟩
  · intro kind k rv hm
    rw [hsince, hlog]; exact h.evs kind k rv (hmem kind k rv hm)
  · intro had k
    have had' : AllDelivered r0 w := by
      intro e he h1 h2
      exact hmem _ _ _ (had e (by rw [hlog]; exact he) h1 (by rw [hsince]; exact h2))
    rw [hlog, hsince]
    rcases houts with ho | ⟨o, hn, ho⟩
    · rw [ho]; exact h.main had' k
    · rw [ho, evView_neutral hn]; exact h.main had' k

theorem iinv_step {b : Nat → Option Nat} {r0 : Nat} {w : World} (hi : Inv w) (h : IInv b r0 w) (a : Act) :
    IInv b r0 (step w a) := by
  have ne_req : ∀ kind k rv, Out.reqList ≠ .event kind k rv := fun _ _ _ => by simp
  cases a with
  | change key kind vis =>
      simp only [step]
      split
      · refine ⟨by have := h.r0_le; simp; omega, h.conn, ?_, ?_⟩
        · intro kd k rv hm
          obtain ⟨h1, h2, h3⟩ := h.evs kd k rv hm
          exact ⟨h1, h2, List.mem_append_left _ h3⟩
        · intro had k
          have had' : AllDelivered r0 w := fun e he h1 h2 => had e (List.mem_append_left _ he) h1 h2
          have hlt : max r0 w.since < w.srv + 1 := by have := h.r0_le; have := hi.since_le; omega
          show evView b w.outs k = stateAt (w.log ++ [⟨w.srv + 1, key, kind⟩]) (max r0 w.since) k
          rw [stateAt_append_gt _ _ _ _ hlt]
          exact h.main had' k
      · exact ⟨by have := h.r0_le; simp; omega, h.conn, h.evs, h.main⟩
  | compact upto => exact ⟨h.r0_le, h.conn, h.evs, h.main⟩
  | setHttp410 v => exact ⟨h.r0_le, h.conn, h.evs, h.main⟩
  | pause => exact ⟨h.r0_le, h.conn, h.evs, h.main⟩
  | resume => exact ⟨h.r0_le, h.conn, h.evs, h.main⟩
  | unknownType => exact h
  | notice =>
      simp only [step]
      split
      · split
        · exact iinv_frame h rfl rfl rfl (by simp [toBackoff]) (Or.inl rfl)
        · exact iinv_frame h rfl rfl rfl (by simp [toBackoff]) (Or.inl rfl)
        · exact iinv_frame h rfl rfl rfl (by simp [toBackoff]) (Or.inl rfl)
        · exact h
      · exact h
  | unblock =>
      simp only [step]
      split
      · split
        · exact h
        · exact iinv_frame h rfl rfl rfl (by simp [startListing, emit]) (Or.inr ⟨.reqList, ne_req, rfl⟩)
      · exact h
  | wake =>
      simp only [step]
      split
      · split
        · exact iinv_frame h rfl rfl rfl (by simp) (Or.inl rfl)
        · exact iinv_frame h rfl rfl rfl (by simp [startListing, emit]) (Or.inr ⟨.reqList, ne_req, rfl⟩)
      · exact h
  | retry =>
      simp only [step]
      split
      · exact iinv_frame h rfl rfl rfl (by rename_i hp; simp [emit, hp]) (Or.inr ⟨.retryList, fun _ _ _ => by simp, rfl⟩)
      · exact iinv_frame h rfl rfl rfl (by rename_i hp; simp [emit, hp]) (Or.inr ⟨.retryWatch w.since, fun _ _ _ => by simp, rfl⟩)
      · exact h
  | failReq k =>
      simp only [step]
      split
      · cases k
        · exact iinv_frame h rfl rfl rfl (by simp [toBackoff]) (Or.inl rfl)
        · exact iinv_frame h rfl rfl rfl (by simp [toBackoff]) (Or.inl rfl)
        · exact iinv_frame h rfl rfl rfl (by simp [toBackoff]) (Or.inl rfl)
        · exact iinv_frame h rfl rfl rfl (by simp [fail, emit]) (Or.inr ⟨.raised .fatal, fun _ _ _ => by simp, rfl⟩)
      · rename_i hp
        cases k
        · simp only [rewatch]; split
          · exact iinv_frame h rfl rfl rfl (by simp [toBackoff]) (Or.inl rfl)
          · exact iinv_frame h rfl rfl rfl (by simp [emit, hp]) (Or.inr ⟨.reqWatch w.since, fun _ _ _ => by simp, rfl⟩)
        · simp only [rewatch]; split
          · exact iinv_frame h rfl rfl rfl (by simp [toBackoff]) (Or.inl rfl)
          · exact iinv_frame h rfl rfl rfl (by simp [emit, hp]) (Or.inr ⟨.reqWatch w.since, fun _ _ _ => by simp, rfl⟩)
        · exact iinv_frame h rfl rfl rfl (by simp [toBackoff]) (Or.inl rfl)
        · exact iinv_frame h rfl rfl rfl (by simp [fail, emit]) (Or.inr ⟨.raised .fatal, fun _ _ _ => by simp, rfl⟩)
      · exact h
  | drop d =>
      simp only [step]
      split
      · rename_i hp
        simp only [rewatch]; split
        · exact iinv_frame h rfl rfl rfl (by simp [toBackoff]) (Or.inl rfl)
        · exact iinv_frame h rfl rfl rfl (by simp [emit, hp]) (Or.inr ⟨.reqWatch w.since, fun _ _ _ => by simp, rfl⟩)
      · exact h
  | err410 =>
      simp only [step]
      split
      · exact iinv_frame h rfl rfl rfl (by simp [toBackoff]) (Or.inl rfl)
      · exact h
  | errUnknown =>
      simp only [step]
      split
      · exact iinv_frame h rfl rfl rfl (by simp [fail, emit]) (Or.inr ⟨.raised .unknownError, fun _ _ _ => by simp, rfl⟩)
      · exact h
  | garbage =>
      simp only [step]
      split
      · exact iinv_frame h rfl rfl rfl (by simp [fail, emit]) (Or.inr ⟨.raised .garbage, fun _ _ _ => by simp, rfl⟩)
      · exact h
  | bookmark bm =>
      simp only [step]
      split
      · rename_i hp
        split
        · rename_i hb
          simp only [bookmarkOK, Bool.and_eq_true, decide_eq_true_eq, List.all_eq_true,
            Bool.or_eq_true] at hb
          obtain ⟨⟨h1, h2⟩, h3⟩ := hb
          have hr0 : r0 ≤ w.since := h.conn (Or.inr hp)
          refine ⟨h.r0_le, fun _ => Nat.le_trans hr0 h1, ?_, ?_⟩
          · intro kd k rv hm
            have hm' : Out.event kd k rv ∈ w.outs := by
              simp only [emit] at hm
              rcases List.mem_cons.mp hm with heq | hm
              · cases heq
              · simpa using hm
            obtain ⟨g1, g2, g3⟩ := h.evs kd k rv hm'
            exact ⟨g1, Nat.le_trans g2 h1, g3⟩
          · intro had k
            have had' : AllDelivered r0 w := by
              intro e he g1 g2
              have := had e he g1 (Nat.le_trans g2 h1)
              simp only [emit] at this
              rcases List.mem_cons.mp this with heq | hm
              · cases heq
              · simpa using hm
            show evView b (Out.bookmark bm :: w.outs) k = stateAt w.log (max r0 bm) k
            rw [evView_neutral (fun _ _ _ => by simp), h.main had' k]
            have e1 : max r0 bm = bm := by omega
            have e2 : max r0 w.since = w.since := by omega
            rw [e1, e2]
            unfold stateAt
            have : w.log.filter (fun x => decide (x.rv ≤ bm)) = w.log.filter (fun x => decide (x.rv ≤ w.since)) := by
              apply List.filter_congr
              intro e he
              rcases h3 e he with hl | hg
              · have : e.rv ≤ bm := Nat.le_trans hl h1
                simp [hl, this]
              · have h4 : ¬ e.rv ≤ bm := by omega
                have h5 : ¬ e.rv ≤ w.since := by omega
                simp [h4, h5]
            rw [this]
        · exact h
      · exact h
  | deliver =>
      simp only [step]
      split
      · rename_i hp
        split
        · rename_i e hn
          obtain ⟨hmem, hgt⟩ := nextEntry_mem hn
          have hr0 : r0 ≤ w.since := h.conn (Or.inr hp)
          refine ⟨h.r0_le, fun _ => by show r0 ≤ e.rv; omega, ?_, ?_⟩
          · intro kd k rv hm
            simp only [emit] at hm
            rcases List.mem_cons.mp hm with heq | hm
            · injection heq with q1 q2 q3
              subst q1 q2 q3
              exact ⟨by omega, Nat.le_refl _, hmem⟩
            · obtain ⟨g1, g2, g3⟩ := h.evs kd k rv (by simpa using hm)
              exact ⟨g1, by show rv ≤ e.rv; omega, g3⟩
          · intro had k
            have had' : AllDelivered r0 w := by
              intro e0 he0 g1 g2
              have := had e0 he0 g1 (by show e0.rv ≤ e.rv; omega)
              simp only [emit] at this
              rcases List.mem_cons.mp this with heq | hm
              · injection heq with _ _ q3; omega
              · simpa using hm
            show evView b (Out.event e.kind e.key e.rv :: w.outs) k = stateAt w.log (max r0 e.rv) k
            have e1 : max r0 e.rv = e.rv := by omega
            have e2 : max r0 w.since = w.since := by omega
            rw [e1]
            unfold stateAt
            rw [filter_le_next hi.sorted hn, lastOf_append_single]
            simp only [evView]
            by_cases hk : e.key = k
            · simp [hk]
            · simp only [hk, if_false]
              have := h.main had' k
              rw [e2] at this
              unfold stateAt at this
              exact this
        · exact h
      · exact h
  | respond =>
      simp only [step]
      split
      · -- the stream's own listing: ignored by the consumer
        rename_i hp
        have hmem : ∀ kd k rv, Out.event kd k rv ∈ (Out.listed w.srv :: (itemsBlock w.log ++ w.outs)) → Out.event kd k rv ∈ w.outs := by
          intro kd k rv hm
          rcases List.mem_cons.mp hm with heq | hm
          · cases heq
          · rw [itemsBlock_eq] at hm; exact event_mem_items _ _ hm
        have hmain : AllDelivered r0 { w with since := w.srv, outs := Out.listed w.srv :: (itemsBlock w.log ++ w.outs) } →
            ∀ k, evView b (Out.listed w.srv :: (itemsBlock w.log ++ w.outs)) k = stateAt w.log (max r0 w.srv) k := by
          intro had k
          have had' : AllDelivered r0 w := by
            intro e he g1 g2
            exact hmem _ _ _ (had e he g1 (Nat.le_trans g2 hi.since_le))
          rw [evView_neutral (fun _ _ _ => by simp), itemsBlock_eq, evView_items, h.main had' k]
          unfold stateAt
          have : w.log.filter (fun x => decide (x.rv ≤ max r0 w.since)) = w.log.filter (fun x => decide (x.rv ≤ max r0 w.srv)) := by
            apply List.filter_congr
            intro e he
            by_cases hle : e.rv ≤ max r0 w.since
            · have : e.rv ≤ max r0 w.srv := by have := hi.since_le; omega
              simp [hle, this]
            · have hb := hi.bound e he
              have hgt : r0 < e.rv := by omega
              have hev := hmem _ _ _ (had e he hgt hb)
              have := (h.evs _ _ _ hev).2.1
              omega
          rw [this]
        simp only [rewatch]
        split
        · refine ⟨h.r0_le, by simp [toBackoff, emit, hp], ?_, ?_⟩
          · intro kd k rv hm
            obtain ⟨g1, g2, g3⟩ := h.evs kd k rv (hmem kd k rv (by simpa [emit, toBackoff] using hm))
            exact ⟨g1, Nat.le_trans g2 hi.since_le, g3⟩
          · intro had k
            exact hmain (fun e he g1 g2 => by simpa [emit, toBackoff] using had e he g1 g2) k
        · refine ⟨h.r0_le, fun _ => h.r0_le, ?_, ?_⟩
          · intro kd k rv hm
            have hm' : Out.event kd k rv ∈ Out.listed w.srv :: (itemsBlock w.log ++ w.outs) := by
              simp only [emit] at hm
              rcases List.mem_cons.mp hm with heq | hm
              · cases heq
              · simpa using hm
            obtain ⟨g1, g2, g3⟩ := h.evs kd k rv (hmem kd k rv hm')
            exact ⟨g1, Nat.le_trans g2 hi.since_le, g3⟩
          · intro had k
            show evView b (Out.reqWatch w.srv :: (Out.listed w.srv :: (itemsBlock w.log ++ w.outs))) k = _
            rw [evView_neutral (fun _ _ _ => by simp)]
            apply hmain
            intro e he g1 g2
            have := had e he g1 g2
            simp only [emit] at this
            rcases List.mem_cons.mp this with heq | hm
            · cases heq
            · simpa using hm
      · rename_i hp
        split
        · exact iinv_frame h rfl rfl rfl (by simp [toBackoff]) (Or.inl rfl)
        · split
          · exact iinv_frame h rfl rfl rfl (by simp [toBackoff]) (Or.inl rfl)
          · split
            · exact iinv_frame h rfl rfl rfl (by simp [toBackoff]) (Or.inl rfl)
            · exact iinv_frame h rfl rfl rfl (by intro _; exact Or.inl hp) (Or.inl rfl)
      · exact h

theorem iinv_run {b : Nat → Option Nat} {r0 : Nat} (as : List Act) :
    ∀ {w : World}, Inv w → IInv b r0 w → IInv b r0 (run w as) := by
  induction as with
  | nil => intro w _ h; exact h
  | cons a as ih => intro w hi h; exact ih (inv_step hi a) (iinv_step hi h a)

/-- a history of writes only: nothing was requested or yielded, the client has not started -/
theorem onlyChanges_run (pre : List Act) (hp : OnlyChanges pre) :
    (run init pre).outs = [] ∧ (run init pre).since = 0 ∧ (run init pre).phase = .backoff := by
  suffices h : ∀ w : World, w.outs = [] ∧ w.since = 0 ∧ w.phase = .backoff →
      (run w pre).outs = [] ∧ (run w pre).since = 0 ∧ (run w pre).phase = .backoff from h init ⟨rfl, rfl, rfl⟩
  induction pre with
  | nil => intro w h; exact h
  | cons a as ih =>
      intro w h
      obtain ⟨k, kind, vis, rfl⟩ := hp a List.mem_cons_self
      apply ih (fun x hx => hp x (List.mem_cons_of_mem _ hx))
      simp only [step]; split <;> exact h

theorem iinv_start (pre : List Act) (hp : OnlyChanges pre) :
    let w0 := run init pre
    IInv (stateAt w0.log w0.srv) w0.srv w0 := by
  intro w0
  obtain ⟨ho, hs, hph⟩ := onlyChanges_run pre hp
  refine ⟨Nat.le_refl _, ?_, ?_, ?_⟩
  · intro h; rcases h with h | h <;> rw [hph] at h <;> cases h
  · intro kd k rv hm; rw [ho] at hm; cases hm
  · intro _ k
    rw [ho, hs]
    show stateAt w0.log w0.srv k = stateAt w0.log (max w0.srv 0) k
    simp

end Kopf.C19
