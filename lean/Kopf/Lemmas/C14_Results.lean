/-
  Lemmas for C14's cycles cut short by an exception (`Model/C14_Results.lean`): whatever way a cycle ends, it invokes
  what the plain step invokes, and it leaves either the plain step's memory or the recalled one.
-/
import Kopf.Model.C14_Results
import Kopf.Lemmas.C14_Step
namespace Kopf.C14
open Kopf Kopf.C02

theorem stepWith_invoked (old : Bool) (raises : List ResultShape → Bool) (decls : List Decl) (m : Option Mem) (P : Store) (e : Event)
    (rs : List ResultShape) (pl : Bool) :
    (stepWith old raises decls m P e rs pl).invoked = (step decls m P e).invoked := by
  unfold stepWith
  split
  · cases old <;> rfl
  · split <;> rfl

/-- the memory the cycle cut in the delivery leaves, through the bridge of `step_eq` -/
theorem cutAtDelivery_mem (decls : List Decl) (m : Option Mem) (P : Store) (e : Event) :
    (cutAtDelivery decls m P e).mem =
      (if e.deleted then none else some
        { recall m e with resumed := (recall m e).resumed ++ finalsOf decls (recall m e) e P }) := by
  have hf := cycleFinalsB_eq (cfgOf decls (recall m e) e) (boundOf decls (causeOf (recall m e) e)) P e.now e.exec
  unfold cutAtDelivery
  simp only
  rw [hf]
  rfl

/-- the memory a cycle leaves: the plain step's, or — cut in the delivery of the results — that of the cut -/
theorem stepWith_mem (old : Bool) (raises : List ResultShape → Bool) (decls : List Decl) (m : Option Mem) (P : Store) (e : Event)
    (rs : List ResultShape) (pl : Bool) :
    (stepWith old raises decls m P e rs pl).mem = (step decls m P e).mem ∨
    ((stepWith old raises decls m P e rs pl).mem =
        (if old then cutBeforeMemoryOld decls m P e else cutAtDelivery decls m P e).mem ∧
      e.suppressed = false ∧ raises rs = true) := by
  unfold stepWith
  split
  · rename_i h
    right
    simp only [Bool.and_eq_true, Bool.not_eq_true'] at h
    exact ⟨rfl, h.1.1, h.2⟩
  · left; split <;> rfl

theorem stepWith_mem_of_not_raises (old : Bool) (raises : List ResultShape → Bool) (decls : List Decl) (m : Option Mem) (P : Store)
    (e : Event) (rs : List ResultShape) (pl : Bool) (h : raises rs = false) :
    (stepWith old raises decls m P e rs pl).mem = (step decls m P e).mem := by
  rcases stepWith_mem old raises decls m P e rs pl with h' | ⟨_, _, h'⟩
  · exact h'
  · rw [h] at h'; cases h'

/-- the first processed event decides the flag once: recalling again with the same event changes nothing -/
theorem recall_idem (m : Option Mem) (e : Event) : recall (some (recall m e)) e = recall m e := by
  cases m with
  | none => rfl
  | some mem =>
    simp only [recall]
    cases h : mem.noticed with
    | none => rfl
    | some b => simp [h]

theorem step_recalled (decls : List Decl) (m : Option Mem) (P : Store) (e : Event) :
    step decls (some (recall m e)) P e = step decls m P e := by
  unfold step
  rw [recall_idem]

end Kopf.C14
