/-
  Lemmas for C14's cycles cut short by an exception (`Model/C14_Results.lean`): whatever way a cycle ends, it invokes
  what the plain step invokes, and it leaves either the plain step's memory or the recalled one.
-/
import Kopf.Model.C14_Results
import Kopf.Lemmas.C14_Step
namespace Kopf.C14
open Kopf Kopf.C02

theorem stepWith_invoked (raises : List ResultShape → Bool) (decls : List Decl) (m : Option Mem) (P : Store) (e : Event)
    (rs : List ResultShape) (pl : Bool) :
    (stepWith raises decls m P e rs pl).invoked = (step decls m P e).invoked := by
  unfold stepWith
  split
  · rfl
  · split <;> rfl

/-- the memory a cycle leaves: the plain step's, or — cut before the bookkeeping — the recalled one -/
theorem stepWith_mem (raises : List ResultShape → Bool) (decls : List Decl) (m : Option Mem) (P : Store) (e : Event)
    (rs : List ResultShape) (pl : Bool) :
    (stepWith raises decls m P e rs pl).mem = (step decls m P e).mem ∨
    ((stepWith raises decls m P e rs pl).mem = (if e.deleted then none else some (recall m e)) ∧ raises rs = true) := by
  unfold stepWith
  split
  · rename_i h
    right
    simp only [Bool.and_eq_true] at h
    exact ⟨rfl, h.2⟩
  · left; split <;> rfl

theorem stepWith_mem_of_not_raises (raises : List ResultShape → Bool) (decls : List Decl) (m : Option Mem) (P : Store)
    (e : Event) (rs : List ResultShape) (pl : Bool) (h : raises rs = false) :
    (stepWith raises decls m P e rs pl).mem = (step decls m P e).mem := by
  rcases stepWith_mem raises decls m P e rs pl with h' | ⟨_, h'⟩
  · exact h'
  · rw [h] at h'; cases h'

/-- the first processed event decides the flag once: recalling again with the same event changes nothing -/
theorem recall_idem (m : Option Mem) (e : Event) : recall (some (recall m e)) e = recall m e := by
  cases m with
  | none => rfl
  | some mem =>
    simp only [recall]
    cases h : mem.noticed with
    | none => rfl
    | some b => simp [h]

theorem step_recalled (decls : List Decl) (m : Option Mem) (P : Store) (e : Event) :
    step decls (some (recall m e)) P e = step decls m P e := by
  unfold step
  rw [recall_idem]

end Kopf.C14
