/-
  C01 — the inductive invariant of the queueing LTS and its preservation by every label.
  Helper lemmas only; the property theorems are in Kopf/Props/C01.lean.
-/
import Kopf.Model.C01_Queueing
namespace Kopf.C01

/-- unfold one step, split on its guards, and substitute the successor state -/
macro "step_cases " h:ident : tactic =>
  `(tactic| (simp only [step, stepCore] at $h:ident <;> (repeat' split at $h:ident) <;> cases $h:ident))

theorem upd_apply {α β : Type} [DecidableEq α] (f : α → β) (a x : α) (b : β) :
    upd f a b x = if x = a then b else f x := rfl

/-- Everything that is maintained by every atomic segment of the real code (the model `step`). -/
structure Inv (s : State) : Prop where
  closed_closing : s.closed = true → s.closing = true
  pend_iff : ∀ w, w ∈ s.pendingQ ↔ s.pc w = some .pending
  run_iff : ∀ w, w ∈ s.running ↔ ∃ p, s.pc w = some p ∧ p ≠ .pending
  pend_nodup : s.pendingQ.Nodup
  fresh : ∀ k g, s.nextGen k ≤ g → s.pc ⟨k, g⟩ = none
  live_stream : ∀ w p, s.pc w = some p → p.live = true → s.streams w.key ≠ none
  stream_live : s.closed = false → ∀ k, s.streams k ≠ none →
                  ∃ w p, w.key = k ∧ s.pc w = some p ∧ p.live = true
  uniq : ∀ w w' p p', s.pc w = some p → s.pc w' = some p' → p.live = true → p'.live = true →
           w.key = w'.key → w = w'
  hand_none : ∀ k e, s.hand = some (k, e) → s.streams k = none ∧ s.closing = false
  nonempty : ∀ w, (s.pc w = some .pending ∨ s.pc w = some .spawned) → s.streams w.key ≠ some []
  noeos : s.closing = false → ∀ k b, s.streams k = some b → Item.eos ∉ b
  lossless : s.closed = false → ∀ k, s.failedK k = false →
               s.arrived k = s.started k ++ backlogEvs s k ++ handEvs s k ++ s.dropped k
  dropped_nil : s.closing = false → ∀ k, s.dropped k = []
  eos_last : ∀ k b, s.streams k = some b → Item.eos ∉ b.dropLast
  started_spec : s.closed = false → ∀ k, s.started k = s.processed k ∨
               ∃ w e, w.key = k ∧ s.pc w = some (.busy e) ∧ s.started k = s.processed k ++ [e]
  busy_started : ∀ w e, s.pc w = some (.busy e) → s.started w.key = s.processed w.key ++ [e]
  limit_ok : ∀ n, s.limit = some n → s.running.length ≤ n
  no_checked : ∀ w, s.pc w ≠ some .checked

section
variable {s s' : State} {l : Label}

theorem closed_closing_step (hi : Inv s) (h : step s l = some s') :
    s'.closed = true → s'.closing = true := by
  have := hi.closed_closing
  cases l <;> step_cases h <;> simp_all

theorem pend_iff_step (hi : Inv s) (h : step s l = some s') :
    ∀ w, w ∈ s'.pendingQ ↔ s'.pc w = some .pending := by
  have h1 := hi.pend_iff
  have h2 := hi.pend_nodup
  have h3 := hi.fresh
  intro w
  cases l <;> step_cases h <;> (try simp only [upd_apply]) <;> (try split) <;> simp_all
  all_goals grind

theorem run_iff_step (hi : Inv s) (h : step s l = some s') :
    ∀ w, w ∈ s'.running ↔ ∃ p, s'.pc w = some p ∧ p ≠ .pending := by
  have h1 := hi.run_iff
  have h2 := hi.pend_iff
  have h3 := hi.fresh
  intro w
  cases l <;> step_cases h <;> (try simp only [upd_apply]) <;> (try split) <;> simp_all
  all_goals grind

theorem pend_nodup_step (hi : Inv s) (h : step s l = some s') : s'.pendingQ.Nodup := by
  have h1 := hi.pend_iff
  have h2 := hi.pend_nodup
  have h3 := hi.fresh
  cases l <;> step_cases h <;> simp_all
  all_goals grind

theorem fresh_step (hi : Inv s) (h : step s l = some s') :
    ∀ k g, s'.nextGen k ≤ g → s'.pc ⟨k, g⟩ = none := by
  have h3 := hi.fresh
  have h1 := hi.pend_iff
  intro k g
  cases l <;> step_cases h <;> (try simp only [upd_apply]) <;> (try split) <;> simp_all
  all_goals grind

theorem no_checked_step (hi : Inv s) (h : step s l = some s') : ∀ w, s'.pc w ≠ some .checked := by
  have h1 := hi.no_checked
  intro w
  cases l <;> step_cases h <;> (try simp only [upd_apply]) <;> (try split) <;> simp_all

theorem limit_step (hi : Inv s) (h : step s l = some s') :
    ∀ n, s'.limit = some n → s'.running.length ≤ n := by
  have h1 := hi.limit_ok
  intro n hn
  cases l <;> step_cases h <;> simp_all [canSpawn]
  all_goals first
    | omega
    | exact Nat.le_trans (List.length_filter_le _ _) h1

theorem hand_none_step (hi : Inv s) (h : step s l = some s') :
    ∀ k e, s'.hand = some (k, e) → s'.streams k = none ∧ s'.closing = false := by
  have h1 := hi.hand_none
  intro k e
  cases l <;> step_cases h <;> (try simp only [upd_apply]) <;> (try split) <;> simp_all
  all_goals grind

theorem noeos_step (hi : Inv s) (h : step s l = some s') :
    s'.closing = false → ∀ k b, s'.streams k = some b → Item.eos ∉ b := by
  have h1 := hi.noeos
  have h2 := hi.closed_closing
  intro hc k b
  cases l <;> step_cases h <;> (try simp only [upd_apply]) <;> (try split) <;> simp_all
  all_goals grind

end
end Kopf.C01
