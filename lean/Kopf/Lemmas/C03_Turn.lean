/-
  The full turn of the loop (finalizer decision of C06 around the handling pass) and the proof that
  every turn with a pending event strictly decreases `bound`.
-/
import Kopf.Lemmas.C03_Rank
namespace Kopf.C03
open Kopf Kopf.C02

variable {E : Type} [DecidableEq E]

/-! ### the decision block of C06, specialised to this loop -/

theorem dec_add (env : Env) (s : State E) :
    (decisionOf env s).add = (env.prematch && env.changeReq && !s.blocked && !s.marked) := by
  unfold decisionOf C06.decision finIn C06.mustBlockG C06.addG
  simp

theorem dec_rem (env : Env) (s : State E) :
    (decisionOf env s).removeUnneeded = (!(env.prematch && env.changeReq) && s.blocked) := by
  unfold decisionOf C06.decision finIn C06.mustBlockG C06.removeG
  simp

theorem dec_run (env : Env) (s : State E) :
    (decisionOf env s).handlersRun =
      (env.prematch && !((decisionOf env s).add || (decisionOf env s).removeUnneeded)) := by
  unfold decisionOf C06.decision finIn C06.mustBlockG C06.addG C06.removeG C06.earlyG
  simp

theorem dec_rel (env : Env) (s : State E) :
    (decisionOf env s).release =
      (s.marked && s.blocked && !((decisionOf env s).handlersRun && !(pass env s).delays.isEmpty)) := by
  unfold decisionOf C06.decision finIn C06.mustBlockG C06.addG C06.removeG C06.earlyG C06.releaseG
  generalize (pass env s).delays.isEmpty = e
  cases env.prematch <;> cases env.changeReq <;> cases s.blocked <;> cases s.marked <;> cases e <;> rfl

theorem adjusting_eq (env : Env) (s : State E) :
    adjusting env s = ((env.prematch && env.changeReq && !s.blocked && !s.marked) ||
                       (!(env.prematch && env.changeReq) && s.blocked)) := by
  unfold adjusting; rw [dec_add, dec_rem]

/-! ### the handling bound does not grow while only the clock or the finalizer moves -/

theorem int_gt_of_le (d t t' : Int) (h : t ≤ t') (hgt : d > t') : d > t := by omega

theorem awake_mono {P : Store} {t t' : Tick} (h : t ≤ t') {i : Id} (ha : awakeP P t i = true) :
    awakeP P t' i = true := by
  unfold awakeP at *
  cases hP : P i with
  | none => rfl
  | some r =>
    simp only [hP] at ha ⊢
    unfold Rec.awakened Rec.sleeping at *
    cases hf : r.finished
    · cases hd : r.delayed with
      | none => simp
      | some d =>
        simp only [hf, hd, Bool.not_false, Bool.true_and, Bool.not_eq_true', decide_eq_false_iff_not] at ha ⊢
        intro hgt
        exact ha (int_gt_of_le d t t' h hgt)
    · simp [hf] at ha

theorem Av_mono (l : List Id) (P : Store) {t t' : Tick} (h : t ≤ t') : Av l P t' ≤ Av l P t := by
  unfold Av
  by_cases ha : l.any (awakeP P t) = true
  · have : l.any (awakeP P t') = true := by
      rw [List.any_eq_true] at ha ⊢
      obtain ⟨i, hi, hai⟩ := ha
      exact ⟨i, hi, awake_mono h hai⟩
    simp [ha, this]
  · simp only [ha]
    split <;> simp

theorem slack_mono (cap : Tick) (P : Store) {t t' : Tick} (h : t ≤ t') (i : Id) :
    slack cap P t' i ≤ slack cap P t i := by
  unfold slack
  cases hP : P i with
  | none => simp
  | some r =>
    simp only
    cases hf : r.finished
    · simp only [Bool.false_eq_true, if_false]
      cases hd : r.delayed with
      | none => simp
      | some d => exact Nat.div_le_div_right (int_toNat_sub_le d t t' h)
    · simp

theorem Cv_mono (cap : Tick) (l : List Id) (P : Store) {t t' : Tick} (h : t ≤ t') :
    Cv cap l P t' ≤ Cv cap l P t := by
  unfold Cv
  exact sum_map_le _ _ _ (fun i _ => slack_mono cap P h i)

theorem extras_now_indep (cfg : Cfg) (P : Store) (t t' : Tick) : extras cfg P t = extras cfg P t' := by
  unfold extras hasExtras
  congr 1
  funext i
  unfold withHandlers fromStorage
  by_cases hs : i ∈ cfg.selected <;> by_cases ho : i ∈ cfg.owned <;> cases hP : P i <;>
    simp [hs, ho, hP, fresh]

theorem causeOf_unmarked (s s' : State E) (h1 : s'.base = s.base) (h2 : s'.ess = s.ess)
    (h3 : s'.noticed = s.noticed) (h4 : s'.fullyHandled = s.fullyHandled)
    (hm : s.marked = false) (hm' : s'.marked = false) : causeOf s' = causeOf s := by
  unfold causeOf C05.detect C05.detectReason
  simp [h1, h2, h3, h4, hm, hm']

theorem selOf_congr (env : Env) (s s' : State E) (hc : causeOf s' = causeOf s) (hR : s'.resumed = s.resumed) :
    selOf env s' = selOf env s := by
  unfold selOf; rw [hc, hR]

theorem vis_congr (env : Env) (s s' : State E) (hc : causeOf s' = causeOf s) (hR : s'.resumed = s.resumed)
    (hP : s'.P = s.P) : vis env s' = vis env s := by
  have hcfg : cfgOf env s' = cfgOf env s := by unfold cfgOf; rw [hc, selOf_congr env s s' hc hR]
  unfold vis
  rw [hcfg, hc, hP]

theorem info_changedOf (env : Env) (s s' : State E) (hc : causeOf s' = causeOf s) (hP : s'.P = s.P)
    (hb : s'.base = s.base) (he : s'.ess = s.ess) (hR : s'.resumed = s.resumed) (hh : isHandler s = false) :
    changedOf env s' = changedOf env s := by
  have hcfg : cfgOf env s' = cfgOf env s := by unfold cfgOf; rw [hc, selOf_congr env s s' hc hR]
  have hr : handlerReasons.contains (cfgOf env s).reason = false := hh
  unfold changedOf pass
  rw [vis_congr env s s' hc hR hP, hcfg, hP, hb, he, cycle_not_handler_reason _ _ s'.now s'.now env.exec hr,
    cycle_not_handler_reason _ _ s.now s.now env.exec hr]

/-- the cause FREE: marked for deletion and not held by the own finalizer -/
theorem free_iff (s : State E) : (causeOf s).reason = .free ↔ (s.marked = true ∧ s.blocked = false) := by
  unfold causeOf C05.detect C05.detectReason
  cases hm : s.marked <;> cases hb : s.blocked <;> simp
  all_goals (repeat' split) <;> simp

theorem unmarked_not_free (s : State E) (hm : s.marked = false) : (causeOf s).reason ≠ .free := by
  intro h
  have := ((free_iff s).1 h).1
  rw [hm] at this; cases this

theorem blocked_not_free (s : State E) (hb : s.blocked = true) : (causeOf s).reason ≠ .free := by
  intro h
  have := ((free_iff s).1 h).2
  rw [hb] at this; cases this

/-- a later clock and another finalizer state do not enlarge the handling bound of an unmarked object -/
theorem core_adjusted (env : Env) (s s' : State E) (hP : s'.P = s.P) (hb : s'.base = s.base)
    (he : s'.ess = s.ess) (h3 : s'.noticed = s.noticed) (h4 : s'.fullyHandled = s.fullyHandled)
    (hR : s'.resumed = s.resumed)
    (hm : s.marked = false) (hm' : s'.marked = false) (hn : s.now ≤ s'.now) :
    core env s' ≤ core env s := by
  have hc := causeOf_unmarked s s' hb he h3 h4 hm hm'
  have hsel := selOf_congr env s s' hc hR
  have hcfg : cfgOf env s' = cfgOf env s := by unfold cfgOf; rw [hc, hsel]
  have hih : isHandler s' = isHandler s := by unfold isHandler; rw [hc]
  by_cases hpm : env.prematch = true
  · rw [core_handling env s hpm (unmarked_not_free s hm), core_handling env s' hpm (unmarked_not_free s' hm'), hih]
    by_cases hh : isHandler s = true
    · simp only [hh, Bool.not_true, Bool.false_eq_true, if_false]
      rw [extrasOf_eq, extrasOf_eq, vis_congr env s s' hc hR hP, hcfg, hsel,
        extras_now_indep (cfgOf env s) (vis env s) s'.now s.now]
      have h1 := Av_mono (selOf env s) (vis env s) hn
      have h2 := Cv_mono env.cap (selOf env s) (vis env s) hn
      omega
    · have hh' : isHandler s = false := by simpa using hh
      simp only [hh', Bool.not_false, if_true]
      rw [info_changedOf env s s' hc hP hb he hR hh']
      exact Nat.le_refl _
  · have hpm' : env.prematch = false := by simpa using hpm
    rw [core_blind env s hpm', core_blind env s' hpm']
    exact Nat.le_refl _

theorem core_pos (env : Env) (s : State E) : 1 ≤ core env s := by
  unfold core
  split
  · omega
  · split
    · split <;> omega
    · split
      · split <;> omega
      · omega

theorem core_ge_two (env : Env) (s : State E) (hpm : env.prematch = true) (hh : isHandler s = true) :
    2 ≤ core env s := by
  rw [core_handling env s hpm (handler_not_free s hh)]
  simp only [hh, Bool.not_true, Bool.false_eq_true, if_false]
  have := two_U_add_A_pos (selOf env s) (vis env s) s.now
  omega

/-- a marked object without the own finalizer: the cause is FREE; no handlers, the leftover records are purged -/
theorem core_free (env : Env) (s : State E) (hpm : env.prematch = true) (hm : s.marked = true) (hb : s.blocked = false) :
    core env s = if leftovers env s then 2 else 1 :=
  core_purging env s hpm ((free_iff s).2 ⟨hm, hb⟩)

theorem bound_eq_hbound (env : Env) (s : State E) (hg : s.gone = false) (ha : adjusting env s = false) :
    bound env s = hbound env s := by
  unfold bound hbound
  simp [hg, ha]

/-- handler reason on a marked object means the own finalizer is there (the cause is DELETE) -/
theorem handler_marked_blocked (s : State E) (hh : isHandler s = true) (hm : s.marked = true) :
    s.blocked = true := by
  cases hb : s.blocked
  · exfalso
    have hreason : (causeOf s).reason = .free := by
      unfold causeOf C05.detect C05.detectReason; simp [hm, hb]
    unfold isHandler at hh
    rw [hreason] at hh
    exact absurd hh (by decide)
  · rfl

/-- the state after the finalizer-adding turn -/
def addState (env : Env) (s : State E) : State E :=
  { s with blocked := true, now := s.now + latS env, pending := true, writes := s.writes + cp env + 1 }

/-- a release turn ran a pass that closed the cycle: every owned record is purged by it -/
theorem release_purges (env : Env) (s : State E) (hrun : (decisionOf env s).handlersRun = true)
    (hrel : (decisionOf env s).release = true) :
    s.marked = true ∧ s.blocked = true ∧ isHandler s = true ∧ (pass env s).closed = true ∧
    ∀ i ∈ env.owned, (pass env s).P' i = none := by
  have h := hrel
  rw [dec_rel, hrun] at h
  simp only [Bool.and_eq_true, Bool.not_eq_true', Bool.true_and, Bool.not_eq_false'] at h
  obtain ⟨⟨hmk, hbl⟩, _⟩ := h
  have hh : isHandler s = true := by
    unfold isHandler causeOf C05.detect C05.detectReason
    simp [hmk, hbl, C14.reasonStr]
    decide
  have hr : handlerReasons.contains (cfgOf env s).reason = true := hh
  have hcl : (pass env s).closed = true := by
    cases hc : (pass env s).closed
    · exfalso
      have hne : (cfgOf env s).selected.isEmpty = false := by
        cases he : (cfgOf env s).selected.isEmpty
        · rfl
        · exfalso
          have := cycle_no_handlers (cfgOf env s) (vis env s) s.now s.now env.exec hr he
          unfold pass at hc
          rw [this] at hc
          cases hc
      have hd : (pass env s).delays ≠ [] := by
        unfold pass at hc ⊢
        rw [cycle_main _ _ _ _ _ hr hne] at hc ⊢
        exact delays_ne_nil _ _ _ hc
      have hrel2 := hrel
      rw [dec_rel, hrun] at hrel2
      cases hdl : (pass env s).delays with
      | nil => exact hd hdl
      | cons a as => simp [hdl] at hrel2
    · rfl
  refine ⟨hmk, hbl, hh, hcl, ?_⟩
  cases he : (cfgOf env s).selected.isEmpty
  · exact closed_purges (cfgOf env s) (vis env s) s.now s.now env.exec hr he hcl
  · exact (closed_purges_skip (cfgOf env s) (vis env s) s.now s.now env.exec hr he).2

theorem adjusting_congr (env : Env) (s s' : State E) (hb : s'.blocked = s.blocked) (hm : s'.marked = s.marked) :
    adjusting env s' = adjusting env s := by
  rw [adjusting_eq, adjusting_eq, hb, hm]

/-- the turn on an object the framework is blind to: nothing pending afterwards -/
theorem blind_decreases (env : Env) (s : State E) (hp : s.pending = true) (hg : s.gone = false)
    (ha : adjusting env s = false) (hpm : env.prematch = false) :
    bound env (blindTurn env s) < bound env s := by
  have hbs : bound env s = 1 := by
    unfold bound; rw [core_blind env s hpm]; simp [hp, hg, ha]
  rw [hbs]
  unfold bound blindTurn
  simp

/-- the turn without handlers on a FREE object strictly decreases the bound -/
theorem purge_decreases (env : Env) (s : State E) (hp : s.pending = true) (hg : s.gone = false)
    (ha : adjusting env s = false) (hpm : env.prematch = true) (hpur : (causeOf s).reason = .free) :
    bound env (purgeTurn env s) < bound env s := by
  have hbs : bound env s = if leftovers env s then 2 else 1 := by
    unfold bound; rw [core_purging env s hpm hpur]; simp [hp, hg, ha]
  rw [hbs]
  rcases purgeTurn_cases env s with ⟨hl, h⟩ | ⟨hl, h⟩
  · have hl' := purgeTurn_norec_next env s
    have hpur' : (causeOf (purgeTurn env s)).reason = .free := by
      have := (free_iff s).1 hpur
      rw [h]
      exact (free_iff _).2 this
    have ha' : adjusting env (purgeTurn env s) = false := by
      rw [h]; exact (adjusting_congr env s _ rfl rfl).trans ha
    have hg' : (purgeTurn env s).gone = false := by rw [h]; exact hg
    unfold bound
    rw [ha', core_purging env _ hpm hpur', hl', hg', hl]
    simp
    split <;> omega
  · rw [h, hl]
    unfold bound
    simp

/-- RANKING. Every turn of the loop that consumes an event and whose pass asks for no retry strictly
    decreases the bound. -/
theorem step_decreases (env : Env) (wf : WF env) (s : State E)
    (hfin : handlesNow env s = true → PassFinal env s)
    (hu : UniformOn env.owned s.P) (hp : s.pending = true) :
    bound env (loopStep env s) < bound env s := by
  by_cases hg : s.gone = true
  · have : loopStep env s = { s with pending := false } := by unfold loopStep; simp [hp, hg]
    rw [this]; unfold bound; simp [hp, hg]
  have hg' : s.gone = false := by simpa using hg
  have hbs : bound env s = (if adjusting env s then 1 else 0) + core env s := by
    unfold bound; simp [hp, hg']
  have hlat : s.now ≤ s.now + latS env := int_le_add s.now (latS env) (latS_nonneg env wf)
  by_cases hadd : (decisionOf env s).add = true
  · -- the finalizer is added; the handlers wait for the next event
    have h := hadd
    rw [dec_add] at h
    simp only [Bool.and_eq_true, Bool.not_eq_true'] at h
    obtain ⟨⟨⟨hpm, hcr⟩, hbl⟩, hmk⟩ := h
    have hst : loopStep env s = addState env s := by
      unfold loopStep addState; simp [hp, hg', hadd]
    have hadj : adjusting env s = true := by unfold adjusting; simp [hadd]
    have hadj' : adjusting env (addState env s) = false := by
      rw [adjusting_eq]; simp [addState, hpm, hcr, hmk]
    have hcore := core_adjusted env s (addState env s) rfl rfl rfl rfl rfl rfl hmk hmk hlat
    have hgA : (addState env s).gone = false := hg'
    have hpA : (addState env s).pending = true := rfl
    have hbA : bound env (addState env s) = core env (addState env s) := by
      unfold bound; rw [hgA, hadj', hpA]; simp
    rw [hst, hbA, hbs, hadj]
    simp only [if_true]
    omega
  have hadd' : (decisionOf env s).add = false := by simpa using hadd
  by_cases hrem : (decisionOf env s).removeUnneeded = true
  · -- the finalizer nobody needs is removed
    have h := hrem
    rw [dec_rem] at h
    simp only [Bool.and_eq_true, Bool.not_eq_true'] at h
    obtain ⟨hmust, hbl⟩ := h
    have hst : loopStep env s = remState env s (s.marked && !env.foreignFins) := by
      unfold loopStep; simp [hp, hg', hadd', hrem]
    have hadj : adjusting env s = true := by unfold adjusting; simp [hrem]
    have hcp := core_pos env s
    rw [hst, hbs, hadj]
    cases hgo : (s.marked && !env.foreignFins)
    · -- the object stays
      have hadj' : adjusting env (remState env s false) = false := by
        rw [adjusting_eq]; simp [remState, hmust]
      have hgR : (remState env s false).gone = false := rfl
      have hpR : (remState env s false).pending = true := rfl
      have hbR : bound env (remState env s false) = core env (remState env s false) := by
        unfold bound; rw [hgR, hadj', hpR]; simp
      rw [hbR]
      simp only [if_true]
      by_cases hpm : env.prematch = true
      · -- the framework sees the object: records as they were
        have hPR : (remState env s false).P = s.P := rfl
        have hnR : s.now ≤ (remState env s false).now := hlat
        cases hmk : s.marked
        · have hcore := core_adjusted env s (remState env s false) hPR rfl rfl rfl rfl rfl hmk hmk hnR
          omega
        · -- marked and held: the cause was DELETE; afterwards FREE
          have hh : isHandler s = true := by
            unfold isHandler causeOf C05.detect C05.detectReason
            simp [hmk, hbl, C14.reasonStr]
            decide
          have h2 := core_ge_two env s hpm hh
          have := core_free env (remState env s false) hpm hmk rfl
          rw [this]
          split <;> omega
      · -- blind: only the finalizer goes; the next turn is a blind one
        have hpm' : env.prematch = false := by simpa using hpm
        rw [core_blind env _ hpm']
        omega
    · have hpR : (remState env s true).pending = false := rfl
      have hbR : bound env (remState env s true) = 0 := by unfold bound; rw [hpR]; simp
      rw [hbR]
      simp only [if_true]
      omega
  have hrem' : (decisionOf env s).removeUnneeded = false := by simpa using hrem
  have hadj : adjusting env s = false := by unfold adjusting; simp [hadd', hrem']
  have hrun : (decisionOf env s).handlersRun = env.prematch := by rw [dec_run]; simp [hadd', hrem']
  by_cases hpm : env.prematch = true
  rotate_left
  · -- blind: no handlers; leftover records are purged
    have hpm' : env.prematch = false := by simpa using hpm
    have hst : loopStep env s = blindTurn env s := by
      unfold loopStep; simp [hp, hg', hadd', hrem', hrun, hpm']
    rw [hst]
    exact blind_decreases env s hp hg' hadj hpm'
  rw [hpm] at hrun
  by_cases hrel : (decisionOf env s).release = true
  · -- the closing pass of a deletion: the own finalizer goes with it
    obtain ⟨hmk, hbl, hh, hcl, hnone⟩ := release_purges env s hrun hrel
    have hst : loopStep env s = releaseTurn env s := by
      unfold loopStep; simp [hp, hg', hadd', hrem', hrun, hrel]
    have h2 := core_ge_two env s hpm hh
    rw [hst, hbs, hadj]
    cases hff : env.foreignFins
    · unfold bound releaseTurn
      simp [nextState, hff]
      omega
    · have hadj' : adjusting env (releaseTurn env s) = false := by
        rw [adjusting_eq]; simp [releaseTurn, nextState, hmk]
      have hl : leftovers env (releaseTurn env s) = false :=
        leftovers_false_of_norec env _ (fun i hi => hnone i hi)
      have hfree : core env (releaseTurn env s) = 1 := by
        rw [core_free env (releaseTurn env s) hpm (by simp [releaseTurn, nextState, hmk]) (by simp [releaseTurn, nextState]), hl]
        rfl
      unfold bound
      rw [hadj', hfree]
      simp [releaseTurn, nextState, hff]
      omega
  have hrel' : (decisionOf env s).release = false := by simpa using hrel
  by_cases hfr : (causeOf s).reason = .free
  · -- FREE: no handlers; leftover records are purged
    have hst : loopStep env s = purgeTurn env s := by
      unfold loopStep; simp [hp, hg', hadd', hrem', hrun, hrel', hfr]
    rw [hst]
    exact purge_decreases env s hp hg' hadj hpm hfr
  -- the handling pass
  have hst : loopStep env s = handleTurn env s := by
    unfold loopStep; simp [hp, hg', hadd', hrem', hrun, hrel', hfr]
  have hcm : (pass env s).closed = true → s.marked = false := by
    intro hc
    cases hmk : s.marked
    · rfl
    · exfalso
      have hh : isHandler s = true := by
        cases hh : isHandler s
        · have := (cycle_not_handler_reason_invoked (cfgOf env s) (vis env s) s.now s.now env.exec hh).2
          unfold pass at hc
          rw [this] at hc; cases hc
        · rfl
      have hbl := handler_marked_blocked s hh hmk
      have hd := closed_delays_nil (cfgOf env s) (vis env s) s.now s.now env.exec hc
      have : (decisionOf env s).release = true := by
        rw [dec_rel, hrun]
        unfold pass
        simp [hmk, hbl, hd]
      rw [this] at hrel'; cases hrel'
  have hnow : handlesNow env s = true := by
    unfold handlesNow; simp [hp, hg', hadd', hrem', hrun, hrel']
  have hdec := handle_decreases env wf s (hfin hnow) hu hp hpm hfr hcm
  have hadjN : adjusting env (handleTurn env s) = false := by
    rw [adjusting_eq]
    have hbk : (handleTurn env s).blocked = s.blocked ∧ (handleTurn env s).marked = s.marked := by
      rcases handleTurn_cases env s with ⟨_, h⟩ | ⟨d, _, _, h⟩ | ⟨_, _, h⟩ <;> rw [h] <;> exact ⟨rfl, rfl⟩
    rw [hbk.1, hbk.2, ← adjusting_eq]
    exact hadj
  have hgN : (handleTurn env s).gone = false := by
    rcases handleTurn_cases env s with ⟨_, h⟩ | ⟨d, _, _, h⟩ | ⟨_, _, h⟩ <;> rw [h] <;> exact hg'
  rw [hst, bound_eq_hbound env _ hgN hadjN, bound_eq_hbound env s hg' hadj]
  exact hdec


/-- Which of the six kinds of turn the loop takes from a state with a pending event. -/
theorem turn_cases (env : Env) (s : State E) (hp : s.pending = true) (hg : s.gone = false) :
    ((decisionOf env s).add = true ∧ s.marked = false ∧ s.blocked = false ∧ env.prematch = true ∧
        loopStep env s = addState env s) ∨
    ((decisionOf env s).removeUnneeded = true ∧ s.blocked = true ∧
        loopStep env s = remState env s (s.marked && !env.foreignFins)) ∨
    (adjusting env s = false ∧ env.prematch = false ∧ loopStep env s = blindTurn env s) ∨
    (adjusting env s = false ∧ env.prematch = true ∧ s.marked = true ∧ s.blocked = true ∧
        (decisionOf env s).release = true ∧ loopStep env s = releaseTurn env s) ∨
    (adjusting env s = false ∧ env.prematch = true ∧ s.marked = true ∧ s.blocked = false ∧
        loopStep env s = purgeTurn env s) ∨
    (adjusting env s = false ∧ env.prematch = true ∧ (decisionOf env s).release = false ∧
        ((pass env s).closed = true → s.marked = false) ∧ (causeOf s).reason ≠ .free ∧
        loopStep env s = handleTurn env s) := by
  by_cases hadd : (decisionOf env s).add = true
  · left
    have h := hadd
    rw [dec_add] at h
    simp only [Bool.and_eq_true, Bool.not_eq_true'] at h
    obtain ⟨⟨⟨hpm, _⟩, hbl⟩, hmk⟩ := h
    exact ⟨hadd, hmk, hbl, hpm, by unfold loopStep addState; simp [hp, hg, hadd]⟩
  have hadd' : (decisionOf env s).add = false := by simpa using hadd
  by_cases hrem : (decisionOf env s).removeUnneeded = true
  · right; left
    have h := hrem
    rw [dec_rem] at h
    simp only [Bool.and_eq_true, Bool.not_eq_true'] at h
    exact ⟨hrem, h.2, by unfold loopStep; simp [hp, hg, hadd', hrem]⟩
  have hrem' : (decisionOf env s).removeUnneeded = false := by simpa using hrem
  have hadj : adjusting env s = false := by unfold adjusting; simp [hadd', hrem']
  have hrun : (decisionOf env s).handlersRun = env.prematch := by rw [dec_run]; simp [hadd', hrem']
  by_cases hpm : env.prematch = true
  rotate_left
  · right; right; left
    have hpm' : env.prematch = false := by simpa using hpm
    exact ⟨hadj, hpm', by unfold loopStep; simp [hp, hg, hadd', hrem', hrun, hpm']⟩
  rw [hpm] at hrun
  by_cases hrel : (decisionOf env s).release = true
  · right; right; right; left
    have h := hrel
    rw [dec_rel, hrun] at h
    simp only [Bool.and_eq_true, Bool.not_eq_true', Bool.true_and, Bool.not_eq_false'] at h
    exact ⟨hadj, hpm, h.1.1, h.1.2, hrel, by unfold loopStep; simp [hp, hg, hadd', hrem', hrun, hrel]⟩
  have hrel' : (decisionOf env s).release = false := by simpa using hrel
  by_cases hfr : (causeOf s).reason = .free
  · right; right; right; right; left
    obtain ⟨hmk, hbl⟩ := (free_iff s).1 hfr
    exact ⟨hadj, hpm, hmk, hbl, by unfold loopStep; simp [hp, hg, hadd', hrem', hrun, hrel', hfr]⟩
  right; right; right; right; right
  refine ⟨hadj, hpm, hrel', ?_, hfr, by unfold loopStep; simp [hp, hg, hadd', hrem', hrun, hrel', hfr]⟩
  intro hc
  cases hmk : s.marked
  · rfl
  · exfalso
    have hh : isHandler s = true := by
      cases hh : isHandler s
      · have := (cycle_not_handler_reason_invoked (cfgOf env s) (vis env s) s.now s.now env.exec hh).2
        unfold pass at hc
        rw [this] at hc; cases hc
      · rfl
    have hbl := handler_marked_blocked s hh hmk
    have hd := closed_delays_nil (cfgOf env s) (vis env s) s.now s.now env.exec hc
    have : (decisionOf env s).release = true := by
      rw [dec_rel, hrun]
      unfold pass
      simp [hmk, hbl, hd]
    rw [this] at hrel'; cases hrel'

end Kopf.C03
