/-
  The full turn of the loop (finalizer decision of C06 around the handling pass) and the proof that
  every turn with a pending event strictly decreases `bound`.
-/
import Kopf.Lemmas.C03_Rank
namespace Kopf.C03
open Kopf Kopf.C02

variable {E : Type} [DecidableEq E]

/-! ### the decision block of C06, specialised to this loop -/

theorem dec_add (env : Env) (s : State E) :
    (decisionOf env s).add = (env.prematch && env.changeReq && !s.blocked && !s.marked) := by
  unfold decisionOf C06.decision finIn C06.mustBlockG C06.addG
  simp

theorem dec_rem (env : Env) (s : State E) :
    (decisionOf env s).removeUnneeded = (!(env.prematch && env.changeReq) && s.blocked) := by
  unfold decisionOf C06.decision finIn C06.mustBlockG C06.removeG
  simp

theorem dec_run (env : Env) (s : State E) :
    (decisionOf env s).handlersRun =
      (env.prematch && !((decisionOf env s).add || (decisionOf env s).removeUnneeded)) := by
  unfold decisionOf C06.decision finIn C06.mustBlockG C06.addG C06.removeG C06.earlyG
  simp

theorem dec_rel (env : Env) (s : State E) :
    (decisionOf env s).release =
      (s.marked && s.blocked && !((decisionOf env s).handlersRun && !(pass env s).delays.isEmpty)) := by
  unfold decisionOf C06.decision finIn C06.mustBlockG C06.addG C06.removeG C06.earlyG C06.releaseG
  generalize (pass env s).delays.isEmpty = e
  cases env.prematch <;> cases env.changeReq <;> cases s.blocked <;> cases s.marked <;> cases e <;> rfl

theorem adjusting_eq (env : Env) (s : State E) :
    adjusting env s = ((env.prematch && env.changeReq && !s.blocked && !s.marked) ||
                       (!(env.prematch && env.changeReq) && s.blocked)) := by
  unfold adjusting; rw [dec_add, dec_rem]

/-! ### the handling bound does not grow while only the clock or the finalizer moves -/

theorem int_gt_of_le (d t t' : Int) (h : t ≤ t') (hgt : d > t') : d > t := by omega

theorem awake_mono {P : Store} {t t' : Tick} (h : t ≤ t') {i : Id} (ha : awakeP P t i = true) :
    awakeP P t' i = true := by
  unfold awakeP at *
  cases hP : P i with
  | none => rfl
  | some r =>
    simp only [hP] at ha ⊢
    unfold Rec.awakened Rec.sleeping at *
    cases hf : r.finished
    · cases hd : r.delayed with
      | none => simp
      | some d =>
        simp only [hf, hd, Bool.not_false, Bool.true_and, Bool.not_eq_true', decide_eq_false_iff_not] at ha ⊢
        intro hgt
        exact ha (int_gt_of_le d t t' h hgt)
    · simp [hf] at ha

theorem Av_mono (l : List Id) (P : Store) {t t' : Tick} (h : t ≤ t') : Av l P t' ≤ Av l P t := by
  unfold Av
  by_cases ha : l.any (awakeP P t) = true
  · have : l.any (awakeP P t') = true := by
      rw [List.any_eq_true] at ha ⊢
      obtain ⟨i, hi, hai⟩ := ha
      exact ⟨i, hi, awake_mono h hai⟩
    simp [ha, this]
  · simp only [ha]
    split <;> simp

theorem slack_mono (cap : Tick) (P : Store) {t t' : Tick} (h : t ≤ t') (i : Id) :
    slack cap P t' i ≤ slack cap P t i := by
  unfold slack
  cases hP : P i with
  | none => simp
  | some r =>
    simp only
    cases hf : r.finished
    · simp only [Bool.false_eq_true, if_false]
      cases hd : r.delayed with
      | none => simp
      | some d => exact Nat.div_le_div_right (int_toNat_sub_le d t t' h)
    · simp

theorem Cv_mono (cap : Tick) (l : List Id) (P : Store) {t t' : Tick} (h : t ≤ t') :
    Cv cap l P t' ≤ Cv cap l P t := by
  unfold Cv
  exact sum_map_le _ _ _ (fun i _ => slack_mono cap P h i)

theorem extras_now_indep (cfg : Cfg) (P : Store) (t t' : Tick) : extras cfg P t = extras cfg P t' := by
  unfold extras hasExtras
  congr 1
  funext i
  unfold withHandlers fromStorage
  by_cases hs : i ∈ cfg.selected <;> by_cases ho : i ∈ cfg.owned <;> cases hP : P i <;>
    simp [hs, ho, hP, fresh]

theorem causeOf_unmarked (s s' : State E) (h1 : s'.base = s.base) (h2 : s'.ess = s.ess)
    (h3 : s'.noticed = s.noticed) (h4 : s'.fullyHandled = s.fullyHandled)
    (hm : s.marked = false) (hm' : s'.marked = false) : causeOf s' = causeOf s := by
  unfold causeOf C05.detect C05.detectReason
  simp [h1, h2, h3, h4, hm, hm']

theorem selOf_congr (env : Env) (s s' : State E) (hc : causeOf s' = causeOf s) (hR : s'.resumed = s.resumed) :
    selOf env s' = selOf env s := by
  unfold selOf; rw [hc, hR]

theorem info_changedOf (env : Env) (s s' : State E) (hc : causeOf s' = causeOf s) (hP : s'.P = s.P)
    (hb : s'.base = s.base) (he : s'.ess = s.ess) (hR : s'.resumed = s.resumed) (hh : isHandler s = false) :
    changedOf env s' = changedOf env s := by
  have hcfg : cfgOf env s' = cfgOf env s := by unfold cfgOf; rw [hc, selOf_congr env s s' hc hR]
  have hr : handlerReasons.contains (cfgOf env s).reason = false := hh
  unfold changedOf pass
  rw [hcfg, hP, hb, he, cycle_not_handler_reason _ _ s'.now s'.now env.exec hr,
    cycle_not_handler_reason _ _ s.now s.now env.exec hr]

/-- a later clock and another finalizer state do not enlarge the handling bound of an unmarked object -/
theorem core_adjusted (env : Env) (s s' : State E) (hP : s'.P = s.P) (hb : s'.base = s.base)
    (he : s'.ess = s.ess) (h3 : s'.noticed = s.noticed) (h4 : s'.fullyHandled = s.fullyHandled)
    (hR : s'.resumed = s.resumed)
    (hm : s.marked = false) (hm' : s'.marked = false) (hn : s.now ≤ s'.now) :
    core env s' ≤ core env s := by
  have hc := causeOf_unmarked s s' hb he h3 h4 hm hm'
  have hsel := selOf_congr env s s' hc hR
  have hcfg : cfgOf env s' = cfgOf env s := by unfold cfgOf; rw [hc, hsel]
  have hih : isHandler s' = isHandler s := by unfold isHandler; rw [hc]
  unfold core
  rw [hih]
  by_cases hpm : env.prematch = true
  · by_cases hh : isHandler s = true
    · simp only [hpm, hh, Bool.not_true, Bool.false_eq_true, if_false]
      rw [extrasOf_eq, extrasOf_eq, hcfg, hsel, hP, extras_now_indep (cfgOf env s) s.P s'.now s.now]
      have h1 := Av_mono (selOf env s) s.P hn
      have h2 := Cv_mono env.cap (selOf env s) s.P hn
      omega
    · have hh' : isHandler s = false := by simpa using hh
      simp only [hpm, hh', Bool.not_true, Bool.false_eq_true, if_false, Bool.not_false, if_true]
      rw [info_changedOf env s s' hc hP hb he hR hh']
      exact Nat.le_refl _
  · simp [hpm]

theorem core_pos (env : Env) (s : State E) : 1 ≤ core env s := by
  unfold core
  split
  · exact Nat.le_refl _
  · split
    · split <;> omega
    · omega

theorem core_ge_two (env : Env) (s : State E) (hpm : env.prematch = true) (hh : isHandler s = true) :
    2 ≤ core env s := by
  unfold core
  simp only [hpm, hh, Bool.not_true, Bool.false_eq_true, if_false]
  have := two_U_add_A_pos (selOf env s) s.P s.now
  omega

/-- a marked object without the own finalizer: the cause is FREE, nothing is done -/
theorem core_free (env : Env) (s : State E) (hm : s.marked = true) (hb : s.blocked = false) :
    core env s = 1 := by
  have hreason : (causeOf s).reason = .free := by
    unfold causeOf C05.detect C05.detectReason; simp [hm, hb]
  have hh : isHandler s = false := by
    unfold isHandler; rw [hreason]; decide
  have hr : handlerReasons.contains (cfgOf env s).reason = false := hh
  have hnn : ((cfgOf env s).reason == "noop") = false := by
    show (C14.reasonStr (causeOf s).reason == "noop") = false
    rw [hreason]; decide
  have hch : changedOf env s = false := by
    have hk := cycle_not_handler_reason_keeps (cfgOf env s) s.P s.now s.now env.exec hr hnn
    have hc := (cycle_not_handler_reason_invoked (cfgOf env s) s.P s.now s.now env.exec hr).2
    unfold changedOf pass
    rw [hk, hc]
    simp
  unfold core
  rw [hh, hch]
  split <;> rfl

theorem bound_eq_hbound (env : Env) (s : State E) (hg : s.gone = false) (ha : adjusting env s = false) :
    bound env s = hbound env s := by
  unfold bound hbound
  simp [hg, ha]

/-- handler reason on a marked object means the own finalizer is there (the cause is DELETE) -/
theorem handler_marked_blocked (s : State E) (hh : isHandler s = true) (hm : s.marked = true) :
    s.blocked = true := by
  cases hb : s.blocked
  · exfalso
    have hreason : (causeOf s).reason = .free := by
      unfold causeOf C05.detect C05.detectReason; simp [hm, hb]
    unfold isHandler at hh
    rw [hreason] at hh
    exact absurd hh (by decide)
  · rfl

/-- the state after the finalizer-adding turn -/
def addState (env : Env) (s : State E) : State E :=
  { s with blocked := true, now := s.now + latS env, pending := true, writes := s.writes + cp env + 1 }

/-- the state after the turn that removes the unneeded finalizer -/
def remState (env : Env) (s : State E) (g : Bool) : State E :=
  { s with blocked := false, gone := g, now := s.now + latS env, pending := !g, writes := s.writes + cp env + 1 }

/-- RANKING. Every turn of the loop that consumes an event and whose pass asks for no retry strictly
    decreases the bound. -/
theorem step_decreases (env : Env) (wf : WF env) (s : State E)
    (hfin : handlesNow env s = true → PassFinal env s)
    (hu : UniformOn env.owned s.P) (hp : s.pending = true) :
    bound env (loopStep env s) < bound env s := by
  by_cases hg : s.gone = true
  · have : loopStep env s = { s with pending := false } := by unfold loopStep; simp [hp, hg]
    rw [this]; unfold bound; simp [hp, hg]
  have hg' : s.gone = false := by simpa using hg
  have hbs : bound env s = (if adjusting env s then 1 else 0) + core env s := by
    unfold bound; simp [hp, hg']
  have hlat : s.now ≤ s.now + latS env := int_le_add s.now (latS env) (latS_nonneg env wf)
  by_cases hadd : (decisionOf env s).add = true
  · -- the finalizer is added; the handlers wait for the next event
    have h := hadd
    rw [dec_add] at h
    simp only [Bool.and_eq_true, Bool.not_eq_true'] at h
    obtain ⟨⟨⟨hpm, hcr⟩, hbl⟩, hmk⟩ := h
    have hst : loopStep env s = addState env s := by
      unfold loopStep addState; simp [hp, hg', hadd]
    have hadj : adjusting env s = true := by unfold adjusting; simp [hadd]
    have hadj' : adjusting env (addState env s) = false := by
      rw [adjusting_eq]; simp [addState, hpm, hcr, hmk]
    have hcore := core_adjusted env s (addState env s) rfl rfl rfl rfl rfl rfl hmk hmk hlat
    have hgA : (addState env s).gone = false := hg'
    have hpA : (addState env s).pending = true := rfl
    have hbA : bound env (addState env s) = core env (addState env s) := by
      unfold bound; rw [hgA, hadj', hpA]; simp
    rw [hst, hbA, hbs, hadj]
    simp only [if_true]
    omega
  have hadd' : (decisionOf env s).add = false := by simpa using hadd
  by_cases hrem : (decisionOf env s).removeUnneeded = true
  · -- the finalizer nobody needs is removed
    have h := hrem
    rw [dec_rem] at h
    simp only [Bool.and_eq_true, Bool.not_eq_true'] at h
    obtain ⟨hmust, hbl⟩ := h
    have hst : loopStep env s = remState env s (s.marked && !env.foreignFins) := by
      unfold loopStep remState; simp [hp, hg', hadd', hrem]
    have hadj : adjusting env s = true := by unfold adjusting; simp [hrem]
    have hcp := core_pos env s
    rw [hst, hbs, hadj]
    cases hgo : (s.marked && !env.foreignFins)
    · -- the object stays
      have hadj' : adjusting env (remState env s false) = false := by
        rw [adjusting_eq]; simp [remState, hmust]
      have hgR : (remState env s false).gone = false := rfl
      have hpR : (remState env s false).pending = true := rfl
      have hbR : bound env (remState env s false) = core env (remState env s false) := by
        unfold bound; rw [hgR, hadj', hpR]; simp
      rw [hbR]
      simp only [if_true]
      cases hmk : s.marked
      · have hcore := core_adjusted env s (remState env s false) rfl rfl rfl rfl rfl rfl hmk hmk hlat
        omega
      · have := core_free env (remState env s false) hmk rfl
        omega
    · have hpR : (remState env s true).pending = false := rfl
      have hbR : bound env (remState env s true) = 0 := by unfold bound; rw [hpR]; simp
      rw [hbR]
      simp only [if_true]
      omega
  have hrem' : (decisionOf env s).removeUnneeded = false := by simpa using hrem
  have hadj : adjusting env s = false := by unfold adjusting; simp [hadd', hrem']
  have hrun : (decisionOf env s).handlersRun = env.prematch := by rw [dec_run]; simp [hadd', hrem']
  by_cases hpm : env.prematch = true
  rotate_left
  · -- blind: nothing is done
    have hpm' : env.prematch = false := by simpa using hpm
    have hst : loopStep env s = { s with pending := false, writes := s.writes + cp env } := by
      unfold loopStep; simp [hp, hg', hadd', hrem', hrun, hpm']
    have := core_pos env s
    rw [hst, hbs, hadj]; unfold bound; simp; omega
  rw [hpm] at hrun
  by_cases hrel : (decisionOf env s).release = true
  · -- the closing pass of a deletion: the own finalizer goes with it
    have h := hrel
    rw [dec_rel, hrun] at h
    simp only [Bool.and_eq_true, Bool.not_eq_true', Bool.true_and, Bool.not_eq_false'] at h
    obtain ⟨⟨hmk, hbl⟩, _⟩ := h
    have hst : loopStep env s = releaseTurn env s := by
      unfold loopStep; simp [hp, hg', hadd', hrem', hrun, hrel]
    have hh : isHandler s = true := by
      unfold isHandler causeOf C05.detect C05.detectReason
      simp [hmk, hbl, C14.reasonStr]
      decide
    have h2 := core_ge_two env s hpm hh
    rw [hst, hbs, hadj]
    cases hff : env.foreignFins
    · unfold bound releaseTurn
      simp [nextState, hff]
      omega
    · have hadj' : adjusting env (releaseTurn env s) = false := by
        rw [adjusting_eq]; simp [releaseTurn, nextState, hmk]
      have hfree : core env (releaseTurn env s) = 1 :=
        core_free env (releaseTurn env s) (by simp [releaseTurn, nextState, hmk]) (by simp [releaseTurn, nextState])
      unfold bound
      rw [hadj', hfree]
      simp [releaseTurn, nextState, hff]
      omega
  have hrel' : (decisionOf env s).release = false := by simpa using hrel
  -- the handling pass
  have hst : loopStep env s = handleTurn env s := by
    unfold loopStep; simp [hp, hg', hadd', hrem', hrun, hrel']
  have hcm : (pass env s).closed = true → s.marked = false := by
    intro hc
    cases hmk : s.marked
    · rfl
    · exfalso
      have hh : isHandler s = true := by
        cases hh : isHandler s
        · have := (cycle_not_handler_reason_invoked (cfgOf env s) s.P s.now s.now env.exec hh).2
          unfold pass at hc
          rw [this] at hc; cases hc
        · rfl
      have hbl := handler_marked_blocked s hh hmk
      have hd := closed_delays_nil (cfgOf env s) s.P s.now s.now env.exec hc
      have : (decisionOf env s).release = true := by
        rw [dec_rel, hrun]
        unfold pass
        simp [hmk, hbl, hd]
      rw [this] at hrel'; cases hrel'
  have hnow : handlesNow env s = true := by
    unfold handlesNow; simp [hp, hg', hadd', hrem', hrun, hrel']
  have hdec := handle_decreases env wf s (hfin hnow) hu hp hpm hcm
  have hadjN : adjusting env (handleTurn env s) = false := by
    rw [adjusting_eq]
    have hbk : (handleTurn env s).blocked = s.blocked ∧ (handleTurn env s).marked = s.marked := by
      rcases handleTurn_cases env s with ⟨_, h⟩ | ⟨d, _, _, h⟩ | ⟨_, _, h⟩ <;> rw [h] <;> exact ⟨rfl, rfl⟩
    rw [hbk.1, hbk.2, ← adjusting_eq]
    exact hadj
  have hgN : (handleTurn env s).gone = false := by
    rcases handleTurn_cases env s with ⟨_, h⟩ | ⟨d, _, _, h⟩ | ⟨_, _, h⟩ <;> rw [h] <;> exact hg'
  rw [hst, bound_eq_hbound env _ hgN hadjN, bound_eq_hbound env s hg' hadj]
  exact hdec


/-- Which of the five kinds of turn the loop takes from a state with a pending event. -/
theorem turn_cases (env : Env) (s : State E) (hp : s.pending = true) (hg : s.gone = false) :
    ((decisionOf env s).add = true ∧ s.marked = false ∧ s.blocked = false ∧ env.prematch = true ∧
        loopStep env s = addState env s) ∨
    ((decisionOf env s).removeUnneeded = true ∧ s.blocked = true ∧
        loopStep env s = remState env s (s.marked && !env.foreignFins)) ∨
    (adjusting env s = false ∧ env.prematch = false ∧
        loopStep env s = { s with pending := false, writes := s.writes + cp env }) ∨
    (adjusting env s = false ∧ env.prematch = true ∧ s.marked = true ∧ s.blocked = true ∧
        (decisionOf env s).release = true ∧ loopStep env s = releaseTurn env s) ∨
    (adjusting env s = false ∧ env.prematch = true ∧ (decisionOf env s).release = false ∧
        ((pass env s).closed = true → s.marked = false) ∧ loopStep env s = handleTurn env s) := by
  by_cases hadd : (decisionOf env s).add = true
  · left
    have h := hadd
    rw [dec_add] at h
    simp only [Bool.and_eq_true, Bool.not_eq_true'] at h
    obtain ⟨⟨⟨hpm, _⟩, hbl⟩, hmk⟩ := h
    exact ⟨hadd, hmk, hbl, hpm, by unfold loopStep addState; simp [hp, hg, hadd]⟩
  have hadd' : (decisionOf env s).add = false := by simpa using hadd
  by_cases hrem : (decisionOf env s).removeUnneeded = true
  · right; left
    have h := hrem
    rw [dec_rem] at h
    simp only [Bool.and_eq_true, Bool.not_eq_true'] at h
    exact ⟨hrem, h.2, by unfold loopStep remState; simp [hp, hg, hadd', hrem]⟩
  have hrem' : (decisionOf env s).removeUnneeded = false := by simpa using hrem
  have hadj : adjusting env s = false := by unfold adjusting; simp [hadd', hrem']
  have hrun : (decisionOf env s).handlersRun = env.prematch := by rw [dec_run]; simp [hadd', hrem']
  by_cases hpm : env.prematch = true
  rotate_left
  · right; right; left
    have hpm' : env.prematch = false := by simpa using hpm
    exact ⟨hadj, hpm', by unfold loopStep; simp [hp, hg, hadd', hrem', hrun, hpm']⟩
  rw [hpm] at hrun
  by_cases hrel : (decisionOf env s).release = true
  · right; right; right; left
    have h := hrel
    rw [dec_rel, hrun] at h
    simp only [Bool.and_eq_true, Bool.not_eq_true', Bool.true_and, Bool.not_eq_false'] at h
    exact ⟨hadj, hpm, h.1.1, h.1.2, hrel, by unfold loopStep; simp [hp, hg, hadd', hrem', hrun, hrel]⟩
  have hrel' : (decisionOf env s).release = false := by simpa using hrel
  right; right; right; right
  refine ⟨hadj, hpm, hrel', ?_, by unfold loopStep; simp [hp, hg, hadd', hrem', hrun, hrel']⟩
  intro hc
  cases hmk : s.marked
  · rfl
  · exfalso
    have hh : isHandler s = true := by
      cases hh : isHandler s
      · have := (cycle_not_handler_reason_invoked (cfgOf env s) s.P s.now s.now env.exec hh).2
        unfold pass at hc
        rw [this] at hc; cases hc
      · rfl
    have hbl := handler_marked_blocked s hh hmk
    have hd := closed_delays_nil (cfgOf env s) s.P s.now s.now env.exec hc
    have : (decisionOf env s).release = true := by
      rw [dec_rel, hrun]
      unfold pass
      simp [hmk, hbl, hd]
    rw [this] at hrel'; cases hrel'

end Kopf.C03
