/-
  C18 helper lemmas, part 7: `registries._deduplicated` (model: `dedupAux`).
-/
import Kopf.Model.C18_Admission
namespace Kopf.C18
open Kopf

theorem dedupAux_mem (l : List Handler) : ∀ (seen : List (String × String)) (x : Handler),
    x ∈ dedupAux seen l → x ∈ l ∧ x.key ∉ seen := by
  induction l with
  | nil => intro seen x h; simp [dedupAux] at h
  | cons h rest ih =>
    intro seen x hx
    simp only [dedupAux] at hx
    by_cases hc : seen.contains h.key = true
    · simp only [hc, if_true] at hx
      obtain ⟨h1, h2⟩ := ih seen x hx
      exact ⟨List.mem_cons_of_mem _ h1, h2⟩
    · simp only [hc] at hx
      rcases List.mem_cons.1 hx with rfl | hx
      · exact ⟨List.mem_cons_self .., by simpa using hc⟩
      · obtain ⟨h1, h2⟩ := ih (h.key :: seen) x hx
        exact ⟨List.mem_cons_of_mem _ h1, fun hm => h2 (List.mem_cons_of_mem _ hm)⟩

theorem dedupAux_sublist (l : List Handler) : ∀ (seen : List (String × String)),
    (dedupAux seen l).Sublist l := by
  induction l with
  | nil => intro seen; simp [dedupAux]
  | cons h rest ih =>
    intro seen
    simp only [dedupAux]
    by_cases hc : seen.contains h.key = true
    · simp only [hc, if_true]; exact (ih seen).cons _
    · simp only [hc]; exact (ih _).cons_cons _

/-- every key of the input that was not seen before is represented in the output -/
theorem dedupAux_cover (l : List Handler) : ∀ (seen : List (String × String)) (x : Handler),
    x ∈ l → x.key ∉ seen → ∃ y ∈ dedupAux seen l, y.key = x.key := by
  induction l with
  | nil => intro seen x h; simp at h
  | cons h rest ih =>
    intro seen x hx hns
    simp only [dedupAux]
    by_cases hc : seen.contains h.key = true
    · simp only [hc, if_true]
      rcases List.mem_cons.1 hx with rfl | hx
      · exact absurd (by simpa using hc) hns
      · exact ih seen x hx hns
    · simp only [hc]
      by_cases hk : x.key = h.key
      · exact ⟨h, List.mem_cons_self .., hk.symm⟩
      · rcases List.mem_cons.1 hx with rfl | hx
        · exact absurd rfl hk
        · obtain ⟨y, hy, hyk⟩ := ih (h.key :: seen) x hx (by
            intro hm; rcases List.mem_cons.1 hm with e | e
            · exact hk e
            · exact hns e)
          exact ⟨y, List.mem_cons_of_mem _ hy, hyk⟩

/-- the output has pairwise different keys: every function/id pair at most once -/
theorem dedupAux_nodup (l : List Handler) : ∀ (seen : List (String × String)),
    ((dedupAux seen l).map Handler.key).Nodup := by
  induction l with
  | nil => intro seen; simp [dedupAux]
  | cons h rest ih =>
    intro seen
    simp only [dedupAux]
    by_cases hc : seen.contains h.key = true
    · simp only [hc, if_true]; exact ih seen
    · rw [if_neg hc, List.map_cons, List.nodup_cons]
      refine ⟨?_, ih _⟩
      intro hm
      obtain ⟨y, hy, hyk⟩ := List.mem_map.1 hm
      exact (dedupAux_mem rest (h.key :: seen) y hy).2 (by rw [hyk]; exact List.mem_cons_self ..)

end Kopf.C18
