/-
  Helper lemmas for the scheduler hand-over model (`Model/C01_Sched.lean`).
-/
import Kopf.Model.C01_Sched
namespace Kopf.C01.Sched

/-- after the spawner's round: nothing is pending any more, or there is no room -/
theorem drain_spec (limit : Option Nat) :
    ∀ (p r : List Nat), (drain limit p r).1 = [] ∨ room limit (drain limit p r).2 = false
  | [], _ => Or.inl rfl
  | j :: rest, r => by
    by_cases h : room limit r = true
    · have := drain_spec limit rest (r ++ [j])
      simpa [drain, h] using this
    · have h' : room limit r = false := by simpa using h
      simp [drain, h']

/-- the invariant of the scheduler with an UNBOUNDED pending queue (the code as it is) -/
def Inv (s : S) : Prop :=
  s.cap = none ∧ s.blocked = none ∧
  (s.pending ≠ [] → room s.limit s.running = true → s.notified = true ∨ s.cleaning ≠ [])

theorem inv_init (limit : Option Nat) : Inv (init none limit) := by
  refine ⟨rfl, rfl, ?_⟩
  intro h; exact absurd rfl h

theorem hasPlace_unbounded (s : S) (h : s.cap = none) : hasPlace s = true := by
  simp [hasPlace, h]

theorem step_inv (s s' : S) (l : L) (hi : Inv s) (hs : step s l = some s') : Inv s' := by
  obtain ⟨hc, hb, hw⟩ := hi
  cases l with
  | call j =>
    simp only [step, hb, if_true, hasPlace_unbounded s hc] at hs
    cases hs
    exact ⟨hc, rfl, fun _ _ => Or.inl rfl⟩
  | round =>
    simp only [step] at hs
    split at hs
    · cases hs
      refine ⟨hc, hb, ?_⟩
      intro hp hr
      rcases drain_spec s.limit s.pending s.running with h | h
      · exact absurd h hp
      · simp [h] at hr
    · cases hs
  | done j =>
    simp only [step] at hs
    split at hs
    · cases hs
      refine ⟨hc, hb, fun _ _ => Or.inr ?_⟩
      simp
    · cases hs
  | clean =>
    simp only [step] at hs
    split at hs
    · simp only [hb, if_true] at hs
      cases hs
      exact ⟨hc, rfl, fun _ _ => Or.inl rfl⟩
    · cases hs
  | resume =>
    simp only [step, hb] at hs
    cases hs

theorem run_inv : ∀ (ls : List L) (s s' : S), Inv s → run s ls = some s' → Inv s'
  | [], s, s', hi, h => by simp only [run] at h; cases h; exact hi
  | l :: ls, s, s', hi, h => by
    simp only [run] at h
    split at h
    · next s1 hs => exact run_inv ls s1 s' (step_inv s s1 l hi hs) h
    · cases h

/-- a `put()` suspended on the full queue: only running tasks can still end; nothing else moves -/
theorem blocked_step (s s' : S) (l : L) (j : Nat) (hb : s.blocked = some j) (hf : hasPlace s = false)
    (hs : step s l = some s') :
    s'.blocked = some j ∧ s'.pending = s.pending ∧ s'.cap = s.cap ∧ s'.accepted = s.accepted ∧
    (∃ i, l = .done i) := by
  cases l with
  | call i => simp [step, hb] at hs
  | round => simp [step, hb] at hs
  | done i =>
    simp only [step] at hs
    split at hs
    · cases hs; exact ⟨hb, rfl, rfl, rfl, i, rfl⟩
    · cases hs
  | clean =>
    simp only [step] at hs
    split at hs
    · simp [hb] at hs
    · cases hs
  | resume => simp [step, hb, hf] at hs

theorem blocked_run : ∀ (ls : List L) (s s' : S) (j : Nat), s.blocked = some j → hasPlace s = false →
    run s ls = some s' →
    s'.blocked = some j ∧ s'.pending = s.pending ∧ s'.accepted = s.accepted ∧ (∀ l ∈ ls, ∃ i, l = .done i)
  | [], s, s', j, hb, _, h => by
    simp only [run] at h; cases h
    exact ⟨hb, rfl, rfl, fun l hl => by cases hl⟩
  | l :: ls, s, s', j, hb, hf, h => by
    simp only [run] at h
    split at h
    · next s1 hs =>
      obtain ⟨hb1, hp1, hc1, ha1, hd⟩ := blocked_step s s1 l j hb hf hs
      have hf1 : hasPlace s1 = false := by
        simp only [hasPlace, hc1, hp1] at hf ⊢; exact hf
      obtain ⟨h1, h2, h3, h4⟩ := blocked_run ls s1 s' j hb1 hf1 h
      refine ⟨h1, h2.trans hp1, h3.trans ha1, ?_⟩
      intro l' hl'
      cases hl' with
      | head => exact hd
      | tail _ hm => exact h4 l' hm
    · cases h

end Kopf.C01.Sched
