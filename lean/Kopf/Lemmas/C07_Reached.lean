/-
  C07 — helper lemmas for the worker with a parametric version test (`Model/C07_Reached`): the run splits,
  kopf's test is the model of C07_Barrier, and the ghost invariant `CoverBy` (the last own patch is covered:
  a version NOT OLDER than it was dequeued, or the timeout is over, or the worker still expects it).
-/
import Kopf.Lemmas.C07_Barrier
import Kopf.Model.C07_Reached
namespace Kopf.C07

theorem execBy_cons (m : Ver → Ver → Bool) (T : Int) (c : Cfg) (st : Step) (l : List Step) :
    execBy m T c (st :: l) = execBy m T (nextBy m T c st) l := rfl

theorem execBy_append (m : Ver → Ver → Bool) (T : Int) (c : Cfg) (a b : List Step) :
    execBy m T c (a ++ b) = execBy m T (execBy m T c a) b := by
  simp [execBy, List.foldl_append]

theorem wfBy_cons (m : Ver → Ver → Bool) (T idle : Int) (c : Cfg) (st : Step) (l : List Step) :
    wfBy m T idle c (st :: l) = (okStep idle c st && wfBy m T idle (nextBy m T c st) l) := rfl

theorem wfBy_append (m : Ver → Ver → Bool) (T idle : Int) : ∀ (a : List Step) (c : Cfg) (b : List Step),
    wfBy m T idle c (a ++ b) = (wfBy m T idle c a && wfBy m T idle (execBy m T c a) b)
  | [], c, b => by simp [wfBy, execBy]
  | st :: a, c, b => by
    simp only [List.cons_append, wfBy_cons, execBy_cons, wfBy_append m T idle a (nextBy m T c st) b, Bool.and_assoc]

theorem wfBy_split {m : Ver → Ver → Bool} {T idle : Int} {c : Cfg} {a : List Step} {st : Step} {b : List Step}
    (h : wfBy m T idle c (a ++ st :: b) = true) :
    wfBy m T idle c a = true ∧ okStep idle (execBy m T c a) st = true ∧
      wfBy m T idle (nextBy m T (execBy m T c a) st) b = true := by
  rw [wfBy_append, wfBy_cons] at h
  simp only [Bool.and_eq_true] at h
  exact ⟨h.1, h.2.1, h.2.2⟩

/-! ### kopf's test is C07_Barrier's worker -/

theorem arriveBy_mEq (s : WState) (v : Option Ver) : arriveBy mEq s v = arrive s v := by
  unfold arriveBy arrive mEq
  cases he : s.expected with
  | none => rfl
  | some e =>
    cases v with
    | none => simp
    | some u =>
      by_cases h : u = e
      · simp [h]
      · simp [h]

theorem nextBy_mEq (T : Int) (c : Cfg) (st : Step) : nextBy mEq T c st = next T c st := by
  cases st <;> simp [nextBy, next, stepEventBy, stepEvent, arriveBy_mEq]

theorem execBy_mEq (T : Int) : ∀ (l : List Step) (c : Cfg), execBy mEq T c l = exec T c l
  | [], _ => rfl
  | st :: l, c => by rw [execBy_cons, exec_cons, nextBy_mEq, execBy_mEq T l]

theorem outcomeAtBy_mEq (T : Int) (c : Cfg) (it : Iter) : outcomeAtBy mEq T c it = outcomeAt T c it := by
  simp [outcomeAtBy, outcomeAt, stepEventBy, stepEvent, arriveBy_mEq]

theorem wfBy_mEq (T idle : Int) : ∀ (l : List Step) (c : Cfg), wfBy mEq T idle c l = wf T idle c l
  | [], _ => rfl
  | st :: l, c => by rw [wfBy_cons, wf_cons, nextBy_mEq, wfBy_mEq T idle l]

theorem sound_mEq : Sound mEq := by
  intro u e h
  have : u = e := by simpa [mEq] using h
  rw [this]; exact Nat.le_refl _

theorem sound_mNum : Sound mNum := by
  intro u e h
  simp only [mNum, Bool.or_eq_true, Bool.and_eq_true, decide_eq_true_eq] at h
  rcases h with h | ⟨_, h⟩
  · rw [h]; exact Nat.le_refl _
  · exact Nat.le_of_lt h

/-! ### the worker's steps -/

theorem arriveBy_cases (m : Ver → Ver → Bool) (s : WState) (v : Option Ver) :
    (arriveBy m s v = WState.init ∧ ∃ e u, s.expected = some e ∧ v = some u ∧ m u e = true) ∨ arriveBy m s v = s := by
  unfold arriveBy
  cases he : s.expected with
  | none => right; rfl
  | some e =>
    cases v with
    | none => right; rfl
    | some u =>
      by_cases h : m u e = true
      · left; exact ⟨by simp [h], e, u, rfl, rfl, h⟩
      · right; simp [h]

theorem stepEventBy_state_nopatch {m : Ver → Ver → Bool} {T : Int} {s : WState} {it : Iter} (h : it.patched = none) :
    (stepEventBy m T s it).1 = arriveBy m s it.ver := by
  simp [stepEventBy, feedback, h]

theorem stepEventBy_state_patch {m : Ver → Ver → Bool} {T : Int} {s : WState} {it : Iter} {p : Ver}
    (h : it.patched = some p) (hT : T ≠ 0) (hne : some p ≠ it.ver) :
    (stepEventBy m T s it).1 = { expected := some p, deadline := some (it.tret + T) } := by
  simp [stepEventBy, feedback, h, hT, hne]

theorem clock_mono_nextBy {m : Ver → Ver → Bool} {T idle : Int} {c : Cfg} {st : Step} (h : okStep idle c st = true) :
    c.clock ≤ (nextBy m T c st).clock := by
  cases st with
  | event it => have := okStep_event h; simp only [nextBy]; omega
  | retire t => have := okStep_retire h; simp only [nextBy]; omega
  | background q t => exact Int.le_refl _

/-! ### the ghost invariant -/

def CoverBy (T : Int) (c : Cfg) (p : Ver) (tp : Int) (seen : Prop) : Prop :=
  seen ∨ tp + T ≤ c.clock ∨ (c.s.expected = some p ∧ ∃ d, c.s.deadline = some d ∧ tp + T ≤ d)

/-- "A version not older than `p` is what this step dequeued." -/
def Step.notOlder (p : Ver) (st : Step) : Prop := ∃ u, st.ver = some u ∧ p.n ≤ u.n

theorem coverBy_after_patch {m : Ver → Ver → Bool} {T idle : Int} {c : Cfg} {k : Iter} {p : Ver}
    (hok : okStep idle c (.event k) = true) (hk : k.patched = some p) :
    CoverBy T (nextBy m T c (.event k)) p k.tp (k.ver = some p) := by
  have ht := okStep_event hok
  by_cases hT : T = 0
  · right; left; subst hT; simp only [nextBy]; omega
  · by_cases hne : some p = k.ver
    · exact Or.inl hne.symm
    · right; right
      have hs : (nextBy m T c (.event k)).s = { expected := some p, deadline := some (k.tret + T) } :=
        stepEventBy_state_patch hk hT hne
      rw [hs]
      exact ⟨rfl, k.tret + T, rfl, by omega⟩

theorem coverBy_next {m : Ver → Ver → Bool} (hm : Sound m) {T idle : Int} {c : Cfg} {st : Step} {p : Ver} {tp : Int}
    {seen : Prop} (hc : CoverBy T c p tp seen) (hok : okStep idle c st = true) (hnp : st.patched = none) :
    CoverBy T (nextBy m T c st) p tp (seen ∨ st.notOlder p) := by
  have hmono := clock_mono_nextBy (m := m) (T := T) hok
  rcases hc with hs | hclk | ⟨he, d, hd, hle⟩
  · exact Or.inl (Or.inl hs)
  · exact Or.inr (Or.inl (Int.le_trans hclk hmono))
  · cases st with
    | event it =>
      have hnp' : it.patched = none := hnp
      simp only [nextBy, stepEventBy_state_nopatch hnp']
      rcases arriveBy_cases m c.s it.ver with ⟨_, e, u, hee, hv, hmu⟩ | hst
      · left; right
        rw [he] at hee
        cases hee
        exact ⟨u, hv, hm u p hmu⟩
      · right; right; rw [hst]; exact ⟨he, d, hd, hle⟩
    | retire t =>
      have := okStep_retire hok
      have h2 := idleTimeout_deadline idle d c.clock
      rw [hd] at this
      right; left; simp only [nextBy]; omega
    | background q t => exact Or.inr (Or.inr ⟨he, d, hd, hle⟩)

theorem coverBy_exec {m : Ver → Ver → Bool} (hm : Sound m) {T idle : Int} {p : Ver} {tp : Int} :
    ∀ (l : List Step) (c : Cfg) (seen : Prop),
    CoverBy T c p tp seen → wfBy m T idle c l = true → (∀ st ∈ l, st.patched = none) →
    CoverBy T (execBy m T c l) p tp (seen ∨ ∃ st ∈ l, st.notOlder p)
  | [], c, seen, hc, _, _ => by
    rcases hc with h | h | h
    · exact Or.inl (Or.inl h)
    · exact Or.inr (Or.inl h)
    · exact Or.inr (Or.inr h)
  | st :: l, c, seen, hc, hwf, hnp => by
    rw [wfBy_cons, Bool.and_eq_true] at hwf
    have h1 := coverBy_next hm hc hwf.1 (hnp st (List.mem_cons_self ..))
    have h2 := coverBy_exec hm l _ _ h1 hwf.2 (fun s hs => hnp s (List.mem_cons_of_mem _ hs))
    rw [execBy_cons]
    rcases h2 with h | h | h
    · left
      rcases h with (h | h) | ⟨s, hs, h⟩
      · exact Or.inl h
      · exact Or.inr ⟨st, List.mem_cons_self .., h⟩
      · exact Or.inr ⟨s, List.mem_cons_of_mem _ hs, h⟩
    · exact Or.inr (Or.inl h)
    · exact Or.inr (Or.inr h)

theorem coverBy_handlers {m : Ver → Ver → Bool} (hm : Sound m) {T : Int} {c : Cfg} {it : Iter} {p : Ver} {tp t : Int}
    {seen : Prop} (hc : CoverBy T c p tp seen) (hclk : c.clock ≤ it.now)
    (hh : (outcomeAtBy m T c it).handlers = some t) :
    seen ∨ (Step.event it).notOlder p ∨ tp + T ≤ t := by
  have hnow : it.now ≤ t := process_handlers_ge_now (dl := (arriveBy m c.s it.ver).deadline) hh
  rcases hc with hs | hck | ⟨he, d, hd, hle⟩
  · exact Or.inl hs
  · right; right; omega
  · rcases arriveBy_cases m c.s it.ver with ⟨_, e, u, hee, hv, hmu⟩ | hst
    · right; left
      rw [he] at hee
      cases hee
      exact ⟨u, hv, hm u p hmu⟩
    · right; right
      have hh' : (process (arriveBy m c.s it.ver).deadline it).handlers = some t := hh
      rw [hst, hd] at hh'
      have := process_handlers_deadline hh'
      omega

/-! ### strings of digits -/

theorem valOf_lt (ds : List Nat) (h : ∀ d ∈ ds, d < 10) : valOf ds < 10 ^ ds.length := by
  induction ds with
  | nil => simp [valOf]
  | cons d ds ih =>
    have hd : d < 10 := h d (List.mem_cons_self ..)
    have ih' := ih (fun x hx => h x (List.mem_cons_of_mem _ hx))
    have hP : 0 < 10 ^ ds.length := Nat.pow_pos (by decide)
    have h1 : (d + 1) * 10 ^ ds.length ≤ 10 * 10 ^ ds.length := Nat.mul_le_mul_right _ hd
    simp only [valOf, List.length_cons, Nat.pow_succ]
    rw [Nat.succ_mul] at h1
    rw [Nat.mul_comm (10 ^ ds.length) 10]
    omega

end Kopf.C07
