/-
  C20 helper lemmas, part 2: the invariants (statements only, with their base cases). Their preservation by
  every label is proved in the files `C20_Inv<X>_g<group>.lean` (one file per invariant and label group, so
  that they build in parallel) and assembled in `C20_Reach.lean`.
-/
import Kopf.Lemmas.C20_Basic
namespace Kopf.C20

/-- label groups (only to split the preservation proofs over several files) -/
def Label.grp : Label → Nat
  | .rootEnd _ _ => 1
  | .rootStopping _ _ | .subStopping _ _ | .subEnd _ _ | .subSpawn _ | .withdraw _ _ | .subGone _ | .subCancel _
  | .orchStopPingers => 2
  | .workerStart _ | .workerEnd _ _ | .daemonSpawn _ | .daemonExit _ | .waiterEnd | .orphan | .orphanEnd
  | .act _ | .enter _ | .coreEnter | .coreEnd _ => 3
  | _ => 4

/-- a finer grouping for the heaviest invariant (`InvD`): `rootEnd` by the kind of the root task -/
def Label.grpD : Label → Nat
  | .rootEnd r _ =>
    match r.kind with
    | .observer => 5
    | .orchestrator => 6
    | .killer => 7
    | .simple => 11
    | _ => 1
  | .rootStopping _ _ => 8
  | .subStopping _ _ => 9
  | .delay _ | .setStopFlag | .rtStopRoots | .rtCancel | .rtHungWait | .rtStopHung | .rtCStopHung | .rtExit _ => 10
  | l => l.grp

theorem Label.grpD_cases (l : Label) : l.grpD = 1 ∨ l.grpD = 2 ∨ l.grpD = 3 ∨ l.grpD = 4 ∨ l.grpD = 5 ∨ l.grpD = 6
    ∨ l.grpD = 7 ∨ l.grpD = 8 ∨ l.grpD = 9 ∨ l.grpD = 10 ∨ l.grpD = 11 := by
  cases l <;> simp [Label.grpD, Label.grp]
  rename_i r how
  cases r <;> simp [Root.kind]

/-- Forces the match-congruence lemmas of `Root.guarded` to be generated HERE, in the common ancestor of the
    per-group files (generated on demand by `grind`, they would otherwise be declared twice). -/
theorem warm_guarded (r : Root) (h : r.guarded = true) : r ≠ .stopFlag := by
  grind [Root.guarded, Root.kind]

theorem Label.grp_cases (l : Label) : l.grp = 1 ∨ l.grp = 2 ∨ l.grp = 3 ∨ l.grp = 4 := by
  cases l <;> simp [Label.grp]

/-- The flags and the program counter of `startup_cleanup_activities` agree, and nothing behind the
    `started_flag` guard is alive (or has ever acted) before the flag is set. -/
structure InvA (s : State) : Prop where
  early : (s.sc = .init ∨ s.sc = .startup) → s.startupDone = false ∧ s.startupFailed = false ∧ s.started = false
  okDone : s.sc = .startupOk → s.startupDone = true ∧ s.startupFailed = false ∧ s.started = false
  flagged : s.sc = .flagged → s.started = true
  startedDone : s.started = true → s.startupDone = true ∧ s.startupFailed = false
  readyStarted : s.ready = true → s.started = true
  failedSc : s.startupFailed = true →
    ∃ p, p ≠ Pend.none ∧ (s.sc = .stopCore p ∨ s.sc = .coreStopping p ∨ s.sc = .over p)
  notStarted : s.started = false →
    (∀ r, r.guarded = true → (s.st (.root r)).active = false) ∧ s.nSubs = 0 ∧ s.nWorkers = 0
      ∧ s.orphans = 0 ∧ s.acts = 0 ∧ s.core.active = false

theorem InvA.init : InvA init := by
  constructor <;> simp [Kopf.C20.init]
  intro r hr
  simp [initSt, hr]

structure InvB (s : State) : Prop where
  rootFailedIff : s.rootFailed = true ↔ ∃ r, s.st (.root r) = .failed
  subOrch : ∀ i, i < s.nSubs → (s.st (.sub i)).live = true → (s.st (.root .orchestrator)).active = true
  wkRoot : ∀ w r, s.wk w = some (.root r, .running) →
    w < s.nWorkers ∧ (s.st (.root r)).active = true ∧ r.kind = .observer
  wkSub : ∀ w i, s.wk w = some (.sub i, .running) →
    w < s.nWorkers ∧ (s.st (.sub i)).active = true ∧ i < s.nSubs
  werrRoot : ∀ r, s.werr (.root r) = true → r.kind = .observer ∧
    ((s.st (.root r) = .running ∧ s.creq (.root r) = true) ∨ (∃ dl, s.st (.root r) = .stopping true dl)
      ∨ s.st (.root r) = .failed)
  werrSub : ∀ i, s.werr (.sub i) = true → i < s.nSubs ∧
    ((s.st (.sub i) = .running ∧ s.creq (.sub i) = true) ∨ (∃ dl, s.st (.sub i) = .stopping true dl)
      ∨ s.st (.sub i) = .failed)
  withdrawnJ : ∀ i, i < s.nSubs → s.kind i = .pinger → (s.st (.sub i)).ended = true → s.withdrawn i = true
  stoppingNone : ∀ r f, s.st (.root r) = .stopping f none → r = .orchestrator
  subSome : ∀ i f, s.st (.sub i) ≠ .stopping f none
  -- (`stop_in_order`, since /repo 26a293c: the keep-alives are spared by the orchestrator's first stop)
  orchStopSubs : (s.st (.root .orchestrator)).isStopping = true →
    ∀ i, i < s.nSubs → (s.st (.sub i)).live = true →
      s.creq (.sub i) = true ∨ (s.st (.sub i)).isStopping = true ∨ (s.kind i = .pinger ∧ s.orchPing = false)
  wkKind : ∀ w i, s.wk w = some (.sub i, .running) → s.kind i ≠ .pinger
  pingOrch : s.orchPing = true →
    (s.st (.root .orchestrator)).isStopping = true ∨ (s.st (.root .orchestrator)).ended = true
  pingStreams : s.orchPing = true → ∀ j, j < s.nSubs → s.kind j ≠ .pinger → (s.st (.sub j)).live = false

theorem InvB.init : InvB init := by
  constructor <;> simp [Kopf.C20.init, initSt]
  all_goals (intro r; split <;> simp)

/-- `startup_cleanup_activities` is past `wait(other root tasks)` on the way to the cleanup -/
def scPastWait : Sc → Bool
  | .stopCore .none | .coreStopping .none | .cleanup _ | .closing | .over .none => true
  | _ => false

/-- where `startup_cleanup_activities` can be while `run_tasks` still waits for the first root task to end -/
def scEarly : Sc → Bool
  | .init | .startup | .startupOk | .flagged | .sleeping
  | .stopCore .failed | .coreStopping .failed | .over .failed => true
  | _ => false

theorem exited_terminal {cfg : Cfg} {s : State} (l : Label) (h : s.rt = .exited) : step cfg s l = none := by
  cases l <;> simp [step, h]

structure InvC (s : State) : Prop where
  hungRoots : s.rt ≠ .waiting → s.rt ≠ .stoppingRoots → s.rt ≠ .cStoppingRoots →
    ∀ r, (s.st (.root r)).ended = true
  exitedHung : s.rt = .exited →
    s.waiter = false ∧ (∀ d, d < s.nDaemons → s.dm d ≠ .running) ∧ s.orphans = 0
  resultNone : s.rt ≠ .exited → s.result = none
  resultSome : s.rt = .exited → ∃ r, s.result = some r
  resRaised : s.result = some .raised → s.rootFailed = true ∨ s.hungFailed = true
  resReturned : s.result = some .returned → s.rootFailed = false
  pastWait : scPastWait s.sc = true → ∀ r, r ≠ .startupCleanup → (s.st (.root r)).ended = true
  cleanupB : s.cleanupBegun = true →
    (∀ r, r ≠ .startupCleanup → (s.st (.root r)).ended = true) ∧ s.core.live = false
  waitingEarly : s.rt = .waiting →
    scEarly s.sc = true ∧ s.creq (.root .startupCleanup) = false ∧ s.t0 = none
  t0Some : s.rt ≠ .waiting → ∃ t, s.t0 = some t ∧ t ≤ s.now
  scOver : (s.st (.root .startupCleanup)).ended = true →
    ∃ p, s.sc = .over p ∧ s.st (.root .startupCleanup) = p.ts
  scLive : (s.st (.root .startupCleanup)).ended = false → s.st (.root .startupCleanup) = .running
  raisedSc : s.startupRaised = true →
    s.sc = .stopCore .failed ∨ s.sc = .coreStopping .failed ∨ s.sc = .over .failed

theorem InvC.init : InvC init := by
  constructor <;> simp [Kopf.C20.init, initSt, scPastWait, scEarly, Root.guarded, Root.kind]

/-- `startup_cleanup_activities` has not reached the cleanup activity -/
def scBeforeCleanup : Sc → Bool
  | .cleanup _ | .closing | .over _ => false
  | _ => true

/-- `startup_cleanup_activities` has consumed its wake-up cancellation -/
def scLate : Sc → Bool
  | .init | .startup | .startupOk | .flagged | .sleeping => false
  | _ => true

def stoppingPhase (s : State) : Prop := s.rt = .stoppingRoots ∨ s.rt = .cStoppingRoots

structure InvD (cfg : Cfg) (s : State) : Prop where
  rootPresent : ∀ r, s.st (.root r) ≠ .absent
  dlRoot : ∀ r f dl, s.st (.root r) = .stopping f (some dl) → s.now ≤ dl ∧ dl ≤ s.now + G cfg
  dlSub : ∀ i f dl, i < s.nSubs → s.st (.sub i) = .stopping f (some dl) → s.now ≤ dl ∧ dl ≤ s.now + G cfg
  dlCleanup : ∀ tc, s.sc = .cleanup tc → tc ≤ s.now ∧ s.now ≤ tc + cfg.C
  dlHung : ∀ dl, s.rt = .hungWait dl → s.now ≤ dl
  a : ∀ t, s.t0 = some t → stoppingPhase s → ∀ r, r ≠ .startupCleanup → (s.st (.root r)).live = true →
    (s.creq (.root r) = true ∧ s.now = t) ∨ (s.st (.root r)).isStopping = true
  b : ∀ t, s.t0 = some t → stoppingPhase s → ∀ r f dl, s.st (.root r) = .stopping f (some dl) → dl ≤ t + G cfg
  c : ∀ t, s.t0 = some t → stoppingPhase s → (s.st (.root .orchestrator)).isStopping = true →
    ∀ i, i < s.nSubs → (s.st (.sub i)).live = true →
      (s.creq (.sub i) = true ∧ s.now = t) ∨ (s.st (.sub i)).isStopping = true
      ∨ (s.kind i = .pinger ∧ (s.orchPing = false ∨ (s.creq (.sub i) = true ∧ s.now ≤ t + cfg.E)))
  d : ∀ t, s.t0 = some t → stoppingPhase s → ∀ i f dl, i < s.nSubs → s.st (.sub i) = .stopping f (some dl) →
    dl ≤ t + G cfg
  e : ∀ t, s.t0 = some t → stoppingPhase s → (s.st (.root .startupCleanup)).live = true →
    (s.creq (.root .startupCleanup) = true ∧ s.now = t) ∨ scLate s.sc = true
  f : ∀ t tc, s.t0 = some t → s.sc = .cleanup tc → tc ≤ t + G cfg
  g1 : ∀ t, s.t0 = some t → stoppingPhase s → scBeforeCleanup s.sc = true → s.now ≤ t + G cfg
  g2 : ∀ t, s.t0 = some t → stoppingPhase s → s.now ≤ t + G cfg + cfg.C
  hung : ∀ t dl, s.t0 = some t → s.rt = .hungWait dl → dl ≤ t + G cfg + cfg.C + cfg.H
  fin : ∀ t, s.t0 = some t → (s.rt = .stoppingHung ∨ s.rt = .cStoppingHung ∨ s.rt = .exited) →
    s.now ≤ t + G cfg + cfg.C + cfg.H
  -- the two stops of the orchestrator are SEQUENTIAL (since /repo 26a293c): the streams deplete within `E`, the keep-alives are
  -- cancelled after them (not later than `t + E`) and withdraw within `W` — still within `G = E + W + D`
  dlStream : ∀ i f dl, i < s.nSubs → s.kind i ≠ .pinger → s.st (.sub i) = .stopping f (some dl) → dl ≤ s.now + cfg.E
  dS : ∀ t, s.t0 = some t → stoppingPhase s → ∀ i f dl, i < s.nSubs → s.kind i ≠ .pinger →
    s.st (.sub i) = .stopping f (some dl) → dl ≤ t + cfg.E
  p : ∀ t, s.t0 = some t → stoppingPhase s → (s.st (.root .orchestrator)).isStopping = true → s.orchPing = false →
    s.now ≤ t + cfg.E

theorem InvD.init (cfg : Cfg) : InvD cfg init := by
  constructor <;> simp [Kopf.C20.init, initSt, stoppingPhase]
  all_goals (intro r; split <;> simp)

theorem grace_le_G (cfg : Cfg) (s : State) (t : Task) : grace cfg s t ≤ G cfg := by
  unfold grace G
  cases t <;> simp only <;> split <;> omega

theorem InvD.now_eq_root {cfg : Cfg} {s : State} (hI : InvD cfg s) {t : Nat} {r : Root}
    (ht : s.t0 = some t) (hp : stoppingPhase s) (hr : r ≠ .startupCleanup) (hst : s.st (.root r) = .running) :
    s.now = t := by
  have := hI.a t ht hp r hr (by simp [hst])
  simp [hst] at this
  exact this.2

theorem InvD.now_eq_sub {cfg : Cfg} {s : State} (hB : InvB s) (hI : InvD cfg s) {t : Nat} {i : Nat}
    (ht : s.t0 = some t) (hp : stoppingPhase s) (hi : i < s.nSubs) (hst : s.st (.sub i) = .running) :
    s.now = t ∨ (s.kind i = .pinger ∧ s.now ≤ t + cfg.E) := by
  have ho := hB.subOrch i hi (by simp [hst])
  cases hos : s.st (.root .orchestrator) with
  | running => exact Or.inl (hI.now_eq_root ht hp (by decide) hos)
  | stopping f dl =>
    have := hI.c t ht hp (by simp [hos]) i hi (by simp [hst])
    simp [hst] at this
    rcases this with h | ⟨hk, h | h⟩
    · exact Or.inl h.2
    · exact Or.inr ⟨hk, hI.p t ht hp (by simp [hos]) h⟩
    · exact Or.inr ⟨hk, h.2⟩
  | _ => simp [hos] at ho

theorem stoppingPhase_of_live {s : State} (hC : InvC s) (hn : s.rt ≠ .waiting)
    (hl : (s.st (.root .startupCleanup)).ended = false) : stoppingPhase s := by
  unfold stoppingPhase
  by_cases h1 : s.rt = .stoppingRoots
  · exact Or.inl h1
  by_cases h2 : s.rt = .cStoppingRoots
  · exact Or.inr h2
  have := hC.hungRoots hn h1 h2 .startupCleanup
  simp [this] at hl

structure InvE (cfg : Cfg) (s : State) : Prop where
  subPresent : ∀ i, i < s.nSubs → s.st (.sub i) ≠ .absent
  orchWaiting : s.st (.root .orchestrator) = .waitingFlag → s.nSubs = 0
  exitNow : ∀ x, s.exitAt = some x → s.rt = .exited ∧ x = s.now
  exitSome : s.rt = .exited → s.exitAt = some s.now
  orchErrJ : s.orchErr = true → cfg.fixed = true ∧
    ((s.st (.root .orchestrator) = .running ∧ s.creq (.root .orchestrator) = true)
      ∨ s.st (.root .orchestrator) = .stopping true none ∨ s.st (.root .orchestrator) = .failed)
  fixedEdge : cfg.fixed = true → ∀ i, i < s.nSubs → s.st (.sub i) = .failed → s.gone i = false →
    s.st (.root .orchestrator) = .running → s.creq (.root .orchestrator) = true
  dmPresent : ∀ d, d < s.nDaemons → s.dm d ≠ .absent
  werrNotGone : ∀ i, s.werr (.sub i) = true → s.gone i = false
  coreWatcherSt : s.st (.root .coreWatcher) = .running ∨ (s.st (.root .coreWatcher)).ended = true
  coreWatcherFailed : s.st (.root .coreWatcher) = .failed → cfg.coreWatched = true ∧ s.core = .failed
  killerDone : (s.st (.root .daemonKiller)).ended = true → s.st (.root .daemonKiller) ≠ .failed → s.killerCut = false →
    ∀ d, d < s.nDaemons → s.stopReq d = true → s.coop d = true → s.dm d ≠ .running
  stopReqRange : ∀ d, s.nDaemons ≤ d → s.stopReq d = false
  sweptReq : s.killed = true → ∀ d, d < s.nDaemons → s.dm d = .running → s.stopReq d = true
  coreStopReq : ∀ p, s.sc = .coreStopping p → s.core.live = true → s.coreCreq = true
  scOverCore : ∀ p, s.sc = .over p → s.core.live = false ∨ p ≠ .none
  goneSt : ∀ i, s.gone i = true → s.st (.sub i) ≠ .running
  closingCore : s.sc = .closing → s.core.live = false
  cleanupCore : ∀ t, s.sc = .cleanup t → s.core.live = false
  stopReqNone : (s.st (.root .daemonKiller) = .waitingFlag ∨ s.st (.root .daemonKiller) = .running) →
    ∀ d, s.stopReq d = false

theorem InvE.init (cfg : Cfg) : InvE cfg init := by
  constructor <;> simp [Kopf.C20.init, initSt, Root.guarded, Root.kind]

/-- where `startup_cleanup_activities` is after a FAILED startup activity -/
def scFailPath : Sc → Bool
  | .stopCore .failed | .coreStopping .failed | .over .failed => true
  | _ => false

/-- The escalation of the FIRST failure (`tFail`, `failWho`) while `run_tasks` still waits: who is responsible for
    the next step, and by when. `bound` is the claim; the other clauses carry it through the stages
    (failing task's own `finally:` ≤ G, then — for an ensemble task — the orchestrator stopping the others ≤ G). -/
structure InvT (cfg : Cfg) (s : State) : Prop where
  tfNow : ∀ tf, s.tFail = some tf → tf ≤ s.now
  whoSome : s.tFail.isSome = true → s.failWho.isSome = true
  orchAtSome : (s.st (.root .orchestrator)).isStopping = true → s.orchStopAt.isSome = true
  orchAtLe : ∀ to, s.orchStopAt = some to → to ≤ s.now
  c2 : ∀ to, s.orchStopAt = some to → (s.st (.root .orchestrator)).isStopping = true →
    ∀ j, j < s.nSubs → (s.st (.sub j)).live = true →
      (s.creq (.sub j) = true ∧ s.now = to) ∨ (s.st (.sub j)).isStopping = true
      ∨ (s.kind j = .pinger ∧ (s.orchPing = false ∨ (s.creq (.sub j) = true ∧ s.now ≤ to + cfg.E)))
  d2 : ∀ to, s.orchStopAt = some to → (s.st (.root .orchestrator)).isStopping = true →
    ∀ j f dl, j < s.nSubs → s.st (.sub j) = .stopping f (some dl) → dl ≤ to + G cfg
  whoRoot : ∀ tf r, s.rt = .waiting → s.tFail = some tf → s.failWho = some (.root r) →
    (s.st (.root r)).ended = true
    ∨ (s.st (.root r) = .running ∧ s.creq (.root r) = true ∧ s.now = tf)
    ∨ ((s.st (.root r)).isStopping = true ∧ ∀ f dl, s.st (.root r) = .stopping f (some dl) → dl ≤ tf + G cfg)
    ∨ (r = .startupCleanup ∧ (s.st (.root r)).live = true ∧ scFailPath s.sc = true)
    ∨ (r = .coreWatcher ∧ s.st (.root r) = .running ∧ s.core = .failed ∧ cfg.coreWatched = true)
  whoSub : ∀ tf i, s.rt = .waiting → s.tFail = some tf → s.failWho = some (.sub i) →
    cfg.fixed = true ∧ i < s.nSubs ∧ s.gone i = false ∧
    ((s.st (.sub i) = .running ∧ s.creq (.sub i) = true ∧ s.werr (.sub i) = true ∧ s.now = tf)
    ∨ ((s.st (.sub i)).isStopping = true ∧ ∀ f dl, s.st (.sub i) = .stopping f (some dl) → f = true ∧ dl ≤ tf + G cfg)
    ∨ (s.st (.sub i) = .failed ∧
        ((s.st (.root .orchestrator) = .running ∧ s.creq (.root .orchestrator) = true ∧ s.now ≤ tf + G cfg)
        ∨ ((s.st (.root .orchestrator)).isStopping = true ∧ ∀ to, s.orchStopAt = some to → to ≤ tf + G cfg)
        ∨ (s.st (.root .orchestrator)).ended = true)))
  bound : ∀ tf, s.rt = .waiting → s.tFail = some tf → s.now ≤ tf + 2 * G cfg
  d2S : ∀ to, s.orchStopAt = some to → (s.st (.root .orchestrator)).isStopping = true →
    ∀ j f dl, j < s.nSubs → s.kind j ≠ .pinger → s.st (.sub j) = .stopping f (some dl) → dl ≤ to + cfg.E
  p2 : ∀ to, s.orchStopAt = some to → (s.st (.root .orchestrator)).isStopping = true → s.orchPing = false →
    s.now ≤ to + cfg.E

theorem InvT.init (cfg : Cfg) : InvT cfg init := by
  constructor <;> simp [Kopf.C20.init, initSt, Root.guarded, Root.kind]

end Kopf.C20
