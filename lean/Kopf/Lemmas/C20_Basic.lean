/-
  C20 helper lemmas, part 1: Boolean guards as propositions, stability of finished tasks,
  and the startup/flag invariants.
-/
import Kopf.Model.C20_Lifecycle
namespace Kopf.C20

theorem allRootsEnded_iff (s : State) : allRootsEnded s = true ↔ ∀ r, (s.st (.root r)).ended = true := by
  unfold allRootsEnded
  rw [List.all_eq_true]
  exact ⟨fun h r => h r (Root.mem_all r), fun h r _ => h r⟩

theorem anyRootEnded_iff (s : State) : anyRootEnded s = true ↔ ∃ r, (s.st (.root r)).ended = true := by
  unfold anyRootEnded
  rw [List.any_eq_true]
  exact ⟨fun ⟨r, _, h⟩ => ⟨r, h⟩, fun ⟨r, h⟩ => ⟨r, Root.mem_all r, h⟩⟩

theorem othersEnded_iff (s : State) :
    othersEnded s = true ↔ ∀ r, r ≠ .startupCleanup → (s.st (.root r)).ended = true := by
  unfold othersEnded
  rw [List.all_eq_true]
  constructor
  · intro h r hr
    have := h r (Root.mem_all r)
    simpa [hr] using this
  · intro h r _
    by_cases hr : r = .startupCleanup
    · simp [hr]
    · simp [h r hr]

theorem noLiveSub_iff (s : State) : noLiveSub s = true ↔ ∀ i, i < s.nSubs → (s.st (.sub i)).live = false := by
  unfold noLiveSub
  rw [List.all_eq_true]
  constructor
  · intro h i hi
    have := h i (List.mem_range.mpr hi)
    simpa using this
  · intro h i hi
    simp [h i (List.mem_range.mp hi)]

theorem noLiveStream_iff (s : State) :
    noLiveStream s = true ↔ ∀ i, i < s.nSubs → s.kind i ≠ .pinger → (s.st (.sub i)).live = false := by
  unfold noLiveStream
  rw [List.all_eq_true]
  constructor
  · intro h i hi hk
    have := h i (List.mem_range.mpr hi)
    simpa [hk] using this
  · intro h i hi
    by_cases hk : s.kind i = .pinger
    · simp [hk]
    · simp [h i (List.mem_range.mp hi) hk]

theorem noLiveWorkerOf_iff (s : State) (o : Task) :
    noLiveWorkerOf s o = true ↔ ∀ w, w < s.nWorkers → s.wk w ≠ some (o, .running) := by
  unfold noLiveWorkerOf
  rw [List.all_eq_true]
  constructor
  · intro h w hw heq
    have := h w (List.mem_range.mpr hw)
    simp [workerOf, heq] at this
  · intro h w hw
    have := h w (List.mem_range.mp hw)
    unfold workerOf
    split
    · rename_i o' heq
      by_cases ho : o' = o
      · subst ho; exact absurd heq this
      · simp [ho]
    · rfl

theorem anyLiveWorker_iff (s : State) :
    anyLiveWorker s = true ↔ ∃ w, w < s.nWorkers ∧ ∃ o, s.wk w = some (o, .running) := by
  unfold anyLiveWorker
  rw [List.any_eq_true]
  constructor
  · rintro ⟨w, hw, h⟩
    refine ⟨w, List.mem_range.mp hw, ?_⟩
    unfold workerLive at h
    split at h
    · rename_i o heq; exact ⟨o, heq⟩
    · cases h
  · rintro ⟨w, hw, o, h⟩
    exact ⟨w, List.mem_range.mpr hw, by simp [workerLive, h]⟩

theorem anyDaemonRunning_false_iff (s : State) :
    anyDaemonRunning s = false ↔ ∀ d, d < s.nDaemons → s.dm d ≠ .running := by
  unfold anyDaemonRunning
  rw [List.any_eq_false]
  constructor
  · intro h d hd heq
    exact h d (List.mem_range.mpr hd) (by simp [heq])
  · intro h d hd
    have := h d (List.mem_range.mp hd)
    simpa using this

theorem hungLive_false_iff (s : State) :
    hungLive s = false ↔ s.waiter = false ∧ (∀ d, d < s.nDaemons → s.dm d ≠ .running) ∧ s.orphans = 0 := by
  unfold hungLive
  simp only [Bool.or_eq_false_iff, anyDaemonRunning_false_iff, decide_eq_false_iff_not, Nat.not_lt,
    Nat.le_zero_eq, and_assoc]

@[simp] theorem TS.ended_failed : TS.ended .failed = true := rfl
@[simp] theorem TS.ended_cancelled : TS.ended .cancelled = true := rfl
@[simp] theorem TS.ended_done : TS.ended .done = true := rfl
@[simp] theorem TS.ended_running : TS.ended .running = false := rfl
@[simp] theorem TS.ended_waitingFlag : TS.ended .waitingFlag = false := rfl
@[simp] theorem TS.ended_absent : TS.ended .absent = false := rfl
@[simp] theorem TS.ended_stopping (f : Bool) (d : Option Nat) : TS.ended (.stopping f d) = false := rfl
@[simp] theorem TS.live_failed : TS.live .failed = false := rfl
@[simp] theorem TS.live_cancelled : TS.live .cancelled = false := rfl
@[simp] theorem TS.live_done : TS.live .done = false := rfl
@[simp] theorem TS.live_absent : TS.live .absent = false := rfl
@[simp] theorem TS.live_running : TS.live .running = true := rfl
@[simp] theorem TS.live_waitingFlag : TS.live .waitingFlag = true := rfl
@[simp] theorem TS.live_stopping (f : Bool) (d : Option Nat) : TS.live (.stopping f d) = true := rfl
@[simp] theorem TS.active_failed : TS.active .failed = false := rfl
@[simp] theorem TS.active_cancelled : TS.active .cancelled = false := rfl
@[simp] theorem TS.active_done : TS.active .done = false := rfl
@[simp] theorem TS.active_absent : TS.active .absent = false := rfl
@[simp] theorem TS.active_running : TS.active .running = true := rfl
@[simp] theorem TS.active_waitingFlag : TS.active .waitingFlag = false := rfl
@[simp] theorem TS.active_stopping (f : Bool) (d : Option Nat) : TS.active (.stopping f d) = true := rfl

theorem TS.ended_not_live {t : TS} (h : t.ended = true) : t.live = false := by cases t <;> simp_all
theorem TS.ended_not_active {t : TS} (h : t.ended = true) : t.active = false := by cases t <;> simp_all
theorem TS.active_live {t : TS} (h : t.active = true) : t.live = true := by cases t <;> simp_all
theorem failTS_ended (f : Bool) : (failTS f).ended = true := by cases f <;> rfl
theorem Pend.ts_ended (p : Pend) : p.ts.ended = true := by cases p <;> rfl

end Kopf.C20

namespace Kopf.C20

theorem run_append (cfg : Cfg) : ∀ (ls ms : List Label) (s : State),
    run cfg s (ls ++ ms) = (run cfg s ls).bind (fun s1 => run cfg s1 ms)
  | [], ms, s => by simp [run]
  | l :: ls, ms, s => by
    simp only [List.cons_append, run]
    cases step cfg s l with
    | none => simp
    | some s1 => simpa using run_append cfg ls ms s1

theorem Reach.init (cfg : Cfg) : Reach cfg init := ⟨[], rfl⟩

theorem Reach.step {cfg : Cfg} {s s' : State} {l : Label} (h : Reach cfg s) (hs : step cfg s l = some s') :
    Reach cfg s' := by
  obtain ⟨ls, hls⟩ := h
  refine ⟨ls ++ [l], ?_⟩
  rw [run_append, hls]
  simp [run, hs]

/-- Induction over reachable states, with reachability of the pre-state available in the step case. -/
theorem Reach.induction {cfg : Cfg} {P : State → Prop} (h0 : P Kopf.C20.init)
    (hstep : ∀ s s' l, Reach cfg s → P s → Kopf.C20.step cfg s l = some s' → P s') :
    ∀ s, Reach cfg s → P s := by
  have key : ∀ (ls : List Label) (s0 s : State), Reach cfg s0 → P s0 → run cfg s0 ls = some s → P s := by
    intro ls
    induction ls with
    | nil => intro s0 s _ hp h; simp [run] at h; subst h; exact hp
    | cons l ls ih =>
      intro s0 s hr hp h
      simp only [run] at h
      cases h1 : Kopf.C20.step cfg s0 l with
      | none => simp [h1] at h
      | some s1 =>
        simp only [h1] at h
        exact ih s1 s (hr.step h1) (hstep s0 s1 l hr hp h1) h
  intro s ⟨ls, hls⟩
  exact key ls _ s (Reach.init cfg) h0 hls

end Kopf.C20

namespace Kopf.C20

theorem kind_orchestrator_iff (r : Root) : r.kind = .orchestrator ↔ r = .orchestrator := by
  cases r <;> simp [Root.kind]
theorem kind_killer_iff (r : Root) : r.kind = .killer ↔ r = .daemonKiller := by
  cases r <;> simp [Root.kind]
theorem kind_flagChecker_iff (r : Root) : r.kind = .flagChecker ↔ r = .stopFlag := by
  cases r <;> simp [Root.kind]
theorem kind_ultimate_iff (r : Root) : r.kind = .ultimate ↔ r = .ultimate := by
  cases r <;> simp [Root.kind]
theorem kind_startupCleanup_iff (r : Root) : r.kind = .startupCleanup ↔ r = .startupCleanup := by
  cases r <;> simp [Root.kind]
theorem kind_coreWatch_iff (r : Root) : r.kind = .coreWatch ↔ r = .coreWatcher := by
  cases r <;> simp [Root.kind]
theorem guarded_iff (r : Root) :
    r.guarded = true ↔ r ≠ .stopFlag ∧ r ≠ .ultimate ∧ r ≠ .startupCleanup ∧ r ≠ .coreWatcher := by
  cases r <;> simp [Root.guarded, Root.kind]

end Kopf.C20

namespace Kopf.C20

/-- in its `finally:` -/
@[simp] theorem TS.isStopping_stopping (f : Bool) (d : Option Nat) : TS.isStopping (.stopping f d) = true := rfl
@[simp] theorem TS.isStopping_running : TS.isStopping .running = false := rfl
@[simp] theorem TS.isStopping_waitingFlag : TS.isStopping .waitingFlag = false := rfl
@[simp] theorem TS.isStopping_absent : TS.isStopping .absent = false := rfl
@[simp] theorem TS.isStopping_failed : TS.isStopping .failed = false := rfl
@[simp] theorem TS.isStopping_cancelled : TS.isStopping .cancelled = false := rfl
@[simp] theorem TS.isStopping_done : TS.isStopping .done = false := rfl
theorem TS.isStopping_iff (t : TS) : t.isStopping = true ↔ ∃ f dl, t = .stopping f dl := by
  cases t <;> simp

end Kopf.C20

namespace Kopf.C20

theorem urgent_false {cfg : Cfg} {s : State} (h : urgent cfg s = false) :
    rtUrgent s = false ∧ scUrgent cfg s = false
    ∧ (∀ r, taskUrgent s (.root r) = false)
    ∧ (∀ i, i < s.nSubs → taskUrgent s (.sub i) = false)
    ∧ ((s.st (.root .orchestrator)).isStopping = true →
        noLiveSub s = false ∧ (s.orchPing = false → noLiveStream s = false)) := by
  unfold urgent at h
  simp only [Bool.or_eq_false_iff] at h
  obtain ⟨⟨⟨⟨⟨⟨⟨⟨h1, h2⟩, h3⟩, h4⟩, _⟩, _⟩, _⟩, _⟩, h8⟩ := h
  refine ⟨h1, h2, ?_, ?_, ?_⟩
  · intro r
    rw [List.any_eq_false] at h3
    have := h3 r (Root.mem_all r)
    simpa using this
  · intro i hi
    rw [List.any_eq_false] at h4
    have := h4 i (List.mem_range.mpr hi)
    simpa using this
  · intro hs
    rw [TS.isStopping_iff] at hs
    obtain ⟨f, dl, hs⟩ := hs
    simp only [hs, Bool.or_eq_false_iff] at h8
    refine ⟨h8.1, ?_⟩
    intro hp
    simpa [hp] using h8.2

theorem deadlinesAllow_true {cfg : Cfg} {s : State} {n : Nat} (h : deadlinesAllow cfg s n = true) :
    (∀ r, dlAllows s.now n (s.st (.root r)) = true)
    ∧ (∀ i, i < s.nSubs → dlAllows s.now n (s.st (.sub i)) = true)
    ∧ (∀ dl, s.rt = .hungWait dl → s.now + n ≤ dl)
    ∧ (∀ tc, s.sc = .cleanup tc → s.now + n ≤ tc + cfg.C) := by
  unfold deadlinesAllow at h
  simp only [Bool.and_eq_true] at h
  obtain ⟨⟨⟨h1, h2⟩, h3⟩, h4⟩ := h
  refine ⟨?_, ?_, ?_, ?_⟩
  · intro r
    rw [List.all_eq_true] at h1
    exact h1 r (Root.mem_all r)
  · intro i hi
    rw [List.all_eq_true] at h2
    exact h2 i (List.mem_range.mpr hi)
  · intro dl hdl
    simpa [hdl] using h3
  · intro tc htc
    simpa [htc] using h4

theorem dlAllows_stopping {now n : Nat} {f : Bool} {dl : Nat} (h : dlAllows now n (.stopping f (some dl)) = true) :
    now + n ≤ dl := by simpa [dlAllows] using h

theorem taskUrgent_false {s : State} {t : Task} (h : taskUrgent s t = false) :
    ((s.st t).live = true → s.creq t = false) ∧ (∀ f dl, s.st t = .stopping f (some dl) → s.now < dl) := by
  unfold taskUrgent at h
  simp only [Bool.or_eq_false_iff, Bool.and_eq_false_imp] at h
  refine ⟨h.1, ?_⟩
  intro f dl hst
  have := h.2
  simp [hst, dlReached] at this
  exact this

end Kopf.C20

namespace Kopf.C20

theorem stepC_step {cfg : Cfg} {s s' : State} {l : Label} (h : stepC cfg s l = some s') : step cfg s l = some s' := by
  cases l <;> simp only [stepC] at h <;> first | exact h | (split at h <;> first | exact h | cases h)

theorem stepC_delay {cfg : Cfg} {s s' : State} {n : Nat} (h : stepC cfg s (.delay n) = some s') :
    coopDelay cfg s n = true := by
  simp only [stepC] at h
  split at h
  · assumption
  · cases h

theorem coopDelay_iff {cfg : Cfg} {s : State} {n : Nat} :
    coopDelay cfg s n = true ↔ urgent cfg s = false ∧ deadlinesAllow cfg s n = true := by
  simp [coopDelay]

theorem ReachC.init (cfg : Cfg) : ReachC cfg init := ⟨[], rfl⟩

theorem runC_append (cfg : Cfg) : ∀ (ls ms : List Label) (s : State),
    runC cfg s (ls ++ ms) = (runC cfg s ls).bind (fun s1 => runC cfg s1 ms)
  | [], ms, s => by simp [runC]
  | l :: ls, ms, s => by
    simp only [List.cons_append, runC]
    cases stepC cfg s l with
    | none => simp
    | some s1 => simpa using runC_append cfg ls ms s1

theorem ReachC.step {cfg : Cfg} {s s' : State} {l : Label} (h : ReachC cfg s) (hs : stepC cfg s l = some s') :
    ReachC cfg s' := by
  obtain ⟨ls, hls⟩ := h
  refine ⟨ls ++ [l], ?_⟩
  rw [runC_append, hls]
  simp [runC, hs]

theorem runC_run {cfg : Cfg} : ∀ (ls : List Label) (s s' : State), runC cfg s ls = some s' → run cfg s ls = some s'
  | [], s, s', h => by simpa [runC, run] using h
  | l :: ls, s, s', h => by
    simp only [runC] at h
    cases h1 : stepC cfg s l with
    | none => simp [h1] at h
    | some s1 =>
      simp only [h1] at h
      simp only [run, stepC_step h1]
      exact runC_run ls s1 s' h

/-- a cooperative run is a run -/
theorem ReachC.reach {cfg : Cfg} {s : State} (h : ReachC cfg s) : Reach cfg s := by
  obtain ⟨ls, hls⟩ := h
  exact ⟨ls, runC_run ls _ _ hls⟩

/-- Induction over cooperatively reachable states. -/
theorem ReachC.induction {cfg : Cfg} {P : State → Prop} (h0 : P Kopf.C20.init)
    (hstep : ∀ s s' l, ReachC cfg s → P s → stepC cfg s l = some s' → P s') :
    ∀ s, ReachC cfg s → P s := by
  have key : ∀ (ls : List Label) (s0 s : State), ReachC cfg s0 → P s0 → runC cfg s0 ls = some s → P s := by
    intro ls
    induction ls with
    | nil => intro s0 s _ hp h; simp [runC] at h; subst h; exact hp
    | cons l ls ih =>
      intro s0 s hr hp h
      simp only [runC] at h
      cases h1 : stepC cfg s0 l with
      | none => simp [h1] at h
      | some s1 =>
        simp only [h1] at h
        exact ih s1 s (hr.step h1) (hstep s0 s1 l hr hp h1) h
  intro s ⟨ls, hls⟩
  exact key ls _ s (ReachC.init cfg) h0 hls

theorem coopStopped_iff (s : State) :
    coopStopped s = true ↔ ∀ d, d < s.nDaemons → s.stopReq d = true → s.coop d = true → s.dm d ≠ .running := by
  unfold coopStopped
  rw [List.all_eq_true]
  constructor
  · intro h d hd h1 h2 h3
    have := h d (List.mem_range.mpr hd)
    simp [h1, h2, h3] at this
  · intro h d hd
    have := h d (List.mem_range.mp hd)
    cases h1 : s.stopReq d <;> cases h2 : s.coop d <;> simp_all

end Kopf.C20
