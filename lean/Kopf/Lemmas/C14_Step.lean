/-
  Lemmas for C14: one step of the model (`C14.step`, which runs the whole pass `C02.cycleB`) read as C02's `cycle`
  over the records the pass takes over (`C02.taken`: the bridge of Lemmas/C02_Namesake), and the admission webhooks'
  transparency for `recall`.
-/
import Kopf.Model.C14_Resume
import Kopf.Lemmas.C14_Resume
namespace Kopf.C14
open Kopf Kopf.C02

/-- the records the pass of this step takes over -/
def takenOf (decls : List Decl) (mem : Mem) (e : Event) (P : Store) : Store :=
  taken (cfgOf decls mem e) (boundOf decls (causeOf mem e)) P

/-- the pass of this step over the records taken over -/
def passOf (decls : List Decl) (mem : Mem) (e : Event) (P : Store) : CycleResult :=
  cycle (cfgOf decls mem e) (takenOf decls mem e P) e.now e.now1 e.exec

def finalsOf (decls : List Decl) (mem : Mem) (e : Event) (P : Store) : List Id :=
  (cycleFinals (cfgOf decls mem e) (takenOf decls mem e P) e.now e.exec).filter (isInitial decls)

theorem step_suppressed (decls : List Decl) (m : Option Mem) (P : Store) (e : Event) (hs : e.suppressed = true) :
    step decls m P e =
      { mem := if e.deleted then none else some (recall m e), P := P, invoked := [], closed := false } := by
  unfold step
  simp only [hs, if_true]

/-- A step that is not suppressed, through the bridge `cycleB = cycle ∘ taken`: what it invokes, whether it closes the
    cycle, and the memory it leaves. -/
theorem step_eq (decls : List Decl) (m : Option Mem) (P : Store) (e : Event) (hs : e.suppressed = false) :
    (step decls m P e).invoked = (passOf decls (recall m e) e P).invoked ∧
    (step decls m P e).closed = (passOf decls (recall m e) e P).closed ∧
    (step decls m P e).mem =
      (if e.deleted then none else some
        { recall m e with
          fullyHandled := (recall m e).fullyHandled || (passOf decls (recall m e) e P).closed,
          resumed := if (passOf decls (recall m e) e P).closed then []
                     else (recall m e).resumed ++ finalsOf decls (recall m e) e P }) := by
  obtain ⟨hi, hc, _⟩ := cycleB_invoked_closed (cfgOf decls (recall m e) e) (boundOf decls (causeOf (recall m e) e)) P
    e.now e.now1 e.exec
  have hf := cycleFinalsB_eq (cfgOf decls (recall m e) e) (boundOf decls (causeOf (recall m e) e)) P e.now e.exec
  unfold step
  simp only [hs, Bool.false_eq_true, if_false]
  refine ⟨hi, hc, ?_⟩
  rw [hc, hf]
  rfl

theorem takenOf_none {decls : List Decl} {mem : Mem} {e : Event} {P : Store} {i : Id} (h : P i = none) :
    takenOf decls mem e P i = none := by
  cases ht : takenOf decls mem e P i with
  | none => rfl
  | some r => rw [taken_some ht] at h; cases h

theorem recall_some_fullyHandled (mem : Mem) (e : Event) : (recall (some mem) e).fullyHandled = mem.fullyHandled := by
  simp only [recall]; split <;> rfl

theorem recall_some_resumed (mem : Mem) (e : Event) : (recall (some mem) e).resumed = mem.resumed := by
  simp only [recall]; split <;> rfl

/-- An admission request — whatever its operation, whatever the memory — is invisible to the processing of the
    object's next event: the memory it may have created carries an undecided flag, which that event decides
    exactly as if it had created the memory itself (/repo 755fd2f). -/
theorem recall_admission (m : Option Mem) (create : Bool) (e : Event) :
    recall (admission m create) e = recall m e := by
  cases m with
  | some mem => rfl
  | none => cases create <;> rfl

theorem step_admission (decls : List Decl) (m : Option Mem) (create : Bool) (P : Store) (e : Event) :
    step decls (admission m create) P e = step decls m P e := by
  unfold step
  rw [recall_admission]

theorem run_admission (decls : List Decl) (m : Option Mem) (create : Bool) (P : Store) (events : List Event) :
    run decls (admission m create) P events = run decls m P events := by
  cases events with
  | nil => rfl
  | cons e rest => simp only [run, step_admission]

end Kopf.C14
