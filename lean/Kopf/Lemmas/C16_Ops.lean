/-
  C16 helper lemmas, part 2: the storages' operations as sequences of `ensure` / `remove` on a
  patch, seen through `probe`; what a fetch reads from the merged object.
-/
import Kopf.Lemmas.C16_Merge
import Kopf.Model.C16_Names
namespace Kopf.C16
open Kopf Kopf.J

theorem liftD_ok {α} {x : Except DictErr α} {a : α} (h : liftD x = .ok a) : x = .ok a := by
  cases x with
  | ok b => simp [liftD] at h; rw [h]
  | error e => cases e <;> simp [liftD] at h

theorem ofList_inj {a b : Str} (h : String.ofList a = String.ofList b) : a = b := by
  have := congrArg String.toList h
  simpa using this

theorem diverge_annPath {a b : Str} (h : a ≠ b) : diverge (annPath a) (annPath b) = true := by
  have : String.ofList a ≠ String.ofList b := fun e => h (ofList_inj e)
  simp [annPath, diverge, this]

theorem diverge_annPath_iff (a b : Str) : diverge (annPath a) (annPath b) = true ↔ a ≠ b := by
  constructor
  · intro h e; subst e; simp [annPath, diverge] at h
  · exact diverge_annPath

theorem wf_str (s : String) : wf (str s) = true := by simp [wf]
theorem wf_null : wf null = true := by simp [wf]

/-! ## `Touches p p' paths`: `p'` comes from `p` by writes at `paths` only -/

structure Touches (p p' : J) (paths : List Path) : Prop where
  keepsWf : J.wf p = true → J.wf p' = true
  other : ∀ q, (∀ path ∈ paths, diverge q path = true) → probe p' q = probe p q

theorem Touches.refl (p : J) (paths : List Path) : Touches p p paths := ⟨id, fun _ _ => rfl⟩

theorem Touches.mono {p p' : J} {ps ps' : List Path} (h : Touches p p' ps) (hs : ∀ x ∈ ps, x ∈ ps') :
    Touches p p' ps' := ⟨h.keepsWf, fun q hq => h.other q (fun path hp => hq path (hs path hp))⟩

theorem Touches.trans {a b c : J} {ps : List Path} (h1 : Touches a b ps) (h2 : Touches b c ps) :
    Touches a c ps :=
  ⟨fun h => h2.keepsWf (h1.keepsWf h), fun q hq => by rw [h2.other q hq, h1.other q hq]⟩

theorem touches_ensure {p p' v : J} {path : Path} (hv : wf v = true) (h : ensure p path v = .ok p') :
    Touches p p' [path] :=
  ⟨fun hp => ensure_wf path p p' v hp hv h,
   fun q hq => probe_ensure_other path p p' v h q (hq path (by simp))⟩

theorem touches_remove {p p' : J} {path : Path} (h : remove p path = .ok p') : Touches p p' [path] :=
  ⟨fun hp => remove_wf path p p' hp h,
   fun q hq => probe_remove_other path p p' h q (hq path (by simp))⟩

/-- writes elsewhere do not change what the merged object holds at `q` -/
theorem Touches.merged {p p' : J} {ps : List Path} (h : Touches p p' ps) (hw : wf p = true) (t : J) (q : Path)
    (hq : ∀ path ∈ ps, diverge q path = true) :
    resolve? (mergePatch t p') q = resolve? (mergePatch t p) q := by
  rw [resolve_merge q p' (h.keepsWf hw), resolve_merge q p hw, h.other q hq]

/-! ## one path purged -/

theorem purgePath_touches {body p p' : J} {path : Path} (h : purgePath body p path = .ok p') :
    Touches p p' [path] := by
  unfold purgePath at h
  split at h
  · exact touches_ensure wf_null (liftD_ok h)
  · split at h
    · exact touches_remove (liftD_ok h)
    · cases h; exact Touches.refl _ _

theorem purgePath_none {body p p' : J} {path : Path} (hw : wf p = true) (hne : path ≠ [])
    (h : purgePath body p path = .ok p') :
    resolve? (mergePatch body p') path = none := by
  have hw' := (purgePath_touches h).keepsWf hw
  rw [resolve_merge path p' hw']
  unfold purgePath at h
  split at h
  · rw [probe_ensure_same path p p' null (liftD_ok h)]; simp [Probe.ofValue, mergedAt]
  · rename_i hb
    have hbn : resolve? body path = none := by
      cases hh : resolve? body path <;> simp_all
    split at h
    · rw [probe_remove_same path p p' (liftD_ok h)]; simp [mergedAt, hbn]
    · rename_i hp
      cases h
      cases hpr : probe p path with
      | untouched => simp [mergedAt, hbn]
      | gone => simp [mergedAt]
      | set v =>
        have := resolve_of_probe_set path p v hne hpr
        simp [this] at hp

theorem purgeAll_touches {body : J} (paths : List Path) : ∀ {p p' : J}, purgeAll body p paths = .ok p' →
    Touches p p' paths := by
  induction paths with
  | nil => intro p p' h; simp [purgeAll] at h; subst h; exact Touches.refl _ _
  | cons q qs ih =>
    intro p p' h
    simp only [purgeAll] at h
    cases h1 : purgePath body p q with
    | error e => rw [h1] at h; cases h
    | ok p1 =>
      rw [h1] at h
      exact ((purgePath_touches h1).mono (by simp)).trans ((ih h).mono (by simp_all))

theorem purgeAll_none {body : J} (paths : List Path) : ∀ {p p' : J}, wf p = true →
    (∀ q ∈ paths, q ≠ []) → paths.Pairwise (fun a b => diverge a b = true) →
    purgeAll body p paths = .ok p' → ∀ q ∈ paths, resolve? (mergePatch body p') q = none := by
  induction paths with
  | nil => intro p p' _ _ _ _ q hq; cases hq
  | cons q0 qs ih =>
    intro p p' hw hne hpw h q hq
    simp only [purgeAll] at h
    cases h1 : purgePath body p q0 with
    | error e => rw [h1] at h; cases h
    | ok p1 =>
      rw [h1] at h
      have hw1 := (purgePath_touches h1).keepsWf hw
      rw [List.pairwise_cons] at hpw
      rcases List.mem_cons.1 hq with rfl | hq'
      · rw [(purgeAll_touches qs h).merged hw1 body q (fun path hp => hpw.1 path hp)]
        exact purgePath_none hw (hne q (by simp)) h1
      · exact ih hw1 (fun x hx => hne x (by simp [hx])) hpw.2 h q hq'

/-! ## annotation writes -/

theorem ensureAll_touches (names : List Str) : ∀ {p p' v : J}, wf v = true → ensureAll p names v = .ok p' →
    Touches p p' (names.map annPath) := by
  induction names with
  | nil => intro p p' v _ h; simp [ensureAll] at h; subst h; exact Touches.refl _ _
  | cons n ns ih =>
    intro p p' v hv h
    simp only [ensureAll] at h
    cases h1 : liftD (ensure p (annPath n) v) with
    | error e => rw [h1] at h; cases h
    | ok p1 =>
      rw [h1] at h
      exact ((touches_ensure hv (liftD_ok h1)).mono (by simp)).trans ((ih hv h).mono (by simp_all))

theorem ensureAll_set (names : List Str) : ∀ {p p' v : J}, wf v = true → v ≠ null → ensureAll p names v = .ok p' →
    ∀ n ∈ names, probe p' (annPath n) = .set v := by
  induction names with
  | nil => intro p p' v _ _ _ n hn; cases hn
  | cons n0 ns ih =>
    intro p p' v hv hnn h n hn
    simp only [ensureAll] at h
    cases h1 : liftD (ensure p (annPath n0) v) with
    | error e => rw [h1] at h; cases h
    | ok p1 =>
      rw [h1] at h
      by_cases hin : n ∈ ns
      · exact ih hv hnn h n hin
      · have e : n = n0 := by simpa [hin] using hn
        subst e
        rw [(ensureAll_touches ns hv h).other (annPath n) (by
          intro path hp
          obtain ⟨m, hm, rfl⟩ := List.mem_map.1 hp
          exact diverge_annPath (fun e => hin (e ▸ hm)))]
        rw [probe_ensure_same _ _ _ _ (liftD_ok h1)]
        cases v <;> simp_all [Probe.ofValue]

theorem storeMarker_touches {pfx : Str} {body p p' : J} (h : storeMarker pfx body p = .ok p') :
    Touches p p' [annPath (markerName pfx)] := by
  unfold storeMarker at h
  split at h
  · split at h
    · exact touches_ensure (wf_str _) (liftD_ok h)
    · cases h; exact Touches.refl _ _
  · cases h; exact Touches.refl _ _

/-- the marker never overwrites an annotation the patch already sets -/
theorem storeMarker_keep {pfx : Str} {body p p' : J} (h : storeMarker pfx body p = .ok p') (n : Str) (v : J)
    (hs : probe p (annPath n) = .set v) : probe p' (annPath n) = .set v := by
  by_cases e : n = markerName pfx
  · subst e
    have hr := resolve_of_probe_set _ _ _ (by simp [annPath]) hs
    unfold storeMarker at h
    split at h
    · split at h
      · rename_i hc; simp [hr] at hc
      · cases h; exact hs
    · cases h; exact hs
  · rw [(storeMarker_touches h).other (annPath n) (by
      intro path hp; simp at hp; subst hp; exact diverge_annPath e)]
    exact hs

/-! ## reads from the merged object -/

theorem fetchNames_none (env : Env) (body : J) (names : List Str)
    (h : ∀ n ∈ names, resolve? body (annPath n) = none) : fetchNames env body names = .ok none := by
  induction names with
  | nil => rfl
  | cons n ns ih =>
    simp only [fetchNames, h n (by simp)]
    exact ih (fun m hm => h m (by simp [hm]))

theorem fetchNames_congr (env : Env) (b1 b2 : J) (names : List Str)
    (h : ∀ n ∈ names, resolve? b1 (annPath n) = resolve? b2 (annPath n)) :
    fetchNames env b1 names = fetchNames env b2 names := by
  induction names with
  | nil => rfl
  | cons n ns ih =>
    simp only [fetchNames, h n (by simp), ih (fun m hm => h m (by simp [hm]))]

theorem fetchNames_head (env : Env) (body : J) (n : Str) (ns : List Str) (s : String) (j : J)
    (hr : resolve? body (annPath n) = some (str s)) (hd : env.dec s = some j) (hj : j ≠ null) :
    fetchNames env body (n :: ns) = .ok (some j) := by
  cases j <;> simp_all [fetchNames]

theorem merged_set_str {p : J} (hw : wf p = true) (t : J) (q : Path) (s : String) (h : probe p q = .set (str s)) :
    resolve? (mergePatch t p) q = some (str s) := by
  rw [resolve_merge q p hw, h]; simp [mergedAt, mergePatch]

/-! ## the ReplicaSet-of-Deployment bit only looks at `kind` and `metadata.ownerReferences` -/

theorem get?_eq_resolve (j : J) (k : String) : j.get? k = resolve? j [k] := by
  cases j with
  | obj kvs => simp only [get?, resolve?]; cases lookup k kvs <;> simp
  | _ => simp [get?, resolve?]

theorem isDRS_congr {a b : J} (h1 : resolve? a ["kind"] = resolve? b ["kind"])
    (h2 : resolve? a ["metadata", "ownerReferences"] = resolve? b ["metadata", "ownerReferences"]) :
    isDRS a = isDRS b := by
  unfold isDRS
  rw [get?_eq_resolve, get?_eq_resolve, h1, h2]

theorem isDRS_merge {p : J} (hw : wf p = true) (hs : MarkStable p) (body : J) :
    isDRS (mergePatch body p) = isDRS body := by
  apply isDRS_congr
  · rw [resolve_merge _ p hw, hs.1]; rfl
  · rw [resolve_merge _ p hw, hs.2]; rfl

theorem markStable_nil : MarkStable (obj []) := by
  constructor <;> simp [probe]

theorem diverge_kind_ann (n : Str) : diverge ["kind"] (annPath n) = true := by
  simp [annPath, diverge]

theorem diverge_owners_ann (n : Str) : diverge ["metadata", "ownerReferences"] (annPath n) = true := by
  simp [annPath, diverge]

theorem MarkStable.of_touches {p p' : J} {ps : List Path} (hs : MarkStable p) (h : Touches p p' ps)
    (h1 : ∀ path ∈ ps, diverge ["kind"] path = true)
    (h2 : ∀ path ∈ ps, diverge ["metadata", "ownerReferences"] path = true) : MarkStable p' :=
  ⟨by rw [h.other _ h1]; exact hs.1, by rw [h.other _ h2]; exact hs.2⟩

theorem MarkStable.of_touches_ann {p p' : J} {names : List Str} (hs : MarkStable p)
    (h : Touches p p' (names.map annPath)) : MarkStable p' := by
  apply hs.of_touches h
  · intro path hp; obtain ⟨n, _, rfl⟩ := List.mem_map.1 hp; exact diverge_kind_ann n
  · intro path hp; obtain ⟨n, _, rfl⟩ := List.mem_map.1 hp; exact diverge_owners_ann n

/-! ## `make_keys`: a non-empty list without repetitions, headed by the v2 key -/

theorem makeKeys_cases (p : Str) (v1 : Bool) (sfx : Str → Str) (k : Str) :
    makeKeys p v1 sfx k = [v2Key p sfx k] ∨
    (makeKeys p v1 sfx k = [v2Key p sfx k, v1Key p sfx k] ∧ v1Key p sfx k ≠ v2Key p sfx k) := by
  unfold makeKeys
  split
  · rename_i h
    right
    simp only [Bool.and_eq_true, bne_iff_ne, ne_eq] at h
    exact ⟨rfl, h.2⟩
  · left; rfl

theorem makeKeys_head (p : Str) (v1 : Bool) (sfx : Str → Str) (k : Str) :
    ∃ rest, makeKeys p v1 sfx k = v2Key p sfx k :: rest := by
  rcases makeKeys_cases p v1 sfx k with h | ⟨h, _⟩ <;> exact ⟨_, h⟩

theorem makeKeys_nodup (p : Str) (v1 : Bool) (sfx : Str → Str) (k : Str) : (makeKeys p v1 sfx k).Nodup := by
  rcases makeKeys_cases p v1 sfx k with h | ⟨h, hne⟩
  · rw [h]; simp
  · rw [h]; simp; exact fun e => hne e.symm

theorem pairwise_annPath {names : List Str} (h : names.Nodup) :
    (names.map annPath).Pairwise (fun a b => diverge a b = true) := by
  rw [List.pairwise_map]
  exact h.imp (fun hne => diverge_annPath hne)

/-! ## the status storage: a record under `field ++ [key]` -/

theorem resolve_append (f : Path) : ∀ (j : J) (k : String),
    resolve? j (f ++ [k]) = (resolve? j f).bind (fun c => resolve? c [k]) := by
  induction f with
  | nil => intro j k; simp [resolve_nil]
  | cons a as ih =>
    intro j k
    rw [List.cons_append, resolve_cons, resolve_cons]
    cases lookup a (kvsOf j) with
    | none => rfl
    | some v => simp [ih]

theorem resolve_single (c : J) (k : String) : resolve? c [k] = lookup k (kvsOf c) := by
  rw [resolve_cons]
  cases lookup k (kvsOf c) <;> simp [resolve_nil]

theorem wf_of_flat {r : Rec} (h : FlatRec r) : wf (obj r) = true := by rw [wf_obj]; exact h.1

def nonNull (kv : String × J) : Bool := !kv.2.isNull

theorem stored_false (r : Rec) : stored false r = r.filter nonNull := by
  simp only [stored, Bool.false_eq_true, if_false]; rfl

theorem filter_cons_null (k : String) (tl : Rec) : ((k, null) :: tl).filter nonNull = tl.filter nonNull := by
  simp [List.filter, nonNull, isNull]

theorem filter_cons_nonnull (k : String) (v : J) (hv : v ≠ null) (tl : Rec) :
    ((k, v) :: tl).filter nonNull = (k, v) :: tl.filter nonNull := by
  cases v <;> simp_all [List.filter, nonNull, isNull]

/-- with unique keys, a `null` entry is simply gone after the filter -/
theorem lookup_stored (r : Rec) (hw : wfKvs r = true) (f : String) :
    lookup f (stored false r) =
      match lookup f r with
      | some null => none
      | x => x := by
  rw [stored_false]
  induction r with
  | nil => simp
  | cons hd tl ih =>
    obtain ⟨k, v⟩ := hd
    rw [wfKvs_cons] at hw
    simp only [Bool.and_eq_true, Bool.not_eq_true'] at hw
    obtain ⟨⟨h1, _⟩, h3⟩ := hw
    have ih := ih h3
    by_cases hv : v = null
    · subst hv
      rw [filter_cons_null]
      by_cases e : k = f
      · subst e
        have hn : lookup k tl = none := by
          rw [any_key_eq_lookup] at h1
          cases hh : lookup k tl <;> simp_all
        rw [hn] at ih
        simp [lookup, ih]
      · simp [lookup, e, ih]
    · rw [filter_cons_nonnull k v hv]
      by_cases e : k = f
      · subst e
        cases v <;> simp_all [lookup]
      · simp [lookup, e, ih]

/-- merging a flat record over an older record whose keys it covers reads, key by key, as the
    record without its nulls -/
theorem lookup_merge_record (o r : Rec) (hr : FlatRec r)
    (hcov : ∀ f, lookup f r = none → lookup f o = none) (f : String) :
    lookup f (mergeKvs o r) = lookup f (stored false r) := by
  rw [lookup_mergeKvs r hr.1, lookup_stored r hr.1]
  cases hl : lookup f r with
  | none => simp [mergeEntry, hcov f hl]
  | some v =>
    have hv : v.isObj = false := by
      have : (f, v) ∈ r := by
        clear hcov hr
        induction r with
        | nil => simp at hl
        | cons hd tl ih =>
          obtain ⟨k', v'⟩ := hd
          by_cases e : k' = f
          · simp [lookup, e] at hl; subst hl; subst e; simp
          · simp [lookup, e] at hl; exact List.mem_cons_of_mem _ (ih hl)
      exact hr.2 _ this
    cases v <;> simp_all [mergeEntry, mergePatch, isObj]

theorem erase_absent {k : String} {t : List (String × J)} (h : lookup k t = none) : erase k t = t := by
  induction t with
  | nil => rfl
  | cons a b ihb =>
    obtain ⟨k', v'⟩ := a
    by_cases e : k' = k
    · simp [lookup, e] at h
    · simp [lookup, e] at h; simp [erase, e, ihb h]

theorem insert_absent {k : String} {t : List (String × J)} (h : lookup k t = none) (v : J) :
    J.insert k v t = t ++ [(k, v)] := by
  induction t with
  | nil => rfl
  | cons a b ihb =>
    obtain ⟨k', v'⟩ := a
    by_cases e : k' = k
    · simp [lookup, e] at h
    · simp [lookup, e] at h; simp [J.insert, e, ihb h]

theorem mergeKvs_fresh (r : Rec) (hr : FlatRec r) : ∀ t : List (String × J),
    (∀ kv ∈ r, lookup kv.1 t = none) → mergeKvs t r = t ++ stored false r := by
  rw [stored_false]
  induction r with
  | nil => intro t _; simp [mergeKvs_nil]
  | cons hd tl ih =>
    intro t ht
    obtain ⟨k, v⟩ := hd
    have hw := hr.1
    rw [wfKvs_cons] at hw
    simp only [Bool.and_eq_true, Bool.not_eq_true'] at hw
    obtain ⟨⟨h1, _⟩, h3⟩ := hw
    have hflat : FlatRec tl := ⟨h3, fun kv hkv => hr.2 kv (List.mem_cons_of_mem _ hkv)⟩
    have hkt : lookup k t = none := ht (k, v) (by simp)
    have hktl : ∀ kv ∈ tl, kv.1 ≠ k := by
      intro kv hkv e
      have : tl.any (fun x => x.1 == k) = true := List.any_eq_true.2 ⟨kv, hkv, by simp [e]⟩
      rw [this] at h1; cases h1
    by_cases hv : v = null
    · subst hv
      rw [mergeKvs_cons_null, erase_absent hkt, filter_cons_null,
        ih hflat t (fun kv hkv => ht kv (List.mem_cons_of_mem _ hkv))]
    · have hvo : v.isObj = false := hr.2 (k, v) (by simp)
      rw [mergeKvs_cons_nonnull _ _ _ hv, mergePatch_nonobj _ _ hvo, insert_absent hkt,
        filter_cons_nonnull k v hv, ih hflat (t ++ [(k, v)])]
      · simp
      · intro kv hkv
        have hne := hktl kv hkv
        have := ht kv (List.mem_cons_of_mem _ hkv)
        rw [← insert_absent hkt v, lookup_insert_ne hne]; exact this

/-! ## status fields apart from the annotations -/

theorem FieldApart.diverge_ann {field : Path} (h : FieldApart field) (x : String) (n : Str) :
    diverge (annPath n) (field ++ [x]) = true := by
  obtain ⟨a, t, rfl, h1, _⟩ := h
  exact diverge_cons_ne (fun e => h1 e.symm) _ _

theorem FieldApart.diverge_ann' {field : Path} (h : FieldApart field) (x : String) (n : Str) :
    diverge (field ++ [x]) (annPath n) = true := by
  rw [diverge_symm]; exact h.diverge_ann x n

theorem FieldApart.diverge_kind {field : Path} (h : FieldApart field) (x : String) :
    diverge ["kind"] (field ++ [x]) = true := by
  obtain ⟨a, t, rfl, _, h2⟩ := h
  exact diverge_cons_ne (fun e => h2 e.symm) _ _

theorem FieldApart.diverge_owners {field : Path} (h : FieldApart field) (x : String) :
    diverge ["metadata", "ownerReferences"] (field ++ [x]) = true := by
  obtain ⟨a, t, rfl, h1, _⟩ := h
  exact diverge_cons_ne (fun e => h1 e.symm) _ _

/-- what `statusFetch` returns, in terms of the path `field ++ [key]` -/
theorem statusFetch_of_resolve (c : StatusCfg) (b : J) (k : Str) (x : J)
    (h : resolve? b (c.field ++ [String.ofList k]) = some x) (hx : x ≠ null) :
    statusFetch c b k = .ok (some x) := by
  rw [resolve_append] at h
  cases hc : resolve? b c.field with
  | none => rw [hc] at h; simp at h
  | some cont =>
    rw [hc] at h
    simp only [Option.bind_some, resolve_single] at h
    cases cont with
    | obj ckvs =>
      simp only [kvsOf] at h
      simp only [statusFetch, hc, Option.getD_some, h]
      cases x <;> simp_all
    | _ => simp [kvsOf] at h

theorem resolve_of_statusFetch (c : StatusCfg) (b : J) (k : Str) (x : J)
    (h : statusFetch c b k = .ok (some x)) : resolve? b (c.field ++ [String.ofList k]) = some x := by
  rw [resolve_append]
  unfold statusFetch at h
  cases hc : resolve? b c.field with
  | none =>
    rw [hc] at h
    simp at h
  | some cont =>
    rw [hc] at h
    simp only [Option.getD_some] at h
    cases cont with
    | obj ckvs =>
      simp only [Option.bind_some, resolve_single, kvsOf]
      cases hl : lookup (String.ofList k) ckvs with
      | none => simp [hl] at h
      | some v => cases v <;> simp_all
    | _ => simp at h

end Kopf.C16
