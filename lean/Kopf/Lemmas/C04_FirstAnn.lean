/-
  C04 — the first annotation write on an object that has no `metadata.annotations` yet
  (absent → present), when every written key is dropped by the marked-prefix filter.
-/
import Kopf.Lemmas.C04_Payload
set_option linter.unusedSimpArgs false
namespace Kopf.C04
open Kopf Kopf.J

/-- the child value `ensure` writes under the head key. -/
def ensureChild (o : Option J) (rest : List String) (x : J) : Except DictErr J :=
  match rest with
  | [] => .ok x
  | k2 :: ks => ensure (o.getD (.obj [])) (k2 :: ks) x

theorem ensure_top (L : Kvs) (h : String) (rest : List String) (x : J) :
    ensure (.obj L) (h :: rest) x =
      match ensureChild (lookup h L) rest x with
      | .ok c => .ok (.obj (J.insert h c L))
      | .error e => .error e := by
  cases rest with
  | nil => simp [ensure, ensureChild]
  | cons k2 ks => rw [ensure_cons2]; rfl

def setTop (K : String) (v : J) : J → J
  | .obj l => .obj (J.insert K v l)
  | e => e

def eraseTop (K : String) : J → J
  | .obj l => .obj (erase K l)
  | e => e

def mapOk (f : J → J) : Except Err J → Except Err J
  | .ok e => .ok (f e)
  | .error e => .error e

theorem insert_comm {h K : String} (c v : J) : ∀ (l : Kvs), h ≠ K → hasKey K l = true →
    J.insert h c (J.insert K v l) = J.insert K v (J.insert h c l)
  | [], _, hk => by simp at hk
  | (k2, v2) :: l, hne, hk => by
    by_cases e1 : k2 = K
    · subst e1
      have : ¬ k2 = h := fun e => hne e.symm
      simp [J.insert, this]
    · by_cases e2 : k2 = h
      · subst e2
        simp [J.insert, e1]
      · have hk' : hasKey K l = true := by simpa [e1] using hk
        simp [J.insert, e1, e2, insert_comm c v l hne hk']

theorem ensure_setTop {K h : String} (v' x : J) (l : Kvs) (rest : List String) (hne : h ≠ K)
    (hk : hasKey K l = true) :
    liftD (ensure (.obj (J.insert K v' l)) (h :: rest) x) = mapOk (setTop K v') (liftD (ensure (.obj l) (h :: rest) x)) := by
  rw [ensure_top, ensure_top, lookup_insert_other _ l hne]
  cases ensureChild (lookup h l) rest x with
  | error e => rfl
  | ok c => simp [liftD, mapOk, setTop, insert_comm c v' l hne hk]

theorem ensure_eraseTop {K h : String} (x : J) (l : Kvs) (rest : List String) (hne : h ≠ K) :
    liftD (ensure (.obj (erase K l)) (h :: rest) x) = mapOk (eraseTop K) (liftD (ensure (.obj l) (h :: rest) x)) := by
  rw [ensure_top, ensure_top, lookup_erase_other l hne]
  cases ensureChild (lookup h l) rest x with
  | error e => rfl
  | ok c => simp [liftD, mapOk, eraseTop, erase_insert_other c l hne]

theorem hasKey_insert_self (K : String) (v : J) (l : Kvs) : hasKey K (J.insert K v l) = true :=
  lookup_some_hasKey (lookup_insert_same K v l)

theorem cherrypick_setTop (src : J) (K : String) (v' : J) : ∀ (extra : List (List String)) (l : Kvs),
    ExtraAvoids K extra → hasKey K l = true →
    cherrypick src (.obj (J.insert K v' l)) extra = mapOk (setTop K v') (cherrypick src (.obj l) extra)
  | [], l, _, _ => by simp [cherrypick, mapOk, setTop]
  | f :: fs, l, hx, hk => by
    obtain ⟨h, rest, rfl, hne⟩ := hx f List.mem_cons_self
    have hx' : ExtraAvoids K fs := fun g hg => hx g (List.mem_cons_of_mem _ hg)
    simp only [cherrypick]
    cases resolveE src (h :: rest) with
    | error e => cases e <;> simp only [] <;> first | exact cherrypick_setTop src K v' fs l hx' hk | rfl
    | ok x =>
      simp only []
      rw [ensure_setTop v' x l rest hne hk]
      cases he : liftD (ensure (.obj l) (h :: rest) x) with
      | error e => rfl
      | ok d =>
        obtain ⟨kvs, c, hd, rfl, _, _⟩ := ensure_obj_shape (liftD_ok he)
        cases hd
        simp only [mapOk, setTop, bind, Except.bind]
        have hk1 : hasKey K (J.insert h c l) = true := by rw [hasKey_insert_other c l (Ne.symm hne)]; exact hk
        exact cherrypick_setTop src K v' fs _ hx' hk1

theorem cherrypick_eraseTop (src : J) (K : String) : ∀ (extra : List (List String)) (l : Kvs),
    ExtraAvoids K extra →
    cherrypick src (.obj (erase K l)) extra = mapOk (eraseTop K) (cherrypick src (.obj l) extra)
  | [], l, _ => by simp [cherrypick, mapOk, eraseTop]
  | f :: fs, l, hx => by
    obtain ⟨h, rest, rfl, hne⟩ := hx f List.mem_cons_self
    have hx' : ExtraAvoids K fs := fun g hg => hx g (List.mem_cons_of_mem _ hg)
    simp only [cherrypick]
    cases resolveE src (h :: rest) with
    | error e => cases e <;> simp only [] <;> first | exact cherrypick_eraseTop src K fs l hx' | rfl
    | ok x =>
      simp only []
      rw [ensure_eraseTop x l rest hne]
      cases he : liftD (ensure (.obj l) (h :: rest) x) with
      | error e => rfl
      | ok d =>
        obtain ⟨kvs, c, hd, rfl, _, _⟩ := ensure_obj_shape (liftD_ok he)
        cases hd
        simp only [mapOk, eraseTop, bind, Except.bind]
        exact cherrypick_eraseTop src K fs _ hx'

/-- cherry-picking fields that avoid `K` leaves the value at `K` alone. -/
theorem cherrypick_keeps (src : J) (K : String) : ∀ (extra : List (List String)) (d d' : J),
    ExtraAvoids K extra → cherrypick src d extra = .ok d' → d.isObj = true →
    d'.get? K = d.get? K ∧ d'.isObj = true
  | [], d, d', _, h, ho => by simp [cherrypick] at h; subst h; exact ⟨rfl, ho⟩
  | f :: fs, d, d', hx, h, ho => by
    obtain ⟨hh, rest, rfl, hne⟩ := hx f List.mem_cons_self
    have hx' : ExtraAvoids K fs := fun g hg => hx g (List.mem_cons_of_mem _ hg)
    simp only [cherrypick] at h
    cases hr : resolveE src (hh :: rest) with
    | error e =>
      rw [hr] at h
      cases e <;> simp only [] at h <;> first | exact cherrypick_keeps src K fs d d' hx' h ho | cases h
    | ok v =>
      rw [hr] at h
      simp only [] at h
      cases he : liftD (ensure d (hh :: rest) v) with
      | error e => rw [he] at h; simp [bind, Except.bind] at h
      | ok d1 =>
        rw [he] at h
        simp only [bind, Except.bind] at h
        have he' := liftD_ok he
        have ⟨g, o⟩ := cherrypick_keeps src K fs d1 d' hx' h (ensure_isObj he')
        exact ⟨g.trans (ensure_get?_other he' hne), o⟩

theorem extraAvoids_one {K : String} {f : List String} {fs : List (List String)} (hx : ExtraAvoids K (f :: fs)) :
    ExtraAvoids K [f] := by
  intro g hg
  have : g = f := by simpa using hg
  subst this; exact hx g List.mem_cons_self

/-- the guarded restoring loop (kopf 571b1b2) keeps the value at `K` as well: a skipped field writes nothing. -/
theorem cherrypickSkip_keeps (src : J) (K : String) : ∀ (extra : List (List String)) (d d' : J),
    ExtraAvoids K extra → cherrypickSkip src d extra = .ok d' → d.isObj = true →
    d'.get? K = d.get? K ∧ d'.isObj = true
  | [], d, d', _, h, ho => by simp [cherrypickSkip] at h; subst h; exact ⟨rfl, ho⟩
  | f :: fs, d, d', hx, h, ho => by
    have hx' : ExtraAvoids K fs := fun g hg => hx g (List.mem_cons_of_mem _ hg)
    simp only [cherrypickSkip] at h
    cases hc : cherrypick src d [f] with
    | ok d1 =>
      rw [hc] at h; simp only [] at h
      have ⟨g1, o1⟩ := cherrypick_keeps src K [f] d d1 (extraAvoids_one hx) hc ho
      have ⟨g, o⟩ := cherrypickSkip_keeps src K fs d1 d' hx' h o1
      exact ⟨g.trans g1, o⟩
    | error e =>
      rw [hc] at h
      cases e <;> simp only [] at h <;> first | exact cherrypickSkip_keeps src K fs d d' hx' h ho | cases h

theorem cherrypickSkip_setTop (src : J) (K : String) (v' : J) : ∀ (extra : List (List String)) (l : Kvs),
    ExtraAvoids K extra → hasKey K l = true →
    cherrypickSkip src (.obj (J.insert K v' l)) extra = mapOk (setTop K v') (cherrypickSkip src (.obj l) extra)
  | [], l, _, _ => by simp [cherrypickSkip, mapOk, setTop]
  | f :: fs, l, hx, hk => by
    have hx' : ExtraAvoids K fs := fun g hg => hx g (List.mem_cons_of_mem _ hg)
    simp only [cherrypickSkip]
    rw [cherrypick_setTop src K v' [f] l (extraAvoids_one hx) hk]
    cases hc : cherrypick src (.obj l) [f] with
    | error e => cases e <;> simp only [mapOk] <;> first | exact cherrypickSkip_setTop src K v' fs l hx' hk | rfl
    | ok d =>
      have ⟨g, o⟩ := cherrypick_keeps src K [f] _ d (extraAvoids_one hx) hc rfl
      cases d with
      | obj l1 =>
        simp only [mapOk, setTop]
        obtain ⟨w, hw⟩ := hasKey_lookup hk
        have hk1 : hasKey K l1 = true := lookup_some_hasKey (v := w) (by simpa [get?, hw] using g)
        exact cherrypickSkip_setTop src K v' fs l1 hx' hk1
      | _ => simp [isObj] at o

theorem cherrypickSkip_eraseTop (src : J) (K : String) : ∀ (extra : List (List String)) (l : Kvs),
    ExtraAvoids K extra →
    cherrypickSkip src (.obj (erase K l)) extra = mapOk (eraseTop K) (cherrypickSkip src (.obj l) extra)
  | [], l, _ => by simp [cherrypickSkip, mapOk, eraseTop]
  | f :: fs, l, hx => by
    have hx' : ExtraAvoids K fs := fun g hg => hx g (List.mem_cons_of_mem _ hg)
    simp only [cherrypickSkip]
    rw [cherrypick_eraseTop src K [f] l (extraAvoids_one hx)]
    cases hc : cherrypick src (.obj l) [f] with
    | error e => cases e <;> simp only [mapOk] <;> first | exact cherrypickSkip_eraseTop src K fs l hx' | rfl
    | ok d =>
      have ⟨_, o⟩ := cherrypick_keeps src K [f] _ d (extraAvoids_one hx) hc rfl
      cases d with
      | obj l1 =>
        simp only [mapOk, eraseTop]
        exact cherrypickSkip_eraseTop src K fs l1 hx'
      | _ => simp [isObj] at o

/-! ### assembling the first-write case -/

theorem metaGet_obj (l : Kvs) (name : String) :
    metaGet (.obj l) name = match lookup "metadata" l with
      | some (.obj mm) => lookup name mm
      | _ => none := by
  simp only [metaGet, get?]
  cases lookup "metadata" l with
  | none => rfl
  | some v => cases v <;> rfl

theorem metaDropIfFalsy_none {e : J} {name : String} (h : metaGet e name = none) : metaDropIfFalsy e name = e := by
  simp [metaDropIfFalsy, h]

theorem metaDropIfFalsy_falsy {l mm : Kvs} {name : String} {v : J} (hm : lookup "metadata" l = some (.obj mm))
    (hv : lookup name mm = some v) (hf : v.truthy = false) :
    metaDropIfFalsy (.obj l) name = .obj (J.insert "metadata" (.obj (erase name mm)) l) := by
  simp [metaDropIfFalsy, metaGet_obj, hm, hv, hf, metaDel]

theorem lookup_metadata_erase4 (kvs : Kvs) : lookup "metadata" (erase4 kvs) = none := by
  simp only [erase4]
  rw [lookup_erase_other _ (by decide : "metadata" ≠ "status"), lookup_erase_same]

theorem pickStep_ML_shape {src d : J} {e0 : Kvs} (h : pickStep src ML (.obj e0) = .ok d)
    (hn : lookup "metadata" e0 = none) :
    d = .obj e0 ∨ ∃ lv, d = .obj (J.insert "metadata" (.obj [("labels", lv)]) e0) := by
  simp only [pickStep] at h
  cases hr : resolveE src ML with
  | error e =>
    rw [hr] at h
    cases e <;> simp only [] at h <;> first | (cases h; exact Or.inl rfl) | cases h
  | ok lv =>
    rw [hr] at h
    simp only [] at h
    right
    refine ⟨lv, ?_⟩
    have : ensure (.obj e0) ML lv = .ok (.obj (J.insert "metadata" (.obj [("labels", lv)]) e0)) := by
      simp [ML, ensure, hn, bind, Except.bind, pure, Except.pure, J.insert]
    rw [this] at h
    simp [liftD] at h
    exact h.symm

theorem ensure_MA_none {dk : Kvs} (v : J) (h : lookup "metadata" dk = none) :
    liftD (ensure (.obj dk) MA v) = .ok (annShape dk [] v) := by
  simp [MA, ensure, h, liftD, bind, Except.bind, pure, Except.pure, annShape]

theorem ensure_MA_some {dk cm : Kvs} (v : J) (h : lookup "metadata" dk = some (.obj cm)) :
    liftD (ensure (.obj dk) MA v) = .ok (annShape dk cm v) := by
  simp [MA, ensure, h, liftD, bind, Except.bind, pure, Except.pure, annShape]

theorem metaOK_of_none {l : Kvs} (h : lookup "metadata" l = none) : metaOK (.obj l) = true := by
  simp [metaOK, h]

theorem metaOK_of_some_none {l mm : Kvs} (h : lookup "metadata" l = some (.obj mm))
    (ha : lookup "annotations" mm = none) : metaOK (.obj l) = true := by
  simp [metaOK, h, ha]

theorem metaOK_of_some_obj {l mm a : Kvs} (h : lookup "metadata" l = some (.obj mm))
    (ha : lookup "annotations" mm = some (.obj a)) : metaOK (.obj l) = true := by
  simp [metaOK, h, ha]

theorem stage2_of_no_ann {e : J} (h : metaGet e "annotations" = none) : stage2 e = e := by
  simp [stage2, filterAnnotations, h]

theorem stage2_annShape (dk cm A : Kvs) :
    stage2 (annShape dk cm (.obj A)) =
      annShape dk cm (.obj (A.filter (fun kv => keepAnnotation (markedPrefixes (keys A)) kv.1))) := by
  simp only [stage2, annPrefixes, metaGet_annShape, filterAnnotations_annShape]

theorem removeEmptyStanzas_eq {e e' : J}
    (h : dropIfFalsy (metaDropIfFalsy (metaDropIfFalsy e "annotations") "labels") "metadata" =
         dropIfFalsy (metaDropIfFalsy (metaDropIfFalsy e' "annotations") "labels") "metadata") :
    removeEmptyStanzas e = removeEmptyStanzas e' := by
  simp only [removeEmptyStanzas, h]

section
variable {kvs m A' : Kvs}

theorem resolveE_MA_absent (hm : lookup "metadata" kvs = some (.obj m)) (ha : lookup "annotations" m = none) :
    resolveE (.obj kvs) MA = .error .keyError := by
  simp [MA, resolveE, hm, ha]

/-- the tail of `build` after the annotations were all filtered away, case "essence.metadata exists". -/
theorem tail_caseA (ig extra : List (List String)) (src : J) {dk cm : Kvs}
    (hmd : lookup "metadata" dk = some (.obj cm)) (hca : lookup "annotations" cm = none)
    (hx : ExtraAvoids "metadata" extra) :
    (match cherrypickSkip src (annShape dk cm (.obj [])) extra with
      | .error e => .error e
      | .ok e3 => if !metaOK e3 then .error .unmodelled else ignoreFields (removeEmptyStanzas e3) ig) =
    (match cherrypickSkip src (.obj dk) extra with
      | .error e => (.error e : Except Err J)
      | .ok e3 => if !metaOK e3 then .error .unmodelled else ignoreFields (removeEmptyStanzas e3) ig) := by
  have hk : hasKey "metadata" dk = true := lookup_some_hasKey hmd
  simp only [annShape]
  rw [cherrypickSkip_setTop src "metadata" _ extra dk hx hk]
  cases hc : cherrypickSkip src (.obj dk) extra with
  | error e => rfl
  | ok e3 =>
    obtain ⟨g, o⟩ := cherrypickSkip_keeps src "metadata" extra _ _ hx hc rfl
    cases e3 with
    | obj l3 =>
      have hl3 : lookup "metadata" l3 = some (.obj cm) := by simpa [get?, hmd] using g
      simp only [mapOk, setTop]
      have hok' : metaOK (.obj (J.insert "metadata" (.obj (J.insert "annotations" (.obj []) cm)) l3)) = true :=
        metaOK_of_some_obj (lookup_insert_same _ _ _) (lookup_insert_same _ _ _)
      have hok : metaOK (.obj l3) = true := metaOK_of_some_none hl3 hca
      simp only [hok, hok', Bool.not_true, Bool.false_eq_true, if_false]
      congr 1
      apply removeEmptyStanzas_eq
      have h1 : metaDropIfFalsy (.obj (J.insert "metadata" (.obj (J.insert "annotations" (.obj []) cm)) l3)) "annotations"
          = .obj l3 := by
        rw [metaDropIfFalsy_falsy (v := .obj []) (lookup_insert_same _ _ _) (lookup_insert_same _ _ _) (by rfl)]
        rw [insert_insert, erase_insert_same, erase_of_not_hasKey _ ((lookup_none_iff _ _).1 hca), insert_self hl3]
      have h2 : metaDropIfFalsy (.obj l3) "annotations" = .obj l3 :=
        metaDropIfFalsy_none (by simp [metaGet_obj, hl3, hca])
      rw [h1, h2]
    | _ => simp [isObj] at o

/-- … case "essence.metadata does not exist (no labels either)". -/
theorem tail_caseB (ig extra : List (List String)) (src : J) {dk : Kvs}
    (hmd : lookup "metadata" dk = none) (hx : ExtraAvoids "metadata" extra) :
    (match cherrypickSkip src (annShape dk [] (.obj [])) extra with
      | .error e => .error e
      | .ok e3 => if !metaOK e3 then .error .unmodelled else ignoreFields (removeEmptyStanzas e3) ig) =
    (match cherrypickSkip src (.obj dk) extra with
      | .error e => (.error e : Except Err J)
      | .ok e3 => if !metaOK e3 then .error .unmodelled else ignoreFields (removeEmptyStanzas e3) ig) := by
  simp only [annShape]
  have hdk : erase "metadata" (J.insert "metadata" (.obj (J.insert "annotations" (.obj []) [])) dk) = dk := by
    rw [erase_insert_same, erase_of_not_hasKey _ ((lookup_none_iff _ _).1 hmd)]
  have := cherrypickSkip_eraseTop src "metadata" extra (J.insert "metadata" (.obj (J.insert "annotations" (.obj []) [])) dk) hx
  rw [hdk] at this
  rw [this]
  cases hc : cherrypickSkip src (.obj (J.insert "metadata" (.obj (J.insert "annotations" (.obj []) [])) dk)) extra with
  | error e => rfl
  | ok e3 =>
    obtain ⟨g, o⟩ := cherrypickSkip_keeps src "metadata" extra _ _ hx hc rfl
    cases e3 with
    | obj l3 =>
      have hl3 : lookup "metadata" l3 = some (.obj [("annotations", .obj [])]) := by
        simpa [get?, lookup_insert_same, J.insert] using g
      simp only [mapOk, eraseTop]
      have hok' : metaOK (.obj l3) = true := metaOK_of_some_obj (a := []) hl3 (by simp [lookup_cons])
      have hok : metaOK (.obj (erase "metadata" l3)) = true := metaOK_of_none (lookup_erase_same _ _)
      simp only [hok, hok', Bool.not_true, Bool.false_eq_true, if_false]
      congr 1
      apply removeEmptyStanzas_eq
      have hne : metaGet (.obj (erase "metadata" l3)) "annotations" = none := by simp [metaGet_obj, lookup_erase_same]
      have hne2 : metaGet (.obj (erase "metadata" l3)) "labels" = none := by simp [metaGet_obj, lookup_erase_same]
      rw [metaDropIfFalsy_none hne, metaDropIfFalsy_none hne2]
      rw [metaDropIfFalsy_falsy (v := .obj []) hl3 (by simp [lookup_cons]) (by rfl)]
      have h3 : metaGet (.obj (J.insert "metadata" (.obj (erase "annotations" [("annotations", .obj [])])) l3)) "labels" = none := by
        simp [metaGet_obj, lookup_insert_same, erase]
      rw [metaDropIfFalsy_none h3]
      simp [dropIfFalsy, lookup_insert_same, lookup_erase_same, erase, truthy, erase_insert_same]
    | _ => simp [isObj] at o

/-- **first annotation write**: the object had no `metadata.annotations`; every key written is dropped
    by the marked-prefix filter (all under `kopf.zalando.org`/sub-domains, or the marker comes along). -/
theorem baseBuild_firstAnn (ig extra : List (List String))
    (hm : lookup "metadata" kvs = some (.obj m)) (ha : lookup "annotations" m = none)
    (hall : ∀ kv, kv ∈ A' → keepAnnotation (markedPrefixes (keys A')) kv.1 = false)
    (hx : ExtraAvoids "metadata" extra) :
    baseBuild ig extra (.obj (withAnn kvs m A')) = baseBuild ig extra (.obj kvs) := by
  have hxo : ∀ f, f ∈ extra → (∃ k ks, f = k :: ks ∧ k ≠ "metadata") ∨
      (∃ k2 ks, f = "metadata" :: k2 :: ks ∧ k2 ≠ "annotations") := fun f hf => Or.inl (hx f hf)
  rw [baseBuild_eq, baseBuild_eq, cherrypick_two, cherrypick_two]
  have he4 : erase4 (withAnn kvs m A') = erase4 kvs := erase4_insert_metadata _ kvs
  have hml : pickStep (.obj (withAnn kvs m A')) ML (.obj (erase4 kvs)) = pickStep (.obj kvs) ML (.obj (erase4 kvs)) := by
    simp only [pickStep]
    rw [resolveE_withAnn_other hm ML (Or.inr ⟨"labels", [], rfl, by decide⟩)]
  rw [he4, hml]
  cases hd : pickStep (.obj kvs) ML (.obj (erase4 kvs)) with
  | error e => rfl
  | ok d =>
    simp only [pickStep, resolveE_withAnn_MA, resolveE_MA_absent hm ha]
    have hfil : A'.filter (fun kv => keepAnnotation (markedPrefixes (keys A')) kv.1) = [] :=
      List.filter_eq_nil_iff.2 (fun kv hkv => by simp [hall kv hkv])
    have hcong := fun dst => cherrypickSkip_congr (.obj (withAnn kvs m A')) (.obj kvs) extra dst
      (fun f hf => resolveE_withAnn_other (A' := A') hm f (hxo f hf))
    rcases pickStep_ML_shape hd (lookup_metadata_erase4 kvs) with rfl | ⟨lv, rfl⟩
    · have hn := lookup_metadata_erase4 kvs
      rw [ensure_MA_none _ hn]
      simp only [tailBuild]
      rw [stage2_annShape, hfil, stage2_of_no_ann (by simp [metaGet_obj, hn]), metaOK_annShape, metaOK_of_none hn, hcong]
      simp only [Bool.not_true, Bool.false_eq_true, if_false]
      exact tail_caseB ig extra (.obj kvs) hn hx
    · have hs : lookup "metadata" (J.insert "metadata" (.obj [("labels", lv)]) (erase4 kvs)) = some (.obj [("labels", lv)]) :=
        lookup_insert_same _ _ _
      have hla : lookup "annotations" [("labels", lv)] = none := by simp [lookup_cons]
      rw [ensure_MA_some _ hs]
      simp only [tailBuild]
      rw [stage2_annShape, hfil, stage2_of_no_ann (by simp [metaGet_obj, hs, hla]), metaOK_annShape,
        metaOK_of_some_none hs hla, hcong]
      simp only [Bool.not_true, Bool.false_eq_true, if_false]
      exact tail_caseA ig extra (.obj kvs) hs hla hx

theorem essence_firstAnn (cfg : Cfg) (extra : List (List String))
    (hm : lookup "metadata" kvs = some (.obj m)) (ha : lookup "annotations" m = none)
    (hall : ∀ kv, kv ∈ A' → keepAnnotation (markedPrefixes (keys A')) kv.1 = false)
    (hx : ExtraAvoids "metadata" extra) :
    essence cfg extra (.obj (withAnn kvs m A')) = essence cfg extra (.obj kvs) := by
  have hb := fun ig => baseBuild_firstAnn (A' := A') ig extra hm ha hall hx
  simp only [essence]
  cases hdb : cfg.diffbase with
  | leaf l =>
    cases l with
    | annotations p k v1 ig => simp only [diffbaseBuild, leafBuild, hb, markKey, isDRS_withAnn hm]
    | status f ig => simp only [diffbaseBuild, leafBuild, hb]
  | multi ls => simp only [diffbaseBuild, hb, multiBuild_withAnn _ _ hm]
end

end Kopf.C04
