/-
  C04 — lemmas for the cycle-level decisions: Python's `==` (`pyEq`) is coarser than JSON equality (`same`),
  never finer; a non-empty diff means JSON-unequal values.
-/
import Kopf.Lemmas.C04_PyEq
import Kopf.Lemmas.C04_Diff
import Kopf.Model.C04_Cycle
namespace Kopf.C04
open Kopf Kopf.J

/-- JSON-equal values are Python-equal (Python's `==` is coarser). -/
theorem pyEq_of_same (a : J) : ∀ b, same a b = true → pyEq a b = true := by
  refine fullInd_aux (P := fun a => ∀ b, same a b = true → pyEq a b = true) ?_ ?_ ?_ a
  · intro a h1 h2 b h
    cases a with
    | arr xs => exact absurd rfl (h1 xs)
    | obj kvs => exact absurd rfl (h2 kvs)
    | null => cases b <;> simp_all [pyEq, same]
    | bool x => cases b <;> simp_all [pyEq, same]
    | num n => cases b <;> simp_all [pyEq, same]
    | str s => cases b <;> simp_all [pyEq, same]
  · intro xs ih b h
    cases b with
    | arr ys =>
      simp only [same] at h
      simp only [pyEq]
      induction xs generalizing ys with
      | nil => cases ys <;> simp_all [pyEqList, sameList]
      | cons x xs ihl =>
        cases ys with
        | nil => simp [sameList] at h
        | cons y ys =>
          simp only [sameList, Bool.and_eq_true] at h
          simp only [pyEqList, Bool.and_eq_true]
          exact ⟨ih x List.mem_cons_self y h.1, ihl (fun z hz => ih z (List.mem_cons_of_mem _ hz)) ys h.2⟩
    | _ => simp [same] at h
  · intro kvs ih b h
    cases b with
    | obj kb =>
      simp only [same, Bool.and_eq_true] at h
      simp only [pyEq, Bool.and_eq_true]
      refine ⟨h.1, ?_⟩
      have hs := h.2
      clear h
      induction kvs with
      | nil => simp [pyEqSub]
      | cons kv rest ihl =>
        obtain ⟨k, x⟩ := kv
        simp only [sameSub, Bool.and_eq_true] at hs
        simp only [pyEqSub, Bool.and_eq_true]
        refine ⟨?_, ihl (fun k' x' hm => ih k' x' (List.mem_cons_of_mem _ hm)) hs.2⟩
        cases hl : lookup k kb with
        | none => simp [hl] at hs
        | some y =>
          have h1 := hs.1
          simp only [hl] at h1
          exact ih k x List.mem_cons_self y h1
    | _ => simp [same] at h

/-- a non-empty diff means the two values are not JSON-equal. -/
theorem same_false_of_diff_ne {a b : J} {p : Path} (h : diff a b p ≠ []) : same a b = false := by
  cases hs : same a b with
  | false => rfl
  | true => exact absurd (diff_of_pyEq p hs) h

end Kopf.C04
