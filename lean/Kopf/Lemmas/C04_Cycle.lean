/-
  C04 — lemmas for the cycle-level decisions: Python's `==` (`pyEq`) is JSON equality (`same`) on values
  without booleans; consequences for `detect` / `storeGuard` / `fieldChanged`.
-/
import Kopf.Lemmas.C04_PyEq
import Kopf.Lemmas.C04_Diff
import Kopf.Model.C04_Cycle
namespace Kopf.C04
open Kopf Kopf.J

theorem noBool_of_lookup {k : String} {l : Kvs} {v : J} (hn : noBoolKvs l = true) (h : lookup k l = some v) :
    noBool v = true := by
  induction l with
  | nil => simp at h
  | cons kv l ih =>
    obtain ⟨k2, x⟩ := kv
    simp only [noBoolKvs, Bool.and_eq_true] at hn
    rw [lookup_cons] at h
    by_cases hk : k2 = k
    · simp [hk] at h; subst h; exact hn.1
    · simp [hk] at h; exact ih hn.2 h

theorem noBool_of_mem {k : String} {l : Kvs} {v : J} (hn : noBoolKvs l = true) (h : (k, v) ∈ l) :
    noBool v = true := by
  induction l with
  | nil => cases h
  | cons kv l ih =>
    obtain ⟨k2, x⟩ := kv
    simp only [noBoolKvs, Bool.and_eq_true] at hn
    rcases List.mem_cons.1 h with h | h
    · cases h; exact hn.1
    · exact ih hn.2 h

theorem noBool_of_memList {xs : List J} {x : J} (hn : noBoolList xs = true) (h : x ∈ xs) : noBool x = true := by
  induction xs with
  | nil => cases h
  | cons y ys ih =>
    simp only [noBoolList, Bool.and_eq_true] at hn
    rcases List.mem_cons.1 h with h | h
    · subst h; exact hn.1
    · exact ih hn.2 h

/-- on values without booleans Python's `==` IS JSON equality. -/
theorem pyEq_eq_same (a : J) : noBool a = true → ∀ b, noBool b = true → pyEq a b = same a b := by
  refine fullInd_aux (P := fun a => noBool a = true → ∀ b, noBool b = true → pyEq a b = same a b) ?_ ?_ ?_ a
  · intro a h1 h2 ha b hb
    cases a with
    | arr xs => exact absurd rfl (h1 xs)
    | obj kvs => exact absurd rfl (h2 kvs)
    | bool x => simp [noBool] at ha
    | null => cases b <;> simp [pyEq, same]
    | str s => cases b <;> simp [pyEq, same]
    | num n =>
      cases b with
      | bool y => simp [noBool] at hb
      | _ => simp [pyEq, same]
  · intro xs ih ha b hb
    cases b with
    | arr ys =>
      simp only [pyEq, same]
      have hxs : noBoolList xs = true := by simpa [noBool] using ha
      have hys : noBoolList ys = true := by simpa [noBool] using hb
      clear ha hb
      induction xs generalizing ys with
      | nil => cases ys <;> simp [pyEqList, sameList]
      | cons x xs ihl =>
        cases ys with
        | nil => simp [pyEqList, sameList]
        | cons y ys =>
          simp only [noBoolList, Bool.and_eq_true] at hxs hys
          simp only [pyEqList, sameList]
          rw [ih x List.mem_cons_self hxs.1 y hys.1,
              ihl (fun z hz => ih z (List.mem_cons_of_mem _ hz)) ys hxs.2 hys.2]
    | _ => simp [pyEq, same]
  · intro kvs ih ha b hb
    cases b with
    | obj kb =>
      simp only [pyEq, same]
      have hka : noBoolKvs kvs = true := by simpa [noBool] using ha
      have hkb : noBoolKvs kb = true := by simpa [noBool] using hb
      congr 1
      clear ha hb
      induction kvs with
      | nil => simp [pyEqSub, sameSub]
      | cons kv rest ihl =>
        obtain ⟨k, x⟩ := kv
        simp only [noBoolKvs, Bool.and_eq_true] at hka
        simp only [pyEqSub, sameSub]
        rw [ihl (fun k' x' hm => ih k' x' (List.mem_cons_of_mem _ hm)) hka.2]
        cases hl : lookup k kb with
        | none => rfl
        | some y => simp only []; rw [ih k x List.mem_cons_self hka.1 y (noBool_of_lookup hkb hl)]
    | _ => simp [pyEq, same]

/-- JSON-equal values are Python-equal (Python's `==` is coarser). -/
theorem pyEq_of_same (a : J) : ∀ b, same a b = true → pyEq a b = true := by
  refine fullInd_aux (P := fun a => ∀ b, same a b = true → pyEq a b = true) ?_ ?_ ?_ a
  · intro a h1 h2 b h
    cases a with
    | arr xs => exact absurd rfl (h1 xs)
    | obj kvs => exact absurd rfl (h2 kvs)
    | null => cases b <;> simp_all [pyEq, same]
    | bool x => cases b <;> simp_all [pyEq, same]
    | num n => cases b <;> simp_all [pyEq, same]
    | str s => cases b <;> simp_all [pyEq, same]
  · intro xs ih b h
    cases b with
    | arr ys =>
      simp only [same] at h
      simp only [pyEq]
      induction xs generalizing ys with
      | nil => cases ys <;> simp_all [pyEqList, sameList]
      | cons x xs ihl =>
        cases ys with
        | nil => simp [sameList] at h
        | cons y ys =>
          simp only [sameList, Bool.and_eq_true] at h
          simp only [pyEqList, Bool.and_eq_true]
          exact ⟨ih x List.mem_cons_self y h.1, ihl (fun z hz => ih z (List.mem_cons_of_mem _ hz)) ys h.2⟩
    | _ => simp [same] at h
  · intro kvs ih b h
    cases b with
    | obj kb =>
      simp only [same, Bool.and_eq_true] at h
      simp only [pyEq, Bool.and_eq_true]
      refine ⟨h.1, ?_⟩
      have hs := h.2
      clear h
      induction kvs with
      | nil => simp [pyEqSub]
      | cons kv rest ihl =>
        obtain ⟨k, x⟩ := kv
        simp only [sameSub, Bool.and_eq_true] at hs
        simp only [pyEqSub, Bool.and_eq_true]
        refine ⟨?_, ihl (fun k' x' hm => ih k' x' (List.mem_cons_of_mem _ hm)) hs.2⟩
        cases hl : lookup k kb with
        | none => simp [hl] at hs
        | some y =>
          have h1 := hs.1
          simp only [hl] at h1
          exact ih k x List.mem_cons_self y h1
    | _ => simp [same] at h

theorem noBool_resolve? : ∀ (f : Path) (a v : J), noBool a = true → resolve? a f = some v → noBool v = true := by
  intro f
  induction f with
  | nil => intro a v ha h; simp [resolve?] at h; subst h; exact ha
  | cons k ks ih =>
    intro a v ha h
    cases a with
    | obj kvs =>
      simp only [resolve?] at h
      cases hl : lookup k kvs with
      | none => simp [hl] at h
      | some x =>
        simp only [hl] at h
        exact ih x v (noBool_of_lookup (by simpa [noBool] using ha) hl) h
    | _ => simp [resolve?] at h

/-- a non-empty diff means the two values are not JSON-equal. -/
theorem same_false_of_diff_ne {a b : J} {p : Path} (h : diff a b p ≠ []) : same a b = false := by
  cases hs : same a b with
  | false => rfl
  | true => exact absurd (diff_of_pyEq p hs) h

end Kopf.C04
