/-
  C19 — membership lemmas for `_disable_unsuitable_resources` / `Selector.select` (Model/C19_Resources).
-/
import Kopf.Model.C19_Resources
namespace Kopf.C19.Rsc

theorem mem_nonwatchable {rs : List Res} {r : Res} : r ∈ nonwatchable rs ↔ r ∈ rs ∧ r.watchable = false := by
  unfold nonwatchable Res.watchable
  rw [List.mem_filter]
  cases r.canWatch <;> cases r.canList <;> simp

theorem mem_readOnly {rs : List Res} {r : Res} :
    r ∈ readOnly rs ↔ r ∈ rs ∧ r.canPatch = false ∧ r.watchable = true := by
  unfold readOnly
  rw [List.mem_filter, List.mem_filter]
  constructor
  · rintro ⟨⟨h1, h2⟩, h3⟩
    refine ⟨h1, by simpa using h2, ?_⟩
    have h4 : r ∉ nonwatchable rs := by simpa using h3
    cases hw : r.watchable
    · exact absurd (mem_nonwatchable.mpr ⟨h1, hw⟩) h4
    · rfl
  · rintro ⟨h1, h2, h3⟩
    refine ⟨⟨h1, by simp [h2]⟩, ?_⟩
    have : r ∉ nonwatchable rs := fun h => by have := (mem_nonwatchable.mp h).2; rw [h3] at this; cases this
    simpa using this

/-- `Selector.select`, by membership: checked, and — for a specific selector — in the core group, or no checked
    resource of the lot is -/
theorem mem_select {s : Sel} {xs : List Res} {r : Res} :
    r ∈ s.select xs ↔ r ∈ xs ∧ s.check r = true ∧
      (s.specific = true → r.core = true ∨ ∀ r' ∈ xs, s.check r' = true → r'.core = false) := by
  unfold Sel.select
  cases hs : s.specific
  · simp [List.mem_filter]
  · simp only [if_true]
    by_cases he : ((xs.filter s.check).filter (·.core)).isEmpty = true
    · rw [if_pos he]
      have hnone : ∀ r' ∈ xs, s.check r' = true → r'.core = false := by
        intro r' h1 h2
        cases hc : r'.core
        · rfl
        · have hm : r' ∈ (xs.filter s.check).filter (·.core) := by simp [List.mem_filter, h1, h2, hc]
          rw [List.isEmpty_iff] at he
          rw [he] at hm; cases hm
      simp only [List.mem_filter]
      constructor
      · rintro ⟨h1, h2⟩; exact ⟨h1, h2, fun _ => Or.inr hnone⟩
      · rintro ⟨h1, h2, _⟩; exact ⟨h1, h2⟩
    · rw [if_neg he]
      have hsome : ∃ r' ∈ xs, s.check r' = true ∧ r'.core = true := by
        cases hl : (xs.filter s.check).filter (·.core) with
        | nil => rw [hl] at he; exact absurd rfl he
        | cons y ys =>
            have hm : y ∈ (xs.filter s.check).filter (·.core) := by rw [hl]; simp
            simp only [List.mem_filter] at hm
            exact ⟨y, hm.1.1, hm.1.2, hm.2⟩
      simp only [List.mem_filter]
      constructor
      · rintro ⟨⟨h1, h2⟩, h3⟩; exact ⟨h1, h2, fun _ => Or.inl h3⟩
      · rintro ⟨h1, h2, h3⟩
        refine ⟨⟨h1, h2⟩, ?_⟩
        rcases h3 trivial with h | h
        · exact h
        · obtain ⟨r', g1, g2, g3⟩ := hsome
          have := h r' g1 g2; rw [g3] at this; cases this

theorem mem_needPatch {rs : List Res} {sels : List Sel} {r : Res} :
    r ∈ needPatch rs sels ↔ ∃ s ∈ sels, r ∈ s.select (readOnly rs) := by
  unfold needPatch
  simp [List.mem_flatMap]

theorem mem_disableUnsuitable {rs : List Res} {sels : List Sel} {r : Res} :
    r ∈ disableUnsuitable rs sels ↔ r ∈ rs ∧ r.watchable = true ∧ ∀ s ∈ sels, r ∉ s.select (readOnly rs) := by
  unfold disableUnsuitable
  rw [List.mem_filter, List.mem_filter]
  constructor
  · rintro ⟨⟨h1, h2⟩, h3⟩
    have h2' : r ∉ nonwatchable rs := by simpa using h2
    have h3' : r ∉ needPatch rs sels := by simpa using h3
    refine ⟨h1, ?_, fun s hs hm => h3' (mem_needPatch.mpr ⟨s, hs, hm⟩)⟩
    cases hw : r.watchable
    · exact absurd (mem_nonwatchable.mpr ⟨h1, hw⟩) h2'
    · rfl
  · rintro ⟨h1, h2, h3⟩
    have g2 : r ∉ nonwatchable rs := fun h => by have := (mem_nonwatchable.mp h).2; rw [h2] at this; cases this
    have g3 : r ∉ needPatch rs sels := fun h => by
      obtain ⟨s, hs, hm⟩ := mem_needPatch.mp h
      exact h3 s hs hm
    exact ⟨⟨h1, by simpa using g2⟩, by simpa using g3⟩

theorem mem_patchedSelectors {p : PatchKinds} {hs : List Handler} {s : Sel} :
    s ∈ patchedSelectors p hs ↔ ∃ h ∈ hs, p.has h.kind = true ∧ h.sel = s := by
  unfold patchedSelectors
  simp [List.mem_map, List.mem_filter, and_assoc]

/-- without a read-only core resource in the lot, `select` over the read-only resources is pointwise -/
theorem mem_select_readOnly_of_noCore {rs : List Res} (hn : NoCoreReadOnly rs) {s : Sel} {r : Res} :
    r ∈ s.select (readOnly rs) ↔ r ∈ readOnly rs ∧ s.check r = true := by
  rw [mem_select]
  constructor
  · rintro ⟨h1, h2, _⟩; exact ⟨h1, h2⟩
  · rintro ⟨h1, h2⟩
    refine ⟨h1, h2, fun _ => Or.inr ?_⟩
    intro r' hr' _
    obtain ⟨g1, g2, g3⟩ := mem_readOnly.mp hr'
    cases hc : r'.core
    · rfl
    · have := hn r' g1 hc g3; rw [g2] at this; cases this

end Kopf.C19.Rsc
