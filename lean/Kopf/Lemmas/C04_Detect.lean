/-
  C04 — labels and ordinary annotations of the body are in the essence, exactly; a change at any
  path of two essences that is not `≈` makes their diff non-empty.
-/
import Kopf.Lemmas.C04_MetaChain
set_option linter.unusedSimpArgs false
namespace Kopf.C04
open Kopf Kopf.J

/-- if the values at some path differ (not `≈`), the whole-object diff is non-empty. -/
theorem change_detected_at {e e' : J} (p : Path) (hw : wf e = true) (hw' : wf e' = true)
    (hne : ¬ same (dropNulls (resolveD e p)) (dropNulls (resolveD e' p)) = true) : diff e e' [] ≠ [] := by
  intro hnil
  have hr := reduce_diff p e e' hw hw'
  rw [hnil, reduce_nil] at hr
  have hwr : ∀ (q : Path) (a : J), wf a = true → wf (resolveD a q) = true := by
    intro q
    induction q with
    | nil => intro a h; simpa [resolveD_nil] using h
    | cons k q ih =>
      intro a h
      cases a with
      | obj kvs =>
        rw [resolveD_obj_cons]
        cases hl : lookup k kvs with
        | none => rfl
        | some x => exact ih x (wf_of_lookup (by simpa [wf] using h) hl)
      | _ => rfl
  exact hne ((diff_nil_iff _ _ [] (hwr p e hw) (hwr p e' hw')).1 hr.symm)

theorem resolveD_top (le : Kvs) (k : String) : resolveD (.obj le) [k] = (lookup k le).getD .null := by
  rw [resolveD_obj_cons]
  cases lookup k le <;> simp [resolveD_nil]

theorem match_some_id (o : Option J) : (match o with | some v => some v | none => none) = o := by
  cases o <;> rfl

def labelIn (L : Option J) (lk : String) : Option J :=
  match L with
  | some (.obj lb) => lookup lk lb
  | _ => none

def annIn (A : Option Kvs) (ak : String) : Option J :=
  match A with
  | some a => lookup ak a
  | none => none

theorem resolve_label {le : Kvs} {L : Option J} {A : Option Kvs} (h : lookup "metadata" le = N L A) (lk : String) :
    resolve? (.obj le) ["metadata", "labels", lk] = labelIn L lk := by
  simp only [resolve?, h]
  unfold N labelIn
  cases L with
  | none => cases A with
    | none => simp [mk, Option.filter]
    | some a => by_cases ha : a.isEmpty = true <;> simp [mk, Option.filter, ha, resolve?, lookup_cons] <;> (try (split <;> simp_all))
  | some lv =>
    by_cases hl : lv.truthy = true
    · cases A with
      | none => cases lv <;> simp [mk, Option.filter, hl, resolve?, lookup_cons] <;> (try (split <;> simp_all))
      | some a => by_cases ha : a.isEmpty = true <;> cases lv <;> simp [mk, Option.filter, hl, ha, resolve?, lookup_cons] <;> (try (split <;> simp_all))
    · have hnone : (match lv with | .obj lb => lookup lk lb | _ => none) = none := by
        cases lv with
        | obj lb =>
          have : lb = [] := by
            cases lb with
            | nil => rfl
            | cons x xs => simp [truthy] at hl
          subst this; rfl
        | _ => rfl
      cases A with
      | none =>
        simp only [mk, Option.filter, hl]
        cases lv <;> simp_all
      | some a =>
        by_cases ha : a.isEmpty = true
        · simp only [mk, Option.filter, hl, ha]
          cases lv <;> simp_all
        · simp only [mk, Option.filter, hl, ha]
          cases lv <;> simp_all [resolve?, lookup_cons] <;> (try (split <;> simp_all))

theorem resolve_ann {le : Kvs} {L : Option J} {A : Option Kvs} (h : lookup "metadata" le = N L A) (ak : String) :
    resolve? (.obj le) ["metadata", "annotations", ak] = annIn A ak := by
  simp only [resolve?, h]
  unfold N annIn
  cases A with
  | none => cases L with
    | none => simp [mk, Option.filter]
    | some lv => by_cases hl : lv.truthy = true <;> simp [mk, Option.filter, hl, resolve?, lookup_cons] <;> (try (split <;> simp_all))
  | some a =>
    by_cases ha : a.isEmpty = true
    · have : a = [] := List.isEmpty_iff.1 ha
      subst this
      cases L with
      | none => simp [mk, Option.filter]
      | some lv => by_cases hl : lv.truthy = true <;> simp [mk, Option.filter, hl, resolve?, lookup_cons] <;> (try (split <;> simp_all))
    · cases L with
      | none => simp [mk, Option.filter, ha, resolve?, lookup_cons] <;> (try (split <;> simp_all))
      | some lv => by_cases hl : lv.truthy = true <;> simp [mk, Option.filter, hl, ha, resolve?, lookup_cons] <;> (try (split <;> simp_all))

theorem ordinary_empty_key (a : Kvs) : Ordinary "" a := by
  refine ⟨by decide, ?_⟩
  intro p hp
  simp [pfx, splitSlash] at hp

theorem notOwn_empty_key (cfg : Cfg) : NotOwn cfg "" := by
  intro p _
  simp [underPrefix]

/-- **labels of the body are in the essence, exactly.** -/
theorem essence_label {cfg : Cfg} {extra : List (List String)} {kvs : Kvs} {e : J} (lk : String)
    (hplain : MetaPlain cfg extra) (h : essence cfg extra (.obj kvs) = .ok e) :
    resolve? e ["metadata", "labels", lk] = labelOf kvs lk := by
  obtain ⟨le, A', rfl, hl, _⟩ := essence_meta_keeps (k := "") hplain (fun a _ => ordinary_empty_key a)
    (notOwn_empty_key cfg) h
  rw [resolve_label hl lk]
  unfold labelIn labelOf
  cases bodyLabels kvs with
  | none => rfl
  | some v => cases v <;> rfl

/-- **ordinary, not-own annotations of the body are in the essence, exactly.** -/
theorem essence_annotation {cfg : Cfg} {extra : List (List String)} {kvs : Kvs} {e : J} (ak : String)
    (hplain : MetaPlain cfg extra) (hord : ∀ a0, bodyAnn kvs = some a0 → Ordinary ak a0) (hown : NotOwn cfg ak)
    (h : essence cfg extra (.obj kvs) = .ok e) :
    resolve? e ["metadata", "annotations", ak] = annOf kvs ak := by
  obtain ⟨le, A', rfl, hl, hk⟩ := essence_meta_keeps hplain hord hown h
  rw [resolve_ann hl ak]
  unfold annOf annIn
  cases hb : bodyAnn kvs with
  | none =>
    rw [hb] at hk
    cases A' with
    | none => rfl
    | some a => exact absurd hk id
  | some a0 =>
    rw [hb] at hk
    cases A' with
    | none => exact absurd hk id
    | some a => exact hk.1

end Kopf.C04
