/-
  C01 — `Pre`: `processed` is `started` minus at most the one event in flight (every reachable state),
  and the joint lift of `Ord` and `Pre` to all label lists.
-/
import Kopf.Lemmas.C01_Ord
namespace Kopf.C01

def Pre (s : State) : Prop :=
  ∀ k, s.started k = s.processed k ∨ ∃ e, s.started k = s.processed k ++ [e]

theorem pre_step {s s' : State} {l : Label} (hi : Inv s) (hp : Pre s) (h : step s l = some s') :
    Pre s' := by
  intro k
  have ih := hp k
  have h0 := hi.busy_started
  have hidle : ∀ w, s.pc w = some .waiting → s.closed = false → s.started w.key = s.processed w.key := by
    intro w hw hc
    rcases hi.started_spec hc w.key with h1 | ⟨w', e, hk, hp, _⟩
    · exact h1
    · have := hi.uniq w w' _ _ hw hp rfl rfl hk.symm
      subst this; rw [hw] at hp; cases hp
  cases l <;> step_cases h <;> (try dsimp only)
  all_goals first
    | exact ih
    | grind [upd_apply]

theorem ord_pre_run {s s' : State} {ls : List Label} (hi : Inv s) (ho : Ord s) (hp : Pre s)
    (h : run s ls = some s') : Ord s' ∧ Pre s' := by
  induction ls generalizing s with
  | nil => simp [run, runWith] at h; exact h ▸ ⟨ho, hp⟩
  | cons l ls ih =>
    simp only [run, runWith] at h
    split at h
    · rename_i s1 hs1
      exact ih (inv_step hi hs1) (ord_step ho hs1) (pre_step hi hp hs1) h
    · cases h

theorem ord_pre_reach {lim : Option Nat} {ls : List Label} {s : State} (h : Reach lim ls s) :
    Ord s ∧ Pre s := by
  refine ord_pre_run (inv_init lim) ?_ ?_ h
  · intro k; simp [init, backlogEvs, handEvs]
  · intro k; left; rfl

end Kopf.C01
