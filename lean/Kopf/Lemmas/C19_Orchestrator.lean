/-
  C19 — the orchestrator protocol: the invariant of the code as it is (the pass runs under the lock),
  with watcher tasks dying on their own at any time.
-/
import Kopf.Model.C19_Orchestrator
import Kopf.Lemmas.C19_Ensemble
namespace Kopf.C19.Orch
open Kopf.C19.Ens

theorem runEvs_append' (e : Ensemble) (a b : List Ev) : runEvs e (a ++ b) = runEvs (runEvs e a) b := by
  induction a generalizing e with
  | nil => rfl
  | cons x xs ih => cases x <;> exact ih _

theorem runEvs_dies (e : Ensemble) (ks : List Key) : runEvs e (ks.map Ev.die) = killMany e ks := by
  unfold killMany
  induction ks generalizing e with
  | nil => rfl
  | cons k ks ih => exact ih _

theorem killMany_keys (e : Ensemble) (ks : List Key) : (killMany e ks).keys = e.keys := by
  unfold killMany
  induction ks generalizing e with
  | nil => rfl
  | cons k ks ih => rw [List.foldl_cons, ih, kill_keys]

theorem killMany_append (e : Ensemble) (ks : List Key) (k : Key) :
    killMany e (ks ++ [k]) = kill (killMany e ks) k := by
  simp [killMany, List.foldl_append]

theorem kill_of_find {e : Ensemble} {k : Key} {t : Key × Nat}
    (h : e.watchers.find? (fun t => t.1 == k) = some t) : kill e k = { e with dead := t.2 :: e.dead } := by
  simp [kill, h]

theorem find_of_mem_keys {e : Ensemble} {k : Key} (h : k ∈ e.keys) :
    ∃ t, e.watchers.find? (fun t => t.1 == k) = some t := by
  obtain ⟨i, hi⟩ := mem_keys.mp h
  cases hf : e.watchers.find? (fun t => t.1 == k) with
  | none => have := List.find?_eq_none.mp hf (k, i) hi; simp at this
  | some t => exact ⟨t, rfl⟩

/-- a death and a spawn commute, as long as the dying task exists before the spawn -/
theorem spawnOne_kill {e : Ensemble} {k : Key} (hk : k ∈ e.keys) (p : Res × Ns) :
    spawnOne (kill e k) p = kill (spawnOne e p) k := by
  obtain ⟨t, ht⟩ := find_of_mem_keys hk
  by_cases h' : dkey p.1 p.2 ∈ e.keys
  · have h'' : dkey p.1 p.2 ∈ (kill e k).keys := by rw [kill_keys]; exact h'
    rw [spawnOne_pos h', spawnOne_pos h'']
  · have h'' : dkey p.1 p.2 ∉ (kill e k).keys := by rw [kill_keys]; exact h'
    rw [spawnOne_neg h', spawnOne_neg h'', kill_of_find ht]
    have hf : (e.watchers ++ [(dkey p.1 p.2, e.next)]).find? (fun t => t.1 == k) = some t := by
      rw [List.find?_append, ht]; rfl
    rw [kill_of_find (e := { e with watchers := e.watchers ++ [(dkey p.1 p.2, e.next)], next := e.next + 1 }) hf]

theorem spawnOne_keys_mono {e : Ensemble} {k : Key} (hk : k ∈ e.keys) (p : Res × Ns) : k ∈ (spawnOne e p).keys :=
  spawnOne_keys.mpr (Or.inl hk)

theorem spawn_kill {ps : List (Res × Ns)} {e : Ensemble} {k : Key} (hk : k ∈ e.keys) :
    spawn (kill e k) ps = kill (spawn e ps) k := by
  unfold spawn
  induction ps generalizing e with
  | nil => rfl
  | cons p ps ih =>
      rw [List.foldl_cons, List.foldl_cons, spawnOne_kill hk, ih (spawnOne_keys_mono hk p)]

theorem spawn_killMany {ks : List Key} {ps : List (Res × Ns)} {e : Ensemble} (hk : ∀ k ∈ ks, k ∈ e.keys) :
    spawn (killMany e ks) ps = killMany (spawn e ps) ks := by
  induction ks generalizing e with
  | nil => rfl
  | cons k ks ih =>
      have h1 : killMany e (k :: ks) = killMany (kill e k) ks := rfl
      have h2 : killMany (spawn e ps) (k :: ks) = killMany (kill (spawn e ps) k) ks := rfl
      rw [h1, h2, ih (e := kill e k) (fun x hx => by rw [kill_keys]; exact hk x (List.mem_cons_of_mem _ hx)),
        spawn_kill (hk k List.mem_cons_self)]

/-- What holds at each control point when the pass runs under the lock. -/
def PcInv (s : State) : Prop :=
  match s.pc with
  | .waiting => s.ens = runEvs Ens.empty s.hist ∧ s.pend = [] ∧
      ((s.revs = [] ∧ s.hist = []) ∨ ∃ pre, s.hist = pre ++ [.pass s.ins] ++ s.diedSince.map Ev.die)
  | .notified => s.ens = runEvs Ens.empty s.hist ∧ s.pend = [] ∧ s.ins ∈ s.revs
  | .stopping | .spawning =>
      s.ens = killMany (terminate (runEvs Ens.empty s.hist) s.ins) s.pend ∧
      (∀ k ∈ s.pend, k ∈ (terminate (runEvs Ens.empty s.hist) s.ins).keys) ∧ s.ins ∈ s.revs

structure OInv (s : State) : Prop where
  locked : s.lockedPass = true
  histIn : ∀ i ∈ s.hist.flatMap Ev.insights, i ∈ s.revs
  pcInv : PcInv s

theorem oinv_init : OInv (init true) :=
  ⟨rfl, by simp [init], by simp [PcInv, init, runEvs]⟩

theorem flatMap_insights_dies (ks : List Key) : (ks.map Ev.die).flatMap Ev.insights = [] := by
  induction ks with
  | nil => rfl
  | cons k ks ih => simp [List.flatMap_cons, Ev.insights, ih]

theorem oinv_step {s s' : State} (h : OInv s) {l : Label} (hs : step s l = some s') : OInv s' := by
  obtain ⟨hl, hh, hp⟩ := h
  cases l with
  | revise ins' =>
      simp only [step] at hs
      cases hpc : s.pc with
      | waiting =>
          simp [lockFree, hpc] at hs
          subst hs
          refine ⟨hl, fun i hi => List.mem_cons_of_mem _ (hh i hi), ?_⟩
          simp only [PcInv, hpc] at hp ⊢
          exact ⟨hp.1, hp.2.1, List.mem_cons_self⟩
      | notified =>
          simp [lockFree, hpc] at hs
          subst hs
          refine ⟨hl, fun i hi => List.mem_cons_of_mem _ (hh i hi), ?_⟩
          simp only [PcInv, hpc] at hp ⊢
          exact ⟨hp.1, hp.2.1, List.mem_cons_self⟩
      | stopping => simp [lockFree, hpc, hl] at hs
      | spawning => simp [lockFree, hpc, hl] at hs
  | acquire =>
      simp only [step] at hs
      cases hpc : s.pc <;> simp [hpc] at hs
      subst hs
      refine ⟨hl, hh, ?_⟩
      simp only [PcInv, hpc] at hp ⊢
      obtain ⟨h1, h2, h3⟩ := hp
      refine ⟨by rw [h2, h1]; rfl, ?_, h3⟩
      rw [h2]; intro k hk; cases hk
  | termDone =>
      simp only [step] at hs
      cases hpc : s.pc <;> simp [hpc] at hs
      subst hs
      refine ⟨hl, hh, ?_⟩
      simp only [PcInv, hpc] at hp ⊢
      exact hp
  | spawnAll =>
      simp only [step] at hs
      cases hpc : s.pc <;> simp [hpc] at hs
      subst hs
      simp only [PcInv, hpc] at hp
      obtain ⟨h1, h2, h3⟩ := hp
      refine ⟨hl, ?_, ?_⟩
      · intro i hi
        simp only [List.flatMap_append, flatMap_insights_dies, List.append_nil, List.flatMap_cons,
          List.flatMap_nil, Ev.insights] at hi
        rcases List.mem_append.mp hi with hi | hi
        · exact hh i hi
        · simp at hi; subst hi; exact h3
      · simp only [PcInv]
        refine ⟨?_, trivial, Or.inr ⟨s.hist, by simp⟩⟩
        have : s.hist ++ Ev.pass s.ins :: List.map Ev.die s.pend = (s.hist ++ [Ev.pass s.ins]) ++ List.map Ev.die s.pend := by simp
        rw [h1, spawn_killMany h2, this, runEvs_append', runEvs_append', runEvs_dies]
        rfl
  | die k =>
      simp only [step] at hs
      by_cases hk : s.ens.keys.contains k = true
      · have hk' : k ∈ s.ens.keys := by simpa using hk
        simp only [hk, if_true] at hs
        cases hpc : s.pc with
        | waiting =>
            simp [hpc] at hs; subst hs
            refine ⟨hl, ?_, ?_⟩
            · intro i hi
              simp only [List.flatMap_append, List.flatMap_cons, List.flatMap_nil, Ev.insights, List.append_nil] at hi
              exact hh i hi
            · simp only [PcInv, hpc] at hp ⊢
              obtain ⟨h1, h2, h3⟩ := hp
              refine ⟨by rw [runEvs_append', ← h1]; rfl, h2, ?_⟩
              rcases h3 with ⟨hr, hh0⟩ | ⟨pre, hpre⟩
              · exfalso
                rw [h1, hh0] at hk'
                simp [runEvs, Ens.empty, Ensemble.keys] at hk'
              · right
                exact ⟨pre, by rw [hpre]; simp [List.append_assoc]⟩
        | notified =>
            simp [hpc] at hs; subst hs
            refine ⟨hl, ?_, ?_⟩
            · intro i hi
              simp only [List.flatMap_append, List.flatMap_cons, List.flatMap_nil, Ev.insights, List.append_nil] at hi
              exact hh i hi
            · simp only [PcInv, hpc] at hp ⊢
              obtain ⟨h1, h2, h3⟩ := hp
              exact ⟨by rw [runEvs_append', ← h1]; rfl, h2, h3⟩
        | stopping =>
            simp [hpc] at hs; subst hs
            refine ⟨hl, hh, ?_⟩
            simp only [PcInv, hpc] at hp ⊢
            obtain ⟨h1, h2, h3⟩ := hp
            refine ⟨by rw [killMany_append, ← h1], ?_, h3⟩
            intro x hx
            rcases List.mem_append.mp hx with hx | hx
            · exact h2 x hx
            · simp at hx; subst hx
              rw [h1, killMany_keys] at hk'; exact hk'
        | spawning =>
            simp [hpc] at hs; subst hs
            refine ⟨hl, hh, ?_⟩
            simp only [PcInv, hpc] at hp ⊢
            obtain ⟨h1, h2, h3⟩ := hp
            refine ⟨by rw [killMany_append, ← h1], ?_, h3⟩
            intro x hx
            rcases List.mem_append.mp hx with hx | hx
            · exact h2 x hx
            · simp at hx; subst hx
              rw [h1, killMany_keys] at hk'; exact hk'
      · have hk2 : k ∉ s.ens.keys := by simpa using hk
        simp [hk2] at hs

theorem oinv_run {ls : List Label} {s s' : State} (h : OInv s) (hr : run s ls = some s') : OInv s' := by
  induction ls generalizing s with
  | nil => simp [run] at hr; subst hr; exact h
  | cons l ls ih =>
      simp only [run] at hr
      cases hs : step s l with
      | none => simp [hs] at hr
      | some s1 =>
          simp only [hs] at hr
          exact ih (oinv_step h hs) hr

/-- **mechanism lemma**: with the pass under the lock, an observer can revise the insights only while the
    orchestrator is inside `wait()`, and afterwards the orchestrator is notified. (By construction of the
    LTS: `revise` needs the lock; the link to the code is the AST tie `pass_under_lock` and the fact that
    every writer of the insights takes `insights.revised`.) -/
theorem revise_wakes (ls : List Label) (s s' : State) (ins' : Insights)
    (hr : run (init true) ls = some s) (hs : step s (.revise ins') = some s') :
    (s.pc = .waiting ∨ s.pc = .notified) ∧ s'.pc = .notified ∧ s'.ins = ins' := by
  have hl := (oinv_run oinv_init hr).locked
  simp only [step] at hs
  cases hpc : s.pc <;> simp [lockFree, hpc, hl] at hs <;> subst hs <;> simp [hpc]

end Kopf.C19.Orch
