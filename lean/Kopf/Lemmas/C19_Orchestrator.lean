/-
  C19 — the orchestrator protocol: the invariant of the code as it is (the pass runs under the lock).
-/
import Kopf.Model.C19_Orchestrator
import Kopf.Lemmas.C19_Ensemble
namespace Kopf.C19.Orch
open Kopf.C19.Ens

/-- What holds at each control point when the pass runs under the lock. -/
def PcInv (s : State) : Prop :=
  match s.pc with
  | .waiting => s.ens = runHist Ens.empty s.hist ∧ ((s.revs = [] ∧ s.hist = []) ∨ ∃ pre, s.hist = pre ++ [s.ins])
  | .notified => s.ens = runHist Ens.empty s.hist ∧ s.ins ∈ s.revs
  | .stopping snap => snap = s.ins ∧ s.ens = runHist Ens.empty s.hist ∧ s.ins ∈ s.revs
  | .spawning => s.ens = terminate (runHist Ens.empty s.hist) s.ins ∧ s.ins ∈ s.revs

structure OInv (s : State) : Prop where
  locked : s.lockedPass = true
  histIn : ∀ i ∈ s.hist, i ∈ s.revs
  pcInv : PcInv s

theorem oinv_init : OInv (init true) :=
  ⟨rfl, by simp [init], by simp [PcInv, init, runHist]⟩

theorem oinv_step {s s' : State} (h : OInv s) {l : Label} (hs : step s l = some s') : OInv s' := by
  obtain ⟨hl, hh, hp⟩ := h
  cases l with
  | revise ins' =>
      simp only [step] at hs
      cases hpc : s.pc with
      | waiting =>
          simp [lockFree, hpc] at hs
          subst hs
          refine ⟨hl, fun i hi => List.mem_cons_of_mem _ (hh i hi), ?_⟩
          simp only [PcInv, hpc] at hp ⊢
          exact ⟨hp.1, List.mem_cons_self⟩
      | notified =>
          simp [lockFree, hpc] at hs
          subst hs
          refine ⟨hl, fun i hi => List.mem_cons_of_mem _ (hh i hi), ?_⟩
          simp only [PcInv, hpc] at hp ⊢
          exact ⟨hp.1, List.mem_cons_self⟩
      | stopping snap => simp [lockFree, hpc, hl] at hs
      | spawning => simp [lockFree, hpc, hl] at hs
  | acquire =>
      simp only [step] at hs
      cases hpc : s.pc <;> simp [hpc] at hs
      subst hs
      refine ⟨hl, hh, ?_⟩
      simp only [PcInv, hpc] at hp ⊢
      exact ⟨trivial, hp.1, hp.2⟩
  | termDone =>
      simp only [step] at hs
      cases hpc : s.pc <;> simp [hpc] at hs
      subst hs
      refine ⟨hl, hh, ?_⟩
      simp only [PcInv, hpc] at hp ⊢
      obtain ⟨h1, h2, h3⟩ := hp
      exact ⟨by rw [h1, h2], h3⟩
  | spawnAll =>
      simp only [step] at hs
      cases hpc : s.pc <;> simp [hpc] at hs
      subst hs
      simp only [PcInv, hpc] at hp
      obtain ⟨h1, h2⟩ := hp
      refine ⟨hl, ?_, ?_⟩
      · intro i hi
        rcases List.mem_append.mp hi with hi | hi
        · exact hh i hi
        · simp at hi; subst hi; exact h2
      · simp only [PcInv]
        refine ⟨?_, Or.inr ⟨s.hist, rfl⟩⟩
        rw [runHist_append, h1]
        rfl

theorem oinv_run {ls : List Label} {s s' : State} (h : OInv s) (hr : run s ls = some s') : OInv s' := by
  induction ls generalizing s with
  | nil => simp [run] at hr; subst hr; exact h
  | cons l ls ih =>
      simp only [run] at hr
      cases hs : step s l with
      | none => simp [hs] at hr
      | some s1 =>
          simp only [hs] at hr
          exact ih (oinv_step h hs) hr

end Kopf.C19.Orch
