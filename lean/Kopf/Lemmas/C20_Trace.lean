/-
  C20 helper lemmas, part 8: from history (ghost) variables back to label lists, and the
  `quiet` predicate used by the lingering witness.
-/
import Kopf.Lemmas.C20_Returns
namespace Kopf.C20

theorem startupDone_step {cfg : Cfg} {s s' : State} {l : Label} (h : step cfg s l = some s')
    (hd : s'.startupDone = true) : s.startupDone = true ∨ l = .scStartupEnd .none := by
  cases l <;> simp only [step] at h
  all_goals (repeat' (split at h))
  all_goals (first | (cases h; done) | skip)
  all_goals (cases h)
  all_goals (first | exact Or.inl hd | exact Or.inr rfl)

theorem started_step {cfg : Cfg} {s s' : State} {l : Label} (h : step cfg s l = some s')
    (hd : s'.started = true) : s.started = true ∨ l = .setStarted := by
  cases l <;> simp only [step] at h
  all_goals (repeat' (split at h))
  all_goals (first | (cases h; done) | skip)
  all_goals (cases h)
  all_goals (first | exact Or.inl hd | exact Or.inr rfl)

theorem startupDone_run {cfg : Cfg} : ∀ (ls : List Label) (s0 s : State), run cfg s0 ls = some s →
    s.startupDone = true → s0.startupDone = true ∨ Label.scStartupEnd .none ∈ ls
  | [], s0, s, h, hd => by simp [run] at h; subst h; exact Or.inl hd
  | l :: ls, s0, s, h, hd => by
    simp only [run] at h
    cases h1 : step cfg s0 l with
    | none => simp [h1] at h
    | some s1 =>
      simp only [h1] at h
      rcases startupDone_run ls s1 s h hd with h2 | h2
      · rcases startupDone_step h1 h2 with h3 | h3
        · exact Or.inl h3
        · exact Or.inr (by simp [h3])
      · exact Or.inr (List.mem_cons_of_mem _ h2)

theorem started_run {cfg : Cfg} : ∀ (ls : List Label) (s0 s : State), run cfg s0 ls = some s →
    s.started = true → s0.started = true ∨ Label.setStarted ∈ ls
  | [], s0, s, h, hd => by simp [run] at h; subst h; exact Or.inl hd
  | l :: ls, s0, s, h, hd => by
    simp only [run] at h
    cases h1 : step cfg s0 l with
    | none => simp [h1] at h
    | some s1 =>
      simp only [h1] at h
      rcases started_run ls s1 s h hd with h2 | h2
      · rcases started_step h1 h2 with h3 | h3
        · exact Or.inl h3
        · exact Or.inr (by simp [h3])
      · exact Or.inr (List.mem_cons_of_mem _ h2)

/-- An activity label is enabled only behind the `started_flag`. -/
theorem activity_needs_started {cfg : Cfg} {s s' : State} {l : Label} (hA : InvA s) (hl : l.isActivity = true)
    (h : step cfg s l = some s') : s.started = true := by
  cases hs : s.started with
  | true => rfl
  | false =>
    obtain ⟨h1, h2, h3, h4, _, _⟩ := hA.notStarted hs
    cases l <;> simp [Label.isActivity] at hl
    case withdraw i ok =>
      simp only [step] at h
      split at h
      · rename_i hg; omega
      · cases h
    case act a =>
      simp only [step] at h
      split at h
      · cases a with
        | task t =>
          cases t with
          | root r =>
            simp only at h
            split at h
            · rename_i hg; have := h1 r hg.1; rw [this] at hg; cases hg.2
            · cases h
          | sub i =>
            simp only at h
            split at h
            · rename_i hg; omega
            · cases h
        | worker w =>
          simp only at h
          split at h
          · rename_i hg; omega
          · cases h
        | orphan =>
          simp only at h
          split at h
          · rename_i hg; omega
          · cases h
      · cases h

/-! ### a state in which nothing is timed: `delay` is limited by `urgent` only -/

def quiet (s : State) : Bool :=
  Root.all.all (fun r => !(s.st (.root r)).isStopping)
  && (List.range s.nSubs).all (fun i => !(s.st (.sub i)).isStopping)
  && (match s.rt with | .hungWait _ => false | _ => true)
  && (match s.sc with | .cleanup _ => false | _ => true)

theorem dlAllows_of_not_stopping {now n : Nat} {t : TS} (h : t.isStopping = false) : dlAllows now n t = true := by
  cases t <;> simp_all [dlAllows]

theorem quiet_deadlinesAllow {cfg : Cfg} {s : State} (h : quiet s = true) (n : Nat) :
    deadlinesAllow cfg s n = true := by
  unfold quiet at h
  simp only [Bool.and_eq_true, List.all_eq_true, Bool.not_eq_true'] at h
  obtain ⟨⟨⟨h1, h2⟩, h3⟩, h4⟩ := h
  unfold deadlinesAllow
  simp only [Bool.and_eq_true, List.all_eq_true]
  refine ⟨⟨⟨fun r hr => dlAllows_of_not_stopping (h1 r hr), fun i hi => dlAllows_of_not_stopping (h2 i hi)⟩, ?_⟩, ?_⟩
  · split <;> simp_all
  · split <;> simp_all

theorem quiet_delay {cfg : Cfg} {s : State} (hq : quiet s = true) (hu : urgent cfg s = false)
    (hne : s.rt ≠ .exited) (n : Nat) (hn : 0 < n) :
    stepC cfg s (.delay n) = some { s with now := s.now + n } := by
  have hc : coopDelay cfg s n = true := coopDelay_iff.mpr ⟨hu, quiet_deadlinesAllow hq n⟩
  simp only [stepC, hc, if_true, step]
  rw [if_pos ⟨hne, hn⟩]

/-- an observer's own stream failure (`stopping true`) can only end FAILED — a one-step reading of `rootEnd`,
    kept as a lemma (it was listed as a property theorem `stream_failure_stops_all_partial` before) -/
theorem observer_stream_failure_ends_failed {cfg : Cfg} {s s' : State} (r : Root) (hk : r.kind = .observer)
    (dl : Option Nat) (hs : s.st (.root r) = .stopping true dl) (how : TS)
    (h : step cfg s (.rootEnd r how) = some s') : how = .failed ∧ s'.st (.root r) = .failed ∧ s'.rootFailed = true := by
  simp only [step, hk] at h
  split at h
  · simp only [hs] at h
    split at h
    · split at h
      · rename_i hh
        cases h
        simp only [failTS] at hh
        subst hh
        exact ⟨rfl, by simp, by simp⟩
      · cases h
    · cases h
  · cases h

/-- while a root task has ended and `run_tasks` still waits, cooperative time cannot pass, and stopping the others is
    enabled — a reading of `urgent` (kept as a lemma; it was listed as `root_failure_no_lingering` before) -/
theorem root_ended_urgent {cfg : Cfg} {s : State} (r : Root) (he : (s.st (.root r)).ended = true)
    (hw : s.rt = .waiting) : (∀ n, coopDelay cfg s n = false) ∧ (step cfg s .rtStopRoots).isSome = true := by
  have hany : anyRootEnded s = true := (anyRootEnded_iff s).mpr ⟨r, he⟩
  refine ⟨?_, by simp [step, hw, hany]⟩
  intro n
  have hu : urgent cfg s = true := by unfold urgent rtUrgent; simp [hw, hany]
  simp [coopDelay, hu]

end Kopf.C20
