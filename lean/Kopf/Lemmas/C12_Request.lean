/-
  Helper lemmas for the C12 request-loop theorems (core Lean only).
-/
import Kopf.Model.C12_Request
namespace Kopf.C12

theorem slept_ge (d : Int) : d ≤ slept d := by
  unfold slept; split <;> omega

theorem slept_nonneg (d : Int) : 0 ≤ slept d := by
  unfold slept; split <;> omega

theorem effDelay_ge_backoff (ra : Option Int) (b : Int) : b ≤ effDelay false ra b := by
  unfold effDelay
  cases ra with
  | none => simp
  | some r => by_cases h : r > b <;> simp [h] <;> omega

theorem effDelay_ge_ra (enforce : Bool) (r b : Int) : r ≤ effDelay enforce (some r) b := by
  unfold effDelay
  cases enforce <;> by_cases h : r > b <;> simp [h] <;> omega

/-- The shape of one unfolding of `run` on a non-empty script. -/
theorem run_cons (bo : Backoffs) (enforce : Bool) (a : Att) (rest : List Att) (i : Nat) (t : Int) :
    run bo enforce (a :: rest) i t =
      match verdict a.fault with
      | .success => ⟨[t], [], .ok, t + a.lat⟩
      | .raise c => ⟨[t], [], .escalated c, t + a.lat⟩
      | .retry c ra =>
        match bo i with
        | none => ⟨[t], [], .escalated c, t + a.lat⟩
        | some b =>
          ⟨t :: (run bo enforce rest (i + 1) (t + a.lat + slept (effDelay enforce ra b))).times,
           effDelay enforce ra b :: (run bo enforce rest (i + 1) (t + a.lat + slept (effDelay enforce ra b))).waits,
           (run bo enforce rest (i + 1) (t + a.lat + slept (effDelay enforce ra b))).outcome,
           (run bo enforce rest (i + 1) (t + a.lat + slept (effDelay enforce ra b))).fin⟩ := by
  simp only [run]
  cases verdict a.fault with
  | success => rfl
  | raise c => rfl
  | retry c ra => cases bo i <;> rfl

/-- the first attempt always starts at `t` -/
theorem run_times_head (bo : Backoffs) (enforce : Bool) (script : List Att) (i : Nat) (t : Int) :
    ∃ tl, (run bo enforce script i t).times = t :: tl := by
  cases script with
  | nil => exact ⟨[], rfl⟩
  | cons a rest =>
    rw [run_cons]
    cases verdict a.fault with
    | success => exact ⟨[], rfl⟩
    | raise c => exact ⟨[], rfl⟩
    | retry c ra => cases bo i <;> exact ⟨_, rfl⟩

end Kopf.C12
