/-
  Helper lemmas for the C12 request-loop theorems (core Lean only).
-/
import Kopf.Model.C12_Request
namespace Kopf.C12

theorem slept_ge (d : Int) : d ≤ slept d := by
  unfold slept; split <;> omega

theorem slept_nonneg (d : Int) : 0 ≤ slept d := by
  unfold slept; split <;> omega

theorem effDelay_ge_backoff (ra : Option Int) (b : Int) : b ≤ effDelay false ra b := by
  unfold effDelay
  cases ra with
  | none => simp
  | some r => by_cases h : r > b <;> simp [h] <;> omega

theorem effDelay_ge_ra (enforce : Bool) (r b : Int) : r ≤ effDelay enforce (some r) b := by
  unfold effDelay
  cases enforce <;> by_cases h : r > b <;> simp [h] <;> omega

/-- The shape of one unfolding of `run` on a non-empty script. -/
theorem run_cons (bo : Backoffs) (enforce : Bool) (a : Att) (rest : List Att) (i : Nat) (t : Int) :
    run bo enforce (a :: rest) i t =
      match verdict a.fault with
      | .success => ⟨[t], [], .ok, t + a.lat⟩
      | .raise c => ⟨[t], [], .escalated c, t + a.lat⟩
      | .retry c ra =>
        match bo i with
        | none => ⟨[t], [], .escalated c, t + a.lat⟩
        | some b =>
          ⟨t :: (run bo enforce rest (i + 1) (t + a.lat + slept (effDelay enforce ra b))).times,
           effDelay enforce ra b :: (run bo enforce rest (i + 1) (t + a.lat + slept (effDelay enforce ra b))).waits,
           (run bo enforce rest (i + 1) (t + a.lat + slept (effDelay enforce ra b))).outcome,
           (run bo enforce rest (i + 1) (t + a.lat + slept (effDelay enforce ra b))).fin⟩ := by
  simp only [run]
  cases verdict a.fault with
  | success => rfl
  | raise c => rfl
  | retry c ra => cases bo i <;> rfl

/-- the first attempt always starts at `t` -/
theorem run_times_head (bo : Backoffs) (enforce : Bool) (script : List Att) (i : Nat) (t : Int) :
    ∃ tl, (run bo enforce script i t).times = t :: tl := by
  cases script with
  | nil => exact ⟨[], rfl⟩
  | cons a rest =>
    rw [run_cons]
    cases verdict a.fault with
    | success => exact ⟨[], rfl⟩
    | raise c => exact ⟨[], rfl⟩
    | retry c ra => cases bo i <;> exact ⟨_, rfl⟩

/-- The exact gap between the end of attempt `j` and the start of attempt `j+1`, whenever the
    latter exists: the loop slept `effDelay enforce ra b` for the `j`-th backoff `b` and the
    Retry-After `ra` of that attempt's verdict. -/
theorem gap_eq_from (bo : Backoffs) (enforce : Bool) (script : List Att) (i : Nat) (t : Int)
    (j : Nat) (tj tj' : Int) (a : Att)
    (h0 : (run bo enforce script i t).times[j]? = some tj)
    (h1 : (run bo enforce script i t).times[j + 1]? = some tj')
    (ha : script[j]? = some a) :
    ∃ b c ra, bo (i + j) = some b ∧ verdict a.fault = .retry c ra ∧
      tj' - (tj + a.lat) = slept (effDelay enforce ra b) := by
  induction script generalizing i t j with
  | nil => simp at ha
  | cons a0 rest ih =>
    rw [run_cons] at h0 h1
    cases hv : verdict a0.fault with
    | success => simp [hv] at h1
    | raise c => simp [hv] at h1
    | retry c ra =>
      cases hb : bo i with
      | none => simp [hv, hb] at h1
      | some b =>
        simp only [hv, hb] at h0 h1
        cases j with
        | zero =>
          simp at ha h0 h1
          obtain ⟨tl, htl⟩ := run_times_head bo enforce rest (i + 1) (t + a0.lat + slept (effDelay enforce ra b))
          rw [htl] at h1
          simp at h1
          subst ha h0
          exact ⟨b, c, ra, by simpa using hb, hv, by omega⟩
        | succ j =>
          simp only [List.getElem?_cons_succ] at h0 h1 ha
          obtain ⟨b', c', ra', hb', hv', hg⟩ := ih (i + 1) _ j h0 h1 ha
          exact ⟨b', c', ra', by rw [← hb']; congr 1; omega, hv', hg⟩

end Kopf.C12
