/-
  C01 — every internal label strictly decreases `measure` (proof only; `measure` is in the Model file).
-/
import Kopf.Lemmas.C01_Inv2
set_option linter.unusedSimpArgs false
namespace Kopf.C01

@[simp] theorem sumW_nil (f : Wid → Nat) : sumW f [] = 0 := rfl
@[simp] theorem sumW_cons (f : Wid → Nat) (a : Wid) (l : List Wid) : sumW f (a :: l) = f a + sumW f l := by
  simp [sumW]
@[simp] theorem sumW_append (f : Wid → Nat) (l₁ l₂ : List Wid) :
    sumW f (l₁ ++ l₂) = sumW f l₁ + sumW f l₂ := by simp [sumW]

theorem sumW_le {f g : Wid → Nat} {l : List Wid} (h : ∀ x ∈ l, f x ≤ g x) : sumW f l ≤ sumW g l := by
  induction l with
  | nil => simp
  | cons a l ih =>
    have h1 := h a (by simp)
    have h2 := ih (fun x hx => h x (by simp [hx]))
    simp; omega

theorem sumW_lt {f g : Wid → Nat} {l : List Wid} {w : Wid} (h : ∀ x ∈ l, f x ≤ g x) (hw : w ∈ l)
    (hlt : f w < g w) : sumW f l < sumW g l := by
  induction l with
  | nil => simp at hw
  | cons a l ih =>
    have h1 := h a (by simp)
    have h2 : sumW f l ≤ sumW g l := sumW_le (fun x hx => h x (by simp [hx]))
    rcases List.mem_cons.1 hw with rfl | hw'
    · simp; omega
    · have := ih (fun x hx => h x (by simp [hx])) hw'
      simp; omega

theorem sumW_congr {f g : Wid → Nat} {l : List Wid} (h : ∀ x ∈ l, f x = g x) : sumW f l = sumW g l := by
  apply Nat.le_antisymm
  · exact sumW_le (fun x hx => Nat.le_of_eq (h x hx))
  · exact sumW_le (fun x hx => Nat.le_of_eq (h x hx).symm)

theorem sumW_filter_le (f : Wid → Nat) (p : Wid → Bool) (l : List Wid) :
    sumW f (l.filter p) ≤ sumW f l := by
  induction l with
  | nil => simp
  | cons b l ih =>
    cases hb : p b <;> simp [hb] <;> omega

theorem sumW_filter_drop (f : Wid → Nat) (p : Wid → Bool) (l : List Wid) (w : Wid) (hw : w ∈ l)
    (hp : p w = false) : sumW f (l.filter p) + f w ≤ sumW f l := by
  induction l with
  | nil => simp at hw
  | cons a l ih =>
    rcases List.mem_cons.1 hw with rfl | hw'
    · have := sumW_filter_le f p l
      simp [hp]; omega
    · have := ih hw'
      cases ha : p a <;> simp [ha] <;> omega

theorem streamW_cons_ev (e : Ev) (r : List Item) : streamW (some (.ev e :: r)) = streamW (some r) + 2 := by
  simp [streamW, itemW]; omega

theorem streamW_append_eos (b : List Item) (h : Item.eos ∉ b) :
    streamW (some (b ++ [.eos])) + 1 = streamW (some b) := by
  simp [streamW, itemW, h]

theorem streamW_nil : streamW (some []) = 1 := by simp [streamW]
theorem streamW_none : streamW none = 0 := rfl

/-- a segment that changes neither the queues of the scheduler, nor the hand, nor `closed` -/
theorem measure_lt_of_local {s s' : State} (hh : s'.hand = s.hand) (hp : s'.pendingQ = s.pendingQ)
    (hr : s'.running = s.running) (hc : s'.closed = s.closed)
    (hle : ∀ x, instW s' x ≤ instW s x) (w : Wid) (hw : w ∈ s.pendingQ ∨ w ∈ s.running)
    (hlt : instW s' w < instW s w) : measure s' < measure s := by
  unfold measure
  rw [hh, hp, hr, hc]
  have h1 : sumW (instW s') s.pendingQ ≤ sumW (instW s) s.pendingQ := sumW_le (fun x _ => hle x)
  have h2 : sumW (instW s') s.running ≤ sumW (instW s) s.running := sumW_le (fun x _ => hle x)
  rcases hw with hw | hw
  · have := sumW_lt (fun x _ => hle x) hw hlt; omega
  · have := sumW_lt (fun x _ => hle x) hw hlt; omega

/-- a segment of the live instance `w`: only `w`'s program counter and `w.key`'s stream change -/
theorem instW_le_of_local {s s' : State} (hi : Inv s) {w : Wid} {p : Pc} (hw : s.pc w = some p)
    (hlive : p.live = true) (hpc : ∀ x, x ≠ w → s'.pc x = s.pc x)
    (hst : ∀ k, k ≠ w.key → s'.streams k = s.streams k) (hlew : instW s' w ≤ instW s w) :
    ∀ x, instW s' x ≤ instW s x := by
  intro x
  by_cases hx : x = w
  · subst hx; exact hlew
  · unfold instW
    rw [hpc x hx]
    cases hq : s.pc x with
    | none => simp
    | some q =>
      by_cases hql : q.live = true
      · have hk : x.key ≠ w.key := fun hk => hx (hi.uniq x w q p hq hw hql hlive hk)
        simp [hst x.key hk]
      · simp [hql]

theorem step_measure_local {s s' : State} (hi : Inv s) {w : Wid} {p : Pc} (hw : s.pc w = some p)
    (hlive : p.live = true) (hne : p ≠ .pending)
    (hh : s'.hand = s.hand) (hp : s'.pendingQ = s.pendingQ) (hr : s'.running = s.running)
    (hc : s'.closed = s.closed) (hpc : ∀ x, x ≠ w → s'.pc x = s.pc x)
    (hst : ∀ k, k ≠ w.key → s'.streams k = s.streams k) (hlt : instW s' w < instW s w) :
    measure s' < measure s :=
  measure_lt_of_local hh hp hr hc
    (instW_le_of_local hi hw hlive hpc hst (Nat.le_of_lt hlt)) w
    (Or.inr ((hi.run_iff w).2 ⟨p, hw, hne⟩)) hlt

theorem measure_take {s s' : State} {w : Wid} {e : Ev} (hi : Inv s)
    (h : step s (.take w e) = some s') : measure s' < measure s := by
  step_cases h
  rename_i hg _ e' rest hst he
  refine step_measure_local hi (w := w) hg.2 rfl (by simp) rfl rfl rfl rfl
    (by intro x hx; simp [hx]) (by intro k hk; simp [hk]) ?_
  simp [instW, hg.2, hst, pcW, streamW_cons_ev] <;> omega

theorem measure_ttake {s s' : State} {w : Wid} {e : Ev} (hi : Inv s)
    (h : step s (.timeoutTake w e) = some s') : measure s' < measure s := by
  step_cases h
  rename_i hg _ e' rest hst he
  refine step_measure_local hi (w := w) hg.2 rfl (by simp) rfl rfl rfl rfl
    (by intro x hx; simp [hx]) (by intro k hk; simp [hk]) ?_
  simp [instW, hg.2, hst, pcW, streamW_cons_ev] <;> omega

theorem measure_start {s s' : State} {w : Wid} (hi : Inv s)
    (h : step s (.start w) = some s') : measure s' < measure s := by
  step_cases h
  rename_i hg
  refine step_measure_local hi (w := w) hg.2 rfl (by simp) rfl rfl rfl rfl
    (by intro x hx; simp [hx]) (by intro k hk; simp [hk]) ?_
  simp [instW, hg.2, pcW] <;> omega

theorem measure_finish {s s' : State} {w : Wid} (hi : Inv s)
    (h : step s (.finish w) = some s') : measure s' < measure s := by
  step_cases h
  rename_i hc _ e hp
  refine step_measure_local hi (w := w) hp rfl (by simp) rfl rfl rfl rfl
    (by intro x hx; simp [hx]) (by intro k hk; simp [hk]) ?_
  simp [instW, hp, pcW] <;> omega

theorem measure_fail {s s' : State} {w : Wid} (hi : Inv s)
    (h : step s (.fail w) = some s') : measure s' < measure s := by
  step_cases h
  rename_i hc _ e hp
  refine step_measure_local hi (w := w) hp rfl (by simp) rfl rfl rfl rfl
    (by intro x hx; simp [hx]) (by intro k hk; simp [hk]) ?_
  simp [instW, hp, pcW] <;> omega

theorem measure_retire {s s' : State} {w : Wid} (hi : Inv s)
    (h : step s (.retire w) = some s') : measure s' < measure s := by
  step_cases h
  rename_i hg
  refine step_measure_local hi (w := w) hg.2.2.1 rfl (by simp) rfl rfl rfl rfl
    (by intro x hx; simp [hx]) (by intro k hk; simp [hk]) ?_
  simp [instW, hg.2.2.1, hg.2.2.2, pcW, streamW_nil] <;> omega

theorem measure_eosExit {s s' : State} {w : Wid} (hi : Inv s)
    (h : step s (.eosExit w) = some s') : measure s' < measure s := by
  step_cases h
  rename_i hg _ tail hst
  refine step_measure_local hi (w := w) hg.2 rfl (by simp) rfl rfl rfl rfl
    (by intro x hx; simp [hx]) (by intro k hk; simp [hk]) ?_
  simp [instW, hg.2, hst, pcW] <;> omega

theorem measure_kill {s s' : State} {w : Wid} (hi : Inv s)
    (h : step s (.kill w) = some s') : measure s' < measure s := by
  step_cases h
  · rename_i hc _ hp
    refine step_measure_local hi (w := w) hp rfl (by simp) rfl rfl rfl rfl
      (by intro x hx; simp [hx]) (by intro k hk; simp [hk]) ?_
    simp [instW, hp, pcW] <;> omega
  · rename_i hc _ hp
    refine step_measure_local hi (w := w) hp rfl (by simp) rfl rfl rfl rfl
      (by intro x hx; simp [hx]) (by intro k hk; simp [hk]) ?_
    simp [instW, hp, pcW] <;> omega
  · rename_i hc _ e hp
    refine step_measure_local hi (w := w) hp rfl (by simp) rfl rfl rfl rfl
      (by intro x hx; simp [hx]) (by intro k hk; simp [hk]) ?_
    simp [instW, hp, pcW] <;> omega
  · rename_i hc _ hp
    refine step_measure_local hi (w := w) hp rfl (by simp) rfl rfl rfl rfl
      (by intro x hx; simp [hx]) (by intro k hk; simp [hk]) ?_
    simp [instW, hp, pcW] <;> omega

theorem instW_congr {s s' : State} (hpc : s'.pc = s.pc) (hst : s'.streams = s.streams) :
    instW s' = instW s := by
  funext x; simp [instW, hpc, hst]

theorem measure_eosPut {s s' : State} {k : Key} (hi : Inv s)
    (h : step s (.eosPut k) = some s') : measure s' < measure s := by
  step_cases h
  rename_i hg _ b hst hne
  obtain ⟨w, p, hk, hp, hlive⟩ := hi.stream_live hg.2 k (by simp [hst])
  subst hk
  have hlt : instW { s with streams := upd s.streams w.key (some (b ++ [Item.eos])) } w < instW s w := by
    have := streamW_append_eos b hne
    simp [instW, hp, hlive, hst]; omega
  refine measure_lt_of_local rfl rfl rfl rfl
    (instW_le_of_local hi hp hlive (fun x _ => rfl) (by intro k hk; simp [hk]) (Nat.le_of_lt hlt)) w ?_ hlt
  by_cases hpp : p = .pending
  · subst hpp; exact Or.inl ((hi.pend_iff w).2 hp)
  · exact Or.inr ((hi.run_iff w).2 ⟨p, hp, hpp⟩)

theorem measure_close_aux {s s' : State} (hpc : s'.pc = s.pc) (hst : s'.streams = s.streams)
    (hh : s'.hand = s.hand) (hp : s'.pendingQ = s.pendingQ) (hr : s'.running = s.running)
    (hc : s.closed = false) (hc' : s'.closed = true) : measure s' < measure s := by
  simp [measure, instW_congr hpc hst, hh, hp, hr, hc, hc']

theorem measure_close {s s' : State} (h : step s .close = some s') : measure s' < measure s := by
  step_cases h
  rename_i hg
  exact measure_close_aux rfl rfl rfl rfl rfl hg.2 rfl

theorem measure_spawn_aux {s s' : State} (hi : Inv s) (w : Wid) (rest : List Wid)
    (hq : s.pendingQ = w :: rest) (hpc : s'.pc = upd s.pc w (some .spawned))
    (hst : s'.streams = s.streams) (hp : s'.pendingQ = rest) (hr : s'.running = s.running ++ [w])
    (hh : s'.hand = s.hand) (hc : s'.closed = s.closed) : measure s' < measure s := by
  have hpw : s.pc w = some .pending := (hi.pend_iff w).1 (by simp [hq])
  have hnd := hi.pend_nodup
  rw [hq] at hnd
  have hwr : w ∉ rest := (List.nodup_cons.1 hnd).1
  have hwrun : w ∉ s.running := by
    intro hm
    obtain ⟨p, hp, hne⟩ := (hi.run_iff w).1 hm
    rw [hpw] at hp; cases hp; exact hne rfl
  have hoth : ∀ x, x ≠ w → instW s' x = instW s x := by
    intro x hx; simp [instW, hpc, hst, hx]
  have h1 := sumW_congr (l := rest) (fun x hx => hoth x (fun h => hwr (h ▸ hx)))
  have h2 := sumW_congr (l := s.running) (fun x hx => hoth x (fun h => hwrun (h ▸ hx)))
  have h3 : instW s' w + 1 = instW s w := by simp [instW, hpc, hst, hpw, pcW]; omega
  simp only [measure, hq, hp, hr, hh, hc, sumW_cons, sumW_append, sumW_nil]
  rw [h1, h2]
  omega

theorem measure_spawn {s s' : State} (hi : Inv s) (h : step s .spawn = some s') :
    measure s' < measure s := by
  step_cases h
  rename_i _ w rest hq hcs
  exact measure_spawn_aux hi w rest hq rfl rfl rfl rfl rfl rfl

theorem measure_left_aux {s s' : State} (hi : Inv s) (w : Wid) (f : Bool)
    (hpw : s.pc w = some (.leaving f)) (hpc : s'.pc = upd s.pc w none) (hst : s'.streams = s.streams)
    (hp : s'.pendingQ = s.pendingQ) (hr : s'.running = s.running.filter (fun x => x ≠ w))
    (hh : s'.hand = if f = true then none else s.hand) (hc : s'.closed = s.closed) :
    measure s' < measure s := by
  have hwp : w ∉ s.pendingQ := by
    intro hm; have := (hi.pend_iff w).1 hm; rw [hpw] at this; cases this
  have hwr : w ∈ s.running := (hi.run_iff w).2 ⟨_, hpw, by simp⟩
  have hoth : ∀ x, x ≠ w → instW s' x = instW s x := by
    intro x hx; simp [instW, hpc, hst, hx]
  have h1 := sumW_congr (l := s.pendingQ) (fun x hx => hoth x (fun h => hwp (h ▸ hx)))
  have h2 := sumW_congr (l := s.running.filter (fun x => x ≠ w))
    (fun x hx => hoth x (by simpa using (List.mem_filter.1 hx).2))
  have h3 := sumW_filter_drop (instW s) (fun x => x ≠ w) s.running w hwr (by simp)
  have h4 : instW s w = 1 := by simp [instW, hpw, pcW]
  have h5 : (if s'.hand.isSome = true then 8 else 0) ≤ (if s.hand.isSome = true then 8 else 0) := by
    rw [hh]; cases f <;> simp
  simp only [measure, hp, hr, hc]
  rw [h1, h2]
  omega

theorem measure_left {s s' : State} {w : Wid} (hi : Inv s) (h : step s (.left w) = some s') :
    measure s' < measure s := by
  step_cases h
  all_goals (rename_i _ f hp hf; exact measure_left_aux hi w f hp rfl rfl rfl rfl (by simp [hf]) rfl)

theorem measure_insert_aux {s s' : State} (hi : Inv s) (k : Key) (e : Ev) (hh : s.hand = some (k, e))
    (hpc : s'.pc = upd s.pc ⟨k, s.nextGen k⟩ (some .pending))
    (hst : s'.streams = upd s.streams k (some [Item.ev e]))
    (hp : s'.pendingQ = s.pendingQ ++ [⟨k, s.nextGen k⟩]) (hr : s'.running = s.running)
    (hh' : s'.hand = none) (hc : s'.closed = s.closed) : measure s' < measure s := by
  have hnone := (hi.hand_none k e hh).1
  have hfresh : s.pc ⟨k, s.nextGen k⟩ = none := hi.fresh k _ (Nat.le_refl _)
  have hoth : ∀ x, s.pc x ≠ none → instW s' x = instW s x := by
    intro x hx
    have hxw : x ≠ ⟨k, s.nextGen k⟩ := fun h => hx (h ▸ hfresh)
    cases hq : s.pc x with
    | none => exact absurd hq hx
    | some q =>
      by_cases hql : q.live = true
      · have hk : x.key ≠ k := fun hk => hi.live_stream x q hq hql (hk ▸ hnone)
        simp [instW, hpc, hst, hxw, hq, hql, hk]
      · simp [instW, hpc, hst, hxw, hq, hql]
  have h1 := sumW_congr (l := s.pendingQ) (fun x hx => hoth x (by rw [(hi.pend_iff x).1 hx]; simp))
  have h2 := sumW_congr (l := s.running) (fun x hx => hoth x (by
    obtain ⟨p, hp, _⟩ := (hi.run_iff x).1 hx; rw [hp]; simp))
  have h3 : instW s' ⟨k, s.nextGen k⟩ = 7 := by simp [instW, hpc, hst, pcW, streamW, itemW]
  simp only [measure, hp, hr, hh, hh', hc, sumW_append, sumW_cons, sumW_nil]
  rw [h1, h2, h3]
  simp
  omega

theorem measure_insert {s s' : State} (hi : Inv s) (h : step s .insert = some s') :
    measure s' < measure s := by
  step_cases h
  rename_i _ k e hh
  exact measure_insert_aux hi k e hh rfl rfl rfl rfl rfl rfl

/-- every internal label strictly decreases the measure -/
theorem measure_step {s s' : State} {l : Label} (hi : Inv s) (hl : l.internal = true)
    (h : step s l = some s') : measure s' < measure s := by
  cases l with
  | arrive k e => simp [Label.internal] at hl
  | miss k e => simp [Label.internal] at hl
  | cancelWatcher => simp [Label.internal] at hl
  | insert => exact measure_insert hi h
  | spawn => exact measure_spawn hi h
  | start w => exact measure_start hi h
  | take w e => exact measure_take hi h
  | timeoutTake w e => exact measure_ttake hi h
  | finish w => exact measure_finish hi h
  | fail w => exact measure_fail hi h
  | retire w => exact measure_retire hi h
  | retireCheck w => step_cases h; rename_i hg; simp at hg
  | retireErase w => step_cases h; rename_i hg; simp at hg
  | eosExit w => exact measure_eosExit hi h
  | left w => exact measure_left hi h
  | eosPut k => exact measure_eosPut hi h
  | close => exact measure_close h
  | kill w => exact measure_kill hi h

end Kopf.C01
