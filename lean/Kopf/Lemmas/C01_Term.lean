/-
  C01 — every internal label strictly decreases `measure` (proof only; `measure` is in the Model file).
-/
import Kopf.Lemmas.C01_Inv2
set_option linter.unusedSimpArgs false
namespace Kopf.C01

@[simp] theorem sumW_nil (f : Wid → Nat) : sumW f [] = 0 := rfl
@[simp] theorem sumW_cons (f : Wid → Nat) (a : Wid) (l : List Wid) : sumW f (a :: l) = f a + sumW f l := by
  simp [sumW]
@[simp] theorem sumW_append (f : Wid → Nat) (l₁ l₂ : List Wid) :
    sumW f (l₁ ++ l₂) = sumW f l₁ + sumW f l₂ := by simp [sumW]

theorem sumW_le {f g : Wid → Nat} {l : List Wid} (h : ∀ x ∈ l, f x ≤ g x) : sumW f l ≤ sumW g l := by
  induction l with
  | nil => simp
  | cons a l ih =>
    have h1 := h a (by simp)
    have h2 := ih (fun x hx => h x (by simp [hx]))
    simp; omega

theorem sumW_lt {f g : Wid → Nat} {l : List Wid} {w : Wid} (h : ∀ x ∈ l, f x ≤ g x) (hw : w ∈ l)
    (hlt : f w < g w) : sumW f l < sumW g l := by
  induction l with
  | nil => simp at hw
  | cons a l ih =>
    have h1 := h a (by simp)
    have h2 : sumW f l ≤ sumW g l := sumW_le (fun x hx => h x (by simp [hx]))
    rcases List.mem_cons.1 hw with rfl | hw'
    · simp; omega
    · have := ih (fun x hx => h x (by simp [hx])) hw'
      simp; omega

theorem sumW_pos_of_mem {f : Wid → Nat} {l : List Wid} {w : Wid} (hw : w ∈ l) (hpos : 0 < f w) :
    0 < sumW f l := by
  induction l with
  | nil => simp at hw
  | cons a l ih =>
    rcases List.mem_cons.1 hw with rfl | hw'
    · simp; omega
    · have := ih hw'; simp; omega

theorem sumW_congr {f g : Wid → Nat} {l : List Wid} (h : ∀ x ∈ l, f x = g x) : sumW f l = sumW g l := by
  apply Nat.le_antisymm
  · exact sumW_le (fun x hx => Nat.le_of_eq (h x hx))
  · exact sumW_le (fun x hx => Nat.le_of_eq (h x hx).symm)

theorem sumW_filter_le (f : Wid → Nat) (p : Wid → Bool) (l : List Wid) :
    sumW f (l.filter p) ≤ sumW f l := by
  induction l with
  | nil => simp
  | cons b l ih =>
    cases hb : p b <;> simp [hb] <;> omega

theorem sumW_filter_drop (f : Wid → Nat) (p : Wid → Bool) (l : List Wid) (w : Wid) (hw : w ∈ l)
    (hp : p w = false) : sumW f (l.filter p) + f w ≤ sumW f l := by
  induction l with
  | nil => simp at hw
  | cons a l ih =>
    rcases List.mem_cons.1 hw with rfl | hw'
    · have := sumW_filter_le f p l
      simp [hp]; omega
    · have := ih hw'
      cases ha : p a <;> simp [ha] <;> omega

theorem streamW_cons_ev (e : Ev) (r : List Item) : streamW (some (.ev e :: r)) = streamW (some r) + 2 := by
  simp [streamW, itemW]; omega

theorem streamW_append_eos (b : List Item) (h : Item.eos ∉ b) :
    streamW (some (b ++ [.eos])) + 1 = streamW (some b) := by
  simp [streamW, itemW, h]

theorem streamW_nil : streamW (some []) = 1 := by simp [streamW]
theorem streamW_none : streamW none = 0 := rfl

theorem mem_onKeys {φ : Key → Bool} {l : List Wid} {w : Wid} : w ∈ onKeys φ l ↔ w ∈ l ∧ φ w.key = true := by
  simp [onKeys]

/-- what one segment of key `k` does to the outstanding work of the keys selected by `φ`:
    strictly less if `k` is selected, nothing at all otherwise -/
def Effect (φ : Key → Bool) (k : Key) (s s' : State) : Prop :=
  (φ k = true → measureOn φ s' < measureOn φ s) ∧ (φ k = false → measureOn φ s' = measureOn φ s)

theorem instW_eq_of {s s' : State} {x : Wid} (hpc : s'.pc x = s.pc x)
    (hst : s'.streams x.key = s.streams x.key) : instW s' x = instW s x := by
  simp [instW, hpc, hst]

/-- frame: the selected keys' queues entries, hand and instances are untouched -/
theorem measureOn_frame {φ : Key → Bool} {s s' : State} (hh : handW φ s' = handW φ s)
    (hp : onKeys φ s'.pendingQ = onKeys φ s.pendingQ) (hr : onKeys φ s'.running = onKeys φ s.running)
    (hinst : ∀ x, φ x.key = true → instW s' x = instW s x) : measureOn φ s' = measureOn φ s := by
  unfold measureOn
  rw [hh, hp, hr]
  rw [sumW_congr (l := onKeys φ s.pendingQ) (fun x hx => hinst x (mem_onKeys.1 hx).2),
      sumW_congr (l := onKeys φ s.running) (fun x hx => hinst x (mem_onKeys.1 hx).2)]

/-- a segment that changes neither the queues of the scheduler nor the hand -/
theorem measureOn_lt_of_local {φ : Key → Bool} {s s' : State} (hh : s'.hand = s.hand)
    (hp : s'.pendingQ = s.pendingQ) (hr : s'.running = s.running)
    (hle : ∀ x, instW s' x ≤ instW s x) (w : Wid) (hφ : φ w.key = true)
    (hw : w ∈ s.pendingQ ∨ w ∈ s.running) (hlt : instW s' w < instW s w) :
    measureOn φ s' < measureOn φ s := by
  unfold measureOn handW
  rw [hh, hp, hr]
  have h1 : sumW (instW s') (onKeys φ s.pendingQ) ≤ sumW (instW s) (onKeys φ s.pendingQ) :=
    sumW_le (fun x _ => hle x)
  have h2 : sumW (instW s') (onKeys φ s.running) ≤ sumW (instW s) (onKeys φ s.running) :=
    sumW_le (fun x _ => hle x)
  rcases hw with hw | hw
  · have := sumW_lt (l := onKeys φ s.pendingQ) (fun x _ => hle x) (mem_onKeys.2 ⟨hw, hφ⟩) hlt; omega
  · have := sumW_lt (l := onKeys φ s.running) (fun x _ => hle x) (mem_onKeys.2 ⟨hw, hφ⟩) hlt; omega

/-- a segment of the live instance `w`: only `w`'s program counter and `w.key`'s stream change -/
theorem instW_le_of_local {s s' : State} (hi : Inv s) {w : Wid} {p : Pc} (hw : s.pc w = some p)
    (hlive : p.live = true) (hpc : ∀ x, x ≠ w → s'.pc x = s.pc x)
    (hst : ∀ k, k ≠ w.key → s'.streams k = s.streams k) (hlew : instW s' w ≤ instW s w) :
    ∀ x, instW s' x ≤ instW s x := by
  intro x
  by_cases hx : x = w
  · subst hx; exact hlew
  · unfold instW
    rw [hpc x hx]
    cases hq : s.pc x with
    | none => simp
    | some q =>
      by_cases hql : q.live = true
      · have hk : x.key ≠ w.key := fun hk => hx (hi.uniq x w q p hq hw hql hlive hk)
        simp [hst x.key hk]
      · simp [hql]

theorem local_effect (φ : Key → Bool) {s s' : State} (hi : Inv s) {w : Wid} {p : Pc}
    (hw : s.pc w = some p) (hlive : p.live = true)
    (hh : s'.hand = s.hand) (hp : s'.pendingQ = s.pendingQ) (hr : s'.running = s.running)
    (hpc : ∀ x, x ≠ w → s'.pc x = s.pc x)
    (hst : ∀ k, k ≠ w.key → s'.streams k = s.streams k) (hlt : instW s' w < instW s w) :
    Effect φ w.key s s' := by
  constructor
  · intro hφ
    have hmem : w ∈ s.pendingQ ∨ w ∈ s.running := by
      by_cases hpp : p = .pending
      · subst hpp; exact Or.inl ((hi.pend_iff w).2 hw)
      · exact Or.inr ((hi.run_iff w).2 ⟨p, hw, hpp⟩)
    exact measureOn_lt_of_local hh hp hr
      (instW_le_of_local hi hw hlive hpc hst (Nat.le_of_lt hlt)) w hφ hmem hlt
  · intro hφ
    refine measureOn_frame (by simp [handW, hh]) (by rw [hp]) (by rw [hr]) ?_
    intro x hx
    have hk : x.key ≠ w.key := fun hk => by rw [hk, hφ] at hx; cases hx
    have hxw : x ≠ w := fun h => hk (h ▸ rfl)
    exact instW_eq_of (hpc x hxw) (hst x.key hk)

theorem effect_take {φ : Key → Bool} {s s' : State} {w : Wid} {e : Ev} (hi : Inv s)
    (h : step s (.take w e) = some s') : Effect φ w.key s s' := by
  step_cases h
  rename_i hg _ e' rest hst he
  refine local_effect φ hi (w := w) hg.2 rfl rfl rfl rfl
    (by intro x hx; simp [hx]) (by intro k hk; simp [hk]) ?_
  simp [instW, hg.2, hst, pcW, streamW_cons_ev] <;> omega

theorem effect_ttake {φ : Key → Bool} {s s' : State} {w : Wid} {e : Ev} (hi : Inv s)
    (h : step s (.timeoutTake w e) = some s') : Effect φ w.key s s' := by
  step_cases h
  rename_i hg _ e' rest hst he
  refine local_effect φ hi (w := w) hg.2 rfl rfl rfl rfl
    (by intro x hx; simp [hx]) (by intro k hk; simp [hk]) ?_
  simp [instW, hg.2, hst, pcW, streamW_cons_ev] <;> omega

theorem effect_start {φ : Key → Bool} {s s' : State} {w : Wid} (hi : Inv s)
    (h : step s (.start w) = some s') : Effect φ w.key s s' := by
  step_cases h
  rename_i hg
  refine local_effect φ hi (w := w) hg.2 rfl rfl rfl rfl
    (by intro x hx; simp [hx]) (by intro k hk; simp [hk]) ?_
  simp [instW, hg.2, pcW] <;> omega

theorem effect_finish {φ : Key → Bool} {s s' : State} {w : Wid} (hi : Inv s)
    (h : step s (.finish w) = some s') : Effect φ w.key s s' := by
  step_cases h
  rename_i hc _ e hp
  refine local_effect φ hi (w := w) hp rfl rfl rfl rfl
    (by intro x hx; simp [hx]) (by intro k hk; simp [hk]) ?_
  simp [instW, hp, pcW] <;> omega

theorem effect_fail {φ : Key → Bool} {s s' : State} {w : Wid} (hi : Inv s)
    (h : step s (.fail w) = some s') : Effect φ w.key s s' := by
  step_cases h
  rename_i hc _ e hp
  refine local_effect φ hi (w := w) hp rfl rfl rfl rfl
    (by intro x hx; simp [hx]) (by intro k hk; simp [hk]) ?_
  simp [instW, hp, pcW] <;> omega

theorem effect_retire {φ : Key → Bool} {s s' : State} {w : Wid} (hi : Inv s)
    (h : step s (.retire w) = some s') : Effect φ w.key s s' := by
  step_cases h
  rename_i hg
  refine local_effect φ hi (w := w) hg.2.2.1 rfl rfl rfl rfl
    (by intro x hx; simp [hx]) (by intro k hk; simp [hk]) ?_
  simp [instW, hg.2.2.1, hg.2.2.2, pcW, streamW_nil] <;> omega

theorem effect_eosExit {φ : Key → Bool} {s s' : State} {w : Wid} (hi : Inv s)
    (h : step s (.eosExit w) = some s') : Effect φ w.key s s' := by
  step_cases h
  rename_i hg _ tail hst
  refine local_effect φ hi (w := w) hg.2 rfl rfl rfl rfl
    (by intro x hx; simp [hx]) (by intro k hk; simp [hk]) ?_
  simp [instW, hg.2, hst, pcW] <;> omega

theorem effect_kill {φ : Key → Bool} {s s' : State} {w : Wid} (hi : Inv s)
    (h : step s (.kill w) = some s') : Effect φ w.key s s' := by
  step_cases h
  · rename_i hc _ hp
    refine local_effect φ hi (w := w) hp rfl rfl rfl rfl
      (by intro x hx; simp [hx]) (by intro k hk; simp [hk]) ?_
    simp [instW, hp, pcW] <;> omega
  · rename_i hc _ hp
    refine local_effect φ hi (w := w) hp rfl rfl rfl rfl
      (by intro x hx; simp [hx]) (by intro k hk; simp [hk]) ?_
    simp [instW, hp, pcW] <;> omega
  · rename_i hc _ e hp
    refine local_effect φ hi (w := w) hp rfl rfl rfl rfl
      (by intro x hx; simp [hx]) (by intro k hk; simp [hk]) ?_
    simp [instW, hp, pcW] <;> omega
  · rename_i hc _ hp
    refine local_effect φ hi (w := w) hp rfl rfl rfl rfl
      (by intro x hx; simp [hx]) (by intro k hk; simp [hk]) ?_
    simp [instW, hp, pcW] <;> omega

theorem effect_eosPut {φ : Key → Bool} {s s' : State} {k : Key} (hi : Inv s)
    (h : step s (.eosPut k) = some s') : Effect φ k s s' := by
  step_cases h
  rename_i hg _ b hst hne
  obtain ⟨w, p, hk, hp, hlive⟩ := hi.stream_live hg.2 k (by simp [hst])
  subst hk
  refine local_effect φ hi hp hlive rfl rfl rfl (fun x _ => rfl) (by intro k hk; simp [hk]) ?_
  have := streamW_append_eos b hne
  simp [instW, hp, hlive, hst]; omega

theorem effect_spawn_aux {φ : Key → Bool} {s s' : State} (hi : Inv s) (w : Wid) (rest : List Wid)
    (hq : s.pendingQ = w :: rest) (hpc : s'.pc = upd s.pc w (some .spawned))
    (hst : s'.streams = s.streams) (hp : s'.pendingQ = rest) (hr : s'.running = s.running ++ [w])
    (hh : s'.hand = s.hand) : Effect φ w.key s s' := by
  have hpw : s.pc w = some .pending := (hi.pend_iff w).1 (by simp [hq])
  have hnd := hi.pend_nodup
  rw [hq] at hnd
  have hwr : w ∉ rest := (List.nodup_cons.1 hnd).1
  have hwrun : w ∉ s.running := by
    intro hm
    obtain ⟨p, hp, hne⟩ := (hi.run_iff w).1 hm
    rw [hpw] at hp; cases hp; exact hne rfl
  have hoth : ∀ x, x ≠ w → instW s' x = instW s x := by
    intro x hx; simp [instW, hpc, hst, hx]
  constructor
  · intro hφ
    have h1 := sumW_congr (l := onKeys φ rest) (fun x hx => hoth x (fun h => hwr (h ▸ (mem_onKeys.1 hx).1)))
    have h2 := sumW_congr (l := onKeys φ s.running)
      (fun x hx => hoth x (fun h => hwrun (h ▸ (mem_onKeys.1 hx).1)))
    have h3 : instW s' w + 1 = instW s w := by simp [instW, hpc, hst, hpw, pcW]; omega
    simp only [measureOn, handW, hq, hp, hr, hh, onKeys, List.filter_cons, List.filter_append, hφ, if_true,
      List.filter_nil, sumW_cons, sumW_append, sumW_nil]
    simp only [onKeys] at h1 h2
    rw [h1, h2]
    omega
  · intro hφ
    refine measureOn_frame (by simp [handW, hh]) ?_ ?_ ?_
    · simp [onKeys, hp, hq, List.filter_cons, hφ]
    · simp [onKeys, hr, List.filter_append, List.filter_cons, hφ]
    · intro x hx
      exact hoth x (fun h => by rw [h, hφ] at hx; cases hx)

theorem effect_spawn {φ : Key → Bool} {s s' : State} (hi : Inv s) (h : step s .spawn = some s') :
    ∃ w rest, s.pendingQ = w :: rest ∧ Effect φ w.key s s' := by
  step_cases h
  rename_i _ w rest hq hcs
  exact ⟨w, rest, hq, effect_spawn_aux hi w rest hq rfl rfl rfl rfl rfl⟩

theorem effect_left_aux {φ : Key → Bool} {s s' : State} (hi : Inv s) (w : Wid) (f : Bool)
    (hpw : s.pc w = some (.leaving f)) (hpc : s'.pc = upd s.pc w none) (hst : s'.streams = s.streams)
    (hp : s'.pendingQ = s.pendingQ) (hr : s'.running = s.running.filter (fun x => x ≠ w))
    (hh : s'.hand = if f = true then none else s.hand) :
    (φ w.key = true → measureOn φ s' < measureOn φ s) ∧ (φ w.key = false → measureOn φ s' ≤ measureOn φ s) := by
  have hwp : w ∉ s.pendingQ := by
    intro hm; have := (hi.pend_iff w).1 hm; rw [hpw] at this; cases this
  have hwr : w ∈ s.running := (hi.run_iff w).2 ⟨_, hpw, by simp⟩
  have hoth : ∀ x, x ≠ w → instW s' x = instW s x := by
    intro x hx; simp [instW, hpc, hst, hx]
  have h5 : handW φ s' ≤ handW φ s := by
    unfold handW; rw [hh]; cases f <;> simp
  have h1 := sumW_congr (l := onKeys φ s.pendingQ)
    (fun x hx => hoth x (fun h => hwp (h ▸ (mem_onKeys.1 hx).1)))
  have hcomm : onKeys φ (s.running.filter (fun x => x ≠ w)) = (onKeys φ s.running).filter (fun x => x ≠ w) := by
    simp [onKeys, List.filter_filter, Bool.and_comm]
  have h2 := sumW_congr (l := (onKeys φ s.running).filter (fun x => x ≠ w))
    (fun x hx => hoth x (by simpa using (List.mem_filter.1 hx).2))
  have hle := sumW_filter_le (instW s) (fun x => x ≠ w) (onKeys φ s.running)
  constructor
  · intro hφ
    have h3 := sumW_filter_drop (instW s) (fun x => x ≠ w) (onKeys φ s.running) w
      (mem_onKeys.2 ⟨hwr, hφ⟩) (by simp)
    have h4 : instW s w = 1 := by simp [instW, hpw, pcW]
    simp only [measureOn, hp, hr, hcomm]
    rw [h1, h2]
    omega
  · intro _
    simp only [measureOn, hp, hr, hcomm]
    rw [h1, h2]
    omega

theorem effect_left {φ : Key → Bool} {s s' : State} {w : Wid} (hi : Inv s)
    (h : step s (.left w) = some s') :
    (φ w.key = true → measureOn φ s' < measureOn φ s) ∧ (φ w.key = false → measureOn φ s' ≤ measureOn φ s) := by
  step_cases h
  all_goals (rename_i _ f hp hf; exact effect_left_aux hi w f hp rfl rfl rfl rfl (by simp [hf]))

theorem effect_insert_aux {φ : Key → Bool} {s s' : State} (hi : Inv s) (k : Key) (e : Ev)
    (hh : s.hand = some (k, e))
    (hpc : s'.pc = upd s.pc ⟨k, s.nextGen k⟩ (some .pending))
    (hst : s'.streams = upd s.streams k (some [Item.ev e]))
    (hp : s'.pendingQ = s.pendingQ ++ [⟨k, s.nextGen k⟩]) (hr : s'.running = s.running)
    (hh' : s'.hand = none) : Effect φ k s s' := by
  have hnone := (hi.hand_none k e hh).1
  have hfresh : s.pc ⟨k, s.nextGen k⟩ = none := hi.fresh k _ (Nat.le_refl _)
  have hoth : ∀ x, s.pc x ≠ none → instW s' x = instW s x := by
    intro x hx
    have hxw : x ≠ ⟨k, s.nextGen k⟩ := fun h => hx (h ▸ hfresh)
    cases hq : s.pc x with
    | none => exact absurd hq hx
    | some q =>
      by_cases hql : q.live = true
      · have hk : x.key ≠ k := fun hk => hi.live_stream x q hq hql (hk ▸ hnone)
        simp [instW, hpc, hst, hxw, hq, hql, hk]
      · simp [instW, hpc, hst, hxw, hq, hql]
  have h1 := sumW_congr (l := onKeys φ s.pendingQ)
    (fun x hx => hoth x (by rw [(hi.pend_iff x).1 (mem_onKeys.1 hx).1]; simp))
  have h2 := sumW_congr (l := onKeys φ s.running) (fun x hx => hoth x (by
    obtain ⟨p, hp, _⟩ := (hi.run_iff x).1 (mem_onKeys.1 hx).1; rw [hp]; simp))
  have h3 : instW s' ⟨k, s.nextGen k⟩ = 7 := by simp [instW, hpc, hst, pcW, streamW, itemW]
  constructor
  · intro hφ
    simp only [measureOn, handW, hp, hr, hh, hh', onKeys, List.filter_append, List.filter_cons, hφ, if_true,
      List.filter_nil, sumW_append, sumW_cons, sumW_nil]
    simp only [onKeys] at h1 h2
    rw [h1, h2, h3]
    omega
  · intro hφ
    simp only [measureOn, handW, hp, hr, hh, hh', onKeys, List.filter_append, List.filter_cons, hφ,
      List.filter_nil, sumW_append, sumW_nil]
    simp only [onKeys] at h1 h2
    rw [h1, h2]
    simp

theorem effect_insert {φ : Key → Bool} {s s' : State} (hi : Inv s) (h : step s .insert = some s') :
    ∃ k e, s.hand = some (k, e) ∧ Effect φ k s s' := by
  step_cases h
  rename_i _ k e hh
  exact ⟨k, e, hh, effect_insert_aux hi k e hh rfl rfl rfl rfl rfl⟩

/-- an arrival for a key that is not selected changes nothing for the selected ones -/
theorem effect_arrive {φ : Key → Bool} {s s' : State} {k : Key} {e : Ev}
    (h : step s (.arrive k e) = some s') (hφ : φ k = false) : measureOn φ s' = measureOn φ s := by
  step_cases h
  refine measureOn_frame rfl rfl rfl ?_
  intro x hx
  have hk : x.key ≠ k := fun hk => by rw [hk, hφ] at hx; cases hx
  exact instW_eq_of rfl (by simp [hk])

theorem effect_miss {φ : Key → Bool} {s s' : State} {k : Key} {e : Ev}
    (h : step s (.miss k e) = some s') (hφ : φ k = false) : measureOn φ s' = measureOn φ s := by
  step_cases h
  rename_i hg
  refine measureOn_frame (by simp [handW, hg.2.1, hφ]) rfl rfl (fun x _ => rfl)

theorem effect_cancel_aux {φ : Key → Bool} {s s' : State} (hpc : s'.pc = s.pc) (hst : s'.streams = s.streams)
    (hp : s'.pendingQ = s.pendingQ) (hr : s'.running = s.running) (hh : s'.hand = none) :
    measureOn φ s' ≤ measureOn φ s := by
  have e1 : instW s' = instW s := by funext x; simp [instW, hpc, hst]
  have : handW φ s' = 0 := by simp [handW, hh]
  simp only [measureOn, hp, hr, e1, this]
  omega

theorem effect_cancel {φ : Key → Bool} {s s' : State} (h : step s .cancelWatcher = some s') :
    measureOn φ s' ≤ measureOn φ s := by
  step_cases h
  exact effect_cancel_aux rfl rfl rfl rfl rfl

theorem effect_close {φ : Key → Bool} {s s' : State} (h : step s .close = some s') :
    measureOn φ s' = measureOn φ s ∧ s.closed = false ∧ s'.closed = true := by
  step_cases h
  rename_i hg
  exact ⟨rfl, hg.2, rfl⟩

/-- every label: a segment of a selected key strictly decreases `measureOn φ`; nothing except an
    arrival for a selected key increases it -/
theorem measureOn_step {φ : Key → Bool} {s s' : State} {l : Label} (hi : Inv s)
    (h : step s l = some s') :
    (∀ k, l.key? s = some k → φ k = true → l.internal = true → measureOn φ s' < measureOn φ s) ∧
    ((∀ k, l.key? s = some k → φ k = false) → measureOn φ s' ≤ measureOn φ s) := by
  cases l with
  | arrive k e =>
    refine ⟨fun _ _ _ hl => by simp [Label.internal] at hl, fun hk => ?_⟩
    exact Nat.le_of_eq (effect_arrive h (hk k rfl))
  | miss k e =>
    refine ⟨fun _ _ _ hl => by simp [Label.internal] at hl, fun hk => ?_⟩
    exact Nat.le_of_eq (effect_miss h (hk k rfl))
  | cancelWatcher => exact ⟨fun _ hk => by simp [Label.key?] at hk, fun _ => effect_cancel h⟩
  | close => exact ⟨fun _ hk => by simp [Label.key?] at hk, fun _ => Nat.le_of_eq (effect_close h).1⟩
  | insert =>
    obtain ⟨k, e, hh, he⟩ := effect_insert (φ := φ) hi h
    refine ⟨fun k' hk' hφ _ => ?_, fun hk => ?_⟩
    · simp [Label.key?, hh] at hk'; subst hk'; exact he.1 hφ
    · exact Nat.le_of_eq (he.2 (hk k (by simp [Label.key?, hh])))
  | spawn =>
    obtain ⟨w, rest, hq, he⟩ := effect_spawn (φ := φ) hi h
    refine ⟨fun k' hk' hφ _ => ?_, fun hk => ?_⟩
    · simp [Label.key?, hq] at hk'; subst hk'; exact he.1 hφ
    · exact Nat.le_of_eq (he.2 (hk w.key (by simp [Label.key?, hq])))
  | left w =>
    have he := effect_left (φ := φ) hi h
    refine ⟨fun k' hk' hφ _ => ?_, fun hk => he.2 (hk w.key rfl)⟩
    simp [Label.key?] at hk'; subst hk'; exact he.1 hφ
  | retireCheck w => step_cases h; rename_i hg; simp at hg
  | retireErase w => step_cases h; rename_i hg; simp at hg
  | eosPut k =>
    have he := effect_eosPut (φ := φ) hi h
    refine ⟨fun k' hk' hφ _ => ?_, fun hk => Nat.le_of_eq (he.2 (hk k rfl))⟩
    simp [Label.key?] at hk'; subst hk'; exact he.1 hφ
  | start w =>
    have he := effect_start (φ := φ) hi h
    refine ⟨fun k' hk' hφ _ => ?_, fun hk => Nat.le_of_eq (he.2 (hk w.key rfl))⟩
    simp [Label.key?] at hk'; subst hk'; exact he.1 hφ
  | take w e =>
    have he := effect_take (φ := φ) hi h
    refine ⟨fun k' hk' hφ _ => ?_, fun hk => Nat.le_of_eq (he.2 (hk w.key rfl))⟩
    simp [Label.key?] at hk'; subst hk'; exact he.1 hφ
  | timeoutTake w e =>
    have he := effect_ttake (φ := φ) hi h
    refine ⟨fun k' hk' hφ _ => ?_, fun hk => Nat.le_of_eq (he.2 (hk w.key rfl))⟩
    simp [Label.key?] at hk'; subst hk'; exact he.1 hφ
  | finish w =>
    have he := effect_finish (φ := φ) hi h
    refine ⟨fun k' hk' hφ _ => ?_, fun hk => Nat.le_of_eq (he.2 (hk w.key rfl))⟩
    simp [Label.key?] at hk'; subst hk'; exact he.1 hφ
  | fail w =>
    have he := effect_fail (φ := φ) hi h
    refine ⟨fun k' hk' hφ _ => ?_, fun hk => Nat.le_of_eq (he.2 (hk w.key rfl))⟩
    simp [Label.key?] at hk'; subst hk'; exact he.1 hφ
  | retire w =>
    have he := effect_retire (φ := φ) hi h
    refine ⟨fun k' hk' hφ _ => ?_, fun hk => Nat.le_of_eq (he.2 (hk w.key rfl))⟩
    simp [Label.key?] at hk'; subst hk'; exact he.1 hφ
  | eosExit w =>
    have he := effect_eosExit (φ := φ) hi h
    refine ⟨fun k' hk' hφ _ => ?_, fun hk => Nat.le_of_eq (he.2 (hk w.key rfl))⟩
    simp [Label.key?] at hk'; subst hk'; exact he.1 hφ
  | kill w =>
    have he := effect_kill (φ := φ) hi h
    refine ⟨fun k' hk' hφ _ => ?_, fun hk => Nat.le_of_eq (he.2 (hk w.key rfl))⟩
    simp [Label.key?] at hk'; subst hk'; exact he.1 hφ

/-- every internal label strictly decreases the global measure -/
theorem measure_step {s s' : State} {l : Label} (hi : Inv s) (hl : l.internal = true)
    (h : step s l = some s') : measure s' < measure s := by
  have hcl : s'.closed = true → s.closed = true ∨ l = .close := by
    intro hc
    cases l <;> step_cases h <;> simp_all
  by_cases hclose : l = .close
  · subst hclose
    obtain ⟨he, h1, h2⟩ := effect_close (φ := fun _ => true) h
    simp [measure, he, h1, h2]
  · have hmono : s.closed = true → s'.closed = true := by
      intro hc
      cases l <;> step_cases h <;> simp_all
    have hflag : (if s'.closed then 0 else 1) ≤ (if s.closed then 0 else 1) := by
      cases hc' : s'.closed with
      | false =>
        cases hc : s.closed with
        | false => simp
        | true => rw [hmono hc] at hc'; cases hc'
      | true =>
        rcases hcl hc' with h1 | h1
        · simp [h1]
        · exact absurd h1 hclose
    have hkey : ∃ k, l.key? s = some k := by
      cases l <;> simp [Label.internal] at hl <;> simp [Label.key?]
      · obtain ⟨k, e, hh, _⟩ := effect_insert (φ := fun _ => true) hi h; simp [hh]
      · obtain ⟨w, rest, hq, _⟩ := effect_spawn (φ := fun _ => true) hi h; simp [hq]
      · exact absurd rfl hclose
    obtain ⟨k, hk⟩ := hkey
    have := (measureOn_step (φ := fun _ => true) hi h).1 k hk rfl hl
    simp only [measure]
    omega

end Kopf.C01
