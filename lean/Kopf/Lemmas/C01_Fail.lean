/-
  C01 — "a failed worker ends the watch": the invariant behind the scope guard `failedK k = false` of the
  loss theorems. A worker that dies with an exception takes its backlog along (`fail`); the events queued
  behind the failed one are gone. That is "not while the watch is alive" only because the failure stops the
  watcher: `_task_done_callback` → `exception_handler` → `watcher_task.cancel()` (`left` of a failed
  instance sets `closing`). Helper lemmas only; the property theorems are in Kopf/Props/C01.lean.
-/
import Kopf.Lemmas.C01_Inv2
namespace Kopf.C01

/-- every key that has lost a worker to an exception: the watch is over, or the dead task has not been
    noticed yet (it still sits in the scheduler's running set, its done-callback is due) -/
def FailInv (s : State) : Prop :=
  ∀ k, s.failedK k = true → s.closing = true ∨ ∃ w, w.key = k ∧ s.pc w = some (.leaving true)

theorem failInv_init (lim : Option Nat) : FailInv (init lim) := by
  intro k hk
  simp [init] at hk

theorem failInv_step {s s' : State} {l : Label} (hi : Inv s) (hf : FailInv s) (h : step s l = some s') :
    FailInv s' := by
  have h3 := hi.fresh
  have h1 := hi.pend_iff
  intro k hk
  have hf' := hf k
  cases l <;> step_cases h <;> (try dsimp only at hk ⊢)
  all_goals grind [upd_apply]

theorem failInv_run {s s' : State} {ls : List Label} (hi : Inv s) (hf : FailInv s) (h : run s ls = some s') :
    FailInv s' := by
  induction ls generalizing s with
  | nil => simp [run, runWith] at h; exact h ▸ hf
  | cons l ls ih =>
    simp only [run, runWith] at h
    split at h
    · rename_i s1 hs1
      exact ih (inv_step hi hs1) (failInv_step hi hf hs1) h
    · cases h

theorem failInv_reach {lim : Option Nat} {ls : List Label} {s : State} (h : Reach lim ls s) : FailInv s :=
  failInv_run (inv_init lim) (failInv_init lim) h

end Kopf.C01
