/-
  C04 — `diff a b = []` characterised: Python equality modulo null-valued object keys.
-/
import Kopf.Lemmas.C04_PyEq
import Kopf.Model.C04_Diff
namespace Kopf.C04
open Kopf Kopf.J

theorem diff_obj_obj (ka kb : Kvs) (p : Path) :
    diff (.obj ka) (.obj kb) p =
      if same (.obj ka) (.obj kb) then []
      else diffAdded ka kb p ++ diffRemoved ka kb p ++ diffCommon ka kb p := by
  simp [diff]

theorem diff_leaf_left {a : J} (b : J) (p : Path) (h : a.isObj = false) : diff a b p = diffLeaf a b p := by
  cases a <;> first | (simp [isObj] at h; done) | simp [diff]

theorem diff_leaf_right (a : J) {b : J} (p : Path) (h : b.isObj = false) : diff a b p = diffLeaf a b p := by
  cases b <;> first | (simp [isObj] at h; done) | (cases a <;> simp [diff])

theorem diffLeaf_nil_iff (a b : J) (p : Path) : diffLeaf a b p = [] ↔ same a b = true := by
  unfold diffLeaf
  by_cases h : same a b = true
  · simp [h]
  · simp only [h, Bool.false_eq_true, if_false, iff_false]
    cases a <;> cases b <;> simp

theorem diff_of_pyEq {a b : J} (p : Path) (h : same a b = true) : diff a b p = [] := by
  cases ha : a.isObj with
  | false => rw [diff_leaf_left b p ha]; exact (diffLeaf_nil_iff a b p).2 h
  | true =>
    cases hb : b.isObj with
    | false => rw [diff_leaf_right a p hb]; exact (diffLeaf_nil_iff a b p).2 h
    | true =>
      cases a <;> simp [isObj] at ha
      cases b <;> simp [isObj] at hb
      rw [diff_obj_obj, if_pos h]

theorem addItem_nil_iff (p : Path) (y : J) : addItem p y = [] ↔ y = .null := by
  cases y <;> simp [addItem]

theorem removeItem_nil_iff (p : Path) (x : J) : removeItem p x = [] ↔ x = .null := by
  cases x <;> simp [removeItem]

theorem diffAdded_nil_iff (ka kb : Kvs) (p : Path) :
    diffAdded ka kb p = [] ↔ ∀ k y, (k, y) ∈ kb → lookup k ka = none → y = .null := by
  induction kb with
  | nil => simp [diffAdded]
  | cons kv kb ih =>
    obtain ⟨k0, y0⟩ := kv
    simp only [diffAdded, List.append_eq_nil_iff, ih, List.mem_cons]
    constructor
    · rintro ⟨h1, h2⟩ k y (h | h) hl
      · cases h
        rw [hl] at h1
        exact (addItem_nil_iff _ _).1 h1
      · exact h2 k y h hl
    · intro h
      refine ⟨?_, fun k y hm hl => h k y (Or.inr hm) hl⟩
      cases hl : lookup k0 ka with
      | some _ => rfl
      | none => exact (addItem_nil_iff _ _).2 (h k0 y0 (Or.inl rfl) hl)

theorem diffRemoved_nil_iff (ka kb : Kvs) (p : Path) :
    diffRemoved ka kb p = [] ↔ ∀ k x, (k, x) ∈ ka → lookup k kb = none → x = .null := by
  induction ka with
  | nil => simp [diffRemoved]
  | cons kv ka ih =>
    obtain ⟨k0, x0⟩ := kv
    simp only [diffRemoved, List.append_eq_nil_iff, ih, List.mem_cons]
    constructor
    · rintro ⟨h1, h2⟩ k x (h | h) hl
      · cases h
        rw [hl] at h1
        exact (removeItem_nil_iff _ _).1 h1
      · exact h2 k x h hl
    · intro h
      refine ⟨?_, fun k x hm hl => h k x (Or.inr hm) hl⟩
      cases hl : lookup k0 kb with
      | some _ => rfl
      | none => exact (removeItem_nil_iff _ _).2 (h k0 x0 (Or.inl rfl) hl)

theorem diffCommon_nil_iff (ka kb : Kvs) (p : Path) :
    diffCommon ka kb p = [] ↔ ∀ k x, (k, x) ∈ ka → ∀ y, lookup k kb = some y → diff x y (p ++ [k]) = [] := by
  induction ka with
  | nil => simp [diffCommon]
  | cons kv ka ih =>
    obtain ⟨k0, x0⟩ := kv
    simp only [diffCommon, List.append_eq_nil_iff, ih, List.mem_cons]
    constructor
    · rintro ⟨h1, h2⟩ k x (h | h) y hl
      · cases h
        rw [hl] at h1
        exact h1
      · exact h2 k x h y hl
    · intro h
      refine ⟨?_, fun k x hm y hl => h k x (Or.inr hm) y hl⟩
      cases hl : lookup k0 kb with
      | none => rfl
      | some y => exact h k0 x0 (Or.inl rfl) y hl

theorem pyEq_nonobj_obj {a : J} (kb : Kvs) (h : a.isObj = false) : same a (.obj kb) = false := by
  cases a <;> simp [isObj] at h <;> simp [same]

theorem pyEq_obj_nonobj (ka : Kvs) {b : J} (h : b.isObj = false) : same (.obj ka) b = false := by
  cases b <;> simp [isObj] at h <;> simp [same]

theorem isNull_iff {v : J} : v.isNull = true ↔ v = .null := by
  cases v <;> simp [isNull]

/-- two present values stand in the dropped-nulls relation iff their `dropNulls` are `same`. -/
theorem optRel_dn_some (x y : J) :
    optRel same (dnOpt (some x)) (dnOpt (some y)) ↔ same (dropNulls x) (dropNulls y) = true := by
  cases x <;> cases y <;> simp [dnOpt, isNull, optRel, dropNulls, same]

theorem dnOpt_none_iff (y : J) : dnOpt (some y) = none ↔ y = .null := by
  cases y <;> simp [dnOpt, isNull]

/-- **diff is empty iff the two values are equal up to Python `==` and null-valued keys.** -/
theorem diff_nil_iff (a : J) : ∀ (b : J) (p : Path), wf a = true → wf b = true →
    (diff a b p = [] ↔ same (dropNulls a) (dropNulls b) = true) := by
  refine objInduction (P := fun a => ∀ (b : J) (p : Path), wf a = true → wf b = true →
    (diff a b p = [] ↔ same (dropNulls a) (dropNulls b) = true)) a ?_ ?_
  · intro a ha b p _ _
    rw [diff_leaf_left b p ha, diffLeaf_nil_iff, dropNulls_nonobj ha]
    cases hb : b.isObj with
    | false => rw [dropNulls_nonobj hb]
    | true =>
      cases b <;> simp [isObj] at hb
      rw [dropNulls_obj, pyEq_nonobj_obj _ ha, pyEq_nonobj_obj _ ha]
  · intro ka ih b p hwa hwb
    cases hb : b.isObj with
    | false =>
      rw [diff_leaf_right _ p hb, diffLeaf_nil_iff, dropNulls_nonobj hb, dropNulls_obj,
        pyEq_obj_nonobj _ hb, pyEq_obj_nonobj _ hb]
    | true =>
      cases b <;> simp [isObj] at hb
      rename_i kb
      rw [wf_obj] at hwa hwb
      have hna := nodupKeys_of_wf hwa
      have hnb := nodupKeys_of_wf hwb
      rw [dropNulls_obj, dropNulls_obj, pyEq_obj_iff (wfKvs_dropNulls hwa) (wfKvs_dropNulls hwb)]
      simp only [lookup_dropNulls _ hna, lookup_dropNulls _ hnb]
      rw [diff_obj_obj]
      constructor
      · intro hd k
        by_cases hpe : same (.obj ka) (.obj kb) = true
        · have hk := (pyEq_obj_iff hwa hwb).1 hpe k
          cases hla : lookup k ka with
          | none =>
            cases hlb : lookup k kb with
            | none => simp [dnOpt, optRel]
            | some y => rw [hla, hlb] at hk; simp [optRel] at hk
          | some x =>
            cases hlb : lookup k kb with
            | none => rw [hla, hlb] at hk; simp [optRel] at hk
            | some y =>
              rw [hla, hlb] at hk
              have hxy : same x y = true := hk
              rw [optRel_dn_some]
              exact (ih k x (mem_of_lookup hla) y (p ++ [k]) (wf_of_lookup hwa hla) (wf_of_lookup hwb hlb)).1
                (diff_of_pyEq _ hxy)
        · rw [if_neg hpe] at hd
          simp only [List.append_eq_nil_iff] at hd
          obtain ⟨⟨hA, hR⟩, hC⟩ := hd
          rw [diffAdded_nil_iff] at hA
          rw [diffRemoved_nil_iff] at hR
          rw [diffCommon_nil_iff] at hC
          cases hla : lookup k ka with
          | none =>
            cases hlb : lookup k kb with
            | none => simp [dnOpt, optRel]
            | some y =>
              have := hA k y (mem_of_lookup hlb) hla
              subst this
              simp [dnOpt, isNull, optRel]
          | some x =>
            cases hlb : lookup k kb with
            | none =>
              have := hR k x (mem_of_lookup hla) hlb
              subst this
              simp [dnOpt, isNull, optRel]
            | some y =>
              rw [optRel_dn_some]
              exact (ih k x (mem_of_lookup hla) y (p ++ [k]) (wf_of_lookup hwa hla) (wf_of_lookup hwb hlb)).1
                (hC k x (mem_of_lookup hla) y hlb)
      · intro h
        by_cases hpe : same (.obj ka) (.obj kb) = true
        · rw [if_pos hpe]
        · rw [if_neg hpe]
          simp only [List.append_eq_nil_iff]
          refine ⟨⟨?_, ?_⟩, ?_⟩
          · rw [diffAdded_nil_iff]
            intro k y hm hl
            have hk := h k
            rw [hl, lookup_of_mem hwb hm] at hk
            cases hd : dnOpt (some y) with
            | none => exact (dnOpt_none_iff y).1 hd
            | some v => rw [hd] at hk; simp [dnOpt, optRel] at hk
          · rw [diffRemoved_nil_iff]
            intro k x hm hl
            have hk := h k
            rw [hl, lookup_of_mem hwa hm] at hk
            cases hd : dnOpt (some x) with
            | none => exact (dnOpt_none_iff x).1 hd
            | some v => rw [hd] at hk; simp [dnOpt, optRel] at hk
          · rw [diffCommon_nil_iff]
            intro k x hm y hl
            have hk := h k
            rw [hl, lookup_of_mem hwa hm, optRel_dn_some] at hk
            exact (ih k x hm y (p ++ [k]) (wf_of_mem hwa hm) (wf_of_lookup hwb hl)).2 hk

end Kopf.C04
