/-
  C08 helper lemmas, part 2: one request (`step`), the early-exit structure of `patch_obj`
  (`doReq`, the stages, `finish`), and the invariants lifted through them.
-/
import Kopf.Lemmas.C08_Assoc
namespace Kopf.C08
open Kopf Kopf.J

/-! ## `put` -/

theorem sameContent_eq {a b : Obj} (h : sameContent a b = true) :
    a.marked = b.marked ∧ a.fins = b.fins ∧ a.body = b.body := by
  unfold sameContent at h
  simp only [Bool.and_eq_true, beq_iff_eq] at h
  obtain ⟨⟨h1, h2⟩, h3⟩ := h
  have := eq_of_beq _ _ h3
  simp only [J.obj.injEq] at this
  exact ⟨h1, h2, this⟩

/-- the three ways a write ends -/
theorem put_cases (s : Server) (old new : Obj) :
    (sameContent old new = true ∧ s.put old new = (s, old)) ∨
    (sameContent old new = false ∧ new.marked = true ∧ new.fins = [] ∧
      s.put old new = ({ s with clock := s.clock + 1, obj := none }, { new with rv := old.rv })) ∨
    (sameContent old new = false ∧ ¬ (new.marked = true ∧ new.fins = []) ∧
      s.put old new = ({ s with clock := s.clock + 1, obj := some { new with rv := s.clock + 1 } },
                       { new with rv := s.clock + 1 })) := by
  unfold Server.put
  cases hs : sameContent old new with
  | true => left; simp
  | false =>
    right
    cases hm : new.marked <;> cases hf : new.fins <;> simp [List.isEmpty]

def UidInv (u : Nat) (s : Server) : Prop := ∀ o, s.obj = some o → o.uid = u

theorem put_uid (s : Server) (old new : Obj) (u : Nat) (hs : UidInv u s) (ho : old.uid = u) (hn : new.uid = u) :
    (s.put old new).2.uid = u ∧ UidInv u (s.put old new).1 := by
  rcases put_cases s old new with ⟨_, h⟩ | ⟨_, _, _, h⟩ | ⟨_, _, h⟩ <;> rw [h]
  · exact ⟨ho, hs⟩
  · exact ⟨hn, by intro o h'; simp at h'⟩
  · refine ⟨hn, ?_⟩
    intro o h'
    simp at h'
    rw [← h']; exact hn

/-! ## `step` -/

/-- an injected response: some status that is neither a success nor "not found" -/
def FaultCode (env : Env) (k : Kind) (c : Nat) : Prop := env.faults k ≠ .none ∧ c ≠ 200 ∧ c ≠ 404

/-- everything `step` can do, as one case analysis -/
theorem step_cases (sub : Bool) (env : Env) (k : Kind) (pl : Payload) (s : Server) :
    -- injected fault
    ((env.faults k = .notFound ∧ step sub env k pl s = (slipped env k s, ⟨k, pl, none, 404⟩, none)) ∨
     (∃ c, FaultCode env k c ∧ step sub env k pl s = (slipped env k s, ⟨k, pl, none, c⟩, none))) ∨
    -- nothing under the name
    (env.faults k = .none ∧ (slipped env k s).obj = none ∧
      step sub env k pl s = (slipped env k s, ⟨k, pl, none, 404⟩, none)) ∨
    -- the test op fails
    (∃ o, env.faults k = .none ∧ (slipped env k s).obj = some o ∧ applyPayload pl o = none ∧
      step sub env k pl s = (slipped env k s, ⟨k, pl, some o.uid, 422⟩, none)) ∨
    -- served
    (∃ o new, env.faults k = .none ∧ (slipped env k s).obj = some o ∧ applyPayload pl o = some new ∧
      step sub env k pl s =
        (((slipped env k s).put o (route sub k.toStatus o new)).1, ⟨k, pl, some o.uid, 200⟩,
         some ((slipped env k s).put o (route sub k.toStatus o new)).2)) := by
  unfold step
  cases hf : env.faults k with
  | notFound => left; left; simp
  | unprocessable => left; right; exact ⟨422, ⟨(by rw [hf]; intro h; cases h), by decide, by decide⟩, by simp⟩
  | error c =>
    left; right
    refine ⟨errCode c, ⟨(by rw [hf]; intro h; cases h), ?_, ?_⟩, by simp⟩ <;> (unfold errCode; split <;> omega)
  | none =>
    right
    cases ho : (slipped env k s).obj with
    | none => left; simp [ho]
    | some o =>
      right
      cases ha : applyPayload pl o with
      | none => left; exact ⟨o, rfl, rfl, ha, by simp [ho, ha]⟩
      | some new => right; exact ⟨o, new, rfl, rfl, ha, by simp [ho, ha]⟩

theorem step_kind (sub : Bool) (env : Env) (k : Kind) (pl : Payload) (s : Server) :
    (step sub env k pl s).2.1.kind = k ∧ (step sub env k pl s).2.1.payload = pl := by
  rcases step_cases sub env k pl s with (⟨_, e⟩ | ⟨c, _, e⟩) | ⟨_, _, e⟩ | ⟨o, _, _, _, e⟩ | ⟨o, new, _, _, _, e⟩ <;>
    rw [e] <;> exact ⟨rfl, rfl⟩

/-! ## early exit -/

def M.final : M St → St
  | .ok st => st
  | .error (st, _) => st

theorem final_bind (m : M St) (f : St → M St) :
    (m >>= f).final = match m with
      | .ok st => (f st).final
      | .error e => e.1 := by
  cases m with
  | ok st => rfl
  | error e => obtain ⟨st, x⟩ := e; rfl

theorem final_inv (P : St → Prop) {m : M St} {f : St → M St}
    (hm : P m.final) (hf : ∀ st, P st → P (f st).final) : P (m >>= f).final := by
  rw [final_bind]
  cases m with
  | ok st => exact hf st hm
  | error e => exact hm

theorem doReq_final (sub : Bool) (env : Env) (k : Kind) (pl : Payload) (st : St) :
    (doReq sub env k pl st).final.reqs = st.reqs ++ [(step sub env k pl st.server).2.1] ∧
    (doReq sub env k pl st).final.server = (step sub env k pl st.server).1 := by
  unfold doReq
  simp only
  split
  · exact ⟨rfl, rfl⟩
  · split
    · exact ⟨rfl, rfl⟩
    · split <;> exact ⟨rfl, rfl⟩

theorem finish_reqs (p : Patch) (m : M St) :
    (finish p m).reqs = m.final.reqs ∧ (finish p m).server = m.final.server := by
  cases m with
  | ok st => exact ⟨rfl, rfl⟩
  | error e => obtain ⟨st, x⟩ := e; cases x <;> exact ⟨rfl, rfl⟩

/-! ## all requests but the last are accepted; the last one decides the outcome -/

def AllOk (l : List Req) : Prop := ∀ r ∈ l, r.code = 200

def stopOf (r : Req) : Stop :=
  if r.code = 404 then .gone else if r.code = 422 ∧ r.kind.isJson = true then .conflict else .raised

inductive Good : M St → Prop where
  | ok (st : St) : AllOk st.reqs → Good (.ok st)
  | stop (st : St) (pre : List Req) (r : Req) :
      st.reqs = pre ++ [r] → AllOk pre → r.code ≠ 200 → Good (.error (st, stopOf r))

theorem good_inv {m : M St} (h : Good m) :
    (∃ st, m = .ok st ∧ AllOk st.reqs) ∨
    (∃ st pre r, m = .error (st, stopOf r) ∧ st.reqs = pre ++ [r] ∧ AllOk pre ∧ r.code ≠ 200) := by
  cases h with
  | ok st h => exact Or.inl ⟨st, rfl, h⟩
  | stop st pre r h1 h2 h3 => exact Or.inr ⟨st, pre, r, rfl, h1, h2, h3⟩

theorem good_doReq (sub : Bool) (env : Env) (k : Kind) (pl : Payload) (st : St) (h : AllOk st.reqs) :
    Good (doReq sub env k pl st) := by
  have hk := (step_kind sub env k pl st.server).1
  unfold doReq
  simp only
  split
  · rename_i hc
    apply Good.ok
    intro r hr
    simp only [List.mem_append, List.mem_singleton] at hr
    rcases hr with hr | hr
    · exact h r hr
    · rw [hr]; exact hc
  · rename_i hc
    split
    · rename_i h404
      have : Stop.gone = stopOf (step sub env k pl st.server).2.1 := by simp [stopOf, h404]
      rw [this]
      exact Good.stop _ st.reqs _ rfl h hc
    · rename_i h404
      split
      · rename_i hj
        have : Stop.conflict = stopOf (step sub env k pl st.server).2.1 := by simp [stopOf, hk, hj]
        rw [this]
        exact Good.stop _ st.reqs _ rfl h hc
      · rename_i hj
        have : Stop.raised = stopOf (step sub env k pl st.server).2.1 := by simp [stopOf, h404, hk, hj]
        rw [this]
        exact Good.stop _ st.reqs _ rfl h hc

theorem good_bind {m : M St} {f : St → M St} (hm : Good m)
    (hf : ∀ st, AllOk st.reqs → Good (f st)) : Good (m >>= f) := by
  cases hm with
  | ok st h => exact hf st h
  | stop st pre r h1 h2 h3 => exact Good.stop st pre r h1 h2 h3

theorem good_pure (st : St) (h : AllOk st.reqs) : Good (pure st : M St) := Good.ok st h

theorem good_stageMerge (sub : Bool) (p : Patch) (env : Env) (st : St) (h : AllOk st.reqs) :
    Good (stageMerge sub p env st) := by
  unfold stageMerge
  apply good_bind
  · unfold stageMergeBody
    split
    · exact good_pure st h
    · exact good_doReq _ _ _ _ _ h
  · intro st1 h1
    unfold stageMergeStatus
    split
    · exact good_doReq _ _ _ _ _ h1
    · exact good_pure st1 h1

theorem good_stageJsonBody (sub : Bool) (p : Patch) (F : Obj) (env : Env) (st : St) (h : AllOk st.reqs) :
    Good (stageJsonBody sub p F env st) := by
  unfold stageJsonBody
  split
  · exact good_doReq _ _ _ _ _ h
  · exact good_pure st h

theorem good_stageJsonStatus (sub : Bool) (p : Patch) (F orig : Obj) (env : Env) (st : St) (h : AllOk st.reqs) :
    Good (stageJsonStatus sub p F orig env st) := by
  unfold stageJsonStatus
  split
  · exact good_doReq _ _ _ _ _ h
  · exact good_pure st h

theorem good_stageJson (sub : Bool) (p : Patch) (orig : Obj) (env : Env) (st : St) (h : AllOk st.reqs) :
    Good (stageJson sub p orig env st) := by
  unfold stageJson
  exact good_bind (good_stageJsonBody _ _ _ _ _ h) (fun st' h' => good_stageJsonStatus _ _ _ _ _ _ h')

theorem good_patch (sub : Bool) (p : Patch) (orig : Obj) (env : Env) (s : Server) :
    Good (stageMerge sub p env ⟨s, [], none⟩ >>= stageJson sub p orig env) :=
  good_bind (good_stageMerge _ _ _ _ (by intro r hr; cases hr))
    (fun st h => good_stageJson _ _ _ _ _ h)

/-- a request that was not accepted is the last one, and it decides how the call ends -/
theorem good_stop_last {m : M St} (hm : Good m) (p : Patch) (r : Req) (hr : r ∈ (finish p m).reqs)
    (hc : r.code ≠ 200) :
    (finish p m).reqs.getLast? = some r ∧ ∃ st, m = .error (st, stopOf r) := by
  cases hm with
  | ok st h =>
    simp only [finish] at hr
    exact absurd (h r hr) hc
  | stop st pre r' h1 h2 h3 =>
    have hreqs : (finish p (.error (st, stopOf r'))).reqs = st.reqs := (finish_reqs p _).1
    rw [hreqs] at hr ⊢
    rw [h1] at hr ⊢
    simp only [List.mem_append, List.mem_singleton] at hr
    rcases hr with hr | hr
    · exact absurd (h2 r hr) hc
    · subst hr
      exact ⟨by simp, st, rfl⟩

/-! ## an accepted request leaves a response body -/

/-- nothing has been sent yet and there is no response body, or something was sent and accepted and the
    client holds the last response body -/
def SentHasBody (st : St) : Prop :=
  (st.reqs = [] ∧ st.fresh = none) ∨ (st.reqs ≠ [] ∧ st.fresh.isSome = true)

def OkInv (P : St → Prop) (m : M St) : Prop := ∀ st', m = .ok st' → P st'

theorem okInv_bind {P : St → Prop} {m : M St} {f : St → M St} (hm : OkInv P m)
    (hf : ∀ st, P st → OkInv P (f st)) : OkInv P (m >>= f) := by
  intro st' h
  cases m with
  | ok st => exact hf st (hm st rfl) st' h
  | error e => cases h

theorem okInv_pure {P : St → Prop} (st : St) (h : P st) : OkInv P (pure st : M St) := by
  intro st' e; cases e; exact h

theorem doReq_ok_body (sub : Bool) (env : Env) (k : Kind) (pl : Payload) (st : St) :
    OkInv SentHasBody (doReq sub env k pl st) := by
  intro st' h
  unfold doReq at h
  simp only at h
  split at h
  · rename_i hc
    cases h
    right
    refine ⟨by simp, ?_⟩
    rcases step_cases sub env k pl st.server with (⟨_, e⟩ | ⟨c, hcc, e⟩) | ⟨_, _, e⟩ | ⟨o, _, _, _, e⟩ | ⟨o, new, _, _, _, e⟩
    · rw [e] at hc; simp at hc
    · rw [e] at hc; exact absurd hc hcc.2.1
    · rw [e] at hc; simp at hc
    · rw [e] at hc; simp at hc
    · rw [e]; rfl
  · split at h
    · cases h
    · split at h <;> cases h

theorem patch_ok_body (sub : Bool) (p : Patch) (orig : Obj) (env : Env) (s : Server) :
    OkInv SentHasBody (stageMerge sub p env ⟨s, [], none⟩ >>= stageJson sub p orig env) := by
  apply okInv_bind
  · unfold stageMerge
    apply okInv_bind
    · unfold stageMergeBody
      split
      · exact okInv_pure _ (Or.inl ⟨rfl, rfl⟩)
      · exact doReq_ok_body _ _ _ _ _
    · intro st hst
      unfold stageMergeStatus
      split
      · exact doReq_ok_body _ _ _ _ _
      · exact okInv_pure _ hst
  · intro st hst
    unfold stageJson
    apply okInv_bind
    · unfold stageJsonBody
      split
      · exact doReq_ok_body _ _ _ _ _
      · exact okInv_pure _ hst
    · intro st1 hst1
      unfold stageJsonStatus
      split
      · exact doReq_ok_body _ _ _ _ _
      · exact okInv_pure _ hst1

/-! ## the uid under the name does not change unless somebody recreates the object -/

theorem foreign_uid (u : Nat) (w : Foreign) (s : Server) (h : UidInv u s)
    (hw : ∀ b, w ≠ .recreate b) : UidInv u (foreign w s) := by
  cases w with
  | recreate b => exact absurd rfl (hw b)
  | edit p =>
    cases ho : s.obj with
    | none =>
      have e : foreign (.edit p) s = s := by simp [foreign, ho]
      rw [e]; exact h
    | some o =>
      have e : foreign (.edit p) s = (s.put o { o with body := clean (mergeKvs o.body p) }).1 := by
        simp [foreign, ho]
      rw [e]; exact (put_uid s o _ u h (h o ho) (by exact h o ho)).2
  | setFins l =>
    cases ho : s.obj with
    | none =>
      have e : foreign (.setFins l) s = s := by simp [foreign, ho]
      rw [e]; exact h
    | some o =>
      have e : foreign (.setFins l) s = (s.put o { o with fins := l }).1 := by simp [foreign, ho]
      rw [e]; exact (put_uid s o _ u h (h o ho) (by exact h o ho)).2
  | delete =>
    cases ho : s.obj with
    | none =>
      have e : foreign .delete s = s := by simp [foreign, ho]
      rw [e]; exact h
    | some o =>
      cases hf : o.fins.isEmpty with
      | true =>
        have e : foreign .delete s = { s with clock := s.clock + 1, obj := none } := by simp [foreign, ho, hf]
        rw [e]; intro o' h'; simp at h'
      | false =>
        have e : foreign .delete s = (s.put o { o with marked := true }).1 := by simp [foreign, ho, hf]
        rw [e]; exact (put_uid s o _ u h (h o ho) (by exact h o ho)).2

theorem slipped_uid (u : Nat) (env : Env) (k : Kind) (s : Server) (h : UidInv u s)
    (hw : ∀ k w, w ∈ env.slips k → ∀ b, w ≠ .recreate b) : UidInv u (slipped env k s) := by
  unfold slipped
  have : ∀ (l : List Foreign) (s : Server), UidInv u s → (∀ w ∈ l, ∀ b, w ≠ .recreate b) →
      UidInv u (l.foldl (fun s w => foreign w s) s) := by
    intro l
    induction l with
    | nil => intro s hs _; exact hs
    | cons w ws ih =>
      intro s hs hl
      simp only [List.foldl_cons]
      exact ih _ (foreign_uid u w s hs (hl w (by simp))) (fun w' hw' => hl w' (by simp [hw']))
  exact this _ s h (hw k)

theorem applyPayload_uid {pl : Payload} {o new : Obj} (h : applyPayload pl o = some new) : new.uid = o.uid := by
  unfold applyPayload at h
  cases pl with
  | merge p => simp at h; rw [← h]
  | json t fi st =>
    simp only at h
    split at h
    · cases h
    · simp at h; rw [← h]

theorem route_uid (sub ts : Bool) (o new : Obj) (h : new.uid = o.uid) : (route sub ts o new).uid = o.uid := by
  unfold route
  cases sub <;> cases ts <;> simp [h]

theorem step_uid (u : Nat) (sub : Bool) (env : Env) (k : Kind) (pl : Payload) (s : Server)
    (h : UidInv u s) (hw : ∀ k w, w ∈ env.slips k → ∀ b, w ≠ .recreate b) :
    UidInv u (step sub env k pl s).1 ∧ ∀ t, (step sub env k pl s).2.1.target = some t → t = u := by
  have hs := slipped_uid u env k s h hw
  rcases step_cases sub env k pl s with (⟨_, e⟩ | ⟨c, _, e⟩) | ⟨_, _, e⟩ | ⟨o, _, ho, _, e⟩ | ⟨o, new, _, ho, ha, e⟩
  · rw [e]; exact ⟨hs, by intro t ht; cases ht⟩
  · rw [e]; exact ⟨hs, by intro t ht; cases ht⟩
  · rw [e]; exact ⟨hs, by intro t ht; cases ht⟩
  · rw [e]; exact ⟨hs, by intro t ht; simp at ht; rw [← ht]; exact hs o ho⟩
  · rw [e]
    have hu := hs o ho
    have hr := route_uid sub k.toStatus o new (applyPayload_uid ha)
    refine ⟨(put_uid _ o _ u hs hu (hr.trans hu)).2, ?_⟩
    intro t ht; simp at ht; rw [← ht]; exact hu

def TargetsOk (u : Nat) (st : St) : Prop :=
  UidInv u st.server ∧ ∀ r ∈ st.reqs, ∀ t, r.target = some t → t = u

theorem doReq_targets (u : Nat) (sub : Bool) (env : Env) (k : Kind) (pl : Payload) (st : St)
    (hw : ∀ k w, w ∈ env.slips k → ∀ b, w ≠ .recreate b) (h : TargetsOk u st) :
    TargetsOk u (doReq sub env k pl st).final := by
  obtain ⟨h1, h2⟩ := doReq_final sub env k pl st
  obtain ⟨s1, s2⟩ := step_uid u sub env k pl st.server h.1 hw
  refine ⟨by rw [h2]; exact s1, ?_⟩
  rw [h1]
  intro r hr t ht
  simp only [List.mem_append, List.mem_singleton] at hr
  rcases hr with hr | hr
  · exact h.2 r hr t ht
  · subst hr; exact s2 t ht

theorem pure_final (st : St) : (pure st : M St).final = st := rfl

theorem stageMerge_targets (u : Nat) (sub : Bool) (p : Patch) (env : Env) (st : St)
    (hw : ∀ k w, w ∈ env.slips k → ∀ b, w ≠ .recreate b) (h : TargetsOk u st) :
    TargetsOk u (stageMerge sub p env st).final := by
  unfold stageMerge
  apply final_inv (TargetsOk u)
  · unfold stageMergeBody
    split
    · exact h
    · exact doReq_targets u _ _ _ _ _ hw h
  · intro st1 h1
    unfold stageMergeStatus
    split
    · exact doReq_targets u _ _ _ _ _ hw h1
    · exact h1

theorem stageJson_targets (u : Nat) (sub : Bool) (p : Patch) (orig : Obj) (env : Env) (st : St)
    (hw : ∀ k w, w ∈ env.slips k → ∀ b, w ≠ .recreate b) (h : TargetsOk u st) :
    TargetsOk u (stageJson sub p orig env st).final := by
  unfold stageJson
  apply final_inv (TargetsOk u)
  · unfold stageJsonBody
    split
    · exact doReq_targets u _ _ _ _ _ hw h
    · exact h
  · intro st1 h1
    unfold stageJsonStatus
    split
    · exact doReq_targets u _ _ _ _ _ hw h1
    · exact h1

/-! ## which requests a call can contain -/

/-- every request of a call is one of the four, with the payload the patch dictates -/
def ReqShape (sub : Bool) (p : Patch) (r : Req) : Prop :=
  (r.kind = .mergeBody ∧ r.payload = .merge (bodyPart sub p.fields) ∧ (bodyPart sub p.fields).isEmpty = false) ∨
  (r.kind = .mergeStatus ∧ sub = true ∧ ∃ v, lookup "status" p.fields = some v ∧ r.payload = .merge [("status", v)]) ∨
  (r.kind = .jsonBody ∧ ∃ t fi sb, r.payload = .json t fi sb ∧ (sub = true → sb = none)) ∨
  (r.kind = .jsonStatus ∧ sub = true ∧ ∃ t v, r.payload = .json t none (some v))

theorem statusPart_some {sub : Bool} {fields : Kvs} {v : J} (h : statusPart sub fields = some v) :
    sub = true ∧ lookup "status" fields = some v := by
  unfold statusPart at h
  cases sub with
  | false => simp at h
  | true => simpa using h

theorem doReq_shape (sub : Bool) (p : Patch) (env : Env) (k : Kind) (pl : Payload) (st : St)
    (h : ∀ r ∈ st.reqs, ReqShape sub p r)
    (hnew : ∀ r, r.kind = k → r.payload = pl → ReqShape sub p r) :
    ∀ r ∈ (doReq sub env k pl st).final.reqs, ReqShape sub p r := by
  rw [(doReq_final sub env k pl st).1]
  intro r hr
  simp only [List.mem_append, List.mem_singleton] at hr
  rcases hr with hr | hr
  · exact h r hr
  · subst hr
    exact hnew _ (step_kind sub env k pl st.server).1 (step_kind sub env k pl st.server).2

theorem jsonBodyPayload_shape {sub : Bool} {fns : List Fn} {F : Obj} {pl : Payload}
    (h : jsonBodyPayload sub fns F = some pl) :
    ∃ fi sb, pl = .json F.rv fi sb ∧ (sub = true → sb = none) ∧
      (fi = none ∨ fi = some (applyFns fns F).fins) ∧
      (finsChanged F (applyFns fns F) = true → fi = some (applyFns fns F).fins) := by
  unfold jsonBodyPayload at h
  simp only at h
  by_cases hcond : ((if finsChanged F (applyFns fns F) = true then some (applyFns fns F).fins else none).isSome ||
      (if (!sub && statusChanged F (applyFns fns F)) = true then lookup "status" (applyFns fns F).body else none).isSome) = true
  · rw [if_pos hcond] at h
    cases h
    refine ⟨_, _, rfl, ?_, ?_, ?_⟩
    · intro hs; simp [hs]
    · by_cases hc : finsChanged F (applyFns fns F) = true
      · right; simp [hc]
      · left; simp [hc]
    · intro hc; simp [hc]
  · rw [if_neg hcond] at h
    cases h

theorem patch_shape (sub : Bool) (p : Patch) (orig : Obj) (env : Env) (s : Server) :
    ∀ r ∈ (stageMerge sub p env ⟨s, [], none⟩ >>= stageJson sub p orig env).final.reqs, ReqShape sub p r := by
  apply final_inv (fun st => ∀ r ∈ st.reqs, ReqShape sub p r)
  · unfold stageMerge
    apply final_inv (fun st => ∀ r ∈ st.reqs, ReqShape sub p r)
    · unfold stageMergeBody
      split
      · intro r hr; cases hr
      · rename_i hne
        apply doReq_shape
        · intro r hr; cases hr
        · intro r hk hp; left; exact ⟨hk, hp, by simpa using hne⟩
    · intro st1 h1
      unfold stageMergeStatus
      split
      · rename_i v hv
        obtain ⟨hs, hl⟩ := statusPart_some hv
        apply doReq_shape _ _ _ _ _ _ h1
        intro r hk hp; right; left; exact ⟨hk, hs, v, hl, hp⟩
      · exact h1
  · intro st h
    unfold stageJson
    apply final_inv (fun st => ∀ r ∈ st.reqs, ReqShape sub p r)
    · unfold stageJsonBody
      split
      · rename_i pl hpl
        obtain ⟨fi, sb, e, hsb, _, _⟩ := jsonBodyPayload_shape hpl
        apply doReq_shape _ _ _ _ _ _ h
        intro r hk hp; right; right; left; exact ⟨hk, _, fi, sb, by rw [hp, e], hsb⟩
      · exact h
    · intro st1 h1
      unfold stageJsonStatus
      split
      · rename_i v hv
        have hs : sub = true := by
          unfold jsonStatusValue at hv
          cases sub <;> simp_all
        apply doReq_shape _ _ _ _ _ _ h1
        intro r hk hp; right; right; right; exact ⟨hk, hs, _, v, hp⟩
      · exact h1

end Kopf.C08
