/-
  C20 — helper lemmas about the release of a dimension (`Kopf.Model.C20_Release`): with the order of the tree (stop and wait,
  THEN forget) everything alive is known at every moment a cancellation can arrive.
-/
import Kopf.Model.C20_Release
namespace Kopf.C20.Release

/-- everything alive is known -/
def Inv (s : St) : Prop := ∀ k, k ∈ s.alive → k ∈ s.known

theorem inv_init : Inv init := fun _ h => by cases h

theorem mem_without {l red : List Key} {k : Key} : k ∈ without l red ↔ k ∈ l ∧ k ∉ red := by
  unfold without
  simp [List.mem_filter]

theorem inv_leftBehind {s : St} (h : Inv s) : leftBehind s = [] := by
  unfold leftBehind
  apply List.eq_nil_iff_forall_not_mem.mpr
  intro k hk
  have := mem_without.mp hk
  exact this.2 (h k this.1)

theorem release_inv {s : St} (h : Inv s) (red : List Key) (i : Bool) : Inv (release red i (order true) s).1 := by
  unfold order
  simp only [if_true, release]
  cases i with
  | true => simpa using h
  | false =>
    simp only [Bool.false_eq_true, if_false]
    intro k hk
    have hk' := mem_without.mp hk
    exact mem_without.mpr ⟨h k hk'.1, hk'.2⟩

theorem adjust_inv {s : St} (h : Inv s) (red add : List Key) (i : Bool) : Inv (adjust true s red add i).1 := by
  have hr := release_inv h red i
  simp only [adjust]
  by_cases hc : (release red i (order true) s).2 = true
  · rw [if_pos hc]
    intro k hk
    simp only [List.mem_append] at hk ⊢
    cases hk with
    | inl hk => exact Or.inl (hr k hk)
    | inr hk => exact Or.inr hk
  · rw [if_neg hc]
    exact hr

theorem run_inv : ∀ (ops : List (List Key × List Key)) (i : Bool) {s : St}, Inv s → Inv (run true s ops i)
  | [], _, _, h => h
  | [(d, a)], i, _, h => by unfold run; exact adjust_inv h d a i
  | (d, a) :: (x :: rest), i, _, h => by
    unfold run
    exact run_inv (x :: rest) i (adjust_inv h d a false)

end Kopf.C20.Release
