/-
  C04 — the essence of a well-formed body is well-formed.
-/
import Kopf.Lemmas.C04_FirstAnn
set_option linter.unusedSimpArgs false
namespace Kopf.C04
open Kopf Kopf.J

theorem wfKvs_insert {k : String} {v : J} {l : Kvs} (hl : wfKvs l = true) (hv : wf v = true) :
    wfKvs (J.insert k v l) = true := by
  obtain ⟨hn, hvals⟩ := (wfKvs_iff l).1 hl
  refine (wfKvs_iff _).2 ⟨nodupKeys_insert k v hn, ?_⟩
  intro k' x hx
  by_cases e : k' = k
  · subst e; rw [lookup_insert_same] at hx; cases hx; exact hv
  · rw [lookup_insert_other v l e] at hx; exact hvals k' x hx

theorem wfKvs_erase {k : String} {l : Kvs} (hl : wfKvs l = true) : wfKvs (erase k l) = true := by
  obtain ⟨hn, hvals⟩ := (wfKvs_iff l).1 hl
  refine (wfKvs_iff _).2 ⟨nodupKeys_erase k hn, ?_⟩
  intro k' x hx
  by_cases e : k' = k
  · subst e; rw [lookup_erase_same] at hx; cases hx
  · rw [lookup_erase_other l e] at hx; exact hvals k' x hx

theorem hasKey_filter {p : String × J → Bool} {k : String} : ∀ {l : Kvs}, hasKey k l = false → hasKey k (l.filter p) = false
  | [], _ => rfl
  | (k2, v2) :: l, h => by
    simp at h
    by_cases hp : p (k2, v2) = true
    · simp [List.filter_cons, hp, h.1, hasKey_filter h.2]
    · simp [List.filter_cons, hp, hasKey_filter h.2]

theorem wfKvs_filter (p : String × J → Bool) : ∀ {l : Kvs}, wfKvs l = true → wfKvs (l.filter p) = true
  | [], _ => rfl
  | (k2, v2) :: l, h => by
    obtain ⟨h1, h2, h3⟩ := (wfKvs_cons k2 v2 l).1 h
    by_cases hp : p (k2, v2) = true
    · simp only [List.filter_cons, hp, if_true]
      exact (wfKvs_cons _ _ _).2 ⟨hasKey_filter h1, h2, wfKvs_filter p h3⟩
    · simp only [List.filter_cons, hp]
      exact wfKvs_filter p h3

theorem wf_obj_iff {l : Kvs} : wf (.obj l) = true ↔ wfKvs l = true := by rw [wf_obj]

theorem wf_resolveE : ∀ (f : List String) (src v : J), wf src = true → resolveE src f = .ok v → wf v = true
  | [], src, v, hw, h => by simp [resolveE] at h; subst h; exact hw
  | k :: ks, src, v, hw, h => by
    cases src with
    | obj l =>
      rw [resolveE_obj_cons] at h
      cases hl : lookup k l with
      | none => rw [hl] at h; cases h
      | some c => rw [hl] at h; exact wf_resolveE ks c v (wf_of_lookup (wf_obj_iff.1 hw) hl) h
    | _ => simp [resolveE] at h

theorem wf_ensure : ∀ (f : List String) (d d' v : J), wf d = true → wf v = true → ensure d f v = .ok d' → wf d' = true
  | [], d, d', v, _, _, h => by cases d <;> simp [ensure] at h
  | [k], d, d', v, hd, hv, h => by
    obtain ⟨l, c, rfl, rfl, h1, _⟩ := ensure_obj_shape h
    rw [h1 rfl]
    exact wf_obj_iff.2 (wfKvs_insert (wf_obj_iff.1 hd) hv)
  | k :: k2 :: ks, d, d', v, hd, hv, h => by
    obtain ⟨l, c, rfl, rfl, _, h2⟩ := ensure_obj_shape h
    have hc := h2 k2 ks rfl
    have hchild : wf ((lookup k l).getD (.obj [])) = true := by
      cases hl : lookup k l with
      | none => rfl
      | some x => exact wf_of_lookup (wf_obj_iff.1 hd) hl
    exact wf_obj_iff.2 (wfKvs_insert (wf_obj_iff.1 hd) (wf_ensure (k2 :: ks) _ c v hchild hv hc))

theorem wf_remove : ∀ (f : List String) (d d' : J), wf d = true → remove d f = .ok d' → wf d' = true
  | [], d, d', _, h => by cases d <;> simp [remove] at h
  | [k], d, d', hd, h => by
    cases d with
    | obj l => simp [remove] at h; subst h; exact wf_obj_iff.2 (wfKvs_erase (wf_obj_iff.1 hd))
    | _ => simp [remove] at h
  | k :: k2 :: ks, d, d', hd, h => by
    cases d with
    | obj l =>
      simp only [remove] at h
      cases hl : lookup k l with
      | none => rw [hl] at h; simp at h; subst h; exact hd
      | some child =>
        rw [hl] at h
        simp only [] at h
        cases hc : remove child (k2 :: ks) with
        | error e => rw [hc] at h; simp [bind, Except.bind] at h
        | ok c' =>
          rw [hc] at h
          simp only [bind, Except.bind] at h
          have hwc := wf_remove (k2 :: ks) child c' (wf_of_lookup (wf_obj_iff.1 hd) hl) hc
          split at h
          · simp [pure, Except.pure] at h; subst h; exact wf_obj_iff.2 (wfKvs_erase (wf_obj_iff.1 hd))
          · simp [pure, Except.pure] at h; subst h; exact wf_obj_iff.2 (wfKvs_insert (wf_obj_iff.1 hd) hwc)
    | _ => simp [remove] at h

theorem wf_cherrypick (src : J) (hs : wf src = true) : ∀ (fs : List (List String)) (d d' : J),
    wf d = true → cherrypick src d fs = .ok d' → wf d' = true
  | [], d, d', hd, h => by simp [cherrypick] at h; subst h; exact hd
  | f :: fs, d, d', hd, h => by
    simp only [cherrypick] at h
    cases hr : resolveE src f with
    | error e =>
      rw [hr] at h
      cases e <;> simp only [] at h <;> first | exact wf_cherrypick src hs fs d d' hd h | cases h
    | ok v =>
      rw [hr] at h
      simp only [] at h
      cases he : liftD (ensure d f v) with
      | error e => rw [he] at h; simp [bind, Except.bind] at h
      | ok d1 =>
        rw [he] at h
        simp only [bind, Except.bind] at h
        exact wf_cherrypick src hs fs d1 d' (wf_ensure f d d1 v hd (wf_resolveE f src v hs hr) (liftD_ok he)) h

theorem wf_cherrypickSkip (src : J) (hs : wf src = true) : ∀ (fs : List (List String)) (d d' : J),
    wf d = true → cherrypickSkip src d fs = .ok d' → wf d' = true
  | [], d, d', hd, h => by simp [cherrypickSkip] at h; subst h; exact hd
  | f :: fs, d, d', hd, h => by
    simp only [cherrypickSkip] at h
    cases hc : cherrypick src d [f] with
    | ok d1 => rw [hc] at h; exact wf_cherrypickSkip src hs fs d1 d' (wf_cherrypick src hs [f] d d1 hd hc) h
    | error e =>
      rw [hc] at h
      cases e <;> simp only [] at h <;> first | exact wf_cherrypickSkip src hs fs d d' hd h | cases h

theorem wf_metaSet {e v : J} {name : String} (he : wf e = true) (hv : wf v = true) : wf (metaSet e name v) = true := by
  unfold metaSet
  cases e with
  | obj l =>
    simp only []
    cases hl : lookup "metadata" l with
    | none => exact he
    | some mm =>
      cases mm with
      | obj m =>
        simp only []
        have hm := wf_of_lookup (wf_obj_iff.1 he) hl
        exact wf_obj_iff.2 (wfKvs_insert (wf_obj_iff.1 he) (wf_obj_iff.2 (wfKvs_insert (wf_obj_iff.1 hm) hv)))
      | _ => exact he
  | _ => exact he

theorem wf_metaDel {e : J} {name : String} (he : wf e = true) : wf (metaDel e name) = true := by
  unfold metaDel
  cases e with
  | obj l =>
    simp only []
    cases hl : lookup "metadata" l with
    | none => exact he
    | some mm =>
      cases mm with
      | obj m =>
        simp only []
        have hm := wf_of_lookup (wf_obj_iff.1 he) hl
        exact wf_obj_iff.2 (wfKvs_insert (wf_obj_iff.1 he) (wf_obj_iff.2 (wfKvs_erase (wf_obj_iff.1 hm))))
      | _ => exact he
  | _ => exact he

theorem wf_dropIfFalsy {e : J} {name : String} (he : wf e = true) : wf (dropIfFalsy e name) = true := by
  unfold dropIfFalsy
  cases e with
  | obj l =>
    simp only []
    cases lookup name l with
    | none => exact he
    | some v =>
      simp only []
      split
      · exact he
      · exact wf_obj_iff.2 (wfKvs_erase (wf_obj_iff.1 he))
  | _ => exact he

theorem wf_metaDropIfFalsy {e : J} {name : String} (he : wf e = true) : wf (metaDropIfFalsy e name) = true := by
  unfold metaDropIfFalsy
  cases metaGet e name with
  | none => exact he
  | some v =>
    simp only []
    split
    · exact he
    · exact wf_metaDel he

theorem wf_removeEmptyStanzas {e : J} (he : wf e = true) : wf (removeEmptyStanzas e) = true := by
  simp only [removeEmptyStanzas]
  exact wf_dropIfFalsy (wf_dropIfFalsy (wf_metaDropIfFalsy (wf_metaDropIfFalsy he)))

theorem wf_filterAnnotations (keep : String → Bool) {e : J} (he : wf e = true) : wf (filterAnnotations keep e) = true := by
  unfold filterAnnotations
  cases hg : metaGet e "annotations" with
  | none => exact he
  | some v =>
    cases v with
    | obj anns =>
      simp only []
      have hwa : wf (.obj anns) = true := by
        cases e with
        | obj l =>
          rw [metaGet_obj] at hg
          cases hl : lookup "metadata" l with
          | none => rw [hl] at hg; cases hg
          | some mm =>
            rw [hl] at hg
            cases mm with
            | obj m => exact wf_of_lookup (wf_obj_iff.1 (wf_of_lookup (wf_obj_iff.1 he) hl)) hg
            | _ => cases hg
        | _ => simp [metaGet, get?] at hg
      exact wf_metaSet he (wf_obj_iff.2 (wfKvs_filter _ (wf_obj_iff.1 hwa)))
    | _ => exact he

theorem wf_ignoreFields : ∀ (ig : List (List String)) (e e' : J), wf e = true → ignoreFields e ig = .ok e' → wf e' = true
  | [], e, e', he, h => by simp [ignoreFields] at h; subst h; exact he
  | f :: fs, e, e', he, h => by
    simp only [ignoreFields] at h
    cases hr : remove e f with
    | ok e1 => rw [hr] at h; exact wf_ignoreFields fs e1 e' (wf_remove f e e1 he hr) h
    | error er =>
      rw [hr] at h
      cases er <;> simp only [] at h <;> first | exact wf_ignoreFields fs e e' he h | cases h

theorem wf_erase4 {kvs : Kvs} (h : wfKvs kvs = true) : wfKvs (erase4 kvs) = true :=
  wfKvs_erase (wfKvs_erase (wfKvs_erase (wfKvs_erase h)))

theorem wf_baseBuild {ig extra : List (List String)} {b e : J} (hb : wf b = true)
    (h : baseBuild ig extra b = .ok e) : wf e = true := by
  obtain ⟨kvs, rfl⟩ := baseBuild_obj h
  rw [baseBuild_eq] at h
  cases h1 : cherrypick (.obj kvs) (.obj (erase4 kvs)) [ML, MA] with
  | error er => rw [h1] at h; cases h
  | ok e1 =>
    rw [h1] at h
    have w1 := wf_cherrypick _ hb _ _ _ (wf_obj_iff.2 (wf_erase4 (wf_obj_iff.1 hb))) h1
    simp only [tailBuild] at h
    split at h
    · cases h
    · cases h3 : cherrypickSkip (.obj kvs) (stage2 e1) extra with
      | error er => rw [h3] at h; cases h
      | ok e3 =>
        rw [h3] at h
        simp only [] at h
        have w3 := wf_cherrypickSkip _ hb _ _ _ (wf_filterAnnotations _ w1) h3
        split at h
        · cases h
        · exact wf_ignoreFields ig _ e (wf_removeEmptyStanzas w3) h

theorem wf_leafBuild {hs : Hashes} {extra : List (List String)} {b e : J} (l : DiffBaseLeaf) (hb : wf b = true)
    (h : leafBuild hs extra b l = .ok e) : wf e = true := by
  cases l with
  | annotations p key v1 ig =>
    simp only [leafBuild] at h
    obtain ⟨e1, h1, h2⟩ := bind_ok h
    obtain ⟨mk, _, h3⟩ := bind_ok h2
    obtain ⟨ks, _, h4⟩ := bind_ok h3
    have w1 := wf_baseBuild hb h1
    cases hm : metaOK e1 with
    | false => simp [hm, throw, throwThe, MonadExceptOf.throw, bind, Except.bind] at h4
    | true =>
      simp [hm, pure, Except.pure] at h4
      subst h4
      exact wf_removeEmptyStanzas (wf_filterAnnotations _ w1)
  | status f ig =>
    simp only [leafBuild] at h
    obtain ⟨e1, h1, h2⟩ := bind_ok h
    exact wf_ignoreFields [f] e1 e (wf_baseBuild hb h1) h2

theorem wf_pseudoBody {orig e : J} (ho : wf orig = true) (he : wf e = true) : wf (pseudoBody orig e) = true := by
  cases e with
  | obj l =>
    have hl := wf_obj_iff.1 he
    have h1 : wfKvs (withKind orig l) = true := by
      unfold withKind
      cases hk : orig.get? "kind" with
      | none => exact hl
      | some kv =>
        simp only []
        refine wfKvs_insert hl ?_
        cases orig with
        | obj okvs => exact wf_of_lookup (wf_obj_iff.1 ho) (by simpa [get?] using hk)
        | _ => simp [get?] at hk
    show wf (.obj (withOwners orig (withKind orig l))) = true
    refine wf_obj_iff.2 ?_
    unfold withOwners
    cases hor : ownerRefs orig with
    | none => exact h1
    | some o =>
      simp only []
      have hwo : wf o = true := by
        unfold ownerRefs at hor
        cases orig with
        | obj okvs =>
          simp only [get?] at hor
          cases hm : lookup "metadata" okvs with
          | none => rw [hm] at hor; cases hor
          | some mv =>
            rw [hm] at hor
            cases mv with
            | obj m => exact wf_of_lookup (wf_obj_iff.1 (wf_of_lookup (wf_obj_iff.1 ho) hm)) hor
            | _ => cases hor
        | _ => simp [get?] at hor
      have hmk : wfKvs (metaKvs (withKind orig l)) = true := by
        unfold metaKvs
        cases hm : lookup "metadata" (withKind orig l) with
        | none => rfl
        | some mv =>
          cases mv with
          | obj mm => exact wf_obj_iff.1 (wf_of_lookup h1 hm)
          | _ => rfl
      exact wfKvs_insert h1 (wf_obj_iff.2 (wfKvs_insert hmk hwo))
  | _ => exact he

theorem wf_multiBuild {hs : Hashes} {extra : List (List String)} {orig : J} (ho : wf orig = true) :
    ∀ (ls : List DiffBaseLeaf) (b e : J), wf b = true → multiBuild hs extra orig b ls = .ok e → wf e = true
  | [], b, e, hb, h => by simp [multiBuild] at h; subst h; exact hb
  | l :: ls, b, e, hb, h => by
    simp only [multiBuild] at h
    obtain ⟨e1, h1, h2⟩ := bind_ok h
    exact wf_multiBuild ho ls e1 e (wf_leafBuild l (wf_pseudoBody ho hb) h1) h2

theorem wf_progressClear : ∀ (p : ProgressCfg) (e e' : J), wf e = true → progressClear e p = .ok e' → wf e' = true
  | [], e, e', he, h => by simp [progressClear] at h; subst h; exact he
  | .annotations pf :: ls, e, e', he, h => by
    simp only [progressClear] at h
    obtain ⟨e1, h1, h2⟩ := bind_ok h
    refine wf_progressClear ls e1 e' ?_ h2
    simp only [clearLeaf] at h1
    split at h1
    · cases h1
    · cases h1; exact wf_removeEmptyStanzas (wf_filterAnnotations _ he)
  | .status f t :: ls, e, e', he, h => by
    simp only [progressClear] at h
    obtain ⟨e1, h1, h3⟩ := bind_ok h
    refine wf_progressClear ls e1 e' ?_ h3
    simp only [clearLeaf] at h1
    obtain ⟨e0, h0, h2⟩ := bind_ok h1
    have w0 := wf_ignoreFields [f, t] e e0 he h0
    cases hm : metaOK e0 with
    | false => simp [hm, throw, throwThe, MonadExceptOf.throw, bind, Except.bind] at h2
    | true =>
      simp [hm, pure, Except.pure] at h2
      subst h2
      exact wf_removeEmptyStanzas w0

/-- **the essence of a well-formed body is well-formed.** -/
theorem wf_essence {cfg : Cfg} {extra : List (List String)} {b e : J} (hb : wf b = true)
    (h : essence cfg extra b = .ok e) : wf e = true := by
  simp only [essence] at h
  obtain ⟨e1, h1, h2⟩ := bind_ok h
  refine wf_progressClear cfg.progress e1 e ?_ h2
  cases hd : cfg.diffbase with
  | leaf l => rw [hd] at h1; exact wf_leafBuild l hb h1
  | multi ls =>
    rw [hd] at h1
    simp only [diffbaseBuild] at h1
    obtain ⟨e0, h0, h3⟩ := bind_ok h1
    exact wf_multiBuild hb ls e0 e1 (wf_baseBuild hb h0) h3

end Kopf.C04
