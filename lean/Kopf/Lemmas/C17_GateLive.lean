/-
  C17 helper lemmas, part 6: the gate can always open — structural invariant, a measure that every
  "helpful" step decreases, and the resulting continuation to an open gate.
-/
import Kopf.Lemmas.C17_Gate
namespace Kopf.C17.Gate
open Kopf.C17

section
variable {R O : Type} [DecidableEq R] [DecidableEq O]

/-! #### sums over lists -/

theorem sum_map_le {α : Type} (l : List α) (f g : α → Nat) (h : ∀ x ∈ l, g x ≤ f x) :
    (l.map g).sum ≤ (l.map f).sum := by
  induction l with
  | nil => simp
  | cons a r ih =>
    simp only [List.map_cons, List.sum_cons]
    have h1 := h a (by simp)
    have h2 := ih (fun x hx => h x (by simp [hx]))
    omega

theorem sum_map_lt {α : Type} (l : List α) (f g : α → Nat) (h : ∀ x ∈ l, g x ≤ f x)
    (x0 : α) (hx0 : x0 ∈ l) (hlt : g x0 < f x0) : (l.map g).sum < (l.map f).sum := by
  induction l with
  | nil => cases hx0
  | cons a r ih =>
    simp only [List.map_cons, List.sum_cons]
    have h1 := h a (by simp)
    have h2 := sum_map_le r f g (fun x hx => h x (by simp [hx]))
    rcases List.mem_cons.1 hx0 with he | he
    · subst he; omega
    · have := ih (fun x hx => h x (by simp [hx])) he
      omega

theorem sum_map_le_add {α : Type} [DecidableEq α] (l : List α) (f g : α → Nat) (x0 : α) (c : Nat)
    (hnd : l.Nodup) (h : ∀ x ∈ l, x ≠ x0 → g x = f x) (h0 : g x0 ≤ f x0 + c) :
    (l.map g).sum ≤ (l.map f).sum + c := by
  induction l with
  | nil => simp
  | cons a r ih =>
    simp only [List.map_cons, List.sum_cons]
    obtain ⟨ha, hr⟩ := List.nodup_cons.1 hnd
    by_cases he : a = x0
    · subst he
      have : (r.map g).sum = (r.map f).sum := by
        congr 1
        apply List.map_congr_left
        intro x hx
        exact h x (by simp [hx]) (fun hxa => ha (hxa ▸ hx))
      omega
    · have h1 := h a (by simp) he
      have h2 := ih hr (fun x hx hne => h x (by simp [hx]) hne)
      omega

/-! #### the measure -/

def pcRank : Pc → Nat
  | .queued => 3 | .indexed => 2 | .waiting => 1 | _ => 0

def rank (s : GState R O) (ro : R × O) : Nat :=
  match s.workers ro with
  | some w => pcRank w.pc
  | none => 0

def mu (s : GState R O) : Nat :=
  2 * s.pending.length + (if s.spawning then 1 else 0) + 4 * s.checked.length + s.resTog.length +
    (s.wlist.map (rank s)).sum

/-- structural facts that hold in every reachable state -/
structure PInvU (s : GState R O) : Prop where
  p1 : s.blocker = true → s.spawning = true
  p2 : (∀ p ∈ s.pending, aget p.1 s.spawned = none) ∧ (s.pending.map Prod.fst).Nodup
  p3 : ∀ r ∈ s.resTog, aget r s.spawned = some true ∧ r ∉ s.detached
  p4 : ∀ ro ∈ s.checked, free s ro = true ∧ ro.1 ∉ s.detached ∧ (aget ro.1 s.spawned).isSome = true
  p6 : ∀ ro w, s.workers ro = some w → ro ∈ s.wlist
  p8 : s.wlist.Nodup
  /-- every per-object toggle in the set belongs to a live worker on its way to `drop_toggle` -/
  p5 : ∀ ro ∈ s.objTog, ∃ w, s.workers ro = some w ∧ (w.pc = .queued ∨ w.pc = .indexed) ∧
        w.gated = true ∧ w.hasToggle = true

/-- … plus `Healthy` (nothing leaked): what makes every pending piece of work executable -/
structure PInv (s : GState R O) : Prop extends PInvU s where
  pl : s.leaked = []
  plk : s.leakedK = []

theorem PInv.ofU {s : GState R O} (hu : PInvU s) (hh : Healthy s) : PInv s :=
  { toPInvU := hu, pl := hh.1, plk := hh.2 }

theorem PInv.healthy {s : GState R O} (hp : PInv s) : Healthy s := ⟨hp.pl, hp.plk⟩

theorem pinvU_init : PInvU (GState.init : GState R O) := by
  refine ⟨?_, ?_, ?_, ?_, ?_, ?_, ?_⟩ <;> simp [GState.init]

theorem free_of_none {s : GState R O} {ro : R × O} (h : s.workers ro = none) : free s ro = true := by
  simp [free, h]

theorem not_free_of_pc {s : GState R O} {ro : R × O} {w : Worker} (h : s.workers ro = some w)
    (hpc : w.pc ≠ .idle) : free s ro = false := by
  simp [free, h, hpc]

theorem not_checked_of_pc {s : GState R O} (hp : PInvU s) {ro : R × O} {w : Worker}
    (hw : s.workers ro = some w) (hpc : w.pc ≠ .idle) : ro ∉ s.checked := by
  intro hc
  have := (hp.p4 ro hc).1
  rw [not_free_of_pc hw hpc] at this
  cases this

theorem pc_of_objTog {s : GState R O} (hp : PInvU s) {ro : R × O} {w : Worker}
    (hw : s.workers ro = some w) (ho : ro ∈ s.objTog) :
    (w.pc = .queued ∨ w.pc = .indexed) ∧ w.gated = true ∧ w.hasToggle = true := by
  obtain ⟨w', h1, h2⟩ := hp.p5 ro ho
  rw [hw] at h1; cases h1; exact h2

/-- an absent or idle worker holds no toggle -/
theorem holds_false_of_free {s : GState R O} (hp : PInvU s) {ro : R × O} (hfree : free s ro = true) :
    holds s ro = false := by
  unfold holds
  cases hw : s.workers ro with
  | none => rfl
  | some w =>
    by_cases ho : ro ∈ s.objTog
    · have h2 := (pc_of_objTog hp hw ho).1
      have : free s ro = false := not_free_of_pc hw (by rcases h2 with h2 | h2 <;> simp [h2])
      rw [hfree] at this; cases this
    · simp [ho]

/-- a pc change of one worker that is not being (re)started by its watcher -/
theorem pinvU_setPc {s : GState R O} (hp : PInvU s) (ro : R × O) (w : Worker) (pc : Pc)
    (hw : s.workers ro = some w) (hc : ro ∉ s.checked)
    (h5 : ro ∈ s.objTog → pc = .queued ∨ pc = .indexed) : PInvU (setPc s ro w pc) := by
  refine ⟨hp.p1, hp.p2, hp.p3, ?_, ?_, hp.p8, ?_⟩
  · intro ro' hro'
    obtain ⟨a, b, c⟩ := hp.p4 ro' hro'
    refine ⟨?_, b, c⟩
    have hne : ro' ≠ ro := fun he => hc (he ▸ hro')
    simp only [free, setPc, upd_other _ _ _ hne]
    exact a
  · intro ro' w' hw'
    simp only [setPc] at hw'
    by_cases he : ro' = ro
    · subst he; exact hp.p6 ro' w hw
    · rw [upd_other _ _ _ he] at hw'; exact hp.p6 ro' w' hw'
  · intro ro' hro'
    obtain ⟨w', h1, h2, h3, h4⟩ := hp.p5 ro' hro'
    by_cases he : ro' = ro
    · subst he
      rw [hw] at h1; cases h1
      exact ⟨{ w with pc := pc }, by simp [setPc, upd_same], h5 hro', h3, h4⟩
    · exact ⟨w', by simp [setPc, upd_other _ _ _ he, h1], h2, h3, h4⟩

/-- dropping the worker's own toggle (if it has one) keeps the structural invariant -/
theorem pinvU_dropOwn {s : GState R O} (hp : PInvU s) (ro : R × O) (w : Worker) :
    PInvU ({ s with objTog := if w.hasToggle then sdel ro s.objTog else s.objTog } : GState R O) := by
  refine ⟨hp.p1, hp.p2, hp.p3, hp.p4, hp.p6, hp.p8, ?_⟩
  intro ro' hro
  have hro' : ro' ∈ (if w.hasToggle = true then sdel ro s.objTog else s.objTog) := hro
  by_cases ht : w.hasToggle = true
  · rw [if_pos ht, mem_sdel] at hro'
    exact hp.p5 ro' hro'.1
  · rw [if_neg ht] at hro'
    exact hp.p5 ro' hro'

theorem not_own_after_drop {s : GState R O} (hp : PInvU s) {ro : R × O} {w : Worker}
    (hw : s.workers ro = some w) :
    ro ∉ (if w.hasToggle = true then sdel ro s.objTog else s.objTog) := by
  intro hro
  by_cases ht : w.hasToggle = true
  · rw [if_pos ht, mem_sdel] at hro
    exact absurd rfl hro.2
  · rw [if_neg ht] at hro
    exact absurd (pc_of_objTog hp hw hro).2.2 ht

/-- the structural invariant is preserved by EVERY label (also `indexFail` and `die`) -/
theorem step_pinvU {s s' : GState R O} (l : Label R O) (hi : Inv s) (hp : PInvU s)
    (h : step .none s l = some s') : PInvU s' := by
  cases l with
  | spawnBegin kinds =>
    simp only [step] at h
    split at h
    · rename_i hg
      simp only [Option.some.injEq] at h
      simp only [Bool.and_eq_true, Bool.not_eq_true', decide_eq_true_eq, List.all_eq_true,
        Option.isNone_iff_eq_none] at hg
      subst h
      exact ⟨by simp, ⟨fun p hp' => hg.2 p hp', hg.1.2⟩, hp.p3, hp.p4, hp.p6, hp.p8, hp.p5⟩
    · cases h
  | spawn r =>
    simp only [step] at h
    cases hpd : s.pending with
    | nil => simp [hpd] at h
    | cons p rest =>
      obtain ⟨r', ind⟩ := p
      simp only [hpd] at h
      by_cases hg : (s.spawning && decide (r' = r) && (aget r s.spawned).isNone) = true
      · simp only [hg, if_true, Option.some.injEq] at h
        simp only [Bool.and_eq_true, decide_eq_true_eq, Option.isNone_iff_eq_none] at hg
        obtain ⟨⟨hsp, hrr⟩, hnone⟩ := hg
        subst hrr
        subst h
        have hkeep : ∀ r0 x, aget r0 s.spawned = some x → aget r0 (s.spawned ++ [(r', ind)]) = some x := by
          intro r0 x h0; simp [aget_append_single, h0]
        have hp2 := hp.p2
        rw [hpd] at hp2
        obtain ⟨hp2a, hp2b⟩ := hp2
        simp only [List.map_cons, List.nodup_cons] at hp2b
        refine ⟨hp.p1, ⟨?_, hp2b.2⟩, ?_, ?_, hp.p6, hp.p8, hp.p5⟩
        · intro p hpr
          have h1 := hp2a p (by simp [hpr])
          have hne : r' ≠ p.1 := fun he => hp2b.1 (he ▸ List.mem_map_of_mem hpr)
          show aget p.1 (s.spawned ++ [(r', ind)]) = none
          simp [aget_append_single, h1, hne]
        · intro r0 hr0
          have hr0' : r0 ∈ (if (ind && (Bug.none != Bug.noKindToggle)) = true then sadd r' s.resTog else s.resTog) := hr0
          show aget r0 (s.spawned ++ [(r', ind)]) = some true ∧ r0 ∉ s.detached
          by_cases hc : (ind && (Bug.none != Bug.noKindToggle)) = true
          · rw [if_pos hc, mem_sadd] at hr0'
            rcases hr0' with h0 | h0
            · subst h0
              have hind : ind = true := by simp only [Bool.and_eq_true] at hc; exact hc.1
              refine ⟨by simp [aget_append_single, hnone, hind], ?_⟩
              intro hd
              have := hi.c6 r0 hd
              simp [hnone] at this
            · exact ⟨hkeep r0 true (hp.p3 r0 h0).1, (hp.p3 r0 h0).2⟩
          · rw [if_neg hc] at hr0'
            exact ⟨hkeep r0 true (hp.p3 r0 hr0').1, (hp.p3 r0 hr0').2⟩
        · intro ro hro
          obtain ⟨a, b, c⟩ := hp.p4 ro hro
          refine ⟨a, b, ?_⟩
          show (aget ro.1 (s.spawned ++ [(r', ind)])).isSome = true
          cases hg0 : aget ro.1 s.spawned with
          | none => simp [hg0] at c
          | some x => simp [hkeep ro.1 x hg0]
      · simp [hg] at h
  | spawnEnd =>
    simp only [step] at h
    split at h
    · simp only [Option.some.injEq] at h
      subst h
      exact ⟨by simp, hp.p2, hp.p3, hp.p4, hp.p6, hp.p8, hp.p5⟩
    · cases h
  | die r =>
    simp only [step] at h
    cases hsp : aget r s.spawned with
    | none => simp [hsp] at h
    | some ind =>
      simp only [hsp, Option.some.injEq] at h
      subst h
      refine ⟨hp.p1, ⟨?_, hp.p2.2⟩, ?_, ?_, ?_, hp.p8, ?_⟩
      · intro p hpr
        show aget p.1 (adel r s.spawned) = none
        rw [aget_adel]
        split
        · rfl
        · exact hp.p2.1 p hpr
      · intro r0 hr0
        have hr0' : r0 ∈ sdel r s.resTog := hr0
        rw [mem_sdel] at hr0'
        obtain ⟨a, b⟩ := hp.p3 r0 hr0'.1
        refine ⟨?_, ?_⟩
        · show aget r0 (adel r s.spawned) = some true
          rw [aget_adel_other _ hr0'.2]; exact a
        · show r0 ∉ sdel r s.detached
          rw [mem_sdel]; exact fun hx => b hx.1
      · intro ro hro
        have hro' : ro ∈ s.checked.filter (fun ro => !decide (ro.1 = r)) := hro
        simp only [List.mem_filter, Bool.not_eq_true', decide_eq_false_iff_not] at hro'
        obtain ⟨a, b, c⟩ := hp.p4 ro hro'.1
        refine ⟨?_, ?_, ?_⟩
        · show free _ ro = true
          simp only [free, hro'.2, if_false]
          exact a
        · show ro.1 ∉ sdel r s.detached
          rw [mem_sdel]; exact fun hx => b hx.1
        · show (aget ro.1 (adel r s.spawned)).isSome = true
          rw [aget_adel_other _ hro'.2]; exact c
      · intro ro w hw
        have hw' : (if ro.1 = r then none else s.workers ro) = some w := hw
        by_cases he : ro.1 = r
        · simp [he] at hw'
        · simp only [he, if_false] at hw'
          exact hp.p6 ro w hw'
      · intro ro hro
        have hro' : ro ∈ s.objTog.filter (fun ro => !decide (ro.1 = r)) := hro
        simp only [List.mem_filter, Bool.not_eq_true', decide_eq_false_iff_not] at hro'
        obtain ⟨w', h1, h2⟩ := hp.p5 ro hro'.1
        exact ⟨w', by show (if ro.1 = r then none else s.workers ro) = some w'; simp [hro'.2, h1], h2⟩
  | check r o on =>
    simp only [step] at h
    cases hsp : aget r s.spawned with
    | none => simp [hsp] at h
    | some ind =>
      simp only [hsp] at h
      split at h
      · rename_i hg
        by_cases hon : on = true
        · simp only [hon, if_true, Option.some.injEq] at h
          have hison : s.isOn = true := by rw [← hg.2.1]; exact hon
          have hres : s.resTog = [] := ((isOn_iff s).1 hison).2.1
          subst h
          refine ⟨hp.p1, hp.p2, ?_, ?_, hp.p6, hp.p8, hp.p5⟩
          · intro r0 hr0
            have : r0 ∈ s.resTog := hr0
            simp [hres] at this
          · intro ro hro
            obtain ⟨a, b, c⟩ := hp.p4 ro hro
            refine ⟨a, ?_, c⟩
            show ro.1 ∉ sadd r s.detached
            rw [mem_sadd]
            rintro (h0 | h0)
            · exact hg.2.2.2 (h0 ▸ List.mem_map_of_mem hro)
            · exact b h0
        · simp only [hon, Bool.false_eq_true, if_false, Option.some.injEq] at h
          subst h
          refine ⟨hp.p1, hp.p2, hp.p3, ?_, hp.p6, hp.p8, hp.p5⟩
          intro ro hro
          have hro' : ro ∈ sadd (r, o) s.checked := hro
          rw [mem_sadd] at hro'
          rcases hro' with h0 | h0
          · subst h0
            exact ⟨hg.1, hg.2.2.1, by simp [hsp]⟩
          · exact hp.p4 ro h0
      · cases h
  | arrive r o gated hasToggle =>
    simp only [step] at h
    cases hsp : aget r s.spawned with
    | none => simp [hsp] at h
    | some ind =>
      simp only [hsp] at h
      split at h
      · rename_i hfree
        split at h
        · have hfree' : free s (r, o) = true := hfree
          have hhold : holds s (r, o) = false := holds_false_of_free hp hfree'
          simp only [Option.some.injEq, hhold, Bool.false_eq_true, if_false] at h
          subst h
          refine ⟨hp.p1, hp.p2, hp.p3, ?_, ?_, nodup_sadd _ _ hp.p8, ?_⟩
          · intro ro hro
            have hro' : ro ∈ sdel (r, o) s.checked := hro
            rw [mem_sdel] at hro'
            obtain ⟨a, b, c⟩ := hp.p4 ro hro'.1
            refine ⟨?_, b, c⟩
            show free _ ro = true
            simp only [free, upd_other _ _ _ hro'.2]
            exact a
          · intro ro w hw'
            have hw'' : upd s.workers (r, o) (some ⟨.queued, !decide (r ∈ s.detached),
                !decide (r ∈ s.detached) && ind⟩) ro = some w := hw'
            show ro ∈ sadd (r, o) s.wlist
            rw [mem_sadd]
            by_cases he : ro = (r, o)
            · exact Or.inl he
            · rw [upd_other _ _ _ he] at hw''
              exact Or.inr (hp.p6 ro w hw'')
          · intro ro hro
            have hro' : ro ∈ (if (!decide (r ∈ s.detached) && ind) = true then sadd (r, o) s.objTog
                               else s.objTog) := hro
            have hold : ro ∈ s.objTog → ∃ w, upd s.workers (r, o) (some ⟨.queued, !decide (r ∈ s.detached),
                !decide (r ∈ s.detached) && ind⟩) ro = some w ∧
                (w.pc = .queued ∨ w.pc = .indexed) ∧ w.gated = true ∧ w.hasToggle = true := by
              intro h0
              obtain ⟨w', h1, h2, h3, h4⟩ := hp.p5 ro h0
              have hne : ro ≠ (r, o) := by
                intro he
                subst he
                have : free s (r, o) = false := not_free_of_pc h1 (by rcases h2 with h2 | h2 <;> simp [h2])
                rw [hfree'] at this; cases this
              exact ⟨w', by rw [upd_other _ _ _ hne]; exact h1, h2, h3, h4⟩
            by_cases ht : (!decide (r ∈ s.detached) && ind) = true
            · rw [if_pos ht, mem_sadd] at hro'
              rcases hro' with h0 | h0
              · subst h0
                refine ⟨_, upd_same _ _ _, Or.inl rfl, ?_, ht⟩
                simp only [Bool.and_eq_true] at ht
                exact ht.1
              · exact hold h0
            · rw [if_neg ht] at hro'
              exact hold hro'
        · cases h
      · cases h
  | listed r =>
    simp only [step] at h
    cases hsp : aget r s.spawned with
    | none => simp [hsp] at h
    | some ind =>
      simp only [hsp] at h
      split at h
      · cases h
      · simp only [Option.some.injEq] at h
        subst h
        refine ⟨hp.p1, hp.p2, ?_, hp.p4, hp.p6, hp.p8, hp.p5⟩
        intro r0 hr0
        have hr0' : r0 ∈ (if (ind && !decide (r ∈ s.detached)) = true then sdel r s.resTog else s.resTog) := hr0
        by_cases hc : (ind && !decide (r ∈ s.detached)) = true
        · rw [if_pos hc, mem_sdel] at hr0'
          exact hp.p3 r0 hr0'.1
        · rw [if_neg hc] at hr0'
          exact hp.p3 r0 hr0'
  | index r o =>
    simp only [step] at h
    cases hw : s.workers (r, o) with
    | none => simp [hw] at h
    | some w =>
      simp only [hw] at h
      split at h
      · rename_i hpc
        simp only [Option.some.injEq] at h
        have := pinvU_setPc (s := { s with indexedOnce := sadd (r, o) s.indexedOnce }) (ro := (r, o))
          (w := w) (pc := .indexed) ⟨hp.p1, hp.p2, hp.p3, hp.p4, hp.p6, hp.p8, hp.p5⟩ hw
          (not_checked_of_pc hp hw (by simp [hpc])) (fun _ => Or.inr rfl)
        subst h; exact this
      · cases h
  | indexFail r o =>
    simp only [step] at h
    cases hw : s.workers (r, o) with
    | none => simp [hw] at h
    | some w =>
      simp only [hw] at h
      split at h
      · rename_i hpc
        simp only [Option.some.injEq] at h
        have hp0 := pinvU_dropOwn hp (r, o) w
        have := pinvU_setPc
          (s := { s with objTog := if w.hasToggle then sdel (r, o) s.objTog else s.objTog,
                         indexedOnce := sadd (r, o) s.indexedOnce })
          (ro := (r, o)) (w := w) (pc := .idle)
          ⟨hp0.p1, hp0.p2, hp0.p3, hp0.p4, hp0.p6, hp0.p8, hp0.p5⟩ hw
          (not_checked_of_pc hp hw (by simp [hpc])) (fun ho => absurd ho (not_own_after_drop hp hw))
        subst h; exact this
      · cases h
  | drop r o =>
    simp only [step] at h
    cases hw : s.workers (r, o) with
    | none => simp [hw] at h
    | some w =>
      simp only [hw] at h
      split at h
      · rename_i hg
        simp only [Option.some.injEq] at h
        have hpc : w.pc ≠ .idle := by
          rcases hg.1 with h1 | h1
          · simp [h1]
          · exact absurd h1.1 (by decide)
        have := pinvU_setPc (ro := (r, o)) (w := w) (pc := .waiting) (pinvU_dropOwn hp (r, o) w) hw
          (not_checked_of_pc hp hw hpc) (fun ho => absurd ho (not_own_after_drop hp hw))
        subst h; exact this
      · cases h
  | pass r o =>
    simp only [step] at h
    cases hw : s.workers (r, o) with
    | none => simp [hw] at h
    | some w =>
      simp only [hw] at h
      split at h
      · rename_i hg
        simp only [Option.some.injEq] at h
        have := pinvU_setPc (s := { s with everOn := true }) (ro := (r, o)) (w := w) (pc := .passed)
          ⟨hp.p1, hp.p2, hp.p3, hp.p4, hp.p6, hp.p8, hp.p5⟩ hw (not_checked_of_pc hp hw (by simp [hg.1]))
          (fun ho => by have := (pc_of_objTog hp hw ho).1; simp [hg.1] at this)
        subst h; exact this
      · cases h
  | skip r o =>
    simp only [step] at h
    cases hw : s.workers (r, o) with
    | none => simp [hw] at h
    | some w =>
      simp only [hw] at h
      split at h
      · rename_i hg
        simp only [Option.some.injEq] at h
        have := pinvU_setPc (ro := (r, o)) (w := w) (pc := .passed) hp hw (not_checked_of_pc hp hw (by simp [hg.1]))
          (fun ho => by have := (pc_of_objTog hp hw ho).2.1; simp [hg.2] at this)
        subst h; exact this
      · cases h
  | handle r o =>
    simp only [step] at h
    cases hw : s.workers (r, o) with
    | none => simp [hw] at h
    | some w =>
      simp only [hw] at h
      split at h
      · rename_i hg
        simp only [Option.some.injEq] at h
        have := pinvU_setPc (s := { s with handled := true }) (ro := (r, o)) (w := w) (pc := .handling)
          ⟨hp.p1, hp.p2, hp.p3, hp.p4, hp.p6, hp.p8, hp.p5⟩ hw (not_checked_of_pc hp hw (by simp [hg]))
          (fun ho => by have := (pc_of_objTog hp hw ho).1; simp [hg] at this)
        subst h; exact this
      · cases h
  | finish r o =>
    simp only [step] at h
    cases hw : s.workers (r, o) with
    | none => simp [hw] at h
    | some w =>
      simp only [hw] at h
      split at h
      · rename_i hg
        simp only [Option.some.injEq] at h
        have := pinvU_setPc (ro := (r, o)) (w := w) (pc := .idle) hp hw (not_checked_of_pc hp hw (by simp [hg]))
          (fun ho => by have := (pc_of_objTog hp hw ho).1; simp [hg] at this)
        subst h; exact this
      · cases h
  | again r o =>
    simp only [step] at h
    cases hw : s.workers (r, o) with
    | none => simp [hw] at h
    | some w =>
      simp only [hw] at h
      split at h
      · rename_i hg
        simp only [Option.some.injEq] at h
        have := pinvU_setPc (ro := (r, o)) (w := w) (pc := .queued) hp hw hg.2 (fun _ => Or.inl rfl)
        subst h; exact this
      · cases h
  | exit r o =>
    simp only [step] at h
    cases hw : s.workers (r, o) with
    | none => simp [hw] at h
    | some w =>
      simp only [hw] at h
      split at h
      · rename_i hg
        have hhold : holds s (r, o) = false := holds_false_of_free hp (by simp [free, hw, hg])
        simp only [Option.some.injEq, hhold, Bool.false_eq_true, if_false] at h
        subst h
        refine ⟨hp.p1, hp.p2, hp.p3, ?_, ?_, hp.p8, ?_⟩
        · intro ro hro
          obtain ⟨a, b, c⟩ := hp.p4 ro hro
          refine ⟨?_, b, c⟩
          show free _ ro = true
          by_cases he : ro = (r, o)
          · subst he; simp [free, upd_same]
          · simp only [free, upd_other _ _ _ he]; exact a
        · intro ro w' hw'
          have hw'' : upd s.workers (r, o) none ro = some w' := hw'
          by_cases he : ro = (r, o)
          · subst he; rw [upd_same] at hw''; cases hw''
          · rw [upd_other _ _ _ he] at hw''; exact hp.p6 ro w' hw''
        · intro ro hro
          obtain ⟨w', h1, h2, h3, h4⟩ := hp.p5 ro hro
          have hne : ro ≠ (r, o) := by
            intro he; subst he
            rw [hw] at h1; cases h1
            rcases h2 with h2 | h2 <;> simp [hg] at h2
          exact ⟨w', by show upd s.workers (r, o) none ro = some w'; rw [upd_other _ _ _ hne]; exact h1, h2, h3, h4⟩
      · cases h

theorem run_pinvU (ls : List (Label R O)) : ∀ {s s' : GState R O}, Inv s → PInvU s →
    run .none s ls = some s' → PInvU s' := by
  induction ls with
  | nil => intro s s' _ hp h; simp [run] at h; subst h; exact hp
  | cons l ls ih =>
    intro s s' hi hp h
    simp only [run] at h
    cases hs : step .none s l with
    | none => simp [hs] at h
    | some s1 =>
      simp only [hs] at h
      exact ih (step_inv l hi hs) (step_pinvU l hi hp hs) h

/-- the labels of a watcher that stays alive -/
def Label.benign : Label R O → Bool
  | .die _ => false
  | _ => true

/-- nothing leaks on a benign label -/
theorem step_healthy {s s' : GState R O} (l : Label R O) (hp : PInv s)
    (h : step .none s l = some s') (hb : l.benign = true) : Healthy s' := by
  have hl := hp.pl
  have hk := hp.plk
  cases l with
  | die r => cases hb
  | arrive r o gated hasToggle =>
    simp only [step] at h
    cases hsp : aget r s.spawned with
    | none => simp [hsp] at h
    | some ind =>
      simp only [hsp] at h
      split at h
      · rename_i hfree
        split at h
        · have hhold : holds s (r, o) = false := holds_false_of_free hp.toPInvU hfree
          simp only [Option.some.injEq, hhold, Bool.false_eq_true, if_false] at h
          subst h; exact ⟨hl, hk⟩
        · cases h
      · cases h
  | exit r o =>
    simp only [step] at h
    cases hw : s.workers (r, o) with
    | none => simp [hw] at h
    | some w =>
      simp only [hw] at h
      split at h
      · rename_i hg
        have hhold : holds s (r, o) = false := holds_false_of_free hp.toPInvU (by simp [free, hw, hg])
        simp only [Option.some.injEq, hhold, Bool.false_eq_true, if_false] at h
        subst h; exact ⟨hl, hk⟩
      · cases h
  | spawnBegin kinds | spawn r | spawnEnd | check r o on | listed r | index r o | indexFail r o | drop r o
  | pass r o | skip r o | handle r o | finish r o | again r o =>
    simp only [step] at h
    (repeat' split at h) <;>
      first
      | (simp only [Option.some.injEq] at h; subst h; exact ⟨hl, hk⟩)
      | cases h
      | simp at h

/-! #### progress -/

theorem length_sdel_lt {α : Type} [DecidableEq α] (x : α) (l : List α) (h : x ∈ l) :
    (sdel x l).length < l.length := by
  induction l with
  | nil => cases h
  | cons a r ih =>
    simp only [sdel, List.filter_cons]
    by_cases he : a = x
    · subst he
      simp only [decide_true, Bool.not_true, Bool.false_eq_true, if_false, List.length_cons]
      have := List.length_filter_le (fun y => !decide (y = a)) r
      omega
    · have hx : x ∈ r := by
        rcases List.mem_cons.1 h with h1 | h1
        · exact absurd h1.symm he
        · exact h1
      have := ih hx
      simp only [sdel] at this
      simp [he]
      omega

theorem length_sadd_le {α : Type} [DecidableEq α] (x : α) (l : List α) : (sadd x l).length ≤ l.length + 1 := by
  unfold sadd; split <;> simp

/-- some worker of the enumeration with the given pc -/
def pick (s : GState R O) (pc : Pc) : Option (R × O) :=
  s.wlist.find? (fun ro => match s.workers ro with | some w => decide (w.pc = pc) | none => false)

theorem pick_some {s : GState R O} {pc : Pc} {ro : R × O} (h : pick s pc = some ro) :
    ro ∈ s.wlist ∧ ∃ w, s.workers ro = some w ∧ w.pc = pc := by
  refine ⟨List.mem_of_find?_eq_some h, ?_⟩
  have := List.find?_some h
  cases hw : s.workers ro with
  | none => simp [hw] at this
  | some w => exact ⟨w, rfl, by simpa [hw] using this⟩

theorem pick_none {s : GState R O} (hp : PInvU s) {pc : Pc} (h : pick s pc = none) :
    ∀ ro w, s.workers ro = some w → w.pc ≠ pc := by
  intro ro w hw hpc
  have := List.find?_eq_none.1 h ro (hp.p6 ro w hw)
  simp [hw, hpc] at this

/-- a worker's pc moves to a lower rank, nothing else that the measure reads changes -/
theorem mu_worker_lt {s s1 : GState R O} (ro : R × O) (w : Worker) (pc : Pc)
    (hw : s.workers ro = some w) (hmem : ro ∈ s.wlist) (hlt : pcRank pc < pcRank w.pc)
    (h1 : s1.pending = s.pending) (h2 : s1.spawning = s.spawning) (h3 : s1.checked = s.checked)
    (h4 : s1.resTog = s.resTog) (h5 : s1.wlist = s.wlist)
    (h6 : s1.workers = upd s.workers ro (some { w with pc := pc })) : mu s1 < mu s := by
  unfold mu
  rw [h1, h2, h3, h4, h5]
  have : (s.wlist.map (rank s1)).sum < (s.wlist.map (rank s)).sum := by
    apply sum_map_lt _ _ _ _ ro hmem
    · simp [rank, h6, upd_same, hw]; exact hlt
    · intro x _
      by_cases he : x = ro
      · subst he; simp [rank, h6, upd_same, hw]; exact Nat.le_of_lt hlt
      · simp [rank, h6, upd_other _ _ _ he]
  omega

theorem rank_eq_of_workers {s s1 : GState R O} (h : s1.workers = s.workers) (x : R × O) :
    rank s1 x = rank s x := by simp [rank, h]

theorem mu_spawnEnd_lt {s s1 : GState R O} (hsp : s.spawning = true)
    (h1 : s1.pending = s.pending) (h2 : s1.spawning = false) (h3 : s1.checked = s.checked)
    (h4 : s1.resTog = s.resTog) (h5 : s1.wlist = s.wlist) (h6 : s1.workers = s.workers) : mu s1 < mu s := by
  unfold mu
  rw [h1, h2, h3, h4, h5, hsp]
  have : s.wlist.map (rank s1) = s.wlist.map (rank s) :=
    List.map_congr_left (fun x _ => rank_eq_of_workers h6 x)
  rw [this]
  simp

theorem mu_spawn_lt {s s1 : GState R O} (p : R × Bool) (rest : List (R × Bool)) (r : R)
    (hpd : s.pending = p :: rest)
    (h1 : s1.pending = rest) (h2 : s1.spawning = s.spawning) (h3 : s1.checked = s.checked)
    (h4 : s1.resTog = s.resTog ∨ s1.resTog = sadd r s.resTog) (h5 : s1.wlist = s.wlist)
    (h6 : s1.workers = s.workers) : mu s1 < mu s := by
  unfold mu
  rw [h1, h2, h3, h5, hpd]
  have : s.wlist.map (rank s1) = s.wlist.map (rank s) :=
    List.map_congr_left (fun x _ => rank_eq_of_workers h6 x)
  rw [this]
  have hl : s1.resTog.length ≤ s.resTog.length + 1 := by
    rcases h4 with h4 | h4 <;> rw [h4]
    · omega
    · exact length_sadd_le _ _
  simp only [List.length_cons]
  omega

theorem mu_listed_lt {s s1 : GState R O} (r : R) (hr : r ∈ s.resTog)
    (h1 : s1.pending = s.pending) (h2 : s1.spawning = s.spawning) (h3 : s1.checked = s.checked)
    (h4 : s1.resTog = sdel r s.resTog) (h5 : s1.wlist = s.wlist)
    (h6 : s1.workers = s.workers) : mu s1 < mu s := by
  unfold mu
  rw [h1, h2, h3, h4, h5]
  have : s.wlist.map (rank s1) = s.wlist.map (rank s) :=
    List.map_congr_left (fun x _ => rank_eq_of_workers h6 x)
  rw [this]
  have := length_sdel_lt r s.resTog hr
  omega

theorem mu_arrive_lt {s s1 : GState R O} (ro : R × O) (w0 : Worker) (hc : ro ∈ s.checked)
    (hnd : s.wlist.Nodup)
    (h1 : s1.pending = s.pending) (h2 : s1.spawning = s.spawning) (h3 : s1.checked = sdel ro s.checked)
    (h4 : s1.resTog = s.resTog) (h5 : s1.wlist = sadd ro s.wlist)
    (h6 : s1.workers = upd s.workers ro (some w0)) : mu s1 < mu s := by
  unfold mu
  rw [h1, h2, h3, h4, h5]
  have hlen := length_sdel_lt ro s.checked hc
  have hr3 : rank s1 ro ≤ 3 := by
    simp only [rank, h6, upd_same]
    cases w0.pc <;> simp [pcRank]
  have hsum : ((sadd ro s.wlist).map (rank s1)).sum ≤ (s.wlist.map (rank s)).sum + 3 := by
    by_cases hin : ro ∈ s.wlist
    · have : sadd ro s.wlist = s.wlist := by simp [sadd, hin]
      rw [this]
      apply sum_map_le_add _ _ _ ro 3 hnd
      · intro x _ hne; simp [rank, h6, upd_other _ _ _ hne]
      · omega
    · have : sadd ro s.wlist = s.wlist ++ [ro] := by simp [sadd, hin]
      rw [this, List.map_append, List.sum_append]
      have h1 : (s.wlist.map (rank s1)).sum = (s.wlist.map (rank s)).sum := by
        congr 1
        apply List.map_congr_left
        intro x hx
        have hne : x ≠ ro := fun he => hin (he ▸ hx)
        simp [rank, h6, upd_other _ _ _ hne]
      rw [h1]
      simp only [List.map_cons, List.map_nil, List.sum_cons, List.sum_nil]
      omega
  omega

/-- **Progress**: in every state satisfying the invariants, either the gate is open with every
    worker past it, or some label is enabled that strictly decreases the measure. -/
theorem progress {s : GState R O} (hi : Inv s) (hp : PInv s) :
    Open s ∨ ∃ l s1, step .none s l = some s1 ∧ mu s1 < mu s ∧ l.benign = true := by
  by_cases hsp : s.spawning = true
  · -- finish the batch
    right
    cases hpd : s.pending with
    | nil =>
      refine ⟨.spawnEnd, _, (by simp [step, hsp, hpd] <;> rfl), ?_⟩
      exact ⟨mu_spawnEnd_lt hsp (by simp [hpd]) rfl rfl rfl rfl rfl, rfl⟩
    | cons p rest =>
      obtain ⟨r, ind⟩ := p
      have hnone : aget r s.spawned = none := hp.p2.1 (r, ind) (by simp [hpd])
      refine ⟨.spawn r, _, (by simp [step, hpd, hsp, hnone] <;> rfl), ?_⟩
      exact ⟨mu_spawn_lt (r, ind) rest r hpd rfl hsp.symm rfl (by show (if _ then _ else _) = _ ∨ _; split <;> simp) rfl rfl, rfl⟩
  · have hsp' : s.spawning = false := by simpa using hsp
    have hbl : s.blocker = false := by
      cases hb : s.blocker with
      | false => rfl
      | true => have := hp.p1 hb; simp [hsp'] at this
    cases hck : s.checked with
    | cons ro rest =>
      -- a watcher is between its `is_on()` test and the toggle: let it add the toggle
      right
      obtain ⟨r, o⟩ := ro
      obtain ⟨hfree, hnd, hsome⟩ := hp.p4 (r, o) (by simp [hck])
      cases hs : aget r s.spawned with
      | none => simp [hs] at hsome
      | some ind =>
        have hnd' : r ∉ s.detached := hnd
        have hmem : (r, o) ∈ s.checked := by simp [hck]
        refine ⟨.arrive r o true ind, _, (by simp [step, hs, hfree, hnd', hmem] <;> rfl), ?_⟩
        exact ⟨mu_arrive_lt (r, o) ⟨.queued, true, ind⟩ hmem hp.p8 rfl rfl rfl rfl rfl rfl, rfl⟩
    | nil =>
      cases hrt : s.resTog with
      | cons r rest =>
        -- a kind is still listing: deliver LISTED
        right
        obtain ⟨hs, hnd⟩ := hp.p3 r (by simp [hrt])
        refine ⟨.listed r, _, (by simp [step, hs, hck] <;> rfl), ?_⟩
        exact ⟨mu_listed_lt r (by simp [hrt]) rfl rfl hck.symm (by simp [hnd]) rfl rfl, rfl⟩
      | nil =>
        cases hq : pick s .queued with
        | some ro =>
          right
          obtain ⟨hm, w, hw, hpc⟩ := pick_some hq
          obtain ⟨r, o⟩ := ro
          refine ⟨.index r o, _, (by simp [step, hw, hpc] <;> rfl), ?_⟩
          exact ⟨mu_worker_lt (r, o) w .indexed hw hm (by simp [hpc, pcRank]) rfl rfl rfl rfl rfl rfl, rfl⟩
        | none =>
          cases hx : pick s .indexed with
          | some ro =>
            right
            obtain ⟨hm, w, hw, hpc⟩ := pick_some hx
            obtain ⟨r, o⟩ := ro
            by_cases hg : w.gated = true
            · refine ⟨.drop r o, _, (by simp [step, hw, hpc, hg] <;> rfl), ?_⟩
              exact ⟨mu_worker_lt (r, o) w .waiting hw hm (by simp [hpc, pcRank]) rfl rfl rfl rfl rfl rfl, rfl⟩
            · have hg' : w.gated = false := by simpa using hg
              refine ⟨.skip r o, _, (by simp [step, hw, hpc, hg'] <;> rfl), ?_⟩
              exact ⟨mu_worker_lt (r, o) w .passed hw hm (by simp [hpc, pcRank]) rfl rfl rfl rfl rfl rfl, rfl⟩
          | none =>
            have hnq := pick_none hp.toPInvU hq
            have hnx := pick_none hp.toPInvU hx
            have hobj : s.objTog = [] := by
              cases ho : s.objTog with
              | nil => rfl
              | cons ro rest =>
                obtain ⟨w, h1, h2, _⟩ := hp.p5 ro (by simp [ho])
                rcases h2 with h2 | h2
                · exact absurd h2 (hnq ro w h1)
                · exact absurd h2 (hnx ro w h1)
            have hon : s.isOn = true := (isOn_iff s).2 ⟨hbl, hrt, hobj, hp.pl, hp.plk⟩
            cases hwt : pick s .waiting with
            | some ro =>
              right
              obtain ⟨hm, w, hw, hpc⟩ := pick_some hwt
              obtain ⟨r, o⟩ := ro
              refine ⟨.pass r o, _, (by simp [step, hw, hpc, hon] <;> rfl), ?_⟩
              exact ⟨mu_worker_lt (r, o) w .passed hw hm (by simp [hpc, pcRank]) rfl rfl rfl rfl rfl rfl, rfl⟩
            | none =>
              left
              exact ⟨hon, hck, fun ro w hw => ⟨hnq ro w hw, hnx ro w hw, pick_none hp.toPInvU hwt ro w hw⟩⟩

/-- from any healthy state satisfying the invariants the gate can open -/
theorem can_open_aux (n : Nat) : ∀ (s : GState R O), mu s ≤ n → Inv s → PInv s →
    ∃ ls s', run .none s ls = some s' ∧ Open s' := by
  induction n with
  | zero =>
    intro s hmu hi hp
    rcases progress hi hp with ho | ⟨l, s1, _, hlt, _⟩
    · exact ⟨[], s, rfl, ho⟩
    · omega
  | succ n ih =>
    intro s hmu hi hp
    rcases progress hi hp with ho | ⟨l, s1, hs, hlt, hb⟩
    · exact ⟨[], s, rfl, ho⟩
    · have hp1 : PInv s1 := PInv.ofU (step_pinvU l hi hp.toPInvU hs) (step_healthy l hp hs hb)
      obtain ⟨ls, s', hr, ho⟩ := ih s1 (by omega) (step_inv l hi hs) hp1
      exact ⟨l :: ls, s', by simp [run, hs, hr], ho⟩

/-- leaked toggles are never removed -/
theorem leaked_mono {s s' : GState R O} (l : Label R O) (h : step .none s l = some s') :
    (∀ x, x ∈ s.leaked → x ∈ s'.leaked) ∧ (∀ r, r ∈ s.leakedK → r ∈ s'.leakedK) := by
  cases l <;> simp only [step] at h <;> (repeat' split at h) <;>
    first
    | (simp only [Option.some.injEq] at h; subst h
       refine ⟨fun x hx => ?_, fun r hr => ?_⟩ <;>
         first | assumption | (simp [setPc, *]) | (simp only []; split <;> simp [*]))
    | cases h
    | simp at h

theorem run_leaked_mono (ls : List (Label R O)) : ∀ {s s' : GState R O}, run .none s ls = some s' →
    (∀ x, x ∈ s.leaked → x ∈ s'.leaked) ∧ (∀ r, r ∈ s.leakedK → r ∈ s'.leakedK) := by
  induction ls with
  | nil => intro s s' h; simp [run] at h; subst h; exact ⟨fun _ h => h, fun _ h => h⟩
  | cons l ls ih =>
    intro s s' h
    simp only [run] at h
    cases hs : step .none s l with
    | none => simp [hs] at h
    | some s1 =>
      simp only [hs] at h
      have h1 := leaked_mono l hs
      have h2 := ih h
      exact ⟨fun x hx => h2.1 x (h1.1 x hx), fun r hr => h2.2 r (h1.2 r hr)⟩

/-- a stranded toggle closes the gate for good -/
theorem stuck_of_leak {s : GState R O} (hl : s.leaked ≠ [] ∨ s.leakedK ≠ []) (ls : List (Label R O))
    (s' : GState R O) (h : run .none s ls = some s') : s'.isOn = false := by
  have hm := run_leaked_mono ls h
  rcases hl with hl | hl
  · cases hx : s.leaked with
    | nil => exact absurd hx hl
    | cons x r =>
      have := hm.1 x (by simp [hx])
      cases hl' : s'.leaked with
      | nil => rw [hl'] at this; cases this
      | cons y r' => simp [GState.isOn, hl']
  · cases hx : s.leakedK with
    | nil => exact absurd hx hl
    | cons x r =>
      have := hm.2 x (by simp [hx])
      cases hl' : s'.leakedK with
      | nil => rw [hl'] at this; cases this
      | cons y r' => simp [GState.isOn, hl']

end
end Kopf.C17.Gate
