/-
  C19 — retries vs requests, the recovery script, and the shape of a listing's output.
-/
import Kopf.Lemmas.C19_View
namespace Kopf.C19

def Out.isRetry : Out → Bool
  | .retryList => true
  | .retryWatch _ => true
  | _ => false

def retryCount (os : List Out) : Nat := (os.filter Out.isRetry).length

theorem attemptCount_eq (os : List Out) : attemptCount os = reqCount os + retryCount os := by
  unfold attemptCount reqCount retryCount
  induction os with
  | nil => rfl
  | cons o os ih =>
      cases o <;> simp [List.filter_cons, Out.isAttempt, Out.isReq, Out.isRetry] at ih ⊢ <;> omega

theorem retryCount_cons (o : Out) (os : List Out) :
    retryCount (o :: os) = (if o.isRetry then 1 else 0) + retryCount os := by
  unfold retryCount
  by_cases h : o.isRetry = true <;> simp [h] <;> omega

theorem retryCount_append_items (xs : List Entry) (past : List Out) :
    retryCount (xs.map (fun e => Out.item e.key e.rv) ++ past) = retryCount past := by
  induction xs with
  | nil => rfl
  | cons x xs ih => simp [retryCount_cons, Out.isRetry, ih]

theorem respond_listing_outs (w : World) (hph : w.phase = .listing) :
    (step w .respond).outs
      = (if w.pauseSeen then [] else [Out.reqWatch w.srv]) ++ (.listed w.srv :: itemsBlock w.log ++ w.outs) := by
  simp only [step, hph, rewatch]
  by_cases hp : w.pauseSeen = true <;> simp [hp, emit, toBackoff]

/-- only the `retry` act re-sends an attempt -/
theorem retryCount_step (w : World) {a : Act} (ha : a ≠ .retry) :
    retryCount (step w a).outs = retryCount w.outs := by
  by_cases hr : a = .respond ∧ w.phase = .listing
  · obtain ⟨rfl, hph⟩ := hr
    rw [respond_listing_outs w hph]
    by_cases hp : w.pauseSeen = true
    · rw [if_pos hp, List.nil_append]
      show retryCount (Out.listed w.srv :: (itemsBlock w.log ++ w.outs)) = _
      rw [retryCount_cons, itemsBlock_eq, retryCount_append_items]
      simp [Out.isRetry]
    · rw [if_neg hp]
      show retryCount (Out.reqWatch w.srv :: (Out.listed w.srv :: (itemsBlock w.log ++ w.outs))) = _
      rw [retryCount_cons, retryCount_cons, itemsBlock_eq, retryCount_append_items]
      simp [Out.isRetry]
  · cases a <;> simp only [step] <;> (try contradiction)
    case respond =>
        split
        · rename_i hph; exact absurd ⟨rfl, hph⟩ hr
        · (repeat' split) <;> simp [toBackoff]
        · rfl
    all_goals
      (repeat' split) <;> (try cases ‹ReqFail›) <;>
        simp [toBackoff, fail, emit, startListing, rewatch, retryCount_cons, Out.isRetry] <;>
        (repeat' split) <;> simp [emit, retryCount_cons, Out.isRetry]

/-! ### the recovery script -/

theorem recover_to_listing (w : World) (h : w.phase ≠ .failed) :
    let w1 := run w [.resume, .err410, .failReq .tooMany, .unblock, .wake]
    w1.phase = .listing ∧ w1.pauseSeen = false ∧ w1.paused = false ∧ w1.log = w.log ∧ w1.srv = w.srv ∧
      w1.horizon = w.horizon := by
  cases hph : w.phase <;> simp [run, step, hph, toBackoff, startListing, emit] <;> first | exact absurd hph h | skip

theorem listing_to_streaming (w : World) (hph : w.phase = .listing) (hs : w.pauseSeen = false)
    (hhor : w.horizon ≤ w.srv) (hb : ∀ e ∈ w.log, e.rv ≤ w.srv) :
    let w2 := run w [.respond, .respond]
    w2.phase = .streaming ∧ nextEntry w2.log w2.since = none ∧ w2.paused = w.paused := by
  have hn : ¬ w.srv < w.horizon := by omega
  simp only [run, step, hph, rewatch, emit, hs, Bool.false_eq_true, if_false, hn, decide_false, Bool.false_and]
  refine ⟨?_, ?_, ?_⟩ <;> try trivial
  unfold nextEntry
  rw [List.find?_eq_none]
  intro e he
  have := hb e he
  simp; omega

theorem run_append (w : World) (a b : List Act) : run w (a ++ b) = run (run w a) b := by
  induction a generalizing w with
  | nil => rfl
  | cons x xs ih => exact ih _

/-! ### what a listing hands over -/

theorem itemsBlock_mem {log : List Entry} {o : Out} :
    o ∈ itemsBlock log ↔ ∃ e ∈ liveItems log, o = .item e.key e.rv := by
  simp [itemsBlock, List.mem_reverse, List.mem_map, eq_comm]

theorem sorted_nodup_rv {log : List Entry} (hs : Sorted log) :
    (log.map (fun e => Out.item e.key e.rv)).Nodup := by
  unfold Sorted at hs
  rw [List.nodup_iff_pairwise_ne, List.pairwise_map]
  apply List.Pairwise.imp _ hs
  intro a b hlt heq
  injection heq with _ h2
  omega

theorem itemsBlock_nodup {log : List Entry} (hs : Sorted log) : (itemsBlock log).Nodup := by
  unfold itemsBlock
  rw [List.Perm.nodup_iff (List.reverse_perm _)]
  have hsub : (liveItems log).Sublist log := List.filter_sublist
  exact sorted_nodup_rv (List.Pairwise.sublist hsub hs)

theorem relistsAfter_of_backoff {w w' : World} (hph : w'.phase = .backoff) (ho : w'.outs = w.outs) :
    RelistsAfter w w' := by
  refine ⟨hph, ho, ?_, ?_⟩
  · intro as
    refine ⟨(run { w' with outs := [] } as).outs, run_outs w' as, ?_⟩
    intro v
    have h0 : FirstIsList { w' with outs := [] } := Or.inr ⟨rfl, Or.inr (Or.inl hph)⟩
    rcases firstIsList_run h0 as with h | ⟨h, _⟩ <;> rw [h] <;> simp
  · intro hp
    simp [step, hph, hp, startListing, emit]


/-! ### a pending watch request never survives a noticed pause -/

/-- while a listing or a watch request is pending or a response is open, the pause-waiter has not fired
    (it would have cancelled the request / closed the response) -/
def ConnFresh (w : World) : Prop :=
  (w.phase = .listing ∨ w.phase = .connecting ∨ w.phase = .streaming) → w.pauseSeen = false

theorem connFresh_init : ConnFresh init := by simp [ConnFresh, init]

theorem connFresh_step {w : World} (h : ConnFresh w) (a : Act) : ConnFresh (step w a) := by
  unfold ConnFresh at *
  cases a <;> simp only [step] <;> (repeat' split) <;> (try cases ‹ReqFail›) <;>
    simp_all [toBackoff, fail, emit, startListing, rewatch] <;> (repeat' split) <;> simp_all

theorem connFresh_run {w : World} (h : ConnFresh w) (as : List Act) : ConnFresh (run w as) := by
  induction as generalizing w with
  | nil => exact h
  | cons a as ih => exact ih (connFresh_step h a)

theorem watchAttemptCount_cons (o : Out) (os : List Out) :
    watchAttemptCount (o :: os) = (if o.isWatchAttempt then 1 else 0) + watchAttemptCount os := by
  unfold watchAttemptCount
  by_cases h : o.isWatchAttempt = true <;> simp [h] <;> omega

theorem watchAttemptCount_append_items (xs : List Entry) (past : List Out) :
    watchAttemptCount (xs.map (fun e => Out.item e.key e.rv) ++ past) = watchAttemptCount past := by
  induction xs with
  | nil => rfl
  | cons x xs ih => simp [watchAttemptCount_cons, Out.isWatchAttempt, ih]

/-- in a quiet state no act makes the client send (or re-send) a WATCH request -/
theorem watchAttempt_step_quiet {w : World} (hq : Quiet w) (hc : ConnFresh w) (a : Act) :
    watchAttemptCount (step w a).outs = watchAttemptCount w.outs := by
  by_cases hr : a = .respond ∧ w.phase = .listing
  · obtain ⟨rfl, hph⟩ := hr
    have hs : w.pauseSeen = true := by
      unfold Quiet at hq; simp_all
    rw [respond_listing_outs w hph, if_pos hs, List.nil_append]
    show watchAttemptCount (Out.listed w.srv :: (itemsBlock w.log ++ w.outs)) = _
    rw [watchAttemptCount_cons, itemsBlock_eq, watchAttemptCount_append_items]
    simp [Out.isWatchAttempt]
  · unfold Quiet ConnFresh at *
    cases a <;> simp only [step]
    case respond =>
        split
        · rename_i hph; exact absurd ⟨rfl, hph⟩ hr
        · (repeat' split) <;> simp [toBackoff, fail, emit, watchAttemptCount_cons, Out.isWatchAttempt]
        · rfl
    all_goals
      (repeat' split) <;> (try cases ‹ReqFail›) <;>
        simp_all [toBackoff, fail, emit, startListing, rewatch, watchAttemptCount_cons, Out.isWatchAttempt] <;>
        (repeat' split) <;> simp_all [emit, watchAttemptCount_cons, Out.isWatchAttempt]

/-- watch events and bookmarks handed to the consumer -/
def Out.isEvent : Out → Bool
  | .event _ _ _ => true
  | .bookmark _ => true
  | _ => false

def eventCount (os : List Out) : Nat := (os.filter Out.isEvent).length

theorem eventCount_cons (o : Out) (os : List Out) :
    eventCount (o :: os) = (if o.isEvent then 1 else 0) + eventCount os := by
  unfold eventCount
  by_cases h : o.isEvent = true <;> simp [h] <;> omega

theorem eventCount_append_items (xs : List Entry) (past : List Out) :
    eventCount (xs.map (fun e => Out.item e.key e.rv) ++ past) = eventCount past := by
  induction xs with
  | nil => rfl
  | cons x xs ih => simp [eventCount_cons, Out.isEvent, ih]

/-- in a quiet state no act makes the client yield a watch event or a bookmark -/
theorem event_step_quiet {w : World} (hq : Quiet w) (hc : ConnFresh w) (a : Act) :
    eventCount (step w a).outs = eventCount w.outs := by
  by_cases hr : a = .respond ∧ w.phase = .listing
  · obtain ⟨rfl, hph⟩ := hr
    rw [respond_listing_outs w hph]
    by_cases hs : w.pauseSeen = true
    · rw [if_pos hs, List.nil_append]
      show eventCount (Out.listed w.srv :: (itemsBlock w.log ++ w.outs)) = _
      rw [eventCount_cons, itemsBlock_eq, eventCount_append_items]; simp [Out.isEvent]
    · rw [if_neg hs]
      show eventCount (Out.reqWatch w.srv :: (Out.listed w.srv :: (itemsBlock w.log ++ w.outs))) = _
      rw [eventCount_cons, eventCount_cons, itemsBlock_eq, eventCount_append_items]; simp [Out.isEvent]
  · unfold Quiet ConnFresh at *
    cases a <;> simp only [step]
    case respond =>
        split
        · rename_i hph; exact absurd ⟨rfl, hph⟩ hr
        · (repeat' split) <;> simp [toBackoff, fail, emit, eventCount_cons, Out.isEvent]
        · rfl
    all_goals
      (repeat' split) <;> (try cases ‹ReqFail›) <;>
        simp_all [toBackoff, fail, emit, startListing, rewatch, eventCount_cons, Out.isEvent] <;>
        (repeat' split) <;> simp_all [emit, eventCount_cons, Out.isEvent]

/-- quiet + the pause-waiter invariant: the client is between two streaming blocks -/
theorem quiet_phase {w : World} (hq : Quiet w) (hc : ConnFresh w) :
    w.phase = .backoff ∨ w.phase = .blocked ∨ w.phase = .failed := by
  unfold Quiet ConnFresh at *
  cases hph : w.phase <;> simp_all

/-- in a quiet state, while the toggle is on, NOTHING is observed: no request, no attempt, no item, no event -/
theorem quiet_paused_step_outs {w : World} (hq : Quiet w) (hc : ConnFresh w) (hp : w.paused = true) (a : Act) :
    (step w a).outs = w.outs := by
  rcases quiet_phase hq hc with h | h | h <;>
    cases a <;> simp [step, h, hp, toBackoff] <;> (try split) <;> simp_all

end Kopf.C19
