/-
  Scripts with finitely many failures: the failure budget of the open handling cycle.

  If every handler's script is final from retry number `N` on, then the selected handlers of the open cycle can
  still produce at most `Σ (N - retries on record)` non-final outcomes. No turn of the loop raises that budget
  (the retry counters of selected handlers are never reset while the cycle is open: re-purposing keeps them,
  the purge of superseded records touches unselected handlers only, and the selection can only lose resuming
  handlers that are done), and a turn whose pass consumes a scripted failure lowers it. The budget is counted over
  the records TAKEN OVER (`vis`, /repo f7d6401): a handler that starts from scratch under its namesake's id has the
  full `N` before its first pass — from which on its own record is on the object and nothing is left out any more.
-/
import Kopf.Lemmas.C03_Final
namespace Kopf.C03
open Kopf Kopf.C02

/-- the retry counter on record (0 without a record) -/
def retriesP (P : Store) (i : Id) : Nat := match P i with | some r => r.retries | none => 0

/-- non-final outcomes the handlers of `l` can still get from scripts that are final from retry `N` on -/
def budget (N : Nat) (l : List Id) (P : Store) : Nat := (l.map (fun i => N - retriesP P i)).sum

theorem budget_filter_le (N : Nat) (l : List Id) (p : Id → Bool) (P : Store) :
    budget N (l.filter p) P ≤ budget N l P := by
  unfold budget
  induction l with
  | nil => simp
  | cons a as ih =>
    simp only [List.filter_cons]
    cases hp : p a <;> simp <;> omega

theorem budget_le (N : Nat) (l : List Id) (P P' : Store) (h : ∀ i ∈ l, retriesP P i ≤ retriesP P' i) :
    budget N l P' ≤ budget N l P := by
  unfold budget
  apply sum_map_le
  intro i hi
  have := h i hi
  omega

theorem budget_lt (N : Nat) (l : List Id) (P P' : Store) (h : ∀ i ∈ l, retriesP P i ≤ retriesP P' i)
    (i : Id) (hi : i ∈ l) (hN : retriesP P i < N) (hlt : retriesP P i < retriesP P' i) :
    budget N l P' < budget N l P := by
  unfold budget
  apply sum_map_lt _ _ _ _ i hi
  · omega
  · intro j hj
    have := h j hj
    omega

theorem budget_pos (N : Nat) (l : List Id) (P : Store) (i : Id) (hi : i ∈ l) (hN : retriesP P i < N) :
    0 < budget N l P := by
  unfold budget
  induction l with
  | nil => simp at hi
  | cons a as ih =>
    simp only [List.map_cons, List.sum_cons]
    rcases List.mem_cons.1 hi with rfl | hin
    · omega
    · have := ih hin
      omega

theorem startRec_retriesP (cfg : Cfg) (P : Store) (now : Tick) (ex : Bool) (i : Id) :
    (startRec cfg P now ex i).retries = retriesP P i := by
  rw [startRec_retries]; rfl

section OpenPassRetries
variable (cfg : Cfg) (P : Store) (now now1 : Tick) (exec : Id → Nat → Outcome)
variable (hsub : ∀ i ∈ cfg.selected, i ∈ cfg.owned) (hu : UniformOn cfg.owned P)
variable (hr : handlerReasons.contains cfg.reason = true) (hne : cfg.selected.isEmpty = false)
include hsub hu hr hne

/-- what the pass invokes is planned, and is called with the retry counter on record -/
theorem invoked_planned {i : Id} {n : Nat} (h : (i, n) ∈ (cycle cfg P now now1 exec).invoked) :
    i ∈ plannedOf cfg P now ∧ i ∈ cfg.selected ∧ n = retriesP P i := by
  rw [cycle_main cfg P now now1 exec hr hne] at h
  simp only at h
  unfold execOnce at h
  simp only [List.mem_map, List.mem_filter] at h
  obtain ⟨j, ⟨hjpl, _⟩, hjeq⟩ := h
  simp only [Prod.mk.injEq] at hjeq
  obtain ⟨rfl, hn⟩ := hjeq
  have hpl : j ∈ plannedOf cfg P now := hjpl
  obtain ⟨hjs, _⟩ := planned_sub hsub hpl
  obtain ⟨h0, hpre, hr0, _⟩ := pre_sel_value (now := now) hsub hu hjs
  refine ⟨hpl, hjs, ?_⟩
  rw [← hn]
  simp [retriesOf, hpre, hr0, startRec_retriesP]

variable (hopen : (cycle cfg P now now1 exec).closed = false)
include hopen

/-- an open pass never lowers the retry counter of a selected handler … -/
theorem open_retries_le (i : Id) (hs : i ∈ cfg.selected) :
    retriesP P i ≤ retriesP (cycle cfg P now now1 exec).P' i := by
  have hrec := open_pass_record cfg P now now1 exec hsub hu hr hne hopen i hs
  unfold retriesP at *
  rw [hrec]
  by_cases hp : i ∈ plannedOf cfg P now
  · simp only [hp, if_true, withOutcome]
    have := startRec_retriesP cfg P now (extras cfg P now) i
    unfold retriesP at this
    omega
  · simp only [hp, if_false]
    have := startRec_retriesP cfg P now (extras cfg P now) i
    unfold retriesP at this
    omega

/-- … and raises the counter of every handler it runs -/
theorem open_retries_lt (i : Id) (hp : i ∈ plannedOf cfg P now) :
    retriesP P i < retriesP (cycle cfg P now now1 exec).P' i := by
  obtain ⟨hs, _⟩ := planned_sub hsub hp
  have hrec := open_pass_record cfg P now now1 exec hsub hu hr hne hopen i hs
  unfold retriesP at *
  rw [hrec]
  simp only [hp, if_true, withOutcome]
  have := startRec_retriesP cfg P now (extras cfg P now) i
  unfold retriesP at this
  omega

end OpenPassRetries

variable {E : Type} [DecidableEq E]

/-- The failure budget of a state: what the handlers selected for the open cycle can still get as non-final
    outcomes from scripts that are final from retry `N` on; nothing once no handling cycle is open, and nothing for
    an object the framework is blind to (no handler runs for it; its leftover records are purged). -/
def fb (env : Env) (N : Nat) (s : State E) : Nat :=
  if env.prematch && isHandler s then budget N (selOf env s) (vis env s) else 0

theorem fb_congr (env : Env) (N : Nat) (s s' : State E) (hc : causeOf s' = causeOf s)
    (hR : s'.resumed = s.resumed) (hP : s'.P = s.P) : fb env N s' = fb env N s := by
  unfold fb isHandler
  rw [hc, selOf_congr env s s' hc hR, vis_congr env s s' hc hR hP]

theorem fb_info (env : Env) (N : Nat) (s : State E) (hh : isHandler s = false) : fb env N s = 0 := by
  unfold fb; simp [hh]

theorem fb_blind (env : Env) (N : Nat) (s : State E) (hpm : env.prematch = false) : fb env N s = 0 := by
  unfold fb; simp [hpm]

theorem fb_seen (env : Env) (N : Nat) (s : State E) (hpm : env.prematch = true) :
    fb env N s = if isHandler s then budget N (selOf env s) (vis env s) else 0 := by
  unfold fb; simp [hpm]

theorem selected_ne_of_open (env : Env) (s : State E) (hh : isHandler s = true)
    (hc : (pass env s).closed = false) : (cfgOf env s).selected.isEmpty = false := by
  cases he : (cfgOf env s).selected.isEmpty
  · rfl
  · exfalso
    have := cycle_no_handlers (cfgOf env s) (vis env s) s.now s.now env.exec hh he
    unfold pass at hc
    rw [this] at hc
    cases hc

/-- the budget after a turn that ran an OPEN handling pass -/
theorem fb_open_next (env : Env) (wf : WF env) (N : Nat) (s : State E) (hu : UniformOn env.owned s.P)
    (hpm : env.prematch = true)
    (hh : isHandler s = true) (hc : (pass env s).closed = false) (a : Tick) (b : Bool) (c : Nat) :
    fb env N (nextState env s a b c) ≤ budget N (selOf env s) (pass env s).P' ∧
    budget N (selOf env s) (pass env s).P' ≤ fb env N s := by
  have hsub : ∀ i ∈ (cfgOf env s).selected, i ∈ (cfgOf env s).owned := fun i hi => selOf_sub env wf s i hi
  have hr : handlerReasons.contains (cfgOf env s).reason = true := hh
  have hne := selected_ne_of_open env s hh hc
  have hopen : (cycle (cfgOf env s) (vis env s) s.now s.now env.exec).closed = false := hc
  have hu' := vis_uniform env s hu
  constructor
  · -- inside the open cycle nothing is left out any more
    have hcz : causeOf (nextState env s a b c) = causeOf s :=
      causeOf_congr s _ (by simp [nextState, hc]) rfl rfl (by simp [nextState, hc]) rfl rfl
    have hV : vis env (nextState env s a b c) = (pass env s).P' := by
      have h0 := noExtras_after (cfgOf env s) (vis env s) s.now s.now env.exec hsub hr hne
      apply vis_of_noExtras env (nextState env s a b c)
      intro i ho r hPi
      have := h0 i ho r hPi
      show r.purpose = none ∨ r.purpose = some (C14.reasonStr (causeOf (nextState env s a b c)).reason)
      rw [hcz]
      exact this
    rw [fb_seen env N _ hpm, isHandler_nextState env s hc, hh, selOf_next env s hc, hV]
    simp only [if_true]
    exact budget_filter_le _ _ _ _
  · rw [fb_seen env N _ hpm, hh]
    simp only [if_true]
    apply budget_le
    intro i hi
    exact open_retries_le (cfgOf env s) (vis env s) s.now s.now env.exec hsub hu' hr hne hopen i hi

/-- NO turn of the loop raises the failure budget. -/
theorem fb_step_le (env : Env) (wf : WF env) (N : Nat) (s : State E) (hu : UniformOn env.owned s.P) :
    fb env N (loopStep env s) ≤ fb env N s := by
  by_cases hpm : env.prematch = true
  rotate_left
  · rw [fb_blind env N _ (by simpa using hpm)]; exact Nat.zero_le _
  by_cases hh : isHandler s = true
  rotate_left
  · rw [fb_info env N _ (info_stays env s (by simpa using hh))]; exact Nat.zero_le _
  by_cases hp : s.pending = true
  rotate_left
  · rw [loopStep_quiescent env s (by simpa using hp)]; exact Nat.le_refl _
  by_cases hg : s.gone = true
  · have : loopStep env s = { s with pending := false } := by unfold loopStep; simp [hp, hg]
    rw [this, fb_congr env N s _ rfl rfl rfl]; exact Nat.le_refl _
  have hg' : s.gone = false := by simpa using hg
  rcases turn_cases env s hp hg' with ⟨_, hm, _, _, h⟩ | ⟨_, _, h⟩ | ⟨_, h1, _⟩ | ⟨_, _, hm, _, _, h⟩ | ⟨_, _, hm1, hb1, _⟩ |
    ⟨_, _, _, hcm, _, h⟩
  · rw [h, fb_congr env N s (addState env s) (causeOf_unmarked s (addState env s) rfl rfl rfl rfl hm hm) rfl rfl]
    exact Nat.le_refl _
  · rw [h]
    have hPR : ∀ g, (remState env s g).P = s.P := by intro g; simp [remState, hpm]
    cases hm : s.marked
    · rw [fb_congr env N s (remState env s (false && !env.foreignFins))
        (causeOf_unmarked s (remState env s (false && !env.foreignFins)) rfl rfl rfl rfl hm hm) rfl (hPR _)]
      exact Nat.le_refl _
    · rw [fb_info]
      · exact Nat.zero_le _
      · unfold isHandler causeOf C05.detect C05.detectReason
        simp [remState, hm, C14.reasonStr]
        decide
  · rw [hpm] at h1; cases h1
  · rw [h, fb_info]
    · exact Nat.zero_le _
    · unfold isHandler causeOf C05.detect C05.detectReason
      simp [releaseTurn, nextState, hm, C14.reasonStr]
      decide
  · -- FREE is no handler reason
    have := handler_marked_blocked s hh hm1
    rw [hb1] at this; cases this
  · rw [h]
    by_cases hc : (pass env s).closed = true
    · have hmk := hcm hc
      have : isHandler (handleTurn env s) = false := by
        rcases handleTurn_cases env s with ⟨_, h'⟩ | ⟨d, _, _, h'⟩ | ⟨_, _, h'⟩ <;> rw [h'] <;>
          exact closed_next_not_handler _ hmk (by simp [nextState, hc]) (by simp [nextState, hc])
      rw [fb_info env N _ this]; exact Nat.zero_le _
    · have hc' : (pass env s).closed = false := by simpa using hc
      rcases handleTurn_cases env s with ⟨_, h'⟩ | ⟨d, _, _, h'⟩ | ⟨_, _, h'⟩ <;> rw [h'] <;>
        exact Nat.le_trans (fb_open_next env wf N s hu hpm hh hc' _ _ _).1 (fb_open_next env wf N s hu hpm hh hc' s.now true 0).2

/-- A turn whose pass consumes a scripted failure lowers the budget, if the scripts are final from retry `N` on. -/
theorem fb_step_lt (env : Env) (wf : WF env) (N : Nat) (hN : ∀ i n, N ≤ n → (env.exec i n).final = true)
    (s : State E) (hu : UniformOn env.owned s.P) (hf : FailsNow env s) :
    fb env N (loopStep env s) < fb env N s := by
  obtain ⟨hnow, hnf⟩ := hf
  unfold handlesNow at hnow
  simp only [Bool.and_eq_true, Bool.not_eq_true'] at hnow
  obtain ⟨⟨⟨⟨⟨hp, hg⟩, hadd⟩, hrem⟩, hrun⟩, hrel⟩ := hnow
  -- some invocation of the pass has a non-final scripted outcome
  have hex : ∃ p, p ∈ (pass env s).invoked ∧ (env.exec p.1 p.2).final = false := by
    apply Classical.byContradiction
    intro hno
    apply hnf
    intro p hp'
    cases hfin : (env.exec p.1 p.2).final
    · exact absurd ⟨p, hp', hfin⟩ hno
    · rfl
  obtain ⟨⟨i, n⟩, hinv, hfalse⟩ := hex
  have hh : isHandler s = true := by
    cases hh : isHandler s
    · have := (cycle_not_handler_reason_invoked (cfgOf env s) (vis env s) s.now s.now env.exec hh).1
      unfold pass at hinv
      rw [this] at hinv
      simp at hinv
    · rfl
  have hsub : ∀ i ∈ (cfgOf env s).selected, i ∈ (cfgOf env s).owned := fun i hi => selOf_sub env wf s i hi
  have hr : handlerReasons.contains (cfgOf env s).reason = true := hh
  have hne : (cfgOf env s).selected.isEmpty = false := by
    cases he : (cfgOf env s).selected.isEmpty
    · rfl
    · exfalso
      have := cycle_no_handlers (cfgOf env s) (vis env s) s.now s.now env.exec hr he
      unfold pass at hinv
      rw [this] at hinv
      simp at hinv
  have hu' := vis_uniform env s hu
  obtain ⟨hpl, his, hn⟩ := invoked_planned (cfgOf env s) (vis env s) s.now s.now env.exec hsub hu' hr hne hinv
  have hlt : retriesP (vis env s) i < N := by
    cases Nat.lt_or_ge (retriesP (vis env s) i) N with
    | inl h => exact h
    | inr h =>
      have := hN i n (by omega)
      simp only at hfalse
      rw [this] at hfalse
      cases hfalse
  have hpm : env.prematch = true := by
    rw [dec_run] at hrun
    simp only [Bool.and_eq_true] at hrun
    exact hrun.1
  have hbs : fb env N s = budget N (selOf env s) (vis env s) := by rw [fb_seen env N s hpm]; simp [hh]
  have hpos : 0 < fb env N s := by rw [hbs]; exact budget_pos N _ _ i his hlt
  have hst : loopStep env s = handleTurn env s := by
    unfold loopStep; simp [hp, hg, hadd, hrem, hrun, hrel, handler_not_free s hh]
  rw [hst]
  by_cases hc : (pass env s).closed = true
  · -- the cycle closes nevertheless: nothing is left to fail
    have hmk : s.marked = false := by
      rcases turn_cases env s hp hg with ⟨h1, _⟩ | ⟨h1, _⟩ | ⟨h0, h1, _⟩ | ⟨_, _, _, _, h1, _⟩ | ⟨_, _, hm1, hb1, _⟩ |
        ⟨_, _, _, hcm, _⟩
      · rw [hadd] at h1; cases h1
      · rw [hrem] at h1; cases h1
      · rw [dec_run] at hrun; simp [h1] at hrun
      · rw [hrel] at h1; cases h1
      · have := handler_marked_blocked s hh hm1
        rw [hb1] at this; cases this
      · exact hcm hc
    have : isHandler (handleTurn env s) = false := by
      rcases handleTurn_cases env s with ⟨_, h'⟩ | ⟨d, _, _, h'⟩ | ⟨_, _, h'⟩ <;> rw [h'] <;>
        exact closed_next_not_handler _ hmk (by simp [nextState, hc]) (by simp [nextState, hc])
    rw [fb_info env N _ this]; exact hpos
  · have hc' : (pass env s).closed = false := by simpa using hc
    have hopen : (cycle (cfgOf env s) (vis env s) s.now s.now env.exec).closed = false := hc'
    have hstrict : budget N (selOf env s) (pass env s).P' < budget N (selOf env s) (vis env s) := by
      apply budget_lt N _ _ _ _ i his hlt
      · exact open_retries_lt (cfgOf env s) (vis env s) s.now s.now env.exec hsub hu' hr hne hopen i hpl
      · intro j hj
        exact open_retries_le (cfgOf env s) (vis env s) s.now s.now env.exec hsub hu' hr hne hopen j hj
    rw [hbs]
    rcases handleTurn_cases env s with ⟨_, h'⟩ | ⟨d, _, _, h'⟩ | ⟨_, _, h'⟩ <;> rw [h'] <;>
      exact Nat.lt_of_le_of_lt (fb_open_next env wf N s hu hpm hh hc' _ _ _).1 hstrict

theorem fb_iter_le (env : Env) (wf : WF env) (N : Nat) (n : Nat) :
    ∀ s : State E, UniformOn env.owned s.P → fb env N (iter env n s) ≤ fb env N s := by
  induction n with
  | zero => intro s _; exact Nat.le_refl _
  | succ n ih =>
    intro s hu
    simp only [iter]
    exact Nat.le_trans (ih _ (loopStep_uniform env wf s hu)) (fb_step_le env wf N s hu)

theorem iter_add (env : Env) (a b : Nat) : ∀ s : State E, iter env (a + b) s = iter env b (iter env a s) := by
  induction a with
  | zero => intro s; simp [iter]
  | succ a ih =>
    intro s
    have : a + 1 + b = (a + b) + 1 := by omega
    rw [this]
    simp only [iter]
    exact ih _

/-! ### the consistency wait (30557a0) -/

theorem int_wait (now dl cap lat : Int) (hl : 0 ≤ lat) (hle : dl - now ≤ cap) :
    dl ≤ now + (if (if now < dl then dl - now else 0) > cap then cap else (if now < dl then dl - now else 0)) + lat := by
  by_cases h : now < dl
  · simp only [h, if_true]
    split <;> omega
  · simp only [h, if_false]
    split <;> omega

/-- the sleep of `apply` for the remaining waiting time ends at the consistency deadline or later (when the wait fits
    under the keepalive cap) -/
theorem waitOf_reaches (env : Env) (wf : WF env) (dl : Tick) (s : State E) (hle : dl - s.now ≤ env.cap) :
    dl ≤ s.now + waitOf env dl s + latS env :=
  int_wait s.now dl env.cap (latS env) (latS_nonneg env wf) hle

end Kopf.C03
