/-
  X01 lemmas — the barrier invariant `Inv` survives the TWO-REQUEST iteration `work2` (two own versions, two events in flight).
-/
import Kopf.Model.X01_TwoReq
import Kopf.Lemmas.X01_Barrier
namespace Kopf.X01
open Kopf
variable {E : Type} [DecidableEq E]

theorem twoReq_wrote (env : C03.Env) (k : Turn E) (h : twoReq env k = true) : k.wrote = true := by
  unfold twoReq at h
  simp only [Bool.and_eq_true] at h
  exact h.1.1.1

theorem work2_shape (T : Int) (env : C03.Env) (d : Nat) (r : RState E) (ev : Ev E) (rest : List (Ev E))
    (hq : r.queue = ev :: rest) :
    ∃ (it it' : C07.Iter) (tret : Int) (wrote nv : Bool) (lv : Nat) (app : List (Ev E)),
      it.now = (if r.clock < ev.at_ then ev.at_ else r.clock) ∧ it.now ≤ tret ∧
      it'.ver = some ⟨ev.ver, false⟩ ∧ it'.tret = tret ∧
      (wrote = true → it'.patched = some ⟨lv, nv⟩ ∧ r.rv < lv) ∧
      (wrote = false → (it'.patched = none ∨ it'.patched = some ⟨r.rv, false⟩) ∧ lv = r.rv ∧ app = []) ∧
      (∀ e ∈ app, r.rv < e.ver ∧ e.ver ≤ lv) ∧ app.Pairwise (fun a b => a.ver < b.ver) ∧
      (work2 T env d r).clock = tret ∧
      (work2 T env d r).seen = (if r.seen < ev.ver then ev.ver else r.seen) ∧
      (work2 T env d r).rv = lv ∧
      (work2 T env d r).owns = (if wrote then (lv, tret) :: r.owns else r.owns) ∧
      (work2 T env d r).queue = rest ++ app ∧
      (work2 T env d r).w = C07.feedback T (C07.arrive r.w (some ⟨ev.ver, false⟩)) it' ∧
      (work2 T env d r).ran = (match (C07.process (C07.arrive r.w (some ⟨ev.ver, false⟩)).deadline it).handlers with
        | some t => { ver := ev.ver, t := t, owns := r.owns } :: r.ran
        | none => r.ran) := by
  have hw : work2 T env d r = work2 T env d { r with queue := ev :: rest } := by
    have : r = { r with queue := ev :: rest } := by cases r; simp_all
    rw [← this]
  refine ⟨(turn env r ev rest).it, iterOf (turn env r ev rest).it (patchedOf2 env r (turn env r ev rest)) (turn env r ev rest).tret,
    (turn env r ev rest).tret, (turn env r ev rest).wrote, (turn env r ev rest).released, lastVer env r (turn env r ev rest),
    echoes env r (turn env r ev rest)
      (if (turn env r ev rest).tret + (d : Int) < (match rest.getLast? with | some l => l.at_ | none => (turn env r ev rest).tret)
        then (match rest.getLast? with | some l => l.at_ | none => (turn env r ev rest).tret) else (turn env r ev rest).tret + d),
    rfl, le_ite_max _ _, rfl, rfl, ?_, ?_, ?_, ?_, ?_, ?_, ?_, ?_, ?_, ?_, ?_⟩
  · intro h
    refine ⟨by show patchedOf2 env r (turn env r ev rest) = _; simp [patchedOf2, h], ?_⟩
    unfold lastVer; rw [h]; simp only [if_true]; split <;> omega
  · intro h
    have h2 : twoReq env (turn env r ev rest) = false := by
      cases h2 : twoReq env (turn env r ev rest)
      · rfl
      · rw [twoReq_wrote env _ h2] at h; cases h
    have he : (turn env r ev rest).echo = false := by
      cases he : (turn env r ev rest).echo
      · rfl
      · have : (turn env r ev rest).wrote = ((turn env r ev rest).echo || (turn env r ev rest).released) := rfl
        rw [he] at this; rw [this] at h; simp at h
    refine ⟨?_, by unfold lastVer; rw [h]; rfl, by unfold echoes; rw [h2, he]; rfl⟩
    show patchedOf2 env r (turn env r ev rest) = none ∨ patchedOf2 env r (turn env r ev rest) = _
    simp only [patchedOf2, h]; cases (turn env r ev rest).noop <;> simp
  · intro e he
    unfold echoes at he
    unfold lastVer
    cases h2 : twoReq env (turn env r ev rest)
    · rw [h2] at he
      simp only [Bool.false_eq_true, if_false] at he ⊢
      cases hec : (turn env r ev rest).echo
      · rw [hec] at he; simp at he
      · rw [hec] at he
        simp only [if_true, List.mem_singleton] at he
        have hwr : (turn env r ev rest).wrote = true := by
          have : (turn env r ev rest).wrote = ((turn env r ev rest).echo || (turn env r ev rest).released) := rfl
          rw [this, hec]; rfl
        rw [he, hwr]; simp
    · rw [h2] at he
      rw [twoReq_wrote env _ h2]
      simp only [if_true, List.mem_cons, List.not_mem_nil, or_false] at he ⊢
      rcases he with he | he <;> rw [he] <;> simp
  · unfold echoes
    split
    · simp
    · split <;> simp
  all_goals (rw [hw]; rfl)

theorem inv_work2 (T : Int) (env : C03.Env) (d : Nat) (r : RState E) (h : Inv T r) : Inv T (work2 T env d r) := by
  cases hq : r.queue with
  | nil =>
    have : work2 T env d r = r := by simp [work2, hq]
    rw [this]; exact h
  | cons ev rest =>
    obtain ⟨it, it', tret, wrote, nv, lv, app, hnow, hle, hver, htret, hpw, hpn, happ, happs, hclk, hseen, hrv, howns, hqueue, hw, hran⟩ :=
      work2_shape T env d r ev rest hq
    have hlv : r.rv ≤ lv := by
      cases hwr : wrote
      · rw [(hpn hwr).2.1]; exact Nat.le_refl _
      · exact Nat.le_of_lt (hpw hwr).2
    have hev := h.qver ev (by rw [hq]; exact List.mem_cons_self ..)
    have hsorted := h.qsorted
    rw [hq, List.pairwise_cons] at hsorted
    have hseen' : (work2 T env d r).seen = ev.ver := by rw [hseen]; simp [hev.1]
    have hck : r.clock ≤ tret := by
      have : r.clock ≤ it.now := by rw [hnow]; split <;> omega
      omega
    have hrvle : r.rv ≤ (work2 T env d r).rv := by rw [hrv]; exact hlv
    have hneq : r.rv < lv → ∀ nv', some (⟨lv, nv'⟩ : C07.Ver) ≠ it'.ver := by
      intro hlt nv' hc
      rw [hver] at hc
      have := congrArg C07.Ver.n (Option.some.inj hc)
      simp at this
      omega
    constructor
    · -- seenLe
      rw [hseen']; omega
    · -- qver
      intro e he
      rw [hqueue] at he
      rw [hseen', hrv]
      rcases List.mem_append.mp he with he | he
      · have := h.qver e (by rw [hq]; exact List.mem_cons_of_mem _ he)
        exact ⟨hsorted.1 e he, by omega⟩
      · have := happ e he
        exact ⟨by omega, this.2⟩
    · -- qsorted
      rw [hqueue, List.pairwise_append]
      refine ⟨hsorted.2, happs, ?_⟩
      intro a ha b hb
      have h1 := h.qver a (by rw [hq]; exact List.mem_cons_of_mem _ ha)
      have h2 := happ b hb
      show a.ver < b.ver
      omega
    · -- ownsLe
      intro p hp
      rw [howns] at hp
      rw [hclk]
      cases hwr : wrote
      · rw [hwr] at hp
        have := h.ownsLe p hp
        exact ⟨by omega, by omega⟩
      · rw [hwr] at hp
        simp only [if_true, List.mem_cons] at hp
        rcases hp with hp | hp
        · rw [hp, hrv]; exact ⟨Nat.le_refl _, Int.le_refl _⟩
        · have := h.ownsLe p hp
          exact ⟨by omega, by omega⟩
    · -- ownsSorted
      rw [howns]
      cases hwr : wrote
      · simp only [Bool.false_eq_true, if_false]; exact h.ownsSorted
      · simp only [if_true]
        rw [List.pairwise_cons]
        refine ⟨?_, h.ownsSorted⟩
        intro p hp
        have := (h.ownsLe p hp).1
        have := (hpw hwr).2
        show p.1 < lv
        omega
    · -- expd
      intro hT e he p hp
      rw [hw] at he
      rw [howns] at hp
      cases hwr : wrote
      · rw [hwr] at hp
        simp only [Bool.false_eq_true, if_false] at hp
        rcases feedback_cases T (C07.arrive r.w (some ⟨ev.ver, false⟩)) it' with hf | ⟨p', hp', _, hf⟩
        · rw [hf] at he
          rcases C07.arrive_cases r.w (some ⟨ev.ver, false⟩) with ⟨ha, _, _⟩ | ⟨ha, _⟩
          · rw [ha] at he; cases he
          · rw [ha] at he; exact h.expd hT e he p hp
        · rw [hf] at he
          have he' : p' = e := Option.some.inj he
          rcases (hpn hwr).1 with hn | hn
          · rw [hn] at hp'; cases hp'
          · rw [hn] at hp'
            have : p' = ⟨r.rv, false⟩ := (Option.some.inj hp').symm
            rw [← he', this]
            exact (h.ownsLe p hp).1
      · rw [hwr] at hp
        simp only [if_true, List.mem_cons] at hp
        have hf := feedback_armed T (C07.arrive r.w (some ⟨ev.ver, false⟩)) it' _ (hpw hwr).1 hT (hneq (hpw hwr).2 nv)
        rw [hf] at he
        have he' : (⟨lv, nv⟩ : C07.Ver) = e := Option.some.inj he
        rw [← he']
        rcases hp with hp | hp
        · rw [hp]; exact Nat.le_refl _
        · have := (h.ownsLe p hp).1
          have := (hpw hwr).2
          show p.1 ≤ lv
          omega
    · -- cover
      intro p tp rest0 ho
      rw [howns] at ho
      rw [hseen', hclk, hw]
      cases hwr : wrote
      · rw [hwr] at ho
        simp only [Bool.false_eq_true, if_false] at ho
        have hin : (p, tp) ∈ r.owns := by rw [ho]; exact List.mem_cons_self ..
        have htp := (h.ownsLe _ hin).2
        rcases h.cover p tp rest0 ho with c1 | ⟨dl, hdl, c2⟩ | c3
        · left; omega
        · rcases C07.arrive_cases r.w (some ⟨ev.ver, false⟩) with ⟨_, hne, hm⟩ | ⟨ha, _⟩
          · by_cases hT : T = 0
            · right; right; simp only at htp; omega
            · left
              cases hex : r.w.expected with
              | none => exact absurd hex hne
              | some e =>
                rw [hex] at hm
                have hpe := h.expd hT e hex _ hin
                have : e = ⟨ev.ver, false⟩ := (Option.some.inj hm).symm
                rw [this] at hpe
                exact hpe
          · right; left
            rw [ha]
            rcases feedback_cases T r.w it' with hf | ⟨p', _, _, hf⟩
            · rw [hf]; exact ⟨dl, hdl, c2⟩
            · rw [hf]; refine ⟨it'.tret + T, rfl, ?_⟩
              rw [htret]; simp only at htp; omega
        · right; right; omega
      · rw [hwr] at ho
        simp only [if_true] at ho
        have h1 := (List.cons.inj ho).1
        have hp1 : lv = p := congrArg Prod.fst h1
        have hp2 : tret = tp := congrArg Prod.snd h1
        by_cases hT : T = 0
        · right; right; omega
        · right; left
          rw [feedback_armed T _ it' _ (hpw hwr).1 hT (hneq (hpw hwr).2 nv)]
          exact ⟨it'.tret + T, rfl, by rw [htret]; omega⟩
    · -- good
      intro run hrun
      rw [hran] at hrun
      cases hh : (C07.process (C07.arrive r.w (some ⟨ev.ver, false⟩)).deadline it).handlers with
      | none => rw [hh] at hrun; exact h.good run hrun
      | some t =>
        rw [hh] at hrun
        simp only [List.mem_cons] at hrun
        rcases hrun with hrun | hrun
        rotate_left
        · exact h.good run hrun
        rw [hrun]
        have ht0 : it.now ≤ t := C07.process_handlers_ge_now hh
        have hct : r.clock ≤ t := by
          have : r.clock ≤ it.now := by rw [hnow]; split <;> omega
          omega
        cases ho : r.owns with
        | nil => left; intro p hp; simp at hp
        | cons hd rest0 =>
          obtain ⟨p, tp⟩ := hd
          have hin : (p, tp) ∈ r.owns := by rw [ho]; exact List.mem_cons_self ..
          have htp := (h.ownsLe _ hin).2
          have hso := h.ownsSorted
          rw [ho, List.pairwise_cons] at hso
          have allLe : ∀ b : Nat, p ≤ b → ∀ q ∈ (p, tp) :: rest0, q.1 ≤ b := by
            intro b hb q hq'
            rcases List.mem_cons.mp hq' with hq' | hq'
            · rw [hq']; exact hb
            · have := hso.1 q hq'
              simp only at this
              omega
          rcases h.cover p tp rest0 ho with c1 | ⟨dl, hdl, c2⟩ | c3
          · left; exact allLe ev.ver (by omega)
          · rcases C07.arrive_cases r.w (some ⟨ev.ver, false⟩) with ⟨_, hne, hm⟩ | ⟨ha, _⟩
            · by_cases hT : T = 0
              · right; exact ⟨p, tp, rest0, rfl, by simp only at htp ⊢; omega⟩
              · left
                cases hex : r.w.expected with
                | none => exact absurd hex hne
                | some e =>
                  rw [hex] at hm
                  have hpe := h.expd hT e hex _ hin
                  have : e = ⟨ev.ver, false⟩ := (Option.some.inj hm).symm
                  rw [this] at hpe
                  exact allLe ev.ver hpe
            · rw [ha, hdl] at hh
              have := C07.process_handlers_deadline hh
              right; exact ⟨p, tp, rest0, rfl, by simp only; omega⟩
          · right; exact ⟨p, tp, rest0, rfl, by simp only at htp ⊢; omega⟩



theorem inv_act2 (T idle : Int) (env : C03.Env) (r : RState E) (a : Act E) (h : Inv T r) : Inv T (act2 T idle env r a) := by
  cases a with
  | work d => exact inv_work2 T env d r h
  | foreign e at_ => exact inv_act T idle env r (.foreign e at_) h
  | delete at_ => exact inv_act T idle env r (.delete at_) h
  | carry c => exact inv_act T idle env r (.carry c) h
  | retire t => exact inv_act T idle env r (.retire t) h

theorem inv_runActs2 (T idle : Int) (env : C03.Env) (acts : List (Act E)) :
    ∀ r : RState E, Inv T r → Inv T (runActs2 T idle env r acts) := by
  induction acts with
  | nil => intro r h; exact h
  | cons a rest ih => intro r h; exact ih _ (inv_act2 T idle env r a h)

end Kopf.X01
