/-
  C04 — an ordinary annotation (and every label) survives all stages of `build` / `clear`.
-/
import Kopf.Lemmas.C04_Meta
set_option linter.unusedSimpArgs false
namespace Kopf.C04
open Kopf Kopf.J

/-- the annotations `A` came from `A0` by filters that keep the key `k`. -/
def KeepsKey (k : String) (A0 A : Option Kvs) : Prop :=
  match A0, A with
  | none, none => True
  | some a0, some a => lookup k a = lookup k a0 ∧ ∀ x, x ∈ keys a → x ∈ keys a0
  | _, _ => False

theorem keepsKey_refl (k : String) (A : Option Kvs) : KeepsKey k A A := by
  cases A with
  | none => trivial
  | some a => exact ⟨rfl, fun _ h => h⟩

theorem lookup_filtK {f : String → Bool} {k : String} (hk : f k = true) : ∀ (a : Kvs), lookup k (filtK f a) = lookup k a
  | [] => rfl
  | (k2, v) :: a => by
    by_cases e : k2 = k
    · subst e; simp [filtK, List.filter_cons, hk, lookup_cons]
    · by_cases hf : f k2 = true
      · simp [filtK, List.filter_cons, hf, lookup_cons, e]; exact lookup_filtK hk a
      · simp [filtK, List.filter_cons, hf, lookup_cons, e]; exact lookup_filtK hk a

theorem keys_filtK {f : String → Bool} {a : Kvs} {x : String} (h : x ∈ keys (filtK f a)) : x ∈ keys a := by
  simp only [keys, filtK, List.mem_map] at h ⊢
  obtain ⟨kv, hkv, rfl⟩ := h
  exact ⟨kv, (List.mem_filter.1 hkv).1, rfl⟩

theorem keepsKey_step {k : String} {A0 A : Option Kvs} (g : Kvs → String → Bool)
    (h : KeepsKey k A0 A) (hg : ∀ a, A = some a → g a k = true) :
    KeepsKey k A0 (A.map (fun a => filtK (g a) a)) := by
  cases A0 with
  | none => cases A with
    | none => trivial
    | some a => exact absurd h id
  | some a0 => cases A with
    | none => exact absurd h id
    | some a =>
      obtain ⟨h1, h2⟩ := h
      exact ⟨(lookup_filtK (hg a rfl) a).trans h1, fun x hx => h2 x (keys_filtK hx)⟩

theorem markedPrefixes_mono {K K' : List String} (h : ∀ x, x ∈ K → x ∈ K') {p : List Char}
    (hp : p ∈ markedPrefixes K) : p ∈ markedPrefixes K' := by
  obtain ⟨k, hk, hm⟩ := mem_markedPrefixes.1 hp
  exact mem_markedPrefixes.2 ⟨k, h k hk, hm⟩

theorem ordinary_mono {k : String} {a0 a : Kvs} (h : Ordinary k a0) (hs : ∀ x, x ∈ keys a → x ∈ keys a0) :
    Ordinary k a :=
  ⟨h.1, fun p hp hm => h.2 p hp (markedPrefixes_mono hs hm)⟩

theorem keepA_of_ordinary {k : String} {a : Kvs} (h : Ordinary k a) : keepA a k = true := by
  unfold keepA
  have : (markedPrefixes (keys a)).any (fun p => underPrefix p k) = false := by
    cases hany : (markedPrefixes (keys a)).any (fun p => underPrefix p k) with
    | false => rfl
    | true =>
      obtain ⟨p, hp, hmem⟩ := (dropped_iff _ _).1 hany
      exact absurd hmem (h.2 p hp)
  simp [keepAnnotation, this, h.1]

theorem prefix_under (p rest : List Char) : underPrefix p (String.ofList (p ++ ['/'] ++ rest)) = true := by
  simp [underPrefix, String.toList_ofList, List.isPrefixOf_iff_prefix, List.append_assoc]

theorem makeV2Key_under {hs : Hashes} {p mk k2 : List Char} (h : makeV2Key hs p mk = .ok k2) :
    underPrefix p (String.ofList k2) = true := by
  simp only [makeV2Key] at h
  split at h <;>
  · obtain ⟨sfx, _, h1⟩ := bind_ok h
    obtain ⟨name, _, h2⟩ := bind_ok h1
    simp [pure, Except.pure] at h2
    subst h2
    simpa [List.append_assoc] using prefix_under p name

theorem makeV1Key_under {hs : Hashes} {p mk k1 : List Char} (h : makeV1Key hs p mk = .ok k1) :
    underPrefix p (String.ofList k1) = true := by
  simp only [makeV1Key] at h
  split at h <;>
  · obtain ⟨sfx, _, h1⟩ := bind_ok h
    obtain ⟨name, _, h2⟩ := bind_ok h1
    simp [pure, Except.pure] at h2
    subst h2
    simpa [List.append_assoc] using prefix_under p name

/-- every key `make_keys` forms lies under the storage's prefix. -/
theorem makeKeys_under {hs : Hashes} {v1 : Bool} {p mk : List Char} {ks : List String}
    (h : makeKeys hs v1 p mk = .ok ks) : ∀ x, x ∈ ks → underPrefix p x = true := by
  simp only [makeKeys] at h
  obtain ⟨k2, h2, h3⟩ := bind_ok h
  have u2 := makeV2Key_under h2
  cases v1 with
  | false =>
    simp [pure, Except.pure] at h3; subst h3
    intro x hx; simp at hx; subst hx; exact u2
  | true =>
    simp only [if_true] at h3
    obtain ⟨sfx0, _, h3b⟩ := bind_ok h3
    split at h3b
    · obtain ⟨k1, h1, h4⟩ := bind_ok h3b
      have u1 := makeV1Key_under h1
      split at h4
      · simp [pure, Except.pure] at h4; subst h4
        intro x hx; simp at hx; subst hx; exact u2
      · simp [pure, Except.pure] at h4; subst h4
        intro x hx; simp at hx
        rcases hx with rfl | rfl
        · exact u2
        · exact u1
    · simp [pure, Except.pure] at h3b; subst h3b
      intro x hx; simp at hx; subst hx; exact u2

theorem notIn_of_not_under {hs : Hashes} {v1 : Bool} {p mk : List Char} {ks : List String} {k : String}
    (h : makeKeys hs v1 p mk = .ok ks) (hk : underPrefix p k = false) : notIn ks k = true := by
  unfold notIn
  cases hc : ks.contains k with
  | false => rfl
  | true =>
    have : k ∈ ks := by simpa using hc
    rw [makeKeys_under h k this] at hk; cases hk

theorem cleanM_N (L : Option J) (A : Option Kvs) : cleanM (N L A) = N L A := by
  unfold N
  rw [cleanM_mk]
  exact N_N L A

theorem leaf_keeps {hs : Hashes} {extra : List (List String)} {l : Kvs} {e : J} {L : Option J} {A0 A : Option Kvs}
    {k : String} (leaf : DiffBaseLeaf) (hsrc : Src l L A) (hav : AvoidKey "metadata" (leafFields leaf))
    (hx : ExtraAvoids "metadata" extra) (hkk : KeepsKey k A0 A) (hord : ∀ a0, A0 = some a0 → Ordinary k a0)
    (hown : ∀ p, p ∈ leafPrefixes leaf → underPrefix p.toList k = false)
    (h : leafBuild hs extra (.obj l) leaf = .ok e) :
    ∃ le A', e = .obj le ∧ lookup "metadata" le = N L A' ∧ KeepsKey k A0 A' := by
  have hordA : ∀ a, A = some a → Ordinary k a := by
    intro a ha
    subst ha
    cases A0 with
    | none => exact absurd hkk id
    | some a0 => exact ordinary_mono (hord a0 rfl) hkk.2
  obtain ⟨ho, hm⟩ := leafBuild_meta leaf hsrc hav hx h
  cases e with
  | obj le =>
    cases leaf with
    | annotations p key v1 ig =>
      obtain ⟨mkk, ks, _, hks, hg⟩ := hm
      refine ⟨le, A.map (leafAnn ks), rfl, by simpa [get?] using hg, ?_⟩
      have hni := notIn_of_not_under hks (hown p (by simp [leafPrefixes]))
      have h1 := keepsKey_step (fun a => keepA a) hkk (fun a ha => keepA_of_ordinary (hordA a ha))
      have h2 := keepsKey_step (fun _ => notIn ks) h1 (fun _ _ => hni)
      cases A <;> exact h2
    | status f ig =>
      refine ⟨le, A.map (fun a => filtK (keepA a) a), rfl, by simpa [get?] using hm, ?_⟩
      exact keepsKey_step (fun a => keepA a) hkk (fun a ha => keepA_of_ordinary (hordA a ha))
  | _ => simp [isObj] at ho

/-! ### the pseudo-body of Multi has the same labels and annotations as the essence it wraps -/

theorem lookup_labels_metaKvs (l : Kvs) : lookup "labels" (metaKvs l) = bodyLabels l := by
  unfold metaKvs bodyLabels
  cases lookup "metadata" l with
  | none => rfl
  | some mv => cases mv <;> rfl

theorem bodyAnn_via_metaKvs (l : Kvs) :
    bodyAnn l = match lookup "annotations" (metaKvs l) with
      | some (.obj a) => some a
      | _ => none := by
  unfold metaKvs bodyAnn
  cases lookup "metadata" l with
  | none => rfl
  | some mv => cases mv <;> rfl

theorem bodyLabels_congr {l l' : Kvs} (h : lookup "metadata" l' = lookup "metadata" l) : bodyLabels l' = bodyLabels l := by
  unfold bodyLabels; rw [h]

theorem bodyAnn_congr {l l' : Kvs} (h : lookup "metadata" l' = lookup "metadata" l) : bodyAnn l' = bodyAnn l := by
  unfold bodyAnn; rw [h]

theorem metaKvs_congr {l l' : Kvs} (h : lookup "metadata" l' = lookup "metadata" l) : metaKvs l' = metaKvs l := by
  unfold metaKvs; rw [h]

theorem bodyLabels_pseudo (orig : J) (l : Kvs) : bodyLabels (withOwners orig (withKind orig l)) = bodyLabels l := by
  have hk : lookup "metadata" (withKind orig l) = lookup "metadata" l := lookup_withKind orig l (by decide)
  unfold withOwners
  cases ownerRefs orig with
  | none => exact bodyLabels_congr hk
  | some o =>
    simp only []
    unfold bodyLabels
    rw [lookup_insert_same]
    simp only []
    rw [lookup_insert_other _ _ (by decide : "labels" ≠ "ownerReferences"), metaKvs_congr hk, lookup_labels_metaKvs]
    rfl

theorem bodyAnn_pseudo (orig : J) (l : Kvs) : bodyAnn (withOwners orig (withKind orig l)) = bodyAnn l := by
  have hk : lookup "metadata" (withKind orig l) = lookup "metadata" l := lookup_withKind orig l (by decide)
  unfold withOwners
  cases ownerRefs orig with
  | none => exact bodyAnn_congr hk
  | some o =>
    simp only []
    rw [bodyAnn_via_metaKvs l]
    unfold bodyAnn
    rw [lookup_insert_same]
    simp only []
    rw [lookup_insert_other _ _ (by decide : "annotations" ≠ "ownerReferences"), metaKvs_congr hk]
    cases lookup "annotations" (metaKvs l) with
    | none => rfl
    | some v => cases v <;> rfl

theorem src_pseudo (orig : J) {l : Kvs} {L : Option J} {A : Option Kvs} (h : lookup "metadata" l = N L A) :
    Src (withOwners orig (withKind orig l)) L A := by
  intro ig extra e hig hx hb
  rw [baseBuild_meta hig hx hb, bodyLabels_pseudo, bodyAnn_pseudo, bodyLabels_of_N h, bodyAnn_of_N h]
  exact N_filter_nonempty L A (fun a => filtK (keepA a) a) rfl

theorem multi_keeps {hs : Hashes} {extra : List (List String)} {L : Option J} {A0 : Option Kvs} {k : String} {orig : J}
    (hx : ExtraAvoids "metadata" extra) (hord : ∀ a0, A0 = some a0 → Ordinary k a0) :
    ∀ (ls : List DiffBaseLeaf) (l : Kvs) (A : Option Kvs) (e : J),
      lookup "metadata" l = N L A → KeepsKey k A0 A →
      (∀ lf, lf ∈ ls → AvoidKey "metadata" (leafFields lf)) →
      (∀ lf, lf ∈ ls → ∀ p, p ∈ leafPrefixes lf → underPrefix p.toList k = false) →
      multiBuild hs extra orig (.obj l) ls = .ok e →
      ∃ le A', e = .obj le ∧ lookup "metadata" le = N L A' ∧ KeepsKey k A0 A'
  | [], l, A, e, hl, hk, _, _, h => by
    simp [multiBuild] at h; subst h; exact ⟨l, A, rfl, hl, hk⟩
  | lf :: ls, l, A, e, hl, hk, hav, hown, h => by
    simp only [multiBuild] at h
    obtain ⟨e1, h1, h2⟩ := bind_ok h
    have h1' : leafBuild hs extra (.obj (withOwners orig (withKind orig l))) lf = .ok e1 := h1
    obtain ⟨l1, A1, rfl, hl1, hk1⟩ := leaf_keeps lf (src_pseudo orig hl) (hav lf List.mem_cons_self) hx hk hord
      (hown lf List.mem_cons_self) h1'
    exact multi_keeps hx hord ls l1 A1 e hl1 hk1 (fun x hx' => hav x (List.mem_cons_of_mem _ hx'))
      (fun x hx' => hown x (List.mem_cons_of_mem _ hx')) h2

theorem progress_keeps {L : Option J} {A0 : Option Kvs} {k : String} :
    ∀ (pc : ProgressCfg) (l : Kvs) (A : Option Kvs) (e : J),
      lookup "metadata" l = N L A → KeepsKey k A0 A →
      AvoidKey "metadata" (progressFields pc) →
      (∀ p, p ∈ progressPrefixes pc → underPrefix p.toList k = false) →
      progressClear (.obj l) pc = .ok e →
      ∃ le A', e = .obj le ∧ lookup "metadata" le = N L A' ∧ KeepsKey k A0 A'
  | [], l, A, e, hl, hk, _, _, h => by
    simp [progressClear] at h; subst h; exact ⟨l, A, rfl, hl, hk⟩
  | .annotations q :: pc, l, A, e, hl, hk, hav, hown, h => by
    simp only [progressClear] at h
    obtain ⟨e1, h1, h2⟩ := bind_ok h
    simp only [clearLeaf] at h1
    split at h1
    · cases h1
    · cases h1
      have hg := filter_clean_meta (fun k => !underPrefix q.toList k) hl
      have hq : underPrefix q.toList k = false := hown q (by simp [progressPrefixes])
      have hobj : (removeEmptyStanzas (filterAnnotations (fun k => !underPrefix q.toList k) (.obj l))).isObj = true := by
        cases hf : filterAnnotations (fun k => !underPrefix q.toList k) (.obj l) with
        | obj l2 => exact removeEmptyStanzas_isObj l2
        | _ => have := filterAnnotations_isObj (fun k => !underPrefix q.toList k) l; rw [hf] at this; simp [isObj] at this
      cases he : removeEmptyStanzas (filterAnnotations (fun k => !underPrefix q.toList k) (.obj l)) with
      | obj l1 =>
        rw [he] at h2 hg
        have hk1 : KeepsKey k A0 (A.map (filtK (fun k => !underPrefix q.toList k))) :=
          keepsKey_step (fun _ => fun k => !underPrefix q.toList k) hk (fun _ _ => by simp [hq])
        exact progress_keeps pc l1 _ e (by simpa [get?] using hg) hk1 hav
          (fun p hp => hown p (by simp [progressPrefixes, hp])) h2
      | _ => rw [he] at hobj; simp [isObj] at hobj
  | .status f t :: pc, l, A, e, hl, hk, hav, hown, h => by
    simp only [progressClear] at h
    obtain ⟨e1, h1, h2⟩ := bind_ok h
    simp only [clearLeaf] at h1
    obtain ⟨e0, h0, h3⟩ := bind_ok h1
    obtain ⟨hd, hhd, hne⟩ := hav f List.mem_cons_self
    obtain ⟨td, thd, tne⟩ := hav t (List.mem_cons_of_mem _ List.mem_cons_self)
    have g0 : e0.get? "metadata" = (J.obj l).get? "metadata" := ignoreFields_get? "metadata" [f, t] _ e0 (avoidKey_two hhd thd hne tne) h0
    have o0 : e0.isObj = true := ignoreFields_isObj [f, t] (.obj l) e0 rfl h0
    cases e0 with
    | obj l0 =>
      cases hm : metaOK (.obj l0) with
      | false => simp [hm, throw, throwThe, MonadExceptOf.throw, bind, Except.bind] at h3
      | true =>
        simp [hm, pure, Except.pure] at h3
        subst h3
        obtain ⟨l1, hl1, g1⟩ := removeEmptyStanzas_meta l0
        rw [hl1] at h2
        have : lookup "metadata" l1 = N L A := by
          rw [g1]
          have : lookup "metadata" l0 = N L A := by simpa [get?, hl] using g0
          rw [this, cleanM_N]
        exact progress_keeps pc l1 A e this hk (fun g hg => hav g (List.mem_cons_of_mem _ (List.mem_cons_of_mem _ hg)))
          (fun p hp => hown p (by simpa [progressPrefixes] using hp)) h2
    | _ => simp [isObj] at o0

/-- **the metadata stanza of the essence**: labels as in the body, annotations filtered by stages
    that all keep an ordinary, not-own key `k`. -/
theorem essence_meta_keeps {cfg : Cfg} {extra : List (List String)} {kvs : Kvs} {e : J} {k : String}
    (hplain : MetaPlain cfg extra) (hord : ∀ a0, bodyAnn kvs = some a0 → Ordinary k a0) (hown : NotOwn cfg k)
    (h : essence cfg extra (.obj kvs) = .ok e) :
    ∃ le A', e = .obj le ∧ lookup "metadata" le = N (bodyLabels kvs) A' ∧ KeepsKey k (bodyAnn kvs) A' := by
  obtain ⟨hd, hp, hx⟩ := hplain
  simp only [essence] at h
  obtain ⟨e1, h1, h2⟩ := bind_ok h
  have hownD : ∀ p, p ∈ diffbasePrefixes cfg.diffbase → underPrefix p.toList k = false :=
    fun p hp' => hown p (List.mem_append_left _ hp')
  have hownP : ∀ p, p ∈ progressPrefixes cfg.progress → underPrefix p.toList k = false :=
    fun p hp' => hown p (List.mem_append_right _ hp')
  have stage1 : ∃ l1 A1, e1 = .obj l1 ∧ lookup "metadata" l1 = N (bodyLabels kvs) A1 ∧ KeepsKey k (bodyAnn kvs) A1 := by
    cases hdb : cfg.diffbase with
    | leaf lf =>
      rw [hdb] at h1 hd hownD
      exact leaf_keeps lf (src_body kvs) hd hx (keepsKey_refl k _) hord hownD h1
    | multi ls =>
      rw [hdb] at h1 hd hownD
      simp only [diffbaseBuild] at h1
      obtain ⟨e0, h0, h3⟩ := bind_ok h1
      have g0 := baseBuild_meta (fun _ hf => by cases hf) hx h0
      have o0 := baseBuild_isObj h0
      cases e0 with
      | obj l0 =>
        have hk0 : KeepsKey k (bodyAnn kvs) ((bodyAnn kvs).map (fun a => filtK (keepA a) a)) :=
          keepsKey_step (fun a => keepA a) (keepsKey_refl k _) (fun a ha => keepA_of_ordinary (hord a ha))
        exact multi_keeps hx hord ls l0 _ e1 (by simpa [get?] using g0) hk0
          (fun lf hlf f hf => hd f (List.mem_flatMap.2 ⟨lf, hlf, hf⟩))
          (fun lf hlf p hp' => hownD p (List.mem_flatMap.2 ⟨lf, hlf, hp'⟩)) h3
      | _ => simp [isObj] at o0
  obtain ⟨l1, A1, rfl, hl1, hk1⟩ := stage1
  exact progress_keeps cfg.progress l1 A1 e hl1 hk1 hp hownP h2

end Kopf.C04
