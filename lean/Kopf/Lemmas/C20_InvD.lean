/-
  C20 helper lemmas, part 5: the timed invariant (`InvD`) behind `exit_bound`.
  `G = E + W + D` bounds every `finally:` of a root / ensemble task; once `run_tasks` has begun to
  stop the root tasks at `t`, everything but the cleanup activity is over by `t + G`, the cleanup by
  `t + G + C`, the hung tasks by `t + G + C + H`.
-/
import Kopf.Lemmas.C20_InvC
namespace Kopf.C20

def G (cfg : Cfg) : Nat := cfg.E + cfg.W + cfg.D

/-- `startup_cleanup_activities` has not reached the cleanup activity -/
def scBeforeCleanup : Sc → Bool
  | .cleanup _ | .closing | .over _ => false
  | _ => true

/-- `startup_cleanup_activities` has consumed its wake-up cancellation -/
def scLate : Sc → Bool
  | .init | .startup | .startupOk | .flagged | .sleeping => false
  | _ => true

def stoppingPhase (s : State) : Prop := s.rt = .stoppingRoots ∨ s.rt = .cStoppingRoots

structure InvD (cfg : Cfg) (s : State) : Prop where
  rootPresent : ∀ r, s.st (.root r) ≠ .absent
  dlRoot : ∀ r f dl, s.st (.root r) = .stopping f (some dl) → s.now ≤ dl ∧ dl ≤ s.now + G cfg
  dlSub : ∀ i f dl, i < s.nSubs → s.st (.sub i) = .stopping f (some dl) → s.now ≤ dl ∧ dl ≤ s.now + G cfg
  dlCleanup : ∀ tc, s.sc = .cleanup tc → tc ≤ s.now ∧ s.now ≤ tc + cfg.C
  dlHung : ∀ dl, s.rt = .hungWait dl → s.now ≤ dl
  a : ∀ t, s.t0 = some t → stoppingPhase s → ∀ r, r ≠ .startupCleanup → (s.st (.root r)).live = true →
    (s.creq (.root r) = true ∧ s.now = t) ∨ (s.st (.root r)).isStopping = true
  b : ∀ t, s.t0 = some t → stoppingPhase s → ∀ r f dl, s.st (.root r) = .stopping f (some dl) → dl ≤ t + G cfg
  c : ∀ t, s.t0 = some t → stoppingPhase s → (s.st (.root .orchestrator)).isStopping = true →
    ∀ i, i < s.nSubs → (s.st (.sub i)).live = true →
      (s.creq (.sub i) = true ∧ s.now = t) ∨ (s.st (.sub i)).isStopping = true
  d : ∀ t, s.t0 = some t → stoppingPhase s → ∀ i f dl, i < s.nSubs → s.st (.sub i) = .stopping f (some dl) →
    dl ≤ t + G cfg
  e : ∀ t, s.t0 = some t → stoppingPhase s → (s.st (.root .startupCleanup)).live = true →
    (s.creq (.root .startupCleanup) = true ∧ s.now = t) ∨ scLate s.sc = true
  f : ∀ t tc, s.t0 = some t → s.sc = .cleanup tc → tc ≤ t + G cfg
  g1 : ∀ t, s.t0 = some t → stoppingPhase s → scBeforeCleanup s.sc = true → s.now ≤ t + G cfg
  g2 : ∀ t, s.t0 = some t → stoppingPhase s → s.now ≤ t + G cfg + cfg.C
  hung : ∀ t dl, s.t0 = some t → s.rt = .hungWait dl → dl ≤ t + G cfg + cfg.C + cfg.H
  fin : ∀ t, s.t0 = some t → (s.rt = .stoppingHung ∨ s.rt = .cStoppingHung ∨ s.rt = .exited) →
    s.now ≤ t + G cfg + cfg.C + cfg.H

theorem InvD.init (cfg : Cfg) : InvD cfg init := by
  constructor <;> simp [Kopf.C20.init, initSt, stoppingPhase]
  all_goals (intro r; split <;> simp)

theorem grace_le_G (cfg : Cfg) (s : State) (t : Task) : grace cfg s t ≤ G cfg := by
  unfold grace G
  cases t <;> simp only <;> split <;> omega

theorem InvD.now_eq_root {cfg : Cfg} {s : State} (hI : InvD cfg s) {t : Nat} {r : Root}
    (ht : s.t0 = some t) (hp : stoppingPhase s) (hr : r ≠ .startupCleanup) (hst : s.st (.root r) = .running) :
    s.now = t := by
  have := hI.a t ht hp r hr (by simp [hst])
  simp [hst] at this
  exact this.2

theorem InvD.now_eq_sub {cfg : Cfg} {s : State} (hB : InvB s) (hI : InvD cfg s) {t : Nat} {i : Nat}
    (ht : s.t0 = some t) (hp : stoppingPhase s) (hi : i < s.nSubs) (hst : s.st (.sub i) = .running) :
    s.now = t := by
  have ho := hB.subOrch i hi (by simp [hst])
  cases hos : s.st (.root .orchestrator) with
  | running => exact hI.now_eq_root ht hp (by decide) hos
  | stopping f dl =>
    have := hI.c t ht hp (by simp [hos]) i hi (by simp [hst])
    simp [hst] at this
    exact this.2
  | _ => simp [hos] at ho

theorem stoppingPhase_of_live {s : State} (hC : InvC s) (hn : s.rt ≠ .waiting)
    (hl : (s.st (.root .startupCleanup)).ended = false) : stoppingPhase s := by
  unfold stoppingPhase
  by_cases h1 : s.rt = .stoppingRoots
  · exact Or.inl h1
  by_cases h2 : s.rt = .cStoppingRoots
  · exact Or.inr h2
  have := hC.hungRoots hn h1 h2 .startupCleanup
  simp [this] at hl

set_option maxHeartbeats 8000000 in
theorem InvD.preserved_nodelay {cfg : Cfg} {s s' : State} {l : Label} (hB : InvB s) (hC : InvC s)
    (hI : InvD cfg s) (hl : ∀ n, l ≠ .delay n) (h : step cfg s l = some s') : InvD cfg s' := by
  have hb2 := hB.subOrch
  have hb3 := hB.wkRoot
  have hb4 := hB.wkSub
  have hb8 := hB.stoppingNone
  have hb9 := hB.subSome
  have hb10 := hB.orchStopSubs
  have hc9 := hC.waitingEarly
  have hc10 := hC.t0Some
  have hgr := grace_le_G cfg s
  have hL1 : ∀ t r, s.t0 = some t → stoppingPhase s → r ≠ .startupCleanup → s.st (.root r) = .running → s.now = t :=
    fun t r ht hp hr hst => hI.now_eq_root ht hp hr hst
  have hL2 : ∀ t i, s.t0 = some t → stoppingPhase s → i < s.nSubs → s.st (.sub i) = .running → s.now = t :=
    fun t i ht hp hi hst => hI.now_eq_sub hB ht hp hi hst
  have hL3 : s.rt ≠ .waiting → (s.st (.root .startupCleanup)).ended = false → stoppingPhase s :=
    fun hn hl => stoppingPhase_of_live hC hn hl
  have hc11 := hC.scOver
  have hkO : ∀ r : Root, r.kind = .observer → r ≠ .startupCleanup := by intro r; cases r <;> simp [Root.kind]
  have hkS : ∀ r : Root, r.kind = .simple → r ≠ .startupCleanup := by intro r; cases r <;> simp [Root.kind]
  obtain ⟨h0, h1, h2, h3, h4, h5, h6, h7, h8, h9, h10, h11, h12, h13, h14⟩ := hI
  cases l <;> simp only [step] at h
  case delay n => exact absurd rfl (hl n)
  all_goals (repeat' (split at h))
  all_goals (first | (cases h; done) | skip)
  all_goals (cases h)
  all_goals (try simp only [allRootsEnded_iff, anyRootEnded_iff, othersEnded_iff, hungLive_false_iff,
    noLiveWorkerOf_iff, noLiveSub_iff] at *)
  all_goals (refine ⟨?_, ?_, ?_, ?_, ?_, ?_, ?_, ?_, ?_, ?_, ?_, ?_, ?_, ?_, ?_⟩)
  all_goals (first | exact h0 | exact h1 | exact h2 | exact h3 | exact h4 | exact h5 | exact h6 | exact h7 | exact h8
                   | exact h9 | exact h10 | exact h11 | exact h12 | exact h13 | exact h14 | skip)
  all_goals (try simp only [kind_orchestrator_iff, kind_killer_iff, kind_flagChecker_iff, kind_ultimate_iff,
    kind_startupCleanup_iff] at *)
  all_goals (try subst_vars)
  all_goals (try dsimp only)
  all_goals (grind [upd, Root.kind, TS.active, TS.live, TS.ended, TS.isStopping, failTS, cancelSubs,
    cancelRoots, Pend.ts, scBeforeCleanup, scLate, scEarly, stoppingPhase, G, grace])

end Kopf.C20
