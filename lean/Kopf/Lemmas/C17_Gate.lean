/-
  C17 helper lemmas, part 5: the inductive invariant of the start-up gate.
-/
import Kopf.Model.C17_Gate
import Kopf.Lemmas.C17_Step
namespace Kopf.C17.Gate
open Kopf.C17

section
variable {R O : Type} [DecidableEq R] [DecidableEq O]

theorem aget_append_single {α β : Type} [DecidableEq α] (k k' : α) (v : β) (l : List (α × β)) :
    aget k (l ++ [(k', v)]) =
      match aget k l with
      | some x => some x
      | none => if k' = k then some v else none := by
  induction l with
  | nil => simp [aget]
  | cons p r ih =>
    obtain ⟨a, b⟩ := p
    by_cases h : a = k
    · simp [aget, h]
    · simp [aget, h, ih]

theorem mem_ite_sadd_of_mem {α : Type} [DecidableEq α] {c : Prop} [Decidable c] {x y : α} {l : List α}
    (h : y ∈ l) : y ∈ (if c then sadd x l else l) := by
  split <;> simp [mem_sadd, h]

theorem mem_ite_sadd_self {α : Type} [DecidableEq α] {c : Prop} [Decidable c] {x : α} {l : List α}
    (hc : c) : x ∈ (if c then sadd x l else l) := by
  simp [hc, mem_sadd]

structure Inv (s : GState R O) : Prop where
  c0 : s.started = false → s.spawning = false ∧ s.spawned = [] ∧ s.everOn = false ∧
        ∀ ro, s.workers ro = none
  c1 : s.spawning = true → s.blocker = true
  c1' : s.spawning = false → s.pending = []
  c2 : ∀ r, aget r s.spawned = some true → r ∉ s.listed → r ∈ s.resTog
  c3 : ∀ ro, ro ∈ s.listing → ro ∉ s.indexedOnce → ro ∈ s.objTog ∨ ro ∈ s.leaked
  c4 : ∀ r, r ∈ s.detached → s.everOn = true
  c4' : ∀ r, r ∈ s.detached → aget r s.spawned = some true → r ∈ s.listed
  c5 : ∀ ro w, s.workers ro = some w → w.pc ≠ .queued → w.pc ≠ .idle → ro ∈ s.indexedOnce
  c6 : ∀ r, r ∈ s.detached → (aget r s.spawned).isSome = true
  c8 : ∀ r, r ∈ s.first → r ∈ s.listed ∨ aget r s.spawned = some true ∨ r ∈ s.leakedK ∨ (r, true) ∈ s.pending
  a : s.everOn = false → s.handled = false ∧
        ∀ ro w, s.workers ro = some w → w.gated = true ∧
          (w.pc = .queued ∨ w.pc = .indexed ∨ w.pc = .waiting ∨ w.pc = .idle)
  b : s.everOn = true → Ready1 s

theorem inv_init : Inv (GState.init : GState R O) := by
  refine ⟨?_, ?_, ?_, ?_, ?_, ?_, ?_, ?_, ?_, ?_, ?_, ?_⟩ <;> simp [GState.init]

theorem isOn_iff (s : GState R O) :
    s.isOn = true ↔ s.blocker = false ∧ s.resTog = [] ∧ s.objTog = [] ∧ s.leaked = [] ∧ s.leakedK = [] := by
  simp [GState.isOn, and_assoc]

/-- whoever sees the set on sees a complete, listed and indexed start-up -/
theorem ready_of_isOn {s : GState R O} (hi : Inv s) (hon : s.isOn = true) : Ready s := by
  obtain ⟨hb, hr, ho, hlk, _⟩ := (isOn_iff s).1 hon
  have hsp : s.spawning = false := by
    cases h : s.spawning with
    | false => rfl
    | true => have := hi.c1 h; simp [hb] at this
  refine ⟨hb, hsp, hi.c1' hsp, ?_, ?_⟩
  · intro r hr'
    cases hd : decide (r ∈ s.listed) with
    | true => simpa using hd
    | false =>
      have hnl : r ∉ s.listed := by simpa using hd
      have := hi.c2 r hr' hnl
      simp [hr] at this
  · intro ro hro
    cases hd : decide (ro ∈ s.indexedOnce) with
    | true => simpa using hd
    | false =>
      have hnl : ro ∉ s.indexedOnce := by simpa using hd
      have := hi.c3 ro hro hnl
      simp [ho, hlk] at this

theorem started_of_spawned {s : GState R O} (hi : Inv s) {r : R} {ind : Bool}
    (h : aget r s.spawned = some ind) : s.started = true := by
  cases hs : s.started with
  | true => rfl
  | false =>
    have := (hi.c0 hs).2.1
    simp [this] at h

theorem started_of_worker {s : GState R O} (hi : Inv s) {ro : R × O} {w : Worker}
    (h : s.workers ro = some w) : s.started = true := by
  cases hs : s.started with
  | true => rfl
  | false =>
    have := (hi.c0 hs).2.2.2 ro
    simp [this] at h

theorem started_of_spawning {s : GState R O} (hi : Inv s) (h : s.spawning = true) : s.started = true := by
  cases hs : s.started with
  | true => rfl
  | false => have := (hi.c0 hs).1; simp [h] at this

/-- the momentary readiness of everything spawned so far (seen with the set on, hence with nothing
    leaked) implies the readiness of the start-up kinds -/
theorem ready1_of_ready {s : GState R O} (hi : Inv s) (hlk : s.leakedK = []) (h : Ready s) : Ready1 s := by
  obtain ⟨_, _, hpd, hl, hx⟩ := h
  refine ⟨?_, fun ro hro _ => hx ro hro⟩
  intro r hr
  rcases hi.c8 r hr with h1 | h1 | h1 | h1
  · exact h1
  · exact hl r h1
  · simp [hlk] at h1
  · simp [hpd] at h1

theorem ready1_of_isOn {s : GState R O} (hi : Inv s) (hon : s.isOn = true) : Ready1 s :=
  ready1_of_ready hi ((isOn_iff s).1 hon).2.2.2.2 (ready_of_isOn hi hon)

theorem ready1_mono {s s' : GState R O} (h : Ready1 s)
    (h2 : s'.first = s.first)
    (h5 : ∀ r, r ∈ s.listed → r ∈ s'.listed)
    (h6 : ∀ ro, ro ∈ s'.listing → ro.1 ∈ s.first → ro ∈ s.listing)
    (h7 : ∀ ro, ro ∈ s.indexedOnce → ro ∈ s'.indexedOnce) : Ready1 s' := by
  obtain ⟨b, c⟩ := h
  refine ⟨?_, ?_⟩
  · intro r hr; rw [h2] at hr; exact h5 r (b r hr)
  · intro ro hro hf; rw [h2] at hf; exact h7 ro (c ro (h6 ro hro hf) hf)

/-- changing only a worker's pc -/
theorem inv_setPc {s : GState R O} (hi : Inv s) (ro : R × O) (w : Worker) (pc : Pc)
    (hw : s.workers ro = some w)
    (h5 : pc ≠ .queued → pc ≠ .idle → ro ∈ s.indexedOnce)
    (ha : s.everOn = false → pc = .queued ∨ pc = .indexed ∨ pc = .waiting ∨ pc = .idle) :
    Inv (setPc s ro w pc) := by
  have hst := started_of_worker hi hw
  refine ⟨?_, hi.c1, hi.c1', hi.c2, hi.c3, hi.c4, hi.c4', ?_, hi.c6, hi.c8, ?_, hi.b⟩
  · intro h; simp [setPc, hst] at h
  · intro ro' w' hw' hpc hpc2
    simp only [setPc] at hw'
    by_cases he : ro' = ro
    · subst he
      rw [upd_same] at hw'
      cases hw'
      exact h5 hpc hpc2
    · rw [upd_other _ _ _ he] at hw'
      exact hi.c5 ro' w' hw' hpc hpc2
  · intro he
    refine ⟨(hi.a he).1, ?_⟩
    intro ro' w' hw'
    simp only [setPc] at hw'
    by_cases heq : ro' = ro
    · subst heq
      rw [upd_same] at hw'
      cases hw'
      exact ⟨((hi.a he).2 ro' w hw).1, ha he⟩
    · rw [upd_other _ _ _ heq] at hw'
      exact (hi.a he).2 ro' w' hw'

/-- re-arrival bookkeeping: a toggle is never lost from `objTog ∪ leaked` -/
theorem keep_tog {h t : Bool} {x ro : R × O} {objTog leaked : List (R × O)}
    (hm : ro ∈ objTog ∨ ro ∈ leaked) :
    ro ∈ (if t = true then sadd x (if h = true then sdel x objTog else objTog)
          else (if h = true then sdel x objTog else objTog)) ∨
    ro ∈ (if h = true then x :: leaked else leaked) := by
  cases h
  · simp only [Bool.false_eq_true, if_false]
    rcases hm with hm | hm
    · exact Or.inl (mem_ite_sadd_of_mem hm)
    · exact Or.inr hm
  · simp only [if_true]
    rcases hm with hm | hm
    · by_cases he : ro = x
      · exact Or.inr (by simp [he])
      · exact Or.inl (mem_ite_sadd_of_mem (by rw [mem_sdel]; exact ⟨hm, he⟩))
    · exact Or.inr (by simp [hm])

theorem step_inv {s s' : GState R O} (l : Label R O) (hi : Inv s) (h : step .none s l = some s') : Inv s' := by
  cases l with
  | spawnBegin kinds =>
    simp only [step] at h
    split at h
    · rename_i hg
      simp only [Option.some.injEq] at h
      have hsp0 : s.spawning = false := by
        simp only [Bool.and_eq_true, Bool.not_eq_true'] at hg; exact hg.1.1
      have hpd0 : s.pending = [] := hi.c1' hsp0
      subst h
      refine ⟨by simp, by simp, by simp, hi.c2, hi.c3, hi.c4, hi.c4', hi.c5, hi.c6, ?_, hi.a, ?_⟩
      · intro r0 hr0
        have hr0' : r0 ∈ (if s.everOn = true then s.first
                          else s.first ++ (kinds.filter (·.2)).map Prod.fst) := hr0
        show r0 ∈ s.listed ∨ aget r0 s.spawned = some true ∨ r0 ∈ s.leakedK ∨ (r0, true) ∈ kinds
        have hold : r0 ∈ s.first → r0 ∈ s.listed ∨ aget r0 s.spawned = some true ∨ r0 ∈ s.leakedK ∨ (r0, true) ∈ kinds := by
          intro h0
          rcases hi.c8 r0 h0 with h1 | h1 | h1 | h1
          · exact Or.inl h1
          · exact Or.inr (Or.inl h1)
          · exact Or.inr (Or.inr (Or.inl h1))
          · simp [hpd0] at h1
        by_cases he : s.everOn = true
        · rw [if_pos he] at hr0'; exact hold hr0'
        · rw [if_neg he, List.mem_append] at hr0'
          rcases hr0' with h0 | h0
          · exact hold h0
          · obtain ⟨p, hp, hpe⟩ := List.mem_map.1 h0
            obtain ⟨hp1, hp2⟩ := List.mem_filter.1 hp
            obtain ⟨pr, pi⟩ := p
            simp only at hp2 hpe
            subst hpe; subst hp2
            exact Or.inr (Or.inr (Or.inr hp1))
      · intro he
        have he' : s.everOn = true := he
        refine ready1_mono (hi.b he') ?_ (fun _ h => h) (fun _ h _ => h) (fun _ h => h)
        show (if s.everOn = true then s.first else s.first ++ (kinds.filter (·.2)).map Prod.fst) = s.first
        simp [he']
    · cases h
  | spawn r =>
    simp only [step] at h
    cases hp : s.pending with
    | nil => simp [hp] at h
    | cons p rest =>
      obtain ⟨r', ind⟩ := p
      simp only [hp] at h
      by_cases hg : (s.spawning && decide (r' = r) && (aget r s.spawned).isNone) = true
      · simp only [hg, if_true, Option.some.injEq] at h
        simp only [Bool.and_eq_true, decide_eq_true_eq, Option.isNone_iff_eq_none] at hg
        obtain ⟨⟨hsp, hrr⟩, hnone⟩ := hg
        subst hrr
        subst h
        have hst := started_of_spawning hi hsp
        have hkeep : ∀ r0 x, aget r0 s.spawned = some x → aget r0 (s.spawned ++ [(r', ind)]) = some x := by
          intro r0 x h0; simp [aget_append_single, h0]
        refine ⟨by simp [hst], hi.c1, by simp [hsp], ?_, hi.c3, hi.c4, ?_, hi.c5, ?_, ?_, hi.a, ?_⟩
        · intro r0 hr0 hnl
          simp only [aget_append_single] at hr0
          cases hg0 : aget r0 s.spawned with
          | some x =>
            simp only [hg0, Option.some.injEq] at hr0
            subst hr0
            exact mem_ite_sadd_of_mem (hi.c2 r0 hg0 hnl)
          | none =>
            simp only [hg0] at hr0
            by_cases he : r' = r0
            · subst he
              simp only [if_true, Option.some.injEq] at hr0
              subst hr0
              show r' ∈ (if (true && (Bug.none != Bug.noKindToggle)) = true then sadd r' s.resTog else s.resTog)
              exact mem_ite_sadd_self (by decide)
            · simp [he] at hr0
        · -- c4'
          intro r0 hd hr0
          have hs0 := hi.c6 r0 hd
          cases hg0 : aget r0 s.spawned with
          | none => simp [hg0] at hs0
          | some x =>
            rw [hkeep r0 x hg0] at hr0
            cases hr0
            exact hi.c4' r0 hd hg0
        · -- c6
          intro r0 hd
          have hs0 := hi.c6 r0 hd
          cases hg0 : aget r0 s.spawned with
          | none => simp [hg0] at hs0
          | some x => simp [hkeep r0 x hg0]
        · -- c8
          intro r0 hr0
          have hr0' : r0 ∈ s.first := hr0
          show r0 ∈ s.listed ∨ aget r0 (s.spawned ++ [(r', ind)]) = some true ∨ r0 ∈ s.leakedK ∨ (r0, true) ∈ rest
          rcases hi.c8 r0 hr0' with h1 | h1 | h1 | h1
          · exact Or.inl h1
          · exact Or.inr (Or.inl (hkeep r0 true h1))
          · exact Or.inr (Or.inr (Or.inl h1))
          · rw [hp] at h1
            rcases List.mem_cons.1 h1 with h2 | h2
            · cases h2
              exact Or.inr (Or.inl (by simp [aget_append_single, hnone]))
            · exact Or.inr (Or.inr (Or.inr h2))
        · -- b
          intro he
          exact ready1_mono (hi.b he) rfl (fun _ h => h) (fun _ h _ => h) (fun _ h => h)
      · simp [hg] at h
  | spawnEnd =>
    simp only [step] at h
    by_cases hg : (s.spawning && s.pending.isEmpty) = true
    · simp only [hg, if_true, Option.some.injEq] at h
      simp only [Bool.and_eq_true, List.isEmpty_iff] at hg
      subst h
      have hst := started_of_spawning hi hg.1
      exact ⟨by simp [hst], by simp, by simp [hg.2], hi.c2, hi.c3, hi.c4, hi.c4', hi.c5, hi.c6, hi.c8, hi.a, hi.b⟩
    · simp [hg] at h
  | die r =>
    simp only [step] at h
    cases hsp : aget r s.spawned with
    | none => simp [hsp] at h
    | some ind =>
      simp only [hsp, Option.some.injEq] at h
      subst h
      have hst := started_of_spawned hi hsp
      refine ⟨by simp [hst], hi.c1, hi.c1', ?_, ?_, ?_, ?_, ?_, ?_, ?_, ?_, ?_⟩
      · -- c2
        intro r0 hr0 hnl
        have hr0' : aget r0 (adel r s.spawned) = some true := hr0
        rw [aget_adel] at hr0'
        by_cases he : r0 = r
        · simp [he] at hr0'
        · simp only [he, if_false] at hr0'
          show r0 ∈ sdel r s.resTog
          rw [mem_sdel]
          exact ⟨hi.c2 r0 hr0' hnl, he⟩
      · -- c3
        intro ro hro hni
        show ro ∈ s.objTog.filter (fun ro => !decide (ro.1 = r)) ∨
             ro ∈ s.objTog.filter (fun ro => decide (ro.1 = r)) ++ s.leaked
        rcases hi.c3 ro hro hni with h1 | h1
        · by_cases he : ro.1 = r
          · exact Or.inr (by simp [List.mem_filter, h1, he])
          · exact Or.inl (by simp [List.mem_filter, h1, he])
        · exact Or.inr (by simp [h1])
      · -- c4
        intro r0 hd
        have hd' : r0 ∈ sdel r s.detached := hd
        rw [mem_sdel] at hd'
        exact hi.c4 r0 hd'.1
      · -- c4'
        intro r0 hd hr0
        have hd' : r0 ∈ sdel r s.detached := hd
        rw [mem_sdel] at hd'
        have hr0' : aget r0 (adel r s.spawned) = some true := hr0
        rw [aget_adel_other _ hd'.2] at hr0'
        exact hi.c4' r0 hd'.1 hr0'
      · -- c5
        intro ro w hw hpc hpc2
        have hw' : (if ro.1 = r then none else s.workers ro) = some w := hw
        by_cases he : ro.1 = r
        · simp [he] at hw'
        · simp only [he, if_false] at hw'
          exact hi.c5 ro w hw' hpc hpc2
      · -- c6
        intro r0 hd
        have hd' : r0 ∈ sdel r s.detached := hd
        rw [mem_sdel] at hd'
        show (aget r0 (adel r s.spawned)).isSome = true
        rw [aget_adel_other _ hd'.2]
        exact hi.c6 r0 hd'.1
      · -- c8
        intro r0 hr0
        show r0 ∈ s.listed ∨ aget r0 (adel r s.spawned) = some true ∨
             r0 ∈ (if (ind && decide (r ∈ s.resTog)) = true then r :: s.leakedK else s.leakedK) ∨
             (r0, true) ∈ s.pending
        rcases hi.c8 r0 hr0 with h1 | h1 | h1 | h1
        · exact Or.inl h1
        · by_cases he : r0 = r
          · subst he
            rw [hsp] at h1
            cases h1
            by_cases hl : r0 ∈ s.listed
            · exact Or.inl hl
            · have := hi.c2 r0 hsp hl
              exact Or.inr (Or.inr (Or.inl (by simp [this])))
          · exact Or.inr (Or.inl (by rw [aget_adel_other _ he]; exact h1))
        · exact Or.inr (Or.inr (Or.inl (by split <;> simp [h1])))
        · exact Or.inr (Or.inr (Or.inr h1))
      · -- a
        intro he
        refine ⟨(hi.a he).1, ?_⟩
        intro ro w hw
        have hw' : (if ro.1 = r then none else s.workers ro) = some w := hw
        by_cases hx : ro.1 = r
        · simp [hx] at hw'
        · simp only [hx, if_false] at hw'
          exact (hi.a he).2 ro w hw'
      · -- b
        intro he
        exact ready1_mono (hi.b he) rfl (fun _ h => h) (fun _ h _ => h) (fun _ h => h)
  | check r o on =>
    simp only [step] at h
    cases hsp : aget r s.spawned with
    | none => simp [hsp] at h
    | some ind =>
      simp only [hsp] at h
      split at h
      · rename_i hg
        have hst := started_of_spawned hi hsp
        by_cases hon : on = true
        · simp only [hon, if_true, Option.some.injEq] at h
          have hison : s.isOn = true := by rw [← hg.2.1]; exact hon
          have hready := ready_of_isOn hi hison
          have hready1 := ready1_of_isOn hi hison
          subst h
          refine ⟨by simp [hst], hi.c1, hi.c1', hi.c2, hi.c3, (fun _ _ => rfl), ?_, hi.c5, ?_, hi.c8,
                  (fun he => by simp at he), (fun _ => hready1)⟩
          · intro r0 hd hr0
            exact hready.2.2.2.1 r0 hr0
          · intro r0 hd
            have hd' : r0 ∈ sadd r s.detached := hd
            rw [mem_sadd] at hd'
            rcases hd' with h0 | h0
            · subst h0; simp [hsp]
            · exact hi.c6 r0 h0
        · simp only [hon, Bool.false_eq_true, if_false, Option.some.injEq] at h
          subst h
          exact ⟨hi.c0, hi.c1, hi.c1', hi.c2, hi.c3, hi.c4, hi.c4', hi.c5, hi.c6, hi.c8, hi.a, hi.b⟩
      · cases h
  | arrive r o gated hasToggle =>
    simp only [step] at h
    cases hsp : aget r s.spawned with
    | none => simp [hsp] at h
    | some ind =>
      simp only [hsp] at h
      split at h
      · split at h
        · rename_i hfree hg
          simp only [Option.some.injEq] at h
          have hg1 : gated = (!decide (r ∈ s.detached)) := hg.1
          have hg2 : hasToggle = (!decide (r ∈ s.detached) && ind) := hg.2.1
          have hst := started_of_spawned hi hsp
          have hnew : ind = true → r ∉ s.listed → r ∉ s.detached := by
            intro hind hnl hd
            exact hnl (hi.c4' r hd (hind ▸ hsp))
          subst h
          refine ⟨by simp [hst], hi.c1, hi.c1', hi.c2, ?_, hi.c4, hi.c4', ?_, hi.c6, hi.c8, ?_, ?_⟩
          · -- c3
            intro ro hro hni
            have hro' : ro ∈ (if (ind && !decide (r ∈ s.listed)) = true then sadd (r, o) s.listing
                               else s.listing) := hro
            have hni' : ro ∉ s.indexedOnce := hni
            show ro ∈ (if (!decide (r ∈ s.detached) && ind) = true then
                          sadd (r, o) (if holds s (r, o) = true then sdel (r, o) s.objTog else s.objTog)
                        else (if holds s (r, o) = true then sdel (r, o) s.objTog else s.objTog)) ∨
                 ro ∈ (if holds s (r, o) = true then (r, o) :: s.leaked else s.leaked)
            by_cases hcond : (ind && !decide (r ∈ s.listed)) = true
            · rw [if_pos hcond, mem_sadd] at hro'
              simp only [Bool.and_eq_true, Bool.not_eq_true', decide_eq_false_iff_not] at hcond
              have hd := hnew hcond.1 hcond.2
              rcases hro' with hro' | hro'
              · subst hro'
                exact Or.inl (mem_ite_sadd_self (by simp [hd, hcond.1]))
              · exact keep_tog (hi.c3 ro hro' hni')
            · rw [if_neg hcond] at hro'
              exact keep_tog (hi.c3 ro hro' hni')
          · -- c5
            intro ro w hw' hpc hpc2
            have hw'' : upd s.workers (r, o) (some ⟨.queued, gated, hasToggle⟩) ro = some w := by
              rw [hg1, hg2]; exact hw'
            show ro ∈ s.indexedOnce
            by_cases he : ro = (r, o)
            · subst he
              rw [upd_same] at hw''
              cases hw''
              exact absurd rfl hpc
            · rw [upd_other _ _ _ he] at hw''
              exact hi.c5 ro w hw'' hpc hpc2
          · -- a
            intro he
            have he' : s.everOn = false := he
            refine ⟨(hi.a he').1, ?_⟩
            intro ro w hw'
            have hw'' : upd s.workers (r, o) (some ⟨.queued, gated, hasToggle⟩) ro = some w := by
              rw [hg1, hg2]; exact hw'
            by_cases heq : ro = (r, o)
            · subst heq
              rw [upd_same] at hw''
              cases hw''
              have hnd : r ∉ s.detached := fun hd => by have := hi.c4 r hd; simp [he'] at this
              simp [hg1, hnd]
            · rw [upd_other _ _ _ heq] at hw''
              exact (hi.a he').2 ro w hw''
          · -- b
            intro he
            have hready : Ready1 s := hi.b he
            refine ready1_mono hready rfl (fun _ h => h) ?_ (fun _ h => h)
            intro ro hro hf
            have hro' : ro ∈ (if (ind && !decide (r ∈ s.listed)) = true then sadd (r, o) s.listing
                               else s.listing) := hro
            by_cases hcond : (ind && !decide (r ∈ s.listed)) = true
            · rw [if_pos hcond, mem_sadd] at hro'
              simp only [Bool.and_eq_true, Bool.not_eq_true', decide_eq_false_iff_not] at hcond
              rcases hro' with h0 | h0
              · subst h0
                exact absurd (hready.1 r hf) hcond.2
              · exact h0
            · rw [if_neg hcond] at hro'
              exact hro'
        · cases h
      · cases h
  | listed r =>
    simp only [step] at h
    cases hsp : aget r s.spawned with
    | none => simp [hsp] at h
    | some ind =>
      simp only [hsp] at h
      split at h
      · cases h
      · simp only [Option.some.injEq] at h
        subst h
        have hst := started_of_spawned hi hsp
        refine ⟨by simp [hst], hi.c1, hi.c1', ?_, hi.c3, hi.c4, ?_, hi.c5, hi.c6, ?_, hi.a, ?_⟩
        · intro r0 hr0 hnl
          have hnl' : r0 ∉ sadd r s.listed := hnl
          simp only [mem_sadd, not_or] at hnl'
          have := hi.c2 r0 hr0 hnl'.2
          by_cases hc : (ind && !decide (r ∈ s.detached)) = true
          · simp [hc, mem_sdel, this, hnl'.1]
          · simp [hc, this]
        · intro r0 hd hr0
          show r0 ∈ sadd r s.listed
          rw [mem_sadd]
          exact Or.inr (hi.c4' r0 hd hr0)
        · intro r0 hr0
          show r0 ∈ sadd r s.listed ∨ aget r0 s.spawned = some true ∨ r0 ∈ s.leakedK ∨ (r0, true) ∈ s.pending
          rcases hi.c8 r0 hr0 with h1 | h1 | h1 | h1
          · exact Or.inl (by simp [mem_sadd, h1])
          · exact Or.inr (Or.inl h1)
          · exact Or.inr (Or.inr (Or.inl h1))
          · exact Or.inr (Or.inr (Or.inr h1))
        · intro he
          exact ready1_mono (hi.b he) rfl (fun r0 h => by simp [mem_sadd, h]) (fun _ h _ => h) (fun _ h => h)
  | index r o =>
    simp only [step] at h
    cases hw : s.workers (r, o) with
    | none => simp [hw] at h
    | some w =>
      simp only [hw] at h
      by_cases hpc : w.pc = .queued
      · simp only [hpc, if_true, Option.some.injEq] at h
        have hi' := inv_setPc (s := { s with indexedOnce := sadd (r, o) s.indexedOnce })
          (ro := (r, o)) (w := w) (pc := .indexed)
          ⟨hi.c0, hi.c1, hi.c1', hi.c2,
           (fun ro hro hni => hi.c3 ro hro (fun hm => hni (by simp [mem_sadd, hm]))),
           hi.c4, hi.c4',
           (fun ro w' hw' hpc' hpc2 => by simp [mem_sadd, hi.c5 ro w' hw' hpc' hpc2]),
           hi.c6, hi.c8, hi.a,
           (fun he => ready1_mono (hi.b he) rfl (fun _ h => h) (fun _ h _ => h)
              (fun ro h => by simp [mem_sadd, h]))⟩
          hw (fun _ _ => by simp [mem_sadd]) (fun _ => Or.inr (Or.inl rfl))
        subst h
        exact hi'
      · simp [hpc] at h
  | indexFail r o =>
    simp only [step] at h
    cases hw : s.workers (r, o) with
    | none => simp [hw] at h
    | some w =>
      simp only [hw] at h
      by_cases hpc : w.pc = .queued
      · simp only [hpc, if_true, Option.some.injEq] at h
        have hi' := inv_setPc
          (s := { s with objTog := if w.hasToggle then sdel (r, o) s.objTog else s.objTog,
                         indexedOnce := sadd (r, o) s.indexedOnce })
          (ro := (r, o)) (w := w) (pc := .idle)
          ⟨hi.c0, hi.c1, hi.c1', hi.c2,
           (fun ro hro hni => by
              have hni' : ro ∉ sadd (r, o) s.indexedOnce := hni
              rw [mem_sadd, not_or] at hni'
              rcases hi.c3 ro hro hni'.2 with this | this
              · left
                show ro ∈ (if w.hasToggle = true then sdel (r, o) s.objTog else s.objTog)
                by_cases ht : w.hasToggle = true
                · simp [ht, mem_sdel, this, hni'.1]
                · simp [ht, this]
              · exact Or.inr this),
           hi.c4, hi.c4',
           (fun ro w' hw' hpc' hpc2 => by
              show ro ∈ sadd (r, o) s.indexedOnce
              rw [mem_sadd]; exact Or.inr (hi.c5 ro w' hw' hpc' hpc2)),
           hi.c6, hi.c8, hi.a,
           (fun he => ready1_mono (hi.b he) rfl (fun _ h => h) (fun _ h _ => h)
              (fun ro h => by show ro ∈ sadd (r, o) s.indexedOnce; rw [mem_sadd]; exact Or.inr h))⟩
          hw (fun _ h2 => absurd rfl h2) (fun _ => Or.inr (Or.inr (Or.inr rfl)))
        subst h
        exact hi'
      · simp [hpc] at h
  | drop r o =>
    simp only [step] at h
    cases hw : s.workers (r, o) with
    | none => simp [hw] at h
    | some w =>
      simp only [hw] at h
      split at h
      · rename_i hg
        simp only [Option.some.injEq] at h
        have hpc : w.pc = .indexed := by
          rcases hg.1 with h1 | h1
          · exact h1
          · exact absurd h1.1 (by decide)
        have hio : (r, o) ∈ s.indexedOnce := hi.c5 (r, o) w hw (by simp [hpc]) (by simp [hpc])
        have hi' := inv_setPc
          (s := { s with objTog := if w.hasToggle then sdel (r, o) s.objTog else s.objTog })
          (ro := (r, o)) (w := w) (pc := .waiting)
          ⟨hi.c0, hi.c1, hi.c1', hi.c2,
           (fun ro hro hni => by
              have hne : ro ≠ (r, o) := fun he => hni (he ▸ hio)
              rcases hi.c3 ro hro hni with this | this
              · left
                by_cases ht : w.hasToggle = true
                · simp [ht, mem_sdel, this, hne]
                · simp [ht, this]
              · exact Or.inr this),
           hi.c4, hi.c4', hi.c5, hi.c6, hi.c8, hi.a, hi.b⟩
          hw (fun _ _ => hio) (fun _ => Or.inr (Or.inr (Or.inl rfl)))
        subst h
        exact hi'
      · cases h
  | pass r o =>
    simp only [step] at h
    cases hw : s.workers (r, o) with
    | none => simp [hw] at h
    | some w =>
      simp only [hw] at h
      by_cases hg : w.pc = .waiting ∧ s.isOn = true
      · simp only [hg, and_self, if_true, Option.some.injEq] at h
        have hst := started_of_worker hi hw
        have hready1 := ready1_of_isOn hi hg.2
        have hio : (r, o) ∈ s.indexedOnce := hi.c5 (r, o) w hw (by simp [hg.1]) (by simp [hg.1])
        have hi' := inv_setPc (s := { s with everOn := true }) (ro := (r, o)) (w := w) (pc := .passed)
          ⟨(fun hs => by simp [hst] at hs),
           hi.c1, hi.c1', hi.c2, hi.c3, (fun _ _ => rfl), hi.c4', hi.c5, hi.c6, hi.c8,
           (fun he => by simp at he), (fun _ => hready1)⟩
          hw (fun _ _ => hio) (fun he => by simp at he)
        subst h
        exact hi'
      · simp [hg] at h
  | skip r o =>
    simp only [step] at h
    cases hw : s.workers (r, o) with
    | none => simp [hw] at h
    | some w =>
      simp only [hw] at h
      by_cases hg : w.pc = .indexed ∧ w.gated = false
      · simp only [hg, and_self, if_true, Option.some.injEq] at h
        have hio : (r, o) ∈ s.indexedOnce := hi.c5 (r, o) w hw (by simp [hg.1]) (by simp [hg.1])
        have hi' := inv_setPc (ro := (r, o)) (w := w) (pc := .passed) hi hw (fun _ _ => hio)
          (fun he => by have := ((hi.a he).2 (r, o) w hw).1; simp [hg.2] at this)
        subst h
        exact hi'
      · simp [hg] at h
  | handle r o =>
    simp only [step] at h
    cases hw : s.workers (r, o) with
    | none => simp [hw] at h
    | some w =>
      simp only [hw] at h
      by_cases hg : w.pc = .passed
      · simp only [hg, if_true, Option.some.injEq] at h
        have hio : (r, o) ∈ s.indexedOnce := hi.c5 (r, o) w hw (by simp [hg]) (by simp [hg])
        have hev : s.everOn = true := by
          cases he : s.everOn with
          | true => rfl
          | false =>
            have := ((hi.a he).2 (r, o) w hw).2
            simp [hg] at this
        have hi' := inv_setPc (s := { s with handled := true }) (ro := (r, o)) (w := w) (pc := .handling)
          ⟨hi.c0, hi.c1, hi.c1', hi.c2, hi.c3, hi.c4, hi.c4', hi.c5, hi.c6, hi.c8,
           (fun he => by simp [hev] at he), hi.b⟩
          hw (fun _ _ => hio) (fun he => by simp [hev] at he)
        subst h
        exact hi'
      · simp [hg] at h
  | finish r o =>
    simp only [step] at h
    cases hw : s.workers (r, o) with
    | none => simp [hw] at h
    | some w =>
      simp only [hw] at h
      by_cases hg : w.pc = .handling
      · simp only [hg, if_true, Option.some.injEq] at h
        have hi' := inv_setPc (ro := (r, o)) (w := w) (pc := .idle) hi hw (fun _ h2 => absurd rfl h2)
          (fun _ => Or.inr (Or.inr (Or.inr rfl)))
        subst h
        exact hi'
      · simp [hg] at h
  | again r o =>
    simp only [step] at h
    cases hw : s.workers (r, o) with
    | none => simp [hw] at h
    | some w =>
      simp only [hw] at h
      split at h
      · simp only [Option.some.injEq] at h
        have hi' := inv_setPc (ro := (r, o)) (w := w) (pc := .queued) hi hw (fun hq _ => absurd rfl hq)
          (fun _ => Or.inl rfl)
        subst h
        exact hi'
      · cases h
  | exit r o =>
    simp only [step] at h
    cases hw : s.workers (r, o) with
    | none => simp [hw] at h
    | some w =>
      simp only [hw] at h
      by_cases hg : w.pc = .idle
      · simp only [hg, if_true, Option.some.injEq] at h
        subst h
        have hst := started_of_worker hi hw
        refine ⟨by simp [hst], hi.c1, hi.c1', hi.c2, ?_, hi.c4, hi.c4', ?_, hi.c6, hi.c8, ?_, hi.b⟩
        · intro ro hro hni
          have := hi.c3 ro hro hni
          show ro ∈ (if holds s (r, o) = true then sdel (r, o) s.objTog else s.objTog) ∨
               ro ∈ (if holds s (r, o) = true then (r, o) :: s.leaked else s.leaked)
          cases holds s (r, o)
          · simpa using this
          · simp only [if_true]
            rcases this with this | this
            · by_cases he : ro = (r, o)
              · exact Or.inr (by simp [he])
              · exact Or.inl (by rw [mem_sdel]; exact ⟨this, he⟩)
            · exact Or.inr (by simp [this])
        · intro ro w' hw' hpc hpc2
          simp only at hw'
          by_cases he : ro = (r, o)
          · subst he; rw [upd_same] at hw'; cases hw'
          · rw [upd_other _ _ _ he] at hw'; exact hi.c5 ro w' hw' hpc hpc2
        · intro he
          refine ⟨(hi.a he).1, ?_⟩
          intro ro w' hw'
          simp only at hw'
          by_cases heq : ro = (r, o)
          · subst heq; rw [upd_same] at hw'; cases hw'
          · rw [upd_other _ _ _ heq] at hw'; exact (hi.a he).2 ro w' hw'
      · simp [hg] at h

theorem run_inv (ls : List (Label R O)) : ∀ {s s' : GState R O}, Inv s → run .none s ls = some s' → Inv s' := by
  induction ls with
  | nil => intro s s' hi h; simp [run] at h; subst h; exact hi
  | cons l ls ih =>
    intro s s' hi h
    simp only [run] at h
    cases hs : step .none s l with
    | none => simp [hs] at h
    | some s1 =>
      simp only [hs] at h
      exact ih (step_inv l hi hs) h

end
end Kopf.C17.Gate
