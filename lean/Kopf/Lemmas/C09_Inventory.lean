/-
  Helper lemmas for the inventory-level model of the exit mark (Model/C09_Inventory.lean).
-/
import Kopf.Model.C09_Inventory
namespace Kopf.C09.Inv

theorem get_mem {l : List (Key × Mem)} {k : Key} {m : Mem} (h : get l k = some m) : (k, m) ∈ l := by
  induction l with
  | nil => simp [get] at h
  | cons a rest ih =>
    obtain ⟨k', m'⟩ := a
    simp only [get] at h
    by_cases hk : k' = k
    · simp only [hk, if_true, Option.some.injEq] at h
      subst hk; subst h; exact List.mem_cons_self
    · simp only [hk, if_false] at h
      exact List.mem_cons_of_mem _ (ih h)

theorem setRunning_exiting {l : List (Key × Mem)} {k : Key} {f : Nat → Nat}
    (h : ∀ km ∈ l, km.2.exiting = true) : ∀ km ∈ setRunning l k f, km.2.exiting = true := by
  induction l with
  | nil => intro km hkm; simp [setRunning] at hkm
  | cons a rest ih =>
    obtain ⟨k', m'⟩ := a
    intro km hkm
    simp only [setRunning] at hkm
    by_cases hk : k' = k
    · simp only [hk, if_true, List.mem_cons] at hkm
      rcases hkm with rfl | hkm
      · exact h (k', m') List.mem_cons_self
      · exact h km (List.mem_cons_of_mem _ hkm)
    · simp only [hk, if_false, List.mem_cons] at hkm
      rcases hkm with rfl | hkm
      · exact h (k', m') List.mem_cons_self
      · exact ih (fun x hx => h x (List.mem_cons_of_mem _ hx)) km hkm

/-- with the full view, the mark reaches every remembered memory -/
theorem mark_all_marked (inv : Inventory) : Marked (markExiting true inv) := by
  refine ⟨rfl, ?_⟩
  intro km hkm
  simp only [markExiting, List.mem_map] at hkm
  obtain ⟨x, _, rfl⟩ := hkm
  simp [markOne, inView]

/-- a marked inventory gives only marked memories to the processing — the remembered ones and the new ones -/
theorem recall_marked {inv : Inventory} (h : Marked inv) (k : Key) :
    Marked (recall inv k).1 ∧ (recall inv k).2.exiting = true ∧ (recall inv k).1.spawns = inv.spawns := by
  unfold recall
  cases hg : get inv.items k with
  | some m => exact ⟨h, h.2 (k, m) (get_mem hg), rfl⟩
  | none =>
    refine ⟨⟨h.1, ?_⟩, h.1, rfl⟩
    intro km hkm
    simp only [List.mem_append, List.mem_singleton] at hkm
    rcases hkm with hkm | rfl
    · exact h.2 km hkm
    · exact h.1

theorem step_marked {inv : Inventory} (h : Marked inv) (o : Op) :
    Marked (stepOp inv o) ∧ (stepOp inv o).spawns = inv.spawns := by
  cases o with
  | cycle k n =>
    obtain ⟨h1, h2, h3⟩ := recall_marked h k
    simp only [stepOp, spawnAllowed, h2, Bool.not_true, Bool.false_eq_true, if_false]
    exact ⟨h1, h3⟩
  | deleted k =>
    refine ⟨⟨h.1, ?_⟩, rfl⟩
    intro km hkm
    simp only [stepOp, List.mem_filter] at hkm
    exact h.2 km hkm.1
  | ended k =>
    exact ⟨⟨h.1, setRunning_exiting h.2⟩, rfl⟩

theorem run_marked {inv : Inventory} (h : Marked inv) (os : List Op) :
    Marked (runOps inv os) ∧ (runOps inv os).spawns = inv.spawns := by
  induction os generalizing inv with
  | nil => exact ⟨h, rfl⟩
  | cons o os ih =>
    obtain ⟨h1, h2⟩ := step_marked h o
    obtain ⟨h3, h4⟩ := ih h1
    exact ⟨h3, by simp only [runOps]; rw [h4, h2]⟩

/-- the stopping loops lose nothing by skipping the memories without running daemons -/
theorem reached_list (l : List (Key × Mem)) :
    ((l.filter (fun km => inView false km.2)).map (fun km => km.2.running)).sum =
    ((l.filter (fun km => inView true km.2)).map (fun km => km.2.running)).sum := by
  induction l with
  | nil => rfl
  | cons a rest ih =>
    by_cases hr : 0 < a.2.running
    · simp [List.filter, inView, hr] at ih ⊢
      exact ih
    · have h0 : a.2.running = 0 := by omega
      simp [List.filter, inView, h0] at ih ⊢
      exact ih

end Kopf.C09.Inv
