/-
  X01 lemmas — C07's barrier as an INVARIANT of the composed reactor (versions internal), over every history.
-/
import Kopf.Lemmas.X01_Refine
import Kopf.Lemmas.C07_Barrier
namespace Kopf.X01
open Kopf
variable {E : Type} [DecidableEq E]

theorem le_ite_max (a b : Int) : a ≤ if b < a then a else b := by split <;> omega

/-- what one iteration of the worker does to the versions, the worker's locals and the ghosts — all the barrier
    invariant needs to know about `work` -/
theorem work_shape (T : Int) (env : C03.Env) (d : Nat) (r : RState E) (ev : Ev E) (rest : List (Ev E))
    (hq : r.queue = ev :: rest) :
    ∃ (it it' : C07.Iter) (tret : Int) (wrote echo nv : Bool) (snap : Obj E) (at_ : Int),
      it.now = (if r.clock < ev.at_ then ev.at_ else r.clock) ∧ it.now ≤ tret ∧
      it'.ver = some ⟨ev.ver, false⟩ ∧ it'.tret = tret ∧
      (wrote = true → it'.patched = some ⟨r.rv + 1, nv⟩) ∧
      (wrote = false → it'.patched = none ∨ it'.patched = some ⟨r.rv, false⟩) ∧
      (echo = true → wrote = true) ∧
      (work T env d r).clock = tret ∧
      (work T env d r).seen = (if r.seen < ev.ver then ev.ver else r.seen) ∧
      (work T env d r).rv = (if wrote then r.rv + 1 else r.rv) ∧
      (work T env d r).owns = (if wrote then (r.rv + 1, tret) :: r.owns else r.owns) ∧
      (work T env d r).queue = (if echo then rest ++ [{ ver := r.rv + 1, snap := snap, at_ := at_, own := true }] else rest) ∧
      (work T env d r).w = C07.feedback T (C07.arrive r.w (some ⟨ev.ver, false⟩)) it' ∧
      (work T env d r).ran = (match (C07.process (C07.arrive r.w (some ⟨ev.ver, false⟩)).deadline it).handlers with
        | some t => { ver := ev.ver, t := t, owns := r.owns } :: r.ran
        | none => r.ran) := by
  have hw : work T env d r = work T env d { r with queue := ev :: rest } := by
    have : r = { r with queue := ev :: rest } := by cases r; simp_all
    rw [← this]
  refine ⟨(turn env r ev rest).it, iterOf (turn env r ev rest).it (patchedOf r.rv (turn env r ev rest)) (turn env r ev rest).tret,
    (turn env r ev rest).tret, (turn env r ev rest).wrote, (turn env r ev rest).echo, (turn env r ev rest).released,
    (turn env r ev rest).srv',
    (if (turn env r ev rest).tret + (d : Int) < (match rest.getLast? with | some l => l.at_ | none => (turn env r ev rest).tret)
      then (match rest.getLast? with | some l => l.at_ | none => (turn env r ev rest).tret) else (turn env r ev rest).tret + d),
    rfl, ?_, rfl, rfl, ?_, ?_, ?_, ?_, ?_, ?_, ?_, ?_, ?_, ?_⟩
  · show (if r.clock < ev.at_ then ev.at_ else r.clock) ≤ (turn env r ev rest).tret
    exact le_ite_max _ _
  · intro h; show patchedOf r.rv (turn env r ev rest) = _; simp [patchedOf, h]
  · intro h; show patchedOf r.rv (turn env r ev rest) = none ∨ patchedOf r.rv (turn env r ev rest) = _
    simp only [patchedOf, h]; cases (turn env r ev rest).noop <;> simp
  · intro h; show ((turn env r ev rest).echo || (turn env r ev rest).released) = true; simp [h]
  all_goals (rw [hw]; rfl)

/-- the clause of C07, about one logged run of the changing stage: the view is not older than any own write issued
    before, or the consistency timeout has elapsed since the last one -/
def Good (T : Int) (run : Ran) : Prop :=
  (∀ p ∈ run.owns, p.1 ≤ run.ver) ∨ (∃ p tp rest, run.owns = (p, tp) :: rest ∧ tp + T ≤ run.t)

/-- The invariant. -/
structure Inv (T : Int) (r : RState E) : Prop where
  seenLe : r.seen ≤ r.rv
  qver : ∀ ev ∈ r.queue, r.seen < ev.ver ∧ ev.ver ≤ r.rv
  qsorted : r.queue.Pairwise (fun a b => a.ver < b.ver)
  ownsLe : ∀ p ∈ r.owns, p.1 ≤ r.rv ∧ p.2 ≤ r.clock
  ownsSorted : r.owns.Pairwise (fun a b => b.1 < a.1)
  expd : T ≠ 0 → ∀ e, r.w.expected = some e → ∀ p ∈ r.owns, p.1 ≤ e.n
  cover : ∀ p tp rest, r.owns = (p, tp) :: rest →
    p ≤ r.seen ∨ (∃ dl, r.w.deadline = some dl ∧ tp + T ≤ dl) ∨ tp + T ≤ r.clock
  good : ∀ run ∈ r.ran, Good T run

theorem feedback_cases (T : Int) (s : C07.WState) (it : C07.Iter) :
    C07.feedback T s it = s ∨
    ∃ p, it.patched = some p ∧ T ≠ 0 ∧ C07.feedback T s it = { expected := some p, deadline := some (it.tret + T) } := by
  unfold C07.feedback
  cases hp : it.patched with
  | none => left; rfl
  | some p =>
    by_cases h : T ≠ 0 ∧ some p ≠ it.ver
    · right; exact ⟨p, rfl, h.1, by simp [h]⟩
    · left; simp [h]

theorem feedback_armed (T : Int) (s : C07.WState) (it : C07.Iter) (p : C07.Ver) (hp : it.patched = some p) (hT : T ≠ 0)
    (hne : some p ≠ it.ver) : C07.feedback T s it = { expected := some p, deadline := some (it.tret + T) } := by
  unfold C07.feedback
  rw [hp]
  simp [hT, hne]

theorem inv_work (T : Int) (env : C03.Env) (d : Nat) (r : RState E) (h : Inv T r) : Inv T (work T env d r) := by
  cases hq : r.queue with
  | nil =>
    have : work T env d r = r := by simp [work, hq]
    rw [this]; exact h
  | cons ev rest =>
    obtain ⟨it, it', tret, wrote, echo, nv, snap, at_, hnow, hle, hver, htret, hpw, hpn, hew, hclk, hseen, hrv, howns, hqueue, hw, hran⟩ :=
      work_shape T env d r ev rest hq
    have hev := h.qver ev (by rw [hq]; exact List.mem_cons_self ..)
    have hsorted := h.qsorted
    rw [hq, List.pairwise_cons] at hsorted
    have hseen' : (work T env d r).seen = ev.ver := by rw [hseen]; simp [hev.1]
    have hck : r.clock ≤ tret := by
      have : r.clock ≤ it.now := by rw [hnow]; split <;> omega
      omega
    have hrvle : r.rv ≤ (work T env d r).rv := by rw [hrv]; split <;> omega
    have hneq : ∀ nv', some (⟨r.rv + 1, nv'⟩ : C07.Ver) ≠ it'.ver := by
      intro nv' hc
      rw [hver] at hc
      have := congrArg C07.Ver.n (Option.some.inj hc)
      simp at this
      omega
    constructor
    · -- seenLe
      rw [hseen']; omega
    · -- qver
      intro e he
      rw [hqueue] at he
      rw [hseen']
      have hrest : ∀ e ∈ rest, ev.ver < e.ver ∧ e.ver ≤ (work T env d r).rv := by
        intro e he
        have := h.qver e (by rw [hq]; exact List.mem_cons_of_mem _ he)
        exact ⟨hsorted.1 e he, by omega⟩
      cases hecho : echo
      · rw [hecho] at he; exact hrest e he
      · rw [hecho] at he
        simp only [if_true, List.mem_append, List.mem_singleton] at he
        rcases he with he | he
        · exact hrest e he
        · rw [he]
          have hwt := hew hecho
          rw [hrv, hwt]
          simp only [if_true]
          omega
    · -- qsorted
      rw [hqueue]
      cases hecho : echo
      · simp only [Bool.false_eq_true, if_false]; exact hsorted.2
      · simp only [if_true]
        rw [List.pairwise_append]
        refine ⟨hsorted.2, List.pairwise_singleton _ _, ?_⟩
        intro a ha b hb
        rw [List.mem_singleton] at hb
        rw [hb]
        have := h.qver a (by rw [hq]; exact List.mem_cons_of_mem _ ha)
        show a.ver < r.rv + 1
        omega
    · -- ownsLe
      intro p hp
      rw [howns] at hp
      rw [hclk]
      cases hwr : wrote
      · rw [hwr] at hp
        have := h.ownsLe p hp
        exact ⟨by omega, by omega⟩
      · rw [hwr] at hp
        simp only [if_true, List.mem_cons] at hp
        rcases hp with hp | hp
        · rw [hp, hrv, hwr]; simp
        · have := h.ownsLe p hp
          exact ⟨by omega, by omega⟩
    · -- ownsSorted
      rw [howns]
      cases hwr : wrote
      · simp only [Bool.false_eq_true, if_false]; exact h.ownsSorted
      · simp only [if_true]
        rw [List.pairwise_cons]
        refine ⟨?_, h.ownsSorted⟩
        intro p hp
        have := (h.ownsLe p hp).1
        show p.1 < r.rv + 1
        omega
    · -- expd
      intro hT e he p hp
      rw [hw] at he
      rw [howns] at hp
      cases hwr : wrote
      · rw [hwr] at hp
        simp only [Bool.false_eq_true, if_false] at hp
        rcases feedback_cases T (C07.arrive r.w (some ⟨ev.ver, false⟩)) it' with hf | ⟨p', hp', _, hf⟩
        · rw [hf] at he
          rcases C07.arrive_cases r.w (some ⟨ev.ver, false⟩) with ⟨ha, _, _⟩ | ⟨ha, _⟩
          · rw [ha] at he; cases he
          · rw [ha] at he; exact h.expd hT e he p hp
        · rw [hf] at he
          have he' : p' = e := Option.some.inj he
          rcases hpn hwr with hn | hn
          · rw [hn] at hp'; cases hp'
          · rw [hn] at hp'
            have : p' = ⟨r.rv, false⟩ := (Option.some.inj hp').symm
            rw [← he', this]
            exact (h.ownsLe p hp).1
      · rw [hwr] at hp
        simp only [if_true, List.mem_cons] at hp
        have hf := feedback_armed T (C07.arrive r.w (some ⟨ev.ver, false⟩)) it' _ (hpw hwr) hT (hneq nv)
        rw [hf] at he
        have he' : (⟨r.rv + 1, nv⟩ : C07.Ver) = e := Option.some.inj he
        rw [← he']
        rcases hp with hp | hp
        · rw [hp]; exact Nat.le_refl _
        · have := (h.ownsLe p hp).1
          show p.1 ≤ r.rv + 1
          omega
    · -- cover
      intro p tp rest0 ho
      rw [howns] at ho
      rw [hseen', hclk, hw]
      cases hwr : wrote
      · rw [hwr] at ho
        simp only [Bool.false_eq_true, if_false] at ho
        have hin : (p, tp) ∈ r.owns := by rw [ho]; exact List.mem_cons_self ..
        have htp := (h.ownsLe _ hin).2
        rcases h.cover p tp rest0 ho with c1 | ⟨dl, hdl, c2⟩ | c3
        · left; omega
        · rcases C07.arrive_cases r.w (some ⟨ev.ver, false⟩) with ⟨_, hne, hm⟩ | ⟨ha, _⟩
          · by_cases hT : T = 0
            · right; right; simp only at htp; omega
            · left
              cases hex : r.w.expected with
              | none => exact absurd hex hne
              | some e =>
                rw [hex] at hm
                have hpe := h.expd hT e hex _ hin
                have : e = ⟨ev.ver, false⟩ := (Option.some.inj hm).symm
                rw [this] at hpe
                exact hpe
          · right; left
            rw [ha]
            rcases feedback_cases T r.w it' with hf | ⟨p', _, _, hf⟩
            · rw [hf]; exact ⟨dl, hdl, c2⟩
            · rw [hf]; refine ⟨it'.tret + T, rfl, ?_⟩
              rw [htret]; simp only at htp; omega
        · right; right; omega
      · rw [hwr] at ho
        simp only [if_true] at ho
        have h1 := (List.cons.inj ho).1
        have hp1 : r.rv + 1 = p := congrArg Prod.fst h1
        have hp2 : tret = tp := congrArg Prod.snd h1
        by_cases hT : T = 0
        · right; right; omega
        · right; left
          rw [feedback_armed T _ it' _ (hpw hwr) hT (hneq nv)]
          exact ⟨it'.tret + T, rfl, by rw [htret]; omega⟩
    · -- good
      intro run hrun
      rw [hran] at hrun
      cases hh : (C07.process (C07.arrive r.w (some ⟨ev.ver, false⟩)).deadline it).handlers with
      | none => rw [hh] at hrun; exact h.good run hrun
      | some t =>
        rw [hh] at hrun
        simp only [List.mem_cons] at hrun
        rcases hrun with hrun | hrun
        rotate_left
        · exact h.good run hrun
        rw [hrun]
        have ht0 : it.now ≤ t := C07.process_handlers_ge_now hh
        have hct : r.clock ≤ t := by
          have : r.clock ≤ it.now := by rw [hnow]; split <;> omega
          omega
        cases ho : r.owns with
        | nil => left; intro p hp; simp at hp
        | cons hd rest0 =>
          obtain ⟨p, tp⟩ := hd
          have hin : (p, tp) ∈ r.owns := by rw [ho]; exact List.mem_cons_self ..
          have htp := (h.ownsLe _ hin).2
          have hso := h.ownsSorted
          rw [ho, List.pairwise_cons] at hso
          have allLe : ∀ b : Nat, p ≤ b → ∀ q ∈ (p, tp) :: rest0, q.1 ≤ b := by
            intro b hb q hq'
            rcases List.mem_cons.mp hq' with hq' | hq'
            · rw [hq']; exact hb
            · have := hso.1 q hq'
              simp only at this
              omega
          rcases h.cover p tp rest0 ho with c1 | ⟨dl, hdl, c2⟩ | c3
          · left; exact allLe ev.ver (by omega)
          · rcases C07.arrive_cases r.w (some ⟨ev.ver, false⟩) with ⟨_, hne, hm⟩ | ⟨ha, _⟩
            · by_cases hT : T = 0
              · right; exact ⟨p, tp, rest0, rfl, by simp only at htp ⊢; omega⟩
              · left
                cases hex : r.w.expected with
                | none => exact absurd hex hne
                | some e =>
                  rw [hex] at hm
                  have hpe := h.expd hT e hex _ hin
                  have : e = ⟨ev.ver, false⟩ := (Option.some.inj hm).symm
                  rw [this] at hpe
                  exact allLe ev.ver hpe
            · rw [ha, hdl] at hh
              have := C07.process_handlers_deadline hh
              right; exact ⟨p, tp, rest0, rfl, by simp only; omega⟩
          · right; exact ⟨p, tp, rest0, rfl, by simp only at htp ⊢; omega⟩


theorem mem_enqueue (q : List (Ev E)) (ver : Nat) (snap : Obj E) (a : Int) (e : Ev E) (he : e ∈ enqueue q ver snap a) :
    e ∈ q ∨ e.ver = ver := by
  unfold enqueue at he
  simp only [List.mem_append, List.mem_singleton] at he
  rcases he with he | he
  · exact Or.inl he
  · right; rw [he]

/-- somebody else's write: a new version, its event queued behind the others -/
theorem inv_push (T : Int) (r : RState E) (o snap : Obj E) (a : Int) (h : Inv T r) :
    Inv T { r with srv := o, rv := r.rv + 1, queue := enqueue r.queue (r.rv + 1) snap a } := by
  have hs := h.seenLe
  constructor
  · show r.seen ≤ r.rv + 1; omega
  · intro e he
    show r.seen < e.ver ∧ e.ver ≤ r.rv + 1
    rcases mem_enqueue _ _ _ _ _ he with he | he
    · have := h.qver e he; omega
    · omega
  · show (enqueue r.queue (r.rv + 1) snap a).Pairwise _
    unfold enqueue
    rw [List.pairwise_append]
    refine ⟨h.qsorted, List.pairwise_singleton _ _, ?_⟩
    intro x hx b hb
    rw [List.mem_singleton] at hb
    rw [hb]
    have := h.qver x hx
    show x.ver < r.rv + 1
    omega
  · intro p hp
    have := h.ownsLe p hp
    exact ⟨by show p.1 ≤ r.rv + 1; omega, this.2⟩
  · exact h.ownsSorted
  · exact h.expd
  · exact h.cover
  · exact h.good

theorem inv_act (T idle : Int) (env : C03.Env) (r : RState E) (a : Act E) (h : Inv T r) : Inv T (act T idle env r a) := by
  cases a with
  | work d => exact inv_work T env d r h
  | foreign e at_ =>
    show Inv T (if r.srv.gone then r else _)
    split
    · exact h
    · exact inv_push T r _ _ _ h
  | delete at_ =>
    show Inv T (if r.srv.gone then r else _)
    split
    · exact h
    · exact inv_push T r _ _ _ h
  | carry c => exact ⟨h.seenLe, h.qver, h.qsorted, h.ownsLe, h.ownsSorted, h.expd, h.cover, h.good⟩
  | retire t =>
    show Inv T (if mayRetire idle r t then _ else r)
    split
    · rename_i hm
      have hck : r.clock ≤ (if t < r.clock then r.clock else t) := by split <;> omega
      refine ⟨h.seenLe, h.qver, h.qsorted, ?_, h.ownsSorted, ?_, ?_, h.good⟩
      · intro p hp
        have := h.ownsLe p hp
        exact ⟨this.1, by show p.2 ≤ (if t < r.clock then r.clock else t); omega⟩
      · intro _ e he; cases he
      · intro p tp rest ho
        show p ≤ r.seen ∨ (∃ dl, C07.WState.init.deadline = some dl ∧ tp + T ≤ dl) ∨
          tp + T ≤ (if t < r.clock then r.clock else t)
        rcases h.cover p tp rest ho with c1 | ⟨dl, hdl, c2⟩ | c3
        · exact Or.inl c1
        · right; right
          unfold mayRetire at hm
          simp only [Bool.and_eq_true, decide_eq_true_eq] at hm
          have h2 := hm.2
          rw [hdl] at h2
          have := C07.idleTimeout_deadline idle dl r.clock
          omega
        · right; right; omega
    · exact h

theorem inv_runActs (T idle : Int) (env : C03.Env) (acts : List (Act E)) :
    ∀ r : RState E, Inv T r → Inv T (runActs T idle env r acts) := by
  induction acts with
  | nil => intro r h; exact h
  | cons a rest ih => intro r h; exact ih _ (inv_act T idle env r a h)

/-- a C03 state turned into a reactor state (nothing awaited, no own write yet) satisfies the invariant -/
theorem inv_ofLoop (T : Int) (s : C03.State E) (v : Nat) (hv : 0 < v) : Inv T (ofLoop s v) := by
  refine ⟨Nat.zero_le _, ?_, ?_, ?_, List.Pairwise.nil, ?_, ?_, ?_⟩
  · intro e he
    have he' : e ∈ (if s.pending then [({ ver := v, snap := objOfS s, at_ := s.now, own := false } : Ev E)] else []) := he
    split at he'
    · rw [List.mem_singleton] at he'
      rw [he']
      exact ⟨hv, Nat.le_refl _⟩
    · simp at he'
  · show (if s.pending then [({ ver := v, snap := objOfS s, at_ := s.now, own := false } : Ev E)] else []).Pairwise _
    split
    · exact List.pairwise_singleton _ _
    · exact List.Pairwise.nil
  · intro p hp; cases hp
  · intro _ e he; cases he
  · intro p tp rest ho; cases ho
  · intro run hrun; cases hrun

end Kopf.X01
