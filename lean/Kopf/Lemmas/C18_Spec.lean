/-
  C18 helper lemmas, part 3: RFC 7386 `mergePatch` has the same abstract semantics on well-typed
  (body, patch) pairs; static well-typedness implies that `_apply_patch` does not raise.
-/
import Kopf.Lemmas.C18_Abs
namespace Kopf.C18
open Kopf Kopf.J
set_option linter.unusedSimpArgs false

/-- leaf function of an optional subtree (`none` = absent key) -/
def Lopt : Option J → LeafMap
  | none => fun _ => none
  | some j => leafAt j

theorem shift_leafAt_obj (k : String) (tk : List (String × J)) :
    shiftM k (leafAt (.obj tk)) = Lopt (lookup k tk) := by
  funext r
  simp only [shiftM, leafAt_obj_cons]
  cases lookup k tk <;> rfl

theorem leafAt_erase (k : String) (tk : List (String × J)) :
    leafAt (.obj (J.erase k tk)) = delA (leafAt (.obj tk)) [k] := by
  funext q
  cases q with
  | nil => simp [delA, leafAt]
  | cons k' qs =>
    by_cases e : k = k'
    · subst e; simp [delA, leafAt_obj_cons, lookup_erase_same]
    · have e' : k' ≠ k := fun x => e x.symm
      simp [delA, leafAt_obj_cons, lookup_erase_other _ _ _ e', pre_cons_cons, e]

theorem leafAt_insert (k : String) (c : J) (tk : List (String × J)) (v : J)
    (hc : leafAt c = absInstr (Lopt (lookup k tk)) [] v) :
    leafAt (.obj (J.insert k c tk)) = absInstr (leafAt (.obj tk)) [k] v := by
  funext q
  cases q with
  | nil => rw [absInstr_frame v _ [k] [] rfl]; rfl
  | cons k' qs =>
    by_cases e : k = k'
    · subst e
      have := absInstr_shift v k (leafAt (.obj tk)) []
      rw [shift_leafAt_obj] at this
      simp only [leafAt_obj_cons, lookup_insert_same]
      rw [hc, ← this]; rfl
    · have e' : k' ≠ k := fun x => e x.symm
      rw [absInstr_frame v _ [k] (k' :: qs) (by simp [pre_cons_cons, e])]
      simp [leafAt_obj_cons, lookup_insert_other _ _ _ _ e']

theorem mergeKvs_cons_null (t : List (String × J)) (k : String) (rest : List (String × J)) :
    mergeKvs t ((k, .null) :: rest) = mergeKvs (J.erase k t) rest := by
  rw [mergeKvs]

theorem mergeKvs_cons_nonnull (t : List (String × J)) (k : String) (v : J) (rest : List (String × J))
    (hn : v.isNull = false) :
    mergeKvs t ((k, v) :: rest) =
      mergeKvs (J.insert k (mergePatch ((lookup k t).getD .null) v) t) rest := by
  cases v with
  | null => simp [isNull] at hn
  | _ => rw [mergeKvs] <;> simp

theorem mergePatch_leaf (t v : J) (ho : v.isObj = false) : mergePatch t v = v := by
  cases v with
  | obj _ => simp [isObj] at ho
  | _ => rw [mergePatch] <;> simp

/-! ### static well-typedness only reads the targets of the patch's own keys -/
theorem wtKvs_congr (tk tk' : List (String × J)) :
    ∀ (pk : List (String × J)), (∀ kv ∈ pk, lookup kv.1 tk = lookup kv.1 tk') → wtKvs tk pk = wtKvs tk' pk
  | [], _ => by simp [wtKvs]
  | (k, v) :: rest, h => by
      rw [wtKvs, wtKvs, h (k, v) (by simp), wtKvs_congr tk tk' rest (fun kv hkv => h kv (by simp [hkv]))]

theorem wtAt_none (v : J) : wtAt none v = true := by
  cases v <;> simp [wtAt]

theorem wtKvs_nil : ∀ (pk : List (String × J)), wtKvs [] pk = true
  | [] => by simp [wtKvs]
  | (k, v) :: rest => by simp [wtKvs, J.lookup, wtAt_none, wtKvs_nil rest]

theorem not_mem_keys_of_any {k : String} {xs : List (String × J)} (h : (xs.any (·.1 == k)) = false) :
    ∀ kv ∈ xs, kv.1 ≠ k := by
  intro kv hkv e
  have : (xs.any (·.1 == k)) = true := List.any_eq_true.mpr ⟨kv, hkv, by simp [e]⟩
  rw [h] at this; exact absurd this (by simp)

/-! ### RFC 7386 merge = the abstract semantics, on well-typed pairs -/
mutual
  theorem mergePatch_sem : ∀ (v : J) (t : Option J), v.isNull = false → wtAt t v = true → J.wf v = true →
      leafAt (mergePatch (t.getD .null) v) = absInstr (Lopt t) [] v
    | .null, _, hn, _, _ => by simp [isNull] at hn
    | .bool x, t, _, _, _ => by
        rw [mergePatch_leaf _ _ rfl, absInstr]; funext q; simp [setA, leafAt_nonobj (.bool x) rfl q]
    | .num x, t, _, _, _ => by
        rw [mergePatch_leaf _ _ rfl, absInstr]; funext q; simp [setA, leafAt_nonobj (.num x) rfl q]
    | .str x, t, _, _, _ => by
        rw [mergePatch_leaf _ _ rfl, absInstr]; funext q; simp [setA, leafAt_nonobj (.str x) rfl q]
    | .arr x, t, _, _, _ => by
        rw [mergePatch_leaf _ _ rfl, absInstr]; funext q; simp [setA, leafAt_nonobj (.arr x) rfl q]
    | .obj pk, t, _, hwt, hwf => by
        rw [absInstr]
        have hwf' : wfKvs pk = true := by simpa [J.wf] using hwf
        cases t with
        | none =>
          have : Lopt none = leafAt (.obj []) := by funext q; simp [Lopt, leafAt_empty]
          rw [this]
          simp only [Option.getD, mergePatch]
          exact mergeKvs_sem pk [] (wtKvs_nil pk) hwf'
        | some tj =>
          cases tj with
          | obj tk =>
            simp only [Option.getD, mergePatch, Lopt]
            exact mergeKvs_sem pk tk (by simpa [wtAt] using hwt) hwf'
          | _ => simp [wtAt] at hwt
  theorem mergeKvs_sem : ∀ (pk : List (String × J)) (tk : List (String × J)),
      wtKvs tk pk = true → wfKvs pk = true →
      leafAt (.obj (mergeKvs tk pk)) = absKvs (leafAt (.obj tk)) [] pk
    | [], tk, _, _ => by rw [mergeKvs, absKvs]
    | (k, v) :: rest, tk, hwt, hwf => by
        simp only [wfKvs, Bool.and_eq_true, Bool.not_eq_eq_eq_not, Bool.not_true] at hwf
        obtain ⟨⟨hk, hv⟩, hrest⟩ := hwf
        simp only [wtKvs, Bool.and_eq_true] at hwt
        obtain ⟨hwv, hwr⟩ := hwt
        have hne := not_mem_keys_of_any hk
        rw [absKvs, List.nil_append]
        cases hnull : v.isNull with
        | true =>
          have : v = .null := by cases v <;> simp_all [isNull]
          subst this
          rw [mergeKvs_cons_null, absInstr, ← leafAt_erase]
          refine mergeKvs_sem rest (J.erase k tk) ?_ hrest
          rw [wtKvs_congr (J.erase k tk) tk rest (fun kv hkv => lookup_erase_other _ _ _ (hne kv hkv))]
          exact hwr
        | false =>
          rw [mergeKvs_cons_nonnull _ _ _ _ hnull,
            ← leafAt_insert k _ tk v (mergePatch_sem v (lookup k tk) hnull hwv hv)]
          refine mergeKvs_sem rest _ ?_ hrest
          rw [wtKvs_congr _ tk rest (fun kv hkv => lookup_insert_other _ _ _ _ (hne kv hkv))]
          exact hwr
end

end Kopf.C18
