/-
  C18 helper lemmas, part 4: RFC 7386 `mergePatch` has the same abstract semantics, for every
  target and every patch (no well-typedness or key-uniqueness assumption).
-/
import Kopf.Lemmas.C18_Abs
namespace Kopf.C18
open Kopf Kopf.J
set_option linter.unusedSimpArgs false

/-- leaf function of an optional subtree (`none` = absent key) -/
def Lopt : Option J → LeafMap
  | none => fun _ => none
  | some j => leafAt j

theorem shift_leafAt_obj (k : String) (tk : List (String × J)) :
    shiftM k (leafAt (.obj tk)) = Lopt (lookup k tk) := by
  funext r
  simp only [shiftM, leafAt_obj_cons]
  cases lookup k tk <;> rfl

theorem leafAt_erase (k : String) (tk : List (String × J)) :
    leafAt (.obj (J.erase k tk)) = delA (leafAt (.obj tk)) [k] := by
  funext q
  cases q with
  | nil => simp [delA, leafAt]
  | cons k' qs =>
    by_cases e : k = k'
    · subst e; simp [delA, leafAt_obj_cons, lookup_erase_same]
    · have e' : k' ≠ k := fun x => e x.symm
      simp [delA, leafAt_obj_cons, lookup_erase_other _ _ _ e', pre_cons_cons, e]

theorem leafAt_insert (k : String) (c : J) (tk : List (String × J)) (v : J)
    (hc : leafAt c = absInstr (Lopt (lookup k tk)) [] v) :
    leafAt (.obj (J.insert k c tk)) = absInstr (leafAt (.obj tk)) [k] v := by
  funext q
  cases q with
  | nil => rw [absInstr_frame v _ [k] [] rfl]; rfl
  | cons k' qs =>
    by_cases e : k = k'
    · subst e
      have := absInstr_shift v k (leafAt (.obj tk)) []
      rw [shift_leafAt_obj] at this
      simp only [leafAt_obj_cons, lookup_insert_same]
      rw [hc, ← this]; rfl
    · have e' : k' ≠ k := fun x => e x.symm
      rw [absInstr_frame v _ [k] (k' :: qs) (by simp [pre_cons_cons, e])]
      simp [leafAt_obj_cons, lookup_insert_other _ _ _ _ e']

theorem mergeKvs_cons_null (t : List (String × J)) (k : String) (rest : List (String × J)) :
    mergeKvs t ((k, .null) :: rest) = mergeKvs (J.erase k t) rest := by
  rw [mergeKvs]

theorem mergeKvs_cons_nonnull (t : List (String × J)) (k : String) (v : J) (rest : List (String × J))
    (hn : v.isNull = false) :
    mergeKvs t ((k, v) :: rest) =
      mergeKvs (J.insert k (mergePatch ((lookup k t).getD .null) v) t) rest := by
  cases v with
  | null => simp [isNull] at hn
  | _ => rw [mergeKvs] <;> simp

theorem mergePatch_leaf (t v : J) (ho : v.isObj = false) : mergePatch t v = v := by
  cases v with
  | obj _ => simp [isObj] at ho
  | _ => rw [mergePatch] <;> simp

/-- a mapping patch over a non-mapping target starts from the empty mapping -/
theorem mergePatch_obj_nonobj (t : J) (pk : List (String × J)) (ho : t.isObj = false) :
    mergePatch t (.obj pk) = .obj (mergeKvs [] pk) := by
  cases t with
  | obj _ => simp [isObj] at ho
  | _ => rw [mergePatch] <;> simp

theorem clrA_all_none (M : LeafMap) (x : J) (h : M [] = some x) : clrA M [] = leafAt (.obj []) := by
  funext q; simp [clrA, h, leafAt_empty]

theorem clrA_noop (M : LeafMap) (P : List String) (h : M P = none) : clrA M P = M := by
  funext q; simp [clrA, h]

/-! ### RFC 7386 merge = the abstract semantics -/
mutual
  theorem mergePatch_sem : ∀ (v : J) (t : Option J), v.isNull = false →
      leafAt (mergePatch (t.getD .null) v) = absInstr (Lopt t) [] v
    | .null, _, hn => by simp [isNull] at hn
    | .bool x, t, _ => by
        rw [mergePatch_leaf _ _ rfl, absInstr]; funext q; simp [setA, leafAt_nonobj (.bool x) rfl q]
    | .num x, t, _ => by
        rw [mergePatch_leaf _ _ rfl, absInstr]; funext q; simp [setA, leafAt_nonobj (.num x) rfl q]
    | .str x, t, _ => by
        rw [mergePatch_leaf _ _ rfl, absInstr]; funext q; simp [setA, leafAt_nonobj (.str x) rfl q]
    | .arr x, t, _ => by
        rw [mergePatch_leaf _ _ rfl, absInstr]; funext q; simp [setA, leafAt_nonobj (.arr x) rfl q]
    | .obj pk, t, _ => by
        rw [absInstr]
        cases t with
        | none =>
          rw [clrA_noop _ [] (by rfl)]
          have : Lopt none = leafAt (.obj []) := by funext q; simp [Lopt, leafAt_empty]
          rw [this]
          simp only [Option.getD]
          rw [mergePatch_obj_nonobj _ _ rfl]
          exact mergeKvs_sem pk []
        | some tj =>
          by_cases ho : tj.isObj = true
          · obtain ⟨tk, rfl⟩ : ∃ tk, tj = .obj tk := by cases tj <;> simp [isObj] at ho; exact ⟨_, rfl⟩
            rw [clrA_noop _ [] (by rfl)]
            simp only [Option.getD, mergePatch, Lopt]
            exact mergeKvs_sem pk tk
          · have ho' : tj.isObj = false := by simpa using ho
            have hl : Lopt (some tj) [] = some tj := by
              simp only [Lopt]; rw [leafAt_nonobj tj ho' []]; simp
            rw [clrA_all_none _ tj hl]
            simp only [Option.getD]
            rw [mergePatch_obj_nonobj _ _ ho']
            exact mergeKvs_sem pk []
  theorem mergeKvs_sem : ∀ (pk : List (String × J)) (tk : List (String × J)),
      leafAt (.obj (mergeKvs tk pk)) = absKvs (leafAt (.obj tk)) [] pk
    | [], tk => by rw [mergeKvs, absKvs]
    | (k, v) :: rest, tk => by
        rw [absKvs, List.nil_append]
        cases hnull : v.isNull with
        | true =>
          have : v = .null := by cases v <;> simp_all [isNull]
          subst this
          rw [mergeKvs_cons_null, absInstr, ← leafAt_erase]
          exact mergeKvs_sem rest (J.erase k tk)
        | false =>
          rw [mergeKvs_cons_nonnull _ _ _ _ hnull,
            ← leafAt_insert k _ tk v (mergePatch_sem v (lookup k tk) hnull)]
          exact mergeKvs_sem rest _
end

end Kopf.C18
