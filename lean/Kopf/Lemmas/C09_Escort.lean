/-
  C09 helper lemmas for the escort after a filter mismatch (since /repo ef26531): what ONE visit of `stop_daemons`
  does to an instance that already carries the reason, by the age of its stop flag; and how a processing cycle of an
  unmarked object decomposes when an instance is running.
-/
import Kopf.Lemmas.C09_Timed
namespace Kopf.C09

/-! ### one visit of `stop_daemons` to an instance that already carries the reason -/

theorem stopOne_flagged (c : Cfg) (now : Tick) (r : Reason) (i : Inst) (ex : Ex) (hr : r ∈ i.reasons) :
    stopOne c now r i ex =
      if ex.d0 then .ended i else
      if ex.d1 then .ended i else
      let act := stage (atomsOf c (age i now) false)
      if act.delayIfAlive && ex.d2 then .ended (applySet act i now).1
      else .alive (applySet act i now).1 (act.delay.map (delayVal c (age i now))) := by
  unfold stopOne
  by_cases h0 : ex.d0 = true
  · simp [h0]
  · by_cases h1 : ex.d1 = true
    · simp [h0, h1, hr]
    · have h1' : ex.d1 = false := by simpa using h1
      simp [h0, h1', hr]

/-- What a visit leaves behind. `.gone`: the instance has ended inside the visit. -/
inductive Visit (c : Cfg) (now : Tick) (i : Inst) : Out → Prop
  | gone (j : Inst) : Visit c now i (.ended j)
  | signalled (i' : Inst) (b : Tick) (hb : c.backoff = some b) (hlt : age i now < b)
      (hs : Reason.signalled ∈ i'.reasons) (m : Mono i i') : Visit c now i (.alive i' (some (b - age i now)))
  | cancelled (i' : Inst) (t : Tick) (ht : c.timeout = some t) (hge : ∀ b, c.backoff = some b → b ≤ age i now)
      (hlt : age i now < t + c.b0) (hs : Reason.cancelled ∈ i'.reasons) (hc : i'.cancelAt.isSome = true) (m : Mono i i') :
      Visit c now i (.alive i' (some (t + c.b0 - age i now)))
  | abandoned (i' : Inst) (t : Tick) (ht : c.timeout = some t) (hgb : ∀ b, c.backoff = some b → b ≤ age i now)
      (hge : t + c.b0 ≤ age i now)
      (hs : Reason.abandoned ∈ i'.reasons) (ha : i'.abandonAt.isSome = true) (m : Mono i i') : Visit c now i (.alive i' none)
  | polled (hto : c.timeout = none) (hge : ∀ b, c.backoff = some b → b ≤ age i now) :
      Visit c now i (.alive i (some c.polling))

theorem visit_spec {c : Cfg} {now : Tick} {i : Inst} (hinv : InstInv c now i) (r : Reason) (ex : Ex) (hr : r ∈ i.reasons) :
    Visit c now i (stopOne c now r i ex) := by
  rw [stopOne_flagged c now r i ex hr]
  by_cases h0 : ex.d0 = true
  · simp only [h0, if_true]; exact .gone i
  · simp only [h0, Bool.false_eq_true, if_false]
    by_cases h1 : ex.d1 = true
    · simp only [h1, if_true]; exact .gone i
    · simp only [h1, Bool.false_eq_true, if_false]
      rcases stage_cases (atomsOf c (age i now) false) with ⟨hd, _⟩ | ⟨_, hb, hab, hs⟩ | ⟨_, hnb, ht, hat, hs⟩ | ⟨_, hnb, ht, hat, hs⟩ | ⟨_, hnb, ht, hs⟩
      · simp [atomsOf] at hd
      · -- signalled
        simp only [hs]
        cases hbo : c.backoff with
        | none => simp [atomsOf, hbo] at hb
        | some b =>
          have hlt : age i now < b := by simpa [atomsOf, hbo] using hab
          by_cases h2 : (actSignal.delayIfAlive && ex.d2) = true
          · simp only [h2, if_true]; exact .gone _
          · simp only [h2, Bool.false_eq_true, if_false]
            have hd : Option.map (delayVal c (age i now)) actSignal.delay = some (b - age i now) := by
              simp [actSignal, delayVal, Cfg.b0, hbo]
            rw [hd, applySet_signal]
            by_cases hm : Reason.signalled ∈ i.reasons
            · rw [if_pos hm]; exact .signalled i b hbo hlt hm (Mono.refl i)
            · rw [if_neg hm]
              exact .signalled _ b hbo hlt (mem_set.mpr (Or.inr rfl)) (set_mono i _ _)
      · -- cancelled
        simp only [hs]
        cases hto : c.timeout with
        | none => simp [atomsOf, hto] at ht
        | some t =>
          have hlt : age i now < t + c.b0 := by simpa [atomsOf, hto] using hat
          have hge : ∀ b, c.backoff = some b → b ≤ age i now := by
            intro b hb
            simp only [atomsOf, hb, Option.isSome_some, Bool.true_and, decide_eq_false_iff_not] at hnb
            tick_omega
          by_cases h2 : (actCancel.delayIfAlive && ex.d2) = true
          · simp only [h2, if_true]; exact .gone _
          · simp only [h2, Bool.false_eq_true, if_false]
            have hd : Option.map (delayVal c (age i now)) actCancel.delay = some (t + c.b0 - age i now) := by
              simp [actCancel, delayVal, Cfg.t0, hto]
            rw [hd, applySet_cancel]
            by_cases hm : Reason.cancelled ∈ i.reasons
            · rw [if_pos hm]
              exact .cancelled i t hto hge hlt hm (hinv.cancIff.mp hm) (Mono.refl i)
            · rw [if_neg hm]
              refine .cancelled _ t hto hge hlt ((mem_set (i := i) (r := .cancelled) (now := now)).mpr (Or.inr rfl)) rfl ?_
              refine ⟨(set_mono i .cancelled now).reasons, (set_mono i .cancelled now).when, ?_, fun _ h => h, fun _ h => h, rfl⟩
              intro t' ht'; simp [ht']
      · -- abandoned
        simp only [hs]
        cases hto : c.timeout with
        | none => simp [atomsOf, hto] at ht
        | some t =>
          have hge : t + c.b0 ≤ age i now := by
            simp only [atomsOf, hto, decide_eq_false_iff_not] at hat
            tick_omega
          have hgb : ∀ b, c.backoff = some b → b ≤ age i now := by
            intro b hb
            simp only [atomsOf, hb, Option.isSome_some, Bool.true_and, decide_eq_false_iff_not] at hnb
            tick_omega
          have h2 : (actAbandon.delayIfAlive && ex.d2) = false := by simp [actAbandon]
          simp only [h2, Bool.false_eq_true, if_false]
          have hd : Option.map (delayVal c (age i now)) actAbandon.delay = none := by simp [actAbandon]
          rw [hd, applySet_abandon]
          by_cases hm : Reason.abandoned ∈ i.reasons
          · rw [if_pos hm]
            exact .abandoned i t hto hgb hge hm (hinv.abanIff.mp hm) (Mono.refl i)
          · rw [if_neg hm]
            refine .abandoned _ t hto hgb hge ((mem_set (i := i) (r := .abandoned) (now := now)).mpr (Or.inr rfl)) rfl ?_
            refine ⟨(set_mono i .abandoned now).reasons, (set_mono i .abandoned now).when, fun _ h => h, ?_, fun _ h => h, rfl⟩
            intro t' ht'; simp [ht']
      · -- polled
        simp only [hs]
        have hto : c.timeout = none := by
          cases hto : c.timeout with
          | none => rfl
          | some t => simp [atomsOf, hto] at ht
        have hge : ∀ b, c.backoff = some b → b ≤ age i now := by
          intro b hb
          simp only [atomsOf, hb, Option.isSome_some, Bool.true_and, decide_eq_false_iff_not] at hnb
          tick_omega
        have h2 : (actPoll.delayIfAlive && ex.d2) = false := by simp [actPoll]
        simp only [h2, Bool.false_eq_true, if_false]
        have hd : Option.map (delayVal c (age i now)) actPoll.delay = some c.polling := by simp [actPoll, delayVal]
        rw [hd, applySet_poll]
        exact .polled hto hge

/-! ### a processing cycle of an unmarked object while an instance flagged for a mismatch runs -/

theorem reasons_nonempty_of_mem {i : Inst} {r : Reason} (h : r ∈ i.reasons) : i.reasons.isEmpty = false := by
  cases hr : i.reasons with
  | nil => rw [hr] at h; cases h
  | cons _ _ => rfl

theorem stopIf_running (c : Cfg) (s : St) (r : Reason) (ex : Ex) {i : Inst} (hi : s.run = some i) :
    stopIf c s true r ex = applyOut s (stopOne c s.now r i ex) := by
  simp [stopIf, hi]

/-- the cycle, when an instance carrying FILTERS_MISMATCH runs, in the tree variant `escorts`: the re-check delay of the
    skipped start, ONE more visit of `stop_daemons(FILTERS_MISMATCH)` whatever `inp.matching`, the immediate re-visit if
    the instance has ended in it while selected, then the pause stop -/
theorem cycle_flagged {c : Cfg} {s : St} {i : Inst} (inp : CycIn) (he : c.escorts = true) (hi : s.run = some i)
    (hmm : Reason.mismatch ∈ i.reasons) (hmk : inp.marked = false) :
    cycle c inp s =
      ((stopIf c (stopIf c (forgotten inp s) true .mismatch inp.ex1).1 inp.paused .pausing inp.ex2).1,
       (if (inp.matching && !s.forever && !blockedIn c inp s) = true then [c.polling] else []) ++
       (stopIf c (forgotten inp s) true .mismatch inp.ex1).2 ++
       (if (inp.matching && !s.forever) = true ∧ (stopIf c (forgotten inp s) true .mismatch inp.ex1).1.run = none then [0] else []) ++
       (stopIf c (stopIf c (forgotten inp s) true .mismatch inp.ex1).1 inp.paused .pausing inp.ex2).2) := by
  rw [cycle_unfold]
  obtain ⟨_, e0r, e0f, _⟩ := forgotten_fields inp s
  have e0b := blocked_forgotten c inp s
  have hne := reasons_nonempty_of_mem hmm
  generalize forgotten inp s = s0 at e0r e0f e0b
  have hr0 : s0.run = some i := e0r.trans hi
  have hst : s0.stopping = true := by simp [St.stopping, hr0, hne]
  have hfm : s0.flaggedMismatch = true := by simp [St.flaggedMismatch, hr0, Inst.has, hmm]
  have hesc : ∀ sel, escorted c sel s0 = true := by intro sel; simp [escorted, matchVisits, he, hfm]
  simp only [hmk, Bool.false_eq_true, if_false, hesc, hst, hfm, he, e0f, e0b, hr0, Option.isNone_some, Bool.and_false,
    Bool.false_and, Bool.and_true, Bool.true_and, Option.isNone_iff_eq_none, Bool.and_eq_true]

/-- `spawn_daemons` in the tree variant `escorts`: a selected handler whose previous instance is still stopping (whatever
    asked it to: a mismatch, a pause) is skipped WITH a re-check delay -/
theorem cycle_defers_with_delay {c : Cfg} {s : St} {i : Inst} (inp : CycIn) (he : c.escorts = true) (hi : s.run = some i)
    (hne : i.reasons ≠ []) (hmk : inp.marked = false) (hsel : (inp.matching && !s.forever) = true)
    (hnb : blockedIn c inp s = false) : c.polling ∈ (cycle c inp s).2 := by
  rw [cycle_unfold]
  obtain ⟨_, e0r, e0f, _⟩ := forgotten_fields inp s
  have e0b := blocked_forgotten c inp s
  generalize forgotten inp s = s0 at e0r e0f e0b
  have hr0 : s0.run = some i := e0r.trans hi
  have hst : s0.stopping = true := by
    cases hr : i.reasons with
    | nil => exact absurd hr hne
    | cons _ _ => simp [St.stopping, hr0, hr]
  simp only [hmk, Bool.false_eq_true, if_false, hst, he, e0f, e0b, hsel, hnb, Bool.not_false, Bool.and_true, if_true,
    List.append_assoc, List.cons_append, List.nil_append, List.mem_cons, true_or]

/-- What the cycle makes of the visit's outcome: ended in the visit → nothing runs after the cycle, and delay 0 is returned
    if the handler is selected; alive → the instance after the cycle (if the pause stop has not seen it end) is a later
    version of the visited one, and the visit's delay is among the cycle's. -/
theorem cycle_escort_spec {c : Cfg} {s : St} {i : Inst} (hinv : Inv c s) (inp : CycIn) (he : c.escorts = true)
    (hi : s.run = some i) (hmm : Reason.mismatch ∈ i.reasons) (hmk : inp.marked = false) :
    (∀ j, stopOne c s.now .mismatch i inp.ex1 = .ended j →
      (cycle c inp s).1.run = none ∧ (cycle c inp s).1.forever = s.forever ∧
      ((inp.matching && !s.forever) = true → (0 : Tick) ∈ (cycle c inp s).2)) ∧
    (∀ i2 d, stopOne c s.now .mismatch i inp.ex1 = .alive i2 d →
      ((cycle c inp s).1.run = none ∨ ∃ i', (cycle c inp s).1.run = some i' ∧ Mono i2 i') ∧
      (∀ x, d = some x → x ∈ (cycle c inp s).2)) := by
  have h0 := forgotten_inv hinv inp
  obtain ⟨e0n, e0r, e0f, _⟩ := forgotten_fields inp s
  have hr0 : (forgotten inp s).run = some i := e0r.trans hi
  obtain ⟨h2, _, _⟩ := stopIf_spec h0 (r := .mismatch) rfl true inp.ex1
  have hc := cycle_flagged inp he hi hmm hmk
  have hsp := stopOne_spec (hinv.inst i hi) (r := .mismatch) rfl inp.ex1
  rw [stopIf_running c _ .mismatch inp.ex1 hr0, e0n] at h2 hc
  generalize forgotten inp s = s0 at h2 hc e0f
  generalize stopOne c s.now .mismatch i inp.ex1 = out at h2 hc hsp
  obtain ⟨_, ev3, _⟩ := stopIf_spec h2 (r := .pausing) rfl inp.paused inp.ex2
  generalize stopIf c (applyOut s0 out).1 inp.paused .pausing inp.ex2 = p3 at hc ev3
  rw [hc]
  constructor
  · intro j ho
    subst ho
    have hn : (applyOut s0 (.ended j)).1.run = none := by simp [applyOut, endInst]
    have hp3 := ev3.noneStays hn
    refine ⟨?_, ?_, ?_⟩
    · show p3.1.run = none
      rw [hp3]; exact hn
    · show p3.1.forever = s.forever
      rw [hp3]
      cases hsp with
      | ended _ mono =>
        have hje := reasons_nonempty_of_mem (mono _ hmm)
        simp [applyOut, endInst, hje, e0f]
    · intro hsel
      simp only [hsel, hn, and_self, if_true, List.mem_append, List.mem_cons, List.mem_nil_iff, or_false, true_or, or_true]
  · intro i2 d ho
    subst ho
    refine ⟨?_, ?_⟩
    · show p3.1.run = none ∨ ∃ i', p3.1.run = some i' ∧ Mono i2 i'
      cases hr : p3.1.run with
      | none => exact Or.inl rfl
      | some i' =>
        right
        obtain ⟨j, hj, m, _⟩ := ev3.same i' hr
        simp only [applyOut, Option.some.injEq] at hj
        subst hj
        exact ⟨i', rfl, m⟩
    · intro x hx
      subst hx
      simp only [applyOut, Option.toList_some, List.mem_append, List.mem_cons, List.mem_nil_iff, or_false, true_or, or_true]

/-! ### the same instance across any number of steps -/

theorem step_spawns_le {c : Cfg} {s s' : St} (h : Inv c s) (l : Label) (hs : step c s l = some s') : s.spawns ≤ s'.spawns := by
  rw [step_spawns h l hs]
  exact Nat.le_add_right _ _

theorem runs_spawns_le {c : Cfg} : ∀ (ls : List Label) {s s' : St}, Inv c s → runs c s ls = some s' → s.spawns ≤ s'.spawns
  | [], s, s', _, hr => by simp only [runs, Option.some.injEq] at hr; subst hr; exact Nat.le_refl _
  | l :: ls, s, s', h, hr => by
    simp only [runs] at hr
    cases hst : step c s l with
    | none => rw [hst] at hr; cases hr
    | some s1 =>
      rw [hst] at hr
      exact Nat.le_trans (step_spawns_le h l hst) (runs_spawns_le ls (step_inv h l hst) hr)

/-- without a spawn, nothing comes out of nothing -/
theorem runs_run_none {c : Cfg} : ∀ (ls : List Label) {s s' : St}, Inv c s → runs c s ls = some s' → s'.spawns = s.spawns →
    s.run = none → s'.run = none
  | [], s, s', _, hr, _, hn => by simp only [runs, Option.some.injEq] at hr; subst hr; exact hn
  | l :: ls, s, s', h, hr, hsp, hn => by
    simp only [runs] at hr
    cases hst : step c s l with
    | none => rw [hst] at hr; cases hr
    | some s1 =>
      rw [hst] at hr
      have h1 := step_inv h l hst
      have a := step_spawns_le h l hst
      have b := runs_spawns_le ls h1 hr
      have e1 : s1.spawns = s.spawns := by omega
      exact runs_run_none ls h1 hr (by omega) (step_run_none h l hst hn e1)

/-- As long as nothing is spawned, what runs is the same instance with a larger record: across ANY label list. -/
theorem runs_same_instance {c : Cfg} : ∀ (ls : List Label) {s s' : St} {i i' : Inst}, Inv c s → runs c s ls = some s' →
    s'.spawns = s.spawns → s.run = some i → s'.run = some i' → Mono i i'
  | [], s, s', i, i', _, hr, _, hi, hi' => by
    simp only [runs, Option.some.injEq] at hr; subst hr
    rw [hi] at hi'; cases hi'; exact Mono.refl i
  | l :: ls, s, s', i, i', h, hr, hsp, hi, hi' => by
    simp only [runs] at hr
    cases hst : step c s l with
    | none => rw [hst] at hr; cases hr
    | some s1 =>
      rw [hst] at hr
      have h1 := step_inv h l hst
      have a := step_spawns_le h l hst
      have b := runs_spawns_le ls h1 hr
      have e1 : s1.spawns = s.spawns := by omega
      cases hr1 : s1.run with
      | none =>
        have := runs_run_none ls h1 hr (by omega) hr1
        rw [this] at hi'; cases hi'
      | some i1 =>
        exact (step_mono h l hst hi hr1).trans (runs_same_instance ls h1 hr (by omega) hr1 hi')

end Kopf.C09
