/-
  C01 — two invariants that hold in EVERY reachable state, also during shutdown and after failures:
  `Ord` (what was started / waits in a backlog / is in the watcher's hand is, in that order, a
  sub-sequence of what arrived) and `Pre` (`processed` is `started` minus at most the one event in flight).
-/
import Kopf.Lemmas.C01_Inv2
namespace Kopf.C01

theorem sub_drop_mid' (a b c : List Ev) : (a ++ c).Sublist (a ++ (b ++ c)) :=
  List.Sublist.append (List.Sublist.refl a) (List.sublist_append_right b c)

def Ord (s : State) : Prop :=
  ∀ k, (s.started k ++ backlogEvs s k ++ handEvs s k).Sublist (s.arrived k)

theorem ord_step {s s' : State} {l : Label} (ho : Ord s) (h : step s l = some s') : Ord s' := by
  intro k
  have ih := ho k
  simp only [backlogEvs, handEvs] at ih ⊢
  cases l <;> step_cases h <;> (try dsimp only) <;> (try simp only [upd_apply]) <;> (repeat' split) <;>
    simp_all
  all_goals first
    | exact (by simpa [List.append_assoc] using List.Sublist.append ih (List.Sublist.refl [_]))
    | exact List.Sublist.trans (sub_drop_mid' _ _ _) ih
    | exact List.Sublist.trans (List.Sublist.append (List.Sublist.refl _) (List.sublist_append_left _ _)) ih
    | (rename_i hne; rw [if_neg (fun h => hne h.symm)]; simpa using ih)
    | (rename_i hne; rw [if_neg (fun h => hne h.symm)] at ih; simpa using ih)

def Pre (s : State) : Prop :=
  ∀ k, s.started k = s.processed k ∨ ∃ e, s.started k = s.processed k ++ [e]

theorem pre_step {s s' : State} {l : Label} (hi : Inv s) (hp : Pre s) (h : step s l = some s') :
    Pre s' := by
  intro k
  have ih := hp k
  have h0 := hi.busy_started
  have h1 := hi.started_spec
  have h2 := hi.uniq
  cases l <;> step_cases h <;> (try dsimp only)
  all_goals grind [upd_apply, Pc.live_pending, Pc.live_spawned, Pc.live_waiting, Pc.live_busy, Pc.live_leaving]

theorem ord_pre_run {s s' : State} {ls : List Label} (hi : Inv s) (ho : Ord s) (hp : Pre s)
    (h : run s ls = some s') : Ord s' ∧ Pre s' := by
  induction ls generalizing s with
  | nil => simp [run, runWith] at h; exact h ▸ ⟨ho, hp⟩
  | cons l ls ih =>
    simp only [run, runWith] at h
    split at h
    · rename_i s1 hs1
      exact ih (inv_step hi hs1) (ord_step ho hs1) (pre_step hi hp hs1) h
    · cases h

theorem ord_pre_reach {lim : Option Nat} {ls : List Label} {s : State} (h : Reach lim ls s) :
    Ord s ∧ Pre s := by
  refine ord_pre_run (inv_init lim) ?_ ?_ h
  · intro k; simp [init, backlogEvs, handEvs]
  · intro k; left; rfl

end Kopf.C01
