/-
  C01 — two invariants that hold in EVERY reachable state, also during shutdown and after failures:
  `Ord` (what was started / waits in a backlog / is in the watcher's hand is, in that order, a
  sub-sequence of what arrived) and `Pre` (`processed` is `started` minus at most the one event in flight).
-/
import Kopf.Lemmas.C01_Inv2
namespace Kopf.C01

theorem sub_drop_mid' (a b c : List Ev) : (a ++ c).Sublist (a ++ (b ++ c)) :=
  List.Sublist.append (List.Sublist.refl a) (List.sublist_append_right b c)

def Ord (s : State) : Prop :=
  ∀ k, (s.started k ++ backlogEvs s k ++ handEvs s k).Sublist (s.arrived k)

theorem ord_step {s s' : State} {l : Label} (ho : Ord s) (h : step s l = some s') : Ord s' := by
  intro k
  have ih := ho k
  simp only [backlogEvs, handEvs] at ih ⊢
  cases l <;> step_cases h <;> (try dsimp only) <;> (try simp only [upd_apply]) <;> (repeat' split) <;>
    simp_all
  all_goals first
    | exact (by simpa [List.append_assoc] using List.Sublist.append ih (List.Sublist.refl [_]))
    | exact List.Sublist.trans (sub_drop_mid' _ _ _) ih
    | exact List.Sublist.trans (List.Sublist.append (List.Sublist.refl _) (List.sublist_append_left _ _)) ih
    | (rename_i hne; rw [if_neg (fun h => hne h.symm)]; simpa using ih)
    | (rename_i hne; rw [if_neg (fun h => hne h.symm)] at ih; simpa using ih)

end Kopf.C01
