/-
  C18 helper lemmas, part 4: `_apply_patch` does not raise on well-typed (body, patch) pairs.
-/
import Kopf.Lemmas.C18_Spec
namespace Kopf.C18
open Kopf Kopf.J
set_option linter.unusedSimpArgs false

mutual
  /-- extensional well-typedness: no leaf of the body sits where the patch has a mapping -/
  def okx (M : LeafMap) (P : List String) : J → Prop
    | .obj pk => M P = none ∧ okxKvs M P pk
    | _ => True
  def okxKvs (M : LeafMap) (P : List String) : List (String × J) → Prop
    | [] => True
    | (k, v) :: rest => okx M (P ++ [k]) v ∧ okxKvs M P rest
end

mutual
  theorem okx_congr : ∀ (v : J) (M M' : LeafMap) (P : List String),
      (∀ q, pre P q = true → M q = M' q) → okx M P v → okx M' P v
    | .obj pk, M, M', P, h, ho => by
        rw [okx] at ho ⊢
        refine ⟨by rw [← h P (pre_refl P)]; exact ho.1, okxKvs_congr pk M M' P ?_ ho.2⟩
        intro kv _ q hq
        exact h q (pre_append_left P [kv.1] q hq)
    | .null, _, _, _, _, _ => by simp [okx]
    | .bool _, _, _, _, _, _ => by simp [okx]
    | .num _, _, _, _, _, _ => by simp [okx]
    | .str _, _, _, _, _, _ => by simp [okx]
    | .arr _, _, _, _, _, _ => by simp [okx]
  /-- the maps only need to agree below the paths `P ++ [k]` of the keys of `pk` -/
  theorem okxKvs_congr : ∀ (pk : List (String × J)) (M M' : LeafMap) (P : List String),
      (∀ kv ∈ pk, ∀ q, pre (P ++ [kv.1]) q = true → M q = M' q) → okxKvs M P pk → okxKvs M' P pk
    | [], _, _, _, _, _ => by simp [okxKvs]
    | (k, v) :: rest, M, M', P, h, ho => by
        rw [okxKvs] at ho ⊢
        exact ⟨okx_congr v M M' (P ++ [k]) (h (k, v) (by simp)) ho.1,
          okxKvs_congr rest M M' P (fun kv hkv => h kv (by simp [hkv])) ho.2⟩
end

mutual
  theorem okx_shift : ∀ (v : J) (k : String) (M : LeafMap) (P : List String),
      okx (shiftM k M) P v → okx M (k :: P) v
    | .obj pk, k, M, P, ho => by
        rw [okx] at ho ⊢
        exact ⟨ho.1, okxKvs_shift pk k M P ho.2⟩
    | .null, _, _, _, _ => by simp [okx]
    | .bool _, _, _, _, _ => by simp [okx]
    | .num _, _, _, _, _ => by simp [okx]
    | .str _, _, _, _, _ => by simp [okx]
    | .arr _, _, _, _, _ => by simp [okx]
  theorem okxKvs_shift : ∀ (pk : List (String × J)) (k : String) (M : LeafMap) (P : List String),
      okxKvs (shiftM k M) P pk → okxKvs M (k :: P) pk
    | [], _, _, _, _ => by simp [okxKvs]
    | (k', v) :: rest, k, M, P, ho => by
        rw [okxKvs] at ho ⊢
        exact ⟨by rw [List.cons_append]; exact okx_shift v k M (P ++ [k']) ho.1, okxKvs_shift rest k M P ho.2⟩
end

mutual
  theorem okx_noneMap : ∀ (v : J) (P : List String), okx (fun _ => none) P v
    | .obj pk, P => by rw [okx]; exact ⟨rfl, okxKvs_noneMap pk P⟩
    | .null, _ => by simp [okx]
    | .bool _, _ => by simp [okx]
    | .num _, _ => by simp [okx]
    | .str _, _ => by simp [okx]
    | .arr _, _ => by simp [okx]
  theorem okxKvs_noneMap : ∀ (pk : List (String × J)) (P : List String), okxKvs (fun _ => none) P pk
    | [], _ => by simp [okxKvs]
    | (k, v) :: rest, P => by rw [okxKvs]; exact ⟨okx_noneMap v _, okxKvs_noneMap rest P⟩
end

/-! ### static well-typedness ⇒ extensional well-typedness -/
mutual
  theorem okx_of_wtAt : ∀ (v : J) (t : Option J), wtAt t v = true → okx (Lopt t) [] v
    | .obj pk, t, h => by
        cases t with
        | none => exact okx_noneMap _ _
        | some tj =>
          cases tj with
          | obj tk =>
            rw [okx]
            exact ⟨rfl, okxKvs_of_wtKvs pk tk (by simpa [wtAt] using h)⟩
          | _ => simp [wtAt] at h
    | .null, _, _ => by simp [okx]
    | .bool _, _, _ => by simp [okx]
    | .num _, _, _ => by simp [okx]
    | .str _, _, _ => by simp [okx]
    | .arr _, _, _ => by simp [okx]
  theorem okxKvs_of_wtKvs : ∀ (pk : List (String × J)) (tk : List (String × J)),
      wtKvs tk pk = true → okxKvs (leafAt (.obj tk)) [] pk
    | [], _, _ => by simp [okxKvs]
    | (k, v) :: rest, tk, h => by
        simp only [wtKvs, Bool.and_eq_true] at h
        rw [okxKvs]
        refine ⟨?_, okxKvs_of_wtKvs rest tk h.2⟩
        have := okx_of_wtAt v (lookup k tk) h.1
        rw [← shift_leafAt_obj] at this
        exact okx_shift v k _ [] this
end

/-! ### no exception on extensionally well-typed input -/
theorem pre_snoc_cases (q P : List String) (k : String) (h : pre q (P ++ [k]) = true) :
    q = P ++ [k] ∨ pre q P = true := by
  induction q generalizing P with
  | nil => right; rfl
  | cons a q ih =>
    cases P with
    | nil =>
      simp only [List.nil_append, pre_cons_cons] at h
      by_cases e : a = k
      · subst e
        cases q with
        | nil => left; rfl
        | cons b q => simp at h
      · simp [e] at h
    | cons b P =>
      simp only [List.cons_append, pre_cons_cons] at h ⊢
      by_cases e : a = b
      · subst e
        simp only [if_true] at h ⊢
        rcases ih P h with h1 | h1
        · left; rw [h1]
        · right; exact h1
      · simp [e] at h

theorem noLeafAbove_snoc (M : LeafMap) (P : List String) (k : String)
    (h : NoLeafAbove M P) (hP : M P = none) : NoLeafAbove M (P ++ [k]) := by
  intro q hq hne
  rcases pre_snoc_cases q P k hq with h1 | h1
  · exact absurd h1 hne
  · by_cases e : q = P
    · rw [e]; exact hP
    · exact h q h1 e

mutual
  theorem applyInstr_total : ∀ (v : J) (b : J) (P : List String), (P ≠ [] ∨ v.isObj = true) →
      NoLeafAbove (leafAt b) P → okx (leafAt b) P v → J.wf v = true → ∃ b', applyInstr b P v = .ok b'
    | .null, b, P, hP, hA, _, _ => by
        rw [applyInstr]; exact remove_ok P b (by simpa [isObj] using hP) hA
    | .bool x, b, P, hP, hA, _, _ => by
        rw [applyInstr]; exact ensure_ok _ P b (by simpa [isObj] using hP) hA
    | .num x, b, P, hP, hA, _, _ => by
        rw [applyInstr]; exact ensure_ok _ P b (by simpa [isObj] using hP) hA
    | .str x, b, P, hP, hA, _, _ => by
        rw [applyInstr]; exact ensure_ok _ P b (by simpa [isObj] using hP) hA
    | .arr x, b, P, hP, hA, _, _ => by
        rw [applyInstr]; exact ensure_ok _ P b (by simpa [isObj] using hP) hA
    | .obj pk, b, P, _, hA, ho, hwf => by
        rw [applyInstr]
        rw [okx] at ho
        exact applyKvs_total pk b P hA ho.1 ho.2 (by simpa [J.wf] using hwf)
  theorem applyKvs_total : ∀ (pk : List (String × J)) (b : J) (P : List String),
      NoLeafAbove (leafAt b) P → leafAt b P = none → okxKvs (leafAt b) P pk → wfKvs pk = true →
      ∃ b', applyKvs b P pk = .ok b'
    | [], b, _, _, _, _, _ => ⟨b, rfl⟩
    | (k, v) :: rest, b, P, hA, hP, ho, hwf => by
        simp only [wfKvs, Bool.and_eq_true, Bool.not_eq_eq_eq_not, Bool.not_true] at hwf
        obtain ⟨⟨hk, hv⟩, hrest⟩ := hwf
        rw [okxKvs] at ho
        obtain ⟨b1, h1⟩ := applyInstr_total v b (P ++ [k]) (Or.inl (by simp))
          (noLeafAbove_snoc _ P k hA hP) ho.1 hv
        have hsem := applyInstr_sem v b b1 (P ++ [k]) h1
        have hframe : ∀ q, pre (P ++ [k]) q = false → leafAt b1 q = leafAt b q := by
          intro q hq; rw [hsem]; exact absInstr_frame v _ _ q hq
        have hA1 : NoLeafAbove (leafAt b1) P := by
          intro q hq hne
          rw [hframe q (not_pre_snoc_of_pre P q k hq)]
          exact hA q hq hne
        have hP1 : leafAt b1 P = none := by
          rw [hframe P (not_pre_snoc_of_pre P P k (pre_refl P))]; exact hP
        have ho1 : okxKvs (leafAt b1) P rest := by
          refine okxKvs_congr rest (leafAt b) (leafAt b1) P ?_ ho.2
          intro kv hkv q hq
          symm
          apply hframe
          cases hp : pre (P ++ [k]) q with
          | false => rfl
          | true =>
            have := pre_snoc_disjoint P q k kv.1 hp hq
            exact absurd this.symm (not_mem_keys_of_any hk kv hkv)
        obtain ⟨b2, h2⟩ := applyKvs_total rest b1 P hA1 hP1 ho1 hrest
        exact ⟨b2, by simp only [applyKvs, h1]; exact h2⟩
end

end Kopf.C18
