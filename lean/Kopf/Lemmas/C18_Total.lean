/-
  C18 helper lemmas, part 3: the repaired `_apply_patch` never raises below a mapping, and what it
  returns has the abstract semantics of the patch (existence and meaning proved together, because
  the meaning of the repair step depends on the invariant "no leaf above the current path").
-/
import Kopf.Lemmas.C18_Abs
namespace Kopf.C18
open Kopf Kopf.J
set_option linter.unusedSimpArgs false

theorem pre_snoc_cases (q P : List String) (k : String) (h : pre q (P ++ [k]) = true) :
    q = P ++ [k] ∨ pre q P = true := by
  induction q generalizing P with
  | nil => right; rfl
  | cons a q ih =>
    cases P with
    | nil =>
      simp only [List.nil_append, pre_cons_cons] at h
      by_cases e : a = k
      · subst e
        cases q with
        | nil => left; rfl
        | cons b q => simp at h
      · simp [e] at h
    | cons b P =>
      simp only [List.cons_append, pre_cons_cons] at h ⊢
      by_cases e : a = b
      · subst e
        simp only [if_true] at h ⊢
        rcases ih P h with h1 | h1
        · left; rw [h1]
        · right; exact h1
      · simp [e] at h

theorem noLeafAbove_snoc (M : LeafMap) (P : List String) (k : String)
    (h : NoLeafAbove M P) (hP : M P = none) : NoLeafAbove M (P ++ [k]) := by
  intro q hq hne
  rcases pre_snoc_cases q P k hq with h1 | h1
  · exact absurd h1 hne
  · by_cases e : q = P
    · rw [e]; exact hP
    · exact h q h1 e

theorem clrA_self (M : LeafMap) (P : List String) : clrA M P P = none := by
  simp only [clrA, pre_refl, Bool.and_true]
  cases h : M P <;> simp [h]

theorem noLeafAbove_clrA (M : LeafMap) (P : List String) (h : NoLeafAbove M P) :
    NoLeafAbove (clrA M P) P := by
  intro q hq hne
  have : pre P q = false := by
    cases hp : pre P q with
    | false => rfl
    | true => exact absurd (pre_antisymm q P hq hp) hne
  rw [clrA_frame M P q this]
  exact h q hq hne

mutual
  theorem applyInstr_ok_sem : ∀ (v : J) (b : J) (P : List String), P ≠ [] →
      NoLeafAbove (leafAt b) P →
      ∃ b', applyInstr b P v = .ok b' ∧ leafAt b' = absInstr (leafAt b) P v
    | .null, b, P, hP, hA => by
        obtain ⟨b', h⟩ := remove_ok P b hP hA
        exact ⟨b', by rw [applyInstr]; exact h, by funext q; rw [absInstr]; exact remove_leaf P b b' h q⟩
    | .bool x, b, P, hP, hA => by
        obtain ⟨b', h⟩ := ensure_ok (.bool x) P b hP hA
        exact ⟨b', by rw [applyInstr]; exact h, by funext q; rw [absInstr]; exact ensure_leaf _ rfl P b b' h q⟩
    | .num x, b, P, hP, hA => by
        obtain ⟨b', h⟩ := ensure_ok (.num x) P b hP hA
        exact ⟨b', by rw [applyInstr]; exact h, by funext q; rw [absInstr]; exact ensure_leaf _ rfl P b b' h q⟩
    | .str x, b, P, hP, hA => by
        obtain ⟨b', h⟩ := ensure_ok (.str x) P b hP hA
        exact ⟨b', by rw [applyInstr]; exact h, by funext q; rw [absInstr]; exact ensure_leaf _ rfl P b b' h q⟩
    | .arr x, b, P, hP, hA => by
        obtain ⟨b', h⟩ := ensure_ok (.arr x) P b hP hA
        exact ⟨b', by rw [applyInstr]; exact h, by funext q; rw [absInstr]; exact ensure_leaf _ rfl P b b' h q⟩
    | .obj pk, b, P, hP, hA => by
        obtain ⟨b1, h1, hs1⟩ := clearNonMapping_sem b P (Or.inl hP) hA
        obtain ⟨b', h2, hs2⟩ := applyKvs_ok_sem pk b1 P (by rw [hs1]; exact noLeafAbove_clrA _ P hA)
          (by rw [hs1]; exact clrA_self _ P)
        exact ⟨b', by rw [applyInstr, h1]; exact h2, by rw [absInstr, ← hs1]; exact hs2⟩
  theorem applyKvs_ok_sem : ∀ (pk : List (String × J)) (b : J) (P : List String),
      NoLeafAbove (leafAt b) P → leafAt b P = none →
      ∃ b', applyKvs b P pk = .ok b' ∧ leafAt b' = absKvs (leafAt b) P pk
    | [], b, _, _, _ => ⟨b, rfl, rfl⟩
    | (k, v) :: rest, b, P, hA, hP => by
        obtain ⟨b1, h1, hs1⟩ := applyInstr_ok_sem v b (P ++ [k]) (by simp) (noLeafAbove_snoc _ P k hA hP)
        have hframe : ∀ q, pre (P ++ [k]) q = false → leafAt b1 q = leafAt b q := by
          intro q hq; rw [hs1]; exact absInstr_frame v _ _ q hq
        have hA1 : NoLeafAbove (leafAt b1) P := by
          intro q hq hne
          rw [hframe q (not_pre_snoc_of_pre P q k hq)]
          exact hA q hq hne
        have hP1 : leafAt b1 P = none := by
          rw [hframe P (not_pre_snoc_of_pre P P k (pre_refl P))]; exact hP
        obtain ⟨b2, h2, hs2⟩ := applyKvs_ok_sem rest b1 P hA1 hP1
        exact ⟨b2, by simp only [applyKvs, h1]; exact h2, by rw [absKvs, ← hs1]; exact hs2⟩
end

/-- the root call: any mapping body, any patch -/
theorem applyPatch_ok_sem (b : J) (hb : b.isObj = true) (p : List (String × J)) :
    ∃ b', applyPatch b p = .ok b' ∧ leafAt b' = absKvs (leafAt b) [] p := by
  obtain ⟨kvs, rfl⟩ : ∃ kvs, b = .obj kvs := by cases b <;> simp [isObj] at hb; exact ⟨_, rfl⟩
  obtain ⟨b', h, hs⟩ := applyKvs_ok_sem p (.obj kvs) [] (fun q hq hne => by cases q <;> simp_all [pre]) rfl
  exact ⟨b', by simp only [applyPatch, applyInstr, clearNonMapping, resolve?]; exact h, hs⟩

end Kopf.C18
