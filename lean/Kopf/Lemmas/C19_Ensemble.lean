/-
  C19 — helper lemmas for the ensemble model (`adjust_tasks` over insight histories).
-/
import Kopf.Model.C19_Ensemble
namespace Kopf.C19.Ens

theorem mem_keys {e : Ensemble} {k : Key} : k ∈ e.keys ↔ ∃ i, (k, i) ∈ e.watchers := by
  unfold Ensemble.keys
  constructor
  · intro h
    obtain ⟨t, ht, rfl⟩ := List.mem_map.mp h
    exact ⟨t.2, ht⟩
  · rintro ⟨i, hi⟩
    exact List.mem_map.mpr ⟨(k, i), hi, rfl⟩

theorem terminate_watchers {e : Ensemble} {ins : Insights} {t : Key × Nat} :
    t ∈ (terminate e ins).watchers ↔ t ∈ e.watchers ∧ remaining ins t.1 = true ∧ t.2 ∉ e.dead := by
  simp [terminate, List.mem_filter]

theorem terminate_keys {e : Ensemble} {ins : Insights} {k : Key} :
    k ∈ (terminate e ins).keys ↔ Live e k ∧ remaining ins k = true := by
  rw [mem_keys]
  unfold Live
  constructor
  · rintro ⟨i, hi⟩
    have := terminate_watchers.mp hi
    exact ⟨⟨i, this.1, this.2.2⟩, this.2.1⟩
  · rintro ⟨⟨i, hi, hd⟩, hr⟩
    exact ⟨i, terminate_watchers.mpr ⟨hi, hr, hd⟩⟩

theorem live_mem_keys {e : Ensemble} {k : Key} (h : Live e k) : k ∈ e.keys := by
  obtain ⟨i, hi, _⟩ := h
  exact mem_keys.mpr ⟨i, hi⟩

theorem spawnOne_pos {e : Ensemble} {p : Res × Ns} (h : dkey p.1 p.2 ∈ e.keys) : spawnOne e p = e := by
  simp [spawnOne, h]

theorem spawnOne_neg {e : Ensemble} {p : Res × Ns} (h : dkey p.1 p.2 ∉ e.keys) :
    spawnOne e p = { e with watchers := e.watchers ++ [(dkey p.1 p.2, e.next)], next := e.next + 1 } := by
  simp [spawnOne, h]

theorem spawnOne_watchers {e : Ensemble} {p : Res × Ns} {t : Key × Nat} :
    t ∈ (spawnOne e p).watchers ↔
      t ∈ e.watchers ∨ (dkey p.1 p.2 ∉ e.keys ∧ t = (dkey p.1 p.2, e.next)) := by
  by_cases h' : dkey p.1 p.2 ∈ e.keys
  · simp [spawnOne_pos h', h']
  · simp [spawnOne_neg h', h', List.mem_append]

theorem spawnOne_keys {e : Ensemble} {p : Res × Ns} {k : Key} :
    k ∈ (spawnOne e p).keys ↔ k ∈ e.keys ∨ k = dkey p.1 p.2 := by
  rw [mem_keys]
  constructor
  · rintro ⟨i, hi⟩
    rcases spawnOne_watchers.mp hi with h | ⟨_, h⟩
    · exact Or.inl (mem_keys.mpr ⟨i, h⟩)
    · exact Or.inr (by cases h; rfl)
  · rintro (h | h)
    · obtain ⟨i, hi⟩ := mem_keys.mp h
      exact ⟨i, spawnOne_watchers.mpr (Or.inl hi)⟩
    · by_cases hk : dkey p.1 p.2 ∈ e.keys
      · obtain ⟨i, hi⟩ := mem_keys.mp hk
        exact ⟨i, spawnOne_watchers.mpr (Or.inl (h ▸ hi))⟩
      · exact ⟨e.next, spawnOne_watchers.mpr (Or.inr ⟨hk, by rw [h]⟩)⟩

theorem spawnOne_next_le (e : Ensemble) (p : Res × Ns) : e.next ≤ (spawnOne e p).next := by
  by_cases h' : dkey p.1 p.2 ∈ e.keys
  · simp [spawnOne_pos h']
  · simp [spawnOne_neg h']

theorem spawn_keys {ps : List (Res × Ns)} {e : Ensemble} {k : Key} :
    k ∈ (spawn e ps).keys ↔ k ∈ e.keys ∨ ∃ p ∈ ps, k = dkey p.1 p.2 := by
  unfold spawn
  induction ps generalizing e with
  | nil => simp
  | cons p ps ih =>
      rw [List.foldl_cons, ih, spawnOne_keys]
      constructor
      · rintro ((h | h) | ⟨q, hq, h⟩)
        · exact Or.inl h
        · exact Or.inr ⟨p, List.mem_cons_self, h⟩
        · exact Or.inr ⟨q, List.mem_cons_of_mem _ hq, h⟩
      · rintro (h | ⟨q, hq, h⟩)
        · exact Or.inl (Or.inl h)
        · rcases List.mem_cons.mp hq with rfl | hq
          · exact Or.inl (Or.inr h)
          · exact Or.inr ⟨q, hq, h⟩

theorem spawn_next_le {ps : List (Res × Ns)} {e : Ensemble} : e.next ≤ (spawn e ps).next := by
  unfold spawn
  induction ps generalizing e with
  | nil => simp
  | cons p ps ih =>
      rw [List.foldl_cons]
      exact Nat.le_trans (spawnOne_next_le e p) ih

/-- a spawn keeps every existing task and gives new ones numbers from `next` on -/
theorem spawn_watchers {ps : List (Res × Ns)} {e : Ensemble} :
    (∀ t ∈ e.watchers, t ∈ (spawn e ps).watchers) ∧
    (∀ t ∈ (spawn e ps).watchers, t ∈ e.watchers ∨ e.next ≤ t.2) := by
  unfold spawn
  induction ps generalizing e with
  | nil => exact ⟨fun t ht => ht, fun t ht => Or.inl ht⟩
  | cons p ps ih =>
      rw [List.foldl_cons]
      obtain ⟨ih1, ih2⟩ := @ih (spawnOne e p)
      constructor
      · intro t ht
        exact ih1 t (spawnOne_watchers.mpr (Or.inl ht))
      · intro t ht
        rcases ih2 t ht with h | h
        · rcases spawnOne_watchers.mp h with h | ⟨_, h⟩
          · exact Or.inl h
          · right; rw [h]; exact Nat.le_refl _
        · right; exact Nat.le_trans (spawnOne_next_le e p) h

theorem pairs_mem {ins : Insights} {p : Res × Ns} :
    p ∈ pairs ins ↔ p.1 ∈ ins.watched ∧ p.2 ∈ ins.namespaces := by
  unfold pairs
  simp only [List.mem_flatMap, List.mem_map]
  constructor
  · rintro ⟨r, hr, n, hn, rfl⟩
    exact ⟨hr, hn⟩
  · rintro ⟨hr, hn⟩
    exact ⟨p.1, hr, p.2, hn, rfl⟩

theorem target_iff {ins : Insights} {k : Key} :
    Target ins k ↔ ∃ p ∈ pairs ins, k = dkey p.1 p.2 := by
  unfold Target
  constructor
  · rintro ⟨r, hr, n, hn, h⟩
    exact ⟨(r, n), pairs_mem.mpr ⟨hr, hn⟩, h⟩
  · rintro ⟨p, hp, h⟩
    obtain ⟨hr, hn⟩ := pairs_mem.mp hp
    exact ⟨p.1, hr, p.2, hn, h⟩

theorem remaining_iff {ins : Insights} {k : Key} :
    remaining ins k = true ↔ (k.2 ∈ ins.namespaces ∨ k.2 = none) ∧ ∃ r ∈ ins.watched, r.name = k.1 := by
  simp [remaining, List.any_eq_true]

/-! ### no duplicates -/

def IdsBelow (e : Ensemble) : Prop := ∀ t ∈ e.watchers, t.2 < e.next

theorem spawnOne_nodup {e : Ensemble} (h : e.keys.Nodup) (p : Res × Ns) : (spawnOne e p).keys.Nodup := by
  by_cases h' : dkey p.1 p.2 ∈ e.keys
  · rw [spawnOne_pos h']; exact h
  · rw [spawnOne_neg h']
    simp only [Ensemble.keys, List.map_append, List.map_cons, List.map_nil]
    rw [List.nodup_append]
    refine ⟨h, by simp, ?_⟩
    intro a ha b hb
    simp at hb
    subst hb
    intro heq
    subst heq
    exact h' ha

theorem spawn_nodup {ps : List (Res × Ns)} {e : Ensemble} (h : e.keys.Nodup) : (spawn e ps).keys.Nodup := by
  unfold spawn
  induction ps generalizing e with
  | nil => exact h
  | cons p ps ih =>
      rw [List.foldl_cons]
      exact ih (spawnOne_nodup h p)

theorem terminate_nodup {e : Ensemble} (h : e.keys.Nodup) (ins : Insights) : (terminate e ins).keys.Nodup := by
  unfold terminate Ensemble.keys at *
  simp only
  exact (List.filter_sublist.map _).nodup h

theorem kill_watchers (e : Ensemble) (k : Key) : (kill e k).watchers = e.watchers := by
  unfold kill; split <;> rfl

theorem kill_keys (e : Ensemble) (k : Key) : (kill e k).keys = e.keys := by
  unfold Ensemble.keys; rw [kill_watchers]

theorem kill_next (e : Ensemble) (k : Key) : (kill e k).next = e.next := by
  unfold kill; split <;> rfl

theorem adjust_nodup {e : Ensemble} (h : e.keys.Nodup) (ins : Insights) : (adjust e ins).keys.Nodup :=
  spawn_nodup (terminate_nodup h ins)

theorem runHist_nodup {hist : List Insights} {e : Ensemble} (h : e.keys.Nodup) : (runHist e hist).keys.Nodup := by
  induction hist generalizing e with
  | nil => exact h
  | cons ins rest ih => exact ih (adjust_nodup h ins)

theorem runHist_append (e : Ensemble) (pre : List Insights) (last : Insights) :
    runHist e (pre ++ [last]) = adjust (runHist e pre) last := by
  induction pre generalizing e with
  | nil => rfl
  | cons x xs ih => exact ih (adjust e x)

/-- one step, as sets of keys -/
theorem adjust_keys_iff {e : Ensemble} {ins : Insights} {k : Key} :
    k ∈ (adjust e ins).keys ↔ (Live e k ∧ remaining ins k = true) ∨ Target ins k := by
  unfold adjust
  rw [spawn_keys, terminate_keys, target_iff]

theorem runEvs_append (e : Ensemble) (pre : List Ev) (last : Insights) :
    runEvs e (pre ++ [.pass last]) = adjust (runEvs e pre) last := by
  induction pre generalizing e with
  | nil => rfl
  | cons x xs ih => cases x <;> exact ih _

theorem runEvs_nodup {evs : List Ev} {e : Ensemble} (h : e.keys.Nodup) : (runEvs e evs).keys.Nodup := by
  induction evs generalizing e with
  | nil => exact h
  | cons x xs ih =>
      cases x with
      | pass ins => exact ih (adjust_nodup h ins)
      | die k => exact ih (by rw [kill_keys]; exact h)

/-- every key ever present was the target of some earlier insight revision -/
theorem origin {evs : List Ev} {e : Ensemble} {hist0 : List Insights}
    (he : ∀ k ∈ e.keys, ∃ ins ∈ hist0, Target ins k) :
    ∀ k ∈ (runEvs e evs).keys, ∃ ins ∈ hist0 ++ evs.flatMap Ev.insights, Target ins k := by
  induction evs generalizing e hist0 with
  | nil => simpa [runEvs] using he
  | cons x xs ih =>
      cases x with
      | pass x =>
          intro k hk
          have := @ih (adjust e x) (hist0 ++ [x]) (by
            intro k hk
            rcases adjust_keys_iff.mp hk with ⟨h, _⟩ | h
            · obtain ⟨ins, hi, ht⟩ := he k (live_mem_keys h)
              exact ⟨ins, List.mem_append_left _ hi, ht⟩
            · exact ⟨x, by simp, h⟩) k hk
          simpa [Ev.insights, List.flatMap_cons] using this
      | die d =>
          intro k hk
          have := @ih (kill e d) hist0 (by rw [kill_keys]; exact he) k hk
          simpa [Ev.insights, List.flatMap_cons] using this

theorem runHist_eq_runEvs (e : Ensemble) (h : List Insights) : runHist e h = runEvs e (h.map Ev.pass) := by
  induction h generalizing e with
  | nil => rfl
  | cons x xs ih => exact ih _

theorem flatMap_insights_map_pass (h : List Insights) : (h.map Ev.pass).flatMap Ev.insights = h := by
  induction h with
  | nil => rfl
  | cons x xs ih => simp [List.flatMap_cons, Ev.insights, ih]

/-! ### live tasks -/

/-- spawn numbers in use, and the numbers of dead tasks, are below `next` -/
def Below (e : Ensemble) : Prop := (∀ t ∈ e.watchers, t.2 < e.next) ∧ (∀ d ∈ e.dead, d < e.next)

theorem below_empty : Below Ens.empty := by simp [Below, Ens.empty]

theorem below_kill {e : Ensemble} (h : Below e) (k : Key) : Below (kill e k) := by
  unfold kill
  split
  · rename_i t ht
    have hm := List.mem_of_find?_eq_some ht
    refine ⟨h.1, ?_⟩
    intro d hd
    rcases List.mem_cons.mp hd with rfl | hd
    · exact h.1 t hm
    · exact h.2 d hd
  · exact h

theorem below_terminate {e : Ensemble} (h : Below e) (ins : Insights) : Below (terminate e ins) :=
  ⟨fun t ht => h.1 t (terminate_watchers.mp ht).1, h.2⟩

theorem below_spawnOne {e : Ensemble} (h : Below e) (p : Res × Ns) : Below (spawnOne e p) := by
  by_cases h' : dkey p.1 p.2 ∈ e.keys
  · rw [spawnOne_pos h']; exact h
  · rw [spawnOne_neg h']
    refine ⟨?_, ?_⟩
    · intro t ht
      rcases List.mem_append.mp ht with ht | ht
      · exact Nat.lt_succ_of_lt (h.1 t ht)
      · simp at ht; subst ht; exact Nat.lt_succ_self _
    · intro d hd; exact Nat.lt_succ_of_lt (h.2 d hd)

theorem below_spawn {ps : List (Res × Ns)} {e : Ensemble} (h : Below e) : Below (spawn e ps) := by
  unfold spawn
  induction ps generalizing e with
  | nil => exact h
  | cons p ps ih => rw [List.foldl_cons]; exact ih (below_spawnOne h p)

theorem below_adjust {e : Ensemble} (h : Below e) (ins : Insights) : Below (adjust e ins) :=
  below_spawn (below_terminate h ins)

theorem below_runEvs {evs : List Ev} {e : Ensemble} (h : Below e) : Below (runEvs e evs) := by
  induction evs generalizing e with
  | nil => exact h
  | cons x xs ih =>
      cases x with
      | pass ins => exact ih (below_adjust h ins)
      | die k => exact ih (below_kill h k)

theorem spawnOne_dead (e : Ensemble) (p : Res × Ns) : (spawnOne e p).dead = e.dead := by
  by_cases h' : dkey p.1 p.2 ∈ e.keys
  · rw [spawnOne_pos h']
  · rw [spawnOne_neg h']

theorem spawn_dead {ps : List (Res × Ns)} {e : Ensemble} : (spawn e ps).dead = e.dead := by
  unfold spawn
  induction ps generalizing e with
  | nil => rfl
  | cons p ps ih => rw [List.foldl_cons, ih, spawnOne_dead]

/-- right after a pass every task in the ensemble is running -/
theorem adjust_all_live {e : Ensemble} (h : Below e) (ins : Insights) :
    ∀ t ∈ (adjust e ins).watchers, t.2 ∉ (adjust e ins).dead := by
  intro t ht
  unfold adjust at ht ⊢
  rw [spawn_dead]
  have hd : (terminate e ins).dead = e.dead := rfl
  rw [hd]
  rcases (@spawn_watchers (pairs ins) (terminate e ins)).2 t ht with h1 | h1
  · exact (terminate_watchers.mp h1).2.2
  · intro hmem
    have := h.2 t.2 hmem
    have hn : (terminate e ins).next = e.next := rfl
    omega

end Kopf.C19.Ens
