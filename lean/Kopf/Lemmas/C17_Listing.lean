/-
  C17 — helper lemmas for the LISTED producer (`Kopf.Model.C17_Listing`): the invariant `Inv` holds
  initially and is kept by every enabled step of the faithful variant.
-/
import Kopf.Model.C17_Listing
namespace Kopf.C17.Listing

theorem inv_init : Inv LState.init := by
  refine ⟨?_, ?_, ?_, rfl⟩
  · intro o ho; cases ho
  · intro k hk; cases hk
  · intro h; cases h

theorem mem_snoc {α : Type} {x a : α} {l : List α} (h : x ∈ l ++ [a]) : x ∈ l ∨ x = a := by
  rcases List.mem_append.mp h with h | h
  · exact Or.inl h
  · exact Or.inr (by simpa using h)

theorem inv_step {s s' : LState} {l : Label} (hi : Inv s) (h : step .none s l = some s') : Inv s' := by
  obtain ⟨ho, hy, hl, hp⟩ := hi
  cases l with
  | pause => simp only [step, Option.some.injEq] at h; subst h; exact ⟨ho, hy, hl, hp⟩
  | unpause => simp only [step, Option.some.injEq] at h; subst h; exact ⟨ho, hy, hl, hp⟩
  | begin =>
    simp only [step] at h
    split at h
    · rename_i hg
      simp only [Option.some.injEq] at h; subst h
      refine ⟨ho, ?_, fun _ => rfl, ?_⟩
      · intro k hk; cases hk
      · rcases hg.2 with hpz | hb
        · simp only [hp, hpz, Bool.or_self]
        · cases hb
    · cases h
  | answer n =>
    simp only [step] at h
    split at h
    · rename_i hg
      simp only [Option.some.injEq] at h; subst h
      refine ⟨ho, ?_, ?_, hp⟩
      · intro k hk
        simp only [Phase.yielding.injEq] at hk
        subst hk
        simp only [hl hg, Nat.zero_add]
      · intro hk; cases hk
    · cases h
  | fail =>
    simp only [step] at h
    split at h
    · simp only [Option.some.injEq] at h; subst h
      refine ⟨ho, ?_, ?_, hp⟩
      · intro k hk; cases hk
      · intro hk; cases hk
    · cases h
  | abandon =>
    simp only [step] at h
    split at h
    · split at h
      · rename_i hb; cases hb
      · simp only [Option.some.injEq] at h; subst h
        refine ⟨ho, ?_, ?_, hp⟩
        · intro k hk; cases hk
        · intro hk; cases hk
    · cases h
  | yieldItem =>
    simp only [step] at h
    split at h
    · rename_i k hk
      simp only [Option.some.injEq] at h; subst h
      refine ⟨?_, ?_, ?_, hp⟩
      · intro o hm
        rcases mem_snoc hm with hm | hm
        · exact ho o hm
        · subst hm; trivial
      · intro k' hk'
        simp only [Phase.yielding.injEq] at hk'
        subst hk'
        show s.answered = some (s.yielded + 1 + k)
        rw [hy _ hk]
        congr 1
        omega
      · intro hk'; cases hk'
    · cases h
  | yieldListed =>
    simp only [step] at h
    split at h
    · rename_i k hk
      split at h
      · rename_i hg
        simp only [Option.some.injEq] at h; subst h
        refine ⟨?_, ?_, ?_, hp⟩
        · intro o hm
          rcases mem_snoc hm with hm | hm
          · exact ho o hm
          · subst hm
            rcases hg with hz | hb
            · subst hz
              show s.answered = some s.yielded
              simpa using hy _ hk
            · cases hb
        · intro k' hk'; cases hk'
        · intro hk'; cases hk'
      · cases h
    · cases h
  | event =>
    simp only [step] at h
    split at h
    · rename_i hg
      simp only [Option.some.injEq] at h; subst h
      refine ⟨?_, ?_, ?_, hp⟩
      · intro o hm
        rcases mem_snoc hm with hm | hm
        · exact ho o hm
        · subst hm; trivial
      · intro k hk; exact hy k hk
      · intro hk; exact hl hk
    · cases h
  | endWatch =>
    simp only [step] at h
    split at h
    · simp only [Option.some.injEq] at h; subst h
      refine ⟨ho, ?_, ?_, hp⟩
      · intro k hk; cases hk
      · intro hk; cases hk
    · cases h

theorem inv_run {ls : List Label} : ∀ {s s' : LState}, Inv s → run .none s ls = some s' → Inv s' := by
  induction ls with
  | nil => intro s s' hi h; simp only [run, Option.some.injEq] at h; subst h; exact hi
  | cons l ls ih =>
    intro s s' hi h
    simp only [run] at h
    split at h
    · rename_i s1 h1
      exact ih (inv_step hi h1) h
    · cases h

end Kopf.C17.Listing
