/-
  One id registered for several causes (/repo f7d6401): the whole pass `cycleB` is `cycle` over the records it
  takes over (`taken`), and what follows from that for the records a pass reads.
-/
import Kopf.Lemmas.C02_Cycle
import Kopf.Lemmas.C02_Sub
namespace Kopf.C02

theorem cycle_eq_cycleFrom (cfg : Cfg) (P : Store) (now now1 : Tick) (exec : Id → Nat → Outcome)
    (hr : handlerReasons.contains cfg.reason = true) :
    cycle cfg P now now1 exec = cycleFrom cfg (fromStorage P cfg.owned) P now now1 exec := by
  unfold cycle cycleFrom
  simp only [hr, Bool.not_true, Bool.false_eq_true, if_false]

theorem leftOut_iff {cfg : Cfg} {bound : Id → Bool} {P : Store} {i : Id} :
    leftOut cfg bound P i = true ↔
      handlerReasons.contains cfg.reason = true ∧ i ∈ cfg.owned ∧ i ∈ cfg.selected ∧ bound i = true ∧
        ∃ r, P i = some r ∧ r.foreignTo cfg.reason = true := by
  unfold leftOut
  simp only [Bool.and_eq_true, decide_eq_true_eq]
  constructor
  · rintro ⟨⟨⟨⟨h1, h2⟩, h3⟩, h4⟩, h5⟩
    refine ⟨h1, h2, h3, h4, ?_⟩
    cases hP : P i with
    | none => rw [hP] at h5; cases h5
    | some r => rw [hP] at h5; exact ⟨r, rfl, h5⟩
  · rintro ⟨h1, h2, h3, h4, r, hP, hf⟩
    refine ⟨⟨⟨⟨h1, h2⟩, h3⟩, h4⟩, ?_⟩
    rw [hP]; exact hf

theorem taken_of_leftOut {cfg : Cfg} {bound : Id → Bool} {P : Store} {i : Id} (h : leftOut cfg bound P i = true) :
    taken cfg bound P i = none := by
  unfold taken; rw [if_pos h]

theorem taken_of_not_leftOut {cfg : Cfg} {bound : Id → Bool} {P : Store} {i : Id}
    (h : leftOut cfg bound P i = false) : taken cfg bound P i = P i := by
  unfold taken; rw [h]; rfl

/-- leaving the namesakes out of the loaded state = loading the records without the namesakes' -/
theorem fromStorage_taken (cfg : Cfg) (bound : Id → Bool) (P : Store)
    (hr : handlerReasons.contains cfg.reason = true) :
    fromStorage (taken cfg bound P) cfg.owned = dropNamesakes cfg bound (fromStorage P cfg.owned) := by
  funext i
  cases hl : leftOut cfg bound P i
  · rw [show fromStorage (taken cfg bound P) cfg.owned i = fromStorage P cfg.owned i by
      unfold fromStorage; rw [taken_of_not_leftOut hl]]
    unfold dropNamesakes
    have : isNamesake cfg bound (fromStorage P cfg.owned) i = false := by
      cases hn : isNamesake cfg bound (fromStorage P cfg.owned) i
      · rfl
      · exfalso
        unfold isNamesake fromStorage at hn
        simp only [Bool.and_eq_true, decide_eq_true_eq] at hn
        obtain ⟨⟨hs, hb⟩, hf⟩ := hn
        by_cases ho : i ∈ cfg.owned
        · cases hP : P i with
          | none => simp [ho, hP] at hf
          | some r =>
            simp only [ho, if_true, hP, Option.map_some] at hf
            have := leftOut_iff.2 ⟨hr, ho, hs, hb, r, hP, hf⟩
            rw [hl] at this; cases this
        · simp [ho] at hf
    rw [this]; rfl
  · obtain ⟨_, ho, hs, hb, r, hP, hf⟩ := leftOut_iff.1 hl
    unfold dropNamesakes isNamesake fromStorage
    rw [taken_of_leftOut hl]
    simp [ho, hs, hb, hP, hf]

/-- a state that is dirty before the execution is dirty after it -/
theorem execOnce_keeps_dirty {cfg : Cfg} {st : St} {now now1 : Tick} {exec : Id → Nat → Outcome} {i : Id} {h0 : HS}
    (hs : st i = some h0) (hd : h0.dirty = true) :
    ∃ h, (execOnce cfg st now now1 exec).st i = some h ∧ h.dirty = true := by
  simp only [execOnce]
  split
  · simp only [hs]; exact ⟨_, rfl, rfl⟩
  · exact ⟨h0, hs, hd⟩

/-- a selected handler without a loaded state enters the execution with a fresh, dirty state -/
theorem pre_fresh_dirty {cfg : Cfg} {stS : St} {now : Tick} {i : Id} (hs : i ∈ cfg.selected) (hn : stS i = none) :
    ∃ h0, (if hasExtras (withHandlers stS cfg.selected cfg.reason now) (known cfg) cfg.reason
           then repurpose (withHandlers stS cfg.selected cfg.reason now) cfg.selected cfg.reason
           else withHandlers stS cfg.selected cfg.reason now) i = some h0 ∧ h0.dirty = true := by
  split
  · simp [repurpose, withHandlers, hs, hn]
  · simp [withHandlers, hs, hn]

/-- What the object carried matters to `cycleFrom` only where the pass writes nothing: at the ids of selected
    handlers WITHOUT a loaded state the fresh state is written whatever was there. -/
theorem cycleFrom_store_irrel (cfg : Cfg) (stS : St) (P Q : Store) (now now1 : Tick) (exec : Id → Nat → Outcome)
    (h : ∀ i, P i = Q i ∨ (i ∈ cfg.selected ∧ stS i = none)) :
    cycleFrom cfg stS P now now1 exec = cycleFrom cfg stS Q now now1 exec := by
  by_cases he : cfg.selected.isEmpty = true
  · have hPQ : P = Q := by
      funext i
      rcases h i with h1 | ⟨hs, _⟩
      · exact h1
      · exfalso
        cases hl : cfg.selected with
        | nil => rw [hl] at hs; cases hs
        | cons a as => rw [hl] at he; cases he
    rw [hPQ]
  · have he' : cfg.selected.isEmpty = false := by simpa using he
    unfold cycleFrom
    simp only [he', Bool.false_eq_true, if_false]
    have key : ∀ (st1 : St), (∀ i, i ∈ cfg.selected → stS i = none → ∃ h0, st1 i = some h0 ∧ h0.dirty = true) →
        ∀ (X : Bool),
        store (if X then purgeFallen P st1 (known cfg) cfg.reason else P) (execOnce cfg st1 now now1 exec).st =
        store (if X then purgeFallen Q st1 (known cfg) cfg.reason else Q) (execOnce cfg st1 now now1 exec).st := by
      intro st1 hst1 X
      funext i
      rcases h i with h1 | ⟨hs, hn⟩
      · unfold store
        cases X <;> simp only [Bool.false_eq_true, if_false, if_true, purgeFallen, h1]
      · obtain ⟨h0, hp0, hd0⟩ := hst1 i hs hn
        obtain ⟨h', hp', hd'⟩ := execOnce_keeps_dirty (cfg := cfg) (now := now) (now1 := now1) (exec := exec) hp0 hd0
        unfold store
        simp [hp', hd']
    have hst1 := fun i (hs : i ∈ cfg.selected) (hn : stS i = none) => pre_fresh_dirty (cfg := cfg) (now := now) hs hn
    rw [key _ hst1]

theorem not_free_of_handler {r : String} (h : handlerReasons.contains r = true) : (r == "free") = false := by
  cases hf : (r == "free")
  · rfl
  · exfalso
    have : r = "free" := by simpa using hf
    subst this
    exact absurd h (by decide)

/-- THE BRIDGE: the whole pass is the pass over the records it takes over — for every cause but FREE. -/
theorem cycleB_eq_cycle_taken (cfg : Cfg) (bound : Id → Bool) (P : Store) (now now1 : Tick)
    (exec : Id → Nat → Outcome) (hnf : (cfg.reason == "free") = false) :
    cycleB cfg bound P now now1 exec = cycle cfg (taken cfg bound P) now now1 exec := by
  by_cases hr : handlerReasons.contains cfg.reason = true
  · unfold cycleB
    simp only [hnf, hr, Bool.not_true, Bool.false_eq_true, if_false]
    rw [cycle_eq_cycleFrom cfg _ now now1 exec hr, fromStorage_taken cfg bound P hr]
    apply cycleFrom_store_irrel
    intro i
    cases hl : leftOut cfg bound P i
    · exact Or.inl (taken_of_not_leftOut hl).symm
    · right
      obtain ⟨_, ho, hs, hb, r, hP, hf⟩ := leftOut_iff.1 hl
      refine ⟨hs, ?_⟩
      unfold dropNamesakes isNamesake fromStorage
      simp [ho, hs, hb, hP, hf]
  · have hr' : handlerReasons.contains cfg.reason = false := by simpa using hr
    have : taken cfg bound P = P := by
      funext i
      apply taken_of_not_leftOut
      unfold leftOut; rw [hr']; rfl
    unfold cycleB
    simp only [hnf, hr', Bool.not_false, Bool.false_eq_true, if_false, if_true, this]

theorem cycleB_eq_cycle_taken_of_handler (cfg : Cfg) (bound : Id → Bool) (P : Store) (now now1 : Tick)
    (exec : Id → Nat → Outcome) (hr : handlerReasons.contains cfg.reason = true) :
    cycleB cfg bound P now now1 exec = cycle cfg (taken cfg bound P) now now1 exec :=
  cycleB_eq_cycle_taken cfg bound P now now1 exec (not_free_of_handler hr)

/-- the FREE pass (40d09eb): nothing invoked, nothing closed, the leftovers purged -/
theorem cycleB_free (cfg : Cfg) (bound : Id → Bool) (P : Store) (now now1 : Tick) (exec : Id → Nat → Outcome)
    (hf : (cfg.reason == "free") = true) :
    cycleB cfg bound P now now1 exec =
      { invoked := [], P' := purge P (fromStorage P cfg.owned) cfg.owned cfg.owned, closed := false, delays := [] } := by
  unfold cycleB
  simp only [hf, if_true]

/-- whatever the cause: what the whole pass invokes, whether it closes the cycle and its delays are those of the pass over
    the records taken over (only the records of the FREE pass differ: its purge) -/
theorem cycleB_invoked_closed (cfg : Cfg) (bound : Id → Bool) (P : Store) (now now1 : Tick)
    (exec : Id → Nat → Outcome) :
    (cycleB cfg bound P now now1 exec).invoked = (cycle cfg (taken cfg bound P) now now1 exec).invoked ∧
    (cycleB cfg bound P now now1 exec).closed = (cycle cfg (taken cfg bound P) now now1 exec).closed ∧
    (cycleB cfg bound P now now1 exec).delays = (cycle cfg (taken cfg bound P) now now1 exec).delays := by
  cases hf : (cfg.reason == "free")
  · rw [cycleB_eq_cycle_taken cfg bound P now now1 exec hf]; exact ⟨rfl, rfl, rfl⟩
  · have hfree : cfg.reason = "free" := by simpa using hf
    have hr : handlerReasons.contains cfg.reason = false := by rw [hfree]; decide
    rw [cycleB_free cfg bound P now now1 exec hf, cycle_not_handler_reason cfg _ now now1 exec hr]
    exact ⟨rfl, rfl, rfl⟩

/-! ### the records taken over -/

theorem taken_info (cfg : Cfg) (bound : Id → Bool) (P : Store)
    (hr : handlerReasons.contains cfg.reason = false) : taken cfg bound P = P := by
  funext i
  apply taken_of_not_leftOut
  unfold leftOut; rw [hr]; rfl

theorem taken_some {cfg : Cfg} {bound : Id → Bool} {P : Store} {i : Id} {r : Rec}
    (h : taken cfg bound P i = some r) : P i = some r := by
  cases hl : leftOut cfg bound P i
  · rw [taken_of_not_leftOut hl] at h; exact h
  · rw [taken_of_leftOut hl] at h; cases h

theorem taken_unselected {cfg : Cfg} {bound : Id → Bool} {P : Store} {i : Id} (hs : i ∉ cfg.selected) :
    taken cfg bound P i = P i := by
  apply taken_of_not_leftOut
  cases hl : leftOut cfg bound P i
  · rfl
  · exact absurd (leftOut_iff.1 hl).2.2.1 hs

theorem taken_none {cfg : Cfg} {bound : Id → Bool} {P : Store} {i : Id} (h : P i = none) :
    taken cfg bound P i = none := by
  cases hl : leftOut cfg bound P i
  · rw [taken_of_not_leftOut hl]; exact h
  · exact taken_of_leftOut hl

/-- a record that is the handler's own (no purpose, or the purpose of this cause), or the record of a handler without
    a reason of its own, is taken over -/
theorem taken_own {cfg : Cfg} {bound : Id → Bool} {P : Store} {i : Id} {r : Rec} (hP : P i = some r)
    (h : bound i = false ∨ r.purpose = none ∨ r.purpose = some cfg.reason) : taken cfg bound P i = some r := by
  rw [← hP]
  apply taken_of_not_leftOut
  cases hl : leftOut cfg bound P i
  · rfl
  · exfalso
    obtain ⟨_, _, _, hb, r', hP', hf⟩ := leftOut_iff.1 hl
    rw [hP] at hP'; cases hP'
    rcases h with h | h | h
    · rw [h] at hb; cases hb
    · simp [Rec.foreignTo, h] at hf
    · simp [Rec.foreignTo, h] at hf

/-- what is NOT taken over: the record of a selected, reason-bound handler that carries another cause's purpose -/
theorem taken_namesake {cfg : Cfg} {bound : Id → Bool} {P : Store} {i : Id} {r : Rec}
    (hr : handlerReasons.contains cfg.reason = true) (ho : i ∈ cfg.owned) (hs : i ∈ cfg.selected)
    (hb : bound i = true) (hP : P i = some r) (hf : r.foreignTo cfg.reason = true) :
    taken cfg bound P i = none :=
  taken_of_leftOut (leftOut_iff.2 ⟨hr, ho, hs, hb, r, hP, hf⟩)

/-- with no record of another cause's purpose nothing is left out … -/
theorem taken_of_noExtras {cfg : Cfg} {bound : Id → Bool} {P : Store} (hne : NoExtras cfg P) :
    taken cfg bound P = P := by
  funext i
  apply taken_of_not_leftOut
  cases hl : leftOut cfg bound P i
  · rfl
  · exfalso
    obtain ⟨_, ho, _, _, r, hP, hf⟩ := leftOut_iff.1 hl
    rcases hne i ho r hP with h | h <;> simp [Rec.foreignTo, h] at hf

/-- … and with no reason-bound handler selected neither: `cycle` IS the whole pass for such a registry. -/
theorem taken_unbound {cfg : Cfg} {bound : Id → Bool} {P : Store} (h : ∀ i ∈ cfg.selected, bound i = false) :
    taken cfg bound P = P := by
  funext i
  apply taken_of_not_leftOut
  cases hl : leftOut cfg bound P i
  · rfl
  · exfalso
    obtain ⟨_, _, hs, hb, _⟩ := leftOut_iff.1 hl
    rw [h i hs] at hb; cases hb

theorem cycleB_unbound (cfg : Cfg) (bound : Id → Bool) (P : Store) (now now1 : Tick) (exec : Id → Nat → Outcome)
    (hnf : (cfg.reason == "free") = false)
    (h : ∀ i ∈ cfg.selected, bound i = false) : cycleB cfg bound P now now1 exec = cycle cfg P now now1 exec := by
  rw [cycleB_eq_cycle_taken cfg bound P now now1 exec hnf, taken_unbound h]

theorem cycleB_of_noExtras (cfg : Cfg) (bound : Id → Bool) (P : Store) (now now1 : Tick) (exec : Id → Nat → Outcome)
    (hnf : (cfg.reason == "free") = false)
    (hne : NoExtras cfg P) : cycleB cfg bound P now now1 exec = cycle cfg P now now1 exec := by
  rw [cycleB_eq_cycle_taken cfg bound P now now1 exec hnf, taken_of_noExtras hne]

/-- whether a record is taken over depends on that record alone -/
theorem taken_congr_at {cfg : Cfg} {bound : Id → Bool} {P Q : Store} {i : Id} (h : P i = Q i) :
    taken cfg bound P i = taken cfg bound Q i := by
  unfold taken leftOut
  rw [h]

theorem taken_uniform {cfg : Cfg} {bound : Id → Bool} {P : Store} (hu : UniformOn cfg.owned P) :
    UniformOn cfg.owned (taken cfg bound P) := by
  obtain ⟨p, hp⟩ := hu
  exact ⟨p, fun i ho r h => hp i ho r (taken_some h)⟩

/-! ### the other shapes of the pass -/

theorem cycleFinalsB_eq (cfg : Cfg) (bound : Id → Bool) (P : Store) (now : Tick) (exec : Id → Nat → Outcome) :
    cycleFinalsB cfg bound P now exec = cycleFinals cfg (taken cfg bound P) now exec := by
  by_cases hr : handlerReasons.contains cfg.reason = true
  · unfold cycleFinalsB cycleFinals
    rw [fromStorage_taken cfg bound P hr]
  · have hr' : handlerReasons.contains cfg.reason = false := by simpa using hr
    unfold cycleFinalsB cycleFinals
    simp only [hr', Bool.not_false, Bool.true_or, if_true]

/-- a sub-pass reads the records of its own (registered) sub-handlers only -/
theorem subPass_congr (cfg : Cfg) (P Q : Store) (now now1 : Tick) (exec : Id → Nat → Outcome)
    (h : ∀ i ∈ cfg.owned, P i = Q i) :
    (subPass cfg P now now1 exec).st = (subPass cfg Q now now1 exec).st ∧
    (subPass cfg P now now1 exec).invoked = (subPass cfg Q now now1 exec).invoked ∧
    (subPass cfg P now now1 exec).outcome = (subPass cfg Q now now1 exec).outcome := by
  have hfs : fromStorage P cfg.owned = fromStorage Q cfg.owned := by
    funext i
    unfold fromStorage
    by_cases ho : i ∈ cfg.owned
    · simp [ho, h i ho]
    · simp [ho]
  unfold subPass
  simp only [hfs, and_self]

theorem store_congr_at {A B : Store} {st : St} {i : Id}
    (h : A i = B i ∨ ∃ hs, st i = some hs ∧ hs.dirty = true) : store A st i = store B st i := by
  unfold store
  rcases h with h | ⟨hs, h1, h2⟩
  · rw [h]
  · simp [h1, h2]

/-- the children's writes of the sub-passes are pointwise in the base store -/
theorem subWrites_congr_at (cfg : Cfg) (sub : SubReg) (P : Store) (now : Tick) (execLeaf : Id → Nat → Outcome)
    (i : Id) : ∀ (parents : List Id) (A B : Store), A i = B i →
    subWrites cfg sub P now execLeaf parents A i = subWrites cfg sub P now execLeaf parents B i := by
  intro parents
  induction parents with
  | nil => intro A B h; exact h
  | cons p ps ih =>
    intro A B h
    unfold subWrites
    simp only [List.foldl_cons]
    have := ih
      (if (sub.children p).isEmpty then A
       else fun j => if j ∈ sub.children p
         then (store A (subPass (subCfgOf cfg sub p) P now now execLeaf).st) j else A j)
      (if (sub.children p).isEmpty then B
       else fun j => if j ∈ sub.children p
         then (store B (subPass (subCfgOf cfg sub p) P now now execLeaf).st) j else B j)
      (by
        by_cases he : (sub.children p).isEmpty = true
        · simp only [he, if_true]; exact h
        · simp only [he, Bool.false_eq_true, if_false]
          by_cases hc : i ∈ sub.children p
          · simp only [hc, if_true]; exact store_congr_at (Or.inl h)
          · simp only [hc, if_false]; exact h)
    unfold subWrites at this
    exact this

/-- the sub-passes of `cycle2` over the body and over the records taken over coincide, when no registered child is a
    selected top-level handler (children's ids are `parent/child`) -/
theorem execTop_taken (cfg : Cfg) (bound : Id → Bool) (sub : SubReg) (P : Store) (now : Tick)
    (execLeaf : Id → Nat → Outcome) (hdisj : ∀ p, ∀ i ∈ sub.children p, i ∉ cfg.selected) :
    execTop cfg sub (taken cfg bound P) now execLeaf = execTop cfg sub P now execLeaf := by
  funext i n
  unfold execTop
  by_cases he : (sub.children i).isEmpty = true
  · simp [he]
  · simp only [he, Bool.false_eq_true, if_false]
    exact (subPass_congr (subCfgOf cfg sub i) (taken cfg bound P) P now now execLeaf
      (fun c hc => taken_unselected (hdisj i c hc))).2.2

theorem subWrites_taken (cfg : Cfg) (bound : Id → Bool) (sub : SubReg) (P : Store) (now : Tick)
    (execLeaf : Id → Nat → Outcome) (hdisj : ∀ p, ∀ i ∈ sub.children p, i ∉ cfg.selected)
    (parents : List Id) (base : Store) :
    subWrites cfg sub (taken cfg bound P) now execLeaf parents base = subWrites cfg sub P now execLeaf parents base := by
  unfold subWrites
  congr 1
  funext acc p
  by_cases he : (sub.children p).isEmpty = true
  · simp [he]
  · simp only [he, Bool.false_eq_true, if_false]
    rw [(subPass_congr (subCfgOf cfg sub p) (taken cfg bound P) P now now execLeaf
      (fun c hc => taken_unselected (hdisj p c hc))).1]

/-- THE BRIDGE for the pass composed with its sub-passes. -/
theorem cycle2B_eq_cycle2_taken (cfg : Cfg) (bound : Id → Bool) (sub : SubReg) (P : Store) (now : Tick)
    (execLeaf : Id → Nat → Outcome) (hr : handlerReasons.contains cfg.reason = true)
    (hdisj : ∀ p, ∀ i ∈ sub.children p, i ∉ cfg.selected) :
    cycle2B cfg bound sub P now execLeaf = cycle2 cfg sub (taken cfg bound P) now execLeaf := by
  unfold cycle2B cycle2
  rw [fromStorage_taken cfg bound P hr, execTop_taken cfg bound sub P now execLeaf hdisj]
  simp only [subWrites_taken cfg bound sub P now execLeaf hdisj]
  have hinv : ∀ p, (subPass (subCfgOf cfg sub p) (taken cfg bound P) now now execLeaf).invoked =
      (subPass (subCfgOf cfg sub p) P now now execLeaf).invoked := fun p =>
    (subPass_congr (subCfgOf cfg sub p) (taken cfg bound P) P now now execLeaf
      (fun c hc => taken_unselected (hdisj p c hc))).2.1
  simp only [hinv]
  congr 1
  -- the records: pointwise
  generalize hst1 : (if hasExtras (withHandlers (dropNamesakes cfg bound (fromStorage P cfg.owned)) cfg.selected cfg.reason now)
      (known cfg) cfg.reason = true
    then repurpose (withHandlers (dropNamesakes cfg bound (fromStorage P cfg.owned)) cfg.selected cfg.reason now)
      cfg.selected cfg.reason
    else withHandlers (dropNamesakes cfg bound (fromStorage P cfg.owned)) cfg.selected cfg.reason now) = st1
  have hfresh : ∀ i, i ∈ cfg.selected → dropNamesakes cfg bound (fromStorage P cfg.owned) i = none →
      ∃ h0, st1 i = some h0 ∧ h0.dirty = true := by
    intro i hs hn
    rw [← hst1]
    exact pre_fresh_dirty (cfg := cfg) (now := now) hs hn
  have key : ∀ (X : Bool) (parents : List Id),
      store (subWrites cfg sub P now execLeaf parents (if X then purgeFallen P st1 (known cfg) cfg.reason else P))
        (execOnce cfg st1 now now (execTop cfg sub P now execLeaf)).st =
      store (subWrites cfg sub P now execLeaf parents
          (if X then purgeFallen (taken cfg bound P) st1 (known cfg) cfg.reason else taken cfg bound P))
        (execOnce cfg st1 now now (execTop cfg sub P now execLeaf)).st := by
    intro X parents
    funext i
    apply store_congr_at
    cases hl : leftOut cfg bound P i
    · left
      apply subWrites_congr_at
      have := taken_of_not_leftOut hl
      cases X <;> simp only [Bool.false_eq_true, if_false, if_true, purgeFallen, this]
    · right
      obtain ⟨_, ho, hs, hb, r, hP, hf⟩ := leftOut_iff.1 hl
      have hn : dropNamesakes cfg bound (fromStorage P cfg.owned) i = none := by
        unfold dropNamesakes isNamesake fromStorage
        simp [ho, hs, hb, hP, hf]
      obtain ⟨h0, hp0, hd0⟩ := hfresh i hs hn
      exact execOnce_keeps_dirty hp0 hd0
  rw [key]

end Kopf.C02
