/-
  C09 helper lemmas for the micro-step model of `_timer` (the current tree: the after-run idle loop is
  guarded by the stopper; a series that has failed for good is not reset and its "run" may not suspend):
  from every program point the coroutine suspends or returns within a few non-suspending steps.
  The last section is HISTORICAL: the spin set of the unguarded loop (the code before /repo 6ccf081).
-/
import Kopf.Model.C09_Daemons
namespace Kopf.C09

variable (c : TCfg) (e : TEnv) (o : Nat → Outcome)

theorem settles_succ : ∀ (k : Nat) (l : TLoc), settles c e o k l = true → settles c e o (k + 1) l = true
  | 0, l, h => by simp [settles] at h
  | k + 1, l, h => by
    unfold settles at h ⊢
    cases ht : tstep c e o l with
    | susp _ => rfl
    | exit _ => rfl
    | cont l' =>
      rw [ht] at h
      simp only at h ⊢
      exact settles_succ k l' h

theorem settles_le {k k' : Nat} (hk : k ≤ k') (l : TLoc) (h : settles c e o k l = true) :
    settles c e o k' l = true := by
  induction hk with
  | refl => exact h
  | step _ ih => exact settles_succ c e o _ l ih

theorem settles_cont {k : Nat} {l l' : TLoc} (ht : tstep c e o l = .cont l') (h : settles c e o k l' = true) :
    settles c e o (k + 1) l = true := by
  unfold settles; rw [ht]; exact h

theorem settles_susp {l l' : TLoc} (ht : tstep c e o l = .susp l') : settles c e o 1 l = true := by
  unfold settles; rw [ht]

theorem settles_exit {l : TLoc} {b : Bool} (ht : tstep c e o l = .exit b) : settles c e o 1 l = true := by
  unfold settles; rw [ht]

theorem settles_head_stop (l : TLoc) (h : l.pc = .head) (hs : e.stop = true) : settles c e o 1 l = true := by
  apply settles_exit (b := false)
  simp [tstep, h, hs]

/-- a positive sleep with the stopper unset is a real one -/
theorem sleepTo_susp {d : Tick} (hd : 0 < d) (hs : e.stop = false) (l : TLoc) : sleepTo d e l = .susp l := by
  simp [sleepTo, sleepSuspends, hd, hs]

/-- the idle wait before a run, when it has to wait -/
theorem settles_idleHead_wait (l : TLoc) (h : l.pc = .idleHead) {idle : Tick} (hi : c.idle = some idle)
    (hs : e.stop = false) (hlt : e.now - e.idleReset < idle) : settles c e o 1 l = true := by
  apply settles_susp (l' := l)
  have hpos : e.now < e.idleReset + idle := by unfold Tick at *; omega
  simp [tstep, h, hi, hs, hlt, sleepTo, sleepSuspends, hpos]

/-- After the "run" of a series that has failed for good (it did not suspend: `started = now`). -/
theorem settles_after_failed (hg : c.guarded = true) (hidle : ∀ d, c.idle = some d → 0 < d)
    (hint : ∀ v, c.interval = some v → 0 < v) (l : TLoc) (h : l.pc = .post) (hd : l.done = true)
    (hst : l.started = e.now) : settles c e o 4 l = true := by
  cases hs : e.stop with
  | true =>
    -- whatever sleep comes, it returns at once; then the loop head returns
    cases hv : c.interval with
    | some v =>
      apply settles_le c e o (k := 2) (by omega)
      apply settles_cont (l' := { l with pc := .head })
      · cases hsh : c.sharp <;> simp [tstep, h, hd, hv, hsh, sleepTo, sleepSuspends, hs]
      · exact settles_head_stop c e o _ rfl hs
    | none =>
      cases hi : c.idle with
      | none =>
        apply settles_le c e o (k := 1) (by omega)
        apply settles_exit (b := true)
        simp [tstep, h, hd, hv, hi]
      | some idle =>
        apply settles_le c e o (k := 3) (by omega)
        apply settles_cont (l' := { l with pc := .idleLoop })
        · simp [tstep, h, hd, hv, hi]
        · apply settles_cont (l' := { l with pc := .head })
          · simp [tstep, hi, hg, hs]
          · exact settles_head_stop c e o _ rfl hs
  | false =>
    cases hv : c.interval with
    | some v =>
      have hvp := hint v hv
      apply settles_le c e o (k := 1) (by omega)
      apply settles_susp (l' := { l with pc := .head })
      cases hsh : c.sharp with
      | false => simp [tstep, h, hd, hv, hsh, sleepTo_susp e hvp hs]
      | true =>
        have hz : v - (e.now - l.started) % v = v := by
          rw [hst]
          have : e.now - e.now = (0 : Int) := Int.sub_self _
          rw [this]
          simp
        simp [tstep, h, hd, hv, hsh, hz, sleepTo_susp e hvp hs]
    | none =>
      cases hi : c.idle with
      | none =>
        apply settles_le c e o (k := 1) (by omega)
        apply settles_exit (b := true)
        simp [tstep, h, hd, hv, hi]
      | some idle =>
        have hip := hidle idle hi
        apply settles_cont (l' := { l with pc := .idleLoop })
        · simp [tstep, h, hd, hv, hi]
        · by_cases hle : e.idleReset ≤ e.now
          · -- nothing changed since this "run": the guarded loop sleeps for real
            apply settles_le c e o (k := 1) (by omega)
            apply settles_susp (l' := { l with pc := .idleLoop })
            simp [tstep, hi, hg, hs, hst, hle, sleepTo_susp e hip hs]
          · apply settles_cont (l' := { l with pc := .head })
            · simp [tstep, hi, hg, hs, hst, hle]
            · apply settles_cont (l' := { (if (l.done && !l.failed) = true then { l with pc := .head, done := false }
                                           else { l with pc := .head }) with pc := .idleHead })
              · simp [tstep, hs, hi]
              · apply settles_idleHead_wait c e o _ rfl hi hs
                unfold Tick at *
                omega

/-- after a run that did not yield and is to be retried after a positive delay -/
theorem settles_after_retry (l : TLoc) (h : l.pc = .post) (hd : l.done = false) (hpos : 0 < l.errDelay) :
    settles c e o 2 l = true := by
  cases hs : e.stop with
  | false =>
    apply settles_le c e o (k := 1) (by omega)
    apply settles_susp (l' := { l with pc := .head })
    simp [tstep, h, hd, sleepTo_susp e hpos hs]
  | true =>
    apply settles_cont (l' := { l with pc := .head })
    · simp [tstep, h, hd, sleepTo, sleepSuspends, hs]
    · exact settles_head_stop c e o _ rfl hs

theorem settles_invoke (hg : c.guarded = true) (hidle : ∀ d, c.idle = some d → 0 < d)
    (hint : ∀ v, c.interval = some v → 0 < v) (hgood : ∀ n, (o n).good = true)
    (l : TLoc) (h : l.pc = .invoke) : settles c e o 5 l = true := by
  by_cases hf : (l.done && l.failed) = true
  · apply settles_cont (l' := { l with pc := .post, started := e.now })
    · simp [tstep, h, hf]
    · simp only [Bool.and_eq_true] at hf
      exact settles_after_failed c e o hg hidle hint _ rfl hf.1 rfl
  · cases hy : (o l.runs).yields with
    | true =>
      apply settles_le c e o (k := 1) (by omega)
      apply settles_susp (l' := { l with pc := .post, started := e.now, done := (o l.runs).done, failed := (o l.runs).failed, errDelay := (o l.runs).errDelay, runs := l.runs + 1 })
      simp [tstep, h, hf, hy]
    | false =>
      apply settles_cont (l' := { l with pc := .post, started := e.now, done := (o l.runs).done, failed := (o l.runs).failed, errDelay := (o l.runs).errDelay, runs := l.runs + 1 })
      · simp [tstep, h, hf, hy]
      · cases hd : (o l.runs).done with
        | true => exact settles_after_failed c e o hg hidle hint _ rfl rfl rfl
        | false =>
          have hgd := hgood l.runs
          simp only [Outcome.good, hy, hd, Bool.false_or, decide_eq_true_eq] at hgd
          exact settles_le c e o (k := 2) (by omega) _ (settles_after_retry c e o _ rfl rfl hgd)

section
variable (hg : c.guarded = true) (hidle : ∀ d, c.idle = some d → 0 < d) (hint : ∀ v, c.interval = some v → 0 < v)
  (hgood : ∀ n, (o n).good = true)
include hg hidle hint hgood

theorem settles_idleDone (l : TLoc) (h : l.pc = .idleDone) : settles c e o 6 l = true := by
  cases hs : e.stop with
  | true =>
    apply settles_le c e o (k := 2) (by omega)
    apply settles_cont (l' := { l with pc := .head })
    · simp [tstep, h, hs]
    · exact settles_head_stop c e o _ rfl hs
  | false =>
    apply settles_cont (l' := { l with pc := .invoke })
    · simp [tstep, h, hs]
    · exact settles_invoke c e o hg hidle hint hgood _ rfl

theorem settles_idleHead (l : TLoc) (h : l.pc = .idleHead) : settles c e o 7 l = true := by
  cases hi : c.idle with
  | none =>
    apply settles_le c e o (k := 6) (by omega)
    apply settles_cont (l' := { l with pc := .invoke })
    · simp [tstep, h, hi]
    · exact settles_invoke c e o hg hidle hint hgood _ rfl
  | some idle =>
    by_cases hc : (!e.stop && decide (e.now - e.idleReset < idle)) = true
    · simp only [Bool.and_eq_true, Bool.not_eq_true', decide_eq_true_eq] at hc
      exact settles_le c e o (k := 1) (by omega) l (settles_idleHead_wait c e o l h hi hc.1 hc.2)
    · apply settles_cont (l' := { l with pc := .idleDone })
      · simp only [tstep, h, hi]
        simp only [hc]
        simp
      · exact settles_idleDone c e o hg hidle hint hgood _ rfl

theorem settles_head (l : TLoc) (h : l.pc = .head) : settles c e o 8 l = true := by
  cases hs : e.stop with
  | true => exact settles_le c e o (k := 1) (by omega) l (settles_head_stop c e o l h hs)
  | false =>
    cases hi : c.idle with
    | none =>
      apply settles_le c e o (k := 6) (by omega)
      apply settles_cont (l' := { (if (l.done && !l.failed) = true then { l with done := false } else l) with pc := .invoke })
      · simp [tstep, h, hs, hi]
      · exact settles_invoke c e o hg hidle hint hgood _ rfl
    | some idle =>
      apply settles_cont (l' := { (if (l.done && !l.failed) = true then { l with done := false } else l) with pc := .idleHead })
      · simp [tstep, h, hs, hi]
      · exact settles_idleHead c e o hg hidle hint hgood _ rfl

/-- any sleep that leads back to the loop head -/
theorem settles_sleep_head (d : Tick) (l l0 : TLoc) (ht : tstep c e o l0 = sleepTo d e { l with pc := .head }) :
    settles c e o 9 l0 = true := by
  unfold sleepTo at ht
  split at ht
  · exact settles_le c e o (k := 1) (by omega) l0 (settles_susp c e o ht)
  · exact settles_cont c e o ht (settles_head c e o hg hidle hint hgood _ rfl)

theorem settles_init (l : TLoc) (h : l.pc = .init) : settles c e o 9 l = true := by
  cases hd : c.initialDelay with
  | none =>
    apply settles_cont (l' := { l with pc := .head })
    · simp [tstep, h, hd]
    · exact settles_head c e o hg hidle hint hgood _ rfl
  | some d =>
    apply settles_sleep_head c e o hg hidle hint hgood d l l
    simp [tstep, h, hd]

theorem settles_idleLoop (l : TLoc) (h : l.pc = .idleLoop) : settles c e o 9 l = true := by
  cases hi : c.idle with
  | none =>
    apply settles_cont (l' := { l with pc := .head })
    · simp [tstep, h, hi]
    · exact settles_head c e o hg hidle hint hgood _ rfl
  | some idle =>
    by_cases hc : (decide (e.idleReset ≤ l.started) && !e.stop) = true
    · -- the loop condition holds, so the stopper is not set: the sleep is a real one
      simp only [Bool.and_eq_true, decide_eq_true_eq, Bool.not_eq_true'] at hc
      apply settles_le c e o (k := 1) (by omega)
      apply settles_susp (l' := l)
      simp [tstep, h, hi, hg, hc.1, hc.2, sleepTo_susp e (hidle idle hi) hc.2]
    · apply settles_cont (l' := { l with pc := .head })
      · simp only [tstep, h, hi, hg]
        simp only [Bool.not_true, Bool.false_or, hc]
        simp
      · exact settles_head c e o hg hidle hint hgood _ rfl

theorem settles_post (l : TLoc) (h : l.pc = .post) : settles c e o 10 l = true := by
  cases hd : l.done with
  | false =>
    apply settles_le c e o (k := 9) (by omega)
    apply settles_sleep_head c e o hg hidle hint hgood l.errDelay l l
    simp [tstep, h, hd]
  | true =>
    cases hv : c.interval with
    | some v =>
      apply settles_le c e o (k := 9) (by omega)
      cases hsh : c.sharp with
      | true =>
        apply settles_sleep_head c e o hg hidle hint hgood (v - ((e.now - l.started) % v)) l l
        simp [tstep, h, hd, hv, hsh]
      | false =>
        apply settles_sleep_head c e o hg hidle hint hgood v l l
        simp [tstep, h, hd, hv, hsh]
    | none =>
      cases hi : c.idle with
      | none =>
        apply settles_le c e o (k := 1) (by omega)
        apply settles_exit (b := true)
        simp [tstep, h, hd, hv, hi]
      | some idle =>
        apply settles_cont (l' := { l with pc := .idleLoop })
        · simp [tstep, h, hd, hv, hi]
        · exact settles_idleLoop c e o hg hidle hint hgood _ rfl

/-- From every program point: at most 10 micro-steps to a suspension or a return. -/
theorem settles_all (l : TLoc) : settles c e o 10 l = true := by
  cases hpc : l.pc with
  | init => exact settles_le c e o (k := 9) (by omega) l (settles_init c e o hg hidle hint hgood l hpc)
  | head => exact settles_le c e o (k := 8) (by omega) l (settles_head c e o hg hidle hint hgood l hpc)
  | idleHead => exact settles_le c e o (k := 7) (by omega) l (settles_idleHead c e o hg hidle hint hgood l hpc)
  | idleDone => exact settles_le c e o (k := 6) (by omega) l (settles_idleDone c e o hg hidle hint hgood l hpc)
  | invoke => exact settles_le c e o (k := 5) (by omega) l (settles_invoke c e o hg hidle hint hgood l hpc)
  | post => exact settles_post c e o hg hidle hint hgood l hpc
  | idleLoop => exact settles_le c e o (k := 9) (by omega) l (settles_idleLoop c e o hg hidle hint hgood l hpc)

end


/-! ### The negation: a non-yielding run retried with delay ≤ 0 never lets the loop run -/

/-- the three program points of the retry loop of a timer without `idle` whose stopper is not set -/
def retrySpin (l : TLoc) : Bool :=
  !l.done && (l.pc == .head || l.pc == .invoke || (l.pc == .post && decide (l.errDelay ≤ 0)))

theorem retrySpin_step (hi : c.idle = none) (hs : e.stop = false)
    (hbad : ∀ n, (o n).yields = false ∧ (o n).done = false ∧ (o n).errDelay ≤ 0)
    (l : TLoc) (h : retrySpin l = true) : ∃ l', tstep c e o l = .cont l' ∧ retrySpin l' = true := by
  simp only [retrySpin, Bool.and_eq_true, Bool.not_eq_true', Bool.or_eq_true, beq_iff_eq, decide_eq_true_eq] at h
  obtain ⟨hd, hpc⟩ := h
  rcases hpc with (hpc | hpc) | ⟨hpc, hdel⟩
  · exact ⟨{ l with pc := .invoke }, by simp [tstep, hpc, hs, hi, hd], by simp [retrySpin, hd]⟩
  · obtain ⟨hy, hdn, hdl⟩ := hbad l.runs
    refine ⟨{ l with pc := .post, started := e.now, done := (o l.runs).done, failed := (o l.runs).failed, errDelay := (o l.runs).errDelay, runs := l.runs + 1 }, ?_, ?_⟩
    · simp [tstep, hpc, hd, hy]
    · simp [retrySpin, hdn, hdl]
  · refine ⟨{ l with pc := .head }, ?_, by simp [retrySpin, hd]⟩
    have : ¬ (0 < l.errDelay) := by unfold Tick at *; omega
    simp [tstep, hpc, hd, sleepTo, sleepSuspends, this]

theorem retrySpin_never_settles (hi : c.idle = none) (hs : e.stop = false)
    (hbad : ∀ n, (o n).yields = false ∧ (o n).done = false ∧ (o n).errDelay ≤ 0) :
    ∀ (k : Nat) (l : TLoc), retrySpin l = true → settles c e o k l = false
  | 0, _, _ => rfl
  | k + 1, l, h => by
    obtain ⟨l', ht, h'⟩ := retrySpin_step c e o hi hs hbad l h
    unfold settles
    rw [ht]
    exact retrySpin_never_settles hi hs hbad k l' h'

/-! ### `_daemon`: the same retry loop -/

section Daemon
variable (idl : Option Tick) (e : TEnv) (o : Nat → Outcome)

theorem dsettles_succ : ∀ (k : Nat) (l : DLoc), dsettles idl e o k l = true → dsettles idl e o (k + 1) l = true
  | 0, l, h => by simp [dsettles] at h
  | k + 1, l, h => by
    unfold dsettles at h ⊢
    cases ht : dstep idl e o l with
    | susp _ => rfl
    | exit => rfl
    | cont l' =>
      rw [ht] at h
      simp only at h ⊢
      exact dsettles_succ k l' h

theorem dsettles_le {k k' : Nat} (hk : k ≤ k') (l : DLoc) (h : dsettles idl e o k l = true) :
    dsettles idl e o k' l = true := by
  induction hk with
  | refl => exact h
  | step _ ih => exact dsettles_succ idl e o _ l ih

theorem dsettles_cont {k : Nat} {l l' : DLoc} (ht : dstep idl e o l = .cont l') (h : dsettles idl e o k l' = true) :
    dsettles idl e o (k + 1) l = true := by
  unfold dsettles; rw [ht]; exact h

theorem dsettles_susp {l l' : DLoc} (ht : dstep idl e o l = .susp l') : dsettles idl e o 1 l = true := by
  unfold dsettles; rw [ht]

theorem dsettles_exit {l : DLoc} (ht : dstep idl e o l = .exit) : dsettles idl e o 1 l = true := by
  unfold dsettles; rw [ht]

theorem dsettles_head_out (l : DLoc) (h : l.pc = .head) (hs : (e.stop || l.done) = true) : dsettles idl e o 1 l = true := by
  apply dsettles_exit
  simp only [dstep, h, hs, if_true]

/-- after a run (at `post`): a finished series leaves through the head; a retry sleeps for real unless stopped -/
theorem dsettles_post_good (l : DLoc) (h : l.pc = .post) (hgood : l.done = true ∨ 0 < l.delay) :
    dsettles idl e o 2 l = true := by
  by_cases hz : l.delay ≠ 0
  · by_cases hsus : sleepSuspends l.delay e = true
    · apply dsettles_le idl e o (k := 1) (by omega)
      apply dsettles_susp (l' := { l with pc := .head })
      simp [dstep, h, hz, dsleepTo, hsus]
    · apply dsettles_cont (l' := { l with pc := .head })
      · simp [dstep, h, hz, dsleepTo, hsus]
      · apply dsettles_head_out idl e o _ rfl
        rcases hgood with hd | hp
        · simp [hd]
        · simp only [sleepSuspends, hp, decide_true, Bool.true_and, Bool.not_eq_true', Bool.not_eq_false] at hsus
          simp [hsus]
  · have hz' : l.delay = 0 := by simpa using hz
    apply dsettles_cont (l' := { l with pc := .head })
    · simp [dstep, h, hz']
    · apply dsettles_head_out idl e o _ rfl
      rcases hgood with hd | hp
      · simp [hd]
      · rw [hz'] at hp; exact absurd hp (by decide)

theorem dsettles_invoke (hgood : ∀ n, (o n).good = true) (l : DLoc) (h : l.pc = .invoke) :
    dsettles idl e o 3 l = true := by
  cases hy : (o l.runs).yields with
  | true =>
    apply dsettles_le idl e o (k := 1) (by omega)
    apply dsettles_susp (l' := { l with pc := .post, done := (o l.runs).done, delay := (o l.runs).errDelay, runs := l.runs + 1 })
    simp [dstep, h, hy]
  | false =>
    apply dsettles_cont (l' := { l with pc := .post, done := (o l.runs).done, delay := (o l.runs).errDelay, runs := l.runs + 1 })
    · simp [dstep, h, hy]
    · apply dsettles_post_good idl e o _ rfl
      have hg := hgood l.runs
      simp only [Outcome.good, hy, Bool.false_or, Bool.or_eq_true, decide_eq_true_eq] at hg
      exact hg

theorem dsettles_head (hgood : ∀ n, (o n).good = true) (l : DLoc) (h : l.pc = .head) : dsettles idl e o 4 l = true := by
  by_cases hs : (e.stop || l.done) = true
  · exact dsettles_le idl e o (k := 1) (by omega) l (dsettles_head_out idl e o l h hs)
  · apply dsettles_cont (l' := { l with pc := .invoke })
    · simp only [dstep, h, hs]; simp
    · exact dsettles_invoke idl e o hgood _ rfl

theorem dsettles_all (hgood : ∀ n, (o n).good = true) (l : DLoc) : dsettles idl e o 5 l = true := by
  cases hpc : l.pc with
  | head => exact dsettles_le idl e o (k := 4) (by omega) l (dsettles_head idl e o hgood l hpc)
  | invoke => exact dsettles_le idl e o (k := 3) (by omega) l (dsettles_invoke idl e o hgood l hpc)
  | init =>
    cases hd : idl with
    | none =>
      apply dsettles_cont (l' := { l with pc := .head })
      · simp [dstep, hpc]
      · exact dsettles_head _ e o hgood _ rfl
    | some d =>
      by_cases hsus : sleepSuspends d e = true
      · apply dsettles_le _ e o (k := 1) (by omega)
        apply dsettles_susp (l' := { l with pc := .head })
        simp [dstep, hpc, dsleepTo, hsus]
      · apply dsettles_cont (l' := { l with pc := .head })
        · simp [dstep, hpc, dsleepTo, hsus]
        · exact dsettles_head _ e o hgood _ rfl
  | post =>
    by_cases hz : l.delay ≠ 0
    · by_cases hsus : sleepSuspends l.delay e = true
      · apply dsettles_le idl e o (k := 1) (by omega)
        apply dsettles_susp (l' := { l with pc := .head })
        simp [dstep, hpc, hz, dsleepTo, hsus]
      · apply dsettles_cont (l' := { l with pc := .head })
        · simp [dstep, hpc, hz, dsleepTo, hsus]
        · exact dsettles_head idl e o hgood _ rfl
    · have hz' : l.delay = 0 := by simpa using hz
      apply dsettles_cont (l' := { l with pc := .head })
      · simp [dstep, hpc, hz']
      · exact dsettles_head idl e o hgood _ rfl

def dretrySpin (l : DLoc) : Bool :=
  !l.done && (l.pc == .head || l.pc == .invoke || (l.pc == .post && decide (l.delay ≤ 0)))

theorem dretrySpin_step (hs : e.stop = false)
    (hbad : ∀ n, (o n).yields = false ∧ (o n).done = false ∧ (o n).errDelay ≤ 0)
    (l : DLoc) (h : dretrySpin l = true) : ∃ l', dstep idl e o l = .cont l' ∧ dretrySpin l' = true := by
  simp only [dretrySpin, Bool.and_eq_true, Bool.not_eq_true', Bool.or_eq_true, beq_iff_eq, decide_eq_true_eq] at h
  obtain ⟨hd, hpc⟩ := h
  rcases hpc with (hpc | hpc) | ⟨hpc, hdel⟩
  · exact ⟨{ l with pc := .invoke }, by simp [dstep, hpc, hs, hd], by simp [dretrySpin, hd]⟩
  · obtain ⟨hy, hdn, hdl⟩ := hbad l.runs
    refine ⟨{ l with pc := .post, done := (o l.runs).done, delay := (o l.runs).errDelay, runs := l.runs + 1 }, ?_, ?_⟩
    · simp [dstep, hpc, hy]
    · simp [dretrySpin, hdn, hdl]
  · refine ⟨{ l with pc := .head }, ?_, by simp [dretrySpin, hd]⟩
    have hnp : ¬ (0 < l.delay) := by unfold Tick at *; omega
    by_cases hz : l.delay = 0
    · simp [dstep, hpc, hz]
    · simp [dstep, hpc, hz, dsleepTo, sleepSuspends, hnp]

theorem dretrySpin_never_settles (hs : e.stop = false)
    (hbad : ∀ n, (o n).yields = false ∧ (o n).done = false ∧ (o n).errDelay ≤ 0) :
    ∀ (k : Nat) (l : DLoc), dretrySpin l = true → dsettles idl e o k l = false
  | 0, _, _ => rfl
  | k + 1, l, h => by
    obtain ⟨l', ht, h'⟩ := dretrySpin_step idl e o hs hbad l h
    unfold dsettles
    rw [ht]
    exact dretrySpin_never_settles hs hbad k l' h'

end Daemon

/-! ### HISTORICAL: the unguarded loop (before /repo 6ccf081) -/

/-- In the spin set every step stays in the spin set without suspending. -/
theorem spinning_step (l : TLoc) (hs : spinning c e l = true) :
    ∃ l', tstep c e o l = .cont l' ∧ spinning c e l' = true := by
  simp only [spinning, Bool.and_eq_true, Bool.not_eq_true', decide_eq_true_eq, Bool.or_eq_true, beq_iff_eq] at hs
  obtain ⟨⟨⟨⟨hg, hi⟩, hst⟩, hle⟩, hpc⟩ := hs
  obtain ⟨idle, hidle⟩ := Option.isSome_iff_exists.mp hi
  rcases hpc with hpc | ⟨⟨hpc, hd⟩, hv⟩
  · refine ⟨l, ?_, ?_⟩
    · simp [tstep, hpc, hidle, hle, hg, sleepTo, sleepSuspends, hst]
    · simp [spinning, hg, hidle, hst, hle, hpc]
  · have hv' : c.interval = none := by simpa using hv
    refine ⟨{ l with pc := .idleLoop }, ?_, ?_⟩
    · simp [tstep, hpc, hd, hv', hidle]
    · simp [spinning, hg, hidle, hst, hle]

theorem spinning_never_settles : ∀ (k : Nat) (l : TLoc), spinning c e l = true → settles c e o k l = false
  | 0, _, _ => rfl
  | k + 1, l, hs => by
    obtain ⟨l', ht, hs'⟩ := spinning_step c e o l hs
    unfold settles
    rw [ht]
    exact spinning_never_settles k l' hs'

end Kopf.C09
