/-
  C09 helper lemmas for the micro-step model of `_timer` (the current tree: the after-run idle loop is
  guarded by the stopper; a series that has failed for good is not reset and its "run" may not suspend):
  from every program point the coroutine suspends or returns within a few non-suspending steps.
  The last section is HISTORICAL: the spin set of the unguarded loop (the code before /repo 6ccf081).
-/
import Kopf.Model.C09_Daemons
namespace Kopf.C09

variable (c : TCfg) (e : TEnv) (o : Outcome)

theorem settles_succ : ∀ (k : Nat) (l : TLoc), settles c e o k l = true → settles c e o (k + 1) l = true
  | 0, l, h => by simp [settles] at h
  | k + 1, l, h => by
    unfold settles at h ⊢
    cases ht : tstep c e o l with
    | susp _ => rfl
    | exit _ => rfl
    | cont l' =>
      rw [ht] at h
      simp only at h ⊢
      exact settles_succ k l' h

theorem settles_le {k k' : Nat} (hk : k ≤ k') (l : TLoc) (h : settles c e o k l = true) :
    settles c e o k' l = true := by
  induction hk with
  | refl => exact h
  | step _ ih => exact settles_succ c e o _ l ih

theorem settles_cont {k : Nat} {l l' : TLoc} (ht : tstep c e o l = .cont l') (h : settles c e o k l' = true) :
    settles c e o (k + 1) l = true := by
  unfold settles; rw [ht]; exact h

theorem settles_susp {l l' : TLoc} (ht : tstep c e o l = .susp l') : settles c e o 1 l = true := by
  unfold settles; rw [ht]

theorem settles_exit {l : TLoc} {b : Bool} (ht : tstep c e o l = .exit b) : settles c e o 1 l = true := by
  unfold settles; rw [ht]

theorem settles_head_stop (l : TLoc) (h : l.pc = .head) (hs : e.stop = true) : settles c e o 1 l = true := by
  apply settles_exit (b := false)
  simp [tstep, h, hs]

/-- a positive sleep with the stopper unset is a real one -/
theorem sleepTo_susp {d : Tick} (hd : 0 < d) (hs : e.stop = false) (l : TLoc) : sleepTo d e l = .susp l := by
  simp [sleepTo, sleepSuspends, hd, hs]

/-- the idle wait before a run, when it has to wait -/
theorem settles_idleHead_wait (l : TLoc) (h : l.pc = .idleHead) {idle : Tick} (hi : c.idle = some idle)
    (hs : e.stop = false) (hlt : e.now - e.idleReset < idle) : settles c e o 1 l = true := by
  apply settles_susp (l' := l)
  have hpos : e.now < e.idleReset + idle := by unfold Tick at *; omega
  simp [tstep, h, hi, hs, hlt, sleepTo, sleepSuspends, hpos]

/-- After the "run" of a series that has failed for good (it did not suspend: `started = now`). -/
theorem settles_after_failed (hg : c.guarded = true) (hidle : ∀ d, c.idle = some d → 0 < d)
    (hint : ∀ v, c.interval = some v → 0 < v) (l : TLoc) (h : l.pc = .post) (hd : l.done = true)
    (hst : l.started = e.now) : settles c e o 4 l = true := by
  cases hs : e.stop with
  | true =>
    -- whatever sleep comes, it returns at once; then the loop head returns
    cases hv : c.interval with
    | some v =>
      apply settles_le c e o (k := 2) (by omega)
      apply settles_cont (l' := { l with pc := .head })
      · cases hsh : c.sharp <;> simp [tstep, h, hd, hv, hsh, sleepTo, sleepSuspends, hs]
      · exact settles_head_stop c e o _ rfl hs
    | none =>
      cases hi : c.idle with
      | none =>
        apply settles_le c e o (k := 1) (by omega)
        apply settles_exit (b := true)
        simp [tstep, h, hd, hv, hi]
      | some idle =>
        apply settles_le c e o (k := 3) (by omega)
        apply settles_cont (l' := { l with pc := .idleLoop })
        · simp [tstep, h, hd, hv, hi]
        · apply settles_cont (l' := { l with pc := .head })
          · simp [tstep, hi, hg, hs]
          · exact settles_head_stop c e o _ rfl hs
  | false =>
    cases hv : c.interval with
    | some v =>
      have hvp := hint v hv
      apply settles_le c e o (k := 1) (by omega)
      apply settles_susp (l' := { l with pc := .head })
      cases hsh : c.sharp with
      | false => simp [tstep, h, hd, hv, hsh, sleepTo_susp e hvp hs]
      | true =>
        have hz : v - (e.now - l.started) % v = v := by
          rw [hst]
          have : e.now - e.now = (0 : Int) := Int.sub_self _
          rw [this]
          simp
        simp [tstep, h, hd, hv, hsh, hz, sleepTo_susp e hvp hs]
    | none =>
      cases hi : c.idle with
      | none =>
        apply settles_le c e o (k := 1) (by omega)
        apply settles_exit (b := true)
        simp [tstep, h, hd, hv, hi]
      | some idle =>
        have hip := hidle idle hi
        apply settles_cont (l' := { l with pc := .idleLoop })
        · simp [tstep, h, hd, hv, hi]
        · by_cases hle : e.idleReset ≤ e.now
          · -- nothing changed since this "run": the guarded loop sleeps for real
            apply settles_le c e o (k := 1) (by omega)
            apply settles_susp (l' := { l with pc := .idleLoop })
            simp [tstep, hi, hg, hs, hst, hle, sleepTo_susp e hip hs]
          · apply settles_cont (l' := { l with pc := .head })
            · simp [tstep, hi, hg, hs, hst, hle]
            · apply settles_cont (l' := { (if (l.done && !l.failed) = true then { l with pc := .head, done := false }
                                           else { l with pc := .head }) with pc := .idleHead })
              · simp [tstep, hs, hi]
              · apply settles_idleHead_wait c e o _ rfl hi hs
                unfold Tick at *
                omega

theorem settles_invoke (hg : c.guarded = true) (hidle : ∀ d, c.idle = some d → 0 < d)
    (hint : ∀ v, c.interval = some v → 0 < v) (l : TLoc) (h : l.pc = .invoke) : settles c e o 5 l = true := by
  by_cases hf : (l.done && l.failed) = true
  · apply settles_cont (l' := { l with pc := .post, started := e.now })
    · simp [tstep, h, hf]
    · simp only [Bool.and_eq_true] at hf
      exact settles_after_failed c e o hg hidle hint _ rfl hf.1 rfl
  · apply settles_le c e o (k := 1) (by omega)
    apply settles_susp (l' := { l with pc := .post, started := e.now, done := o.done, failed := o.failed, errDelay := o.errDelay })
    simp [tstep, h, hf]

section
variable (hg : c.guarded = true) (hidle : ∀ d, c.idle = some d → 0 < d) (hint : ∀ v, c.interval = some v → 0 < v)
include hg hidle hint

theorem settles_idleDone (l : TLoc) (h : l.pc = .idleDone) : settles c e o 6 l = true := by
  cases hs : e.stop with
  | true =>
    apply settles_le c e o (k := 2) (by omega)
    apply settles_cont (l' := { l with pc := .head })
    · simp [tstep, h, hs]
    · exact settles_head_stop c e o _ rfl hs
  | false =>
    apply settles_cont (l' := { l with pc := .invoke })
    · simp [tstep, h, hs]
    · exact settles_invoke c e o hg hidle hint _ rfl

theorem settles_idleHead (l : TLoc) (h : l.pc = .idleHead) : settles c e o 7 l = true := by
  cases hi : c.idle with
  | none =>
    apply settles_le c e o (k := 6) (by omega)
    apply settles_cont (l' := { l with pc := .invoke })
    · simp [tstep, h, hi]
    · exact settles_invoke c e o hg hidle hint _ rfl
  | some idle =>
    by_cases hc : (!e.stop && decide (e.now - e.idleReset < idle)) = true
    · simp only [Bool.and_eq_true, Bool.not_eq_true', decide_eq_true_eq] at hc
      exact settles_le c e o (k := 1) (by omega) l (settles_idleHead_wait c e o l h hi hc.1 hc.2)
    · apply settles_cont (l' := { l with pc := .idleDone })
      · simp only [tstep, h, hi]
        simp only [hc]
        simp
      · exact settles_idleDone c e o hg hidle hint _ rfl

theorem settles_head (l : TLoc) (h : l.pc = .head) : settles c e o 8 l = true := by
  cases hs : e.stop with
  | true => exact settles_le c e o (k := 1) (by omega) l (settles_head_stop c e o l h hs)
  | false =>
    cases hi : c.idle with
    | none =>
      apply settles_le c e o (k := 6) (by omega)
      apply settles_cont (l' := { (if (l.done && !l.failed) = true then { l with done := false } else l) with pc := .invoke })
      · simp [tstep, h, hs, hi]
      · exact settles_invoke c e o hg hidle hint _ rfl
    | some idle =>
      apply settles_cont (l' := { (if (l.done && !l.failed) = true then { l with done := false } else l) with pc := .idleHead })
      · simp [tstep, h, hs, hi]
      · exact settles_idleHead c e o hg hidle hint _ rfl

/-- any sleep that leads back to the loop head -/
theorem settles_sleep_head (d : Tick) (l l0 : TLoc) (ht : tstep c e o l0 = sleepTo d e { l with pc := .head }) :
    settles c e o 9 l0 = true := by
  unfold sleepTo at ht
  split at ht
  · exact settles_le c e o (k := 1) (by omega) l0 (settles_susp c e o ht)
  · exact settles_cont c e o ht (settles_head c e o hg hidle hint _ rfl)

theorem settles_init (l : TLoc) (h : l.pc = .init) : settles c e o 9 l = true := by
  cases hd : c.initialDelay with
  | none =>
    apply settles_cont (l' := { l with pc := .head })
    · simp [tstep, h, hd]
    · exact settles_head c e o hg hidle hint _ rfl
  | some d =>
    apply settles_sleep_head c e o hg hidle hint d l l
    simp [tstep, h, hd]

theorem settles_idleLoop (l : TLoc) (h : l.pc = .idleLoop) : settles c e o 9 l = true := by
  cases hi : c.idle with
  | none =>
    apply settles_cont (l' := { l with pc := .head })
    · simp [tstep, h, hi]
    · exact settles_head c e o hg hidle hint _ rfl
  | some idle =>
    by_cases hc : (decide (e.idleReset ≤ l.started) && !e.stop) = true
    · -- the loop condition holds, so the stopper is not set: the sleep is a real one
      simp only [Bool.and_eq_true, decide_eq_true_eq, Bool.not_eq_true'] at hc
      apply settles_le c e o (k := 1) (by omega)
      apply settles_susp (l' := l)
      simp [tstep, h, hi, hg, hc.1, hc.2, sleepTo_susp e (hidle idle hi) hc.2]
    · apply settles_cont (l' := { l with pc := .head })
      · simp only [tstep, h, hi, hg]
        simp only [Bool.not_true, Bool.false_or, hc]
        simp
      · exact settles_head c e o hg hidle hint _ rfl

theorem settles_post (l : TLoc) (h : l.pc = .post) : settles c e o 10 l = true := by
  cases hd : l.done with
  | false =>
    apply settles_le c e o (k := 9) (by omega)
    apply settles_sleep_head c e o hg hidle hint l.errDelay l l
    simp [tstep, h, hd]
  | true =>
    cases hv : c.interval with
    | some v =>
      apply settles_le c e o (k := 9) (by omega)
      cases hsh : c.sharp with
      | true =>
        apply settles_sleep_head c e o hg hidle hint (v - ((e.now - l.started) % v)) l l
        simp [tstep, h, hd, hv, hsh]
      | false =>
        apply settles_sleep_head c e o hg hidle hint v l l
        simp [tstep, h, hd, hv, hsh]
    | none =>
      cases hi : c.idle with
      | none =>
        apply settles_le c e o (k := 1) (by omega)
        apply settles_exit (b := true)
        simp [tstep, h, hd, hv, hi]
      | some idle =>
        apply settles_cont (l' := { l with pc := .idleLoop })
        · simp [tstep, h, hd, hv, hi]
        · exact settles_idleLoop c e o hg hidle hint _ rfl

/-- From every program point: at most 10 micro-steps to a suspension or a return. -/
theorem settles_all (l : TLoc) : settles c e o 10 l = true := by
  cases hpc : l.pc with
  | init => exact settles_le c e o (k := 9) (by omega) l (settles_init c e o hg hidle hint l hpc)
  | head => exact settles_le c e o (k := 8) (by omega) l (settles_head c e o hg hidle hint l hpc)
  | idleHead => exact settles_le c e o (k := 7) (by omega) l (settles_idleHead c e o hg hidle hint l hpc)
  | idleDone => exact settles_le c e o (k := 6) (by omega) l (settles_idleDone c e o hg hidle hint l hpc)
  | invoke => exact settles_le c e o (k := 5) (by omega) l (settles_invoke c e o hg hidle hint l hpc)
  | post => exact settles_post c e o hg hidle hint l hpc
  | idleLoop => exact settles_le c e o (k := 9) (by omega) l (settles_idleLoop c e o hg hidle hint l hpc)

end

/-! ### HISTORICAL: the unguarded loop (before /repo 6ccf081) -/

/-- In the spin set every step stays in the spin set without suspending. -/
theorem spinning_step (l : TLoc) (hs : spinning c e l = true) :
    ∃ l', tstep c e o l = .cont l' ∧ spinning c e l' = true := by
  simp only [spinning, Bool.and_eq_true, Bool.not_eq_true', decide_eq_true_eq, Bool.or_eq_true, beq_iff_eq] at hs
  obtain ⟨⟨⟨⟨hg, hi⟩, hst⟩, hle⟩, hpc⟩ := hs
  obtain ⟨idle, hidle⟩ := Option.isSome_iff_exists.mp hi
  rcases hpc with hpc | ⟨⟨hpc, hd⟩, hv⟩
  · refine ⟨l, ?_, ?_⟩
    · simp [tstep, hpc, hidle, hle, hg, sleepTo, sleepSuspends, hst]
    · simp [spinning, hg, hidle, hst, hle, hpc]
  · have hv' : c.interval = none := by simpa using hv
    refine ⟨{ l with pc := .idleLoop }, ?_, ?_⟩
    · simp [tstep, hpc, hd, hv', hidle]
    · simp [spinning, hg, hidle, hst, hle]

theorem spinning_never_settles : ∀ (k : Nat) (l : TLoc), spinning c e l = true → settles c e o k l = false
  | 0, _, _ => rfl
  | k + 1, l, hs => by
    obtain ⟨l', ht, hs'⟩ := spinning_step c e o l hs
    unfold settles
    rw [ht]
    exact spinning_never_settles k l' hs'

end Kopf.C09
