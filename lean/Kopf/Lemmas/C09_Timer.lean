/-
  C09 helper lemmas for the micro-step model of `_timer`: from which program points the coroutine
  suspends or returns within a few non-suspending steps, and where it never does.
-/
import Kopf.Model.C09_Daemons
namespace Kopf.C09

variable (c : TCfg) (e : TEnv) (o : Bool × Tick)

theorem settles_succ : ∀ (k : Nat) (l : TLoc), settles c e o k l = true → settles c e o (k + 1) l = true
  | 0, l, h => by simp [settles] at h
  | k + 1, l, h => by
    unfold settles at h ⊢
    cases ht : tstep c e o l with
    | susp _ => rfl
    | exit _ => rfl
    | cont l' =>
      rw [ht] at h
      simp only at h ⊢
      exact settles_succ k l' h

theorem settles_le {k k' : Nat} (hk : k ≤ k') (l : TLoc) (h : settles c e o k l = true) :
    settles c e o k' l = true := by
  induction hk with
  | refl => exact h
  | step _ ih => exact settles_succ c e o _ l ih

/-- one non-suspending step, then `k` more suffice -/
theorem settles_cont {k : Nat} {l l' : TLoc} (ht : tstep c e o l = .cont l') (h : settles c e o k l' = true) :
    settles c e o (k + 1) l = true := by
  unfold settles; rw [ht]; exact h

theorem settles_susp {l l' : TLoc} (ht : tstep c e o l = .susp l') : settles c e o 1 l = true := by
  unfold settles; rw [ht]

theorem settles_exit {l : TLoc} {b : Bool} (ht : tstep c e o l = .exit b) : settles c e o 1 l = true := by
  unfold settles; rw [ht]

theorem settles_invoke (l : TLoc) (h : l.pc = .invoke) : settles c e o 1 l = true := by
  apply settles_susp (l' := { l with pc := .post, started := e.now, done := o.1, errDelay := o.2 })
  simp [tstep, h]

theorem settles_head_stop (l : TLoc) (h : l.pc = .head) (hs : e.stop = true) : settles c e o 1 l = true := by
  apply settles_exit (b := false)
  simp [tstep, h, hs]

theorem settles_idleDone (l : TLoc) (h : l.pc = .idleDone) : settles c e o 2 l = true := by
  cases hs : e.stop with
  | true =>
    apply settles_cont (l' := { l with pc := .head })
    · simp [tstep, h, hs]
    · exact settles_head_stop c e o _ rfl hs
  | false =>
    apply settles_cont (l' := { l with pc := .invoke })
    · simp [tstep, h, hs]
    · exact settles_invoke c e o _ rfl

theorem settles_idleHead (l : TLoc) (h : l.pc = .idleHead) : settles c e o 3 l = true := by
  cases hi : c.idle with
  | none =>
    apply settles_le c e o (k := 2) (by omega)
    apply settles_cont (l' := { l with pc := .invoke })
    · simp [tstep, h, hi]
    · exact settles_invoke c e o _ rfl
  | some idle =>
    by_cases hc : (!e.stop && decide (e.now - e.idleReset < idle)) = true
    · -- the sleep is real: the stopper is not set and the delay is positive
      apply settles_le c e o (k := 1) (by omega)
      simp only [Bool.and_eq_true, Bool.not_eq_true', decide_eq_true_eq] at hc
      apply settles_susp (l' := l)
      have hpos : e.now < e.idleReset + idle := by
        have := hc.2
        unfold Tick at *
        omega
      simp [tstep, h, hi, hc.1, hc.2, sleepTo, sleepSuspends, hpos]
    · apply settles_cont (l' := { l with pc := .idleDone })
      · simp only [tstep, h, hi]
        simp only [hc]
        simp
      · exact settles_idleDone c e o _ rfl

theorem settles_head (l : TLoc) (h : l.pc = .head) : settles c e o 4 l = true := by
  cases hs : e.stop with
  | true => exact settles_le c e o (k := 1) (by omega) l (settles_head_stop c e o l h hs)
  | false =>
    cases hi : c.idle with
    | none =>
      apply settles_le c e o (k := 2) (by omega)
      apply settles_cont (l' := { l with pc := .invoke })
      · simp [tstep, h, hs, hi]
      · exact settles_invoke c e o _ rfl
    | some idle =>
      apply settles_cont (l' := { l with pc := .idleHead })
      · simp [tstep, h, hs, hi]
      · exact settles_idleHead c e o _ rfl

/-- any sleep that leads back to the loop head -/
theorem settles_sleep_head (d : Tick) (l l0 : TLoc) (ht : tstep c e o l0 = sleepTo d e { l with pc := .head }) :
    settles c e o 5 l0 = true := by
  unfold sleepTo at ht
  split at ht
  · exact settles_le c e o (k := 1) (by omega) l0 (settles_susp c e o ht)
  · exact settles_cont c e o ht (settles_head c e o _ rfl)

theorem settles_init (l : TLoc) (h : l.pc = .init) : settles c e o 5 l = true := by
  cases hd : c.initialDelay with
  | none =>
    apply settles_cont (l' := { l with pc := .head })
    · simp [tstep, h, hd]
    · exact settles_head c e o _ rfl
  | some d =>
    apply settles_sleep_head c e o d l l
    simp [tstep, h, hd]

theorem settles_idleLoop (hpos : ∀ d, c.idle = some d → 0 < d) (l : TLoc) (h : l.pc = .idleLoop)
    (hns : spinning c e l = false) : settles c e o 5 l = true := by
  cases hi : c.idle with
  | none =>
    apply settles_cont (l' := { l with pc := .head })
    · simp [tstep, h, hi]
    · exact settles_head c e o _ rfl
  | some idle =>
    by_cases hc : (decide (e.idleReset ≤ l.started) && (!c.guarded || !e.stop)) = true
    · -- the loop condition holds: the sleep must be a real one
      have hstop : e.stop = false := by
        cases hs : e.stop with
        | false => rfl
        | true =>
          simp only [hs, Bool.not_true, Bool.or_false, Bool.and_eq_true, decide_eq_true_eq, Bool.not_eq_true'] at hc
          simp [spinning, hi, hs, h, hc.1, hc.2] at hns
      apply settles_le c e o (k := 1) (by omega)
      apply settles_susp (l' := l)
      have := hpos idle hi
      simp only [tstep, h, hi]
      simp only [hc, if_true]
      simp [sleepTo, sleepSuspends, this, hstop]
    · apply settles_cont (l' := { l with pc := .head })
      · simp only [tstep, h, hi]
        simp only [hc]
        simp
      · exact settles_head c e o _ rfl

theorem settles_post (hpos : ∀ d, c.idle = some d → 0 < d) (l : TLoc) (h : l.pc = .post)
    (hns : spinning c e l = false) : settles c e o 6 l = true := by
  cases hd : l.done with
  | false =>
    apply settles_le c e o (k := 5) (by omega)
    apply settles_sleep_head c e o l.errDelay l l
    simp [tstep, h, hd]
  | true =>
    cases hv : c.interval with
    | some v =>
      apply settles_le c e o (k := 5) (by omega)
      cases hsh : c.sharp with
      | true =>
        apply settles_sleep_head c e o (v - ((e.now - l.started) % v)) l l
        simp [tstep, h, hd, hv, hsh]
      | false =>
        apply settles_sleep_head c e o v l l
        simp [tstep, h, hd, hv, hsh]
    | none =>
      cases hi : c.idle with
      | none =>
        apply settles_le c e o (k := 1) (by omega)
        apply settles_exit (b := true)
        simp [tstep, h, hd, hv, hi]
      | some idle =>
        apply settles_cont (l' := { l with pc := .idleLoop })
        · simp [tstep, h, hd, hv, hi]
        · apply settles_idleLoop c e o hpos _ rfl
          simp only [spinning, h, hd, hv, hi] at hns ⊢
          simpa using hns

/-- From every program point outside the spin set, at most 6 micro-steps to a suspension or return. -/
theorem settles_all (hpos : ∀ d, c.idle = some d → 0 < d) (l : TLoc) (hns : spinning c e l = false) :
    settles c e o 6 l = true := by
  cases hpc : l.pc with
  | init => exact settles_le c e o (k := 5) (by omega) l (settles_init c e o l hpc)
  | head => exact settles_le c e o (k := 4) (by omega) l (settles_head c e o l hpc)
  | idleHead => exact settles_le c e o (k := 3) (by omega) l (settles_idleHead c e o l hpc)
  | idleDone => exact settles_le c e o (k := 2) (by omega) l (settles_idleDone c e o l hpc)
  | invoke => exact settles_le c e o (k := 1) (by omega) l (settles_invoke c e o l hpc)
  | post => exact settles_post c e o hpos l hpc hns
  | idleLoop => exact settles_le c e o (k := 5) (by omega) l (settles_idleLoop c e o hpos l hpc hns)

/-- In the spin set every step stays in the spin set without suspending. -/
theorem spinning_step (l : TLoc) (hs : spinning c e l = true) :
    ∃ l', tstep c e o l = .cont l' ∧ spinning c e l' = true := by
  simp only [spinning, Bool.and_eq_true, Bool.not_eq_true', decide_eq_true_eq, Bool.or_eq_true, beq_iff_eq] at hs
  obtain ⟨⟨⟨⟨hg, hi⟩, hst⟩, hle⟩, hpc⟩ := hs
  obtain ⟨idle, hidle⟩ := Option.isSome_iff_exists.mp hi
  rcases hpc with hpc | ⟨⟨hpc, hd⟩, hv⟩
  · refine ⟨l, ?_, ?_⟩
    · simp [tstep, hpc, hidle, hle, hg, sleepTo, sleepSuspends, hst]
    · simp [spinning, hg, hidle, hst, hle, hpc]
  · have hv' : c.interval = none := by simpa using hv
    refine ⟨{ l with pc := .idleLoop }, ?_, ?_⟩
    · simp [tstep, hpc, hd, hv', hidle]
    · simp [spinning, hg, hidle, hst, hle]

theorem spinning_never_settles : ∀ (k : Nat) (l : TLoc), spinning c e l = true → settles c e o k l = false
  | 0, _, _ => rfl
  | k + 1, l, hs => by
    obtain ⟨l', ht, hs'⟩ := spinning_step c e o l hs
    unfold settles
    rw [ht]
    exact spinning_never_settles k l' hs'

end Kopf.C09
