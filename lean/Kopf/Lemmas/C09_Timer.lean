/-
  C09 helper lemmas for the micro-step models of `_timer` and `_daemon`.
  Current tree (`guarded`, `yielding`): from every program point the coroutine suspends or returns
  within a few steps, for every handler outcome. HISTORICAL sections: the retry spin of the loops
  before /repo b04c26c (`yielding = false`, finding F12) and the idle-loop spin before 6ccf081
  (`guarded = false`, finding F1).
-/
import Kopf.Model.C09_Daemons
namespace Kopf.C09

variable (c : TCfg) (e : TEnv) (o : Nat → Outcome)

theorem settles_succ : ∀ (k : Nat) (l : TLoc), settles c e o k l = true → settles c e o (k + 1) l = true
  | 0, l, h => by simp [settles] at h
  | k + 1, l, h => by
    unfold settles at h ⊢
    cases ht : tstep c e o l with
    | susp _ => rfl
    | exit _ => rfl
    | cont l' =>
      rw [ht] at h
      simp only at h ⊢
      exact settles_succ k l' h

theorem settles_le {k k' : Nat} (hk : k ≤ k') (l : TLoc) (h : settles c e o k l = true) :
    settles c e o k' l = true := by
  induction hk with
  | refl => exact h
  | step _ ih => exact settles_succ c e o _ l ih

theorem settles_cont {k : Nat} {l l' : TLoc} (ht : tstep c e o l = .cont l') (h : settles c e o k l' = true) :
    settles c e o (k + 1) l = true := by
  unfold settles; rw [ht]; exact h

theorem settles_susp {l l' : TLoc} (ht : tstep c e o l = .susp l') : settles c e o 1 l = true := by
  unfold settles; rw [ht]

theorem settles_exit {l : TLoc} {b : Bool} (ht : tstep c e o l = .exit b) : settles c e o 1 l = true := by
  unfold settles; rw [ht]

/-- a positive sleep with the stopper unset is a real one -/
theorem sleepTo_susp {d : Tick} (hd : 0 < d) (hs : e.stop = false) (l : TLoc) : sleepTo d e l = .susp l := by
  simp [sleepTo, sleepSuspends, hd, hs]

/-! ### The current tree: the loop head is a suspension point -/

section Yielding
variable (hy : c.yielding = true)
include hy

/-- the loop head: returns when the stopper is set, otherwise yields (`await asyncio.sleep(0)`) -/
theorem settles_head (l : TLoc) (h : l.pc = .head) : settles c e o 1 l = true := by
  cases hs : e.stop with
  | true => apply settles_exit (b := false); simp [tstep, h, hs]
  | false =>
    unfold settles
    simp [tstep, h, hs, hy]

/-- any sleep that leads back to the loop head -/
theorem settles_sleep_head (d : Tick) (l l0 : TLoc) (ht : tstep c e o l0 = sleepTo d e { l with pc := .head }) :
    settles c e o 2 l0 = true := by
  unfold sleepTo at ht
  split at ht
  · exact settles_le c e o (k := 1) (by omega) l0 (settles_susp c e o ht)
  · exact settles_cont c e o ht (settles_head c e o hy _ rfl)

theorem settles_init (l : TLoc) (h : l.pc = .init) : settles c e o 2 l = true := by
  cases hd : c.initialDelay with
  | none =>
    apply settles_cont (l' := { l with pc := .head })
    · simp [tstep, h, hd]
    · exact settles_head c e o hy _ rfl
  | some d =>
    apply settles_sleep_head c e o hy d l l
    simp [tstep, h, hd]

theorem settles_idleLoop (hg : c.guarded = true) (hidle : ∀ d, c.idle = some d → 0 < d) (l : TLoc)
    (h : l.pc = .idleLoop) : settles c e o 2 l = true := by
  cases hi : c.idle with
  | none =>
    apply settles_cont (l' := { l with pc := .head })
    · simp [tstep, h, hi]
    · exact settles_head c e o hy _ rfl
  | some idle =>
    by_cases hc : (decide (e.idleReset ≤ l.started) && !e.stop) = true
    · -- the loop condition holds, so the stopper is not set: the sleep is a real one
      simp only [Bool.and_eq_true, decide_eq_true_eq, Bool.not_eq_true'] at hc
      apply settles_le c e o (k := 1) (by omega)
      apply settles_susp (l' := l)
      simp [tstep, h, hi, hg, hc.1, hc.2, sleepTo_susp e (hidle idle hi) hc.2]
    · apply settles_cont (l' := { l with pc := .head })
      · simp only [tstep, h, hi, hg]
        simp only [Bool.not_true, Bool.false_or, hc]
        simp
      · exact settles_head c e o hy _ rfl

theorem settles_post (hg : c.guarded = true) (hidle : ∀ d, c.idle = some d → 0 < d) (l : TLoc)
    (h : l.pc = .post) : settles c e o 3 l = true := by
  cases hd : l.done with
  | false =>
    apply settles_le c e o (k := 2) (by omega)
    apply settles_sleep_head c e o hy l.errDelay l l
    simp [tstep, h, hd]
  | true =>
    cases hv : c.interval with
    | some v =>
      apply settles_le c e o (k := 2) (by omega)
      cases hsh : c.sharp with
      | true =>
        apply settles_sleep_head c e o hy (v - ((e.now - l.started) % v)) l l
        simp [tstep, h, hd, hv, hsh]
      | false =>
        apply settles_sleep_head c e o hy v l l
        simp [tstep, h, hd, hv, hsh]
    | none =>
      cases hi : c.idle with
      | none =>
        apply settles_le c e o (k := 1) (by omega)
        apply settles_exit (b := true)
        simp [tstep, h, hd, hv, hi]
      | some idle =>
        apply settles_cont (l' := { l with pc := .idleLoop })
        · simp [tstep, h, hd, hv, hi]
        · exact settles_idleLoop c e o hy hg hidle _ rfl

/-- the run itself may or may not give control to the loop — whatever it reports -/
theorem settles_invoke (hg : c.guarded = true) (hidle : ∀ d, c.idle = some d → 0 < d) (l : TLoc)
    (h : l.pc = .invoke) : settles c e o 4 l = true := by
  by_cases hf : (l.done && l.failed) = true
  · apply settles_cont (l' := { l with pc := .post, started := e.now })
    · simp [tstep, h, hf]
    · exact settles_post c e o hy hg hidle _ rfl
  · cases hyl : (o l.runs).yields with
    | true =>
      apply settles_le c e o (k := 1) (by omega)
      apply settles_susp (l' := { l with pc := .post, started := e.now, done := (o l.runs).done, failed := (o l.runs).failed, errDelay := (o l.runs).errDelay, runs := l.runs + 1 })
      simp [tstep, h, hf, hyl]
    | false =>
      apply settles_cont (l' := { l with pc := .post, started := e.now, done := (o l.runs).done, failed := (o l.runs).failed, errDelay := (o l.runs).errDelay, runs := l.runs + 1 })
      · simp [tstep, h, hf, hyl]
      · exact settles_post c e o hy hg hidle _ rfl

theorem settles_idleDone (hg : c.guarded = true) (hidle : ∀ d, c.idle = some d → 0 < d) (l : TLoc)
    (h : l.pc = .idleDone) : settles c e o 5 l = true := by
  cases hs : e.stop with
  | true =>
    apply settles_le c e o (k := 2) (by omega)
    apply settles_cont (l' := { l with pc := .head })
    · simp [tstep, h, hs]
    · exact settles_head c e o hy _ rfl
  | false =>
    apply settles_cont (l' := { l with pc := .invoke })
    · simp [tstep, h, hs]
    · exact settles_invoke c e o hy hg hidle _ rfl

theorem settles_idleHead (hg : c.guarded = true) (hidle : ∀ d, c.idle = some d → 0 < d) (l : TLoc)
    (h : l.pc = .idleHead) : settles c e o 6 l = true := by
  cases hi : c.idle with
  | none =>
    apply settles_le c e o (k := 5) (by omega)
    apply settles_cont (l' := { l with pc := .invoke })
    · simp [tstep, h, hi]
    · exact settles_invoke c e o hy hg hidle _ rfl
  | some idle =>
    by_cases hc : (!e.stop && decide (e.now - e.idleReset < idle)) = true
    · simp only [Bool.and_eq_true, Bool.not_eq_true', decide_eq_true_eq] at hc
      apply settles_le c e o (k := 1) (by omega)
      apply settles_susp (l' := l)
      have hpos : e.now < e.idleReset + idle := by have := hc.2; unfold Tick at *; omega
      simp [tstep, h, hi, hc.1, hc.2, sleepTo, sleepSuspends, hpos]
    · apply settles_cont (l' := { l with pc := .idleDone })
      · simp only [tstep, h, hi]
        simp only [hc]
        simp
      · exact settles_idleDone c e o hy hg hidle _ rfl

/-- From every program point: at most 6 micro-steps to a suspension or a return. -/
theorem settles_all (hg : c.guarded = true) (hidle : ∀ d, c.idle = some d → 0 < d) (l : TLoc) :
    settles c e o 6 l = true := by
  cases hpc : l.pc with
  | init => exact settles_le c e o (k := 2) (by omega) l (settles_init c e o hy l hpc)
  | head => exact settles_le c e o (k := 1) (by omega) l (settles_head c e o hy l hpc)
  | idleHead => exact settles_idleHead c e o hy hg hidle l hpc
  | idleDone => exact settles_le c e o (k := 5) (by omega) l (settles_idleDone c e o hy hg hidle l hpc)
  | invoke => exact settles_le c e o (k := 4) (by omega) l (settles_invoke c e o hy hg hidle l hpc)
  | post => exact settles_le c e o (k := 3) (by omega) l (settles_post c e o hy hg hidle l hpc)
  | idleLoop => exact settles_le c e o (k := 2) (by omega) l (settles_idleLoop c e o hy hg hidle l hpc)

end Yielding

/-! ### HISTORICAL (before /repo b04c26c, `yielding = false`): a non-yielding run retried with delay ≤ 0 -/

/-- the three program points of the retry loop of a timer without `idle` whose stopper is not set -/
def retrySpin (l : TLoc) : Bool :=
  !l.done && (l.pc == .head || l.pc == .invoke || (l.pc == .post && decide (l.errDelay ≤ 0)))

theorem retrySpin_step (hny : c.yielding = false) (hi : c.idle = none) (hs : e.stop = false)
    (hbad : ∀ n, (o n).yields = false ∧ (o n).done = false ∧ (o n).errDelay ≤ 0)
    (l : TLoc) (h : retrySpin l = true) : ∃ l', tstep c e o l = .cont l' ∧ retrySpin l' = true := by
  simp only [retrySpin, Bool.and_eq_true, Bool.not_eq_true', Bool.or_eq_true, beq_iff_eq, decide_eq_true_eq] at h
  obtain ⟨hd, hpc⟩ := h
  rcases hpc with (hpc | hpc) | ⟨hpc, hdel⟩
  · exact ⟨{ l with pc := .invoke }, by simp [tstep, hpc, hs, hi, hd, hny], by simp [retrySpin, hd]⟩
  · obtain ⟨hy, hdn, hdl⟩ := hbad l.runs
    refine ⟨{ l with pc := .post, started := e.now, done := (o l.runs).done, failed := (o l.runs).failed, errDelay := (o l.runs).errDelay, runs := l.runs + 1 }, ?_, ?_⟩
    · simp [tstep, hpc, hd, hy]
    · simp [retrySpin, hdn, hdl]
  · refine ⟨{ l with pc := .head }, ?_, by simp [retrySpin, hd]⟩
    have : ¬ (0 < l.errDelay) := by unfold Tick at *; omega
    simp [tstep, hpc, hd, sleepTo, sleepSuspends, this]

theorem retrySpin_never_settles (hny : c.yielding = false) (hi : c.idle = none) (hs : e.stop = false)
    (hbad : ∀ n, (o n).yields = false ∧ (o n).done = false ∧ (o n).errDelay ≤ 0) :
    ∀ (k : Nat) (l : TLoc), retrySpin l = true → settles c e o k l = false
  | 0, _, _ => rfl
  | k + 1, l, h => by
    obtain ⟨l', ht, h'⟩ := retrySpin_step c e o hny hi hs hbad l h
    unfold settles
    rw [ht]
    exact retrySpin_never_settles hny hi hs hbad k l' h'

/-! ### `_daemon` -/

section Daemon
variable (idl : Option Tick) (yl : Bool) (e : TEnv) (o : Nat → Outcome)

theorem dsettles_succ : ∀ (k : Nat) (l : DLoc), dsettles idl yl e o k l = true → dsettles idl yl e o (k + 1) l = true
  | 0, l, h => by simp [dsettles] at h
  | k + 1, l, h => by
    unfold dsettles at h ⊢
    cases ht : dstep idl yl e o l with
    | susp _ => rfl
    | exit => rfl
    | cont l' =>
      rw [ht] at h
      simp only at h ⊢
      exact dsettles_succ k l' h

theorem dsettles_le {k k' : Nat} (hk : k ≤ k') (l : DLoc) (h : dsettles idl yl e o k l = true) :
    dsettles idl yl e o k' l = true := by
  induction hk with
  | refl => exact h
  | step _ ih => exact dsettles_succ idl yl e o _ l ih

theorem dsettles_cont {k : Nat} {l l' : DLoc} (ht : dstep idl yl e o l = .cont l') (h : dsettles idl yl e o k l' = true) :
    dsettles idl yl e o (k + 1) l = true := by
  unfold dsettles; rw [ht]; exact h

theorem dsettles_susp {l l' : DLoc} (ht : dstep idl yl e o l = .susp l') : dsettles idl yl e o 1 l = true := by
  unfold dsettles; rw [ht]

theorem dsettles_exit {l : DLoc} (ht : dstep idl yl e o l = .exit) : dsettles idl yl e o 1 l = true := by
  unfold dsettles; rw [ht]

/-- current tree: the loop head returns or yields -/
theorem dsettles_head (l : DLoc) (h : l.pc = .head) : dsettles idl true e o 1 l = true := by
  by_cases hs : (e.stop || l.done) = true
  · apply dsettles_exit; simp only [dstep, h, hs, if_true]
  · unfold dsettles; simp [dstep, h, hs]

theorem dsettles_to_head (l l0 : DLoc) (ht : dstep idl true e o l0 = .cont { l with pc := .head } ∨
    dstep idl true e o l0 = .susp { l with pc := .head }) : dsettles idl true e o 2 l0 = true := by
  rcases ht with ht | ht
  · exact dsettles_cont idl true e o ht (dsettles_head idl e o _ rfl)
  · exact dsettles_le idl true e o (k := 1) (by omega) l0 (dsettles_susp idl true e o ht)

theorem dsettles_post (l : DLoc) (h : l.pc = .post) : dsettles idl true e o 2 l = true := by
  apply dsettles_to_head idl e o l l
  by_cases hz : l.delay ≠ 0
  · by_cases hsus : sleepSuspends l.delay e = true
    · right; simp [dstep, h, hz, dsleepTo, hsus]
    · left; simp [dstep, h, hz, dsleepTo, hsus]
  · have hz' : l.delay = 0 := by simpa using hz
    left; simp [dstep, h, hz']

theorem dsettles_all (l : DLoc) : dsettles idl true e o 3 l = true := by
  cases hpc : l.pc with
  | head => exact dsettles_le idl true e o (k := 1) (by omega) l (dsettles_head idl e o l hpc)
  | post => exact dsettles_le idl true e o (k := 2) (by omega) l (dsettles_post idl e o l hpc)
  | invoke =>
    cases hy : (o l.runs).yields with
    | true =>
      apply dsettles_le idl true e o (k := 1) (by omega)
      apply dsettles_susp (l' := { l with pc := .post, done := (o l.runs).done, delay := (o l.runs).errDelay, runs := l.runs + 1 })
      simp [dstep, hpc, hy]
    | false =>
      apply dsettles_cont (l' := { l with pc := .post, done := (o l.runs).done, delay := (o l.runs).errDelay, runs := l.runs + 1 })
      · simp [dstep, hpc, hy]
      · exact dsettles_post idl e o _ rfl
  | init =>
    apply dsettles_le idl true e o (k := 2) (by omega)
    apply dsettles_to_head idl e o l l
    cases hd : idl with
    | none => left; simp [dstep, hpc]
    | some d =>
      by_cases hsus : sleepSuspends d e = true
      · right; simp [dstep, hpc, dsleepTo, hsus]
      · left; simp [dstep, hpc, dsleepTo, hsus]

/-! HISTORICAL (before b04c26c): the retry spin of `_daemon` -/

def dretrySpin (l : DLoc) : Bool :=
  !l.done && (l.pc == .head || l.pc == .invoke || (l.pc == .post && decide (l.delay ≤ 0)))

theorem dretrySpin_step (hs : e.stop = false)
    (hbad : ∀ n, (o n).yields = false ∧ (o n).done = false ∧ (o n).errDelay ≤ 0)
    (l : DLoc) (h : dretrySpin l = true) : ∃ l', dstep idl false e o l = .cont l' ∧ dretrySpin l' = true := by
  simp only [dretrySpin, Bool.and_eq_true, Bool.not_eq_true', Bool.or_eq_true, beq_iff_eq, decide_eq_true_eq] at h
  obtain ⟨hd, hpc⟩ := h
  rcases hpc with (hpc | hpc) | ⟨hpc, hdel⟩
  · exact ⟨{ l with pc := .invoke }, by simp [dstep, hpc, hs, hd], by simp [dretrySpin, hd]⟩
  · obtain ⟨hy, hdn, hdl⟩ := hbad l.runs
    refine ⟨{ l with pc := .post, done := (o l.runs).done, delay := (o l.runs).errDelay, runs := l.runs + 1 }, ?_, ?_⟩
    · simp [dstep, hpc, hy]
    · simp [dretrySpin, hdn, hdl]
  · refine ⟨{ l with pc := .head }, ?_, by simp [dretrySpin, hd]⟩
    have hnp : ¬ (0 < l.delay) := by unfold Tick at *; omega
    by_cases hz : l.delay = 0
    · simp [dstep, hpc, hz]
    · simp [dstep, hpc, hz, dsleepTo, sleepSuspends, hnp]

theorem dretrySpin_never_settles (hs : e.stop = false)
    (hbad : ∀ n, (o n).yields = false ∧ (o n).done = false ∧ (o n).errDelay ≤ 0) :
    ∀ (k : Nat) (l : DLoc), dretrySpin l = true → dsettles idl false e o k l = false
  | 0, _, _ => rfl
  | k + 1, l, h => by
    obtain ⟨l', ht, h'⟩ := dretrySpin_step idl e o hs hbad l h
    unfold dsettles
    rw [ht]
    exact dretrySpin_never_settles hs hbad k l' h'

end Daemon

/-! ### HISTORICAL: the unguarded idle loop (before /repo 6ccf081) -/

/-- In the spin set every step stays in the spin set without suspending. -/
theorem spinning_step (l : TLoc) (hs : spinning c e l = true) :
    ∃ l', tstep c e o l = .cont l' ∧ spinning c e l' = true := by
  simp only [spinning, Bool.and_eq_true, Bool.not_eq_true', decide_eq_true_eq, Bool.or_eq_true, beq_iff_eq] at hs
  obtain ⟨⟨⟨⟨hg, hi⟩, hst⟩, hle⟩, hpc⟩ := hs
  obtain ⟨idle, hidle⟩ := Option.isSome_iff_exists.mp hi
  rcases hpc with hpc | ⟨⟨hpc, hd⟩, hv⟩
  · refine ⟨l, ?_, ?_⟩
    · simp [tstep, hpc, hidle, hle, hg, sleepTo, sleepSuspends, hst]
    · simp [spinning, hg, hidle, hst, hle, hpc]
  · have hv' : c.interval = none := by simpa using hv
    refine ⟨{ l with pc := .idleLoop }, ?_, ?_⟩
    · simp [tstep, hpc, hd, hv', hidle]
    · simp [spinning, hg, hidle, hst, hle]

theorem spinning_never_settles : ∀ (k : Nat) (l : TLoc), spinning c e l = true → settles c e o k l = false
  | 0, _, _ => rfl
  | k + 1, l, hs => by
    obtain ⟨l', ht, hs'⟩ := spinning_step c e o l hs
    unfold settles
    rw [ht]
    exact spinning_never_settles k l' hs'

end Kopf.C09
