/-
  C20 helper lemmas: the REPEATED cancellation (`rtCancel` while `run_tasks` stops the root tasks, since /repo 883284c).
  `InvK.cut`: once the daemon killer's `finally:` has been interrupted by it (`killerCut`) — or is about to be —, the
  startup/cleanup task is on its way out WITHOUT the cleanup activity (it was cancelled by the same call, in the same
  segment): the cleanup never begins beside daemons whose stoppers nobody awaited.
-/
import Kopf.Lemmas.C20_Reach
set_option linter.unusedSimpArgs false
set_option linter.unusedVariables false
namespace Kopf.C20

/-- `startup_cleanup_activities` is leaving without the cleanup activity: cancelled in its wait for the other root tasks
    (the cancellation is pending), or already in / past its `finally:` with an exception in flight -/
def scCancelPath (s : State) : Bool :=
  match s.sc with
  | .waitRoots => s.creq (.root .startupCleanup)
  | .stopCore p | .coreStopping p | .over p => p != .none
  | _ => false

theorem scLate_cases (sc : Sc) (h1 : scLate sc = true) (h2 : scPastWait sc = false) :
    sc = .waitRoots ∨ ∃ p, p ≠ Pend.none ∧ (sc = .stopCore p ∨ sc = .coreStopping p ∨ sc = .over p) := by
  cases sc with
  | stopCore p => cases p <;> simp_all [scLate, scPastWait]
  | coreStopping p => cases p <;> simp_all [scLate, scPastWait]
  | over p => cases p <;> simp_all [scLate, scPastWait]
  | _ => simp_all [scLate, scPastWait]

structure InvK (s : State) : Prop where
  calm : s.rt = .waiting →
    s.killerCut = false ∧ (s.st (.root .daemonKiller)).isStopping = false ∧ s.creq (.root .daemonKiller) = false
  late : s.rt ≠ .waiting → (s.st (.root .startupCleanup)).live = true →
    s.creq (.root .startupCleanup) = true ∨ scLate s.sc = true
  cut : (s.killerCut = true ∨ ((s.st (.root .daemonKiller)).isStopping = true ∧ s.creq (.root .daemonKiller) = true)) →
    scCancelPath s = true ∧ s.cleanupBegun = false

theorem InvK.init : InvK init := by
  constructor <;> simp [Kopf.C20.init, initSt, Root.guarded, Root.kind]

set_option maxHeartbeats 8000000 in
theorem InvK.preserved {cfg : Cfg} {s s' : State} {l : Label} (hB : InvB s) (hC : InvC s) (hI : InvK s)
    (h : step cfg s l = some s') : InvK s' := by
  have hb3 := hB.wkRoot
  have hc7 := hC.pastWait
  have hc8 := hC.cleanupB
  have hc9 := hC.waitingEarly
  have hc11 := hC.scOver
  have hc12 := hC.scLive
  have hlc : ∀ t : TS, t.live = true → t = .running ∨ t = .waitingFlag ∨ t.isStopping = true := by
    intro t; cases t <;> simp [TS.live, TS.isStopping]
  have hle : ∀ t : TS, t.live = false → t.ended = true ∨ t = .absent := by
    intro t; cases t <;> simp [TS.live, TS.ended]
  have hse : ∀ t : TS, t.isStopping = true → t.ended = false := by
    intro t; cases t <;> simp [TS.isStopping, TS.ended]
  have hsl := scLate_cases s.sc
  have hpw : scPastWait s.sc = true ∨ scPastWait s.sc = false := by cases scPastWait s.sc <;> simp
  obtain ⟨h1, h2, h3⟩ := hI
  cases l <;> simp only [step] at h
  all_goals (repeat' (split at h))
  all_goals (first | (cases h; done) | skip)
  all_goals (cases h)
  all_goals (refine ⟨?_, ?_, ?_⟩)
  all_goals (first | exact h1 | exact h2 | exact h3 | skip)
  all_goals (try simp only [kind_orchestrator_iff, kind_killer_iff, kind_flagChecker_iff, kind_ultimate_iff,
    kind_startupCleanup_iff, kind_coreWatch_iff] at *)
  all_goals (try subst_vars)
  all_goals (try dsimp only)
  all_goals (grind [upd, Root.kind, TS.active, TS.live, TS.ended, TS.isStopping, failTS, cancelSubs, cancelPingers,
    cancelRoots, cancelRootsV, Pend.ts, scPastWait, scEarly, scLate, scCancelPath])

theorem InvK.reach {cfg : Cfg} {s : State} (h : Reach cfg s) : InvK s :=
  Reach.induction (P := InvK) InvK.init
    (fun _ _ _ hr hI hs => InvK.preserved (InvB.reach hr) (InvC.reach hr) hI hs) s h

end Kopf.C20
