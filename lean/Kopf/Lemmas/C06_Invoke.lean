/-
  C06 helper lemmas for the sync branch of `invoke` (model: Kopf/Model/C06_Invoke.lean).
-/
import Kopf.Model.C06_Invoke
namespace Kopf.C06

/-- The invariant of the faithful variant: a done task has a returned function; a task that ended with the
function's value was never cancelled before. -/
def IInv (s : Inv) : Prop :=
  (s.done = true → s.returned = true) ∧ (s.fin = some .value → s.cancellation = false ∧ s.armed = false)

theorem iinv_init : IInv {} := by
  constructor <;> simp [Inv.done]

theorem iinv_step {s s' : Inv} {l : ILabel} (h : istep true s l = some s') (hi : IInv s) : IInv s' := by
  obtain ⟨fut, armed, late, cancellation, fin⟩ := s
  unfold IInv at *
  cases l with
  | cancel =>
    cases fin <;> simp [istep, Inv.done, Inv.returned] at h hi ⊢ <;> subst h <;> simp_all
  | ret raised =>
    cases fut <;> simp [istep, Inv.done, Inv.returned] at h hi ⊢
    subst h; simp_all
  | wake =>
    cases fin with
    | some f => simp [istep, Inv.done] at h
    | none =>
      cases armed <;> cases fut with
      | none => simp [istep, Inv.done, Inv.returned] at h ⊢ <;> subst h <;> simp
      | some r =>
        cases r <;> cases cancellation <;> cases late <;> simp [istep, Inv.done, Inv.returned] at h ⊢ <;> subst h <;> simp

theorem iinv_run : ∀ (ls : List ILabel) {s s' : Inv}, irun true s ls = some s' → IInv s → IInv s'
  | [], s, s', h, hi => by simp only [irun] at h; cases h; exact hi
  | l :: ls, s, s', h, hi => by
    simp only [irun] at h
    cases hs : istep true s l with
    | none => simp [hs] at h
    | some s1 =>
      simp only [hs, Option.bind] at h
      exact iinv_run ls h (iinv_step hs hi)

theorem iinv_reach {s : Inv} (h : IReach true s) : IInv s := by
  obtain ⟨ls, hl⟩ := h
  exact iinv_run ls hl iinv_init

theorem stopDelay_none_iff (done : Bool) (backoff timeout : Option Nat) (age polling : Nat) :
    stopDelay done backoff timeout age polling = none ↔ (done = true ∨ abandoned backoff timeout age) := by
  unfold stopDelay abandoned
  cases done with
  | true => simp
  | false =>
    cases backoff with
    | none =>
      cases timeout with
      | none => simp
      | some tt =>
        simp only [Bool.false_eq_true, if_false, Option.getD_none, false_or]
        constructor
        · intro h
          split at h
          · cases h
          · exact ⟨tt, rfl, by omega⟩
        · rintro ⟨t', ht, hle⟩
          cases ht
          split
          · omega
          · rfl
    | some bb =>
      cases timeout with
      | none =>
        simp only [Bool.false_eq_true, if_false, false_or]
        constructor
        · intro h
          split at h
          · cases h
          · cases h
        · rintro ⟨t', ht, _⟩
          cases ht
      | some tt =>
        simp only [Bool.false_eq_true, if_false, Option.getD_some, false_or]
        constructor
        · intro h
          split at h
          · cases h
          · split at h
            · cases h
            · exact ⟨tt, rfl, by omega⟩
        · rintro ⟨t', ht, hle⟩
          cases ht
          split
          · omega
          · split
            · omega
            · rfl

end Kopf.C06
