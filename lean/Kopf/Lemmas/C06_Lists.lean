/-
  C06 helper lemmas about the finalizer-list functions.
-/
import Kopf.Model.C06_Finalizer
namespace Kopf.C06

theorem filter_erase_of_mem (f : String) :
    ∀ l : List String, f ∈ l → (l.erase f).filter (· != f) = l.filter (· != f)
  | [], h => by cases h
  | a :: t, h => by
    by_cases ha : a = f
    · subst ha; simp
    · have hf : f ∈ t := by
        cases h with
        | head => exact absurd rfl ha
        | tail _ h => exact h
      have hbeq : (a == f) = false := by simpa using ha
      rw [List.erase_cons, hbeq]
      simp [ha, filter_erase_of_mem f t hf]

theorem count_erase_self_le (f : String) (l : List String) (n : Nat) (h : l.count f ≤ n + 1) :
    (l.erase f).count f ≤ n := by
  rw [List.count_erase_self]; omega

theorem allowLoop_eq_filter (f : String) :
    ∀ (n : Nat) (l : List String), l.count f ≤ n → allowLoop f n l = l.filter (· != f)
  | 0, l, h => by
    have : f ∉ l := by
      intro hm
      have := List.count_pos_iff.mpr hm
      omega
    simp only [allowLoop]
    symm
    rw [List.filter_eq_self]
    intro a ha
    simp only [bne_iff_ne, ne_eq]
    intro e; subst e; exact this ha
  | n + 1, l, h => by
    simp only [allowLoop]
    split
    · next hm =>
      rw [allowLoop_eq_filter f n _ (count_erase_self_le f l n h), filter_erase_of_mem f l hm]
    · next hm =>
      symm
      rw [List.filter_eq_self]
      intro a ha
      simp only [bne_iff_ne, ne_eq]
      intro e; subst e; exact hm ha

/-- The loop of `allow_deletion` computes "all occurrences removed, the rest in order";
the iteration bound `len(l)` is never what stops it. -/
theorem allowDeletion_eq_filter (f : String) (l : List String) :
    allowDeletion f l = l.filter (· != f) :=
  allowLoop_eq_filter f l.length l List.count_le_length

theorem mem_allowDeletion {f x : String} {l : List String} :
    x ∈ allowDeletion f l ↔ x ∈ l ∧ x ≠ f := by
  rw [allowDeletion_eq_filter]; simp

theorem mem_blockDeletion {f x : String} {l : List String} :
    x ∈ blockDeletion f l ↔ x ∈ l ∨ x = f := by
  unfold blockDeletion
  split
  · next h => constructor
              · intro hx; exact Or.inl hx
              · rintro (hx | rfl); exact hx; exact h
  · simp

theorem own_mem_block (f : String) (l : List String) : f ∈ blockDeletion f l :=
  mem_blockDeletion.mpr (Or.inr rfl)

theorem own_not_mem_allow (f : String) (l : List String) : f ∉ allowDeletion f l := by
  rw [mem_allowDeletion]; exact fun h => h.2 rfl

theorem filter_block (f : String) (l : List String) :
    (blockDeletion f l).filter (· != f) = l.filter (· != f) := by
  unfold blockDeletion
  split <;> simp

theorem filter_allow (f : String) (l : List String) :
    (allowDeletion f l).filter (· != f) = l.filter (· != f) := by
  rw [allowDeletion_eq_filter, List.filter_filter]; simp

theorem filter_apply (own : String) (fn : Fn) (l : List String) :
    (fn.apply own l).filter (· != own) = l.filter (· != own) := by
  cases fn
  · exact filter_block own l
  · exact filter_allow own l

theorem filter_applyFns (own : String) : ∀ (fns : List Fn) (l : List String),
    (applyFns own fns l).filter (· != own) = l.filter (· != own)
  | [], l => rfl
  | fn :: fns, l => by
    show (applyFns own fns (fn.apply own l)).filter _ = _
    rw [filter_applyFns own fns, filter_apply]

theorem applyFns_append (own : String) (a b : List Fn) (l : List String) :
    applyFns own (a ++ b) l = applyFns own b (applyFns own a l) := by
  simp [applyFns, List.foldl_append]

/-- Without a removal among the fns, nothing leaves the list. -/
theorem mem_applyFns_of_no_allow (own : String) : ∀ (fns : List Fn) (l : List String) (x : String),
    Fn.allow ∉ fns → x ∈ l → x ∈ applyFns own fns l
  | [], _, _, _, h => h
  | fn :: fns, l, x, hna, h => by
    show x ∈ applyFns own fns (fn.apply own l)
    apply mem_applyFns_of_no_allow own fns
    · intro hm; exact hna (List.mem_cons_of_mem _ hm)
    · cases fn
      · exact mem_blockDeletion.mpr (Or.inl h)
      · exact absurd (List.mem_cons_self) hna

/-- The own finalizer's fate is decided by the LAST fn. -/
theorem own_mem_applyFns_snoc (own : String) (fns : List Fn) (fn : Fn) (l : List String) :
    own ∈ applyFns own (fns ++ [fn]) l ↔ fn = Fn.block := by
  rw [applyFns_append]
  show own ∈ fn.apply own _ ↔ _
  cases fn
  · simp [Fn.apply, own_mem_block]
  · simp [Fn.apply, own_not_mem_allow]

/-- If the own finalizer leaves through the fns, a removal is among them. -/
theorem allow_mem_of_removed (own : String) (fns : List Fn) (l : List String)
    (h : own ∈ l) (h' : own ∉ applyFns own fns l) : Fn.allow ∈ fns := by
  by_cases hm : Fn.allow ∈ fns
  · exact hm
  · exact absurd (mem_applyFns_of_no_allow own fns l own hm h) h'

/-- Every fn of the model is one of the framework's own finalizer edits: nothing of a rejected
patch survives the filter of `process_resource_event`. -/
theorem carry_nil (fns : List Fn) : carry fns = [] := by
  unfold carry
  rw [List.filter_eq_nil_iff]
  intro f _
  cases f <;> decide

end Kopf.C06
