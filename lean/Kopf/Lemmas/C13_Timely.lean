/-
  C13 helper lemmas — what each label does, spelled out; the "own record is fresh" invariant of timely runs (views of any age).
-/
import Kopf.Lemmas.C13_Renew
namespace Kopf.C13

theorem mem_eraseAll {st : Status} {ids : List Identity} {j : Identity} {r : Rec} :
    (j, r) ∈ st.eraseAll ids ↔ (j, r) ∈ st ∧ j ∉ ids := by
  simp [Status.eraseAll, List.mem_filter]

theorem mem_staleCleaned {u : Int} {view : Status} {i j : Identity} {now : Int} :
    j ∈ staleCleaned u view i now ↔ j ≠ i ∧ ∃ r, (j, r) ∈ view ∧ r.dead u now = true := by
  simp only [staleCleaned, deadPeers, Status.peers, List.mem_map, List.mem_filter, Bool.and_eq_true, bne_iff_ne, ne_eq]
  constructor
  · rintro ⟨q, ⟨⟨e, he, rfl⟩, hd, hne⟩, rfl⟩
    exact ⟨hne, e.2, he, hd⟩
  · rintro ⟨hne, r, hm, hd⟩
    exact ⟨r.toPeer j, ⟨⟨(j, r), hm, rfl⟩, hd, hne⟩, rfl⟩

theorem marginT_le {u L : Int} (hu : 0 < u) (hL : 1 ≤ L) : 0 < marginT u L ∧ marginT u L ≤ L * u := by
  unfold marginT margin
  by_cases h2 : 2 ≤ L
  · simp only [h2, if_true]
    have h1 : 1 ≤ min 5 (L - 1) := by omega
    have h3 : min 5 (L - 1) ≤ L := by omega
    have := Int.mul_le_mul_of_nonneg_right h1 (Int.le_of_lt hu)
    have := Int.mul_le_mul_of_nonneg_right h3 (Int.le_of_lt hu)
    omega
  · have : L = 1 := by omega
    subst this
    simp only [h2, if_false]
    omega

/-! ### the own record of a running operator is fresh (timely runs, views of any age, two-step graceful stops) -/

/-- the invariant: a running operator that has touched once holds, under its identity, only records with its
    priority and lifetime whose deadline lies beyond the latest landing of its next touch. -/
def OwnFresh (u B : Int) (s : State) : Prop :=
  (∀ i o, s.ops i = some o → 1 ≤ o.lifetime ∧ 2 * B < marginT u o.lifetime) ∧
  ∀ i o k, s.ops i = some o → o.alive = true → o.nextKA = some k →
    s.now ≤ k + B ∧ k - (o.lifetime * u - marginT u o.lifetime) ≤ s.now ∧ (∃ r, (i, r) ∈ s.status) ∧
    ∀ r, (i, r) ∈ s.status → r.priority = o.prio ∧ r.lifetime = o.lifetime ∧ k + B < r.lastseen + o.lifetime * u

theorem ownFresh_init (u B : Int) : OwnFresh u B init :=
  ⟨fun i o h => by simp [init] at h, fun i o k h => by simp [init] at h⟩

/-- a touch landing `lag ≤ B` ticks after it was stamped re-establishes the per-record part of the invariant -/
theorem touch_record_ok {u B L p now k : Int} {lag : Nat} (hu : 0 < u) (hL : 1 ≤ L) (hB : 2 * B < marginT u L)
    (hlag : (lag : Int) ≤ B) (hk : k - (L * u - marginT u L) ≤ now) :
    touchVal u p L (now - lag) = some { priority := p, lifetime := L, lastseen := now - lag } ∧
      k + B < (now - lag) + L * u := by
  refine ⟨touchVal_pos hu hL, ?_⟩
  omega

theorem ownFresh_deliver {u B : Int} {s s' : State} {j : Identity} (hu : 0 < u)
    (hi : OwnFresh u B s) (h : step u s (.deliver j) = some s') : OwnFresh u B s' := by
  obtain ⟨hcfg, hinv⟩ := hi
  obtain ⟨oj, hoj, _, hnow, hst, _, _, hops⟩ := deliver_spec h
  refine ⟨?_, ?_⟩
  · intro i o ho
    rw [hops] at ho
    by_cases hij : i = j
    · subst hij; simp at ho; subst ho; exact hcfg i oj hoj
    · rw [updOp_other _ _ hij] at ho; exact hcfg i o ho
  · intro i o k ho hal hk
    have key : ∀ o0, s.ops i = some o0 → o0.alive = true → o0.nextKA = some k → o0.prio = o.prio → o0.lifetime = o.lifetime →
        s'.now ≤ k + B ∧ k - (o.lifetime * u - marginT u o.lifetime) ≤ s'.now ∧ (∃ r, (i, r) ∈ s'.status) ∧
        ∀ r, (i, r) ∈ s'.status → r.priority = o.prio ∧ r.lifetime = o.lifetime ∧ k + B < r.lastseen + o.lifetime * u := by
      intro o0 ho0 hal0 hk0 hp hl
      obtain ⟨h1, h2, ⟨r0, hr0⟩, h4⟩ := hinv i o0 k ho0 hal0 hk0
      rw [hnow, hst, ← hp, ← hl]
      refine ⟨h1, h2, ⟨r0, List.mem_filter.mpr ⟨hr0, ?_⟩⟩, fun r hm => h4 r (List.mem_filter.mp hm).1⟩
      have hfresh : r0.dead u s.now = false := by
        rw [dead_false_iff]
        obtain ⟨_, hlt, hdl⟩ := h4 r0 hr0
        rw [hlt]; omega
      simp [hfresh]
    rw [hops] at ho
    by_cases hij : i = j
    · subst hij
      simp at ho; subst ho
      exact key oj hoj hal hk rfl rfl
    · rw [updOp_other _ _ hij] at ho
      exact key o ho hal hk rfl rfl

theorem ownFresh_step {u B : Int} {s s' : State} {l : Label} (hu : 0 < u) (hB0 : 0 ≤ B)
    (hi : OwnFresh u B s) (ha : Allowed u B s l) (h : step u s l = some s') : OwnFresh u B s' := by
  obtain ⟨hcfg, hinv⟩ := hi
  cases l with
  | start j p L =>
    obtain ⟨hnow, hst, _, _, hops⟩ := start_spec h
    obtain ⟨hL, hm⟩ := ha
    refine ⟨?_, ?_⟩
    · intro i o ho
      rw [hops] at ho
      by_cases hij : i = j
      · subst hij; simp at ho; subst ho; exact ⟨hL, hm⟩
      · rw [updOp_other _ _ hij] at ho; exact hcfg i o ho
    · intro i o k ho hal hk
      rw [hops] at ho
      by_cases hij : i = j
      · subst hij; simp at ho; subst ho; simp at hk
      · rw [updOp_other _ _ hij] at ho
        rw [hnow, hst]; exact hinv i o k ho hal hk
  | keepalive j lag =>
    obtain ⟨oj, hoj, _, hnow, _, hst, hops⟩ := keepalive_spec h
    obtain ⟨hLj, hmj⟩ := hcfg j oj hoj
    have hml := marginT_le hu hLj
    have hrec := touch_record_ok (p := oj.prio) (now := s.now) (k := s.now + (oj.lifetime * u - marginT u oj.lifetime))
      hu hLj hmj ha (by omega)
    refine ⟨?_, ?_⟩
    · intro i o ho
      rw [hops] at ho
      by_cases hij : i = j
      · subst hij; simp at ho; subst ho; exact ⟨hLj, hmj⟩
      · rw [updOp_other _ _ hij] at ho; exact hcfg i o ho
    · intro i o k ho hal hk
      rw [hops] at ho
      by_cases hij : i = j
      · subst hij
        simp at ho; subst ho
        simp only [Option.some.injEq] at hk
        subst hk
        rw [hnow, hst, hrec.1]
        dsimp only
        refine ⟨by omega, by omega, ⟨_, mem_set.mpr (Or.inl ⟨rfl, rfl⟩)⟩, ?_⟩
        intro r hm
        rcases mem_set.mp hm with ⟨_, rfl⟩ | ⟨hne, _⟩
        · exact ⟨rfl, rfl, hrec.2⟩
        · exact absurd rfl hne
      · rw [updOp_other _ _ hij] at ho
        obtain ⟨h1, h2, ⟨r0, hr0⟩, h4⟩ := hinv i o k ho hal hk
        rw [hnow, hst]
        exact ⟨h1, h2, ⟨r0, (mem_patch_other (Ne.symm hij)).mpr hr0⟩,
          fun r hm => h4 r ((mem_patch_other (Ne.symm hij)).mp hm)⟩
  | wake j lag =>
    obtain ⟨oj, hoj, _, hnow, hst, hops, _⟩ := wake_spec h
    obtain ⟨hLj, hmj⟩ := hcfg j oj hoj
    refine ⟨?_, ?_⟩
    · intro i o ho
      rw [hops] at ho
      by_cases hij : i = j
      · subst hij; simp at ho; subst ho; exact ⟨hLj, hmj⟩
      · rw [updOp_other _ _ hij] at ho; exact hcfg i o ho
    · intro i o k ho hal hk
      rw [hops] at ho
      by_cases hij : i = j
      · subst hij
        simp at ho; subst ho
        obtain ⟨h1, h2, _, _⟩ := hinv i oj k hoj hal hk
        have hrec := touch_record_ok (p := oj.prio) (now := s.now) (k := k) hu hLj hmj ha h2
        rw [hnow, hst, hrec.1]
        refine ⟨h1, h2, ⟨_, mem_set.mpr (Or.inl ⟨rfl, rfl⟩)⟩, ?_⟩
        intro r hm
        rcases mem_set.mp hm with ⟨_, rfl⟩ | ⟨hne, _⟩
        · exact ⟨rfl, rfl, hrec.2⟩
        · exact absurd rfl hne
      · rw [updOp_other _ _ hij] at ho
        obtain ⟨h1, h2, ⟨r0, hr0⟩, h4⟩ := hinv i o k ho hal hk
        rw [hnow, hst]
        exact ⟨h1, h2, ⟨r0, (mem_patch_other (Ne.symm hij)).mpr hr0⟩,
          fun r hm => h4 r ((mem_patch_other (Ne.symm hij)).mp hm)⟩
  | exit j =>
    obtain ⟨oj, hoj, _, hnow, hst, hops, _⟩ := exit_spec h
    refine ⟨?_, ?_⟩
    · intro i o ho
      rw [hops] at ho
      by_cases hij : i = j
      · subst hij; simp at ho; subst ho; exact hcfg i oj hoj
      · rw [updOp_other _ _ hij] at ho; exact hcfg i o ho
    · intro i o k ho hal hk
      rw [hops] at ho
      by_cases hij : i = j
      · subst hij; simp at ho; subst ho; simp at hal
      · rw [updOp_other _ _ hij] at ho
        obtain ⟨h1, h2, ⟨r0, hr0⟩, h4⟩ := hinv i o k ho hal hk
        rw [hnow, hst]
        exact ⟨h1, h2, ⟨r0, mem_erase.mpr ⟨hr0, hij⟩⟩, fun r hm => h4 r (mem_erase.mp hm).1⟩
  | exitLost j =>
    obtain ⟨oj, hoj, _, hnow, hst, hops, _⟩ := exitLost_spec h
    refine ⟨?_, ?_⟩
    · intro i o ho
      rw [hops] at ho
      by_cases hij : i = j
      · subst hij; simp at ho; subst ho; exact hcfg i oj hoj
      · rw [updOp_other _ _ hij] at ho; exact hcfg i o ho
    · intro i o k ho hal hk
      rw [hops] at ho
      by_cases hij : i = j
      · subst hij; simp at ho; subst ho; simp at hal
      · rw [updOp_other _ _ hij] at ho
        rw [hnow, hst]; exact hinv i o k ho hal hk
  | exitEnd j =>
    obtain ⟨oj, hoj, _, _, hnow, hst, _, hops⟩ := exitEnd_spec h
    refine ⟨?_, ?_⟩
    · intro i o ho
      rw [hops] at ho
      by_cases hij : i = j
      · subst hij; simp at ho; subst ho; exact hcfg i oj hoj
      · rw [updOp_other _ _ hij] at ho; exact hcfg i o ho
    · intro i o k ho hal hk
      rw [hops] at ho
      by_cases hij : i = j
      · subst hij; simp at ho; subst ho; simp at hal
      · rw [updOp_other _ _ hij] at ho
        obtain ⟨h1, h2, ⟨r0, hr0⟩, h4⟩ := hinv i o k ho hal hk
        rw [hnow, hst]
        exact ⟨h1, h2, ⟨r0, mem_erase.mpr ⟨hr0, hij⟩⟩, fun r hm => h4 r (mem_erase.mp hm).1⟩
  | exitBegin j =>
    obtain ⟨oj, hoj, _, _, hnow, hst, _, hops⟩ := exitBegin_spec h
    refine ⟨?_, ?_⟩
    · intro i o ho
      rw [hops] at ho
      by_cases hij : i = j
      · subst hij; simp at ho; subst ho; exact hcfg i oj hoj
      · rw [updOp_other _ _ hij] at ho; exact hcfg i o ho
    · intro i o k ho hal hk
      rw [hops] at ho
      by_cases hij : i = j
      · subst hij
        simp at ho; subst ho
        rw [hnow, hst]; exact hinv i oj k hoj hal hk
      · rw [updOp_other _ _ hij] at ho
        rw [hnow, hst]; exact hinv i o k ho hal hk
  | wakeIssue j => exact absurd ha (by simp [Allowed])
  | land j => exact absurd ha (by simp [Allowed])
  | keepaliveFail j w => exact absurd ha (by simp [Allowed])
  | kill j =>
    obtain ⟨oj, hoj, _, hnow, hst, hops, _⟩ := kill_spec h
    refine ⟨?_, ?_⟩
    · intro i o ho
      rw [hops] at ho
      by_cases hij : i = j
      · subst hij; simp at ho; subst ho; exact hcfg i oj hoj
      · rw [updOp_other _ _ hij] at ho; exact hcfg i o ho
    · intro i o k ho hal hk
      rw [hops] at ho
      by_cases hij : i = j
      · subst hij; simp at ho; subst ho; simp at hal
      · rw [updOp_other _ _ hij] at ho
        rw [hnow, hst]; exact hinv i o k ho hal hk
  | deliver j => exact ownFresh_deliver hu ⟨hcfg, hinv⟩ h
  | deliverStale j view vv =>
    -- whatever the view: a clean naming the current version is `deliver`; one naming an older version is refused
    by_cases hv : vv = s.ver
    · exact ownFresh_deliver hu ⟨hcfg, hinv⟩ (stale_current h hv).2
    · obtain ⟨oj, hoj, _, _, hnow, hst, _, hops⟩ := stale_refused_spec h hv
      refine ⟨?_, ?_⟩
      · intro i o ho
        rw [hops] at ho
        by_cases hij : i = j
        · subst hij; simp at ho; subst ho; exact hcfg i oj hoj
        · rw [updOp_other _ _ hij] at ho; exact hcfg i o ho
      · intro i o k ho hal hk
        rw [hops] at ho
        by_cases hij : i = j
        · subst hij
          simp at ho; subst ho
          rw [hnow, hst]; exact hinv i oj k hoj hal hk
        · rw [updOp_other _ _ hij] at ho
          rw [hnow, hst]; exact hinv i o k ho hal hk
  | tick d =>
    simp only [step, Option.some.injEq] at h
    subst h
    refine ⟨hcfg, ?_⟩
    intro i o k ho hal hk
    obtain ⟨h1, h2, h3, h4⟩ := hinv i o k ho hal hk
    exact ⟨ha i o k ho hal hk, by simp only; omega, h3, h4⟩
  | expire j =>
    have hge := (foldl_max_ge u (s.status.filter (fun e => e.1 == j)) s.now).1
    simp only [step, Option.some.injEq] at h
    subst h
    refine ⟨hcfg, ?_⟩
    intro i o k ho hal hk
    obtain ⟨h1, h2, h3, h4⟩ := hinv i o k ho hal hk
    refine ⟨ha i o k ho hal hk, ?_, h3, h4⟩
    have : s.now ≤ latestDeadline u s.status j s.now := hge
    simp only; omega
  | foreign j r =>
    simp only [step, Option.some.injEq] at h
    subst h
    refine ⟨hcfg, ?_⟩
    intro i o k ho hal hk
    have hij : j ≠ i := by
      intro e; subst e
      have : s.ops j = none := ha
      rw [this] at ho; cases ho
    obtain ⟨h1, h2, ⟨r0, hr0⟩, h4⟩ := hinv i o k ho hal hk
    exact ⟨h1, h2, ⟨r0, (mem_patch_other hij).mpr hr0⟩, fun r' hm => h4 r' ((mem_patch_other hij).mp hm)⟩

theorem ownFresh_timely {u B : Int} {s : State} (hu : 0 < u) (hB0 : 0 ≤ B) (h : Timely u B s) : OwnFresh u B s := by
  induction h with
  | init => exact ownFresh_init u B
  | step l _ ha hs ih => exact ownFresh_step hu hB0 ih ha hs

/-- labels whose admissibility does not depend on the state -/
def staticAllowed (u B : Int) : Label → Bool
  | .start _ _ L => decide (1 ≤ L ∧ 2 * B < marginT u L)
  | .keepalive _ lag => decide ((lag : Int) ≤ B)
  | .wake _ lag => decide ((lag : Int) ≤ B)
  | .exit _ | .exitLost _ | .exitBegin _ | .exitEnd _ | .kill _ | .deliver _ | .deliverStale _ _ _ => true
  | _ => false

theorem timely_run_static {u B : Int} : ∀ (ls : List Label) (s s' : State), Timely u B s →
    ls.all (staticAllowed u B) = true → run u s ls = some s' → Timely u B s' := by
  intro ls
  induction ls with
  | nil => intro s s' ht _ h; simp only [run, Option.some.injEq] at h; subst h; exact ht
  | cons l rest ih =>
    intro s s' ht hall h
    simp only [List.all_cons, Bool.and_eq_true] at hall
    simp only [run] at h
    cases hs : step u s l with
    | none => simp [hs] at h
    | some s1 =>
      simp only [hs] at h
      refine ih s1 s' (Timely.step l ht ?_ hs) hall.2 h
      cases l <;> simp_all [staticAllowed, Allowed]

/-- a state with exactly two operators: case analysis on `ops` -/
theorem ops_of_two {s : State} {a b : Identity} {oa ob : Op} (ha : s.ops a = some oa) (hb : s.ops b = some ob)
    (hn : ∀ i, i ≠ a → i ≠ b → s.ops i = none) :
    ∀ i o, s.ops i = some o → (i = a ∧ o = oa) ∨ (i = b ∧ o = ob) := by
  intro i o h
  by_cases h1 : i = a
  · subst h1; rw [ha] at h; injection h with e; exact Or.inl ⟨rfl, e.symm⟩
  · by_cases h2 : i = b
    · subst h2; rw [hb] at h; injection h with e; exact Or.inr ⟨rfl, e.symm⟩
    · rw [hn i h1 h2] at h; cases h

/-- an identity that was never started has no operator entry -/
theorem ops_none_of_not_started {u : Int} {i : Identity} : ∀ (ls : List Label) (s s' : State), s.ops i = none →
    (∀ l ∈ ls, ∀ p L, l ≠ .start i p L) → run u s ls = some s' → s'.ops i = none := by
  intro ls
  induction ls with
  | nil => intro s s' hn _ h; simp only [run, Option.some.injEq] at h; subst h; exact hn
  | cons l rest ih =>
    intro s s' hn hall h
    simp only [run] at h
    cases hs : step u s l with
    | none => simp [hs] at h
    | some s1 =>
      simp only [hs] at h
      refine ih s1 s' ?_ (fun l hl => hall l (List.mem_cons_of_mem _ hl)) h
      have upd : ∀ {j : Identity} {oj onew : Op}, s.ops j = some oj → s1.ops = updOp s.ops j onew → s1.ops i = none := by
        intro j oj onew hj hops
        have hij : i ≠ j := by intro e; subst e; rw [hn] at hj; cases hj
        rw [hops, updOp_other _ _ hij]; exact hn
      cases l with
      | start j p L =>
        obtain ⟨_, _, _, _, hops⟩ := start_spec hs
        have hij : i ≠ j := fun e => hall _ List.mem_cons_self p L (by rw [e])
        rw [hops, updOp_other _ _ hij]; exact hn
      | keepalive j lag => obtain ⟨oj, hj, _, _, _, _, hops⟩ := keepalive_spec hs; exact upd hj hops
      | keepaliveFail j w => obtain ⟨oj, hj, _, _, _, _, hops⟩ := keepaliveFail_spec hs; exact upd hj hops
      | exit j => obtain ⟨oj, hj, _, _, _, hops, _⟩ := exit_spec hs; exact upd hj hops
      | exitLost j => obtain ⟨oj, hj, _, _, _, hops, _⟩ := exitLost_spec hs; exact upd hj hops
      | exitBegin j => obtain ⟨oj, hj, _, _, _, _, _, hops⟩ := exitBegin_spec hs; exact upd hj hops
      | exitEnd j => obtain ⟨oj, hj, _, _, _, _, _, hops⟩ := exitEnd_spec hs; exact upd hj hops
      | kill j => obtain ⟨oj, hj, _, _, _, hops, _⟩ := kill_spec hs; exact upd hj hops
      | deliver j => obtain ⟨oj, hj, _, _, _, _, _, hops⟩ := deliver_spec hs; exact upd hj hops
      | deliverStale j v vv => obtain ⟨oj, _, hj, _, _, _, _, _, _, hops, _⟩ := stale_spec hs; exact upd hj hops
      | wake j lag => obtain ⟨oj, hj, _, _, _, hops, _⟩ := wake_spec hs; exact upd hj hops
      | wakeIssue j => obtain ⟨oj, hj, _, _, _, _, _, hops⟩ := wakeIssue_spec hs; exact upd hj hops
      | land j => obtain ⟨oj, _, hj, _, _, _, hops, _⟩ := land_spec hs; exact upd hj hops
      | tick d => simp only [step, Option.some.injEq] at hs; subst hs; exact hn
      | expire j => simp only [step, Option.some.injEq] at hs; subst hs; exact hn
      | foreign j r => simp only [step, Option.some.injEq] at hs; subst hs; exact hn

theorem reachable_run {u : Int} : ∀ (ls : List Label) (s s' : State), Reachable u s → run u s ls = some s' → Reachable u s' := by
  intro ls
  induction ls with
  | nil => intro s s' ht h; simp only [run, Option.some.injEq] at h; subst h; exact ht
  | cons l rest ih =>
    intro s s' ht h
    simp only [run] at h
    cases hs : step u s l with
    | none => simp [hs] at h
    | some s1 => simp only [hs] at h; exact ih s1 s' (Reachable.step l ht hs) h

theorem timely_reachable {u B : Int} {s : State} (h : Timely u B s) : Reachable u s := by
  induction h with
  | init => exact Reachable.init
  | step l _ _ hs ih => exact Reachable.step l ih hs

/-! ### a decidable check of `Allowed` along a concrete run (all operators among `ids`) -/

def opOk (s : State) (i : Identity) (f : Op → Bool) : Bool :=
  match s.ops i with | some o => f o | none => true

def allowedOn (u B : Int) (ids : List Identity) (s : State) : Label → Bool
  | .start i _ L => ids.contains i && decide (1 ≤ L ∧ 2 * B < marginT u L)
  | .keepalive _ lag => decide ((lag : Int) ≤ B)
  | .wake _ lag => decide ((lag : Int) ≤ B)
  | .tick d => ids.all (fun i => opOk s i (fun o => !o.alive ||
      (match o.nextKA with | some k => decide (s.now + d ≤ k + B) | none => true)))
  | .expire j => ids.all (fun i => opOk s i (fun o => !o.alive ||
      (match o.nextKA with | some k => decide (latestDeadline u s.status j s.now ≤ k + B) | none => true)))
  | .wakeIssue _ => false
  | .land _ => false
  | .keepaliveFail _ _ => false
  | .foreign j _ => (s.ops j).isNone
  | _ => true

theorem allowedOn_sound {u B : Int} {ids : List Identity} {s : State} {l : Label}
    (hinv : ∀ i, i ∉ ids → s.ops i = none) (h : allowedOn u B ids s l = true) : Allowed u B s l := by
  have key : ∀ (f : Op → Bool), ids.all (fun i => opOk s i f) = true → ∀ i o, s.ops i = some o → f o = true := by
    intro f hall i o ho
    by_cases hi : i ∈ ids
    · have := List.all_eq_true.mp hall i hi
      simpa [opOk, ho] using this
    · rw [hinv i hi] at ho; cases ho
  cases l with
  | start i p L => simp only [allowedOn, Bool.and_eq_true, decide_eq_true_eq] at h; exact h.2
  | keepalive i lag => simpa [allowedOn, Allowed] using h
  | wake i lag => simpa [allowedOn, Allowed] using h
  | tick d =>
    intro i o k ho ha hk
    have := key _ h i o ho
    simpa [ha, hk] using this
  | expire j =>
    intro i o k ho ha hk
    have := key _ h i o ho
    simpa [ha, hk] using this
  | deliverStale i view vv => trivial
  | exitBegin i => trivial
  | wakeIssue i => simp [allowedOn] at h
  | land i => simp [allowedOn] at h
  | keepaliveFail i w => simp [allowedOn] at h
  | foreign j r =>
    simp only [allowedOn, Option.isNone_iff_eq_none] at h
    exact h
  | exit i => trivial
  | exitLost i => trivial
  | exitEnd i => trivial
  | kill i => trivial
  | deliver i => trivial

def timelyRunOn (u B : Int) (ids : List Identity) : State → List Label → Bool
  | _, [] => true
  | s, l :: ls => allowedOn u B ids s l &&
      (match step u s l with | some s1 => timelyRunOn u B ids s1 ls | none => true)

/-- a concrete run whose every step passes the decidable check is a timely run -/
theorem timely_run_on {u B : Int} (ids : List Identity) : ∀ (ls : List Label) (s s' : State), Timely u B s →
    (∀ i, i ∉ ids → s.ops i = none) → timelyRunOn u B ids s ls = true → run u s ls = some s' → Timely u B s' := by
  intro ls
  induction ls with
  | nil => intro s s' ht _ _ h; simp only [run, Option.some.injEq] at h; subst h; exact ht
  | cons l rest ih =>
    intro s s' ht hinv hall h
    simp only [timelyRunOn, Bool.and_eq_true] at hall
    simp only [run] at h
    cases hs : step u s l with
    | none => simp [hs] at h
    | some s1 =>
      simp only [hs] at h hall
      have hinv1 : ∀ i, i ∉ ids → s1.ops i = none := by
        intro i hi
        refine ops_none_of_not_started [l] s s1 (hinv i hi) ?_ (show run u s [l] = some s1 by simp only [run, hs])
        intro l' hl' p L e
        simp only [List.mem_cons, List.mem_nil_iff, or_false] at hl'
        subst hl'
        subst e
        have := hall.1
        simp only [allowedOn, Bool.and_eq_true, List.contains_iff_mem] at this
        exact hi this.1
      exact ih s1 s' (Timely.step l ht (allowedOn_sound hinv hall.1) hs) hinv1 hall.2 h

end Kopf.C13
