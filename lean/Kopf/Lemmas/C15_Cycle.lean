/-
  C15 helper lemmas about the cycle model: what `cycleAt` does to an object that nothing matches
  (the case analysis behind `stealth_exact_at`; a file of its own for the build time).
-/
import Kopf.Lemmas.C15_Match
namespace Kopf.C15

-- ---------------------------------------------------------------------------------------------
-- the cycle on an object that nothing matches

section Unmatched
variable {V : Type} [PyVal V]

omit [PyVal V] in
/-- no handler of this resource at all: nothing is owned, nothing is purged -/
theorem purgeIds_of_no_handlers (hs : List (Handler V)) (records : List (String × List String))
    (h : hasHandlers hs = false) : purgeIds hs records = [] := by
  have hown : ownedIds hs = [] := by
    simp only [hasHandlers, List.any_eq_false] at h
    simp only [ownedIds, ids, List.map_eq_nil_iff, List.filter_eq_nil_iff]
    intro x hx; simpa using h x hx
  simp [purgeIds, hown]

/-- (the proof of `stealth_exact_at` in Props/C15.lean, kept here for the build time of that file):
    EVERY variant of the code, with or without the blind purge -/
theorem cycle_unmatched (v : Repairs)
    (r : Registry V) (cs : Causes V) (o : Obj) (stopped : List String)
    (hpre : prematchAny r.changing cs.changing = false)
    (hw : ∀ h ∈ r.watching, matchHandler h cs.watching = false)
    (hs : ∀ h ∈ r.spawning, matchHandler h cs.spawning = false) :
    cycleAt v r cs o stopped =
      (if o.carriedEff then [Effect.carried] else []) ++
      purgeEffect (blindPurged v r.changing o.records) ++
      (if o.blocked then [Effect.removeFinalizer] else []) ++
      (if !o.deletedEvent && o.ongoing && o.blocked && !(hasHandlers r.spawning && o.lingering)
        then [Effect.removeFinalizer] else []) ++
      (if !o.deletedEvent && (hasHandlers r.spawning && o.lingering) && !o.carriedEff &&
          (blindPurged v r.changing o.records).isEmpty && !o.blocked
        then [Effect.touch] else []) := by
  have e1 : iterPlain r.watching cs.watching [] = [] := by
    simp only [iterPlain, List.filter_eq_nil_iff]
    intro h hm; simp [selPlain, selPlainCore, selAtoms, hw h hm]
  have e2 : iterPlain r.spawning cs.spawning stopped = [] := by
    simp only [iterPlain, List.filter_eq_nil_iff]
    intro h hm; simp [selPlain, selPlainCore, selAtoms, hs h hm]
  have e3 : requiresFinalizerSpawning r.spawning cs.spawning stopped = false := by
    simp only [requiresFinalizerSpawning, List.any_eq_false]
    intro h hm; simp [reqFinSpawningCore, selAtoms, hs h hm]
  rcases o with ⟨d, g, b, c, co, l, hd, res, recs, t⟩
  -- nothing of the changing kind is live after the blind gate: no early exit, whatever the patch holds
  generalize hne : patchNonEmpty v ⟨d, g, b, c, co, l, hd, res, recs, t⟩ = ne
  cases hb : v.blindPurge
  · -- blind again (/repo ad4ec08, and the code before 423b86f): nothing is purged
    simp only [cycleAt, cycleFull, finishCycle, hne, hb, hpre, e1, e2, e3, getHandlersPlain, dedup, dedupBy, dedupByAux,
      ids, blindCore, addingCore, removingCore, mustBlockCore, releaseCore, earlyExitCore, touchCore, waitingCore,
      blindPurged, purgeEffect,
      Obj.carriedEff, List.map_nil, List.isEmpty_nil, Bool.not_true, Bool.and_false, Bool.false_eq_true, if_false,
      List.append_nil, Bool.not_false, Bool.and_true, Bool.true_and, Bool.false_and, if_true]
    cases hC : hasHandlers r.changing <;>
    cases hS : hasHandlers r.spawning <;>
    cases d <;> cases g <;> cases b <;> cases c <;> cases co <;> cases l <;>
      simp
  · -- with the blind purge of /repo 423b86f
    simp only [cycleAt, cycleFull, finishCycle, hne, hb, hpre, e1, e2, e3, getHandlersPlain, dedup, dedupBy, dedupByAux,
      ids, blindCore, addingCore, removingCore, mustBlockCore, releaseCore, earlyExitCore, touchCore, waitingCore,
      blindPurged,
      Obj.carriedEff, List.map_nil, List.isEmpty_nil, Bool.not_true, Bool.and_false, Bool.false_eq_true, if_false,
      List.append_nil, Bool.not_false, Bool.and_true, Bool.true_and, if_true]
    cases hC : hasHandlers r.changing
    · have hp := purgeIds_of_no_handlers r.changing recs hC
      cases hS : hasHandlers r.spawning <;>
      cases d <;> cases g <;> cases b <;> cases c <;> cases co <;> cases l <;>
        simp [hp, purgeEffect]
    · cases hP : (purgeIds r.changing recs).isEmpty <;>
      cases hS : hasHandlers r.spawning <;>
      cases d <;> cases g <;> cases b <;> cases c <;> cases co <;> cases l <;>
        simp [hP, purgeEffect]

end Unmatched

end Kopf.C15
