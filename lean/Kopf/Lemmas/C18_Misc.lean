/-
  C18 helper lemmas, part 5: `pickMin` (head of Python's stable sort by key) and `dropEmpty`.
-/
import Kopf.Lemmas.C18_Spec
namespace Kopf.C18
open Kopf Kopf.J
set_option linter.unusedSimpArgs false

theorem pickMin_eq_none (es : List Err) : pickMin es = none ↔ es = [] := by
  cases es with
  | nil => simp [pickMin]
  | cons e rest =>
    simp only [pickMin]
    cases pickMin rest with
    | none => simp
    | some m => by_cases h : prio m.kind < prio e.kind <;> simp [h]

/-- the chosen error is the first one among those with the minimal key -/
theorem pickMin_spec (es : List Err) (m : Err) (h : pickMin es = some m) :
    ∃ pre post, es = pre ++ m :: post ∧ (∀ e ∈ pre, prio m.kind < prio e.kind) ∧
      (∀ e ∈ post, prio m.kind ≤ prio e.kind) := by
  induction es generalizing m with
  | nil => simp [pickMin] at h
  | cons e rest ih =>
    simp only [pickMin] at h
    cases hr : pickMin rest with
    | none =>
      simp [hr] at h; subst h
      have : rest = [] := (pickMin_eq_none rest).1 hr
      subst this
      exact ⟨[], [], rfl, by simp, by simp⟩
    | some m0 =>
      simp only [hr] at h
      obtain ⟨pre0, post0, hdec, hpre, hpost⟩ := ih m0 hr
      by_cases hlt : prio m0.kind < prio e.kind
      · simp [hlt] at h; subst h
        refine ⟨e :: pre0, post0, by rw [hdec]; rfl, ?_, hpost⟩
        intro x hx
        rcases List.mem_cons.1 hx with hx | hx
        · rw [hx]; exact hlt
        · exact hpre x hx
      · simp [hlt] at h; subst h
        refine ⟨[], rest, rfl, by simp, ?_⟩
        intro x hx
        have hle : prio e.kind ≤ prio m0.kind := Nat.le_of_not_lt hlt
        rw [hdec] at hx
        rcases List.mem_append.1 hx with hx | hx
        · exact Nat.le_trans hle (Nat.le_of_lt (hpre x hx))
        · rcases List.mem_cons.1 hx with hx | hx
          · rw [hx]; exact hle
          · exact Nat.le_trans hle (hpost x hx)

theorem mem_errorsOf (outs : List Outcome) (e : Err) : e ∈ errorsOf outs ↔ some e ∈ outs := by
  simp [errorsOf, List.mem_filterMap]

theorem errorsOf_eq_nil (outs : List Outcome) : errorsOf outs = [] ↔ ∀ o ∈ outs, o = none := by
  induction outs with
  | nil => simp [errorsOf]
  | cons o rest ih =>
    cases o with
    | none => simp [errorsOf, ih]
    | some e => simp [errorsOf]

/-- (definitional; demoted from the property theorems) -/
theorem status_code_message (e : Err) :
    statusCode e = (if e.kind = .admission then
                      (match e.code with
                       | some c => if c = 0 then 500 else c
                       | none => 500)
                    else 500) ∧
    message e = (if e.str = "" then e.repr else e.str) := by
  constructor
  · rcases e with ⟨k, c, s, r⟩
    cases k <;> cases c <;> simp [statusCode]
  · by_cases hs : e.str = "" <;> simp [message, hs]


/-! ### `dropEmpty` keeps the leaf function (on well-formed values) -/
theorem dropEmptyKvs_cons_empty (k : String) (v : J) (rest : List (String × J))
    (h : dropEmpty v = .obj []) : dropEmptyKvs ((k, v) :: rest) = dropEmptyKvs rest := by
  rw [dropEmptyKvs, h]

theorem dropEmptyKvs_cons_nonempty (k : String) (v : J) (rest : List (String × J))
    (h : dropEmpty v ≠ .obj []) : dropEmptyKvs ((k, v) :: rest) = (k, dropEmpty v) :: dropEmptyKvs rest := by
  rw [dropEmptyKvs]
  split
  · rename_i hd; exact absurd hd h
  · rfl

theorem dropEmptyKvs_keys : ∀ (kvs : List (String × J)) (k : String),
    (kvs.any (·.1 == k)) = false → ((dropEmptyKvs kvs).any (·.1 == k)) = false
  | [], _, _ => by simp [dropEmptyKvs]
  | (k', v) :: rest, k, h => by
      simp only [List.any_cons, Bool.or_eq_false_iff] at h
      by_cases hd : dropEmpty v = .obj []
      · rw [dropEmptyKvs_cons_empty _ _ _ hd]; exact dropEmptyKvs_keys rest k h.2
      · rw [dropEmptyKvs_cons_nonempty _ _ _ hd]
        simp only [List.any_cons, Bool.or_eq_false_iff]; exact ⟨h.1, dropEmptyKvs_keys rest k h.2⟩

theorem lookup_none_of_any {k : String} : ∀ {xs : List (String × J)}, (xs.any (·.1 == k)) = false →
    lookup k xs = none
  | [], _ => rfl
  | (k', v) :: rest, h => by
      simp only [List.any_cons, Bool.or_eq_false_iff, beq_eq_false_iff_ne] at h
      simp [J.lookup, h.1, lookup_none_of_any h.2]

mutual
  theorem dropEmpty_leaf : ∀ (j : J), J.wf j = true → ∀ q, leafAt (dropEmpty j) q = leafAt j q
    | .obj kvs, h, q => by
        rw [dropEmpty]
        cases q with
        | nil => rfl
        | cons k qs =>
          rw [leafAt_obj_cons, leafAt_obj_cons]
          exact dropEmptyKvs_leaf kvs (by simpa [J.wf] using h) k qs
    | .null, _, _ => by rw [dropEmpty] <;> simp
    | .bool _, _, _ => by rw [dropEmpty] <;> simp
    | .num _, _, _ => by rw [dropEmpty] <;> simp
    | .str _, _, _ => by rw [dropEmpty] <;> simp
    | .arr _, _, _ => by rw [dropEmpty] <;> simp
  theorem dropEmptyKvs_leaf : ∀ (kvs : List (String × J)), wfKvs kvs = true → ∀ (k : String) (qs : List String),
      (match lookup k (dropEmptyKvs kvs) with | some v => leafAt v qs | none => none) =
      (match lookup k kvs with | some v => leafAt v qs | none => none)
    | [], _, _, _ => by simp [dropEmptyKvs]
    | (k', v) :: rest, h, k, qs => by
        simp only [wfKvs, Bool.and_eq_true, Bool.not_eq_eq_eq_not, Bool.not_true] at h
        obtain ⟨⟨hk, hv⟩, hrest⟩ := h
        have ihv := dropEmpty_leaf v hv qs
        have ihr := dropEmptyKvs_leaf rest hrest k qs
        by_cases hd : dropEmpty v = .obj []
        · rw [dropEmptyKvs_cons_empty _ _ _ hd]
          by_cases e : k' = k
          · subst e
            have hnone : lookup k' (dropEmptyKvs rest) = none :=
              lookup_none_of_any (dropEmptyKvs_keys rest k' hk)
            rw [hd, leafAt_empty] at ihv
            simp [J.lookup, hnone, ← ihv]
          · simp [J.lookup, e, ihr]
        · rw [dropEmptyKvs_cons_nonempty _ _ _ hd]
          by_cases e : k' = k
          · subst e; simp [J.lookup, ihv]
          · simp [J.lookup, e, ihr]
end

end Kopf.C18
