/-
  C04 — helper lemmas about association lists (`J.lookup/erase/insert`), well-formedness and
  the induction principle over `J` that follows object values only.
-/
import Kopf.Base.J
import Kopf.Base.Merge
import Kopf.Model.C04_Guards
namespace Kopf.C04
open Kopf Kopf.J

/-- `k` is a key of the association list (the form `J.wfKvs` uses). -/
def hasKey (k : String) (l : Kvs) : Bool := l.any (·.1 == k)

@[simp] theorem hasKey_nil (k : String) : hasKey k [] = false := rfl
@[simp] theorem hasKey_cons (k k' : String) (v : J) (l : Kvs) :
    hasKey k ((k', v) :: l) = (k' == k || hasKey k l) := by
  simp [hasKey, List.any_cons]

theorem lookup_none_iff (k : String) (l : Kvs) : lookup k l = none ↔ hasKey k l = false := by
  induction l with
  | nil => simp
  | cons kv l ih =>
    obtain ⟨k', v⟩ := kv
    by_cases h : k' = k <;> simp [lookup_cons, h, ih]

theorem lookup_some_hasKey {k : String} {l : Kvs} {v : J} (h : lookup k l = some v) :
    hasKey k l = true := by
  cases hk : hasKey k l with
  | true => rfl
  | false => rw [(lookup_none_iff k l).2 hk] at h; cases h

theorem hasKey_lookup {k : String} {l : Kvs} (h : hasKey k l = true) : ∃ v, lookup k l = some v := by
  cases hl : lookup k l with
  | some v => exact ⟨v, rfl⟩
  | none => rw [(lookup_none_iff k l).1 hl] at h; cases h

theorem mem_of_lookup {k : String} {l : Kvs} {v : J} (h : lookup k l = some v) : (k, v) ∈ l := by
  induction l with
  | nil => simp at h
  | cons kv l ih =>
    obtain ⟨k', v'⟩ := kv
    by_cases hk : k' = k
    · simp [lookup_cons, hk] at h; subst hk; subst h; exact List.mem_cons_self
    · simp [lookup_cons, hk] at h; exact List.mem_cons_of_mem _ (ih h)

theorem hasKey_of_mem {k : String} {l : Kvs} {v : J} (h : (k, v) ∈ l) : hasKey k l = true := by
  simp only [hasKey, List.any_eq_true]
  exact ⟨(k, v), h, by simp⟩

theorem wfKvs_cons (k : String) (x : J) (l : Kvs) :
    wfKvs ((k, x) :: l) = true ↔ hasKey k l = false ∧ wf x = true ∧ wfKvs l = true := by
  simp [wfKvs, hasKey, Bool.and_eq_true]
  constructor
  · rintro ⟨⟨h1, h2⟩, h3⟩; exact ⟨h1, h2, h3⟩
  · rintro ⟨h1, h2, h3⟩; exact ⟨⟨h1, h2⟩, h3⟩

/-- with unique keys, membership is lookup. -/
theorem lookup_of_mem {k : String} {l : Kvs} {v : J} (hw : wfKvs l = true) (h : (k, v) ∈ l) :
    lookup k l = some v := by
  induction l with
  | nil => cases h
  | cons kv l ih =>
    obtain ⟨k', v'⟩ := kv
    obtain ⟨hk, _, hl⟩ := (wfKvs_cons k' v' l).1 hw
    rcases List.mem_cons.1 h with h | h
    · cases h; simp [lookup_cons]
    · have : k' ≠ k := by
        intro e; subst e
        rw [hasKey_of_mem h] at hk; cases hk
      simp [lookup_cons, this, ih hl h]

theorem wf_of_mem {k : String} {l : Kvs} {v : J} (hw : wfKvs l = true) (h : (k, v) ∈ l) : wf v = true := by
  induction l with
  | nil => cases h
  | cons kv l ih =>
    obtain ⟨k', v'⟩ := kv
    obtain ⟨_, hv, hl⟩ := (wfKvs_cons k' v' l).1 hw
    rcases List.mem_cons.1 h with h | h
    · cases h; exact hv
    · exact ih hl h

theorem wf_of_lookup {k : String} {l : Kvs} {v : J} (hw : wfKvs l = true) (h : lookup k l = some v) :
    wf v = true := wf_of_mem hw (mem_of_lookup h)

/-! ### induction over `J` through object values only -/

mutual
  theorem objInd_aux {P : J → Prop} (hleaf : ∀ a, a.isObj = false → P a)
      (hobj : ∀ kvs, (∀ k x, (k, x) ∈ kvs → P x) → P (.obj kvs)) : ∀ a : J, P a
    | .null => hleaf _ rfl
    | .bool _ => hleaf _ rfl
    | .num _ => hleaf _ rfl
    | .str _ => hleaf _ rfl
    | .arr _ => hleaf _ rfl
    | .obj kvs => hobj kvs (objInd_kvs hleaf hobj kvs)
  theorem objInd_kvs {P : J → Prop} (hleaf : ∀ a, a.isObj = false → P a)
      (hobj : ∀ kvs, (∀ k x, (k, x) ∈ kvs → P x) → P (.obj kvs)) :
      ∀ kvs : List (String × J), ∀ k x, (k, x) ∈ kvs → P x
    | [], _, _, h => by cases h
    | (k', x') :: rest, k, x, h => by
        rcases List.mem_cons.1 h with h | h
        · cases h; exact objInd_aux hleaf hobj x'
        · exact objInd_kvs hleaf hobj rest k x h
end

theorem objInduction {P : J → Prop} (a : J) (hleaf : ∀ a, a.isObj = false → P a)
    (hobj : ∀ kvs, (∀ k x, (k, x) ∈ kvs → P x) → P (.obj kvs)) : P a :=
  objInd_aux hleaf hobj a

end Kopf.C04
