/-
  C20 helper lemmas: `InvT` is preserved by the labels of group 9 (see `Label.grpD`), `delay` excepted.
-/
import Kopf.Lemmas.C20_Defs
set_option linter.unusedSimpArgs false
set_option linter.unusedVariables false
namespace Kopf.C20

set_option maxHeartbeats 16000000 in
theorem InvT.pres_d9 {cfg : Cfg} {s s' : State} {l : Label} (hB : InvB s) (hC : InvC s) (hD : InvD cfg s)
    (hE : InvE cfg s) (hI : InvT cfg s) (hl : ∀ n, l ≠ .delay n) (hg : l.grpD = 9)
    (h : step cfg s l = some s') : InvT cfg s' := by
  have hb2 := hB.subOrch
  have hb3 := hB.wkRoot
  have hb4 := hB.wkSub
  have hb5 := hB.werrRoot
  have hb6 := hB.werrSub
  have hb8 := hB.stoppingNone
  have hb9 := hB.subSome
  have hb10 := hB.orchStopSubs
  have hb2' : ∀ i f dl, i < s.nSubs → s.st (.sub i) = .stopping f dl →
      s.st (.root .orchestrator) = .running ∨ (s.st (.root .orchestrator)).isStopping = true := by
    intro i f dl hi hh
    have := hb2 i hi (by rw [hh]; rfl)
    cases ho : s.st (.root .orchestrator) <;> simp_all [TS.active, TS.isStopping]
  have hb9' : ∀ i f (dl : Option Nat), s.st (.sub i) = .stopping f dl → ∃ d, dl = some d := by
    intro i f dl hh; cases dl with
    | none => exact absurd hh (hb9 i f)
    | some d => exact ⟨d, rfl⟩
  have hc9 := hC.waitingEarly
  have hd1 := hD.dlRoot
  have hd2 := hD.dlSub
  have hd2s := hD.dlStream
  have he2 := hE.orchWaiting
  have he8 := hE.werrNotGone
  have he9 := hE.coreWatcherSt
  have he15 := hE.goneSt
  have hgr := grace_le_G cfg s
  have hc12 := hC.scLive
  have he13 := hE.scOverCore
  have hm : (s.tFail = none ∧ markFail s = some s.now ∧ ∀ x, markWho s x = some x)
      ∨ (∃ t, s.tFail = some t ∧ markFail s = some t ∧ ∀ x, markWho s x = s.failWho) := by
    cases ht : s.tFail <;> simp [markFail, markWho, ht]
  have hG : cfg.E ≤ G cfg ∧ cfg.W ≤ G cfg ∧ cfg.D ≤ G cfg := by unfold G; omega
  have hkO : ∀ r : Root, r.kind = .observer → r ≠ .startupCleanup ∧ r ≠ .coreWatcher ∧ r ≠ .orchestrator := by
    intro r; cases r <;> simp [Root.kind]
  have hkS : ∀ r : Root, r.kind = .simple → r ≠ .startupCleanup ∧ r ≠ .coreWatcher ∧ r ≠ .orchestrator := by
    intro r; cases r <;> simp [Root.kind]
  obtain ⟨h1, h2, h3, h4, h5, h6, h7, h8, h9, h10, h11⟩ := hI
  cases l <;> simp only [step] at h
  all_goals (first | (exfalso; simp [Label.grpD, Label.grp] at hg; done) | skip)
  all_goals (repeat' (split at h))
  all_goals (first | (cases h; done) | skip)
  all_goals (cases h)
  all_goals (first | (exfalso; simp only [Label.grpD, *] at hg; done) | (exfalso; simp only [Label.grpD, *] at hg; omega) | skip)
  all_goals (try simp only [allRootsEnded_iff, anyRootEnded_iff, othersEnded_iff, hungLive_false_iff,
    noLiveWorkerOf_iff, noLiveSub_iff, noLiveStream_iff] at *)
  all_goals constructor
  all_goals (first | exact h1 | exact h2 | exact h3 | exact h4 | exact h5 | exact h6 | exact h7 | exact h8 | exact h9 | exact h10 | exact h11 | skip)
  all_goals (try simp only [kind_orchestrator_iff, kind_killer_iff, kind_flagChecker_iff, kind_ultimate_iff,
    kind_startupCleanup_iff, kind_coreWatch_iff] at *)
  all_goals (try subst_vars)
  all_goals (try dsimp only)
  -- focused attempts, field by field, with a pruned context (the general `grind` below is the fallback)
  all_goals (try (case tfNow =>
    (try clear h2); (try clear h3); (try clear h4); (try clear h5); (try clear h6); (try clear h7); (try clear h8); (try clear h9); (try clear h10); (try clear h11); (try clear hb2); (try clear hb3); (try clear hb4); (try clear hb5); (try clear hb6); (try clear hb8); (try clear hb9); (try clear hb10); (try clear hb12); (try clear hb2'); (try clear hb9'); (try clear hc9); (try clear hd1); (try clear hd2); (try clear hd2s); (try clear he2); (try clear he8); (try clear he9); (try clear he15); (try clear hgr); (try clear hc12); (try clear he13); (try clear hG); (try clear hkO); (try clear hkS); (try clear hlc); (try clear hg); (try clear hl)
    grind [upd, Root.kind, TS.active, TS.live, TS.ended, TS.isStopping, failTS, cancelSubs, cancelPingers,
    cancelRoots, cancelRootsV, Pend.ts, scFailPath, scEarly, G, grace]))
  all_goals (try (case whoSome =>
    (try clear h1); (try clear h3); (try clear h4); (try clear h5); (try clear h6); (try clear h7); (try clear h8); (try clear h9); (try clear h10); (try clear h11); (try clear hb2); (try clear hb3); (try clear hb4); (try clear hb5); (try clear hb6); (try clear hb8); (try clear hb9); (try clear hb10); (try clear hb12); (try clear hb2'); (try clear hb9'); (try clear hc9); (try clear hd1); (try clear hd2); (try clear hd2s); (try clear he2); (try clear he8); (try clear he9); (try clear he15); (try clear hgr); (try clear hc12); (try clear he13); (try clear hG); (try clear hkO); (try clear hkS); (try clear hlc); (try clear hg); (try clear hl)
    grind [upd, Root.kind, TS.active, TS.live, TS.ended, TS.isStopping, failTS, cancelSubs, cancelPingers,
    cancelRoots, cancelRootsV, Pend.ts, scFailPath, scEarly, G, grace]))
  all_goals (try (case orchAtSome =>
    (try clear h1); (try clear h2); (try clear h4); (try clear h5); (try clear h6); (try clear h7); (try clear h8); (try clear h9); (try clear h10); (try clear h11); (try clear hb2); (try clear hb3); (try clear hb4); (try clear hb5); (try clear hb6); (try clear hb8); (try clear hb9); (try clear hb10); (try clear hb12); (try clear hb2'); (try clear hb9'); (try clear hc9); (try clear hd1); (try clear hd2); (try clear hd2s); (try clear he2); (try clear he8); (try clear he9); (try clear he15); (try clear hgr); (try clear hc12); (try clear he13); (try clear hm); (try clear hG); (try clear hkO); (try clear hkS); (try clear hlc); (try clear hg); (try clear hl)
    grind [upd, Root.kind, TS.active, TS.live, TS.ended, TS.isStopping, failTS, cancelSubs, cancelPingers,
    cancelRoots, cancelRootsV, Pend.ts, scFailPath, scEarly, G, grace]))
  all_goals (try (case orchAtLe =>
    (try clear h1); (try clear h2); (try clear h3); (try clear h5); (try clear h6); (try clear h7); (try clear h8); (try clear h9); (try clear h10); (try clear h11); (try clear hb2); (try clear hb3); (try clear hb4); (try clear hb5); (try clear hb6); (try clear hb8); (try clear hb9); (try clear hb10); (try clear hb12); (try clear hb2'); (try clear hb9'); (try clear hc9); (try clear hd1); (try clear hd2); (try clear hd2s); (try clear he2); (try clear he8); (try clear he9); (try clear he15); (try clear hgr); (try clear hc12); (try clear he13); (try clear hm); (try clear hG); (try clear hkO); (try clear hkS); (try clear hlc); (try clear hg); (try clear hl)
    grind [upd, Root.kind, TS.active, TS.live, TS.ended, TS.isStopping, failTS, cancelSubs, cancelPingers,
    cancelRoots, cancelRootsV, Pend.ts, scFailPath, scEarly, G, grace]))
  all_goals (try (case c2 =>
    (try clear h1); (try clear h2); (try clear h3); (try clear h4); (try clear h6); (try clear h7); (try clear h8); (try clear h9); (try clear h10); (try clear hb3); (try clear hb4); (try clear hb5); (try clear hb6); (try clear hb2'); (try clear hb9'); (try clear hc9); (try clear hd1); (try clear hd2); (try clear hd2s); (try clear he8); (try clear he9); (try clear he15); (try clear hgr); (try clear hc12); (try clear he13); (try clear hm); (try clear hG); (try clear hkO); (try clear hkS); (try clear hg); (try clear hl)
    grind [upd, Root.kind, TS.active, TS.live, TS.ended, TS.isStopping, failTS, cancelSubs, cancelPingers,
    cancelRoots, cancelRootsV, Pend.ts, scFailPath, scEarly, G, grace]))
  all_goals (try (case d2 =>
    (try clear h1); (try clear h2); (try clear h3); (try clear h4); (try clear h7); (try clear h8); (try clear h9); (try clear h10); (try clear hb3); (try clear hb4); (try clear hb5); (try clear hb6); (try clear hb8); (try clear hb10); (try clear hb12); (try clear hb2'); (try clear hc9); (try clear hd1); (try clear hd2s); (try clear he2); (try clear he8); (try clear he9); (try clear he15); (try clear hc12); (try clear he13); (try clear hm); (try clear hkO); (try clear hkS); (try clear hlc); (try clear hg); (try clear hl)
    grind [upd, Root.kind, TS.active, TS.live, TS.ended, TS.isStopping, failTS, cancelSubs, cancelPingers,
    cancelRoots, cancelRootsV, Pend.ts, scFailPath, scEarly, G, grace]))
  all_goals (try (case d2S =>
    (try clear h1); (try clear h2); (try clear h3); (try clear h4); (try clear h6); (try clear h7); (try clear h8); (try clear h9); (try clear h11); (try clear hb3); (try clear hb4); (try clear hb5); (try clear hb6); (try clear hb8); (try clear hb10); (try clear hb12); (try clear hb2'); (try clear hb9'); (try clear hc9); (try clear hd1); (try clear hd2); (try clear he2); (try clear he8); (try clear he9); (try clear he15); (try clear hgr); (try clear hc12); (try clear he13); (try clear hm); (try clear hG); (try clear hkO); (try clear hkS); (try clear hlc); (try clear hg); (try clear hl)
    grind [upd, Root.kind, TS.active, TS.live, TS.ended, TS.isStopping, failTS, cancelSubs, cancelPingers,
    cancelRoots, cancelRootsV, Pend.ts, scFailPath, scEarly, G, grace]))
  all_goals (try (case p2 =>
    (try clear h1); (try clear h2); (try clear h3); (try clear h4); (try clear h5); (try clear h6); (try clear h7); (try clear h8); (try clear h9); (try clear h10); (try clear hb2); (try clear hb3); (try clear hb4); (try clear hb5); (try clear hb6); (try clear hb8); (try clear hb9); (try clear hb10); (try clear hb2'); (try clear hb9'); (try clear hc9); (try clear hd1); (try clear hd2); (try clear hd2s); (try clear he2); (try clear he8); (try clear he9); (try clear he15); (try clear hgr); (try clear hc12); (try clear he13); (try clear hm); (try clear hG); (try clear hkO); (try clear hkS); (try clear hlc); (try clear hg); (try clear hl)
    grind [upd, Root.kind, TS.active, TS.live, TS.ended, TS.isStopping, failTS, cancelSubs, cancelPingers,
    cancelRoots, cancelRootsV, Pend.ts, scFailPath, scEarly, G, grace]))
  all_goals (try (case whoRoot =>
    (try clear h2); (try clear h3); (try clear h4); (try clear h5); (try clear h6); (try clear h8); (try clear h9); (try clear h10); (try clear h11); (try clear hb2); (try clear hb4); (try clear hb6); (try clear hb9); (try clear hb10); (try clear hb12); (try clear hb2'); (try clear hb9'); (try clear hd2); (try clear hd2s); (try clear he2); (try clear he8); (try clear he15); (try clear hg); (try clear hl)
    grind [upd, Root.kind, TS.active, TS.live, TS.ended, TS.isStopping, failTS, cancelSubs, cancelPingers,
    cancelRoots, cancelRootsV, Pend.ts, scFailPath, scEarly, G, grace]))
  all_goals (try (case whoSub =>
    (try clear h2); (try clear h5); (try clear h6); (try clear h7); (try clear h9); (try clear h10); (try clear h11); (try clear hb3); (try clear hb5); (try clear hb8); (try clear hb10); (try clear hb12); (try clear hd1); (try clear hd2s); (try clear he9); (try clear hc12); (try clear he13); (try clear hkO); (try clear hkS); (try clear hg); (try clear hl)
    grind [upd, Root.kind, TS.active, TS.live, TS.ended, TS.isStopping, failTS, cancelSubs, cancelPingers,
    cancelRoots, cancelRootsV, Pend.ts, scFailPath, scEarly, G, grace]))
  all_goals (try (case bound =>
    (try clear h2); (try clear h3); (try clear h4); (try clear h5); (try clear h6); (try clear h7); (try clear h8); (try clear h10); (try clear h11); (try clear hb2); (try clear hb3); (try clear hb4); (try clear hb5); (try clear hb6); (try clear hb8); (try clear hb9); (try clear hb10); (try clear hb12); (try clear hb2'); (try clear hb9'); (try clear hd1); (try clear hd2); (try clear hd2s); (try clear he2); (try clear he8); (try clear he9); (try clear he15); (try clear hgr); (try clear hc12); (try clear he13); (try clear hG); (try clear hkO); (try clear hkS); (try clear hlc); (try clear hg); (try clear hl)
    grind [upd, Root.kind, TS.active, TS.live, TS.ended, TS.isStopping, failTS, cancelSubs, cancelPingers,
    cancelRoots, cancelRootsV, Pend.ts, scFailPath, scEarly, G, grace]))
  all_goals (grind (splits := 30) [upd, Root.kind, TS.active, TS.live, TS.ended, TS.isStopping, failTS, cancelSubs, cancelPingers,
    cancelRoots, cancelRootsV, Pend.ts, scFailPath, scEarly, G, grace])

end Kopf.C20
