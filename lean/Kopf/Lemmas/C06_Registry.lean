/-
  C06 lemmas for `requires_finalizer` (Kopf/Model/C06_Registry.lean).
-/
import Kopf.Model.C06_Registry
namespace Kopf.C06

theorem requiresLoop_iff (ex : List String) (regs : List Reg) :
    requiresLoop ex regs = true ↔ ∃ r ∈ regs, r.id ∉ ex ∧ r.requires = true ∧ r.hit = true := by
  induction regs with
  | nil => simp [requiresLoop]
  | cons r rs ih =>
    unfold requiresLoop
    by_cases hex : ex.contains r.id = true
    · have hmem : r.id ∈ ex := by simpa using hex
      simp only [hex, Bool.not_true, Bool.false_eq_true, if_false, ih]
      constructor
      · rintro ⟨x, hx, h⟩; exact ⟨x, List.mem_cons_of_mem _ hx, h⟩
      · rintro ⟨x, hx, hnx, h⟩
        rcases List.mem_cons.mp hx with rfl | hx
        · exact absurd hmem hnx
        · exact ⟨x, hx, hnx, h⟩
    · have hnm : r.id ∉ ex := by simpa using hex
      have hex' : ex.contains r.id = false := by simpa using hex
      simp only [hex', Bool.not_false, if_true]
      by_cases hrm : (r.requires && r.hit) = true
      · simp only [hrm, if_true, true_iff]
        have := Bool.and_eq_true_iff.mp hrm
        exact ⟨r, List.mem_cons_self, hnm, this.1, this.2⟩
      · simp only [hrm, Bool.false_eq_true, if_false, ih]
        constructor
        · rintro ⟨x, hx, h⟩; exact ⟨x, List.mem_cons_of_mem _ hx, h⟩
        · rintro ⟨x, hx, hnx, h1, h2⟩
          rcases List.mem_cons.mp hx with rfl | hx
          · exact absurd (by simp [h1, h2]) hrm
          · exact ⟨x, hx, hnx, h1, h2⟩

end Kopf.C06
